(* Lsm/IterPathProofs.v — the composition (proof file): the DB iterator computed on BYTES (Lsm/IterPath.v:
   newIterator's range conversion, newRawIterator's children - real memdb iterators over the array-encoded
   skip lists, real table iterators over table file bytes, one indexed iterator per deeper level over
   tFiles.newIndexIterator - the merged iterator, dbIter) shows, for every finite sequence of
   First/Last/Seek/Next/Prev, exactly what the reference cursor over the live pairs of the stored entries
   inside [Start, Limit) shows.
   Layers used as lemmas, not re-proved: C14 (Lsm/IterPathChild.v over Mem/MemIter.v), C13
   (table_iter_refines, table_iter_range_refines), C02's own machine theorems (indexed_is_cursor,
   merged_is_cursor, dbiter_refines, live_pairs_slice), C15 (the encoded order ibc is lawful), C06's
   sort.Search lemma. *)
From GL Require Import Base.Bytes Base.BytesProofs Base.Order Base.OrderProofs Codec.IKey Codec.IKeyProofs
  Codec.Block Codec.Table Codec.TableProofs Codec.TableCheck
  Lsm.Lsm Lsm.LsmProofs Lsm.ReadPath Lsm.ReadPathKey Lsm.ReadPathMem Lsm.ReadPathTable Lsm.ReadPathProofs
  Lsm.IterPath Lsm.IterPathChild Lsm.IterPathLevel.
From GL Require Base.Cursor Mem.MemDB.
From GL Require Import Iter.Cursor Iter.CursorProofs Iter.CursorBridge Iter.Merged Iter.MergedProofs Iter.Indexed
  Iter.DBIter Iter.LiveProofs Iter.DBIterProofs Iter.StackProofs Iter.DBIterCong.
From Coq Require Import Lia Arith.

(* ------------------------------------------------------------------ lists *)
Lemma sorted_kv_ext {K V} (f : K -> K -> comparison) (fok : ord_ok f) : forall l1 l2 : list (K * V),
  sorted_kv f l1 -> sorted_kv f l2 -> (forall x, In x l1 <-> In x l2) -> l1 = l2.
Proof.
  induction l1 as [|x l1 IH]; intros l2 H1 H2 E.
  - destruct l2 as [|y l2]; [reflexivity|]. exfalso. apply (E y). left. reflexivity.
  - destruct l2 as [|y l2]; [exfalso; apply (E x); left; reflexivity|].
    apply StronglySorted_inv in H1 as [S1 A1]. apply StronglySorted_inv in H2 as [S2 A2].
    rewrite Forall_forall in A1, A2.
    assert (Exy : x = y).
    { destruct (proj1 (E x) (or_introl eq_refl)) as [Hy|Hy]; [auto|].
      destruct (proj2 (E y) (or_introl eq_refl)) as [Hx|Hx]; [auto|].
      pose proof (A2 x Hy) as L1. pose proof (A1 y Hx) as L2. unfold kv_lt in L1, L2.
      exfalso. exact (f_lt_asym f fok _ _ L1 L2). }
    subst y. f_equal. apply IH; [exact S1|exact S2|].
    intros z. split; intros Hz.
    + destruct (proj1 (E z) (or_intror Hz)) as [->|Hz']; [|exact Hz'].
      exfalso. exact (f_lt_irrefl f fok _ (A1 z Hz)).
    + destruct (proj2 (E z) (or_intror Hz)) as [->|Hz']; [|exact Hz'].
      exfalso. exact (f_lt_irrefl f fok _ (A2 z Hz)).
Qed.

Lemma nodup_map_filter {A B} (h : A -> B) (g : A -> bool) (l : list A) : NoDup (map h l) -> NoDup (map h (filter g l)).
Proof.
  induction l as [|x l IH]; intros H; [constructor|]. cbn [map] in H. apply NoDup_cons_iff in H as [Hn H].
  cbn [filter]. destruct (g x); [|apply IH; exact H]. cbn [map]. constructor; [|apply IH; exact H].
  intros Hin. apply Hn. apply in_map_iff in Hin as (y & E & Hy). apply filter_In in Hy as [Hy _].
  apply in_map_iff. exists y. auto.
Qed.

Lemma filter_length_le' {A} (g : A -> bool) (l : list A) : length (filter g l) <= length l.
Proof. induction l as [|x l IH]; [cbn; lia|]. cbn [filter]. destruct (g x); cbn [length]; lia. Qed.

Lemma filter_concat {A} (g : A -> bool) (ls : list (list A)) : filter g (concat ls) = concat (map (filter g) ls).
Proof. induction ls as [|l ls IH]; [reflexivity|]. cbn [concat map]. rewrite filter_app, IH. reflexivity. Qed.

Lemma nodup_map_comp {A B D} (f : A -> B) (h : B -> D) (l : list A) : NoDup (map (fun x => h (f x)) l) -> NoDup (map f l).
Proof.
  induction l as [|x l IH]; intros H; [constructor|]. cbn [map] in *. apply NoDup_cons_iff in H as [Hn H].
  constructor; [|apply IH; exact H]. intros Hin. apply Hn. apply in_map_iff in Hin as (y & E & Hy).
  apply in_map_iff. exists y. split; [rewrite E; reflexivity|exact Hy].
Qed.

Lemma sorted_filter_gen {K V} (f : K -> K -> comparison) (g : K * V -> bool) (l : list (K * V)) :
  sorted_kv f l -> sorted_kv f (filter g l).
Proof.
  induction l as [|x l IH]; intros H; [constructor|].
  apply StronglySorted_inv in H as [Hs Hall]. cbn [filter].
  destruct (g x); [|apply IH; exact Hs].
  constructor; [apply IH; exact Hs|].
  rewrite Forall_forall in *. intros y Hy. apply filter_In in Hy as [Hy _]. apply Hall. exact Hy.
Qed.

(* filtering commutes with merging *)
Lemma merge_filter {K V} (f : K -> K -> comparison) (fok : ord_ok f) (g : K * V -> bool) (ls : list (list (K * V))) :
  NoDup (map fst (concat ls)) ->
  merge_lists f (map (filter g) ls) = filter g (merge_lists f ls).
Proof.
  intros Hnd. apply (sorted_kv_ext f fok).
  - apply (merge_sorted K V f fok). rewrite <- filter_concat. apply nodup_map_filter. exact Hnd.
  - apply sorted_filter_gen. apply (merge_sorted K V f fok). exact Hnd.
  - intros x. unfold merge_lists. rewrite (fold_insert_in K V f), <- filter_concat, !filter_In, (fold_insert_in K V f).
    reflexivity.
Qed.

Section Compose.
  Variable c : comparer.
  Hypothesis ok : comparer_ok c.
  Variable p : kparams.
  Hypothesis dpok : dbparams_ok p.
  Variable mp : MemDB.mparams.
  Hypothesis mpok : MemDB.mparams_ok mp.
  Variable tp : tparams.
  Variable crc : bytes -> N.
  Variable decompress : bytes -> option bytes.
  Variable fname : option bytes.
  Variable ufc : bytes -> N -> bytes -> bool.
  Variable verify : bool.
  Variable ri : N.
  Variable strict : bool.

  Local Notation ic := (ibc c).
  Local Notation icok := (ibc_ok c ok).
  Local Notation fok := (cmp_ord_ok ic icok).
  Local Notation okb := (tfile_okb c p tp crc decompress fname ufc verify ri).
  Local Notation pairs := (tf_pairs c tp crc decompress fname ufc verify ri).
  Local Notation atab := (abs_table c tp crc decompress fname ufc verify ri).
  Local Notation tnew := (tc_new c tp crc decompress fname ufc verify strict).
  Local Notation fileok := (file_ok c tp crc decompress fname ufc verify strict pairs).
  Local Notation levelok := (level_ok c tp crc decompress fname ufc verify strict pairs).
  Local Notation bstep := (bc_step c mp tp crc decompress fname ufc verify strict).

  Lemma pok : kparams_ok p. Proof. exact (proj1 dpok). Qed.
  Lemma seek_val : (keyTypeSeek p <= keyTypeVal p)%N. Proof. exact (proj1 (proj2 dpok)). Qed.

  (* ---------------- one table file ---------------- *)
  Lemma okb_file_ok f : okb f = true -> fileok f.
  Proof.
    intros Hf. destruct (okb_facts c p tp crc decompress fname ufc verify ri f Hf) as (bl & se & hs & F).
    pose proof (tff_wf _ _ _ _ _ _ _ _ _ _ _ _ _ F) as W.
    pose proof (tff_pairs _ _ _ _ _ _ _ _ _ _ _ _ _ F) as Ep.
    constructor.
    - rewrite Ep. exact (tff_bounds _ _ _ _ _ _ _ _ _ _ _ _ _ F).
    - rewrite Ep. apply (sorted_base_kv ic icok). exact (twf_sorted _ _ _ _ _ W).
    - intros sl. rewrite Ep. apply (tab_child_refines c ok tp crc decompress fname ufc verify strict f bl se hs sl W).
  Qed.

  Lemma okb_keys f x : okb f = true -> In x (pairs f) -> key_okb p (fst x) = true.
  Proof.
    intros Hf Hx. destruct (okb_facts c p tp crc decompress fname ufc verify ri f Hf) as (bl & se & hs & F).
    pose proof (tff_keys _ _ _ _ _ _ _ _ _ _ _ _ _ F) as Hk. rewrite <- (tff_pairs _ _ _ _ _ _ _ _ _ _ _ _ _ F) in Hk.
    unfold keys_ok in Hk. rewrite Forall_forall in Hk. apply Hk. exact Hx.
  Qed.

  (* ---------------- one deeper level ---------------- *)
  Lemma level_ok_of ts : Forall (fun f => okb f = true) ts -> level_sorted c (map atab ts) -> levelok ts.
  Proof.
    intros Hok Hls. split.
    - eapply Forall_impl; [|exact Hok]. intros f Hf. apply okb_file_ok. exact Hf.
    - induction ts as [|f ts IH]; [constructor|]. inversion Hok as [|? ? Hf Hok']; subst.
      cbn [map level_sorted] in Hls. destruct Hls as [Hsep Hls]. constructor; [apply IH; assumption|].
      rewrite Forall_forall. intros g Hg x y Hx Hy. rewrite Forall_forall in Hsep, Hok'.
      destruct (key_okb_dec p _ (okb_keys f x Hf Hx)) as (kx & Dx & _).
      destruct (key_okb_dec p _ (okb_keys g y (Hok' g Hg) Hy)) as (ky & Dy & _).
      rewrite (ibc_dec c _ _ _ _ Dx Dy). apply (icmp_ukey_lt c).
      specialize (Hsep (atab g) (in_map atab _ _ Hg) (entry_of x) (entry_of y)).
      rewrite (entry_of_dec x kx Dx), (entry_of_dec y ky Dy) in Hsep. cbn [e_uk] in Hsep.
      apply Hsep; unfold abs_table; cbn [t_entries]; [rewrite <- (entry_of_dec x kx Dx)|rewrite <- (entry_of_dec y ky Dy)];
        apply in_map; assumption.
  Qed.

  (* ---------------- the children and the lists they range over ---------------- *)
  Definition opt_list {A} (o : option A) : list A := match o with Some a => [a] | None => [] end.

  Definition level_list (ts : list tfile) : list (list (bytes * bytes)) :=
    match ts with [] => [] | _ => [lv_pairs pairs ts] end.

  Definition table_lists (lvls : list (list tfile)) : list (list (bytes * bytes)) :=
    match lvls with
    | [] => []
    | l0 :: rest => map pairs l0 ++ flat_map level_list rest
    end.

  (* the pair lists of the children, in the order of newRawIterator *)
  Definition child_lists (auxm : option MemDB.db) (auxt : list tfile) (st : bstate) : list (list (bytes * bytes)) :=
    map (mem_pairs mp) (opt_list auxm) ++ map pairs auxt ++
    map (mem_pairs mp) (opt_list (bs_mem st)) ++ map (mem_pairs mp) (opt_list (bs_frozen st)) ++
    table_lists (bs_levels st).

  Record iter_wf (auxm : option MemDB.db) (auxt : list tfile) (st : bstate) : Prop := {
    iw_auxm : forall d, auxm = Some d -> mem_ok c p mp d;
    iw_mem : forall d, bs_mem st = Some d -> mem_ok c p mp d;
    iw_open : bs_mem st <> None;
    iw_frozen : forall d, bs_frozen st = Some d -> mem_ok c p mp d;
    iw_auxt : Forall (fun f => okb f = true) auxt;
    iw_tables : Forall (Forall (fun f => okb f = true)) (bs_levels st);
    iw_deep : Forall (fun ts => level_sorted c (map atab ts)) (tl (bs_levels st));
    iw_uniq : NoDup (map fst (concat (child_lists auxm auxt st)))      (* no internal key is stored twice *)
  }.

  Local Notation crefines := (refines (cmp ic) bstep bc_obs).

  Lemma mem_children d sl : mem_ok c p mp d ->
    Forall2 crefines [BMem (mc_new d sl)] [sl_pairs ic sl (mem_pairs mp d)].
  Proof.
    intros H. constructor; [|constructor].
    pose proof (mem_child_refines c ok p seek_val mp mpok d sl H) as R.
    intros ms. specialize (R ms). rewrite <- R.
    assert (E : forall x, bb_run bstep (BMem x) ms = BMem (bb_run (mc_step c mp) x ms)).
    { clear. induction ms as [|m ms IH]; intros x; [reflexivity|]. cbn [bb_run fold_left bc_step]. apply (IH (mc_step c mp x m)). }
    rewrite E. reflexivity.
  Qed.

  Lemma opt_mem_children o sl : (forall d, o = Some d -> mem_ok c p mp d) ->
    Forall2 crefines (match o with Some a => [BMem (mc_new a sl)] | None => [] end)
                     (map (sl_pairs ic sl) (map (mem_pairs mp) (opt_list o))).
  Proof. intros H. destruct o as [d|]; [apply mem_children; apply H; reflexivity|constructor]. Qed.

  Lemma tab_children ts sl : Forall (fun f => okb f = true) ts ->
    Forall2 crefines (map (fun t => BTab (tnew t sl)) ts) (map (sl_pairs ic sl) (map pairs ts)).
  Proof.
    induction ts as [|f ts IH]; intros H; [constructor|]. inversion H as [|? ? Hf H']; subst.
    cbn [map]. constructor; [|apply IH; exact H'].
    pose proof (fo_iter _ _ _ _ _ _ _ _ _ _ (okb_file_ok f Hf) sl) as R.
    intros ms. specialize (R ms). rewrite <- R.
    assert (E : forall x, bb_run bstep (BTab x) ms = BTab (bb_run (tc_step c) x ms)).
    { clear. induction ms as [|m ms IH]; intros x; [reflexivity|]. cbn [bb_run fold_left bc_step]. apply (IH (tc_step c x m)). }
    rewrite E. reflexivity.
  Qed.

  Lemma level_children ts sl : Forall (fun f => okb f = true) ts -> level_sorted c (map atab ts) ->
    Forall2 crefines (level_child c ts sl) (map (sl_pairs ic sl) (level_list ts)).
  Proof.
    intros Hok Hls. destruct ts as [|f ts]; [constructor|].
    unfold level_child, level_list. cbn [map]. constructor; [|constructor].
    pose proof (level_refines c ok tp crc decompress fname ufc verify strict pairs (f :: ts) sl (S (S (length (f :: ts))))
                  (level_ok_of _ Hok Hls) ltac:(lia)) as R.
    intros ms. specialize (R ms). rewrite <- R.
    set (fuel := S (S (length (f :: ts)))).
    assert (E : forall x, bb_run bstep (BLevel fuel x) ms =
                          BLevel fuel (bb_run (lv_step c tp crc decompress fname ufc verify strict fuel) x ms)).
    { clear. induction ms as [|m ms IH]; intros x; [reflexivity|]. cbn [bb_run fold_left bc_step]. apply IH. }
    rewrite E. reflexivity.
  Qed.

  Lemma deep_children rest sl : Forall (Forall (fun f => okb f = true)) rest ->
    Forall (fun ts => level_sorted c (map atab ts)) rest ->
    Forall2 crefines (flat_map (fun ts => level_child c ts sl) rest) (map (sl_pairs ic sl) (flat_map level_list rest)).
  Proof.
    induction rest as [|ts rest IH]; intros H1 H2; [constructor|].
    inversion H1 as [|? ? Hts H1']; subst. inversion H2 as [|? ? Hls H2']; subst.
    cbn [flat_map]. rewrite map_app. apply Forall2_app; [apply level_children; assumption|apply IH; assumption].
  Qed.

  Lemma table_children lvls sl : Forall (Forall (fun f => okb f = true)) lvls ->
    Forall (fun ts => level_sorted c (map atab ts)) (tl lvls) ->
    Forall2 crefines (table_iterators c tp crc decompress fname ufc verify strict lvls sl)
                     (map (sl_pairs ic sl) (table_lists lvls)).
  Proof.
    intros H1 H2. destruct lvls as [|l0 rest]; [constructor|].
    inversion H1 as [|? ? H0 H1']; subst. cbn [tl] in H2.
    unfold table_iterators, table_lists. rewrite map_app.
    apply Forall2_app; [apply tab_children; exact H0|apply deep_children; assumption].
  Qed.

  Lemma raw_children_refine auxm auxt st sl : iter_wf auxm auxt st ->
    exists its, raw_children c tp crc decompress fname ufc verify strict auxm auxt st sl = Some its /\
                Forall2 crefines its (map (sl_pairs ic sl) (child_lists auxm auxt st)).
  Proof.
    intros [Ha Hm Ho Hf Hat Ht Hd _]. unfold raw_children.
    destruct (bs_mem st) as [em|] eqn:Em; [|congruence].
    eexists. split; [reflexivity|]. unfold child_lists. rewrite Em. rewrite !map_app.
    apply Forall2_app; [apply opt_mem_children; exact Ha|].
    apply Forall2_app; [apply tab_children; exact Hat|].
    apply Forall2_app; [apply (mem_children em sl); apply Hm; reflexivity|].
    apply Forall2_app; [apply opt_mem_children; exact Hf|].
    apply table_children; assumption.
  Qed.

  (* ---------------- the lists are sorted and hold stored keys only ---------------- *)
  Definition keys_okl (l : list (bytes * bytes)) : Prop := Forall (fun x => key_okb p (fst x) = true) l.

  Lemma mem_list_ok d : mem_ok c p mp d -> sorted_kv (cmp ic) (mem_pairs mp d) /\ keys_okl (mem_pairs mp d).
  Proof.
    intros [(A & L & I) Hk]. split.
    - apply (sorted_base_kv ic icok). exact (mem_pairs_sorted c p seek_val mp mpok d A L I).
    - unfold keys_okl. apply Forall_forall. unfold mem_keys_okb in Hk. rewrite forallb_forall in Hk. exact Hk.
  Qed.

  Lemma opt_mem_lists_ok o : (forall d, o = Some d -> mem_ok c p mp d) ->
    Forall (fun l => sorted_kv (cmp ic) l /\ keys_okl l) (map (mem_pairs mp) (opt_list o)).
  Proof. intros H. destruct o as [d|]; [constructor; [apply mem_list_ok; apply H; reflexivity|constructor]|constructor]. Qed.

  Lemma tab_lists_ok ts : Forall (fun f => okb f = true) ts ->
    Forall (fun l => sorted_kv (cmp ic) l /\ keys_okl l) (map pairs ts).
  Proof.
    intros H. apply Forall_map. eapply Forall_impl; [|exact H]. intros f Hf. split.
    - apply (fo_sorted _ _ _ _ _ _ _ _ _ _ (okb_file_ok f Hf)).
    - apply Forall_forall. intros x Hx. apply (okb_keys f x Hf Hx).
  Qed.

  Lemma level_list_ok ts : Forall (fun f => okb f = true) ts -> level_sorted c (map atab ts) ->
    Forall (fun l => sorted_kv (cmp ic) l /\ keys_okl l) (level_list ts).
  Proof.
    intros Hok Hls. destruct ts as [|f ts]; [constructor|]. unfold level_list. constructor; [|constructor]. split.
    - eapply lv_pairs_sorted. apply level_ok_of; assumption.
    - apply Forall_forall. intros x Hx. unfold lv_pairs in Hx. apply in_concat in Hx as (l & Hl & Hx).
      apply in_map_iff in Hl as (g & <- & Hg). rewrite Forall_forall in Hok. apply (okb_keys g x (Hok g Hg) Hx).
  Qed.

  Lemma child_lists_ok auxm auxt st : iter_wf auxm auxt st ->
    Forall (fun l => sorted_kv (cmp ic) l /\ keys_okl l) (child_lists auxm auxt st).
  Proof.
    intros [Ha Hm Ho Hf Hat Ht Hd _]. unfold child_lists.
    apply Forall_app. split; [apply opt_mem_lists_ok; exact Ha|].
    apply Forall_app. split; [apply tab_lists_ok; exact Hat|].
    apply Forall_app. split; [apply opt_mem_lists_ok; exact Hm|].
    apply Forall_app. split; [apply opt_mem_lists_ok; exact Hf|].
    unfold table_lists. destruct (bs_levels st) as [|l0 rest]; [constructor|].
    inversion Ht as [|? ? H0 Ht']; subst. cbn [tl] in Hd.
    apply Forall_app. split; [apply tab_lists_ok; exact H0|].
    clear H0 Ht. induction rest as [|ts rest IH]; [constructor|].
    inversion Ht' as [|? ? Hts Ht'']; subst. inversion Hd as [|? ? Hls Hd']; subst.
    cbn [flat_map]. apply Forall_app. split; [apply level_list_ok; assumption|apply IH; assumption].
  Qed.

  (* ---------------- the stored entries: all pairs merged in the encoded order, then parsed ---------------- *)
  Definition all_pairs (auxm : option MemDB.db) (auxt : list tfile) (st : bstate) : list (bytes * bytes) :=
    merge_lists (cmp ic) (child_lists auxm auxt st).

  (* THE LIST the DB iterator is judged against is live_pairs of this one *)
  Definition db_entries (auxm : option MemDB.db) (auxt : list tfile) (st : bstate) : list DBIter.entry :=
    map dec_entry (all_pairs auxm auxt st).

  Lemma all_pairs_in auxm auxt st x : In x (all_pairs auxm auxt st) <-> In x (concat (child_lists auxm auxt st)).
  Proof. unfold all_pairs, merge_lists. apply (fold_insert_in bytes bytes (cmp ic)). Qed.

  Lemma all_pairs_keys auxm auxt st : iter_wf auxm auxt st -> keys_okl (all_pairs auxm auxt st).
  Proof.
    intros W. apply Forall_forall. intros x Hx. apply all_pairs_in in Hx. apply in_concat in Hx as (l & Hl & Hx).
    pose proof (child_lists_ok _ _ _ W) as H. rewrite Forall_forall in H. destruct (H l Hl) as [_ Hk].
    unfold keys_okl in Hk. rewrite Forall_forall in Hk. apply Hk. exact Hx.
  Qed.

  Lemma all_pairs_sorted auxm auxt st : iter_wf auxm auxt st -> sorted_kv (cmp ic) (all_pairs auxm auxt st).
  Proof. intros W. apply (merge_sorted bytes bytes (cmp ic) fok). exact (iw_uniq _ _ _ W). Qed.

  (* ---------------- the boundary between encoded and parsed keys ---------------- *)
  Definition enc_ok (k : ikey) : Prop := ik_dec (encode_ikey k) = Some k.

  Lemma dec_entry_key x : key_okb p (fst x) = true -> ik_dec (fst x) = Some (fst (dec_entry x)).
  Proof. intros H. destruct (key_okb_dec p _ H) as (k & D & _). unfold dec_entry. rewrite D. reflexivity. Qed.

  Lemma dec_cmp x y : key_okb p (fst x) = true -> key_okb p (fst y) = true ->
    cmp ic (fst x) (fst y) = icmp c (fst (dec_entry x)) (fst (dec_entry y)).
  Proof. intros Hx Hy. apply (ibc_dec c); apply dec_entry_key; assumption. Qed.

  Lemma dec_sorted l : keys_okl l -> sorted_kv (cmp ic) l -> sorted_kv (icmp c) (map dec_entry l).
  Proof.
    induction l as [|x l IH]; intros Hk Hs; [constructor|]. inversion Hk as [|? ? Hx Hk']; subst.
    apply StronglySorted_inv in Hs as [Hs Hall]. cbn [map]. constructor; [apply IH; assumption|].
    apply Forall_map. unfold keys_okl in Hk'. rewrite Forall_forall in *. intros y Hy. unfold kv_lt.
    rewrite <- (dec_cmp x y Hx (Hk' y Hy)). apply Hall. exact Hy.
  Qed.

  Lemma dec_wf l : keys_okl l -> Forall (entry_wf p) (map dec_entry l).
  Proof.
    intros Hk. apply Forall_map. eapply Forall_impl; [|exact Hk]. intros x Hx.
    destruct (key_okb_dec p _ Hx) as (k & D & K). unfold entry_wf, dec_entry. rewrite D. exact K.
  Qed.

  Lemma find_ge_dec k l : keys_okl l -> enc_ok k -> forall i,
    find_ge (cmp ic) (encode_ikey k) l i = find_ge (icmp c) k (map dec_entry l) i.
  Proof.
    intros Hk Ek. induction l as [|x l IH]; intros i; [reflexivity|]. inversion Hk as [|? ? Hx Hk']; subst.
    cbn [find_ge map]. rewrite (ibc_dec c _ _ _ _ (dec_entry_key x Hx) Ek).
    destruct (icmp c (fst (dec_entry x)) k); try reflexivity. apply IH. exact Hk'.
  Qed.

  Lemma cstep_dec l q m : keys_okl l -> move_in enc_ok m ->
    cstep (cmp ic) l q (enc_move m) = cstep (icmp c) (map dec_entry l) q m.
  Proof.
    intros Hk Hm. destruct m as [| |k| |]; cbn [enc_move cstep].
    - destruct l; reflexivity.
    - unfold clast. rewrite map_length. reflexivity.
    - apply find_ge_dec; assumption.
    - destruct q; [destruct l; reflexivity|rewrite map_length; reflexivity|reflexivity].
    - destruct q; try reflexivity. unfold clast. rewrite map_length. reflexivity.
  Qed.

  Lemma crun_dec l ms : keys_okl l -> Forall (move_in enc_ok) ms -> forall q,
    crun (cmp ic) l q (map enc_move ms) = crun (icmp c) (map dec_entry l) q ms.
  Proof.
    intros Hk. induction ms as [|m ms IH]; intros Hms q; [reflexivity|]. inversion Hms as [|? ? Hm Hms']; subst.
    cbn [map crun fold_left]. rewrite (cstep_dec l q m Hk Hm). apply IH. exact Hms'.
  Qed.

  Lemma cobs_dec (l : list (bytes * bytes)) q : cobs (map dec_entry l) q = option_map dec_entry (cobs l q).
  Proof. destruct q; cbn [cobs]; try reflexivity. apply nth_error_map. Qed.

  Local Notation rstep := (raw_step c mp tp crc decompress fname ufc verify strict).
  Local Notation rbstep := (rawb_step c mp tp crc decompress fname ufc verify strict).

  Lemma raw_run x ms : bb_run rstep x ms = bb_run rbstep x (map enc_move ms).
  Proof. revert x. induction ms as [|m ms IH]; intros x; [reflexivity|]. cbn [bb_run fold_left map]. apply IH. Qed.

  (* a raw iterator that is a cursor over encoded pairs is, seen through the boundary, the cursor over the
     parsed pairs - for every call sequence whose Seek keys survive encoding *)
  Lemma boundary_sim x l : keys_okl l -> refines (cmp ic) rbstep rawb_obs x l ->
    sim _ _ rstep raw_obs (cur_step (icmp c)) cur_obs enc_ok x (map dec_entry l, SOI).
  Proof.
    intros Hk R ms Hms. unfold raw_obs. rewrite raw_run, (R (map enc_move ms)).
    rewrite (crun_dec l ms Hk Hms SOI), <- cobs_dec.
    symmetry. apply (cursor_refines_itself (icmp c) (map dec_entry l) SOI ms).
  Qed.

  Lemma probe_enc_ok k s : wf_bytes k -> (s <= keyMaxSeq p)%N -> enc_ok (probe p k s).
  Proof. intros Wk Hs. exact (key_dec p pok seek_val crc decompress ufc k s Wk Hs). Qed.

  Lemma opt_probe_some o : opt_probe p o = Some (option_map (fun k => probe p k (keyMaxSeq p)) o).
  Proof. destruct o as [k|]; [|reflexivity]. unfold opt_probe. rewrite (probe_ok p dpok k). reflexivity. Qed.

  Lemma num_bound x : key_okb p (fst x) = true -> (num (fst (dec_entry x)) <= keyMaxNum p)%N.
  Proof.
    intros H. destruct (key_okb_dec p _ H) as (k & D & K). unfold dec_entry. rewrite D. cbn [fst].
    pose proof (ik_dec_num_bound _ _ D) as B. destruct pok as (H1 & H2 & _ & H256 & Hmax & Hnum).
    rewrite Hnum, Hmax. unfold ik_kind in K.
    pose proof (N.div_mod (num k) 256 ltac:(discriminate)) as DM.
    pose proof (N.mod_lt (num k) 256 ltac:(discriminate)) as ML.
    assert (Hq : (num k / 256 < 2 ^ 56)%N).
    { apply N.div_lt_upper_bound; [discriminate|]. change (256 * 2 ^ 56)%N with (2 ^ 64)%N. exact B. }
    change (2 ^ 56)%N with 72057594037927936%N in *.
    destruct K as [K|K]; rewrite K in DM; nia.
  Qed.

  (* slicing by the encoded probes = slicing the parsed entries by the parsed probes *)
  Lemma dec_restrict a b l : keys_okl l ->
    (forall k, a = Some k -> wf_bytes k) -> (forall k, b = Some k -> wf_bytes k) ->
    map dec_entry (Base.Cursor.restrict ic
                     (option_map encode_ikey (option_map (fun k => probe p k (keyMaxSeq p)) a))
                     (option_map encode_ikey (option_map (fun k => probe p k (keyMaxSeq p)) b)) l) =
    slice_entries c (option_map (fun k => probe p k (keyMaxSeq p)) a)
                    (option_map (fun k => probe p k (keyMaxSeq p)) b) (map dec_entry l).
  Proof.
    intros Hk Wa Wb. unfold Base.Cursor.restrict, slice_entries.
    induction l as [|x l IH]; [reflexivity|]. inversion Hk as [|? ? Hx Hk']; subst.
    cbn [filter map].
    assert (E : Base.Cursor.in_range ic
                  (option_map encode_ikey (option_map (fun k => probe p k (keyMaxSeq p)) a))
                  (option_map encode_ikey (option_map (fun k => probe p k (keyMaxSeq p)) b)) x =
                in_islice c (option_map (fun k => probe p k (keyMaxSeq p)) a)
                            (option_map (fun k => probe p k (keyMaxSeq p)) b) (dec_entry x)).
    { unfold Base.Cursor.in_range, in_islice. f_equal.
      - destruct a as [k|]; [|reflexivity]. cbn [option_map]. unfold Order.leb.
        rewrite (cmp_opp ic icok).
        rewrite (ibc_dec c _ _ _ _ (dec_entry_key x Hx) (probe_enc_ok k _ (Wa k eq_refl) (N.le_refl _))).
        destruct (icmp c (fst (dec_entry x)) (probe p k (keyMaxSeq p))); reflexivity.
      - destruct b as [k|]; [|reflexivity]. cbn [option_map]. unfold Order.ltb.
        rewrite (ibc_dec c _ _ _ _ (dec_entry_key x Hx) (probe_enc_ok k _ (Wb k eq_refl) (N.le_refl _))).
        reflexivity. }
    rewrite E. destruct (in_islice c _ _ (dec_entry x)); cbn [map]; [f_equal|]; apply IH; exact Hk'.
  Qed.

  Lemma sl_pairs_keys sl l : keys_okl l -> keys_okl (sl_pairs ic sl l).
  Proof.
    intros H. unfold keys_okl in *. rewrite Forall_forall in *. intros x Hx. apply H. eapply sl_pairs_incl; eauto.
  Qed.

  Lemma sl_map_some ia ib (ls : list (list (bytes * bytes))) :
    map (sl_pairs ic (Some (ia, ib))) ls = map (filter (Base.Cursor.in_range ic ia ib)) ls.
  Proof. apply map_ext. reflexivity. Qed.
  Lemma sl_map_none (ls : list (list (bytes * bytes))) : map (sl_pairs ic None) ls = ls.
  Proof. rewrite <- (map_id ls) at 2. apply map_ext. reflexivity. Qed.

  Local Notation DBRUN := (dbi_run c p mp tp crc decompress fname ufc verify strict).

  (* ---------------- THE COMPOSITION ---------------- *)
  (* any iterator of the DB - DB.NewIterator / Snapshot.NewIterator (auxm = None, auxt = []) or
     Transaction.NewIterator (auxm, auxt = the transaction's memdb and tables) - over real children *)
  Theorem db_iterator_bytes_gen auxm auxt st seq slice fuel ms :
    iter_wf auxm auxt st -> (seq <= keyMaxSeq p)%N -> range_wf slice -> Forall umove_wf ms ->
    length (concat (child_lists auxm auxt st)) < fuel ->
    DBRUN fuel auxm auxt st seq slice ms =
    Some (run_cursor (cmp c) (range_view c slice (live_pairs c p seq (db_entries auxm auxt st))) ms).
  Proof.
    intros W Hseq Hrw Hms Hfuel.
    set (lists := child_lists auxm auxt st).
    set (pa := fun k => probe p k (keyMaxSeq p)).
    (* the internal slice *)
    set (isl := match slice with
                | None => None
                | Some (a, b) => Some (option_map encode_ikey (option_map pa a), option_map encode_ikey (option_map pa b))
                end : option krange).
    assert (Eisl : islice_of p slice = Some isl).
    { unfold islice_of, isl. destruct slice as [[a b]|]; [|reflexivity]. rewrite !opt_probe_some. reflexivity. }
    destruct (raw_children_refine auxm auxt st isl W) as (its & Eits & Href).
    unfold dbi_run, new_iterator. rewrite Eisl, Eits. cbv beta iota.
    (* the merged iterator over the real children *)
    pose proof (child_lists_ok _ _ _ W) as Hlists. fold lists in Hlists, Href.
    set (LS := merge_lists (cmp ic) (map (sl_pairs ic isl) lists)).
    assert (Hnd : NoDup (map fst (concat (map (sl_pairs ic isl) lists)))).
    { destruct isl as [[ia ib]|].
      - rewrite sl_map_some, <- filter_concat. apply nodup_map_filter. exact (iw_uniq _ _ _ W).
      - rewrite sl_map_none. exact (iw_uniq _ _ _ W). }
    assert (Hmerged : refines (cmp ic) (rawb_step c mp tp crc decompress fname ufc verify strict) rawb_obs (m_init its) LS).
    { apply (merged_is_cursor bytes bytes bchild (cmp ic) bstep bc_obs (raw_pop c) (map (sl_pairs ic isl) lists) its fok).
      - apply (pop_scan_ok bytes (cmp ic) fok).
      - apply Forall_map. eapply Forall_impl; [|exact Hlists]. intros l [Hs _]. apply (sl_pairs_sorted ic). exact Hs.
      - exact Hnd.
      - exact Href. }
    assert (ELS : LS = sl_pairs ic isl (all_pairs auxm auxt st)).
    { unfold LS, all_pairs. fold lists. destruct isl as [[ia ib]|].
      - rewrite sl_map_some. cbn [sl_pairs]. unfold Base.Cursor.restrict. apply (merge_filter (cmp ic) fok). exact (iw_uniq _ _ _ W).
      - rewrite sl_map_none. reflexivity. }
    assert (HkLS : keys_okl LS) by (rewrite ELS; apply sl_pairs_keys; apply all_pairs_keys; exact W).
    assert (HsLS : sorted_kv (cmp ic) LS) by (rewrite ELS; apply (sl_pairs_sorted ic); apply all_pairs_sorted; exact W).
    (* through the boundary dbIter sees the cursor over the parsed entries *)
    etransitivity.
    { apply (db_run_cong_init c p _ _ _ raw_obs (cur_step (icmp c)) cur_obs seq strict enc_ok fuel
               (m_init its) (map dec_entry LS, SOI) ms (boundary_sim _ _ HkLS Hmerged)).
      eapply Forall_impl; [|exact Hms]. intros m Hm. destruct m as [| |k| |]; try exact I. cbn [umove_in umove_wf] in *.
      unfold key_in, make_ikey.
      replace (keyMaxSeq p <? seq)%N with false by (symmetry; apply N.ltb_ge; exact Hseq).
      replace (keyTypeVal p <? keyTypeSeek p)%N with false by (symmetry; apply N.ltb_ge; exact seek_val).
      apply (probe_enc_ok k seq Hm Hseq). }
    rewrite (dbiter_refines c p _ (cur_step (icmp c)) cur_obs seq strict (map dec_entry LS) fuel (map dec_entry LS, SOI)
               ok dpok Hseq (dec_sorted LS HkLS HsLS) (dec_wf LS HkLS)).
    - (* the list *)
      f_equal. f_equal. rewrite ELS. unfold db_entries, range_view.
      destruct slice as [[a b]|]; unfold isl, pa; cbn [sl_pairs]; [|reflexivity].
      destruct Hrw as [Wa Wb].
      rewrite (dec_restrict a b _ (all_pairs_keys _ _ _ W) Wa Wb).
      apply (live_pairs_slice c ok p dpok seq (map dec_entry (all_pairs auxm auxt st)) a b).
      + apply dec_sorted; [apply all_pairs_keys|apply all_pairs_sorted]; exact W.
      + apply Forall_map. eapply Forall_impl; [|exact (all_pairs_keys _ _ _ W)]. intros x Hx. apply num_bound. exact Hx.
      + apply opt_probe_some.
      + apply opt_probe_some.
    - rewrite map_length, ELS.
      assert (Hle : length (sl_pairs ic isl (all_pairs auxm auxt st)) <= length (all_pairs auxm auxt st)).
      { destruct isl as [[ia ib]|]; cbn [sl_pairs]; [apply filter_length_le'|lia]. }
      unfold all_pairs in *. rewrite (merge_length (cmp ic)) in Hle. subst lists. lia.
    - apply cursor_refines_itself.
  Qed.
End Compose.
