(* Lsm/BuilderReads.v — what tableCompactionBuilder installs (model Lsm/Builder.v), after any history of transient
   failures, preserves every read at a sequence number >= minSeq: the drop-rule theorems (CompactProofs.drop_rule_sound,
   ReorgProofs.compaction_preserves) applied to the tables actually recorded when compactionTransact returns. *)
From GL Require Import Base.Order Base.OrderProofs Codec.IKey Codec.IKeyProofs Lsm.Lsm Lsm.Compact Lsm.LsmProofs
  Lsm.CompactProofs Lsm.History Lsm.HistoryProofs Lsm.ReorgProofs Lsm.Pick Lsm.PickBase Lsm.Builder Lsm.BuilderBase
  Lsm.BuilderProofs Lsm.BuilderCuts.

Section Reads.
  Variable c : comparer.
  Hypothesis ok : comparer_ok c.
  Variable p : kparams.
  Hypothesis pok : kparams_ok p.
  Variable sz : table -> N.
  Variable gp : list table.
  Variable maxgp : N.
  Variable deeper : list (list table).
  Hypothesis Dok : Forall (lvl_ok c p) deeper.
  Variable minSeq : N.
  Hypothesis minSeq_lt : minSeq < keyMaxSeq p.
  Variable strict : bool.
  Variable tableSize : N.
  Variable tsize : list item -> N.

  Notation transact := (transact c p sz gp maxgp deeper minSeq strict tableSize tsize).

  Theorem builder_preserves_reads es os s' : ssorted c es -> kinds_ok p es ->
    transact os (map IGood es) (bst0 deeper) = (s', TDone) ->
    forall k s, minSeq <= s ->
      CompactProofs.res p (newest c k s (concat (fin s')) None) = CompactProofs.res p (newest c k s es None).
  Proof.
    intros Hs Hk H k s Hms.
    destruct (transact_good c ok p sz gp maxgp deeper Dok minSeq strict tableSize tsize es os s'
                (ssorted_uk_sorted c es Hs) H) as [_ [_ [Q _]]].
    rewrite Q. apply (drop_rule_sound c ok p pok minSeq (is_base c deeper) minSeq_lt k s es Hs Hk Hms).
  Qed.

  Theorem builder_compaction_preserves I O os s' :
    kinds_ok p I -> NoDup (map keyseq I) -> uniq_in (I ++ O) ->
    (forall o i, In o O -> In i I -> e_uk o = e_uk i ->
       e_seq i < e_seq o \/ (e_seq o < e_seq i /\ is_base c deeper (e_uk i) = false)) ->
    transact os (map IGood (isort c I)) (bst0 deeper) = (s', TDone) ->
    forall k s, minSeq <= s ->
      History.res p (newest c k s (concat (fin s') ++ O) None) = History.res p (newest c k s (I ++ O) None).
  Proof.
    intros Hk Hn Hu Ho H k s Hms.
    assert (Hs : ssorted c (isort c I)) by (apply (isort_sorted c ok p pok); assumption).
    destruct (transact_good c ok p sz gp maxgp deeper Dok minSeq strict tableSize tsize (isort c I) os s'
                (ssorted_uk_sorted c _ Hs) H) as [_ [_ [Q _]]].
    rewrite Q. apply (compaction_preserves c ok p pok minSeq (is_base c deeper) minSeq_lt I O Hk Hn Hu Ho k s Hms).
  Qed.
End Reads.
