(* Gen/BloomConstsOk.v — re-proves, by computation, the side conditions the generic Bloom
   theorems assume of the constants generated from the repo's current source: Generate and
   Contains rotate by the same amounts, the clamp of k stays a byte, is at least 1 and below the
   reserved range of Contains.  A changed constant that invalidates one of them breaks this
   file (a proof obligation). *)
From GL Require Import Gen.Consts Codec.Bloom.
From GL Require Export Gen.BloomInst.

Lemma bp_ok : bparams_ok bp.
Proof. unfold bparams_ok, bp; cbn. repeat split; try (vm_compute; congruence); vm_compute; reflexivity. Qed.

(* the minimum filter size is positive and far from the uint32 wrap (used by bloom_generate_total) *)
Lemma bp_min_ok : (1 <= b_mincmp bp /\ 1 <= b_minset bp /\ b_minset bp < 2 ^ 32 - 7)%N.
Proof. vm_compute. repeat split; congruence. Qed.
