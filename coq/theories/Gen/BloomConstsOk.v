(* Gen/BloomConstsOk.v — re-proves, by computation, the side conditions the generic Bloom
   theorems assume of the constants generated from the repo's current source: Generate and
   Contains rotate by the same amounts, the clamp of k stays a byte, is at least 1 and below the
   reserved range of Contains, the limit of Contains covers every 32-bit hash.  A changed constant that invalidates one of them breaks this
   file (a proof obligation). *)
From GL Require Import Gen.Consts Codec.Bloom.
From GL Require Export Gen.BloomInst.

Lemma bp_ok : bparams_ok bp.
Proof. unfold bparams_ok, bp; cbn. repeat split; try (vm_compute; congruence); vm_compute; reflexivity. Qed.

(* the minimum filter size is positive and far from the uint32 wrap; the ceiling of Generate is the
   largest multiple of 8 below 2^32 and the limit of Contains is 2^32 (used by the totality theorems) *)
Lemma bp_tot_ok : bparams_tot_ok bp.
Proof. vm_compute. repeat split; congruence. Qed.
