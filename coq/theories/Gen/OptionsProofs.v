(* Gen/OptionsProofs.v — proofs about the options model Gen/Options.v (the property theorems are restated in
   Props/C09O.v).  Facts about the generated defaults are re-proved here by computation on every run
   (section "defaults"): a changed default that breaks a relation breaks the build. *)
From Coq Require Import ZArith NArith List Bool Lia.
From GL Require Import Gen.Consts Gen.Options.
Import ListNotations.
Open Scope Z_scope.

(* ------------------------------------------------------------------ defaults (recomputed from Gen/Consts.v) *)
Ltac by_compute := apply Z.leb_le; vm_compute; reflexivity.

Lemma dflt_restart_interval_pos : 1 <= dflt opt_DefaultBlockRestartInterval. Proof. by_compute. Qed.
Lemma dflt_block_size_pos : 1 <= dflt opt_DefaultBlockSize. Proof. by_compute. Qed.
Lemma dflt_write_buffer_pos : 1 <= dflt opt_DefaultWriteBuffer. Proof. by_compute. Qed.
Lemma dflt_max_manifest_pos : 1 <= dflt opt_DefaultMaxManifestFileSize. Proof. by_compute. Qed.
Lemma dflt_l0_trigger_pos : 1 <= dflt opt_DefaultCompactionL0Trigger. Proof. by_compute. Qed.
Lemma dflt_l0_order_slow : dflt opt_DefaultCompactionL0Trigger <= dflt opt_DefaultWriteL0SlowdownTrigger. Proof. by_compute. Qed.
Lemma dflt_l0_order_pause : dflt opt_DefaultWriteL0SlowdownTrigger <= dflt opt_DefaultWriteL0PauseTrigger. Proof. by_compute. Qed.
Lemma dflt_filter_base_lo : 1 <= dflt opt_DefaultFilterBaseLg. Proof. by_compute. Qed.
Lemma dflt_filter_base_hi : dflt opt_DefaultFilterBaseLg <= 63. Proof. by_compute. Qed.
Lemma max_filter_base_lo : 1 <= maxFilterBaseLg. Proof. by_compute. Qed.
Lemma max_filter_base_hi : maxFilterBaseLg <= 63. Proof. by_compute. Qed.
Lemma dflt_sampling_lo : 1 <= dflt opt_DefaultIteratorSamplingRate. Proof. by_compute. Qed.
Lemma dflt_sampling_hi : dflt opt_DefaultIteratorSamplingRate <= 2 ^ 62 - 1. Proof. by_compute. Qed.
Lemma max_sampling_lo : 1 <= maxIteratorSamplingRate. Proof. by_compute. Qed.
Lemma max_sampling_hi : maxIteratorSamplingRate <= 2 ^ 62 - 1. Proof. by_compute. Qed.
Lemma dflt_block_cache_nonneg : 0 <= dflt opt_DefaultBlockCacheCapacity. Proof. by_compute. Qed.
Lemma dflt_open_files_nonneg : 0 <= dflt opt_DefaultOpenFilesCacheCapacity. Proof. by_compute. Qed.
Lemma dflt_table_size_pos : 1 <= dflt opt_DefaultCompactionTableSize. Proof. by_compute. Qed.
Lemma dflt_total_size_pos : 1 <= dflt opt_DefaultCompactionTotalSize. Proof. by_compute. Qed.
Lemma dflt_expand_factor_pos : 1 <= dflt opt_DefaultCompactionExpandLimitFactor. Proof. by_compute. Qed.
Lemma dflt_gp_factor_pos : 1 <= dflt opt_DefaultCompactionGPOverlapsFactor. Proof. by_compute. Qed.
Lemma dflt_source_factor_pos : 1 <= dflt opt_DefaultCompactionSourceLimitFactor. Proof. by_compute. Qed.
Lemma dflt_compression_valid :
  dflt opt_DefaultCompressionType = dflt opt_NoCompression \/ dflt opt_DefaultCompressionType = dflt opt_SnappyCompression.
Proof. right. vm_compute. reflexivity. Qed.
Lemma compression_consts :
  dflt opt_DefaultCompression = 0 /\ dflt opt_NoCompression = 1 /\ dflt opt_SnappyCompression = 2 /\ dflt opt_nCompression = 3.
Proof. vm_compute. repeat split; reflexivity. Qed.

Lemma dflt_nonneg : forall n, 0 <= dflt n.
Proof. intro n. unfold dflt. apply N2Z.is_nonneg. Qed.

(* ------------------------------------------------------------------ the clamping scalar getters *)
Ltac crunch := cbn beta iota delta -[Z.leb Z.ltb Z.eqb dflt Z.pow Z.quot];
  repeat match goal with |- context [if ?c then _ else _] => destruct c eqn:? end;
  repeat match goal with
         | H : (_ <=? _) = true |- _ => apply Z.leb_le in H
         | H : (_ <=? _) = false |- _ => apply Z.leb_gt in H
         | H : (_ <? _) = true |- _ => apply Z.ltb_lt in H
         | H : (_ <? _) = false |- _ => apply Z.ltb_ge in H
         | H : (_ =? _) = true |- _ => apply Z.eqb_eq in H
         | H : (_ =? _) = false |- _ => apply Z.eqb_neq in H
         end.
Ltac getter o := destruct o as [o|]; crunch.

Lemma restart_interval_pos : forall o, 1 <= GetBlockRestartInterval o.
Proof. intro o. pose proof dflt_restart_interval_pos. unfold GetBlockRestartInterval. getter o; lia. Qed.

Lemma block_size_pos : forall o, 1 <= GetBlockSize o.
Proof. intro o. pose proof dflt_block_size_pos. unfold GetBlockSize. getter o; lia. Qed.

Lemma write_buffer_pos : forall o, 1 <= GetWriteBuffer o.
Proof. intro o. pose proof dflt_write_buffer_pos. unfold GetWriteBuffer. getter o; lia. Qed.

Lemma max_manifest_pos : forall o, 1 <= GetMaxManifestFileSize o.
Proof. intro o. pose proof dflt_max_manifest_pos. unfold GetMaxManifestFileSize. getter o; lia. Qed.

Lemma block_cache_capacity_nonneg : forall o, 0 <= GetBlockCacheCapacity o.
Proof. intro o. pose proof dflt_block_cache_nonneg. unfold GetBlockCacheCapacity. getter o; lia. Qed.

Lemma open_files_capacity_nonneg : forall o, 0 <= GetOpenFilesCacheCapacity o.
Proof. intro o. pose proof dflt_open_files_nonneg. unfold GetOpenFilesCacheCapacity. getter o; lia. Qed.

(* the "-1 disables" convention: every negative value gives 0, and only negative values (and a zero default) do *)
Lemma block_cache_negative_disables : forall o, BlockCacheCapacity o < 0 -> GetBlockCacheCapacity (Some o) = 0.
Proof. intros o H. unfold GetBlockCacheCapacity. crunch; lia. Qed.

Lemma open_files_negative_disables : forall o, OpenFilesCacheCapacity o < 0 -> GetOpenFilesCacheCapacity (Some o) = 0.
Proof. intros o H. unfold GetOpenFilesCacheCapacity. crunch; lia. Qed.

Lemma block_cache_positive_kept : forall o, 0 < BlockCacheCapacity o -> GetBlockCacheCapacity (Some o) = BlockCacheCapacity o.
Proof. intros o H. unfold GetBlockCacheCapacity. crunch; lia. Qed.

Lemma open_files_positive_kept : forall o, 0 < OpenFilesCacheCapacity o -> GetOpenFilesCacheCapacity (Some o) = OpenFilesCacheCapacity o.
Proof. intros o H. unfold GetOpenFilesCacheCapacity. crunch; lia. Qed.

Lemma l0_trigger_pos : forall o, 1 <= GetCompactionL0Trigger o.
Proof. intro o. pose proof dflt_l0_trigger_pos. unfold GetCompactionL0Trigger. getter o; lia. Qed.

Lemma l0_pause_ge_trigger : forall o, GetCompactionL0Trigger o <= GetWriteL0PauseTrigger o.
Proof.
  intro o. unfold GetWriteL0PauseTrigger.
  destruct (_ <? GetCompactionL0Trigger o) eqn:E.
  - lia.
  - apply Z.ltb_ge in E. exact E.
Qed.

Lemma pause_implies_compaction : forall o tlen, writer_pauses o tlen = true -> need_l0_compaction o tlen = true.
Proof.
  intros o tlen H. unfold writer_pauses, writer_pauses_with in H. apply Z.leb_le in H.
  unfold need_l0_compaction, need_l0_compaction_with.
  pose proof (l0_trigger_pos o). pose proof (l0_pause_ge_trigger o).
  apply andb_true_iff; split; [apply Z.ltb_lt | apply Z.leb_le]; lia.
Qed.

Lemma filter_base_range : forall o, 1 <= GetFilterBaseLg o <= 63.
Proof.
  intro o. pose proof dflt_filter_base_lo. pose proof dflt_filter_base_hi.
  pose proof max_filter_base_lo. pose proof max_filter_base_hi.
  unfold GetFilterBaseLg. getter o; lia.
Qed.

Lemma filter_shift_holds : forall o, filter_shift_ok (GetFilterBaseLg o) = true.
Proof.
  intro o. pose proof (filter_base_range o). unfold filter_shift_ok.
  apply andb_true_iff; split; [apply Z.leb_le | apply Z.ltb_lt]; lia.
Qed.

Lemma sampling_range : forall o, 0 <= GetIteratorSamplingRate o <= 2 ^ 62 - 1.
Proof.
  intro o. pose proof dflt_sampling_lo. pose proof dflt_sampling_hi.
  pose proof max_sampling_lo. pose proof max_sampling_hi.
  unfold GetIteratorSamplingRate. getter o; lia.
Qed.

Lemma wrap64_id : forall z, - 2 ^ 63 <= z < 2 ^ 63 -> wrap64 z = z.
Proof.
  intros z H. unfold wrap64, two63, two64.
  rewrite Z.mod_small; [lia|].
  change (2 ^ 64) with (2 ^ 63 + 2 ^ 63). lia.
Qed.

Lemma sampling_holds : forall o, sampling_ok (GetIteratorSamplingRate o) = true.
Proof.
  intro o. pose proof (sampling_range o) as H. unfold sampling_ok, sampling_arg.
  destruct (GetIteratorSamplingRate o <=? 0) eqn:E; [reflexivity|]. apply Z.leb_gt in E. cbn [orb].
  rewrite wrap64_id.
  - apply Z.ltb_lt. lia.
  - change (2 ^ 63) with (2 * 2 ^ 62). lia.
Qed.

Lemma compression_valid : forall o, GetCompression o = dflt opt_NoCompression \/ GetCompression o = dflt opt_SnappyCompression.
Proof.
  intro o. pose proof dflt_compression_valid as D. destruct compression_consts as (C0 & C1 & C2 & C3).
  unfold GetCompression. destruct o as [o|]; [|exact D].
  destruct ((Compression o <=? dflt opt_DefaultCompression) || (dflt opt_nCompression <=? Compression o)) eqn:E; [exact D|].
  apply orb_false_iff in E. destruct E as [E1 E2]. apply Z.leb_gt in E1. apply Z.leb_gt in E2.
  rewrite C1, C2. lia.
Qed.

Lemma factor_pos : forall o f d, 1 <= dflt d -> 1 <= factor_of o f d.
Proof. intros o f d H. unfold factor_of. getter o; lia. Qed.

Lemma strict_zero_is_default : forall o s, Strict o = 0 -> GetStrict (Some o) s = GetStrict None s.
Proof. intros o s H. unfold GetStrict. rewrite H. reflexivity. Qed.

(* ------------------------------------------------------------------ dyadic numbers *)
Lemma pos_split : forall p, Zpos p = Zpos (pos_odd p) * 2 ^ pos_tz p /\ 0 <= pos_tz p.
Proof.
  induction p as [p IH|p IH|]; cbn [pos_odd pos_tz].
  - split; [rewrite Z.pow_0_r; lia | lia].
  - destruct IH as [IH1 IH2]. split; [|lia].
    rewrite Z.pow_add_r by lia. change (2 ^ 1) with 2.
    change (Z.pos p~0) with (2 * Z.pos p). rewrite IH1 at 1. ring.
  - split; [rewrite Z.pow_0_r; lia | lia].
Qed.

Lemma norm_pos : forall m e m' e', 0 < m -> norm m e = (m', e') -> 0 < m' /\ exists k, 0 <= k /\ m = m' * 2 ^ k /\ e' = e + k.
Proof.
  intros m e m' e' Hm H. destruct m as [|p|p]; try lia. cbn [norm] in H. inversion H; subst.
  split; [lia|]. destruct (pos_split p) as [S1 S2]. exists (pos_tz p). repeat split; auto.
Qed.

(* the value m * 2^e is at least one *)
Definition ge1 (m e : Z) : Prop := 2 ^ Z.max (- e) 0 <= m * 2 ^ Z.max e 0.

Lemma pow2_pos : forall k, 0 < 2 ^ k \/ k < 0.
Proof. intro k. destruct (Z_lt_le_dec k 0); [right; lia | left; apply Z.pow_pos_nonneg; lia]. Qed.

Lemma ge1_norm : forall m e m' k, 0 < m' -> 0 <= k -> m = m' * 2 ^ k -> ge1 m e -> ge1 m' (e + k).
Proof.
  intros m e m' k Hm' Hk Hm H. unfold ge1 in *.
  destruct (Z_lt_le_dec (e + k) 0) as [Hn|Hn].
  - (* e + k < 0, hence e < 0 *)
    assert (He : e < 0) by lia.
    rewrite (Z.max_l (- (e + k)) 0) by lia. rewrite (Z.max_r (e + k) 0) by lia.
    rewrite (Z.max_l (- e) 0) in H by lia. rewrite (Z.max_r e 0) in H by lia.
    rewrite Z.pow_0_r in *. rewrite Z.mul_1_r in *.
    replace (- e) with (- (e + k) + k) in H by lia.
    rewrite Z.pow_add_r in H by lia. subst m.
    assert (0 < 2 ^ k) by (apply Z.pow_pos_nonneg; lia).
    apply Z.mul_le_mono_pos_r in H; auto.
  - rewrite (Z.max_r (- (e + k)) 0) by lia. rewrite (Z.max_l (e + k) 0) by lia.
    rewrite Z.pow_0_r.
    assert (0 < 2 ^ (e + k)) by (apply Z.pow_pos_nonneg; lia). nia.
Qed.

Lemma ge1_pow : forall m e n, 0 < m -> 0 <= n -> ge1 m e -> ge1 (m ^ n) (e * n).
Proof.
  intros m e n Hm Hn H. unfold ge1 in *.
  assert (Hmn : 0 < m ^ n) by (apply Z.pow_pos_nonneg; lia).
  destruct (Z_lt_le_dec e 0) as [He|He].
  - rewrite (Z.max_l (- e) 0) in H by lia. rewrite (Z.max_r e 0) in H by lia.
    rewrite Z.pow_0_r, Z.mul_1_r in H.
    rewrite (Z.max_l (- (e * n)) 0) by nia. rewrite (Z.max_r (e * n) 0) by nia.
    rewrite Z.pow_0_r, Z.mul_1_r.
    replace (- (e * n)) with ((- e) * n) by ring. rewrite Z.pow_mul_r by lia.
    apply Z.pow_le_mono_l. split; [apply Z.pow_nonneg; lia | exact H].
  - rewrite (Z.max_r (- (e * n)) 0) by nia. rewrite (Z.max_l (e * n) 0) by nia.
    rewrite Z.pow_0_r.
    assert (0 < 2 ^ (e * n)) by (apply Z.pow_pos_nonneg; nia). nia.
Qed.

Lemma ge1_trunc : forall base m e, 0 <= base -> 0 < m -> ge1 m e -> base <= trunc_dy (base * m) e.
Proof.
  intros base m e Hb Hm H. unfold ge1 in H. unfold trunc_dy.
  destruct (0 <=? e) eqn:E.
  - apply Z.leb_le in E. rewrite (Z.max_r (- e) 0) in H by lia. rewrite (Z.max_l e 0) in H by lia.
    rewrite Z.pow_0_r in H. nia.
  - apply Z.leb_gt in E. rewrite (Z.max_l (- e) 0) in H by lia. rewrite (Z.max_r e 0) in H by lia.
    rewrite Z.pow_0_r, Z.mul_1_r in H.
    assert (0 < 2 ^ (- e)) by (apply Z.pow_pos_nonneg; lia).
    apply Z.quot_le_lower_bound; [assumption | nia].
Qed.

Lemma trunc_nonneg : forall a e, 0 <= a -> 0 <= trunc_dy a e.
Proof.
  intros a e Ha. unfold trunc_dy. destruct (0 <=? e) eqn:E.
  - apply Z.leb_le in E. apply Z.mul_nonneg_nonneg; [assumption | apply Z.pow_nonneg; lia].
  - apply Z.leb_gt in E. apply Z.quot_pos; [assumption | apply Z.pow_pos_nonneg; lia].
Qed.

(* ------------------------------------------------------------------ Pow and the multipliers *)
Lemma pow_model_pos : forall x n m e, fl_pos x = true -> pow_model x n = Some (m, e) -> 0 < m.
Proof.
  intros x n m e Hp H. unfold pow_model in H.
  destruct (n =? 0); [inversion H; lia|].
  destruct x as [mm ee| |]; try discriminate.
  cbn [fl_pos] in Hp. apply Z.ltb_lt in Hp.
  destruct (norm mm ee) as [m' e'] eqn:N. destruct (norm_pos _ _ _ _ Hp N) as [Hm' _].
  destruct ((m' =? 1) && (e' =? 0)); [inversion H; lia|].
  destruct (n <? 0) eqn:Hn; [discriminate|]. apply Z.ltb_ge in Hn.
  destruct (negb (fl_repr mm ee)); [discriminate|].
  destruct (n =? 1); [inversion H; subst; assumption|].
  destruct (max_exact_level <? n); [discriminate|].
  destruct ((Z.abs m' ^ n <? two53) && fl_repr (m' ^ n) (e' * n)); [|discriminate].
  inversion H; subst. apply Z.pow_pos_nonneg; lia.
Qed.

Definition fl_ge_one (x : fl) : Prop := fl_pos x = true /\ fl_lt_one x = false.

Lemma ge1_one : ge1 1 0.
Proof. unfold ge1. cbn. lia. Qed.

Lemma pow_model_ge1 : forall x n m e, fl_ge_one x -> pow_model x n = Some (m, e) -> 0 < m /\ ge1 m e.
Proof.
  intros x n m e [Hp Hl] H. split; [eapply pow_model_pos; eauto|].
  unfold pow_model in H.
  destruct (n =? 0); [inversion H; apply ge1_one|].
  destruct x as [mm ee| |]; try discriminate.
  cbn [fl_pos] in Hp. apply Z.ltb_lt in Hp.
  destruct (norm mm ee) as [m' e'] eqn:N. destruct (norm_pos _ _ _ _ Hp N) as [Hm' (k & Hk & Hmk & He')].
  assert (G : ge1 m' e').
  { subst e'. eapply ge1_norm; eauto. unfold ge1. cbn [fl_lt_one] in Hl.
    destruct (0 <=? ee) eqn:E.
    - apply Z.leb_le in E. apply Z.ltb_ge in Hl.
      rewrite (Z.max_r (- ee) 0) by lia. rewrite (Z.max_l ee 0) by lia. rewrite Z.pow_0_r.
      assert (0 < 2 ^ ee) by (apply Z.pow_pos_nonneg; lia). nia.
    - apply Z.leb_gt in E. apply Z.ltb_ge in Hl.
      rewrite (Z.max_l (- ee) 0) by lia. rewrite (Z.max_r ee 0) by lia. rewrite Z.pow_0_r. lia. }
  destruct ((m' =? 1) && (e' =? 0)); [inversion H; apply ge1_one|].
  destruct (n <? 0) eqn:Hn; [discriminate|]. apply Z.ltb_ge in Hn.
  destruct (negb (fl_repr mm ee)); [discriminate|].
  destruct (n =? 1); [inversion H; subst; assumption|].
  destruct (max_exact_level <? n); [discriminate|].
  destruct ((Z.abs m' ^ n <? two53) && fl_repr (m' ^ n) (e' * n)); [|discriminate].
  inversion H; subst. apply ge1_pow; auto.
Qed.

Lemma exact_of_pos : forall x m e, fl_pos x = true -> exact_of x = Some (m, e) -> 0 < m.
Proof.
  intros x m e Hp H. destruct x as [mm ee| |]; try discriminate. cbn [exact_of] in H.
  destruct (fl_repr mm ee); [|discriminate]. inversion H as [N].
  cbn [fl_pos] in Hp. apply Z.ltb_lt in Hp. destruct (norm_pos _ _ _ _ Hp N). assumption.
Qed.

Lemma mult_of_pos : forall clamp pl g dm level m e,
  (forall x, fl_pos x = true -> fl_pos (clamp x) = true) -> fl_pos dm = true ->
  mult_of clamp pl g dm level = Some (m, e) -> 0 < m.
Proof.
  intros clamp pl g dm level m e Hc Hd H. unfold mult_of in H.
  destruct (nth_error pl (Z.to_nat level)) as [x|].
  - destruct (fl_pos x) eqn:Px; [eapply exact_of_pos; eauto|].
    destruct (fl_pos g) eqn:Pg; (eapply pow_model_pos; [|exact H]; auto).
  - destruct (fl_pos g) eqn:Pg; (eapply pow_model_pos; [|exact H]; auto).
Qed.

Lemma size_of_nonneg : forall base mult z, 0 <= base -> (forall m e, mult = Some (m, e) -> 0 < m) -> size_of base mult = Val z -> 0 <= z.
Proof.
  intros base mult z Hb Hm H. unfold size_of in H. destruct mult as [[m e]|]; [|discriminate].
  destruct (negb (fl_repr base 0)); [discriminate|].
  destruct (negb (fl_repr (base * m) e)); [discriminate|].
  destruct (Z.abs (trunc_dy (base * m) e) <? two63); [|discriminate].
  inversion H; subst. apply trunc_nonneg. specialize (Hm m e eq_refl). nia.
Qed.

Lemma size_of_ge_base : forall base mult z, 0 <= base -> (forall m e, mult = Some (m, e) -> 0 < m /\ ge1 m e) ->
  size_of base mult = Val z -> base <= z.
Proof.
  intros base mult z Hb Hm H. unfold size_of in H. destruct mult as [[m e]|]; [|discriminate].
  destruct (negb (fl_repr base 0)); [discriminate|].
  destruct (negb (fl_repr (base * m) e)); [discriminate|].
  destruct (Z.abs (trunc_dy (base * m) e) <? two63); [|discriminate].
  inversion H; subst. destruct (Hm m e eq_refl). apply ge1_trunc; auto.
Qed.

Lemma dflt_table_mult_pos : fl_pos DefaultTableMult = true. Proof. vm_compute. reflexivity. Qed.
Lemma dflt_total_mult_pos : fl_pos DefaultTotalMult = true. Proof. vm_compute. reflexivity. Qed.
Lemma dflt_total_mult_ge_one : fl_ge_one DefaultTotalMult. Proof. split; vm_compute; reflexivity. Qed.
Lemma dflt_table_mult_ge_one : fl_ge_one DefaultTableMult. Proof. split; vm_compute; reflexivity. Qed.

Lemma no_clamp_pos : forall x, fl_pos x = true -> fl_pos (no_clamp x) = true.
Proof. intros x H. exact H. Qed.

Lemma clamp_ge_one_pos : forall x, fl_pos x = true -> fl_pos (clamp_ge_one x) = true.
Proof. intros x H. unfold clamp_ge_one. destruct (fl_lt_one x); [reflexivity | exact H]. Qed.

Lemma clamp_ge_one_ge_one : forall x, fl_pos x = true -> fl_ge_one (clamp_ge_one x).
Proof.
  intros x H. unfold clamp_ge_one. destruct (fl_lt_one x) eqn:E.
  - split; reflexivity.
  - split; assumption.
Qed.

Lemma table_size_nonneg : forall o level z, GetCompactionTableSize o level = Val z -> 0 <= z.
Proof.
  intros o level z H. unfold GetCompactionTableSize in H. pose proof dflt_table_size_pos as D. destruct o as [o|].
  - destruct (level <? 0); [discriminate|].
    refine (size_of_nonneg _ _ z _ _ H).
    + destruct (0 <? CompactionTableSize o) eqn:E; [apply Z.ltb_lt in E; lia | lia].
    + intros m e Hm. eapply mult_of_pos; [apply no_clamp_pos | apply dflt_table_mult_pos | exact Hm].
  - refine (size_of_nonneg _ _ z _ _ H); [lia|].
    intros m e Hm. eapply pow_model_pos; [apply dflt_table_mult_pos | exact Hm].
Qed.

Lemma total_size_nonneg : forall o level z, GetCompactionTotalSize o level = Val z -> 0 <= z.
Proof.
  intros o level z H. unfold GetCompactionTotalSize, total_size_with in H. pose proof dflt_total_size_pos as D. destruct o as [o|].
  - destruct (level <? 0); [discriminate|].
    refine (size_of_nonneg _ _ z _ _ H).
    + destruct (0 <? CompactionTotalSize o) eqn:E; [apply Z.ltb_lt in E; lia | lia].
    + intros m e Hm. eapply mult_of_pos; [apply clamp_ge_one_pos | apply dflt_total_mult_pos | exact Hm].
  - refine (size_of_nonneg _ _ z _ _ H); [lia|].
    intros m e Hm. eapply pow_model_pos; [apply dflt_total_mult_pos | exact Hm].
Qed.

(* the base of the total-size limits *)
Definition total_base (o : option Options) : Z :=
  match o with
  | None => dflt opt_DefaultCompactionTotalSize
  | Some o => if 0 <? CompactionTotalSize o then CompactionTotalSize o else dflt opt_DefaultCompactionTotalSize
  end.

Definition per_level_len (o : option Options) : Z :=
  match o with None => 0 | Some o => Z.of_nat (length (CompactionTotalSizeMultiplierPerLevel o)) end.

Lemma total_base_pos : forall o, 1 <= total_base o.
Proof.
  intro o. pose proof dflt_total_size_pos. unfold total_base. destruct o as [o|]; [|lia].
  destruct (0 <? CompactionTotalSize o) eqn:E; [apply Z.ltb_lt in E; lia | lia].
Qed.

(* beyond the per-level table no total-size limit is below the base limit (hence none is zero) *)
Lemma total_size_ge_base : forall o level z,
  per_level_len o <= level -> GetCompactionTotalSize o level = Val z -> total_base o <= z.
Proof.
  intros o level z Hl H. pose proof (total_base_pos o) as B.
  unfold GetCompactionTotalSize, total_size_with in H. destruct o as [o|].
  - destruct (level <? 0) eqn:L0; [discriminate|]. apply Z.ltb_ge in L0.
    cbn [total_base] in *. cbn [per_level_len] in Hl.
    refine (size_of_ge_base _ _ z _ _ H); [lia|].
    intros m e Hm. unfold mult_of in Hm.
    assert (N : nth_error (CompactionTotalSizeMultiplierPerLevel o) (Z.to_nat level) = None).
    { apply nth_error_None. lia. }
    rewrite N in Hm.
    destruct (fl_pos (CompactionTotalSizeMultiplier o)) eqn:Pg.
    + eapply pow_model_ge1; [apply clamp_ge_one_ge_one; exact Pg | exact Hm].
    + eapply pow_model_ge1; [apply dflt_total_mult_ge_one | exact Hm].
  - cbn [total_base] in *. refine (size_of_ge_base _ _ z _ _ H); [lia|].
    intros m e Hm. eapply pow_model_ge1; [apply dflt_total_mult_ge_one | exact Hm].
Qed.

(* the buffer pool of the table layer: fine for every block size up to 2^60 *)
Lemma pool_ok_small : forall o, GetBlockSize o <= 2 ^ 60 -> pool_ok (GetBlockSize o) = true.
Proof.
  intros o H. pose proof (block_size_pos o) as P. unfold pool_ok, pool_baseline.
  rewrite wrap64_id.
  - apply andb_true_iff; split; [apply Z.ltb_lt; lia | apply Z.leb_le].
    unfold maxInt, two63. change (2 ^ 63) with (8 * 2 ^ 60). lia.
  - change (2 ^ 63) with (8 * 2 ^ 60). lia.
Qed.

(* ------------------------------------------------------------------ witnesses of the refuted relations
   (the same values the harness exercises on the real DB: harness/cmd/c09/optwit.go) *)
Definition fz : fl := Dy 0 0.
Definition half : fl := Dy 1 (-1).

(* only the fields the relations talk about; everything else is the zero value *)
Definition mk (bs l0 ts : Z) (tm : fl) (tot : Z) (totm : fl) (totpl : list fl) (isr pause slow fbase elf : Z) : Options :=
  mkOptions 0 CNil 0 false 0 bs elf 0 l0 0 ts tm [] tot totm totpl true 0 false false false false false false false
            true isr false false CNil 0 false 0 0 pause slow fbase 0.

Definition w_pause_below_trigger : Options := mk 256 0 1024 fz 4096 fz [] 0 2 0 0 0.      (* WriteL0PauseTrigger = 2 *)
Definition w_trigger_above_pause : Options := mk 256 16 1024 fz 4096 fz [] 0 0 0 0 0.     (* CompactionL0Trigger = 16 *)
Definition w_trigger_negative : Options := mk 256 (-1) 1024 fz 4096 fz [] 0 0 0 0 0.
Definition w_slowdown_above_pause : Options := mk 256 2 1024 fz 4096 fz [] 0 4 10 0 0.
Definition w_filter_base_64 : Options := mk 256 0 1024 fz 4096 fz [] 0 0 0 64 0.
Definition w_sampling_maxint : Options := mk 256 0 1024 fz 4096 fz [] maxInt 0 0 0 0.
Definition w_total_mult_half : Options := mk 256 0 1024 fz 4096 half [] 0 0 0 0 0.
Definition w_total_per_level_tiny : Options := mk 256 0 1024 fz 4096 fz [Dy 1 0; Dy 1 (-30)] 0 0 0 0 0.
Definition w_table_1_mult_half : Options := mk 256 0 1 half 4096 fz [] 0 0 0 0 0.
Definition w_block_size_maxint : Options := mk maxInt 0 1024 fz 4096 fz [] 0 0 0 0 0.
Definition w_factor_wraps : Options := mk 256 0 1024 fz 4096 fz [] 0 0 0 0 (2 ^ 53).

Lemma l0_trigger_pos_old_refuted : exists o, GetCompactionL0Trigger_old o < 1.
Proof. exists (Some w_trigger_negative). vm_compute. reflexivity. Qed.

Lemma l0_pause_ge_trigger_old_refuted :
  GetWriteL0PauseTrigger_old (Some w_pause_below_trigger) < GetCompactionL0Trigger_old (Some w_pause_below_trigger) /\
  GetWriteL0PauseTrigger_old (Some w_trigger_above_pause) < GetCompactionL0Trigger_old (Some w_trigger_above_pause).
Proof. split; vm_compute; reflexivity. Qed.

(* the writer's pause loop: with 2 (resp. 12) tables at level 0 the writer pauses and no compaction is needed *)
Lemma pause_implies_compaction_old_refuted :
  exists o tlen, 0 <= tlen /\ writer_pauses_old o tlen = true /\ need_l0_compaction_old o tlen = false.
Proof. exists (Some w_pause_below_trigger), 2. repeat split; vm_compute; congruence. Qed.

Lemma l0_slowdown_order_refuted :
  exists o, ~ (GetCompactionL0Trigger o <= GetWriteL0SlowdownTrigger o <= GetWriteL0PauseTrigger o).
Proof. exists (Some w_slowdown_above_pause). vm_compute. intros [_ H]. apply H. reflexivity. Qed.

Lemma filter_shift_old_refuted : exists o, filter_shift_ok (GetFilterBaseLg_old o) = false.
Proof. exists (Some w_filter_base_64). vm_compute. reflexivity. Qed.

Lemma sampling_old_refuted : exists o, sampling_ok (GetIteratorSamplingRate_old o) = false.
Proof. exists (Some w_sampling_maxint). vm_compute. reflexivity. Qed.

(* 4096 * 0.5^13 = 0.5 -> 0: from level 13 on the old limits are zero (already below one 1 KiB table from level 3 on) *)
Lemma total_size_ge_base_old_refuted :
  exists o level, per_level_len o <= level /\ GetCompactionTotalSize_old o level = Val 0 /\ 1 <= total_base o.
Proof. exists (Some w_total_mult_half), 13. repeat split; vm_compute; congruence. Qed.

(* still possible through the per-level table (an explicit choice for that one level; harmless: see Props/C09O.v) *)
Lemma total_size_pos_refuted : exists o level, GetCompactionTotalSize o level = Val 0.
Proof. exists (Some w_total_per_level_tiny), 1. vm_compute. reflexivity. Qed.

Lemma table_size_pos_refuted : exists o level, GetCompactionTableSize o level = Val 0.
Proof. exists (Some w_table_1_mult_half), 1. vm_compute. reflexivity. Qed.

Lemma pool_refuted : exists o, pool_ok (GetBlockSize o) = false.
Proof. exists (Some w_block_size_maxint). vm_compute. reflexivity. Qed.

Lemma limit_nonneg_refuted : exists o z, GetCompactionExpandLimit o 0 = Val z /\ z < 0.
Proof. exists (Some w_factor_wraps), (- 2 ^ 63). split; vm_compute; reflexivity. Qed.

(* the repaired getters on the witnesses *)
Lemma witnesses_repaired :
  GetWriteL0PauseTrigger (Some w_pause_below_trigger) = 4 /\ GetWriteL0PauseTrigger (Some w_trigger_above_pause) = 16 /\
  GetCompactionL0Trigger (Some w_trigger_negative) = 4 /\ GetFilterBaseLg (Some w_filter_base_64) = 63 /\
  GetIteratorSamplingRate (Some w_sampling_maxint) = 2 ^ 62 - 1 /\
  GetCompactionTotalSize (Some w_total_mult_half) 13 = Val 4096.
Proof. vm_compute. repeat split; reflexivity. Qed.

(* non-vacuity of the float-derived statements: the defaults are inside the exact domain *)
Lemma default_sizes :
  map (GetCompactionTableSize None) [0; 1; 6; 64] = [Val 2097152; Val 2097152; Val 2097152; Val 2097152] /\
  map (GetCompactionTotalSize None) [0; 1; 2; 7] = [Val 10485760; Val 104857600; Val 1048576000; Val 104857600000000] /\
  GetCompactionExpandLimit None 0 = Val 52428800 /\ GetCompactionGPOverlaps None 0 = Val 20971520 /\
  GetCompactionSourceLimit None 0 = Val 2097152.
Proof. vm_compute. repeat split; reflexivity. Qed.

(* and the border of the domain for the default total sizes: 10 MiB * 10^11 is the last one below 2^63; from level 12
   on the real getter converts a float64 above MaxInt64 (amd64 yields MinInt64: a negative limit, for a level no
   database reaches) *)
Lemma default_total_size_domain :
  GetCompactionTotalSize None 11 = Val (10485760 * 10 ^ 11) /\ GetCompactionTotalSize None 12 = Outside.
Proof. vm_compute. split; reflexivity. Qed.

Lemma default_scalars :
  scalar_results None None None =
  [0; 0; 8388608; 0; 16; 4096; 4; 1; 2; 0; 0; 0; 0; 0; 0; 0; 0; 1048576; 0; 0; 0; 500; 0; 58; 4194304; 12; 8; 11; 67108864;
   0; 0; 0; 0; 58].
Proof. vm_compute. reflexivity. Qed.

(* ------------------------------------------------------------------ combined statements (restated in Props/C09O.v) *)
Lemma total_size_ge_base_pos : forall o level z,
  per_level_len o <= level -> GetCompactionTotalSize o level = Val z -> total_base o <= z /\ 1 <= z.
Proof.
  intros o level z H1 H2. pose proof (total_size_ge_base o level z H1 H2). pose proof (total_base_pos o).
  split; [assumption | eapply Z.le_trans; eassumption].
Qed.

Lemma cache_capacity_nonneg : forall o, 0 <= GetBlockCacheCapacity o /\ 0 <= GetOpenFilesCacheCapacity o.
Proof. intro o. split; [apply block_cache_capacity_nonneg | apply open_files_capacity_nonneg]. Qed.

Lemma cache_negative_disables : forall o,
  (BlockCacheCapacity o < 0 -> GetBlockCacheCapacity (Some o) = 0) /\
  (OpenFilesCacheCapacity o < 0 -> GetOpenFilesCacheCapacity (Some o) = 0) /\
  (0 < BlockCacheCapacity o -> GetBlockCacheCapacity (Some o) = BlockCacheCapacity o) /\
  (0 < OpenFilesCacheCapacity o -> GetOpenFilesCacheCapacity (Some o) = OpenFilesCacheCapacity o).
Proof.
  intro o. repeat split; [apply block_cache_negative_disables | apply open_files_negative_disables
                          | apply block_cache_positive_kept | apply open_files_positive_kept].
Qed.

Lemma limit_factors_pos : forall o,
  1 <= factor_of o CompactionExpandLimitFactor opt_DefaultCompactionExpandLimitFactor /\
  1 <= factor_of o CompactionGPOverlapsFactor opt_DefaultCompactionGPOverlapsFactor /\
  1 <= factor_of o CompactionSourceLimitFactor opt_DefaultCompactionSourceLimitFactor.
Proof.
  intro o. repeat split; apply factor_pos;
    [apply dflt_expand_factor_pos | apply dflt_gp_factor_pos | apply dflt_source_factor_pos].
Qed.
