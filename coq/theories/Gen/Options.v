(* Gen/Options.v — MODEL of leveldb/opt/options.go (definitions only; proofs in Gen/OptionsProofs.v, property
   theorems in Props/C09O.v, correspondence evaluator in Corr/C09Run.v).

   The Options record and EVERY getter of *Options, *ReadOptions, *WriteOptions and the package function GetStrict,
   written branch by branch as in the Go source.  Defaults come from Gen/Consts.v (regenerated from the Go source
   on every run: the Default* variables, the Compression and Strict constants).

   Integers.  Go's int / int64 are 64-bit two's complement.  Fields are Z (a user may pass any value, negative and
   huge ones included); the only arithmetic the getters perform on them is the multiplication
   GetCompactionTableSize(level+k) * factor, modelled with wrap-around (wrap64).  uint fields (Compression, Strict)
   are Z in [0, 2^64).

   float64.  A finite float64 is m * 2^e with integers m, e: constructor Dy m e (any such pair; not normalised).
   The model computes with these dyadic numbers EXACTLY and reports, next to every float-derived result, whether
   float64 arithmetic computes the same number.  Precisely (odd m = the odd part of m):
     - a dyadic m * 2^e is taken to be a float64 when |odd m| < 2^53 and -1000 <= e' <= 900 for the normalised
       exponent e' (fl_repr; the subnormal range and the top of the range are left out);
     - math.Pow(x, n) for x > 0 and an integer n >= 0 is computed by Go as: n = 0 or x = 1 -> 1; n = 1 -> x;
       otherwise by multiplying the Frexp mantissa of x into an accumulator according to the bits of n while
       squaring it; every intermediate product that is used is a power (odd x)^k with k <= n, so the result is
       exactly x^n WHEN (odd x)^n < 2^53 (pow_model; additionally n <= 64 is required, larger exponents are
       reported as outside);
     - float64(base) * mult is exact when base, and the product, are float64s in the above sense;
     - the conversion int(f) / int64(f) truncates toward zero and is defined by the Go specification only when
       the truncated value fits: |value| < 2^63 is required.
   INPUTS OUTSIDE the exact domain (result Outside): multipliers that are NaN (these simply fail the test > 0 and
   select the default: modelled) or +Inf (modelled only where Pow returns 1), multipliers whose odd part to the
   power level is 2^53 or more (0.1, 1.1, 3 at level 34, ...), products that need more than 53 bits, results of
   2^63 or more, levels above 64.  With the default multipliers 1.0 and 10.0 and a base with |odd base| * 5^level
   < 2^53 and base * 10^level < 2^63 everything is inside (for the default sizes: table sizes at every level <= 64;
   total sizes up to level 11 -- from level 12 on 10 MiB * 10^level exceeds MaxInt64 and the real getter's
   conversion is implementation-dependent).  A negative level makes the real getters index a slice out of range when o is not nil: GoPanic.

   Interface-valued fields are reduced to what the callers test: AltFilters to its length, Comparer and Filter to
   "is nil", the two Cacher fields to nil / LRUCacher / NoCacher / something else. *)
From Coq Require Import ZArith NArith List Bool.
From GL Require Import Gen.Consts.
Import ListNotations.
Open Scope Z_scope.

(* ------------------------------------------------------------------ Go integers *)
Definition two53 : Z := 2 ^ 53.
Definition two63 : Z := 2 ^ 63.
Definition two64 : Z := 2 ^ 64.
Definition maxInt : Z := two63 - 1.
Definition minInt : Z := - two63.
Definition wrap64 (z : Z) : Z := (z + two63) mod two64 - two63.
Definition is_int64 (z : Z) : bool := (minInt <=? z) && (z <=? maxInt).

(* ------------------------------------------------------------------ float64 values *)
Inductive fl := Dy (m e : Z) | FNaN | FInf (neg : bool).

Fixpoint pos_odd (p : positive) : positive := match p with xO q => pos_odd q | _ => p end.
Fixpoint pos_tz (p : positive) : Z := match p with xO q => 1 + pos_tz q | _ => 0 end.

(* normal form: odd mantissa (0 for zero) *)
Definition norm (m e : Z) : Z * Z :=
  match m with
  | Z0 => (0, 0)
  | Zpos p => (Zpos (pos_odd p), e + pos_tz p)
  | Zneg p => (Zneg (pos_odd p), e + pos_tz p)
  end.

Definition fl_repr (m e : Z) : bool :=
  let '(m', e') := norm m e in (Z.abs m' <? two53) && (-1000 <=? e') && (e' <=? 900).

(* x > 0 *)
Definition fl_pos (x : fl) : bool :=
  match x with Dy m _ => 0 <? m | FNaN => false | FInf neg => negb neg end.

(* x < 1, for x > 0 *)
Definition fl_lt_one (x : fl) : bool :=
  match x with
  | Dy m e => if 0 <=? e then m <? 1 else m <? 2 ^ (- e)
  | _ => false
  end.

(* result of a float-derived getter *)
Inductive gres := Val (z : Z) | Outside | GoPanic.

Definition max_exact_level : Z := 64.

(* math.Pow(x, float64(n)) for x > 0: Some (m, e) = exactly m * 2^e; None = outside the exact domain (negative
   exponents are outside unless x = 1) *)
Definition pow_model (x : fl) (n : Z) : option (Z * Z) :=
  if n =? 0 then Some (1, 0)
  else match x with
       | Dy m e =>
         let '(m', e') := norm m e in
         if (m' =? 1) && (e' =? 0) then Some (1, 0)
         else if n <? 0 then None
         else if negb (fl_repr m e) then None
         else if n =? 1 then Some (m', e')
         else if max_exact_level <? n then None
         else if (Z.abs m' ^ n <? two53) && fl_repr (m' ^ n) (e' * n) then Some (m' ^ n, e' * n)
         else None
       | FNaN => None
       | FInf _ => None
       end.

(* a positive multiplier taken as it is (per-level table) *)
Definition exact_of (x : fl) : option (Z * Z) :=
  match x with
  | Dy m e => if fl_repr m e then Some (norm m e) else None
  | _ => None
  end.

(* truncation toward zero of m * 2^e *)
Definition trunc_dy (m e : Z) : Z :=
  if 0 <=? e then m * 2 ^ e else Z.quot m (2 ^ (- e)).

(* int(float64(base) * mult) *)
Definition size_of (base : Z) (mult : option (Z * Z)) : gres :=
  match mult with
  | None => Outside
  | Some (m, e) =>
    if negb (fl_repr base 0) then Outside
    else if negb (fl_repr (base * m) e) then Outside
    else let v := trunc_dy (base * m) e in
         if Z.abs v <? two63 then Val v else Outside
  end.

(* ------------------------------------------------------------------ the record *)
Inductive cacher := CNil | CLRU | CNo | COther.

Record Options := mkOptions {
  AltFiltersLen : Z;
  BlockCacher : cacher;
  BlockCacheCapacity : Z;
  BlockCacheEvictRemoved : bool;
  BlockRestartInterval : Z;
  BlockSize : Z;
  CompactionExpandLimitFactor : Z;
  CompactionGPOverlapsFactor : Z;
  CompactionL0Trigger : Z;
  CompactionSourceLimitFactor : Z;
  CompactionTableSize : Z;
  CompactionTableSizeMultiplier : fl;
  CompactionTableSizeMultiplierPerLevel : list fl;
  CompactionTotalSize : Z;
  CompactionTotalSizeMultiplier : fl;
  CompactionTotalSizeMultiplierPerLevel : list fl;
  ComparerNil : bool;
  Compression : Z;
  DisableBufferPool : bool;
  DisableBlockCache : bool;
  DisableCompactionBackoff : bool;
  DisableLargeBatchTransaction : bool;
  DisableSeeksCompaction : bool;
  ErrorIfExist : bool;
  ErrorIfMissing : bool;
  FilterNil : bool;
  IteratorSamplingRate : Z;
  NoSync : bool;
  NoWriteMerge : bool;
  OpenFilesCacher : cacher;
  OpenFilesCacheCapacity : Z;
  ReadOnly : bool;
  Strict : Z;
  WriteBuffer : Z;
  WriteL0PauseTrigger : Z;
  WriteL0SlowdownTrigger : Z;
  FilterBaseLg : Z;
  MaxManifestFileSize : Z
}.

Record ReadOptions := mkReadOptions { DontFillCache : bool; RoStrict : Z }.
Record WriteOptions := mkWriteOptions { WoNoWriteMerge : bool; WoSync : bool }.

(* the zero value &opt.Options{} *)
Definition zeroOptions : Options :=
  mkOptions 0 CNil 0 false 0 0 0 0 0 0 0 (Dy 0 0) [] 0 (Dy 0 0) [] true 0 false false false false false false false
            true 0 false false CNil 0 false 0 0 0 0 0 0.

(* ------------------------------------------------------------------ defaults (generated constants) *)
Definition dflt (n : N) : Z := Z.of_N n.
Definition DefaultTableMult : fl :=
  Dy (dflt opt_DefaultCompactionTableSizeMultiplier_m)
     (dflt opt_DefaultCompactionTableSizeMultiplier_ep - dflt opt_DefaultCompactionTableSizeMultiplier_en).
Definition DefaultTotalMult : fl :=
  Dy (dflt opt_DefaultCompactionTotalSizeMultiplier_m)
     (dflt opt_DefaultCompactionTotalSizeMultiplier_ep - dflt opt_DefaultCompactionTotalSizeMultiplier_en).

(* the bounds introduced by the repairs (see Props/C09O.v): named constants of options.go, regenerated *)
Definition maxFilterBaseLg : Z := dflt opt_maxFilterBaseLg.
Definition maxIteratorSamplingRate : Z := dflt opt_maxIteratorSamplingRate.

(* ------------------------------------------------------------------ getters: o is None for a nil receiver *)
Definition GetAltFiltersLen (o : option Options) : Z :=
  match o with None => 0 | Some o => AltFiltersLen o end.

(* the result is never nil: CLRU stands for DefaultBlockCacher = LRUCacher *)
Definition GetBlockCacher (o : option Options) : cacher :=
  match o with
  | None => CLRU
  | Some o => match BlockCacher o with CNil => CLRU | c => c end
  end.

Definition GetBlockCacheCapacity (o : option Options) : Z :=
  match o with
  | None => dflt opt_DefaultBlockCacheCapacity
  | Some o => if BlockCacheCapacity o =? 0 then dflt opt_DefaultBlockCacheCapacity
              else if BlockCacheCapacity o <? 0 then 0 else BlockCacheCapacity o
  end.

Definition GetBlockCacheEvictRemoved (o : option Options) : bool :=
  match o with None => false | Some o => BlockCacheEvictRemoved o end.

Definition GetBlockRestartInterval (o : option Options) : Z :=
  match o with
  | None => dflt opt_DefaultBlockRestartInterval
  | Some o => if BlockRestartInterval o <=? 0 then dflt opt_DefaultBlockRestartInterval else BlockRestartInterval o
  end.

Definition GetBlockSize (o : option Options) : Z :=
  match o with
  | None => dflt opt_DefaultBlockSize
  | Some o => if BlockSize o <=? 0 then dflt opt_DefaultBlockSize else BlockSize o
  end.

(* mult of GetCompactionTableSize / GetCompactionTotalSize; the test "mult == 0" that selects the default can
   only succeed when no branch assigned mult (inside the exact domain a power of a positive number is not 0) *)
Definition mult_of (clamp : fl -> fl) (perLevel : list fl) (global dflt_mult : fl) (level : Z) : option (Z * Z) :=
  match nth_error perLevel (Z.to_nat level) with
  | Some x =>
    if fl_pos x then exact_of x
    else if fl_pos global then pow_model (clamp global) level
    else pow_model dflt_mult level
  | None =>
    if fl_pos global then pow_model (clamp global) level else pow_model dflt_mult level
  end.

Definition no_clamp (x : fl) : fl := x.
(* repair 5: m := multiplier; if m < 1 { m = 1 } *)
Definition clamp_ge_one (x : fl) : fl := if fl_lt_one x then Dy 1 0 else x.

Definition GetCompactionTableSize (o : option Options) (level : Z) : gres :=
  match o with
  | None => size_of (dflt opt_DefaultCompactionTableSize) (pow_model DefaultTableMult level)
  | Some o =>
    if level <? 0 then GoPanic
    else
      let base := if 0 <? CompactionTableSize o then CompactionTableSize o else dflt opt_DefaultCompactionTableSize in
      size_of base (mult_of no_clamp (CompactionTableSizeMultiplierPerLevel o) (CompactionTableSizeMultiplier o) DefaultTableMult level)
  end.

Definition total_size_with (clamp : fl -> fl) (o : option Options) (level : Z) : gres :=
  match o with
  | None => size_of (dflt opt_DefaultCompactionTotalSize) (pow_model DefaultTotalMult level)
  | Some o =>
    if level <? 0 then GoPanic
    else
      let base := if 0 <? CompactionTotalSize o then CompactionTotalSize o else dflt opt_DefaultCompactionTotalSize in
      size_of base (mult_of clamp (CompactionTotalSizeMultiplierPerLevel o) (CompactionTotalSizeMultiplier o) DefaultTotalMult level)
  end.

(* before repair 5: any positive global multiplier was used as it is *)
Definition GetCompactionTotalSize_old := total_size_with no_clamp.
(* the code as it is: a global multiplier below one is read as one *)
Definition GetCompactionTotalSize := total_size_with clamp_ge_one.

Definition times_factor (r : gres) (factor : Z) : gres :=
  match r with Val z => Val (wrap64 (z * factor)) | r => r end.

Definition factor_of (o : option Options) (f : Options -> Z) (d : N) : Z :=
  match o with
  | None => dflt d
  | Some o => if 0 <? f o then f o else dflt d
  end.

Definition GetCompactionExpandLimit (o : option Options) (level : Z) : gres :=
  times_factor (GetCompactionTableSize o (level + 1))
               (factor_of o CompactionExpandLimitFactor opt_DefaultCompactionExpandLimitFactor).

Definition GetCompactionGPOverlaps (o : option Options) (level : Z) : gres :=
  times_factor (GetCompactionTableSize o (level + 2))
               (factor_of o CompactionGPOverlapsFactor opt_DefaultCompactionGPOverlapsFactor).

Definition GetCompactionSourceLimit (o : option Options) (level : Z) : gres :=
  times_factor (GetCompactionTableSize o (level + 1))
               (factor_of o CompactionSourceLimitFactor opt_DefaultCompactionSourceLimitFactor).

Definition GetCompactionL0Trigger_old (o : option Options) : Z :=
  match o with
  | None => dflt opt_DefaultCompactionL0Trigger
  | Some o => if CompactionL0Trigger o =? 0 then dflt opt_DefaultCompactionL0Trigger else CompactionL0Trigger o
  end.

(* the code as it is (repair 1): a non-positive trigger selects the default *)
Definition GetCompactionL0Trigger (o : option Options) : Z :=
  match o with
  | None => dflt opt_DefaultCompactionL0Trigger
  | Some o => if CompactionL0Trigger o <=? 0 then dflt opt_DefaultCompactionL0Trigger else CompactionL0Trigger o
  end.

(* true = the default comparer is returned *)
Definition GetComparerIsDefault (o : option Options) : bool :=
  match o with None => true | Some o => ComparerNil o end.

Definition GetCompression (o : option Options) : Z :=
  match o with
  | None => dflt opt_DefaultCompressionType
  | Some o => if (Compression o <=? dflt opt_DefaultCompression) || (dflt opt_nCompression <=? Compression o)
              then dflt opt_DefaultCompressionType else Compression o
  end.

Definition GetDisableBufferPool (o : option Options) : bool := match o with None => false | Some o => DisableBufferPool o end.
Definition GetDisableBlockCache (o : option Options) : bool := match o with None => false | Some o => DisableBlockCache o end.
Definition GetDisableCompactionBackoff (o : option Options) : bool := match o with None => false | Some o => DisableCompactionBackoff o end.
Definition GetDisableLargeBatchTransaction (o : option Options) : bool := match o with None => false | Some o => DisableLargeBatchTransaction o end.
Definition GetDisableSeeksCompaction (o : option Options) : bool := match o with None => false | Some o => DisableSeeksCompaction o end.
Definition GetErrorIfExist (o : option Options) : bool := match o with None => false | Some o => ErrorIfExist o end.
Definition GetErrorIfMissing (o : option Options) : bool := match o with None => false | Some o => ErrorIfMissing o end.

(* true = a non-nil filter is returned *)
Definition GetFilterSet (o : option Options) : bool := match o with None => false | Some o => negb (FilterNil o) end.

Definition GetIteratorSamplingRate_old (o : option Options) : Z :=
  match o with
  | None => dflt opt_DefaultIteratorSamplingRate
  | Some o => if IteratorSamplingRate o =? 0 then dflt opt_DefaultIteratorSamplingRate
              else if IteratorSamplingRate o <? 0 then 0 else IteratorSamplingRate o
  end.

(* the code as it is (repair 4): bounded by maxIteratorSamplingRate = MaxInt / 2 *)
Definition GetIteratorSamplingRate (o : option Options) : Z :=
  match o with
  | None => dflt opt_DefaultIteratorSamplingRate
  | Some o => if IteratorSamplingRate o =? 0 then dflt opt_DefaultIteratorSamplingRate
              else if IteratorSamplingRate o <? 0 then 0
              else if maxIteratorSamplingRate <? IteratorSamplingRate o then maxIteratorSamplingRate
              else IteratorSamplingRate o
  end.

Definition GetNoSync (o : option Options) : bool := match o with None => false | Some o => NoSync o end.
Definition GetNoWriteMerge (o : option Options) : bool := match o with None => false | Some o => NoWriteMerge o end.

Definition GetOpenFilesCacher (o : option Options) : cacher :=
  match o with
  | None => CLRU
  | Some o => match OpenFilesCacher o with CNil => CLRU | c => c end
  end.

Definition GetOpenFilesCacheCapacity (o : option Options) : Z :=
  match o with
  | None => dflt opt_DefaultOpenFilesCacheCapacity
  | Some o => if OpenFilesCacheCapacity o =? 0 then dflt opt_DefaultOpenFilesCacheCapacity
              else if OpenFilesCacheCapacity o <? 0 then 0 else OpenFilesCacheCapacity o
  end.

Definition GetReadOnly (o : option Options) : bool := match o with None => false | Some o => ReadOnly o end.

Definition GetStrict (o : option Options) (strict : Z) : bool :=
  match o with
  | None => negb (Z.land (dflt opt_DefaultStrict) strict =? 0)
  | Some o => if Strict o =? 0 then negb (Z.land (dflt opt_DefaultStrict) strict =? 0)
              else negb (Z.land (Strict o) strict =? 0)
  end.

Definition GetWriteBuffer (o : option Options) : Z :=
  match o with
  | None => dflt opt_DefaultWriteBuffer
  | Some o => if WriteBuffer o <=? 0 then dflt opt_DefaultWriteBuffer else WriteBuffer o
  end.

Definition GetWriteL0PauseTrigger_old (o : option Options) : Z :=
  match o with
  | None => dflt opt_DefaultWriteL0PauseTrigger
  | Some o => if WriteL0PauseTrigger o =? 0 then dflt opt_DefaultWriteL0PauseTrigger else WriteL0PauseTrigger o
  end.

(* the code as it is (repair 2): never below the level-0 compaction trigger *)
Definition GetWriteL0PauseTrigger (o : option Options) : Z :=
  let trigger := match o with
                 | None => dflt opt_DefaultWriteL0PauseTrigger
                 | Some o' => if WriteL0PauseTrigger o' =? 0 then dflt opt_DefaultWriteL0PauseTrigger else WriteL0PauseTrigger o'
                 end in
  let c := GetCompactionL0Trigger o in
  if trigger <? c then c else trigger.

Definition GetWriteL0SlowdownTrigger (o : option Options) : Z :=
  match o with
  | None => dflt opt_DefaultWriteL0SlowdownTrigger
  | Some o => if WriteL0SlowdownTrigger o =? 0 then dflt opt_DefaultWriteL0SlowdownTrigger else WriteL0SlowdownTrigger o
  end.

Definition GetFilterBaseLg_old (o : option Options) : Z :=
  match o with
  | None => dflt opt_DefaultFilterBaseLg
  | Some o => if FilterBaseLg o <=? 0 then dflt opt_DefaultFilterBaseLg else FilterBaseLg o
  end.

(* the code as it is (repair 3): bounded by maxFilterBaseLg = 63 *)
Definition GetFilterBaseLg (o : option Options) : Z :=
  match o with
  | None => dflt opt_DefaultFilterBaseLg
  | Some o => if FilterBaseLg o <=? 0 then dflt opt_DefaultFilterBaseLg
              else if maxFilterBaseLg <? FilterBaseLg o then maxFilterBaseLg
              else FilterBaseLg o
  end.

Definition GetMaxManifestFileSize (o : option Options) : Z :=
  match o with
  | None => dflt opt_DefaultMaxManifestFileSize
  | Some o => if MaxManifestFileSize o <=? 0 then dflt opt_DefaultMaxManifestFileSize else MaxManifestFileSize o
  end.

(* ---- ReadOptions / WriteOptions / package-level GetStrict *)
Definition RoGetDontFillCache (ro : option ReadOptions) : bool := match ro with None => false | Some r => DontFillCache r end.
Definition RoGetStrict (ro : option ReadOptions) (strict : Z) : bool :=
  match ro with None => false | Some r => negb (Z.land (RoStrict r) strict =? 0) end.
Definition WoGetNoWriteMerge (wo : option WriteOptions) : bool := match wo with None => false | Some w => WoNoWriteMerge w end.
Definition WoGetSync (wo : option WriteOptions) : bool := match wo with None => false | Some w => WoSync w end.

Definition PkgGetStrict (o : option Options) (ro : option ReadOptions) (strict : Z) : bool :=
  if RoGetStrict ro (dflt opt_StrictOverride) then RoGetStrict ro strict
  else GetStrict o strict || RoGetStrict ro strict.

(* ------------------------------------------------------------------ what the callers compute from the getters *)

(* version.computeCompaction, level 0: score = float64(len(tables)) / float64(GetCompactionL0Trigger()); the
   version needs a compaction when score >= 1.  For 0 <= tlen < 2^53 and |trigger| < 2^53 both conversions are
   exact and the correctly rounded quotient is >= 1 exactly when the real quotient is: trigger > 0 and
   tlen >= trigger (a non-positive trigger gives a score <= 0, -Inf or NaN, never >= 1, for tlen >= 0). *)
Definition need_l0_compaction_with (trigger tlen : Z) : bool := (0 <? trigger) && (trigger <=? tlen).
Definition need_l0_compaction (o : option Options) (tlen : Z) : bool :=
  need_l0_compaction_with (GetCompactionL0Trigger o) tlen.
Definition need_l0_compaction_old (o : option Options) (tlen : Z) : bool :=
  need_l0_compaction_with (GetCompactionL0Trigger_old o) tlen.

(* DB.flush: the writer takes the pause branch (waits for a table compaction, then re-evaluates) when its
   memdb has no room and tLen >= pauseTrigger *)
Definition writer_pauses_with (pause tlen : Z) : bool := pause <=? tlen.
Definition writer_pauses (o : option Options) (tlen : Z) : bool := writer_pauses_with (GetWriteL0PauseTrigger o) tlen.
Definition writer_pauses_old (o : option Options) (tlen : Z) : bool := writer_pauses_with (GetWriteL0PauseTrigger_old o) tlen.

(* table.filterWriter.flush: offset / uint64(1 << baseLg) with baseLg = uint(GetFilterBaseLg()): a shift count
   of 64 or more yields 0 and the division panics *)
Definition filter_shift_ok (lg : Z) : bool := (0 <=? lg) && (lg <? 64).

(* DB.iterSamplingRate: rand.Intn(2 * rate), reached only when rate > 0; Intn panics unless its argument,
   computed in wrapping int arithmetic, is positive *)
Definition sampling_arg (rate : Z) : Z := wrap64 (2 * rate).
Definition sampling_ok (rate : Z) : bool := (rate <=? 0) || (0 <? sampling_arg rate).

(* util.NewBufferPool(GetBlockSize() + 5): panics when the wrapped sum is <= 0; its size classes are
   baseline/4, /2, *1, *2, *4 in wrapping arithmetic *)
Definition pool_baseline (bs : Z) : Z := wrap64 (bs + 5).
Definition pool_ok (bs : Z) : bool := (0 <? pool_baseline bs) && (pool_baseline bs * 4 <=? maxInt).

(* ------------------------------------------------------------------ results in the order of the (K) cases *)
Definition b2z (b : bool) : Z := if b then 1 else 0.
Definition cacher_kind (c : cacher) : Z := match c with CLRU => 0 | CNo => 1 | _ => 2 end.

Definition strict_flags : list Z :=
  map dflt [opt_StrictManifest; opt_StrictJournalChecksum; opt_StrictJournal; opt_StrictBlockChecksum;
            opt_StrictCompaction; opt_StrictReader; opt_StrictRecovery; opt_StrictOverride].

Fixpoint mask_from (f : Z -> bool) (flags : list Z) (bit : Z) : Z :=
  match flags with
  | [] => 0
  | s :: r => (if f s then bit else 0) + mask_from f r (2 * bit)
  end.

Definition scalar_results (o : option Options) (ro : option ReadOptions) (wo : option WriteOptions) : list Z :=
  [ GetAltFiltersLen o; cacher_kind (GetBlockCacher o); GetBlockCacheCapacity o; b2z (GetBlockCacheEvictRemoved o);
    GetBlockRestartInterval o; GetBlockSize o; GetCompactionL0Trigger o; b2z (GetComparerIsDefault o);
    GetCompression o; b2z (GetDisableBufferPool o); b2z (GetDisableBlockCache o); b2z (GetDisableCompactionBackoff o);
    b2z (GetDisableLargeBatchTransaction o); b2z (GetDisableSeeksCompaction o); b2z (GetErrorIfExist o);
    b2z (GetErrorIfMissing o); b2z (GetFilterSet o); GetIteratorSamplingRate o; b2z (GetNoSync o);
    b2z (GetNoWriteMerge o); cacher_kind (GetOpenFilesCacher o); GetOpenFilesCacheCapacity o; b2z (GetReadOnly o);
    mask_from (GetStrict o) strict_flags 1; GetWriteBuffer o; GetWriteL0PauseTrigger o; GetWriteL0SlowdownTrigger o;
    GetFilterBaseLg o; GetMaxManifestFileSize o;
    b2z (RoGetDontFillCache ro); mask_from (RoGetStrict ro) strict_flags 1; b2z (WoGetNoWriteMerge wo);
    b2z (WoGetSync wo); mask_from (PkgGetStrict o ro) strict_flags 1 ].

(* levels 0 .. n-1 *)
Fixpoint levels_from (l : Z) (n : nat) : list Z :=
  match n with O => [] | S k => l :: levels_from (l + 1) k end.

Definition level_results (o : option Options) (n : nat) : list (list gres) :=
  let ls := levels_from 0 n in
  [ map (GetCompactionExpandLimit o) ls; map (GetCompactionGPOverlaps o) ls; map (GetCompactionSourceLimit o) ls;
    map (GetCompactionTableSize o) ls; map (GetCompactionTotalSize o) ls ].
