(* Gen/InstJournal.v — the journal model's constants instantiated from the constants generated
   out of /repo's current source (definitions only; side conditions in InstJournalOk.v). *)
From GL Require Import Gen.Consts Codec.Crc Codec.Journal.

(* journal.go: blockSize, headerSize, chunk type codes *)
Definition jp : jparams := {|
  bs := jnl_blockSize; hs := jnl_headerSize;
  tFull := jnl_fullChunkType; tFirst := jnl_firstChunkType;
  tMiddle := jnl_middleChunkType; tLast := jnl_lastChunkType |}.

(* util/crc32.go: CRC.Value() rotation and delta *)
Definition jcp : cparams := {|
  crc_rot_r := lit_crc_rot_r; crc_rot_l := lit_crc_rot_l; crc_mask_delta := lit_crc_mask_delta |}.

(* util.NewCRC(b).Value() *)
Definition jcrc : bytes -> N := masked_crc jcp.

(* the same format with 32-byte blocks: used by Examples and fast tests only *)
Definition jp_small : jparams := {|
  bs := 32; hs := jnl_headerSize;
  tFull := jnl_fullChunkType; tFirst := jnl_firstChunkType;
  tMiddle := jnl_middleChunkType; tLast := jnl_lastChunkType |}.
