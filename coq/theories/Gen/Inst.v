(* Gen/Inst.v — the models' parameter records instantiated with the constants generated from
   /repo's current source (definitions only; the side conditions are proved in ConstsOk.v). *)
From GL Require Import Gen.Consts Codec.IKey.

Definition kp : kparams := {|
  keyTypeDel := ldb_keyTypeDel; keyTypeVal := ldb_keyTypeVal; keyTypeSeek := ldb_keyTypeSeek;
  keyMaxSeq := ldb_keyMaxSeq; keyMaxNum := ldb_keyMaxNum |}.
