(* Gen/InstC17.v — the constants of the node table of leveldb/cache/cache.go (mInitialSize,
   mOverflowThreshold, mOverflowGrowThreshold, the literals of murmur32 and the seed Cache.Get /
   Delete / Evict pass to it) instantiated from what harness/cmd/constgen reads out of the Go source
   (definitions only; side conditions in Conc/CacheTableProofs.v). *)
From Coq Require Import NArith.
From GL Require Import Gen.Consts Conc.CacheTable.
Local Open Scope N_scope.

Definition cache_tp : tparams :=
  {| tp_init := cch_mInitialSize; tp_ovf := cch_mOverflowThreshold; tp_ovfgrow := cch_mOverflowGrowThreshold |}.

Definition cache_hc : hconsts :=
  {| hc_m := lit_cch_murmur_m; hc_r := lit_cch_murmur_r; hc_hi1 := lit_cch_murmur_hi1; hc_hi2 := lit_cch_murmur_hi2;
     hc_s1 := lit_cch_murmur_s1; hc_s2 := lit_cch_murmur_s2 |}.

(* the hash Cache.Get / Delete / Evict compute for a node *)
Definition cache_hash (ns key : N) : N := murmur32 cache_hc ns key lit_cch_seed_get.

(* the bucket state codes of the layout observation are the Go constants *)
Definition cache_bcodes : N * N * N := (cch_bucketUninitialized, cch_bucketInitialized, cch_bucketFrozen).
