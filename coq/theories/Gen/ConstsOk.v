(* Gen/ConstsOk.v — re-proves, by computation, the side conditions the generic theorems assume
   of the constants generated from /repo's current source.  A changed constant that invalidates
   one of them breaks this file (a proof obligation). *)
From GL Require Import Gen.Consts Codec.IKey.
From GL Require Export Gen.Inst.
From Coq Require Import Lia.

Lemma kp_ok : kparams_ok kp.
Proof. unfold kparams_ok, kp; cbn. repeat split; try (vm_compute; congruence); vm_compute; reflexivity. Qed.
