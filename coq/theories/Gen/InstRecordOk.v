(* Gen/InstRecordOk.v — re-proves, by computation, the side condition of the manifest record theorems
   (rparams_ok: the tag numbers are pairwise different, one-byte varints and bit positions of hasRec) for the
   constants generated from /repo's current source.  A changed tag number that invalidates it breaks this file
   (a proof obligation). *)
From GL Require Import Gen.Consts Codec.SessionRecord Codec.SessionRecordSpec.
From GL Require Export Gen.InstRecord.
From Coq Require Import Lia.

Lemma rp_ok : rparams_ok rp.
Proof.
  split.
  - unfold tags, rp; cbn. repeat (constructor; [cbn [In]; vm_compute; intuition congruence|]). constructor.
  - unfold tags, rp; cbn. repeat (constructor; [vm_compute; reflexivity|]). constructor.
Qed.
