(* Gen/InstC17Ok.v — side condition of the table theorems for the constants read from cache.go:
   mInitialSize is a power of two. *)
From Coq Require Import NArith.
From GL Require Import Gen.Consts Conc.CacheTable Gen.InstC17.
Local Open Scope N_scope.

Lemma cache_tp_ok : exists e, tp_init cache_tp = 2 ^ e.
Proof. exists (N.log2 (tp_init cache_tp)). vm_compute. reflexivity. Qed.

Lemma cache_tp_values : (tp_init cache_tp, tp_ovf cache_tp, tp_ovfgrow cache_tp) = (16, 32, 128).
Proof. vm_compute. reflexivity. Qed.
