(* Gen/ConstsOkC02.v — re-proves, by computation, the side conditions the C02 theorems assume of the
   key constants generated from the current Go source (Gen/Consts.v): keyTypeSeek is a kind that
   makeInternalKey accepts (Seek must not panic) and tombstones parse (keyTypeDel <= keyTypeVal).
   A changed constant that invalidates one of them breaks this file (a proof obligation). *)
From GL Require Import Gen.Consts Codec.IKey Iter.DBIter.
From GL Require Export Gen.Inst Gen.ConstsOk.

Lemma kp_db_ok : dbparams_ok kp.
Proof.
  split; [exact kp_ok|]. unfold kp; cbn. split; vm_compute; congruence.
Qed.
