(* Gen/ConstsOkMem.v — re-proves, by computation, the side conditions the memdb theorems assume
   of the constants generated from the current source: the node layout
   [kv offset; key len; val len; height; next...] and tMaxHeight >= 1; and that the height
   generator the harness replicates (branching factor, seed) is the one in the source. *)
From GL Require Import Gen.Consts Mem.MemDB.
From GL Require Export Gen.InstMem.

Lemma mp_ok : mparams_ok mp.
Proof. unfold mparams_ok, mp; cbn. repeat split; vm_compute; congruence. Qed.

(* randHeight as replicated in harness/cmd/c14 (branching 4, source seeded with 0xdeadbeef in
   New and again in Reset). *)
Lemma mdb_height_generator_ok :
  lit_mdb_branching = 4%N /\ lit_mdb_seed_new = 3735928559%N /\ lit_mdb_seed_reset = 3735928559%N.
Proof. repeat split; vm_compute; reflexivity. Qed.
