(* Gen/InstJournalOk.v — re-proves, by computation, the side conditions the generic journal
   theorems assume (jparams_ok, cparams_ok) for the constants generated from /repo's current
   source.  A changed block size, header size or chunk type code that invalidates one of them
   breaks this file (a proof obligation). *)
From GL Require Import Gen.Consts Codec.Crc Codec.Journal.
From GL Require Export Gen.InstJournal.
From Coq Require Import Lia.

Lemma jp_ok : jparams_ok jp.
Proof. unfold jparams_ok, jp; cbn. repeat split; try (vm_compute; congruence); vm_compute; reflexivity. Qed.

Lemma jp_small_ok : jparams_ok jp_small.
Proof. unfold jparams_ok, jp_small; cbn. repeat split; try (vm_compute; congruence); vm_compute; reflexivity. Qed.

Lemma jcp_ok : cparams_ok jcp.
Proof. unfold cparams_ok, jcp; cbn. split; vm_compute; reflexivity. Qed.
