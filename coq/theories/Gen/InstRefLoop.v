(* Gen/InstRefLoop.v — the reference-loop model's parameter record instantiated with the constant
   generated from /repo's current source (leveldb/session_util.go: maxCachedNumber). *)
From GL Require Import Gen.Consts Conc.RefLoop.

Definition rlp : rlparams := {| maxCachedNumber := ldb_maxCachedNumber |}.
