(* Gen/BloomInst.v — the Bloom/Hash model's parameter records instantiated with the constants
   generated from the repo's current source (definitions only; side conditions re-proved in
   BloomConstsOk.v). *)
From GL Require Import Gen.Consts Codec.Bloom.

Definition hp : hparams := {| h_m := lit_hash_m; h_r := lit_hash_r |}.

Definition bp : bparams := {|
  b_hash := hp; b_seed := lit_bloom_seed;
  b_knum := lit_bloom_k_num; b_kden := lit_bloom_k_den;
  b_kcmp := lit_bloom_k_cmp; b_kset := lit_bloom_k_set;
  b_mincmp := lit_bloom_min_cmp; b_minset := lit_bloom_min_set;
  b_grotr := lit_bloom_gen_rotr; b_grotl := lit_bloom_gen_rotl;
  b_ckmax := lit_bloom_has_kmax;
  b_crotr := lit_bloom_has_rotr; b_crotl := lit_bloom_has_rotl;
  b_maxbits := flt_maxBloomBits; b_probebits := flt_bloomProbeBits |}.
