(* Gen/InstRecord.v — the manifest record model's tag numbers instantiated from the constants generated out of
   /repo's current source (leveldb/session_record.go: recComparer ... recPrevJournalNum).  Definitions only; the
   side condition is re-proved in InstRecordOk.v. *)
From GL Require Import Gen.Consts Codec.SessionRecord.

Definition rp : rparams := {|
  tComparer := ldb_recComparer; tJournalNum := ldb_recJournalNum; tNextFileNum := ldb_recNextFileNum;
  tSeqNum := ldb_recSeqNum; tCompPtr := ldb_recCompPtr; tDelTable := ldb_recDelTable;
  tAddTable := ldb_recAddTable; tPrevJournalNum := ldb_recPrevJournalNum |}.

(* runtime.maxAlloc on linux/amd64 (the pinned decoder's make([]byte, n) panics above it) *)
Definition go_max_alloc : N := 281474976710656.
