(* Gen/InstMem.v — the memdb model's parameter record instantiated with the constants generated
   from the current Go source (definitions only; side conditions in ConstsOkMem.v). *)
From GL Require Import Gen.Consts Mem.MemDB.

Definition mp : mparams := {|
  tMaxHeight := mdb_tMaxHeight;
  nKV := mdb_nKV; nKey := mdb_nKey; nVal := mdb_nVal; nHeight := mdb_nHeight; nNext := mdb_nNext |}.
