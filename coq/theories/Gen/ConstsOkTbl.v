(* Gen/ConstsOkTbl.v — re-proves, by computation, the side conditions the table theorems assume
   of the generated constants (trailer = 1 type byte + 4 CRC bytes, footer large enough for two
   maximal block handles plus the 8-byte magic, distinct block types). *)
From GL Require Import Gen.Consts Codec.Table.
From GL Require Export Gen.InstTbl.

Lemma tblp_ok : tparams_ok tblp.
Proof.
  unfold tparams_ok, tblp; cbn [tp_trailerLen tp_footerLen tp_magic tp_typeNone tp_typeSnappy].
  repeat split; try (vm_compute; congruence); try (vm_compute; reflexivity).
  unfold wf_bytes, wf_byte. repeat constructor; vm_compute; reflexivity.
Qed.
