(* Gen/ConstsOkTbl.v — re-proves, by computation, the side conditions the table theorems assume
   of the generated constants (trailer = 1 type byte + 4 CRC bytes, footer large enough for two
   maximal block handles plus the 8-byte magic, distinct block types). *)
From GL Require Import Gen.Consts Codec.Table.
From GL Require Export Gen.InstTbl.

Lemma tblp_ok : tparams_ok tblp.
Proof.
  unfold tparams_ok, tblp; cbn [tp_trailerLen tp_footerLen tp_magic tp_typeNone tp_typeSnappy].
  repeat split; try (vm_compute; congruence); try (vm_compute; reflexivity).
  unfold wf_bytes, wf_byte. repeat constructor; vm_compute; reflexivity.
Qed.

(* The on-disk format constants are pinned: table.go says "these constants are part of the file
   format and should not be changed".  Writer, reader and the regenerated model constants all
   follow the source, so a changed magic number or block type would go unnoticed by any round
   trip; here it breaks a proof obligation (and the harness reads a stored golden file). *)
Lemma tbl_format_pinned :
  tbl_magic = [87; 251; 128; 139; 36; 117; 71; 219]%N /\
  tbl_blockTypeNoCompression = 0%N /\ tbl_blockTypeSnappyCompression = 1%N /\
  tbl_blockTrailerLen = 5%N /\ tbl_footerLen = 48%N.
Proof. repeat split; reflexivity. Qed.
