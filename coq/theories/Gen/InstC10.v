(* Gen/InstC10.v — the merge-limit constants of writeLocked instantiated from the literals that
   harness/cmd/constgen reads out of leveldb/db_write.go (definitions only). *)
From Coq Require Import NArith.
From GL Require Import Gen.Consts Conc.WriteMerge.
Local Open Scope N_scope.

Definition wmp : mparams := {|
  mergeThreshold := N.shiftl lit_wm_thr_a lit_wm_thr_sh;      (* batch.internalLen > 128<<10 *)
  mergeBigLimit := N.shiftl 1 lit_wm_big_sh;                  (* (1 << 20) - batch.internalLen *)
  mergeSmallLimit := N.shiftl lit_wm_small_a lit_wm_small_sh  (* mergeLimit = 128 << 10 *)
|}.
