(* Gen/InstTbl.v — the table model's parameter record instantiated with the constants generated
   from the current Go source (definitions only; side conditions in ConstsOkTbl.v). *)
From GL Require Import Gen.Consts Codec.Table.

Definition tblp : tparams :=
  mkTP tbl_blockTrailerLen tbl_footerLen tbl_magic tbl_blockTypeNoCompression tbl_blockTypeSnappyCompression.
