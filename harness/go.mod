module verifharness

go 1.14

require github.com/syndtr/goleveldb v0.0.0

replace github.com/syndtr/goleveldb => /repo
