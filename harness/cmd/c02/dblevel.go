package main

import (
	"bytes"
	"encoding/binary"
	"fmt"
	"os"
	"sort"
	"strings"
	"time"

	"github.com/syndtr/goleveldb/leveldb"
	"github.com/syndtr/goleveldb/leveldb/comparer"
	"github.com/syndtr/goleveldb/leveldb/filter"
	"github.com/syndtr/goleveldb/leveldb/iterator"
	"github.com/syndtr/goleveldb/leveldb/opt"
	"github.com/syndtr/goleveldb/leveldb/storage"
	"github.com/syndtr/goleveldb/leveldb/util"
	"verifharness/lib/dbh"
	"verifharness/lib/vlib"
	"verifharness/lib/vstor"
)

// ---- DB-level programs ----
type optSpec struct {
	WriteBuffer  int  `json:"write_buffer"`
	TableSize    int  `json:"table_size"`
	TotalSize    int  `json:"total_size"`
	BlockSize    int  `json:"block_size"`
	Restart      int  `json:"restart"`
	L0Trigger    int  `json:"l0_trigger"`
	Snappy       bool `json:"snappy"`
	Bloom        bool `json:"bloom"`
	NoBlockCache bool `json:"no_block_cache"`
	NoBufPool    bool `json:"no_buffer_pool"`
	OpenFiles    int  `json:"open_files"`
	Sampling     int  `json:"sampling"` // IteratorSamplingRate; 0 = seek compaction disabled
	NoLargeTxn   bool `json:"no_large_batch_txn"`
	NoTableComp  bool `json:"no_table_compaction"` // level-0-only layout (a layout option like the others)
	// BlockCacheEvictRemoved=false: blocks of removed tables stay in the block cache (generated since
	// the file-number reuse defect 9e241f6 is repaired; findings/C02_stale_block_cache_after_discard.json
	// is the old trigger)
	KeepRemovedBlocks bool `json:"keep_removed_blocks,omitempty"`
}

type bop struct {
	Del bool     `json:"del,omitempty"`
	K   hexbytes `json:"k"`
	V   hexbytes `json:"v,omitempty"`
}

type op struct {
	T      string    `json:"t"`
	K      hexbytes  `json:"k,omitempty"`
	V      hexbytes  `json:"v,omitempty"`
	Batch  []bop     `json:"batch,omitempty"`
	ID     int       `json:"id,omitempty"`
	View   string    `json:"view,omitempty"` // db | snap | tr
	Start  *hexbytes `json:"start,omitempty"`
	Limit  *hexbytes `json:"limit,omitempty"`
	NoFill bool      `json:"nofill,omitempty"`
	Moves  []move    `json:"moves,omitempty"`
	FaultK int       `json:"fault_k,omitempty"` // fault_walk: the FaultK-th table read from now on fails
}

type dbCase struct {
	Kind    string  `json:"kind"` // "db"
	Cid     int     `json:"cmp"`
	Opts    optSpec `json:"opts"`
	Settled bool    `json:"settled"`          // wait for compactions after every write
	Window  bool    `json:"window,omitempty"` // run with the flush-commit window held open (window.go); one at a time
	Ops     []op    `json:"ops"`
}

func (o optSpec) build(cmp comparer.Comparer) *opt.Options {
	r := &opt.Options{
		Comparer:                     cmp,
		WriteBuffer:                  o.WriteBuffer,
		CompactionTableSize:          o.TableSize,
		CompactionTotalSize:          o.TotalSize,
		BlockSize:                    o.BlockSize,
		BlockRestartInterval:         o.Restart,
		CompactionL0Trigger:          o.L0Trigger,
		WriteL0SlowdownTrigger:       1 << 20,
		WriteL0PauseTrigger:          1 << 21,
		OpenFilesCacheCapacity:       o.OpenFiles,
		DisableBufferPool:            o.NoBufPool,
		DisableLargeBatchTransaction: o.NoLargeTxn,
		NoSync:                       true,
		Strict:                       opt.StrictAll,
		// false: the blocks of a removed table stay cached; its file number must then not be reused
		// (tOps.remove, fixed 9e241f6) - both settings are generated
		BlockCacheEvictRemoved: !o.KeepRemovedBlocks,
	}
	if o.Snappy {
		r.Compression = opt.SnappyCompression
	} else {
		r.Compression = opt.NoCompression
	}
	if o.Bloom {
		r.Filter = filter.NewBloomFilter(10)
	}
	if o.NoBlockCache {
		r.DisableBlockCache = true
	} else {
		r.BlockCacheCapacity = 4096
	}
	if o.Sampling > 0 {
		r.IteratorSamplingRate = o.Sampling
	} else {
		r.DisableSeeksCompaction = true
	}
	if o.NoTableComp {
		r.CompactionL0Trigger = 1 << 20
		r.DisableSeeksCompaction = true
	}
	return r
}

// ---- generation ----
func genOpts(r *vlib.RNG, small bool) optSpec {
	o := optSpec{
		WriteBuffer:  []int{256, 512, 1024, 2048, 4096}[r.Pick(3, 3, 3, 2, 1)],
		TableSize:    []int{256, 512, 1024, 4096}[r.Pick(3, 3, 2, 1)],
		TotalSize:    []int{1024, 4096, 16384}[r.Pick(3, 2, 1)],
		BlockSize:    []int{32, 64, 128, 512, 4096}[r.Pick(3, 3, 2, 1, 1)],
		Restart:      []int{1, 2, 3, 16}[r.Pick(2, 2, 1, 2)],
		L0Trigger:    []int{2, 3, 4}[r.Pick(3, 1, 2)],
		Snappy:       r.Bool(),
		Bloom:        r.Bool(),
		NoBlockCache: r.Chance(1, 3),
		NoBufPool:    r.Chance(1, 4),
		OpenFiles:    []int{0, 2, 16}[r.Pick(1, 2, 1)], // 0 = default
		NoLargeTxn:   r.Chance(1, 4),
	}
	o.KeepRemovedBlocks = r.Chance(1, 3)
	o.NoTableComp = r.Chance(1, 8)
	if small {
		o.WriteBuffer = []int{128, 256, 512}[r.Intn(3)]
		o.TableSize = []int{128, 256}[r.Intn(2)]
		o.TotalSize = 512
		o.BlockSize = []int{24, 48, 96}[r.Intn(3)]
	}
	if r.Chance(1, 5) {
		o.Sampling = []int{16, 64, 256}[r.Intn(3)]
	}
	return o
}

type progGen struct {
	cmp     comparer.Comparer
	r       *vlib.RNG
	pool    [][]byte
	small   bool
	maxMove int
	ops     []op
	nextID  int
	// book-keeping of what is open (ids)
	snaps  []int
	iters  map[int]string // id -> view kind
	trOpen bool
}

func (g *progGen) key() []byte { return append([]byte{}, g.pool[g.r.Intn(len(g.pool))]...) }
func (g *progGen) val() []byte {
	r := g.r
	if g.small {
		return r.Bytes(r.Pick(1, 3, 3, 1)*3, nil) // 0,3,6,9 bytes
	}
	switch r.Pick(1, 6, 3, 1) {
	case 0:
		return []byte{}
	case 1:
		return r.Bytes(r.Range(1, 16), nil)
	case 2:
		return r.Bytes(r.Range(17, 80), nil)
	default:
		return r.Bytes(r.Range(100, 400), nil)
	}
}

func (g *progGen) bound() *hexbytes {
	r := g.r
	if r.Chance(3, 10) {
		return nil
	}
	h := hexbytes(keyNear(r, g.pool, g.pool))
	return &h
}

func (g *progGen) iterNew(view string, id int) {
	o := op{T: "iter_new", ID: g.nextID, View: view, NoFill: g.r.Bool()}
	if view == "snap" {
		o.View = fmt.Sprintf("snap:%d", id)
	}
	if g.r.Chance(2, 3) {
		o.Start, o.Limit = g.bound(), g.bound()
		// inverted ranges (Start > Limit) are generated: the view is empty (Props/C02.v
		// C02_inverted_range_empty); two thirds of them are turned round to keep most ranges inhabited
		if o.Start != nil && o.Limit != nil && g.cmp.Compare(*o.Start, *o.Limit) > 0 && g.r.Chance(2, 3) {
			o.Start, o.Limit = o.Limit, o.Start
		}
	}
	g.iters[g.nextID] = view
	g.nextID++
	g.ops = append(g.ops, o)
}

func (g *progGen) iterWalk(id int) {
	g.ops = append(g.ops, op{T: "iter_walk", ID: id, Moves: genMoves(g.r, walkLen(g.r, g.maxMove), g.pool, g.pool)})
}

func (g *progGen) someIter() (int, bool) {
	if len(g.iters) == 0 {
		return 0, false
	}
	ids := make([]int, 0, len(g.iters))
	for id := range g.iters {
		ids = append(ids, id)
	}
	sort.Ints(ids)
	return ids[g.r.Intn(len(ids))], true
}

func (g *progGen) releaseIters(pred func(view string) bool) {
	ids := make([]int, 0, len(g.iters))
	for id, v := range g.iters {
		if pred(v) {
			ids = append(ids, id)
		}
	}
	sort.Ints(ids)
	for _, id := range ids {
		g.ops = append(g.ops, op{T: "iter_release", ID: id})
		delete(g.iters, id)
	}
}

func (g *progGen) batch() []bop {
	n := g.r.Range(1, 12)
	if g.r.Chance(1, 6) {
		n = g.r.Range(20, 60) // larger than a tiny write buffer: goes through a transaction
	}
	var b []bop
	for i := 0; i < n; i++ {
		if g.r.Chance(1, 4) {
			b = append(b, bop{Del: true, K: g.key()})
		} else {
			b = append(b, bop{K: g.key(), V: g.val()})
		}
	}
	return b
}

// classCmp: the program runs under the NON-INJECTIVE comparer (id 4, ASCII case-insensitive; vlib.CaseFold): the
// pool holds several spellings per user key, the three models (DB, snapshots, transaction) are keyed by equivalence
// class (dbh.Oracle Put/Del/Apply), and the key an iterator shows for a class is the spelling of its newest visible Put
// (liveFromRaw: the head entry of the class).
func genDBCase(r *vlib.RNG, small bool, maxMove int, classCmp bool) *dbCase {
	cid := r.Intn(vlib.NumComparers)
	if classCmp {
		cid = vlib.CmpCaseFold
	}
	c := &dbCase{Kind: "db", Cid: cid, Opts: genOpts(r, small), Settled: !r.Chance(1, 5)}
	if c.Opts.NoTableComp {
		c.Opts.Sampling = 0
	}
	cmp := vlib.ComparerByID(cid)
	g := &progGen{cmp: cmp, r: r, small: small, maxMove: maxMove, iters: map[int]string{}}
	npool := r.Range(4, 40)
	if small {
		npool = r.Range(3, 10)
	}
	g.pool = genKeySet(r, npool, cmp)
	if len(g.pool) == 0 {
		g.pool = [][]byte{{'a'}}
	}
	if classCmp {
		g.pool = dbh.SpellPool(r, g.pool)
		sort.SliceStable(g.pool, func(i, j int) bool { return cmp.Compare(g.pool[i], g.pool[j]) < 0 })
	}
	nops := r.Range(30, 400)
	if small {
		nops = r.Range(8, 45)
	}
	for len(g.ops) < nops {
		if g.trOpen {
			switch r.Pick(8, 3, 2, 3, 3, 2, 1) {
			case 0:
				g.ops = append(g.ops, op{T: "tr_put", K: g.key(), V: g.val()})
			case 1:
				g.ops = append(g.ops, op{T: "tr_del", K: g.key()})
			case 2:
				g.ops = append(g.ops, op{T: "tr_batch", Batch: g.batch()})
			case 3:
				g.iterNew([]string{"tr", "db"}[r.Pick(3, 1)], 0)
			case 4:
				if id, ok := g.someIter(); ok {
					g.iterWalk(id)
				}
			case 5:
				g.ops = append(g.ops, op{T: "tr_commit"})
				g.trOpen = false
			default:
				g.releaseIters(func(v string) bool { return v == "tr" })
				g.ops = append(g.ops, op{T: "tr_discard"})
				g.trOpen = false
			}
			continue
		}
		switch r.Pick(30, 12, 6, 3, 3, 4, 2, 3, 8, 12, 3, 1) {
		case 0:
			g.ops = append(g.ops, op{T: "put", K: g.key(), V: g.val()})
		case 1:
			g.ops = append(g.ops, op{T: "del", K: g.key()})
		case 2:
			g.ops = append(g.ops, op{T: "batch", Batch: g.batch()})
		case 3:
			if !c.Opts.NoTableComp {
				g.ops = append(g.ops, op{T: "compact"})
			}
		case 4:
			if !c.Opts.NoTableComp {
				g.ops = append(g.ops, op{T: "compact", Start: g.bound(), Limit: g.bound()})
			}
		case 5:
			g.ops = append(g.ops, op{T: "snap", ID: g.nextID})
			g.snaps = append(g.snaps, g.nextID)
			g.nextID++
		case 6:
			if len(g.snaps) > 1 {
				i := r.Intn(len(g.snaps))
				id := g.snaps[i]
				g.snaps = append(g.snaps[:i], g.snaps[i+1:]...)
				g.ops = append(g.ops, op{T: "snap_release", ID: id})
			}
		case 7:
			g.ops = append(g.ops, op{T: "tr_open"})
			g.trOpen = true
		case 8:
			if len(g.snaps) > 0 && r.Chance(1, 2) {
				g.iterNew("snap", g.snaps[r.Intn(len(g.snaps))])
			} else {
				g.iterNew("db", 0)
			}
		case 9:
			if id, ok := g.someIter(); ok {
				g.iterWalk(id)
			}
		case 10:
			if id, ok := g.someIter(); ok {
				g.ops = append(g.ops, op{T: "iter_release", ID: id})
				delete(g.iters, id)
			}
		default:
			g.releaseIters(func(string) bool { return true })
			for _, id := range g.snaps {
				g.ops = append(g.ops, op{T: "snap_release", ID: id})
			}
			g.snaps = nil
			g.ops = append(g.ops, op{T: "reopen"})
		}
	}
	// final sweep: every view, several ranges, fresh iterators created now (after all compactions)
	if g.trOpen && r.Bool() {
		g.ops = append(g.ops, op{T: "tr_commit"})
		g.trOpen = false
	}
	// walk the iterators created earlier (before later writes / compactions)
	ids := make([]int, 0, len(g.iters))
	for id := range g.iters {
		ids = append(ids, id)
	}
	sort.Ints(ids)
	for _, id := range ids {
		g.iterWalk(id)
	}
	nfinal := r.Range(2, 5)
	for i := 0; i < nfinal; i++ {
		first := g.nextID
		g.iterNew("db", 0)
		g.iterWalk(first)
		if len(g.snaps) > 0 {
			id := g.nextID
			g.iterNew("snap", g.snaps[r.Intn(len(g.snaps))])
			g.iterWalk(id)
		}
		if g.trOpen {
			id := g.nextID
			g.iterNew("tr", 0)
			g.iterWalk(id)
		}
	}
	// walks under a table read fault (vstor): only where no background read can consume the fault
	if c.Settled && c.Opts.Sampling == 0 && !g.trOpen {
		for i, n := 0, r.Range(0, 3); i < n; i++ {
			o := op{T: "fault_walk", View: "db", NoFill: r.Bool(), FaultK: r.Pick(3, 3, 2, 2, 1, 1, 1, 1) + r.Pick(4, 1)*r.Intn(12),
				Moves: genMoves(r, walkLen(r, g.maxMove), g.pool, g.pool)}
			if r.Chance(1, 2) {
				o.Start, o.Limit = g.bound(), g.bound()
			}
			g.ops = append(g.ops, o)
		}
	}
	c.Ops = g.ops
	return c
}

// ---- execution ----
type rawEntry struct {
	UKey  []byte
	Num   uint64
	Value []byte
	Src   string
}

type iterState struct {
	it       iterator.Iterator
	cur      *cursor
	exp      []kv
	raw      []rawEntry
	seq      uint64
	start    *hexbytes
	limit    *hexbytes
	view     string
	moves    []move
	obs      []obs
	poss     []int
	failed   bool
	heads    []int // index in raw of the head entry of each expected pair
	nsources int
}

type dbExec struct {
	c          *dbCase
	cmp        comparer.Comparer
	stor       storage.Storage
	vs         *vstor.Stor // = stor: the checker-owned storage (file bytes for the byte-level cases, read faults)
	db         *leveldb.DB
	model      map[string][]byte
	snaps      map[int]*leveldb.Snapshot
	smodel     map[int]map[string][]byte
	tr         *leveldb.Transaction
	trm        map[string][]byte
	iters      map[int]*iterState
	res        *vlib.Result
	kcases     *[]string
	kmax       int // max raw entries for a (K) case
	kmoves     int
	label      string
	nontrivial int
	walks      int
	// failure capture
	vdesc    string
	failOp   int
	failCall int
	curOp    int
	walkFail bool // the failure is a disagreement of a movement call (shrinkable)
	// byte-level (K) groups (bytes.go)
	bcases *[]string
	bmax   int
	bgrp   *byteGroup
	btr    *byteGroup
}

func copyMap(m map[string][]byte) map[string][]byte {
	r := make(map[string][]byte, len(m))
	for k, v := range m {
		r[k] = v
	}
	return r
}

func inRange(cmp comparer.Comparer, k []byte, start, limit *hexbytes) bool {
	if start != nil && cmp.Compare(k, *start) < 0 {
		return false
	}
	if limit != nil && cmp.Compare(k, *limit) >= 0 {
		return false
	}
	return true
}

func sortedView(m map[string][]byte, cmp comparer.Comparer, start, limit *hexbytes) []kv {
	out := []kv{}
	for k, v := range m {
		if inRange(cmp, []byte(k), start, limit) {
			out = append(out, kv{K: []byte(k), V: v})
		}
	}
	sortKVs(out, cmp)
	return out
}

func applyBatch(cmp comparer.Comparer, m map[string][]byte, b []bop) {
	for _, x := range b {
		if x.Del {
			dbh.Oracle(m).Del(cmp, x.K)
		} else {
			dbh.Oracle(m).Put(cmp, x.K, x.V)
		}
	}
}

func mkBatch(b []bop) *leveldb.Batch {
	bt := new(leveldb.Batch)
	for _, x := range b {
		if x.Del {
			bt.Delete(x.K)
		} else {
			bt.Put(x.K, x.V)
		}
	}
	return bt
}

func toRaw(es []leveldb.VerifRawEntry) []rawEntry {
	out := make([]rawEntry, len(es))
	for i, e := range es {
		n := len(e.IKey)
		out[i] = rawEntry{UKey: e.IKey[:n-8], Num: binary.LittleEndian.Uint64(e.IKey[n-8:]), Value: e.Value, Src: e.Source}
	}
	return out
}

// liveFromRaw: the live pairs according to the raw entry list (second oracle), with the index of
// each pair's head entry
func liveFromRaw(raw []rawEntry, seq uint64, cmp comparer.Comparer, start, limit *hexbytes) ([]kv, []int) {
	out := []kv{}
	heads := []int{}
	var last []byte
	have := false
	for i, e := range raw {
		if e.Num>>8 > seq {
			continue
		}
		if have && cmp.Compare(last, e.UKey) == 0 { // same user key: the comparer decides, not the bytes
			continue
		}
		have, last = true, e.UKey
		if e.Num&0xff == 1 && inRange(cmp, e.UKey, start, limit) {
			out = append(out, kv{K: e.UKey, V: e.Value})
			heads = append(heads, i)
		}
	}
	return out, heads
}

func sameKVs(a, b []kv) bool {
	if len(a) != len(b) {
		return false
	}
	for i := range a {
		if !bytes.Equal(a[i].K, b[i].K) || !bytes.Equal(a[i].V, b[i].V) {
			return false
		}
	}
	return true
}

// violate records the (first) failure of this program; it is reported, after shrinking, by runDBCase
func (x *dbExec) violate(desc string) {
	if x.vdesc == "" {
		x.vdesc = fmt.Sprintf("DB iterator (%s, comparer %d): %s", x.label, x.c.Cid, desc)
		x.failOp = x.curOp
	}
}

func (x *dbExec) open() error {
	db, err := leveldb.Open(x.stor, x.c.Opts.build(x.cmp))
	if err != nil {
		return err
	}
	x.db = db
	return nil
}

func (x *dbExec) settle() {
	if x.c.Settled && x.tr == nil {
		leveldb.VerifWaitCompaction(x.db)
	}
}

// settleAlways: before opening a transaction (explicitly, or implicitly by a batch larger than
// the write buffer).  Formerly unconditional (a transaction opened while a frozen memdb was still
// being flushed hit defect D6, fixed 2a22e13); now only settled programs wait, unsettled ones open
// transactions over a pending flush.
func (x *dbExec) settleAlways() {
	if x.tr == nil && x.c.Settled {
		leveldb.VerifWaitCompaction(x.db)
	}
}

// run executes the program; returns false when a violation was recorded
func (x *dbExec) run() (ok bool) {
	ok = true
	var win *windowCtl
	inWindow, winDone := false, false
	if x.c.Window {
		win = installWindowHook()
		defer removeWindowHook(win)
	}
	x.vs = vstor.New(false)
	x.stor = x.vs
	x.model = map[string][]byte{}
	x.snaps = map[int]*leveldb.Snapshot{}
	x.smodel = map[int]map[string][]byte{}
	x.iters = map[int]*iterState{}
	if err := x.open(); err != nil {
		x.violate("Open: " + err.Error())
		return false
	}
	defer func() {
		for _, is := range x.iters {
			x.emitK(is)
		}
		x.emitBytes()
		for _, is := range x.iters {
			is.it.Release()
		}
		for _, s := range x.snaps {
			s.Release()
		}
		if x.tr != nil {
			x.tr.Discard()
		}
		if win != nil {
			removeWindowHook(win) // before Close: the compaction goroutine may be held inside the window
		}
		x.db.Close()
	}()
	fail := func(what string, err error) {
		x.violate(what + ": " + err.Error())
		ok = false
	}
	for oi, o := range x.c.Ops {
		if !ok {
			return
		}
		x.curOp = oi
		// programs produced by shrinking may be ill-formed: skip what cannot be executed
		if win != nil && !inWindow {
			select {
			case <-win.entered:
				inWindow = true
				x.res.Count("db_window_entered", 1)
			default:
			}
		}
		// a flush is under way: let it reach the window before anything else is written (a second rotation
		// would wait for the flush the hook is about to hold)
		if win != nil && !inWindow && !winDone && leveldb.VerifHasFrozenMem(x.db) {
			// rotateMem's own trigger is dropped when the goroutine is not receiving at that instant: ask again
			for try := 0; try < 100 && !inWindow; try++ {
				leveldb.VerifTriggerMemFlush(x.db)
				select {
				case <-win.entered:
					inWindow = true
					x.res.Count("db_window_entered", 1)
				case <-time.After(20 * time.Millisecond):
				}
			}
		}
		switch o.T {
		case "window_wait":
			if win != nil && !inWindow {
				select {
				case <-win.entered:
					inWindow = true
					x.res.Count("db_window_entered", 1)
				case <-time.After(300 * time.Millisecond):
				}
			}
			continue
		case "window_release":
			if win != nil {
				removeWindowHook(win)
				inWindow, winDone = false, true
				leveldb.VerifWaitCompaction(x.db)
			}
			continue
		case "put", "del", "batch":
			// no write while the compaction goroutine is held inside the window (a second rotation would wait for it)
			if inWindow {
				continue
			}
		}
		switch o.T {
		case "put", "del", "batch", "compact", "reopen", "tr_open":
			if x.tr != nil {
				continue
			}
		case "tr_put", "tr_del", "tr_batch", "tr_commit", "tr_discard":
			if x.tr == nil {
				continue
			}
		}
		switch o.T {
		case "put":
			if err := x.db.Put(o.K, o.V, nil); err != nil {
				fail("Put", err)
			}
			dbh.Oracle(x.model).Put(x.cmp, o.K, o.V)
			x.settle()
		case "del":
			if err := x.db.Delete(o.K, nil); err != nil {
				fail("Delete", err)
			}
			dbh.Oracle(x.model).Del(x.cmp, o.K)
			x.settle()
		case "batch":
			x.settleAlways()
			if err := x.db.Write(mkBatch(o.Batch), nil); err != nil {
				fail("Write", err)
			}
			applyBatch(x.cmp, x.model, o.Batch)
			x.settle()
		case "compact":
			rg := util.Range{}
			if o.Start != nil {
				rg.Start = *o.Start
			}
			if o.Limit != nil {
				rg.Limit = *o.Limit
			}
			if err := x.db.CompactRange(rg); err != nil {
				fail("CompactRange", err)
			}
			x.settle()
		case "snap":
			s, err := x.db.GetSnapshot()
			if err != nil {
				fail("GetSnapshot", err)
				return
			}
			x.snaps[o.ID] = s
			x.smodel[o.ID] = copyMap(x.model)
		case "snap_release":
			if s := x.snaps[o.ID]; s != nil {
				s.Release()
				delete(x.snaps, o.ID)
				delete(x.smodel, o.ID)
			}
		case "tr_open":
			x.settleAlways()
			tr, err := x.db.OpenTransaction()
			if err != nil {
				fail("OpenTransaction", err)
				return
			}
			x.tr, x.trm = tr, copyMap(x.model)
		case "tr_put":
			if err := x.tr.Put(o.K, o.V, nil); err != nil {
				fail("tr.Put", err)
			}
			dbh.Oracle(x.trm).Put(x.cmp, o.K, o.V)
		case "tr_del":
			if err := x.tr.Delete(o.K, nil); err != nil {
				fail("tr.Delete", err)
			}
			dbh.Oracle(x.trm).Del(x.cmp, o.K)
		case "tr_batch":
			if err := x.tr.Write(mkBatch(o.Batch), nil); err != nil {
				fail("tr.Write", err)
			}
			applyBatch(x.cmp, x.trm, o.Batch)
		case "tr_commit":
			if err := x.tr.Commit(); err != nil {
				fail("tr.Commit", err)
			}
			x.model, x.tr, x.trm = x.trm, nil, nil
			x.settle()
		case "tr_discard":
			for id, is := range x.iters {
				if is.view == "tr" {
					x.emitK(is)
					is.it.Release()
					delete(x.iters, id)
				}
			}
			x.tr.Discard()
			x.tr, x.trm = nil, nil
			x.settle()
		case "reopen":
			for id, is := range x.iters {
				x.emitK(is)
				is.it.Release()
				delete(x.iters, id)
			}
			for id, sn := range x.snaps {
				sn.Release()
				delete(x.snaps, id)
				delete(x.smodel, id)
			}
			if err := x.db.Close(); err != nil {
				fail("Close", err)
				return
			}
			if err := x.open(); err != nil {
				fail("re-Open", err)
				return
			}
		case "iter_new":
			if !x.iterNew(o) {
				ok = false
			}
		case "iter_walk":
			if !x.iterWalk(o) {
				ok = false
			}
		case "fault_walk":
			if !x.faultWalk(o) {
				ok = false
			}
		case "iter_release":
			if is := x.iters[o.ID]; is != nil {
				x.emitK(is)
				is.it.Release()
				delete(x.iters, o.ID)
			}
		}
	}
	return
}

func (x *dbExec) iterNew(o op) bool {
	var ro *opt.ReadOptions
	if o.NoFill {
		ro = &opt.ReadOptions{DontFillCache: true}
	}
	var rg *util.Range
	if o.Start != nil || o.Limit != nil {
		rg = &util.Range{}
		if o.Start != nil {
			rg.Start = *o.Start
		}
		if o.Limit != nil {
			rg.Limit = *o.Limit
		}
	}
	is := &iterState{start: o.Start, limit: o.Limit, view: o.View}
	var m map[string][]byte
	var raw []leveldb.VerifRawEntry
	var err error
	keyBefore := ""
	if x.bmax > 0 && x.c.Settled {
		keyBefore, _, _, _ = x.stateKey()
	}
	switch {
	case o.View == "db":
		m = x.model
		raw, is.nsources, err = leveldb.VerifRawEntries(x.db)
		is.seq = leveldb.VerifSeq(x.db)
		is.it = x.db.NewIterator(rg, ro)
	case o.View == "tr":
		if x.tr == nil {
			return true
		}
		m = x.trm
		raw, is.nsources, err = leveldb.VerifRawEntriesTr(x.tr)
		is.seq = leveldb.VerifTrSeq(x.tr)
		is.it = x.tr.NewIterator(rg, ro)
	case strings.HasPrefix(o.View, "snap:"):
		var id int
		fmt.Sscanf(o.View, "snap:%d", &id)
		s := x.snaps[id]
		if s == nil {
			return true
		}
		m = x.smodel[id]
		raw, is.nsources, err = leveldb.VerifRawEntries(x.db)
		is.seq = leveldb.VerifSnapshotSeq(s)
		is.it = s.NewIterator(rg, ro)
	default:
		return true
	}
	if err != nil {
		x.violate("raw iterator: " + err.Error())
		return false
	}
	is.exp = sortedView(m, x.cmp, o.Start, o.Limit)
	is.cur = newCursor(is.exp, x.cmp)
	is.raw = toRaw(raw)
	x.iters[o.ID] = is
	if x.c.Window {
		x.res.Count("db_window_iters", 1)
	}
	for i := 1; i < len(is.raw); i++ {
		if is.raw[i].Num == is.raw[i-1].Num && bytes.Equal(is.raw[i].UKey, is.raw[i-1].UKey) {
			x.res.Count("db_iters_over_duplicate_internal_entries", 1)
			break
		}
	}
	x.byteCapture(is, strings.SplitN(o.View, ":", 2)[0], keyBefore)
	// second oracle: the raw entries must already amount to the same pairs
	lr, heads := liveFromRaw(is.raw, is.seq, x.cmp, o.Start, o.Limit)
	is.heads = heads
	if !sameKVs(lr, is.exp) {
		if x.vdesc == "" {
			x.walkFail = true // deterministic when the program is settled: let the shrinker try
		}
		x.violate(fmt.Sprintf("view %s: the internal entries of the DB (%d entries, seq %d) amount to %d live pairs, the write history to %d; first difference: %s", o.View, len(is.raw), is.seq, len(lr), len(is.exp), firstDiff(lr, is.exp)))
		return false
	}
	x.res.Count("db_iter_"+strings.SplitN(o.View, ":", 2)[0], 1)
	switch {
	case o.Start == nil && o.Limit == nil:
		x.res.Count("db_range_none", 1)
	case o.Start != nil && o.Limit != nil:
		x.res.Count("db_range_both", 1)
		if c := x.cmp.Compare(*o.Start, *o.Limit); c > 0 {
			x.res.Count("db_range_inverted", 1)
		} else if c == 0 {
			x.res.Count("db_range_start_eq_limit", 1)
		}
	case o.Start != nil:
		x.res.Count("db_range_start_only", 1)
	default:
		x.res.Count("db_range_limit_only", 1)
	}
	return true
}

func (x *dbExec) iterWalk(o op) bool {
	is := x.iters[o.ID]
	if is == nil || is.failed {
		return true
	}
	var wr walkResult
	hung, pan := runGuarded(30*time.Second, func() { wr = runWalk(is.it, is.cur, o.Moves) })
	if hung {
		x.violate(fmt.Sprintf("view %s: a movement call did not return within 30s (moves %v)", is.view, o.Moves))
		is.failed = true
		return false
	}
	if pan != nil {
		x.violate(fmt.Sprintf("view %s: panic %v", is.view, pan))
		is.failed = true
		return false
	}
	base := len(is.moves)
	is.moves = append(is.moves, o.Moves[:len(wr.Obs)]...)
	is.obs = append(is.obs, wr.Obs...)
	is.poss = append(is.poss, wr.Positions...)
	if wr.Mismatch != "" {
		is.failed = true
		if x.vdesc == "" && !strings.HasPrefix(wr.Mismatch, "panic") {
			x.walkFail, x.failCall = true, wr.At
		}
		x.violate(fmt.Sprintf("view %s range [%s,%s) over %d live pairs (%d internal entries, %d sources): %s  [calls before it on this iterator: %d]",
			is.view, hx(is.start), hx(is.limit), len(is.exp), len(is.raw), is.nsources, wr.Mismatch, base))
		return false
	}
	// non-triviality of this walk: a reversal whose step skipped hidden entries or changed source
	x.walks++
	nt := false
	revs := reversalSteps(is.moves, is.poss, len(is.exp))
	for _, rv := range revs {
		if rv.I < base {
			continue
		}
		x.res.Count("db_reversals", 1)
		hidden, cross := x.stepInfo(is, rv.From, rv.To)
		if hidden {
			x.res.Count("db_reversal_skipped_hidden", 1)
		}
		if cross {
			x.res.Count("db_reversal_crossed_source", 1)
		}
		if hidden || cross {
			nt = true
		}
	}
	x.res.Count(fmt.Sprintf("db_walk_len_%s", lenClass(len(o.Moves))), 1)
	x.res.Eval(fmt.Sprintf("%s/%d/%d", x.label, o.ID, base), nt)
	if nt {
		x.nontrivial++
	}
	return true
}

// faultWalk: a fresh DB iterator walked while the FaultK-th table read fails (non-corruption error).  Until
// Error() is set the outputs must be the cursor's; once it is set every call returns false, not valid, nil
// key and value, and the error stays.  (Before 35e2053 dbIter.prev() could return a stale pair here:
// findings/C02_dbiter_prev_stale_db_level.json is kept as a regression input.)
func (x *dbExec) faultWalk(o op) bool {
	var ro *opt.ReadOptions
	if o.NoFill {
		ro = &opt.ReadOptions{DontFillCache: true}
	}
	var rg *util.Range
	if o.Start != nil || o.Limit != nil {
		rg = &util.Range{}
		if o.Start != nil {
			rg.Start = *o.Start
		}
		if o.Limit != nil {
			rg.Limit = *o.Limit
		}
	}
	exp := sortedView(x.model, x.cmp, o.Start, o.Limit)
	cur := newCursor(exp, x.cmp)
	f := &vstor.Fault{Kind: vstor.OpRead, Type: storage.TypeTable, K: o.FaultK}
	x.vs.AddFault(f)
	defer x.vs.Heal()
	bad := ""
	hung, pan := runGuarded(30*time.Second, func() {
		it := x.db.NewIterator(rg, ro)
		defer it.Release()
		errSeen := false
		for i, m := range o.Moves {
			ob := applyIter(it, m)
			err := it.Error()
			if errSeen {
				if ob.Ret || it.Valid() || ob.Key != nil || ob.Value != nil || err == nil {
					bad = fmt.Sprintf("call %d %s after an error: returned %v valid %v key %x value %x error %v", i, m, ob.Ret, it.Valid(), ob.Key, ob.Value, err)
					return
				}
				continue
			}
			if err != nil {
				if f.Hits == 0 {
					bad = fmt.Sprintf("call %d %s: Error() = %v although no read failed", i, m, err)
					return
				}
				if ob.Ret || it.Valid() || ob.Key != nil || ob.Value != nil {
					bad = fmt.Sprintf("call %d %s: Error() = %v but returned %v valid %v key %x value %x", i, m, err, ob.Ret, it.Valid(), ob.Key, ob.Value)
					return
				}
				errSeen = true
				x.res.Count("db_fault_walks_error_recorded", 1)
				continue
			}
			ok, k, v := cur.apply(m)
			if ob.Ret != ok || it.Valid() != ok || (ok && (!bytes.Equal(ob.Key, k) || !bytes.Equal(ob.Value, v))) || (!ok && (ob.Key != nil || ob.Value != nil)) {
				bad = fmt.Sprintf("call %d %s under a table read fault (reads failed so far: %d): returned %v key %x value %x, Error nil, cursor says %v key %x value %x", i, m, f.Hits, ob.Ret, ob.Key, ob.Value, ok, k, v)
				return
			}
		}
	})
	x.res.Count("db_fault_walks", 1)
	if f.Hits > 0 {
		x.res.Count("db_fault_walks_fault_fired", 1)
	}
	switch {
	case hung:
		x.violate("fault walk: a call did not return within 30s")
		return false
	case pan != nil:
		x.violate(fmt.Sprintf("fault walk: panic %v", pan))
		return false
	case bad != "":
		x.violate("fault walk: " + bad)
		return false
	}
	return true
}

func lenClass(n int) string {
	switch {
	case n <= 5:
		return "1-5"
	case n <= 60:
		return "6-60"
	default:
		return "61-200"
	}
}

func hx(h *hexbytes) string {
	if h == nil {
		return "nil"
	}
	return fmt.Sprintf("%x", []byte(*h))
}

// stepInfo: for a step of the cursor from live pair `from` to `to` (possibly off an end), were
// hidden internal entries (older versions, tombstones, entries newer than the iterator's seq,
// entries outside the range) passed over, and did the source (memdb / table) change
func (x *dbExec) stepInfo(is *iterState, from, to int) (hidden, cross bool) {
	n := len(is.exp)
	if from < 0 || from >= n {
		return
	}
	hf := is.heads[from]
	var lo, hi int
	switch {
	case to >= n:
		lo, hi = hf+1, len(is.raw)
	case to < 0:
		lo, hi = 0, hf
	case to > from:
		lo, hi = hf+1, is.heads[to]
	default:
		lo, hi = is.heads[to]+1, hf
	}
	hidden = hi > lo
	if to >= 0 && to < n {
		cross = is.raw[hf].Src != is.raw[is.heads[to]].Src
	} else {
		for i := lo; i < hi; i++ {
			if is.raw[i].Src != is.raw[hf].Src {
				cross = true
			}
		}
	}
	return
}

// emitK renders the whole history of one iterator as a Coq case for the DBIter model
func (x *dbExec) emitK(is *iterState) {
	// walks on which the (P) oracle failed are emitted too (up to the failing call): (K) judges them independently
	if x.kcases == nil || len(is.moves) == 0 || len(is.raw) > x.kmax {
		return
	}
	n := len(is.moves)
	if n > x.kmoves {
		n = x.kmoves
	}
	var sb strings.Builder
	sb.WriteString(fmt.Sprintf("CDBIter %d [", x.c.Cid))
	for i, e := range is.raw {
		if i > 0 {
			sb.WriteString(";")
		}
		sb.WriteString(fmt.Sprintf("(%s,%d,%s)", vlib.CoqHex(e.UKey), e.Num, vlib.CoqHex(e.Value)))
	}
	opth := func(h *hexbytes) string {
		if h == nil {
			return "None"
		}
		return "(Some " + vlib.CoqHex(*h) + ")"
	}
	sb.WriteString(fmt.Sprintf("] %d %s %s %s %s", is.seq, opth(is.start), opth(is.limit), coqMoves(is.moves[:n]), coqObs(is.obs[:n])))
	*x.kcases = append(*x.kcases, sb.String())
	x.res.Count("k_dbiter_cases", 1)
}

type kbytesOut struct {
	cases *[]string
	max   int // max bytes of a dumped state; 0 = no byte-level cases
}

func execDB(c *dbCase, res *vlib.Result, label string, kcases *[]string, kmax, kmoves int, limit time.Duration, kb *kbytesOut) (x *dbExec, hung bool, pan interface{}) {
	x = &dbExec{c: c, cmp: vlib.ComparerByID(c.Cid), res: res, kcases: kcases, kmax: kmax, kmoves: kmoves, label: label, failCall: -1}
	if kb != nil {
		x.bcases, x.bmax = kb.cases, kb.max
	}
	hung, pan = runGuarded(limit, func() { x.run() })
	return
}

func runDBCase(c *dbCase, res *vlib.Result, label string, kcases *[]string, kmax, kmoves int, kb *kbytesOut) (ok bool, walks, nontrivial int) {
	x, hung, pan := execDB(c, res, label, kcases, kmax, kmoves, 300*time.Second, kb)
	if hung {
		res.Violate(fmt.Sprintf("DB program (%s): did not finish within 300s", label), c)
		return false, x.walks, x.nontrivial
	}
	if pan != nil {
		res.Violate(fmt.Sprintf("DB program (%s): panic %v", label, pan), c)
		return false, x.walks, x.nontrivial
	}
	if x.vdesc == "" {
		return true, x.walks, x.nontrivial
	}
	rc, desc := c, x.vdesc
	if x.walkFail && res.NViolations() < 6 {
		if sc, sd := shrinkDB(c, x.failOp, x.failCall, label); sc != nil {
			rc, desc = sc, sd+fmt.Sprintf("  [shrunk from %d to %d operations]", len(c.Ops), len(sc.Ops))
		}
	}
	res.Violate(desc, rc)
	return false, x.walks, x.nontrivial
}

// shrinkDB: delta debugging on the operation list (then on the failing walk), bounded in time;
// nil when the failure does not reproduce (timing-dependent layout)
func shrinkDB(c *dbCase, failOp, failCall int, label string) (*dbCase, string) {
	deadline := time.Now().Add(6 * time.Second)
	scratch := vlib.NewResult("scratch", os.TempDir(), "")
	try := func(ops []op) (bool, string) {
		cand := *c
		cand.Ops = ops
		x, hung, pan := execDB(&cand, scratch, label, nil, 0, 0, 20*time.Second, nil)
		return !hung && pan == nil && x.vdesc != "" && x.walkFail, x.vdesc
	}
	cur := append([]op{}, c.Ops[:failOp+1]...)
	if last := &cur[len(cur)-1]; last.T == "iter_walk" && failCall >= 0 && failCall < len(last.Moves) {
		last.Moves = append([]move{}, last.Moves[:failCall+1]...)
	}
	okc, desc := try(cur)
	if !okc {
		return nil, ""
	}
	for chunk := len(cur) / 2; chunk >= 1; chunk /= 2 {
		for i := 0; i+chunk < len(cur); {
			if time.Now().After(deadline) {
				goto done
			}
			cand := append(append([]op{}, cur[:i]...), cur[i+chunk:]...)
			if f, d := try(cand); f {
				cur, desc = cand, d
			} else {
				i += chunk
			}
		}
	}
	// the failing walk: drop moves before the last one
	if last := cur[len(cur)-1]; last.T == "iter_walk" {
		ms := last.Moves
		for i := 0; i+1 < len(ms) && time.Now().Before(deadline); {
			cm := append(append([]move{}, ms[:i]...), ms[i+1:]...)
			cand := append([]op{}, cur...)
			cand[len(cand)-1].Moves = cm
			if f, d := try(cand); f {
				ms, desc = cm, d
				cur = cand
			} else {
				i++
			}
		}
	}
done:
	out := *c
	out.Ops = cur
	return &out, desc
}

func firstDiff(a, b []kv) string {
	for i := 0; i < len(a) || i < len(b); i++ {
		var x, y string
		if i < len(a) {
			x = fmt.Sprintf("%x=%x", []byte(a[i].K), []byte(a[i].V))
		} else {
			x = "-"
		}
		if i < len(b) {
			y = fmt.Sprintf("%x=%x", []byte(b[i].K), []byte(b[i].V))
		} else {
			y = "-"
		}
		if x != y {
			return fmt.Sprintf("pair %d: DB has %s, history has %s", i, x, y)
		}
	}
	return "none"
}
