package main

import (
	"fmt"
	"sync"
	"time"

	"github.com/syndtr/goleveldb/leveldb"
	"verifharness/lib/vlib"
)

// The flush-commit window.  Between the commit of a memdb flush (compactionCommit: the new level-0 table is in
// the version) and dropFrozenMem, the frozen memdb AND its table are both children of the merged iterator of
// every iterator created then: every entry of that memdb is shown twice by the raw iterator.  The copies are
// invisible through dbIter (same user key, same sequence number).  goleveldb marks the window with
// verifYield(5) (db_compaction.go); the hook is process-wide, so window programs run one at a time, after
// the parallel phases: the hook holds the compaction goroutine inside the window while iterators are created
// and walked ("window_wait" ... "window_release" in the program).

type windowCtl struct {
	mu      sync.Mutex
	armed   bool
	entered chan struct{} // receives one token when the compaction goroutine is inside the window
	release chan struct{} // closed to let it go on
}

var winCtl *windowCtl

func installWindowHook() *windowCtl {
	w := &windowCtl{armed: true, entered: make(chan struct{}, 1), release: make(chan struct{})}
	winCtl = w
	leveldb.VerifSetHooks(func(point int) {
		if point != 5 {
			return
		}
		w.mu.Lock()
		hold := w.armed
		w.armed = false // the first flush only
		w.mu.Unlock()
		if hold {
			w.entered <- struct{}{}
			select {
			case <-w.release:
			case <-time.After(20 * time.Second):
			}
		}
	}, nil)
	return w
}

func removeWindowHook(w *windowCtl) {
	w.mu.Lock()
	w.armed = false
	w.mu.Unlock()
	select {
	case <-w.release:
	default:
		close(w.release)
	}
	leveldb.VerifSetHooks(nil, nil)
	winCtl = nil
}

// genWindowCase: writes that overflow a tiny write buffer (some keys written several times, tombstones),
// then - inside the window - db and snapshot iterators with ranges, walked; then the window is left and the
// iterators are walked again (they keep their children), plus fresh ones.
func genWindowCase(r *vlib.RNG, maxMove int) *dbCase {
	cid := r.Intn(vlib.NumComparers)
	c := &dbCase{Kind: "db", Cid: cid, Opts: genOpts(r, true), Settled: false, Window: true}
	c.Opts.WriteBuffer = []int{128, 256}[r.Intn(2)]
	c.Opts.Sampling = 0
	cmp := vlib.ComparerByID(cid)
	g := &progGen{cmp: cmp, r: r, small: true, maxMove: maxMove, iters: map[int]string{}}
	g.pool = genKeySet(r, r.Range(3, 8), cmp)
	if len(g.pool) == 0 {
		g.pool = [][]byte{{'a'}}
	}
	if r.Chance(1, 2) {
		g.ops = append(g.ops, op{T: "snap", ID: g.nextID})
		g.snaps = append(g.snaps, g.nextID)
		g.nextID++
	}
	nw := r.Range(25, 60)
	for i := 0; i < nw; i++ {
		switch r.Pick(6, 2, 1) {
		case 0:
			g.ops = append(g.ops, op{T: "put", K: g.key(), V: g.val()})
		case 1:
			g.ops = append(g.ops, op{T: "del", K: g.key()})
		default:
			g.ops = append(g.ops, op{T: "snap", ID: g.nextID})
			g.snaps = append(g.snaps, g.nextID)
			g.nextID++
		}
	}
	g.ops = append(g.ops, op{T: "window_wait"})
	var ids []int
	for i, n := 0, r.Range(2, 4); i < n; i++ {
		ids = append(ids, g.nextID)
		if len(g.snaps) > 0 && r.Chance(1, 3) {
			g.iterNew("snap", g.snaps[r.Intn(len(g.snaps))])
		} else {
			g.iterNew("db", 0)
		}
	}
	for _, id := range ids {
		g.iterWalk(id)
	}
	g.ops = append(g.ops, op{T: "window_release"})
	for _, id := range ids {
		g.iterWalk(id)
	}
	id := g.nextID
	g.iterNew("db", 0)
	g.iterWalk(id)
	c.Ops = g.ops
	return c
}

func runWindowCases(res *vlib.Result, r *vlib.RNG, n, kmax int, kcases *[]string, kMaxRaw, kMaxMoves int) {
	for i := 0; i < n; i++ {
		if stopNow(res) {
			return
		}
		c := genWindowCase(r, kMaxMoves)
		t0 := time.Now()
		var kc *[]string
		if len(*kcases) < kmax {
			kc = kcases
		}
		_, walks, nt := runDBCase(c, res, fmt.Sprintf("window/%d", i), kc, kMaxRaw, kMaxMoves, nil)
		if d := time.Since(t0); d > 2*time.Second {
			res.Count("db_window_programs_slow", 1)
		}
		res.Count("db_window_programs", 1)
		res.Count("db_walks", walks)
		res.Count("db_walks_nontrivial", nt)
	}
}
