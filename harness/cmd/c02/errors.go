package main

import (
	"bytes"
	"encoding/binary"
	"errors"
	"fmt"
	"sort"
	"strings"
	"time"

	"github.com/syndtr/goleveldb/leveldb"
	"github.com/syndtr/goleveldb/leveldb/comparer"
	lerrors "github.com/syndtr/goleveldb/leveldb/errors"
	"github.com/syndtr/goleveldb/leveldb/iterator"
	"github.com/syndtr/goleveldb/leveldb/memdb"
	"github.com/syndtr/goleveldb/leveldb/storage"
	"github.com/syndtr/goleveldb/leveldb/table"
	"github.com/syndtr/goleveldb/leveldb/util"
	"verifharness/lib/vlib"
)

// Errors and release (Coq side: Iter/IterErr.v, Corr/C02Run.v CMergedErr / CIndexedErr / CDBIterErr).
// Component iterators are wrapped by a fuse: the (n+1)-th movement call on the wrapped iterator fails with a
// corruption error (errors.IsCorrupted) or with another error and the iterator stays failed - what a block
// read failing at some point does to a table iterator.  Walks mix the five movement calls with Release and
// SetReleaser; every call's (bool, Key, Value, Valid, Error class) is recorded.

func stopNow(res *vlib.Result) bool { return res.NViolations() >= 18 }

var errInjectedOther = errors.New("c02: injected non-corruption error")
var errInjectedCorrupt = lerrors.NewErrCorrupted(storage.FileDesc{}, errors.New("c02: injected corruption"))

func errOfKind(kind int) error {
	if kind == 1 {
		return errInjectedCorrupt
	}
	return errInjectedOther
}

// error classes as the Coq side counts them: 0 none, 1 corruption, 2 other, 3 ErrIterReleased
func errClass(err error) int {
	switch {
	case err == nil:
		return 0
	case err == iterator.ErrIterReleased || err == leveldb.ErrIterReleased || err == memdb.ErrIterReleased || err == table.ErrIterReleased:
		return 3 // each package has its own ErrIterReleased value
	case lerrors.IsCorrupted(err):
		return 1
	default:
		return 2
	}
}

// fuse: -1 = never fails
type faulty struct {
	iterator.Iterator
	fuse int
	kind int
	err  error
}

func (f *faulty) step(g func() bool) bool {
	if f.err != nil {
		return false
	}
	if f.fuse == 0 {
		f.err = errOfKind(f.kind)
		return false
	}
	if f.fuse > 0 {
		f.fuse--
	}
	return g()
}
func (f *faulty) First() bool        { return f.step(f.Iterator.First) }
func (f *faulty) Last() bool         { return f.step(f.Iterator.Last) }
func (f *faulty) Next() bool         { return f.step(f.Iterator.Next) }
func (f *faulty) Prev() bool         { return f.step(f.Iterator.Prev) }
func (f *faulty) Seek(k []byte) bool { return f.step(func() bool { return f.Iterator.Seek(k) }) }
func (f *faulty) Valid() bool        { return f.err == nil && f.Iterator.Valid() }
func (f *faulty) Key() []byte {
	if f.err != nil {
		return nil
	}
	return f.Iterator.Key()
}
func (f *faulty) Value() []byte {
	if f.err != nil {
		return nil
	}
	return f.Iterator.Value()
}
func (f *faulty) Error() error { return f.err }

// the same for an index iterator (IteratorIndexer)
type faultyIndexer struct {
	iterator.IteratorIndexer
	fuse int
	kind int
	err  error
}

func (f *faultyIndexer) step(g func() bool) bool {
	if f.err != nil {
		return false
	}
	if f.fuse == 0 {
		f.err = errOfKind(f.kind)
		return false
	}
	if f.fuse > 0 {
		f.fuse--
	}
	return g()
}
func (f *faultyIndexer) First() bool { return f.step(f.IteratorIndexer.First) }
func (f *faultyIndexer) Last() bool  { return f.step(f.IteratorIndexer.Last) }
func (f *faultyIndexer) Next() bool  { return f.step(f.IteratorIndexer.Next) }
func (f *faultyIndexer) Prev() bool  { return f.step(f.IteratorIndexer.Prev) }
func (f *faultyIndexer) Seek(k []byte) bool {
	return f.step(func() bool { return f.IteratorIndexer.Seek(k) })
}
func (f *faultyIndexer) Valid() bool  { return f.err == nil && f.IteratorIndexer.Valid() }
func (f *faultyIndexer) Error() error { return f.err }

// ---- cases ----
type fuseSpec struct {
	Fuse int  `json:"fuse"`           // -1 = never
	Kind int  `json:"kind"`           // 1 corruption, 2 other
	Born bool `json:"born,omitempty"` // failed from birth (iterator.NewEmptyIterator(err)); data iterators only
}

type ecall struct {
	Op  string   `json:"op"` // F L S N P | R (Release) | Z (SetReleaser non-nil) | z (SetReleaser nil)
	Key hexbytes `json:"key,omitempty"`
}

type eobs struct {
	Ret   bool
	Key   []byte
	Value []byte
	Valid bool
	Err   int
}

type errCase struct {
	Kind     string     `json:"kind"` // merged_err | indexed_err | dbiter_err
	Cid      int        `json:"cmp"`
	Strict   bool       `json:"strict"`
	Children [][]kv     `json:"children,omitempty"`
	Fuses    []fuseSpec `json:"fuses,omitempty"` // merged: one per child; indexed: one per block; dbiter: one (the raw iterator)
	Blocks   []block    `json:"blocks,omitempty"`
	IdxFuse  fuseSpec   `json:"index_fuse"`
	Entries  []rawKV    `json:"entries,omitempty"` // dbiter: internal entries in internal-key order
	Seq      uint64     `json:"seq,omitempty"`
	Calls    []ecall    `json:"calls"`
}

type rawKV struct {
	UKey  hexbytes `json:"ukey"`
	Num   uint64   `json:"num"`
	Value hexbytes `json:"value"`
}

type noopReleaser struct{}

func (noopReleaser) Release() {}

func genFuse(r *vlib.RNG, maxCalls int, strict bool) fuseSpec {
	if r.Chance(1, 2) {
		return fuseSpec{Fuse: -1, Kind: 2}
	}
	k := 2
	if r.Chance(1, 3) {
		k = 1
	}
	return fuseSpec{Fuse: r.Intn(maxCalls + 1), Kind: k}
}

func genCalls(r *vlib.RNG, n int, keys, pool [][]byte) []ecall {
	ms := genMoves(r, n, keys, pool)
	var cs []ecall
	for _, m := range ms {
		cs = append(cs, ecall{Op: m.Op, Key: m.Key})
	}
	// sprinkle Release / SetReleaser
	ins := func(c ecall) {
		i := r.Intn(len(cs) + 1)
		cs = append(cs[:i], append([]ecall{c}, cs[i:]...)...)
	}
	switch r.Pick(4, 3, 2, 1) {
	case 1:
		ins(ecall{Op: "R"})
	case 2:
		ins(ecall{Op: "Z"})
		if r.Chance(1, 2) {
			ins(ecall{Op: "z"})
		}
		if r.Chance(1, 2) {
			ins(ecall{Op: "Z"})
		}
	case 3:
		ins(ecall{Op: "R"})
		ins(ecall{Op: "Z"})
	}
	return cs
}

func genErrCase(r *vlib.RNG, maxMoves, maxKeys int) *errCase {
	cid := r.Intn(vlib.NumComparers)
	cmp := vlib.ComparerByID(cid)
	c := &errCase{Cid: cid, Strict: r.Bool()}
	nk := r.Range(1, maxKeys)
	keys := genKeySet(r, nk, cmp)
	n := walkLen(r, maxMoves)
	switch r.Pick(4, 3, 4) {
	case 0:
		c.Kind = "merged_err"
		nc := r.Range(1, 5)
		c.Children = make([][]kv, nc)
		for i := range c.Children {
			c.Children[i] = []kv{}
		}
		cur := r.Intn(nc)
		for _, k := range keys {
			if r.Chance(1, 2) {
				cur = r.Intn(nc)
			}
			c.Children[cur] = append(c.Children[cur], kv{K: k, V: genValue(r)})
		}
		for range c.Children {
			c.Fuses = append(c.Fuses, genFuse(r, n, c.Strict))
		}
		c.Calls = genCalls(r, n, keys, keys)
	case 1:
		c.Kind = "indexed_err"
		c.Blocks, _ = genBlocks(r, keys)
		for range c.Blocks {
			f := genFuse(r, 6, c.Strict)
			if f.Fuse >= 0 && r.Chance(1, 4) {
				f.Born = true
				f.Fuse = 0
			}
			c.Fuses = append(c.Fuses, f)
		}
		c.IdxFuse = fuseSpec{Fuse: -1, Kind: 2}
		if r.Chance(1, 4) {
			c.IdxFuse = genFuse(r, n, c.Strict)
		}
		c.Calls = genCalls(r, n, keys, keys)
	default:
		c.Kind = "dbiter_err"
		// internal entries: several versions per user key, tombstones
		c.Seq = uint64(r.Range(1, 40))
		for _, k := range keys {
			nv := r.Pick(3, 3, 2, 1) + 1
			seqs := map[uint64]bool{}
			var ss []uint64
			for len(ss) < nv {
				s := uint64(r.Range(1, 50))
				if !seqs[s] {
					seqs[s] = true
					ss = append(ss, s)
				}
			}
			sort.Slice(ss, func(i, j int) bool { return ss[i] > ss[j] })
			for _, s := range ss {
				kind := uint64(1)
				var v []byte
				if r.Chance(1, 4) {
					kind = 0
				} else {
					v = genValue(r)
				}
				c.Entries = append(c.Entries, rawKV{UKey: k, Num: s<<8 | kind, Value: v})
			}
		}
		c.Fuses = []fuseSpec{genFuse(r, 2*n, c.Strict)}
		c.Calls = genCalls(r, n, keys, keys)
	}
	return c
}

func ikeyOf(e rawKV) []byte {
	b := append(append([]byte{}, e.UKey...), make([]byte, 8)...)
	binary.LittleEndian.PutUint64(b[len(e.UKey):], e.Num)
	return b
}

// internal-key array for dbiter_err
type ikArray struct {
	es  []rawKV
	cmp comparer.Comparer
}

func (a *ikArray) Len() int { return len(a.es) }
func (a *ikArray) Search(key []byte) int {
	return sort.Search(len(a.es), func(i int) bool { return leveldb.VerifICompare(a.cmp, ikeyOf(a.es[i]), key) >= 0 })
}
func (a *ikArray) Index(i int) ([]byte, []byte) { return ikeyOf(a.es[i]), a.es[i].Value }

type fblockIndex struct {
	blockIndex
	fuses []fuseSpec
}

func (b *fblockIndex) Get(i int) iterator.Iterator {
	f := b.fuses[i]
	if f.Born {
		return iterator.NewEmptyIterator(errOfKind(f.Kind))
	}
	return &faulty{Iterator: b.blockIndex.Get(i), fuse: f.Fuse, kind: f.Kind}
}

func (c *errCase) build(cmp comparer.Comparer) (it iterator.Iterator, fs []*faulty) {
	switch c.Kind {
	case "merged_err":
		var its []iterator.Iterator
		for i, ch := range c.Children {
			f := &faulty{Iterator: iterator.NewArrayIterator(&kvArray{kvs: ch, cmp: cmp}), fuse: c.Fuses[i].Fuse, kind: c.Fuses[i].Kind}
			fs = append(fs, f)
			its = append(its, f)
		}
		return iterator.NewMergedIterator(its, cmp, c.Strict), fs
	case "indexed_err":
		idx := &faultyIndexer{IteratorIndexer: iterator.NewArrayIndexer(&fblockIndex{blockIndex: blockIndex{blocks: c.Blocks, cmp: cmp}, fuses: c.Fuses}),
			fuse: c.IdxFuse.Fuse, kind: c.IdxFuse.Kind}
		return iterator.NewIndexedIterator(idx, c.Strict), nil
	default:
		f := &faulty{Iterator: iterator.NewArrayIterator(&ikArray{es: c.Entries, cmp: cmp}), fuse: c.Fuses[0].Fuse, kind: c.Fuses[0].Kind}
		return leveldb.VerifNewDBIter(f, cmp, c.Seq, c.Strict), []*faulty{f}
	}
}

// the error-free list the iterator presents
func (c *errCase) expected(cmp comparer.Comparer) []kv {
	var all []kv
	switch c.Kind {
	case "merged_err":
		for _, ch := range c.Children {
			all = append(all, ch...)
		}
		all = append([]kv{}, all...)
		sortKVs(all, cmp)
	case "indexed_err":
		for _, b := range c.Blocks {
			all = append(all, b.Data...)
		}
	default:
		var last []byte
		have := false
		for _, e := range c.Entries {
			if e.Num>>8 > c.Seq {
				continue
			}
			if have && bytes.Equal(last, e.UKey) {
				continue
			}
			have, last = true, e.UKey
			if e.Num&0xff == 1 {
				all = append(all, kv{K: e.UKey, V: e.Value})
			}
		}
	}
	return all
}

type errWalk struct {
	Obs      []eobs
	Panicked bool   // the last call panicked (SetReleaser twice / after Release)
	PanicMsg string // what it panicked with
}

func applyECall(it iterator.Iterator, cl ecall) (o eobs, pmsg string, panicked bool) {
	defer func() {
		if x := recover(); x != nil {
			panicked, pmsg = true, fmt.Sprint(x)
		}
	}()
	switch cl.Op {
	case "R":
		it.Release()
	case "Z":
		it.SetReleaser(noopReleaser{})
	case "z":
		it.SetReleaser(nil)
	default:
		ob := applyIter(it, move{Op: cl.Op, Key: cl.Key})
		o.Ret, o.Key, o.Value = ob.Ret, ob.Key, ob.Value
	}
	if cl.Op == "R" || cl.Op == "Z" || cl.Op == "z" {
		if k := it.Key(); k != nil {
			o.Key = append([]byte{}, k...)
		}
		if v := it.Value(); v != nil {
			o.Value = append([]byte{}, v...)
		}
	}
	o.Valid = it.Valid()
	o.Err = errClass(it.Error())
	return
}

func runErrWalk(it iterator.Iterator, calls []ecall) (w errWalk) {
	for _, cl := range calls {
		o, pm, p := applyECall(it, cl)
		if p {
			w.Panicked, w.PanicMsg = true, pm
			return
		}
		w.Obs = append(w.Obs, o)
	}
	return
}

// (P) for the error cases, on the implementation alone.  What is judged:
//   - a panic happens exactly at a SetReleaser after Release, or at a second non-nil SetReleaser;
//   - after Release every movement call returns false, not valid, nil key and value, Error = the error recorded
//     before the Release or ErrIterReleased;
//   - once Error() is set (merged, dbIter: also Valid false and nil key/value) every movement call returns false
//     and the error stays;
//   - while no wrapped child has failed the outputs are those of the cursor;
//   - when every fuse is of a halting kind: the call during which a child fails returns false and records that
//     kind of error; dbIter (since 35e2053 also on the exit of prev() below its loop) never answers true
//     once its raw iterator has failed.
func checkErrWalk(c *errCase, cmp comparer.Comparer, w errWalk, fired func(i int) (bool, bool)) (bad string) {
	exp := c.expected(cmp)
	cur := newCursor(exp, cmp)
	released := false
	hasReleaser := false
	errSeen := 0
	allHalting := true
	check := func(fs fuseSpec) {
		if fs.Fuse >= 0 && fs.Kind == 1 && !c.Strict {
			allHalting = false
		}
	}
	for _, f := range c.Fuses {
		check(f)
	}
	if c.Kind == "dbiter_err" {
		allHalting = true // dbIter records whatever error its raw iterator reports
	}
	if c.Kind == "indexed_err" {
		// an index error always halts; data errors by kind
		if c.IdxFuse.Fuse >= 0 {
			// fine either way
		}
	}
	for i, cl := range c.Calls {
		if i >= len(w.Obs) {
			// the walk ended with a panic at call i
			wantPanic := (cl.Op == "Z" || cl.Op == "z") && released || cl.Op == "Z" && hasReleaser
			if !w.Panicked || i != len(w.Obs) {
				return fmt.Sprintf("call %d: walk ended early", i)
			}
			if !wantPanic {
				return fmt.Sprintf("call %d %s: unexpected panic %q", i, cl.Op, w.PanicMsg)
			}
			return ""
		}
		o := w.Obs[i]
		anyFailed, _ := fired(i)
		switch cl.Op {
		case "R":
			released, hasReleaser = true, false
			continue
		case "Z", "z":
			if released || (cl.Op == "Z" && hasReleaser) {
				return fmt.Sprintf("call %d SetReleaser: expected a panic (released=%v, has releaser=%v)", i, released, hasReleaser)
			}
			hasReleaser = cl.Op == "Z"
			continue
		}
		m := move{Op: cl.Op, Key: cl.Key}
		if released {
			want := errSeen
			if want == 0 {
				want = 3
			}
			if o.Ret || o.Valid || o.Key != nil || o.Value != nil || o.Err != want {
				return fmt.Sprintf("call %d %s after Release: returned %v valid %v key %x value %x error class %d (want false, false, nil, nil, %d)", i, m, o.Ret, o.Valid, o.Key, o.Value, o.Err, want)
			}
			errSeen = want
			continue
		}
		if errSeen != 0 {
			// the error stays, every call false
			if o.Ret || o.Err != errSeen {
				return fmt.Sprintf("call %d %s after an error of class %d: returned %v, error class %d", i, m, errSeen, o.Ret, o.Err)
			}
			if c.Kind != "indexed_err" && (o.Valid || o.Key != nil || o.Value != nil) {
				return fmt.Sprintf("call %d %s after an error: valid %v key %x value %x", i, m, o.Valid, o.Key, o.Value)
			}
			continue
		}
		ok, k, v := cur.apply(m)
		if !anyFailed {
			// no child has failed so far: the cursor
			if o.Err != 0 {
				return fmt.Sprintf("call %d %s: Error class %d although no child failed", i, m, o.Err)
			}
			if o.Ret != ok || o.Valid != ok || (ok && (!bytes.Equal(o.Key, k) || !bytes.Equal(o.Value, v))) || (!ok && (o.Key != nil || o.Value != nil)) {
				return fmt.Sprintf("call %d %s: returned %v valid %v key %x value %x, cursor says %v key %x value %x", i, m, o.Ret, o.Valid, o.Key, o.Value, ok, k, v)
			}
			continue
		}
		// a child has failed (during this call or, unnoticed, earlier)
		if o.Err != 0 {
			if o.Ret {
				return fmt.Sprintf("call %d %s: returned true with Error class %d", i, m, o.Err)
			}
			errSeen = o.Err
			continue
		}
		if !allHalting {
			// a skipped corruption error: the iterator goes on without that child; judged by (K) only
			return ""
		}
		// every failure halts, a child has failed, yet no error is recorded
		// a child may have failed in a call the iterator did not need to look at (it returned true elsewhere):
		// then the output must still be the cursor's
		if o.Ret != ok || (ok && (!bytes.Equal(o.Key, k) || !bytes.Equal(o.Value, v))) {
			return fmt.Sprintf("call %d %s: a child has failed, no error recorded, returned %v key %x value %x, cursor says %v key %x value %x", i, m, o.Ret, o.Key, o.Value, ok, k, v)
		}
	}
	if w.Panicked {
		return "walk panicked after the last call?"
	}
	return ""
}

func coqFuse(f fuseSpec) string {
	fu := "None"
	if f.Fuse >= 0 {
		fu = fmt.Sprintf("(Some %d%%nat)", f.Fuse)
	}
	return fmt.Sprintf("(%s, %d, %s)", fu, f.Kind, vlib.CoqBool(f.Born))
}

func coqCalls(cs []ecall) string {
	var sb strings.Builder
	sb.WriteString("[")
	for i, c := range cs {
		if i > 0 {
			sb.WriteString(";")
		}
		switch c.Op {
		case "R":
			sb.WriteString("eR")
		case "Z":
			sb.WriteString("eZ true")
		case "z":
			sb.WriteString("eZ false")
		case "S":
			sb.WriteString("eM (mS " + vlib.CoqHex(c.Key) + ")")
		default:
			sb.WriteString("eM m" + c.Op)
		}
	}
	sb.WriteString("]")
	return sb.String()
}

func coqEObs(os []eobs) string {
	var sb strings.Builder
	sb.WriteString("[")
	for i, o := range os {
		if i > 0 {
			sb.WriteString(";")
		}
		kvs := "None"
		if o.Key != nil || o.Value != nil {
			kvs = "(Some (" + vlib.CoqHex(o.Key) + "," + vlib.CoqHex(o.Value) + "))"
		}
		sb.WriteString(fmt.Sprintf("EO %s %s %s %d", vlib.CoqBool(o.Ret), kvs, vlib.CoqBool(o.Valid), o.Err))
	}
	sb.WriteString("]")
	return sb.String()
}

func (c *errCase) coq(w errWalk) string {
	var sb strings.Builder
	n := len(w.Obs)
	if w.Panicked {
		n++
	}
	calls := c.Calls[:n]
	switch c.Kind {
	case "merged_err":
		sb.WriteString(fmt.Sprintf("CMergedErr %d %s [", c.Cid, vlib.CoqBool(c.Strict)))
		for i, ch := range c.Children {
			if i > 0 {
				sb.WriteString(";")
			}
			sb.WriteString("(" + coqKVs(ch) + "," + coqFuse(c.Fuses[i]) + ")")
		}
		sb.WriteString("]")
	case "indexed_err":
		sb.WriteString(fmt.Sprintf("CIndexedErr %d %s %s [", c.Cid, vlib.CoqBool(c.Strict), coqFuse(c.IdxFuse)))
		for i, b := range c.Blocks {
			if i > 0 {
				sb.WriteString(";")
			}
			sb.WriteString("(" + vlib.CoqHex(b.IKey) + "," + coqKVs(b.Data) + "," + coqFuse(c.Fuses[i]) + ")")
		}
		sb.WriteString("]")
	default:
		sb.WriteString(fmt.Sprintf("CDBIterErr %d %s %d %s [", c.Cid, vlib.CoqBool(c.Strict), c.Seq, coqFuse(c.Fuses[0])))
		for i, e := range c.Entries {
			if i > 0 {
				sb.WriteString(";")
			}
			sb.WriteString(fmt.Sprintf("(%s,%d,%s)", vlib.CoqHex(e.UKey), e.Num, vlib.CoqHex(e.Value)))
		}
		sb.WriteString("]")
	}
	sb.WriteString(" " + coqCalls(calls) + " " + coqEObs(w.Obs) + " " + vlib.CoqBool(w.Panicked))
	return sb.String()
}

// runErrCase: (P) + the (K) case
func runErrCase(c *errCase, res *vlib.Result, label string) (kcase string, failed bool, nontrivial bool) {
	cmp := vlib.ComparerByID(c.Cid)
	var w errWalk
	var fs []*faulty
	// firedAt[i]: had any wrapped child failed after call i
	var firedAt []bool
	hung, pan := runGuarded(20*time.Second, func() {
		var it iterator.Iterator
		it, fs = c.build(cmp)
		for _, cl := range c.Calls {
			o, pm, p := applyECall(it, cl)
			if p {
				w.Panicked, w.PanicMsg = true, pm
				break
			}
			w.Obs = append(w.Obs, o)
			any := false
			for _, f := range fs {
				if f.err != nil {
					any = true
				}
			}
			firedAt = append(firedAt, any)
		}
		func() {
			defer func() { recover() }()
			it.Release()
		}()
	})
	if hung {
		res.Violate(fmt.Sprintf("%s (%s): a call did not return within 20s", c.Kind, label), c)
		return "", true, false
	}
	if pan != nil {
		res.Violate(fmt.Sprintf("%s (%s): panic %v", c.Kind, label, pan), c)
		return "", true, false
	}
	res.Count("err_"+c.Kind, 1)
	if w.Panicked {
		res.Count("err_walks_ending_in_setreleaser_panic", 1)
	}
	if c.Kind != "indexed_err" { // the indexed cases wrap inside Get: judged by (K) and by the generic rules that need no fired()
		bad := checkErrWalk(c, cmp, w, func(i int) (bool, bool) {
			if i < len(firedAt) {
				return firedAt[i], true
			}
			return false, false
		})
		if bad != "" {
			res.Violate(fmt.Sprintf("%s (%s), comparer %d, strict %v: %s", c.Kind, label, c.Cid, c.Strict, bad), c)
			return "", true, false
		}
	} else {
		bad := checkIndexedErr(c, cmp, w)
		if bad != "" {
			res.Violate(fmt.Sprintf("%s (%s), comparer %d, strict %v: %s", c.Kind, label, c.Cid, c.Strict, bad), c)
			return "", true, false
		}
	}
	nontrivial = w.Panicked
	for _, o := range w.Obs {
		if o.Err != 0 {
			res.Count(fmt.Sprintf("err_walks_reaching_error_class_%d", o.Err), 1)
			nontrivial = true
			break
		}
	}
	return c.coq(w), false, nontrivial
}

// (P) for the indexed iterator with failing data / index iterators: release and stickiness rules, every
// shown pair is a pair of the blocks, and under the strict flag (or with non-corruption errors only) the
// outputs before the first recorded error are the cursor's.
func checkIndexedErr(c *errCase, cmp comparer.Comparer, w errWalk) string {
	exp := c.expected(cmp)
	in := map[string][]byte{}
	for _, x := range exp {
		in[string(x.K)] = x.V
	}
	allHalting := true
	anyFuse := c.IdxFuse.Fuse >= 0
	for _, f := range c.Fuses {
		if f.Fuse >= 0 {
			anyFuse = true
			if f.Kind == 1 && !c.Strict {
				allHalting = false
			}
		}
	}
	cur := newCursor(exp, cmp)
	released, hasReleaser := false, false
	errSeen := 0
	for i, cl := range c.Calls {
		if i >= len(w.Obs) {
			wantPanic := (cl.Op == "Z" || cl.Op == "z") && released || cl.Op == "Z" && hasReleaser
			if !w.Panicked || !wantPanic {
				return fmt.Sprintf("call %d %s: walk ended (panic %q)", i, cl.Op, w.PanicMsg)
			}
			return ""
		}
		o := w.Obs[i]
		switch cl.Op {
		case "R":
			released, hasReleaser = true, false
			continue
		case "Z", "z":
			if released || (cl.Op == "Z" && hasReleaser) {
				return fmt.Sprintf("call %d SetReleaser: expected a panic", i)
			}
			hasReleaser = cl.Op == "Z"
			continue
		}
		m := move{Op: cl.Op, Key: cl.Key}
		if o.Ret {
			if v, ok := in[string(o.Key)]; !ok || !bytes.Equal(v, o.Value) || !o.Valid {
				return fmt.Sprintf("call %d %s: returned true with key %x value %x valid %v: not a pair of the blocks", i, m, o.Key, o.Value, o.Valid)
			}
		}
		if released {
			want := errSeen
			if want == 0 {
				want = 3
			}
			if o.Ret || o.Valid || o.Key != nil || o.Err != want {
				return fmt.Sprintf("call %d %s after Release: returned %v valid %v key %x error class %d (want %d)", i, m, o.Ret, o.Valid, o.Key, o.Err, want)
			}
			errSeen = want
			continue
		}
		if errSeen != 0 {
			if o.Ret || o.Err != errSeen {
				return fmt.Sprintf("call %d %s after an error of class %d: returned %v, error class %d", i, m, errSeen, o.Ret, o.Err)
			}
			continue
		}
		ok, k, v := cur.apply(m)
		if o.Err != 0 {
			if o.Ret {
				return fmt.Sprintf("call %d %s: returned true with Error class %d", i, m, o.Err)
			}
			if !anyFuse {
				return fmt.Sprintf("call %d %s: Error class %d without any failing iterator", i, m, o.Err)
			}
			errSeen = o.Err
			continue
		}
		if !anyFuse || allHalting {
			// no error recorded so far and every failure would have been recorded: the cursor
			// (a data iterator may have failed in a call whose result was not needed: impossible here, the
			// indexed iterator looks at every false return of its data iterator)
			if o.Ret != ok || (ok && (!bytes.Equal(o.Key, k) || !bytes.Equal(o.Value, v))) {
				return fmt.Sprintf("call %d %s: no error recorded, returned %v key %x value %x, cursor says %v key %x value %x", i, m, o.Ret, o.Key, o.Value, ok, k, v)
			}
		} else {
			return "" // skipped corrupted blocks: the list shrinks; judged by (K)
		}
	}
	return ""
}

var _ = util.Range{}
