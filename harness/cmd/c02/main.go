// c02: iterators enumerate exactly the live pairs, in order, for any walk.
//
// (P) every First/Last/Seek/Next/Prev call's (bool, Valid, Key, Value, Error) is compared with a
//
//	Go cursor over the sorted list the iterator must present:
//	  - component level: iterator.NewMergedIterator over array iterators, NewIndexedIterator over an
//	    ArrayIndexer (empty blocks included), merged over indexed (as DB levels are);
//	  - DB level: db / snapshot / transaction iterators of real DBs (MemStorage, tiny buffers, blocks
//	    and tables so that data spreads over memdb, frozen memdb, level 0 and deeper levels; overwrites,
//	    tombstones, live snapshots keeping old versions; compression / bloom / caches varied; iterators
//	    created before and after later writes and compactions), random ranges, against the Go map of the
//	    write history (and, as a second oracle, against the live pairs computed from the DB's own raw
//	    internal entries).
//
// (K) the same inputs and the observed outputs are written as Coq cases: the model machines of
//
//	Iter/Merged.v, Iter/Indexed.v, Iter/DBIter.v are run on them inside Coq (Corr/C02Run.v).
//
// d5 note: tFiles.getOverlaps once ordered user keys with bytes.Compare instead of the comparer
// (defect D5, fixed f13b806).  The probe leveldb.VerifGetOverlapsHonoursComparer is kept as a reported
// statistic only (extra.d5_probe); it restricts nothing: every comparer gets every layout.
package main

import (
	"encoding/json"
	"fmt"
	"os"
	"sync"

	"github.com/syndtr/goleveldb/leveldb"
	"verifharness/lib/dbh"
	"verifharness/lib/vlib"
)

type replayFile struct {
	Property string          `json:"property"`
	Desc     string          `json:"desc"`
	Case     json.RawMessage `json:"case"`
}

func replay(path string, res *vlib.Result) {
	b, err := os.ReadFile(path)
	if err != nil {
		fmt.Fprintln(os.Stderr, "replay:", err)
		os.Exit(2)
	}
	var rf replayFile
	if err := json.Unmarshal(b, &rf); err != nil {
		fmt.Fprintln(os.Stderr, "replay:", err)
		os.Exit(2)
	}
	var k struct {
		Kind string `json:"kind"`
	}
	json.Unmarshal(rf.Case, &k)
	switch k.Kind {
	case "db":
		var c dbCase
		if err := json.Unmarshal(rf.Case, &c); err != nil {
			fmt.Fprintln(os.Stderr, "replay:", err)
			os.Exit(2)
		}
		// timing-dependent layouts: try a few times
		for i := 0; i < 5; i++ {
			ok, _, _ := runDBCase(&c, res, "replay", nil, 0, 0, nil)
			res.Eval(fmt.Sprintf("replay/%d", i), false)
			if !ok {
				break
			}
		}
	case "merged_err", "indexed_err", "dbiter_err":
		var c errCase
		if err := json.Unmarshal(rf.Case, &c); err != nil {
			fmt.Fprintln(os.Stderr, "replay:", err)
			os.Exit(2)
		}
		runErrCase(&c, res, "replay")
		res.Eval("replay", false)
	default:
		var c compCase
		if err := json.Unmarshal(rf.Case, &c); err != nil {
			fmt.Fprintln(os.Stderr, "replay:", err)
			os.Exit(2)
		}
		runCompCase(&c, res, "replay")
		res.Eval("replay", false)
	}
}

func main() {
	a := vlib.ParseArgs()
	res := vlib.NewResult("C02", a.Out, "movement sequences (1-200 calls, biased to reversals: Seek then Prev, zig-zags, stepping off either end and back) on merged / indexed / nested component iterators over generated children and on db / snapshot / transaction iterators of real DBs (tiny buffers, blocks and tables; overwrites, tombstone runs, live snapshots; random [Start,Limit) with bounds equal to / between / outside stored keys or nil) x 4 comparers x layout options; non-trivial = the walk contains a direction reversal on a valid position whose step crossed to another source (child / block / memdb / table) or passed over at least one hidden internal entry (tombstone, overwritten or not-yet-visible version, out-of-range entry) or left the list; error/release walks (merged / indexed / dbIter behind fault-injecting wrappers, calls mixed with Release and SetReleaser): non-trivial = an error was recorded (injected, or ErrIterReleased) or the walk ended in the SetReleaser panic; DB iterator walks under a table read fault of the storage")
	defer res.Write()
	if a.Replay != "" {
		replay(a.Replay, res)
		return
	}

	// budgets
	nComp, nDBSmall, nDB := 10000, 320, 120
	nErr, kErr := 8000, 320 // error / release walks on component iterators behind fuses
	kComp, kDB := 400, 240
	kBytes, kBytesMax := 32, 8000 // byte-level (K) states per run (one per worker), max bytes of a state
	maxMoves := 200
	if a.Thorough() {
		nComp, nDBSmall, nDB = 400000, 6000, 3000
		nErr, kErr = 300000, 2400
		kComp, kDB = 3000, 1500
		kBytes = 48
	}
	if a.Extra == "search" {
		nComp, nDBSmall, nDB = 400000, 6000, 3000
		nErr, kErr = 300000, 0
		kComp, kDB = 0, 0
		kBytes = 0
	}
	const kMaxRaw, kMaxMoves, kMaxKeys = 100, 60, 40

	// d5 probe (see the note at the top)
	d5 := map[string]bool{}
	honours := make([]bool, vlib.NumComparers)
	for cid := 0; cid < vlib.NumComparers; cid++ {
		honours[cid] = leveldb.VerifGetOverlapsHonoursComparer(vlib.ComparerByID(cid))
		d5[fmt.Sprintf("comparer_%d_getOverlaps_follows_comparer", cid)] = honours[cid]
	}
	res.Extra["d5_probe"] = d5
	// every former exclusion (inverted ranges, BlockCacheEvictRemoved=false, transactions over a pending
	// flush, deeper levels under non-bytewise comparers) is generated now that the defects are repaired
	res.Extra["not_generated"] = []string{}

	const W = 16
	master := vlib.NewRNG(a.Seed)
	type wout struct {
		kcomp, kdb, kbytes, kerr []string
	}
	outs := make([]wout, W)
	rngs := make([]*vlib.RNG, W)
	for i := range rngs {
		rngs[i] = master.Fork()
	}
	var wg sync.WaitGroup
	for w := 0; w < W; w++ {
		wg.Add(1)
		go func(w int) {
			defer wg.Done()
			r := rngs[w]
			o := &outs[w]
			// component level
			for i := w; i < nComp; i += W {
				if stopNow(res) {
					return
				}
				kfriendly := len(o.kcomp) < (kComp+W-1)/W
				mm, mk := maxMoves, 120
				if kfriendly {
					mm, mk = kMaxMoves, kMaxKeys
				}
				c := genCompCase(r, mm, mk)
				label := fmt.Sprintf("comp/%d", i)
				kc, nt, failed := runCompCase(c, res, label)
				res.Eval(label, nt)
				if i < 3 {
					res.Sample(map[string]interface{}{"kind": c.Kind, "cmp": c.Cid, "moves": len(c.Moves)})
				}
				if !failed && kfriendly && kc != "" {
					o.kcomp = append(o.kcomp, kc)
				}
			}
			// errors and release: component iterators behind fuses
			for i := w; i < nErr; i += W {
				if stopNow(res) {
					return
				}
				kfriendly := len(o.kerr) < (kErr+W-1)/W
				mm, mk := 120, 60
				if kfriendly {
					mm, mk = kMaxMoves, kMaxKeys
				}
				c := genErrCase(r, mm, mk)
				label := fmt.Sprintf("err/%d", i)
				kc, failed, nt := runErrCase(c, res, label)
				res.Eval(label, nt)
				if !failed && kfriendly && kc != "" {
					o.kerr = append(o.kerr, kc)
				}
			}
			// DB level: small programs (also feed (K)), then larger ones
			for i := w; i < nDBSmall+nDB; i += W {
				if stopNow(res) {
					return
				}
				small := i < nDBSmall
				var c *dbCase
				var kc *[]string
				mm := maxMoves
				if small {
					mm = kMaxMoves
					if len(o.kdb) < (kDB+W-1)/W {
						kc = &o.kdb
					}
				}
				c = genDBCase(r, small, mm, dbh.ClassJob(i)) // every fifth program: non-injective comparer (id 4)
				label := fmt.Sprintf("db/%d", i)
				var kb *kbytesOut
				if small && len(o.kbytes) < (kBytes+W-1)/W {
					kb = &kbytesOut{cases: &o.kbytes, max: kBytesMax}
				}
				_, walks, nt := runDBCase(c, res, label, kc, kMaxRaw, kMaxMoves, kb)
				res.Count("db_programs", 1)
				res.Count("db_walks", walks)
				res.Count("db_walks_nontrivial", nt)
				res.Count(fmt.Sprintf("db_cmp_%d", c.Cid), 1)
				if c.Opts.NoTableComp {
					res.Count("db_programs_level0_only", 1)
				}
				if c.Opts.KeepRemovedBlocks {
					res.Count("db_opt_keep_removed_blocks", 1)
				}
				if c.Opts.Snappy {
					res.Count("db_opt_snappy", 1)
				}
				if c.Opts.Bloom {
					res.Count("db_opt_bloom", 1)
				}
				if !c.Settled {
					res.Count("db_programs_unsettled", 1)
				}
				if i < 2 {
					res.Sample(map[string]interface{}{"kind": "db", "cmp": c.Cid, "ops": len(c.Ops), "opts": c.Opts})
				}
			}
		}(w)
	}
	wg.Wait()
	// the flush-commit window (process-wide hook: one program at a time)
	var kwin []string
	nWin, kWin := 24, 24
	if a.Thorough() {
		nWin, kWin = 300, 120
	}
	if a.Extra == "search" {
		kWin = 0
	}
	if !stopNow(res) {
		runWindowCases(res, master.Fork(), nWin, kWin, &kwin, kMaxRaw, kMaxMoves)
	}
	var cases []string
	cases = append(cases, kwin...)
	for w := 0; w < W; w++ {
		cases = append(cases, outs[w].kcomp...)
	}
	for w := 0; w < W; w++ {
		cases = append(cases, outs[w].kdb...)
	}
	for w := 0; w < W; w++ {
		cases = append(cases, outs[w].kerr...)
	}
	// byte-level cases: spread one per shard (they are the expensive ones)
	var bcs []string
	for w := 0; w < W; w++ {
		bcs = append(bcs, outs[w].kbytes...)
	}
	// interleave so that every shard gets a similar mix
	mixed := make([]string, 0, len(cases))
	shards := 16
	if a.Thorough() {
		shards = 24
	}
	for s := 0; s < shards; s++ {
		for i := s; i < len(bcs); i += shards {
			mixed = append(mixed, bcs[i])
		}
		for i := s; i < len(cases); i += shards {
			mixed = append(mixed, cases[i])
		}
	}
	if len(mixed) > 0 {
		res.WriteCases("From GL Require Import Corr.C02Run.\nFrom Coq Require Import ZArith.", "c02case", "mismatches", mixed, shards)
	}
}
