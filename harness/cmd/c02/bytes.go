package main

import (
	"fmt"
	"strings"

	"github.com/syndtr/goleveldb/leveldb"
	"github.com/syndtr/goleveldb/leveldb/memdb"
	"github.com/syndtr/goleveldb/leveldb/storage"
	"verifharness/lib/vlib"
	"verifharness/lib/vstor"
)

// Byte-level (K) cases (Coq side: Corr/C02Run.v CDBBytes, model Lsm/IterPath.v dbi_run).  A group carries
// the state a DB / snapshot / transaction iterator is built on, unparsed - the internal arrays of the
// transaction's, the live and the frozen memdb, and for every table (the transaction's, then the pinned
// version's) its number, recorded bounds and the BYTES of its file as they sit in the storage (the KBytes
// dump format of harness/lib/dbh/kbytes.go) - and the walks observed on the iterators created while the
// state was that one.

type byteGroup struct {
	prefix string // "CDBBytes cid ri verify fname bpk strict auxm auxt mem frozen lvls"
	size   int
	key    string // identity of the state: version id, sequence number, memdb sizes
	tr     bool
	iters  []*iterState
}

func coqMem(d *memdb.VerifDump) string {
	if d == nil {
		return "None"
	}
	nd := make([]string, len(d.NodeData))
	for i, x := range d.NodeData {
		nd[i] = fmt.Sprintf("%d", x)
	}
	return fmt.Sprintf("(Some (KM %s [%s] %d %d %d))", vlib.CoqHex(d.KvData), strings.Join(nd, ";"), d.MaxHeight, d.N, d.KvSize)
}

func fileBytes(vs *vstor.Stor, num int64) ([]byte, bool) {
	data, _, ok := vs.FileBytes(storage.FileDesc{Type: storage.TypeTable, Num: num})
	return data, ok
}

func sameVersion(a, b []leveldb.VerifTable) bool {
	if len(a) != len(b) {
		return false
	}
	for i := range a {
		if a[i].Num != b[i].Num || a[i].Level != b[i].Level {
			return false
		}
	}
	return true
}

// stateKey identifies the physical state: the tables of the version, the sequence number (no write since),
// the sizes of the two memdbs
func (x *dbExec) stateKey() (string, []leveldb.VerifTable, *memdb.VerifDump, *memdb.VerifDump) {
	v := leveldb.VerifDumpVersion(x.db)
	live, frozen := leveldb.VerifMemDumps(x.db)
	var sb strings.Builder
	fmt.Fprintf(&sb, "seq=%d;", leveldb.VerifSeq(x.db))
	for _, t := range v {
		fmt.Fprintf(&sb, "%d@%d,", t.Num, t.Level)
	}
	if live != nil {
		fmt.Fprintf(&sb, "L%d/%d;", live.N, len(live.KvData))
	}
	if frozen != nil {
		fmt.Fprintf(&sb, "F%d/%d;", frozen.N, len(frozen.KvData))
	}
	return sb.String(), v, live, frozen
}

// byteCapture: called right after an iterator was created.  Attaches the iterator to the program's byte
// group when the state is (still) the dumped one, or dumps the state now.  maxBytes bounds the dump.
func (x *dbExec) byteCapture(is *iterState, view string, keyBefore string) {
	if x.bmax <= 0 || !x.c.Settled {
		return
	}
	key, v, live, frozen := x.stateKey()
	if key != keyBefore || live == nil {
		x.res.Count("kbytes_skipped_state_moved", 1)
		return // the state moved while the iterator was being created
	}
	// prefer states with tables: a state with fewer than three tables is dumped only near the end of the program
	if len(v) == 0 || (len(v) < 3 && x.curOp+12 < len(x.c.Ops)) {
		x.res.Count(fmt.Sprintf("kbytes_skipped_few_tables_%d", len(v)), 1)
		return
	}
	isTr := view == "tr"
	if isTr {
		if x.tr == nil || x.btr != nil {
			return
		}
	} else if x.bgrp != nil {
		if x.bgrp.key == key && len(x.bgrp.iters) < 4 {
			x.bgrp.iters = append(x.bgrp.iters, is)
		}
		return
	}
	total := len(live.KvData) + 4*len(live.NodeData)
	if frozen != nil {
		total += len(frozen.KvData) + 4*len(frozen.NodeData)
	}
	auxm, auxt := "None", "[]"
	if isTr {
		tm, tt, ok := leveldb.VerifTxnDump(x.tr)
		if !ok {
			return
		}
		total += len(tm.KvData) + 4*len(tm.NodeData)
		auxm = coqMem(tm)
		var ts []string
		for _, t := range tt {
			data, ok := fileBytes(x.vs, t.Num)
			if !ok || int64(len(data)) != t.Size {
				return
			}
			total += len(data)
			ts = append(ts, fmt.Sprintf("KF %d %s %s %s", t.Num, vlib.CoqHex(t.Imin), vlib.CoqHex(t.Imax), vlib.CoqHex(data)))
		}
		auxt = "[" + strings.Join(ts, "; ") + "]"
	}
	nl := 0
	for _, t := range v {
		total += int(t.Size)
		if t.Level+1 > nl {
			nl = t.Level + 1
		}
	}
	if total > x.bmax {
		x.res.Count("kbytes_skipped_too_large", 1)
		return
	}
	var lv []string
	for l := 0; l < nl; l++ {
		var ts []string
		for _, t := range v {
			if t.Level != l {
				continue
			}
			data, ok := fileBytes(x.vs, t.Num)
			if !ok || int64(len(data)) != t.Size {
				return
			}
			ts = append(ts, fmt.Sprintf("KF %d %s %s %s", t.Num, vlib.CoqHex(t.Imin), vlib.CoqHex(t.Imax), vlib.CoqHex(data)))
		}
		lv = append(lv, "["+strings.Join(ts, "; ")+"]")
	}
	verify, fname, ri := leveldb.VerifReadSetup(x.db)
	fn := "None"
	if fname != "" {
		fn = "(Some " + vlib.CoqHex([]byte(fname)) + ")"
	}
	bpk := 0
	if x.c.Opts.Bloom {
		bpk = 10
	}
	g := &byteGroup{key: key, tr: isTr, size: total, iters: []*iterState{is}}
	g.prefix = fmt.Sprintf("CDBBytes %d %d %s %s (%d)%%Z %s %s %s %s %s [%s]", x.c.Cid, ri, vlib.CoqBool(verify), fn, bpk,
		vlib.CoqBool(leveldb.VerifIterStrict(x.db, nil)), auxm, auxt, coqMem(live), coqMem(frozen), strings.Join(lv, "; "))
	if isTr {
		x.btr = g
	} else {
		x.bgrp = g
	}
}

// emitBytes renders the groups of this program (called when the program ends)
func (x *dbExec) emitBytes() {
	for _, g := range []*byteGroup{x.bgrp, x.btr} {
		if g == nil || x.bcases == nil {
			continue
		}
		var ws []string
		calls := 0
		for _, is := range g.iters {
			if len(is.moves) == 0 {
				continue
			}
			n := len(is.moves)
			if n > x.kmoves {
				n = x.kmoves
			}
			sl := "None"
			if is.start != nil || is.limit != nil {
				opth := func(h *hexbytes) string {
					if h == nil {
						return "None"
					}
					return "(Some " + vlib.CoqHex(*h) + ")"
				}
				sl = fmt.Sprintf("(Some (%s, %s))", opth(is.start), opth(is.limit))
			}
			ws = append(ws, fmt.Sprintf("(%d, %s, %s, %s)", is.seq, sl, coqMoves(is.moves[:n]), coqObs(is.obs[:n])))
			calls += n
		}
		if len(ws) == 0 {
			continue
		}
		*x.bcases = append(*x.bcases, g.prefix+" ["+strings.Join(ws, "; ")+"]")
		x.res.Count("k_dbbytes_cases", 1)
		x.res.Count("k_dbbytes_walks", len(ws))
		x.res.Count("k_dbbytes_calls", calls)
		x.res.Count("k_dbbytes_state_bytes", g.size)
		if g.tr {
			x.res.Count("k_dbbytes_transaction_cases", 1)
		}
		if x.c.Opts.Snappy {
			x.res.Count("k_dbbytes_snappy_cases", 1)
		}
	}
}
