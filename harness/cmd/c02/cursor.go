package main

import (
	"bytes"
	"encoding/hex"
	"encoding/json"
	"fmt"
	"runtime/debug"
	"sort"
	"strings"
	"time"

	"github.com/syndtr/goleveldb/leveldb/comparer"
	"github.com/syndtr/goleveldb/leveldb/iterator"
	"verifharness/lib/vlib"
)

// hexbytes is a byte string that travels as hex in replay files (nil-ness is kept by pointers).
type hexbytes []byte

func (h hexbytes) MarshalJSON() ([]byte, error) { return json.Marshal(hex.EncodeToString(h)) }
func (h *hexbytes) UnmarshalJSON(b []byte) error {
	var s string
	if err := json.Unmarshal(b, &s); err != nil {
		return err
	}
	d, err := hex.DecodeString(s)
	if err != nil {
		return err
	}
	*h = hexbytes(d)
	if *h == nil {
		*h = hexbytes{}
	}
	return nil
}

type kv struct {
	K hexbytes `json:"k"`
	V hexbytes `json:"v"`
}

// move: one of First, Last, Seek(key), Next, Prev
type move struct {
	Op  string   `json:"op"` // F L S N P
	Key hexbytes `json:"key,omitempty"`
}

func (m move) String() string {
	if m.Op == "S" {
		return fmt.Sprintf("S(%x)", []byte(m.Key))
	}
	return m.Op
}

// obs: what one movement call showed
type obs struct {
	Ret   bool
	Key   []byte // nil = nil
	Value []byte
}

// ---- the reference cursor over a sorted slice (the (P) oracle) ----
type cursor struct {
	kvs []kv
	cmp comparer.Comparer
	pos int // -1 = SOI, len = EOI
}

func newCursor(kvs []kv, cmp comparer.Comparer) *cursor { return &cursor{kvs: kvs, cmp: cmp, pos: -1} }

func (c *cursor) apply(m move) (bool, []byte, []byte) {
	n := len(c.kvs)
	switch m.Op {
	case "F":
		if n == 0 {
			c.pos = n
		} else {
			c.pos = 0
		}
	case "L":
		if n == 0 {
			c.pos = -1
		} else {
			c.pos = n - 1
		}
	case "S":
		c.pos = sort.Search(n, func(i int) bool { return c.cmp.Compare(c.kvs[i].K, m.Key) >= 0 })
	case "N":
		if c.pos < n {
			c.pos++
		}
	case "P":
		if c.pos >= 0 {
			c.pos--
		}
	}
	if c.pos >= 0 && c.pos < n {
		return true, c.kvs[c.pos].K, c.kvs[c.pos].V
	}
	return false, nil, nil
}

func applyIter(it iterator.Iterator, m move) obs {
	var r bool
	switch m.Op {
	case "F":
		r = it.First()
	case "L":
		r = it.Last()
	case "S":
		r = it.Seek(append([]byte{}, m.Key...))
	case "N":
		r = it.Next()
	case "P":
		r = it.Prev()
	}
	o := obs{Ret: r}
	if k := it.Key(); k != nil {
		o.Key = append([]byte{}, k...)
	}
	if v := it.Value(); v != nil {
		o.Value = append([]byte{}, v...)
	}
	return o
}

// walkResult of running a movement sequence on a real iterator against the cursor oracle
type walkResult struct {
	Obs       []obs
	Mismatch  string // "" = agreed on every call
	At        int
	Reversals int
	Positions []int // oracle position after each call
}

// runWalk applies the moves to it and to a fresh-or-continued oracle cursor; every call's
// (bool, Valid, Key, Value, Error) is compared.
func runWalk(it iterator.Iterator, cur *cursor, moves []move) (wr walkResult) {
	wr.At = -1
	defer func() {
		if x := recover(); x != nil {
			wr.Mismatch = fmt.Sprintf("panic: %v", x)
		}
	}()
	for i, m := range moves {
		o := applyIter(it, m)
		ok, k, v := cur.apply(m)
		wr.Obs = append(wr.Obs, o)
		wr.Positions = append(wr.Positions, cur.pos)
		bad := ""
		switch {
		case it.Error() != nil:
			bad = fmt.Sprintf("Error() = %v", it.Error())
		case o.Ret != ok:
			bad = fmt.Sprintf("returned %v, cursor says %v (cursor key %x)", o.Ret, ok, k)
		case it.Valid() != o.Ret:
			bad = fmt.Sprintf("Valid() = %v after the call returned %v", it.Valid(), o.Ret)
		case ok && (o.Key == nil || !bytes.Equal(o.Key, k)):
			bad = fmt.Sprintf("Key() = %x, cursor key %x", o.Key, k)
		case ok && !bytes.Equal(o.Value, v):
			bad = fmt.Sprintf("Value() = %x, cursor value %x (key %x)", o.Value, v, k)
		case !ok && (o.Key != nil || o.Value != nil):
			bad = fmt.Sprintf("not valid but Key() = %x Value() = %x", o.Key, o.Value)
		}
		if bad != "" && wr.Mismatch == "" {
			wr.Mismatch = fmt.Sprintf("call %d %s: %s", i, m, bad)
			wr.At = i
			return
		}
	}
	return
}

// runGuarded runs f with a watchdog; hung = f did not return in time (its goroutine is abandoned).
func runGuarded(d time.Duration, f func()) (hung bool, panicked interface{}) {
	done := make(chan interface{}, 1)
	go func() {
		defer func() {
			if x := recover(); x != nil {
				done <- fmt.Sprintf("%v\n%s", x, debug.Stack())
			} else {
				done <- nil
			}
		}()
		f()
	}()
	select {
	case p := <-done:
		return false, p
	case <-time.After(d):
		return true, nil
	}
}

// ---- movement generators ----

// keyNear returns a seek / bound key: equal to, between, or outside the given sorted keys.
func keyNear(r *vlib.RNG, keys [][]byte, pool [][]byte) []byte {
	pick := func() []byte {
		if len(keys) > 0 && r.Chance(3, 4) {
			return append([]byte{}, keys[r.Intn(len(keys))]...)
		}
		if len(pool) > 0 {
			return append([]byte{}, pool[r.Intn(len(pool))]...)
		}
		return r.Bytes(r.Range(0, 3), []byte{0x00, 0x55, 'a', 'b', 0xff})
	}
	switch r.Pick(5, 2, 2, 2, 1, 1, 1) {
	case 0: // equal to a stored key
		return pick()
	case 1: // just after a stored key
		return append(pick(), byte(r.Pick(1, 1, 1)*0x7f+0x00))
	case 2: // a prefix of a stored key
		k := pick()
		return k[:r.Intn(len(k)+1)]
	case 3: // last byte moved by one
		k := pick()
		if len(k) > 0 {
			if r.Bool() {
				k[len(k)-1]++
			} else {
				k[len(k)-1]--
			}
		}
		return k
	case 4:
		return []byte{}
	case 5:
		return bytes.Repeat([]byte{0xff}, r.Range(1, 4))
	default:
		return r.Bytes(r.Range(1, 4), nil)
	}
}

// genMoves builds a movement sequence of about n calls biased to direction reversals and to the
// two ends; keys are the keys the iterator is expected to show, pool further candidate keys.
func genMoves(r *vlib.RNG, n int, keys [][]byte, pool [][]byte) []move {
	var ms []move
	seek := func() move { return move{Op: "S", Key: keyNear(r, keys, pool)} }
	rep := func(op string, k int) {
		for i := 0; i < k; i++ {
			ms = append(ms, move{Op: op})
		}
	}
	for len(ms) < n {
		switch r.Pick(6, 6, 4, 4, 3, 3, 3, 3, 2, 2, 2) {
		case 0:
			ms = append(ms, move{Op: "N"})
		case 1:
			ms = append(ms, move{Op: "P"})
		case 2: // zig-zag
			rep("N", r.Range(1, 4))
			rep("P", r.Range(1, 4))
		case 3:
			rep("P", r.Range(1, 4))
			rep("N", r.Range(1, 4))
		case 4: // Seek then Prev
			ms = append(ms, seek(), move{Op: "P"})
		case 5: // Seek, Next, Prev
			ms = append(ms, seek(), move{Op: "N"}, move{Op: "P"})
		case 6: // off the end and back
			ms = append(ms, move{Op: "L"})
			rep("N", r.Range(1, 3))
			rep("P", r.Range(1, 3))
		case 7: // off the start and back
			ms = append(ms, move{Op: "F"})
			rep("P", r.Range(1, 3))
			rep("N", r.Range(1, 3))
		case 8:
			ms = append(ms, seek())
		case 9: // long run in one direction, then back
			if r.Bool() {
				rep("N", r.Range(3, 12))
				rep("P", r.Range(1, 6))
			} else {
				rep("P", r.Range(3, 12))
				rep("N", r.Range(1, 6))
			}
		default:
			if r.Bool() {
				ms = append(ms, move{Op: "F"})
			} else {
				ms = append(ms, move{Op: "L"})
			}
		}
	}
	if len(ms) > n {
		ms = ms[:n]
	}
	return ms
}

func walkLen(r *vlib.RNG, max int) int {
	switch r.Pick(2, 5, 3) {
	case 0:
		return r.Range(1, 5)
	case 1:
		if max > 60 {
			return r.Range(6, 60)
		}
		return r.Range(6, max)
	default:
		return r.Range(max/2+1, max)
	}
}

// reversalSteps returns the indexes of the calls that reverse direction on a valid position:
// a Prev issued when the last successful positioning was forward (First/Seek/Next) or a Next
// after Last/Prev; from/to are the oracle positions before and after that call.
type revStep struct{ I, From, To int }

func reversalSteps(moves []move, positions []int, n int) []revStep {
	var out []revStep
	dir := 0 // +1 forward, -1 backward, 0 not on a pair
	prev := -1
	for i, m := range moves {
		if i >= len(positions) {
			break
		}
		valid := func(p int) bool { return p >= 0 && p < n }
		switch m.Op {
		case "N":
			if dir == -1 && valid(prev) {
				out = append(out, revStep{i, prev, positions[i]})
			}
		case "P":
			if dir == 1 && valid(prev) {
				out = append(out, revStep{i, prev, positions[i]})
			}
		}
		prev = positions[i]
		if !valid(prev) {
			dir = 0
		} else if m.Op == "F" || m.Op == "S" || m.Op == "N" {
			dir = 1
		} else {
			dir = -1
		}
	}
	return out
}

// ---- Coq rendering ----
func coqMoves(ms []move) string {
	var sb strings.Builder
	sb.WriteString("[")
	for i, m := range ms {
		if i > 0 {
			sb.WriteString(";")
		}
		switch m.Op {
		case "F":
			sb.WriteString("mF")
		case "L":
			sb.WriteString("mL")
		case "N":
			sb.WriteString("mN")
		case "P":
			sb.WriteString("mP")
		case "S":
			sb.WriteString("mS " + vlib.CoqHex(m.Key))
		}
	}
	sb.WriteString("]")
	return sb.String()
}

func coqObs(os []obs) string {
	var sb strings.Builder
	sb.WriteString("[")
	for i, o := range os {
		if i > 0 {
			sb.WriteString(";")
		}
		switch {
		case !o.Ret && o.Key == nil && o.Value == nil:
			sb.WriteString("oN")
		case o.Ret && o.Key != nil && o.Value != nil:
			sb.WriteString("oS " + vlib.CoqHex(o.Key) + " " + vlib.CoqHex(o.Value))
		case o.Key == nil && o.Value == nil:
			sb.WriteString("oX " + vlib.CoqBool(o.Ret) + " None")
		default:
			sb.WriteString("oX " + vlib.CoqBool(o.Ret) + " (Some (" + vlib.CoqHex(o.Key) + "," + vlib.CoqHex(o.Value) + "))")
		}
	}
	sb.WriteString("]")
	return sb.String()
}

func coqKVs(kvs []kv) string {
	var sb strings.Builder
	sb.WriteString("[")
	for i, x := range kvs {
		if i > 0 {
			sb.WriteString(";")
		}
		sb.WriteString("(" + vlib.CoqHex(x.K) + "," + vlib.CoqHex(x.V) + ")")
	}
	sb.WriteString("]")
	return sb.String()
}

func sortKVs(kvs []kv, cmp comparer.Comparer) {
	sort.Slice(kvs, func(i, j int) bool { return cmp.Compare(kvs[i].K, kvs[j].K) < 0 })
}

func keysOf(kvs []kv) [][]byte {
	out := make([][]byte, len(kvs))
	for i, x := range kvs {
		out[i] = x.K
	}
	return out
}
