package main

import (
	"fmt"
	"sort"
	"strings"
	"time"

	"github.com/syndtr/goleveldb/leveldb/comparer"
	"github.com/syndtr/goleveldb/leveldb/iterator"
	"verifharness/lib/vlib"
)

// ---- iterator.Array / iterator.ArrayIndexer over generated lists ----
type kvArray struct {
	kvs []kv
	cmp comparer.Comparer
}

func (a *kvArray) Len() int { return len(a.kvs) }
func (a *kvArray) Search(key []byte) int {
	return sort.Search(len(a.kvs), func(i int) bool { return a.cmp.Compare(a.kvs[i].K, key) >= 0 })
}
func (a *kvArray) Index(i int) (key, value []byte) { return a.kvs[i].K, a.kvs[i].V }

type block struct {
	IKey hexbytes `json:"ikey"` // index key: >= every key of Data, < every key of the later blocks
	Data []kv     `json:"data"`
}

type blockIndex struct {
	blocks []block
	cmp    comparer.Comparer
}

func (b *blockIndex) Len() int { return len(b.blocks) }
func (b *blockIndex) Search(key []byte) int {
	return sort.Search(len(b.blocks), func(i int) bool { return b.cmp.Compare(b.blocks[i].IKey, key) >= 0 })
}
func (b *blockIndex) Get(i int) iterator.Iterator {
	return iterator.NewArrayIterator(&kvArray{kvs: b.blocks[i].Data, cmp: b.cmp})
}

// ---- component cases ----
type compCase struct {
	Kind     string  `json:"kind"` // merged | indexed | nested
	Cid      int     `json:"cmp"`
	Strict   bool    `json:"strict"`
	Children [][]kv  `json:"children,omitempty"` // merged: one sorted list per child
	Blocks   []block `json:"blocks,omitempty"`   // indexed
	// nested: merged over [indexed(Nested[i]) ...] and array children Children
	Nested [][]block `json:"nested,omitempty"`
	Moves  []move    `json:"moves"`
}

func genKeySet(r *vlib.RNG, n int, cmp comparer.Comparer) [][]byte {
	seen := map[string]bool{}
	var out [][]byte
	alpha := [][]byte{{0x00, 0x01, 0x55, 0x56, 'a', 'b', 0xfe, 0xff}, {'a', 'b', 'c'}, nil}[r.Pick(3, 2, 1)]
	for tries := 0; len(out) < n && tries < 20*n+20; tries++ {
		var k []byte
		switch r.Pick(1, 6, 3, 2) {
		case 0:
			k = []byte{}
		case 1:
			k = r.Bytes(r.Range(1, 3), alpha)
		case 2:
			if len(out) > 0 { // extension / neighbour of an existing key
				k = append([]byte{}, out[r.Intn(len(out))]...)
				if r.Bool() || len(k) == 0 {
					k = append(k, r.Bytes(1, alpha)...)
				} else {
					k[len(k)-1]++
				}
			} else {
				k = r.Bytes(1, alpha)
			}
		default:
			k = r.Bytes(r.Range(1, 6), nil)
		}
		if !seen[string(k)] {
			seen[string(k)] = true
			out = append(out, k)
		}
	}
	sort.Slice(out, func(i, j int) bool { return cmp.Compare(out[i], out[j]) < 0 })
	return out
}

func genValue(r *vlib.RNG) []byte {
	switch r.Pick(2, 6, 1) {
	case 0:
		return []byte{}
	case 1:
		return r.Bytes(r.Range(1, 6), nil)
	default:
		return r.Bytes(r.Range(7, 20), nil)
	}
}

// genBlocks partitions sorted keys into blocks with index keys (some blocks empty).
func genBlocks(r *vlib.RNG, keys [][]byte) ([]block, []kv) {
	var bl []block
	var all []kv
	i := 0
	for i < len(keys) {
		nd := r.Pick(3, 4, 3, 2, 1) // 0..4 data keys
		var b block
		b.Data = []kv{}
		for j := 0; j < nd && i < len(keys)-0; j++ {
			if i >= len(keys) {
				break
			}
			x := kv{K: keys[i], V: genValue(r)}
			b.Data = append(b.Data, x)
			all = append(all, x)
			i++
		}
		// index key: the last data key, or a separate key after it
		if len(b.Data) > 0 && r.Chance(1, 2) {
			b.IKey = append([]byte{}, b.Data[len(b.Data)-1].K...)
		} else if i < len(keys) {
			b.IKey = append([]byte{}, keys[i]...)
			i++
		} else if len(b.Data) > 0 {
			b.IKey = append([]byte{}, b.Data[len(b.Data)-1].K...)
		} else {
			break
		}
		bl = append(bl, b)
	}
	return bl, all
}

func genCompCase(r *vlib.RNG, maxMoves, maxKeys int) *compCase {
	cid := r.Intn(vlib.NumComparers)
	cmp := vlib.ComparerByID(cid)
	c := &compCase{Cid: cid, Strict: r.Bool()}
	nk := r.Pick(1, 2, 4, 4)
	switch nk {
	case 0:
		nk = 0
	case 1:
		nk = r.Range(1, 4)
	case 2:
		nk = r.Range(5, maxKeys/2+5)
	default:
		nk = r.Range(maxKeys/2, maxKeys)
	}
	keys := genKeySet(r, nk, cmp)
	switch r.Pick(5, 4, 2) {
	case 0:
		c.Kind = "merged"
		n := r.Range(1, 6)
		if r.Chance(1, 30) {
			n = 0
		}
		c.Children = make([][]kv, n)
		for i := range c.Children {
			c.Children[i] = []kv{}
		}
		if n > 0 {
			// runs of consecutive keys tend to stay in one child (as in levels), sometimes interleaved
			cur := r.Intn(n)
			for _, k := range keys {
				if r.Chance(1, 2) {
					cur = r.Intn(n)
				}
				c.Children[cur] = append(c.Children[cur], kv{K: k, V: genValue(r)})
			}
		}
	case 1:
		c.Kind = "indexed"
		c.Blocks, _ = genBlocks(r, keys)
	default:
		c.Kind = "nested"
		n := r.Range(1, 4)
		parts := make([][][]byte, n+2)
		for _, k := range keys {
			j := r.Intn(n + 2)
			parts[j] = append(parts[j], k)
		}
		for j := 0; j < n; j++ {
			bl, _ := genBlocks(r, parts[j])
			c.Nested = append(c.Nested, bl)
		}
		// keys used as pure index keys are not data; array children get the rest
		for j := n; j < n+2; j++ {
			ch := []kv{}
			for _, k := range parts[j] {
				ch = append(ch, kv{K: k, V: genValue(r)})
			}
			c.Children = append(c.Children, ch)
		}
	}
	all := c.expected(cmp)
	c.Moves = genMoves(r, walkLen(r, maxMoves), keysOf(all), keys)
	return c
}

// expected: the sorted list the iterator must present
func (c *compCase) expected(cmp comparer.Comparer) []kv {
	var all []kv
	for _, ch := range c.Children {
		all = append(all, ch...)
	}
	for _, b := range c.Blocks {
		all = append(all, b.Data...)
	}
	for _, bl := range c.Nested {
		for _, b := range bl {
			all = append(all, b.Data...)
		}
	}
	all = append([]kv{}, all...)
	sortKVs(all, cmp)
	return all
}

// source of each expected pair (child / block number), to tell boundary crossings
func (c *compCase) sources(cmp comparer.Comparer, all []kv) []string {
	src := map[string]string{}
	for i, ch := range c.Children {
		for _, x := range ch {
			src[string(x.K)] = fmt.Sprintf("c%d", i)
		}
	}
	for i, b := range c.Blocks {
		for _, x := range b.Data {
			src[string(x.K)] = fmt.Sprintf("b%d", i)
		}
	}
	for j, bl := range c.Nested {
		for i, b := range bl {
			for _, x := range b.Data {
				src[string(x.K)] = fmt.Sprintf("n%d.%d", j, i)
			}
		}
	}
	out := make([]string, len(all))
	for i, x := range all {
		out[i] = src[string(x.K)]
	}
	return out
}

func (c *compCase) build(cmp comparer.Comparer) iterator.Iterator {
	arr := func(l []kv) iterator.Iterator { return iterator.NewArrayIterator(&kvArray{kvs: l, cmp: cmp}) }
	idx := func(bl []block) iterator.Iterator {
		return iterator.NewIndexedIterator(iterator.NewArrayIndexer(&blockIndex{blocks: bl, cmp: cmp}), c.Strict)
	}
	switch c.Kind {
	case "merged":
		var its []iterator.Iterator
		for _, ch := range c.Children {
			its = append(its, arr(ch))
		}
		return iterator.NewMergedIterator(its, cmp, c.Strict)
	case "indexed":
		return idx(c.Blocks)
	default:
		var its []iterator.Iterator
		for _, bl := range c.Nested {
			its = append(its, idx(bl))
		}
		for _, ch := range c.Children {
			its = append(its, arr(ch))
		}
		return iterator.NewMergedIterator(its, cmp, c.Strict)
	}
}

// runCompCase: (P) every call against the cursor over the merged / concatenated list; returns
// the Coq case for (K) (empty for nested) and whether the walk was non-trivial.
func runCompCase(c *compCase, res *vlib.Result, label string) (kcase string, nontrivial bool, failed bool) {
	cmp := vlib.ComparerByID(c.Cid)
	all := c.expected(cmp)
	var wr walkResult
	hung, pan := runGuarded(20*time.Second, func() {
		it := c.build(cmp)
		defer it.Release()
		wr = runWalk(it, newCursor(all, cmp), c.Moves)
	})
	if hung {
		res.Violate(fmt.Sprintf("%s iterator (%s): a movement call did not return within 20s", c.Kind, label), c)
		return "", false, true
	}
	if pan != nil {
		res.Violate(fmt.Sprintf("%s iterator (%s): panic %v", c.Kind, label, pan), c)
		return "", false, true
	}
	if wr.Mismatch != "" {
		sc, desc := shrinkComp(c, wr.At, wr.Mismatch)
		res.Violate(fmt.Sprintf("%s iterator over %d pairs, comparer %d: %s", c.Kind, len(sc.expected(cmp)), c.Cid, desc), sc)
		return "", false, true
	}
	srcs := c.sources(cmp, all)
	revs := reversalSteps(c.Moves, wr.Positions, len(all))
	for _, rv := range revs {
		res.Count("comp_reversals", 1)
		to := rv.To
		if to < 0 || to >= len(all) {
			nontrivial = true // stepped off an end right after reversing
			res.Count("comp_reversal_off_end", 1)
		} else if srcs[to] != srcs[rv.From] {
			nontrivial = true
			res.Count("comp_reversal_cross_child", 1)
		}
	}
	res.Count("comp_"+c.Kind, 1)
	res.Count(fmt.Sprintf("comp_cmp_%d", c.Cid), 1)
	switch c.Kind {
	case "merged":
		var sb strings.Builder
		sb.WriteString(fmt.Sprintf("CMerged %d [", c.Cid))
		for i, ch := range c.Children {
			if i > 0 {
				sb.WriteString(";")
			}
			sb.WriteString(coqKVs(ch))
		}
		sb.WriteString("] " + coqMoves(c.Moves) + " " + coqObs(wr.Obs))
		kcase = sb.String()
	case "indexed":
		var sb strings.Builder
		sb.WriteString(fmt.Sprintf("CIndexed %d [", c.Cid))
		for i, b := range c.Blocks {
			if i > 0 {
				sb.WriteString(";")
			}
			sb.WriteString("(" + vlib.CoqHex(b.IKey) + "," + coqKVs(b.Data) + ")")
		}
		sb.WriteString("] " + coqMoves(c.Moves) + " " + coqObs(wr.Obs))
		kcase = sb.String()
	case "nested":
		var sb strings.Builder
		sb.WriteString(fmt.Sprintf("CNested %d [", c.Cid))
		for j, bl := range c.Nested {
			if j > 0 {
				sb.WriteString(";")
			}
			sb.WriteString("[")
			for i, b := range bl {
				if i > 0 {
					sb.WriteString(";")
				}
				sb.WriteString("(" + vlib.CoqHex(b.IKey) + "," + coqKVs(b.Data) + ")")
			}
			sb.WriteString("]")
		}
		sb.WriteString("] [")
		for i, ch := range c.Children {
			if i > 0 {
				sb.WriteString(";")
			}
			sb.WriteString(coqKVs(ch))
		}
		sb.WriteString("] " + coqMoves(c.Moves) + " " + coqObs(wr.Obs))
		kcase = sb.String()
	}
	return kcase, nontrivial, false
}

// shrinkComp: cut the walk at the failing call, then drop calls and pairs while it still fails
func shrinkComp(c *compCase, at int, desc string) (*compCase, string) {
	deadline := time.Now().Add(3 * time.Second)
	cmp := vlib.ComparerByID(c.Cid)
	fails := func(x *compCase) (bool, string) {
		var wr walkResult
		hung, pan := runGuarded(5*time.Second, func() {
			it := x.build(cmp)
			defer it.Release()
			wr = runWalk(it, newCursor(x.expected(cmp), cmp), x.Moves)
		})
		return !hung && pan == nil && wr.Mismatch != "", wr.Mismatch
	}
	cur := *c
	if at >= 0 && at < len(c.Moves) {
		cur.Moves = append([]move{}, c.Moves[:at+1]...)
	}
	if f, d := fails(&cur); !f {
		return c, desc
	} else {
		desc = d
	}
	for i := 0; i+1 < len(cur.Moves) && time.Now().Before(deadline); {
		cand := cur
		cand.Moves = append(append([]move{}, cur.Moves[:i]...), cur.Moves[i+1:]...)
		if f, d := fails(&cand); f {
			cur, desc = cand, d
		} else {
			i++
		}
	}
	// drop pairs of array children
	for ci := range cur.Children {
		for i := 0; i < len(cur.Children[ci]) && time.Now().Before(deadline); {
			cand := cur
			cand.Children = append([][]kv{}, cur.Children...)
			cand.Children[ci] = append(append([]kv{}, cur.Children[ci][:i]...), cur.Children[ci][i+1:]...)
			if f, d := fails(&cand); f {
				cur, desc = cand, d
			} else {
				i++
			}
		}
	}
	return &cur, desc
}
