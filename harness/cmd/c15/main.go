// c15: internal key order and index-key shortening.  (P) evaluates the order laws and the
// separator/successor laws with the implementation's own comparer; (K) emits the observed
// results as Coq cases for the IKey model.
package main

import (
	"bytes"
	"encoding/binary"
	"encoding/hex"
	"fmt"

	"github.com/syndtr/goleveldb/leveldb"
	"verifharness/lib/vlib"
)

type ik struct {
	u    []byte
	seq  uint64
	kind uint
}

func (k ik) enc() []byte {
	b := append([]byte{}, k.u...)
	var t [8]byte
	binary.LittleEndian.PutUint64(t[:], k.seq<<8|uint64(k.kind))
	return append(b, t[:]...)
}

func genUkey(r *vlib.RNG, pool [][]byte) []byte {
	switch r.Pick(2, 2, 2, 3, 3, 3, 2) {
	case 0:
		return []byte{}
	case 1:
		return bytes.Repeat([]byte{0xff}, r.Range(1, 5))
	case 2:
		return bytes.Repeat([]byte{0x00}, r.Range(1, 5))
	case 3: // prefix / extension / adjacent-byte variant of a pool key
		if len(pool) > 0 {
			p := append([]byte{}, pool[r.Intn(len(pool))]...)
			switch r.Intn(5) {
			case 0:
				return p[:r.Intn(len(p)+1)]
			case 1:
				return append(p, r.Bytes(r.Range(1, 3), nil)...)
			case 2:
				if len(p) > 0 {
					i := r.Intn(len(p))
					p[i] += byte(r.Range(1, 2))
				}
				return p
			case 3:
				if len(p) > 0 {
					p[len(p)-1]--
				}
				return p
			default:
				return p
			}
		}
		fallthrough
	case 4:
		return r.Bytes(r.Range(1, 6), []byte{0x00, 0x01, 0x54, 0x55, 0x56, 0xfe, 0xff, 'a', 'b'})
	case 5:
		return r.Bytes(r.Range(1, 12), nil)
	default:
		return r.Bytes(r.Range(1, 4), []byte{0xff, 0xfe, 0x00})
	}
}

func genSeq(r *vlib.RNG) uint64 {
	switch r.Intn(6) {
	case 0:
		return 0
	case 1:
		return 1
	case 2:
		return 1<<56 - 1
	case 3:
		return uint64(r.Intn(4))
	case 4:
		return r.Uint64() >> 8
	default:
		return uint64(r.Intn(1000))
	}
}

func sign(x int) int {
	if x < 0 {
		return -1
	} else if x > 0 {
		return 1
	}
	return 0
}

func code(x int) int { return sign(x) + 1 }

func main() {
	a := vlib.ParseArgs()
	res := vlib.NewResult("C15", a.Out, "random pairs/triples of internal keys (user keys: empty, 0x00/0xff runs, prefixes/extensions/adjacent-byte variants of pool keys; seqs 0,1,2^56-1,random; both kinds) x 4 comparers (bytewise, shortlex, xor 0x55, xor 0xff); non-trivial = the separator/successor actually shortened, or equal user keys with different numbers")
	defer res.Write()
	n := 6000
	kcap := 3000
	if a.Thorough() {
		n = 400000
		kcap = 40000
	}
	r := vlib.NewRNG(a.Seed)
	var pool [][]byte
	var cases []string
	addCase := func(s string) {
		if len(cases) < kcap {
			cases = append(cases, s)
		}
	}
	gen := func() ik {
		k := ik{genUkey(r, pool), genSeq(r), uint(r.Intn(2))}
		if len(pool) < 64 {
			pool = append(pool, k.u)
		} else if r.Chance(1, 4) {
			pool[r.Intn(len(pool))] = k.u
		}
		return k
	}
	for i := 0; i < n; i++ {
		cid := r.Intn(vlib.NumComparers)
		uc := vlib.ComparerByID(cid)
		x, y, z := gen(), gen(), gen()
		if r.Chance(1, 3) {
			y.u = x.u
		}
		if r.Chance(1, 6) {
			z.u = x.u
		}
		X, Y, Z := x.enc(), y.enc(), z.enc()
		cxy := leveldb.VerifICompare(uc, X, Y)
		cyx := leveldb.VerifICompare(uc, Y, X)
		cyz := leveldb.VerifICompare(uc, Y, Z)
		cxz := leveldb.VerifICompare(uc, X, Z)
		nontrivial := bytes.Equal(x.u, y.u) && (x.seq != y.seq || x.kind != y.kind)
		rep := map[string]interface{}{"cmp": cid, "x": hex.EncodeToString(X), "y": hex.EncodeToString(Y), "z": hex.EncodeToString(Z)}
		// (P) order laws with the implementation's comparer
		if sign(cxy) != -sign(cyx) {
			res.Violate(fmt.Sprintf("antisymmetry: cmp(x,y)=%d cmp(y,x)=%d", cxy, cyx), rep)
		}
		if (cxy == 0) != bytes.Equal(X, Y) {
			res.Violate(fmt.Sprintf("equality: cmp(x,y)=%d but identical=%v", cxy, bytes.Equal(X, Y)), rep)
		}
		if cxy < 0 && cyz < 0 && !(cxz < 0) {
			res.Violate("transitivity: x<y, y<z but not x<z", rep)
		}
		// expected order: ukey ascending under uc, then num descending
		exp := sign(uc.Compare(x.u, y.u))
		if exp == 0 {
			nx, ny := x.seq<<8|uint64(x.kind), y.seq<<8|uint64(y.kind)
			if nx > ny {
				exp = -1
			} else if nx < ny {
				exp = 1
			}
		}
		if sign(cxy) != exp {
			res.Violate(fmt.Sprintf("order: cmp(x,y)=%d, expected %d (ukey ascending, newest first)", cxy, exp), rep)
		}
		// probe placement: (k, s, Seek) relative to an entry (k, s', t)
		pk := leveldb.VerifProbeIKey(x.u, x.seq)
		{
			e := ik{x.u, y.seq, y.kind}.enc()
			c := leveldb.VerifICompare(uc, e, pk)
			if y.seq > x.seq && !(c < 0) {
				res.Violate("probe placement: entry newer than s does not sort before the probe", map[string]interface{}{"cmp": cid, "probe": hex.EncodeToString(pk), "entry": hex.EncodeToString(e)})
			}
			if y.seq <= x.seq && c < 0 {
				res.Violate("probe placement: entry with seq <= s sorts before the probe", map[string]interface{}{"cmp": cid, "probe": hex.EncodeToString(pk), "entry": hex.EncodeToString(e)})
			}
		}
		// complete probe placement (C15_probe_precedes_iff): against an entry of ANY user key,
		// z < probe(k, s) iff uk z < k, or uk z = k and seq z > s
		{
			c := leveldb.VerifICompare(uc, Z, pk)
			u := uc.Compare(z.u, x.u)
			want := u < 0 || (u == 0 && z.seq > x.seq)
			if (c < 0) != want {
				res.Violate(fmt.Sprintf("probe placement (any key): entry<probe is %v, expected %v", c < 0, want), map[string]interface{}{"cmp": cid, "probe": hex.EncodeToString(pk), "entry": hex.EncodeToString(Z)})
			}
			if u == 0 {
				res.Count("probe_vs_same_ukey", 1)
			} else {
				res.Count("probe_vs_other_ukey", 1)
			}
		}
		addCase(fmt.Sprintf("CCmp %d %s %s %d", cid, vlib.CoqHex(X), vlib.CoqHex(Y), code(cxy)))
		// separator on the ordered pair
		A, B := X, Y
		if cxy > 0 {
			A, B = Y, X
		}
		if cxy != 0 {
			s := leveldb.VerifISeparator(uc, A, B)
			if s != nil {
				nontrivial = true
				res.Count("separator_shortened", 1)
				if len(s) < 8 {
					res.Violate("separator shorter than 8 bytes", rep)
				} else if !(leveldb.VerifICompare(uc, A, s) <= 0 && leveldb.VerifICompare(uc, s, B) < 0) {
					res.Violate(fmt.Sprintf("separator law a <= sep < b fails: sep=%x", s), rep)
				}
			} else {
				res.Count("separator_nil", 1)
			}
			addCase(fmt.Sprintf("CSep %d %s %s %s", cid, vlib.CoqHex(A), vlib.CoqHex(B), vlib.CoqOptHex(s)))
		}
		su := leveldb.VerifISuccessor(uc, Z)
		if su != nil {
			nontrivial = true
			res.Count("successor_shortened", 1)
			if len(su) < 8 || leveldb.VerifICompare(uc, Z, su) > 0 {
				res.Violate(fmt.Sprintf("successor law b <= succ fails: succ=%x", su), rep)
			}
		} else {
			res.Count("successor_nil", 1)
		}
		addCase(fmt.Sprintf("CSucc %d %s %s", cid, vlib.CoqHex(Z), vlib.CoqOptHex(su)))
		// constructor / parser
		seq, kt := z.seq, z.kind
		if r.Chance(1, 8) {
			seq = 1<<56 - 1 + uint64(r.Intn(3))
		}
		if r.Chance(1, 8) {
			kt = uint(r.Intn(4))
		}
		mk, ok := leveldb.VerifMakeIKey(z.u, seq, kt)
		if ok {
			u2, s2, k2, err := leveldb.VerifParseIKey(mk)
			if err != nil || !bytes.Equal(u2, z.u) || s2 != seq || k2 != kt {
				res.Violate("parse(make(k)) != k", map[string]interface{}{"u": hex.EncodeToString(z.u), "seq": seq, "kind": kt})
			}
			addCase(fmt.Sprintf("CMake %s %d %d (Some %s)", vlib.CoqHex(z.u), seq, kt, vlib.CoqHex(mk)))
		} else {
			addCase(fmt.Sprintf("CMake %s %d %d None", vlib.CoqHex(z.u), seq, kt))
		}
		raw := r.Bytes(r.Range(0, 14), []byte{0, 1, 2, 0xff})
		if u2, s2, k2, err := leveldb.VerifParseIKey(raw); err == nil {
			addCase(fmt.Sprintf("CParse %s (Some (%s, %d, %d))", vlib.CoqHex(raw), vlib.CoqHex(u2), s2, k2))
		} else {
			addCase(fmt.Sprintf("CParse %s None", vlib.CoqHex(raw)))
		}
		res.Count(fmt.Sprintf("comparer_%d", cid), 1)
		res.Count(fmt.Sprintf("cmp_result_%d", sign(cxy)), 1)
		res.Eval(fmt.Sprintf("%d/%x/%x/%x", cid, X, Y, Z), nontrivial)
		res.Sample(rep)
	}
	// (P) only, no model twin: a comparer that is lawful as a total PREORDER but not injective and whose
	// Separator/Successor SHORTEN to a key comparing EQUAL to the argument (trailing-NUL padding ignored).
	// iComparer must refuse such answers (strictly greater is required), otherwise shortened+keyMaxNum
	// sorts BEFORE a (C15_isep_law_pre / C15_isucc_law_pre).  Runs after the main loop so that the main
	// cases' random draws are unchanged.
	for i := 0; i < n/4; i++ {
		uc := trimNul{}
		x, y := gen(), gen()
		x.u = append(append([]byte{}, x.u...), make([]byte, r.Intn(3))...)
		if r.Chance(1, 3) {
			y.u = append(append([]byte{}, trimNulOf(x.u)...), make([]byte, r.Intn(3))...)
		} else {
			y.u = append(append([]byte{}, y.u...), make([]byte, r.Intn(3))...)
		}
		X, Y := x.enc(), y.enc()
		cxy, cyx := leveldb.VerifICompare(uc, X, Y), leveldb.VerifICompare(uc, Y, X)
		rep := map[string]interface{}{"cmp": "trimNul", "x": hex.EncodeToString(X), "y": hex.EncodeToString(Y)}
		if sign(cxy) != -sign(cyx) {
			res.Violate(fmt.Sprintf("antisymmetry (trimNul): cmp(x,y)=%d cmp(y,x)=%d", cxy, cyx), rep)
		}
		exp := sign(uc.Compare(x.u, y.u))
		if exp == 0 {
			nx, ny := x.seq<<8|uint64(x.kind), y.seq<<8|uint64(y.kind)
			if nx > ny {
				exp = -1
			} else if nx < ny {
				exp = 1
			}
			res.Count("trimnul_same_class", 1)
		}
		if sign(cxy) != exp {
			res.Violate(fmt.Sprintf("order (trimNul): cmp(x,y)=%d, expected %d", cxy, exp), rep)
		}
		A, B := X, Y
		if cxy > 0 {
			A, B = Y, X
		}
		if cxy != 0 {
			if s := leveldb.VerifISeparator(uc, A, B); s != nil {
				res.Count("trimnul_separator_accepted", 1)
				if len(s) < 8 || !(leveldb.VerifICompare(uc, A, s) <= 0 && leveldb.VerifICompare(uc, s, B) < 0) {
					res.Violate(fmt.Sprintf("separator law a <= sep < b fails (trimNul, user separator equal to a): sep=%x", s), rep)
				}
			} else if ua := A[:len(A)-8]; len(trimNulOf(ua)) < len(ua) {
				res.Count("trimnul_separator_equal_refused", 1)
			}
		}
		if su := leveldb.VerifISuccessor(uc, X); su != nil {
			res.Count("trimnul_successor_accepted", 1)
			if len(su) < 8 || !(leveldb.VerifICompare(uc, X, su) <= 0) {
				res.Violate(fmt.Sprintf("successor law b <= succ fails (trimNul): succ=%x", su), rep)
			}
		} else if len(trimNulOf(x.u)) < len(x.u) {
			res.Count("trimnul_successor_equal_refused", 1)
		}
	}
	res.WriteCases("From GL Require Import Corr.C15Run.", "c15case", "mismatches", cases, 16)
}

// trimNul orders keys bytewise after dropping trailing 0x00 bytes; Separator/Successor return the trimmed
// spelling (shorter, comparing Eq to the argument), which the comparer contract allows (a <= x < b, b <= x).
type trimNul struct{}

func trimNulOf(a []byte) []byte { return bytes.TrimRight(a, "\x00") }
func (trimNul) Name() string    { return "verif.TrimNul" }
func (trimNul) Compare(a, b []byte) int {
	return bytes.Compare(trimNulOf(a), trimNulOf(b))
}
func (t trimNul) Separator(dst, a, b []byte) []byte {
	if ta := trimNulOf(a); len(ta) < len(a) && t.Compare(a, b) < 0 {
		return append(dst, ta...)
	}
	return nil
}
func (trimNul) Successor(dst, b []byte) []byte {
	if tb := trimNulOf(b); len(tb) < len(b) {
		return append(dst, tb...)
	}
	return nil
}
