// constgen: the constants translator.  Reads the Go source of /repo (go/parser + go/types),
// evaluates the named package-level constants (and a few function-local ones) the Coq models
// depend on, and prints Gen/Consts.v.  Usage: constgen <repo-root> > Consts.v
package main

import (
	"fmt"
	"go/ast"
	"go/build"
	"go/constant"
	"go/parser"
	"go/token"
	"go/types"
	"math/big"
	"os"
	"path/filepath"
	"sort"
	"strings"
)

type lenientImporter struct{ pkgs map[string]*types.Package }

func (l *lenientImporter) Import(path string) (*types.Package, error) {
	if p, ok := l.pkgs[path]; ok {
		return p, nil
	}
	name := path[strings.LastIndex(path, "/")+1:]
	p := types.NewPackage(path, name)
	p.MarkComplete()
	l.pkgs[path] = p
	return p, nil
}

type want struct {
	dir    string   // relative to repo root
	prefix string   // Coq name prefix
	names  []string // package-level constants
}

var wants = []want{
	{"leveldb", "ldb", []string{"keyTypeDel", "keyTypeVal", "keyTypeSeek", "keyMaxSeq", "keyMaxNum", "batchHeaderLen",
		"recComparer", "recJournalNum", "recNextFileNum", "recSeqNum", "recCompPtr", "recDelTable", "recAddTable", "recPrevJournalNum",
		"undefinedCompaction", "level0Compaction", "nonLevel0Compaction", "seekCompaction"}},
	{"leveldb/journal", "jnl", []string{"fullChunkType", "firstChunkType", "middleChunkType", "lastChunkType", "blockSize", "headerSize"}},
	{"leveldb/table", "tbl", []string{"blockTrailerLen", "footerLen", "magic", "blockTypeNoCompression", "blockTypeSnappyCompression"}},
	{"leveldb/memdb", "mdb", []string{"tMaxHeight", "nKV", "nKey", "nVal", "nHeight", "nNext"}},
	{"leveldb/opt", "opt", []string{"KiB", "MiB"}},
	// C09 (options model, Gen/Options.v): the typed constants of leveldb/opt
	{"leveldb/opt", "opt", []string{"DefaultCompression", "NoCompression", "SnappyCompression", "nCompression",
		"StrictManifest", "StrictJournalChecksum", "StrictJournal", "StrictBlockChecksum", "StrictCompaction", "StrictReader",
		"StrictRecovery", "StrictOverride", "StrictAll", "DefaultStrict", "NoStrict"}},
	// the bounds of the clamping getters (repairs of the options relations, Props/C09O.v)
	{"leveldb/opt", "opt", []string{"maxFilterBaseLg", "maxIteratorSamplingRate"}},
	{"leveldb", "ldb", []string{"maxCachedNumber"}}, // C07: queue bound of session.refLoop
	{"leveldb/cache", "cch", []string{"mInitialSize", "mOverflowThreshold", "mOverflowGrowThreshold",
		"bucketUninitialized", "bucketInitialized", "bucketFrozen"}}, // C17: the node table of cache.go
	{"leveldb/filter", "flt", []string{"maxBloomBits", "bloomProbeBits"}}, // C16: ceilings of the repaired bloom.go
}

// package-level VARIABLES whose initialiser is a constant expression (the Default* values of leveldb/opt are
// declared with var): evaluated by go/types on the initialiser expression.  Files are selected with the
// build constraints of the host platform (options_default.go vs options_darwin.go).  Integer values are
// printed as N; float values v = m * 2^e (m odd) as three N definitions <name>_m, <name>_ep (e when e >= 0,
// else 0) and <name>_en (-e when e < 0, else 0).
var varwants = []want{
	{"leveldb/opt", "opt", []string{"DefaultBlockCacheCapacity", "DefaultBlockRestartInterval", "DefaultBlockSize",
		"DefaultCompactionExpandLimitFactor", "DefaultCompactionGPOverlapsFactor", "DefaultCompactionL0Trigger",
		"DefaultCompactionSourceLimitFactor", "DefaultCompactionTableSize", "DefaultCompactionTableSizeMultiplier",
		"DefaultCompactionTotalSize", "DefaultCompactionTotalSizeMultiplier", "DefaultCompressionType",
		"DefaultIteratorSamplingRate", "DefaultWriteBuffer", "DefaultWriteL0PauseTrigger", "DefaultWriteL0SlowdownTrigger",
		"DefaultFilterBaseLg", "DefaultMaxManifestFileSize", "DefaultOpenFilesCacheCapacity"}},
}

// function-local or literal constants: (dir, file, func, description, extractor)
type lit struct {
	dir, file, fn, coq string
	nth                int // n-th integer literal (0-based, source order) with value >= min inside the function
	min                uint64
}

var lits = []lit{
	{"leveldb/filter", "bloom.go", "bloomHash", "bloom_seed", 0, 0},
	{"leveldb/util", "hash.go", "Hash", "hash_m", 0, 0},
	{"leveldb/util", "hash.go", "Hash", "hash_r", 1, 0},
	{"leveldb/util", "crc32.go", "Value", "crc_rot_r", 0, 0},
	{"leveldb/util", "crc32.go", "Value", "crc_rot_l", 1, 0},
	{"leveldb/util", "crc32.go", "Value", "crc_mask_delta", 2, 0},
	{"leveldb/memdb", "memdb.go", "randHeight", "mdb_branching", 0, 0},
	{"leveldb/memdb", "memdb.go", "New", "mdb_seed_new", 0, 0},
	{"leveldb/memdb", "memdb.go", "Reset", "mdb_seed_reset", 0, 0},
	// writeLocked's merge limit: "internalLen > 128<<10", "(1 << 20) - internalLen", "128 << 10" (literals >= 2 in source order)
	{"leveldb", "db_write.go", "writeLocked", "wm_thr_a", 0, 2},
	{"leveldb", "db_write.go", "writeLocked", "wm_thr_sh", 1, 2},
	{"leveldb", "db_write.go", "writeLocked", "wm_big_sh", 2, 2},
	{"leveldb", "db_write.go", "writeLocked", "wm_small_a", 3, 2},
	{"leveldb", "db_write.go", "writeLocked", "wm_small_sh", 4, 2},
	// C16: bloom.go (integer literals >= 10, in source order, per function)
	{"leveldb/filter", "bloom.go", "NewGenerator", "bloom_k_num", 0, 10},
	{"leveldb/filter", "bloom.go", "NewGenerator", "bloom_k_den", 1, 10},
	{"leveldb/filter", "bloom.go", "NewGenerator", "bloom_k_cmp", 2, 10},
	{"leveldb/filter", "bloom.go", "NewGenerator", "bloom_k_set", 3, 10},
	{"leveldb/filter", "bloom.go", "Generate", "bloom_min_cmp", 0, 10},
	{"leveldb/filter", "bloom.go", "Generate", "bloom_min_set", 1, 10},
	{"leveldb/filter", "bloom.go", "Generate", "bloom_gen_rotr", 2, 10},
	{"leveldb/filter", "bloom.go", "Generate", "bloom_gen_rotl", 3, 10},
	{"leveldb/filter", "bloom.go", "Contains", "bloom_has_kmax", 0, 10},
	{"leveldb/filter", "bloom.go", "Contains", "bloom_has_rotr", 1, 10},
	{"leveldb/filter", "bloom.go", "Contains", "bloom_has_rotl", 2, 10},
	// C17: murmur32 of cache.go (integer literals in source order: m, r, 32, 32, 13, 15) and its seed in Cache.Get
	{"leveldb/cache", "cache.go", "murmur32", "cch_murmur_m", 0, 0},
	{"leveldb/cache", "cache.go", "murmur32", "cch_murmur_r", 1, 0},
	{"leveldb/cache", "cache.go", "murmur32", "cch_murmur_hi1", 2, 0},
	{"leveldb/cache", "cache.go", "murmur32", "cch_murmur_hi2", 3, 0},
	{"leveldb/cache", "cache.go", "murmur32", "cch_murmur_s1", 4, 0},
	{"leveldb/cache", "cache.go", "murmur32", "cch_murmur_s2", 5, 0},
	{"leveldb/cache", "cache.go", "Get", "cch_seed_get", 0, 2},
	{"leveldb/cache", "cache.go", "Delete", "cch_seed_delete", 0, 2},
	{"leveldb/cache", "cache.go", "Evict", "cch_seed_evict", 0, 2},
}

func coqName(prefix, n string) string { return prefix + "_" + n }

func main() {
	if len(os.Args) < 2 {
		fmt.Fprintln(os.Stderr, "usage: constgen <repo-root>")
		os.Exit(2)
	}
	root := os.Args[1]
	fset := token.NewFileSet()
	imp := &lenientImporter{pkgs: map[string]*types.Package{}}
	var out []string
	out = append(out, "(* GENERATED by harness/cmd/constgen from the Go source of /repo — do not edit. *)")
	out = append(out, "From Coq Require Import NArith List.", "Import ListNotations.", "Open Scope N_scope.", "")
	missing := 0
	for _, w := range wants {
		dir := filepath.Join(root, w.dir)
		pkgs, err := parser.ParseDir(fset, dir, func(fi os.FileInfo) bool {
			return !strings.HasSuffix(fi.Name(), "_test.go") && !strings.HasPrefix(fi.Name(), "verif_")
		}, 0)
		if err != nil {
			fmt.Fprintln(os.Stderr, "constgen: parse", dir, err)
			os.Exit(1)
		}
		var files []*ast.File
		for name, p := range pkgs {
			if strings.HasSuffix(name, "_test") || name == "main" {
				continue
			}
			var fns []string
			for fn := range p.Files {
				fns = append(fns, fn)
			}
			sort.Strings(fns)
			for _, fn := range fns {
				files = append(files, p.Files[fn])
			}
		}
		conf := types.Config{Importer: imp, Error: func(error) {}, FakeImportC: true}
		pkg, _ := conf.Check(w.dir, fset, files, nil)
		for _, n := range w.names {
			obj := pkg.Scope().Lookup(n)
			c, ok := obj.(*types.Const)
			if !ok || c.Val().Kind() == constant.Unknown {
				fmt.Fprintf(os.Stderr, "constgen: constant %s.%s not found or not evaluable\n", w.dir, n)
				out = append(out, fmt.Sprintf("(* MISSING: %s.%s *)", w.dir, n))
				missing++
				continue
			}
			switch c.Val().Kind() {
			case constant.Int:
				out = append(out, fmt.Sprintf("Definition %s : N := %s.", coqName(w.prefix, n), c.Val().ExactString()))
			case constant.String:
				s := constant.StringVal(c.Val())
				var bs []string
				for i := 0; i < len(s); i++ {
					bs = append(bs, fmt.Sprintf("%d", s[i]))
				}
				out = append(out, fmt.Sprintf("Definition %s : list N := [%s].", coqName(w.prefix, n), strings.Join(bs, "; ")))
			default:
				out = append(out, fmt.Sprintf("(* UNSUPPORTED kind for %s.%s *)", w.dir, n))
				missing++
			}
		}
	}
	for _, w := range varwants {
		dir := filepath.Join(root, w.dir)
		pkgs, err := parser.ParseDir(fset, dir, func(fi os.FileInfo) bool {
			if strings.HasSuffix(fi.Name(), "_test.go") || strings.HasPrefix(fi.Name(), "verif_") {
				return false
			}
			ok, merr := build.Default.MatchFile(dir, fi.Name())
			return merr == nil && ok
		}, 0)
		if err != nil {
			fmt.Fprintln(os.Stderr, "constgen: parse", dir, err)
			os.Exit(1)
		}
		var files []*ast.File
		for name, p := range pkgs {
			if strings.HasSuffix(name, "_test") || name == "main" {
				continue
			}
			var fns []string
			for fn := range p.Files {
				fns = append(fns, fn)
			}
			sort.Strings(fns)
			for _, fn := range fns {
				files = append(files, p.Files[fn])
			}
		}
		info := &types.Info{Types: map[ast.Expr]types.TypeAndValue{}}
		conf := types.Config{Importer: imp, Error: func(error) {}, FakeImportC: true}
		conf.Check(w.dir, fset, files, info)
		inits := map[string]ast.Expr{}
		for _, f := range files {
			for _, d := range f.Decls {
				gd, ok := d.(*ast.GenDecl)
				if !ok || gd.Tok != token.VAR {
					continue
				}
				for _, sp := range gd.Specs {
					vs, ok := sp.(*ast.ValueSpec)
					if !ok || len(vs.Names) != len(vs.Values) {
						continue
					}
					for i, nm := range vs.Names {
						inits[nm.Name] = vs.Values[i]
					}
				}
			}
		}
		for _, n := range w.names {
			e, ok := inits[n]
			var val constant.Value
			if ok {
				val = info.Types[e].Value
			}
			if val == nil || val.Kind() == constant.Unknown {
				fmt.Fprintf(os.Stderr, "constgen: variable %s.%s not found or its initialiser is not a constant expression\n", w.dir, n)
				out = append(out, fmt.Sprintf("(* MISSING: %s.%s *)", w.dir, n))
				missing++
				continue
			}
			switch val.Kind() {
			case constant.Int:
				if constant.Sign(val) < 0 {
					out = append(out, fmt.Sprintf("(* UNSUPPORTED negative value for %s.%s *)", w.dir, n))
					missing++
					continue
				}
				out = append(out, fmt.Sprintf("Definition %s : N := %s.", coqName(w.prefix, n), val.ExactString()))
			case constant.Float:
				m, ep, en, ok := dyadic(val)
				if !ok {
					out = append(out, fmt.Sprintf("(* UNSUPPORTED float value for %s.%s *)", w.dir, n))
					missing++
					continue
				}
				out = append(out, fmt.Sprintf("Definition %s_m : N := %s.", coqName(w.prefix, n), m))
				out = append(out, fmt.Sprintf("Definition %s_ep : N := %d.", coqName(w.prefix, n), ep))
				out = append(out, fmt.Sprintf("Definition %s_en : N := %d.", coqName(w.prefix, n), en))
			default:
				out = append(out, fmt.Sprintf("(* UNSUPPORTED kind for %s.%s *)", w.dir, n))
				missing++
			}
		}
	}
	for _, l := range lits {
		v, ok := findLit(fset, filepath.Join(root, l.dir, l.file), l.fn, l.nth, l.min)
		if !ok {
			fmt.Fprintf(os.Stderr, "constgen: literal %s in %s/%s:%s not found\n", l.coq, l.dir, l.file, l.fn)
			out = append(out, fmt.Sprintf("(* MISSING: %s *)", l.coq))
			missing++
			continue
		}
		out = append(out, fmt.Sprintf("Definition lit_%s : N := %d.", l.coq, v))
	}
	fmt.Println(strings.Join(out, "\n"))
	if missing > 0 {
		os.Exit(3)
	}
}

// dyadic writes the float64 value of a positive constant as m * 2^e with m odd: returns m, max(e,0), max(-e,0).
func dyadic(val constant.Value) (string, int, int, bool) {
	f, _ := constant.Float64Val(val)
	if !(f > 0) || f > 1e300 {
		return "", 0, 0, false
	}
	bf := new(big.Float).SetFloat64(f)
	mant := new(big.Float)
	e := bf.MantExp(mant) // f = mant * 2^e, 0.5 <= mant < 1
	mant.SetMantExp(mant, 53)
	e -= 53
	mi, acc := mant.Int(nil)
	if acc != big.Exact || mi.Sign() <= 0 {
		return "", 0, 0, false
	}
	for mi.Bit(0) == 0 {
		mi.Rsh(mi, 1)
		e++
	}
	if e >= 0 {
		return mi.String(), e, 0, true
	}
	return mi.String(), 0, -e, true
}

func findLit(fset *token.FileSet, file, fn string, nth int, min uint64) (uint64, bool) {
	f, err := parser.ParseFile(fset, file, nil, 0)
	if err != nil {
		return 0, false
	}
	var res uint64
	found := false
	for _, d := range f.Decls {
		fd, ok := d.(*ast.FuncDecl)
		if !ok || fd.Name.Name != fn || fd.Body == nil {
			continue
		}
		k := 0
		ast.Inspect(fd.Body, func(n ast.Node) bool {
			if found {
				return false
			}
			if bl, ok := n.(*ast.BasicLit); ok && bl.Kind == token.INT {
				v := constant.MakeFromLiteral(bl.Value, token.INT, 0)
				if u, ok := constant.Uint64Val(v); ok && u >= min {
					if k == nth {
						res, found = u, true
						return false
					}
					k++
				}
			}
			return true
		})
	}
	return res, found
}
