// c03: snapshots and iterators are frozen views — programs with many live snapshots and pinned iterators
// interleaved with overwrites, deletes, flushes and compactions; (K) every observed table compaction is
// recomputed by the model (merge, drop rule with the logged minSeq, base-level test) and certified.
package main

import (
	"verifharness/lib/dbh"
	"verifharness/lib/vlib"
)

func main() {
	w := dbh.DefaultWeights()
	w.Snap, w.SnapRead, w.SnapRelease = 10, 12, 5
	w.IterOpen, w.IterStep, w.IterClose = 3, 10, 2
	w.Compact, w.Delete, w.Reopen, w.Txn = 6, 25, 1, 1
	dbh.Main(dbh.MainCfg{
		Property:   "C03",
		Rule:       "random DB programs with up to 12 simultaneously live snapshots and 4 pinned iterators at random positions between overwrites and deletes of the same keys, interleaved with forced flushes and CompactRange; each snapshot keeps a frozen copy of the Go map and is compared (all pool keys + full scan) at every snapshot read, at checkpoints and before release; pinned iterators are stepped between compactions and compared with their creation-time list; non-trivial = a table compaction ran while >=1 snapshot was live",
		Header:     "From GL Require Import Corr.C03Run.",
		QuickProgs: 240, QuickOps: 320, ThorProgs: 2000, ThorOps: 1200,
		Weights: w, CheckEvery: 8,
		KPrefixes: []string{"KCompact"}, KCapQuick: 200, KCapThor: 900, KPerRun: 6,
		NonTrivial: func(s map[string]int) bool { return s["table_compactions"] >= 1 && s["op_snap"] >= 1 },
		TweakCfg: func(r *vlib.RNG, c *dbh.Cfg) {
			if c.WriteBuffer > 8192 {
				c.WriteBuffer = 4096
			}
		},
	})
}
