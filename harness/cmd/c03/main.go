// c03: snapshots and iterators are frozen views — programs with many live snapshots and pinned iterators
// interleaved with overwrites, deletes, flushes and compactions; (K) every observed table compaction is
// recomputed by the model (merge, drop rule with the logged minSeq, base-level test) and certified.
package main

import (
	"fmt"
	"strings"
	"sync"
	"sync/atomic"

	"verifharness/lib/dbh"
	"verifharness/lib/vlib"
)

func main() {
	w := dbh.DefaultWeights()
	w.Snap, w.SnapRead, w.SnapRelease = 10, 12, 5
	w.IterOpen, w.IterStep, w.IterClose = 3, 10, 2
	w.Compact, w.Delete, w.Reopen, w.Txn = 6, 25, 1, 1
	dbh.Main(dbh.MainCfg{
		Property:   "C03",
		Rule:       "random DB programs with up to 12 simultaneously live snapshots and 4 pinned iterators at random positions between overwrites and deletes of the same keys, interleaved with forced flushes and CompactRange; each snapshot keeps a frozen copy of the Go map and is compared (all pool keys + full scan) at every snapshot read, at checkpoints and before release; pinned iterators are stepped between compactions and compared with their creation-time list; every fifth program runs under the non-injective ASCII-case-insensitive comparer (several spellings per user key; oracle, frozen copies and iterator lists keyed by equivalence class and showing the spelling of the newest visible Put; bloom filter off); non-trivial = a table compaction ran while >=1 snapshot was live; plus deep-tree scenarios (3+ levels, Delete waves over values two or more levels down, one compaction retried under a single transient table fault, with a snapshot taken after the deletions: every deleted key stays not-found, the snapshot stays frozen)",
		Header:     "From GL Require Import Corr.C03Run.",
		QuickProgs: 560, QuickOps: 320, ThorProgs: 2000, ThorOps: 1200,
		Weights: w, CheckEvery: 8, ClassCmp: true,
		KPrefixes: []string{"KCompact"}, KCapQuick: 200, KCapThor: 900, KPerRun: 6,
		NonTrivial: func(s map[string]int) bool { return s["table_compactions"] >= 1 && s["op_snap"] >= 1 },
		Directed: func(r *vlib.RNG, i int) *dbh.Program {
			if i%24 != 3 {
				return nil
			}
			return longHeld(r)
		},
		TweakCfg: func(r *vlib.RNG, c *dbh.Cfg) {
			if c.WriteBuffer > 8192 {
				c.WriteBuffer = 4096
			}
		},
		ReplayOther: replayDeep,
		Post:        deepFamily,
	})
}

// deepFamily: "a snapshot is a frozen view" across a RETRIED table compaction.  dbh.RunDeep builds three or more levels,
// issues waves of Deletes whose markers end up above values stored two or more levels further down, takes a snapshot
// (the markers are then at or below the smallest live sequence number, i.e. droppable as soon as the compaction believes
// that nothing lies below), writes a little more, and runs DB.CompactRange under ONE transient table write/sync/create
// fault; the builder is re-run from its last snapshot of its own state.  Afterwards, and again after a final fault-free
// range compaction, the snapshot must show exactly what it showed when it was taken (all keys + full scan), and so must
// the live view with respect to the oracle.
func deepFamily(a vlib.Args, res *vlib.Result) {
	n := 48
	if a.Thorough() {
		n = 800
	} else if strings.Contains(a.Extra, "search") {
		n = 200
	}
	// consecutive seeds give vlib.NewRNG consecutive splitmix states (the same stream shifted by one): spread them first
	root := vlib.NewRNG((a.Seed + 0xc03d) * 0x2545f4914f6cdd1d)
	jobs := make(chan dbh.DeepSpec)
	var wg sync.WaitGroup
	var nFail int32
	for w := 0; w < 16; w++ {
		wg.Add(1)
		go func() {
			defer wg.Done()
			for ds := range jobs {
				dr := dbh.RunDeep(ds, false)
				res.Eval(fmt.Sprintf("deep-%d", ds.DeepSeed), dr.Stats["deep_compaction_fault_hits"] > 0)
				res.Count("deep_scenarios", 1)
				for k, v := range dr.Stats {
					res.Count(k, v)
				}
				if dr.Failure != "" {
					res.Count("deep_scenarios_failed", 1)
					if atomic.AddInt32(&nFail, 1) <= 4 {
						res.Violate(dr.Failure+fmt.Sprintf(" [deep-tree scenario seed %d]", ds.DeepSeed), ds)
					}
				}
			}
		}()
	}
	for i := 0; i < n && atomic.LoadInt32(&nFail) < 4; i++ {
		jobs <- dbh.DeepSpec{DeepSeed: root.Uint64() >> 1, Snapshot: true, NoDrive: true}
	}
	close(jobs)
	wg.Wait()
}

func replayDeep(path string, res *vlib.Result) bool {
	ds, ok := dbh.LoadDeepSpec(path)
	if !ok {
		return false
	}
	for i := 0; i < 3; i++ {
		res.Eval(fmt.Sprintf("deep-replay%d", i), true)
		if dr := dbh.RunDeep(*ds, false); dr.Failure != "" {
			fmt.Println("replay fails:", dr.Failure)
			res.Violate(dr.Failure, ds)
			return true
		}
	}
	fmt.Println("replay passes")
	return true
}

// longHeld: "however long it is held" — an iterator (and a snapshot) created over a multi-table tree, parked on its
// first entries while far more than 256 later versions are installed (the reference loop converts versions that old
// from delta bookkeeping to per-file references), then walked to the end: every entry must still be the creation-time one.
func longHeld(r *vlib.RNG) *dbh.Program {
	cfg := dbh.DefaultishCfg()
	// level 1 may hold everything (no size-triggered moves to level 2 racing with the iterator's creation)
	cfg.WriteBuffer, cfg.TableSize, cfg.TotalSize, cfg.L0Trigger = 4096, 1024, 1<<20, 4
	// no seek-triggered compactions: the reads of the periodic checks must not start the compaction before the iterator exists
	cfg.DisableSeeks = true
	var pool []dbh.HexBytes
	for i := 0; i < 150; i++ {
		pool = append(pool, []byte(fmt.Sprintf("lh%04d", i*7)))
	}
	p := &dbh.Program{Cfg: cfg, Pool: pool}
	val := func(tag int) dbh.HexBytes {
		v := []byte(fmt.Sprintf("%d:", tag))
		for len(v) < 60+tag%50 {
			v = append(v, byte('a'+len(v)%26))
		}
		return v
	}
	tag := 0
	for _, k := range pool {
		tag++
		p.Ops = append(p.Ops, dbh.Op{Kind: dbh.OpPut, K: k, V: val(tag)})
	}
	p.Ops = append(p.Ops, dbh.Op{Kind: dbh.OpCompact})
	for i := 0; i < 12; i++ {
		tag++
		p.Ops = append(p.Ops, dbh.Op{Kind: dbh.OpPut, K: pool[r.Intn(len(pool))], V: val(tag)})
	}
	// reopen: the journal is flushed into a level-0 table by the recovery and the write buffer is empty, so the first
	// version installed after the iterator exists is the table compaction below (it deletes tables the iterator
	// has not opened yet), not a flush
	if r.Chance(3, 4) {
		p.Ops = append(p.Ops, dbh.Op{Kind: dbh.OpReopen})
	}
	p.Ops = append(p.Ops, dbh.Op{Kind: dbh.OpWaitIdle}, dbh.Op{Kind: dbh.OpSnap}, dbh.Op{Kind: dbh.OpIterOpen}, dbh.Op{Kind: dbh.OpIterStep}, dbh.Op{Kind: dbh.OpCompact})
	rounds := r.Range(150, 190)
	for i := 0; i < rounds; i++ {
		tag++
		k := pool[r.Intn(len(pool))]
		if r.Chance(1, 4) {
			p.Ops = append(p.Ops, dbh.Op{Kind: dbh.OpDelete, K: k})
		} else {
			p.Ops = append(p.Ops, dbh.Op{Kind: dbh.OpPut, K: k, V: val(tag)})
		}
		p.Ops = append(p.Ops, dbh.Op{Kind: dbh.OpCompact})
	}
	for i := 0; i < 55; i++ {
		p.Ops = append(p.Ops, dbh.Op{Kind: dbh.OpIterStep})
	}
	p.Ops = append(p.Ops, dbh.Op{Kind: dbh.OpSnapRead}, dbh.Op{Kind: dbh.OpIterClose}, dbh.Op{Kind: dbh.OpSnapRelease}, dbh.Op{Kind: dbh.OpCheckAll})
	return p
}
