// c03: snapshots and iterators are frozen views — programs with many live snapshots and pinned iterators
// interleaved with overwrites, deletes, flushes and compactions; (K) every observed table compaction is
// recomputed by the model (merge, drop rule with the logged minSeq, base-level test) and certified.
package main

import (
	"fmt"

	"verifharness/lib/dbh"
	"verifharness/lib/vlib"
)

func main() {
	w := dbh.DefaultWeights()
	w.Snap, w.SnapRead, w.SnapRelease = 10, 12, 5
	w.IterOpen, w.IterStep, w.IterClose = 3, 10, 2
	w.Compact, w.Delete, w.Reopen, w.Txn = 6, 25, 1, 1
	dbh.Main(dbh.MainCfg{
		Property:   "C03",
		Rule:       "random DB programs with up to 12 simultaneously live snapshots and 4 pinned iterators at random positions between overwrites and deletes of the same keys, interleaved with forced flushes and CompactRange; each snapshot keeps a frozen copy of the Go map and is compared (all pool keys + full scan) at every snapshot read, at checkpoints and before release; pinned iterators are stepped between compactions and compared with their creation-time list; every fifth program runs under the non-injective ASCII-case-insensitive comparer (several spellings per user key; oracle, frozen copies and iterator lists keyed by equivalence class and showing the spelling of the newest visible Put; bloom filter off); non-trivial = a table compaction ran while >=1 snapshot was live",
		Header:     "From GL Require Import Corr.C03Run.",
		QuickProgs: 560, QuickOps: 320, ThorProgs: 2000, ThorOps: 1200,
		Weights: w, CheckEvery: 8, ClassCmp: true,
		KPrefixes: []string{"KCompact"}, KCapQuick: 200, KCapThor: 900, KPerRun: 6,
		NonTrivial: func(s map[string]int) bool { return s["table_compactions"] >= 1 && s["op_snap"] >= 1 },
		Directed: func(r *vlib.RNG, i int) *dbh.Program {
			if i%24 != 3 {
				return nil
			}
			return longHeld(r)
		},
		TweakCfg: func(r *vlib.RNG, c *dbh.Cfg) {
			if c.WriteBuffer > 8192 {
				c.WriteBuffer = 4096
			}
		},
	})
}

// longHeld: "however long it is held" — an iterator (and a snapshot) created over a multi-table tree, parked on its
// first entries while far more than 256 later versions are installed (the reference loop converts versions that old
// from delta bookkeeping to per-file references), then walked to the end: every entry must still be the creation-time one.
func longHeld(r *vlib.RNG) *dbh.Program {
	cfg := dbh.DefaultishCfg()
	// level 1 may hold everything (no size-triggered moves to level 2 racing with the iterator's creation)
	cfg.WriteBuffer, cfg.TableSize, cfg.TotalSize, cfg.L0Trigger = 4096, 1024, 1<<20, 4
	// no seek-triggered compactions: the reads of the periodic checks must not start the compaction before the iterator exists
	cfg.DisableSeeks = true
	var pool []dbh.HexBytes
	for i := 0; i < 150; i++ {
		pool = append(pool, []byte(fmt.Sprintf("lh%04d", i*7)))
	}
	p := &dbh.Program{Cfg: cfg, Pool: pool}
	val := func(tag int) dbh.HexBytes {
		v := []byte(fmt.Sprintf("%d:", tag))
		for len(v) < 60+tag%50 {
			v = append(v, byte('a'+len(v)%26))
		}
		return v
	}
	tag := 0
	for _, k := range pool {
		tag++
		p.Ops = append(p.Ops, dbh.Op{Kind: dbh.OpPut, K: k, V: val(tag)})
	}
	p.Ops = append(p.Ops, dbh.Op{Kind: dbh.OpCompact})
	for i := 0; i < 12; i++ {
		tag++
		p.Ops = append(p.Ops, dbh.Op{Kind: dbh.OpPut, K: pool[r.Intn(len(pool))], V: val(tag)})
	}
	// reopen: the journal is flushed into a level-0 table by the recovery and the write buffer is empty, so the first
	// version installed after the iterator exists is the table compaction below (it deletes tables the iterator
	// has not opened yet), not a flush
	if r.Chance(3, 4) {
		p.Ops = append(p.Ops, dbh.Op{Kind: dbh.OpReopen})
	}
	p.Ops = append(p.Ops, dbh.Op{Kind: dbh.OpWaitIdle}, dbh.Op{Kind: dbh.OpSnap}, dbh.Op{Kind: dbh.OpIterOpen}, dbh.Op{Kind: dbh.OpIterStep}, dbh.Op{Kind: dbh.OpCompact})
	rounds := r.Range(150, 190)
	for i := 0; i < rounds; i++ {
		tag++
		k := pool[r.Intn(len(pool))]
		if r.Chance(1, 4) {
			p.Ops = append(p.Ops, dbh.Op{Kind: dbh.OpDelete, K: k})
		} else {
			p.Ops = append(p.Ops, dbh.Op{Kind: dbh.OpPut, K: k, V: val(tag)})
		}
		p.Ops = append(p.Ops, dbh.Op{Kind: dbh.OpCompact})
	}
	for i := 0; i < 55; i++ {
		p.Ops = append(p.Ops, dbh.Op{Kind: dbh.OpIterStep})
	}
	p.Ops = append(p.Ops, dbh.Op{Kind: dbh.OpSnapRead}, dbh.Op{Kind: dbh.OpIterClose}, dbh.Op{Kind: dbh.OpSnapRelease}, dbh.Op{Kind: dbh.OpCheckAll})
	return p
}
