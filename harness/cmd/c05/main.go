// c05: concurrent use is linearizable; readers see consistent cuts.
//
// (P) stress runs of the real DB (one DB at a time per process: the hooks are process-wide): 2-16 writers whose
// batches set the same counter on the 4 keys of a group (+ a per-writer progress key), point readers, snapshot
// takers, iterator users, a transaction user, tiny write buffer / table size so that rotations, flushes and
// compactions happen constantly, GOMAXPROCS in {1,2,4,16}, the verifYield windows stretched under a seeded
// policy.  Every read is compared with the state at ITS OWN linearisation point: the oracle is the totally ordered
// log of committed entries reconstructed from a copy of the write-ahead journal (every journal record carries the
// sequence number of its first entry) plus the transactions' sequence ranges (event 509).
// (K) trace inclusion: small runs of the same workload with the event hooks 500-509 recorded under one mutex;
// the trace must be accepted by the LTS Conc/ReadCut.v inside Coq; negative controls must be refused.
package main

import (
	"bytes"
	"encoding/json"
	"fmt"
	"os"
	"os/exec"
	"path/filepath"
	"runtime"
	"sort"
	"strings"
	"sync"
	"sync/atomic"
	"time"

	"github.com/syndtr/goleveldb/leveldb"
	"github.com/syndtr/goleveldb/leveldb/opt"
	"github.com/syndtr/goleveldb/leveldb/storage"
	"github.com/syndtr/goleveldb/leveldb/util"
	"verifharness/lib/vlib"
)

const rule = "stress runs (writers x point readers x snapshot takers x iterator users x transaction user; write buffer 150 B-4 KiB, table size 512 B-2 KiB; GOMAXPROCS 1/2/4/16; yield windows 1-6 and events 507/508 stretched one at a time, then at random); every Get / snapshot view / iterator scan compared with the journal-derived state at its own sequence number (snapshots: exact; Get, iterators: some published seq between the seq before and after the call); non-trivial = a read during whose stretched window (between two of its three acquisition steps) a rotation, a version install or a frozen-buffer drop took place, plus traced reader sessions with such an event between their KRSeq/KRMems/KRVer"

// ------------------------------------------------------------------ keys and values

func gkey(g, i int) []byte { return []byte{'g', byte('a' + g), byte('0' + i)} }
func pkey(w int) []byte    { return []byte{'p', byte('A' + w)} }
func zkey(w int) []byte    { return []byte{'z', byte('A' + w)} }
func mkval(w int, c uint32) []byte {
	return []byte{byte(w), byte(c >> 16), byte(c >> 8), byte(c)}
}
func parseVal(v []byte) (w int, c uint32, ok bool) {
	if len(v) != 4 {
		return 0, 0, false
	}
	return int(v[0]), uint32(v[1])<<16 | uint32(v[2])<<8 | uint32(v[3]), true
}

// ------------------------------------------------------------------ run configuration

type runCfg struct {
	Seed        seedT  `json:"seed"`
	Procs       int    `json:"gomaxprocs"`
	Writers     int    `json:"writers"`
	Getters     int    `json:"getters"`
	Snappers    int    `json:"snappers"`
	Iters       int    `json:"iters"`
	Txn         bool   `json:"txn"`
	Compactor   bool   `json:"compactor"` // a goroutine calling CompactRange
	Groups      int    `json:"groups"`
	WriteBuffer int    `json:"write_buffer"`
	TableSize   int    `json:"table_size"`
	L0Trigger   int    `json:"l0_trigger"`
	NoMerge     bool   `json:"no_merge"`
	BigEvery    int    `json:"big_every"` // every n-th batch exceeds the write buffer (transaction path), 0 = never
	Focus       int    `json:"focus"`     // window stretched: 0 random, -1 none, else 1,2,3,4(=507),5,6,8(=508)
	ProbDen     int    `json:"prob_den"`  // a matching window is stretched with probability 1/ProbDen
	Gosched     bool   `json:"gosched"`
	DurMs       int    `json:"dur_ms"`  // stress: duration
	Batches     int    `json:"batches"` // traced: batches per writer (0 = run for DurMs)
	Reads       int    `json:"reads"`   // traced: sessions per reader
	Trace       bool   `json:"trace"`
}

// seedT travels through JSON as a decimal string (float64 round trips would lose its low bits).
type seedT uint64

func (s seedT) MarshalJSON() ([]byte, error) { return []byte(fmt.Sprintf("\"%d\"", uint64(s))), nil }
func (s *seedT) UnmarshalJSON(b []byte) error {
	var v uint64
	_, err := fmt.Sscanf(strings.Trim(string(b), "\""), "%d", &v)
	if err != nil {
		var f float64
		if _, err2 := fmt.Sscanf(string(b), "%g", &f); err2 != nil {
			return err
		}
		v = uint64(f)
	}
	*s = seedT(v)
	return nil
}

var windows = []int{1, 2, 3, 4, 5, 6, 8}

func stressCfg(r *vlib.RNG, idx int) runCfg {
	c := runCfg{Seed: seedT(r.Uint64()), DurMs: 500}
	c.Procs = []int{1, 2, 4, 16}[r.Intn(4)]
	c.Writers = []int{2, 3, 4, 8, 16}[r.Intn(5)]
	c.Getters = r.Range(2, 6)
	c.Snappers = r.Range(1, 3)
	c.Iters = r.Range(1, 3)
	c.Txn = r.Chance(2, 3)
	c.Compactor = r.Chance(1, 3)
	c.Groups = r.Range(2, 6)
	c.WriteBuffer = []int{300, 600, 1200, 4096}[r.Intn(4)]
	c.TableSize = []int{512, 1024, 2048}[r.Intn(3)]
	c.L0Trigger = []int{2, 4}[r.Intn(2)]
	c.NoMerge = r.Chance(1, 4)
	if r.Chance(1, 2) {
		c.BigEvery = r.Range(40, 400)
	}
	if idx < len(windows) {
		c.Focus = windows[idx]
	} else if r.Chance(1, 8) {
		c.Focus = -1
	} else if r.Chance(1, 2) {
		c.Focus = windows[r.Intn(len(windows))]
	}
	c.ProbDen = []int{2, 4, 8, 32}[r.Intn(4)]
	c.Gosched = r.Chance(1, 3)
	return c
}

func traceCfg(r *vlib.RNG, idx int) runCfg {
	c := runCfg{Seed: seedT(r.Uint64()), Trace: true}
	c.Procs = []int{1, 2, 4, 16}[idx%4]
	c.Writers = r.Range(2, 3)
	c.Getters = r.Range(1, 2)
	c.Snappers = 1
	c.Iters = 1
	c.Txn = r.Chance(1, 2)
	c.Compactor = r.Chance(1, 4)
	c.Groups = 2
	c.WriteBuffer = r.Range(150, 500)
	c.TableSize = 512
	c.L0Trigger = 2
	c.NoMerge = r.Chance(1, 4)
	if r.Chance(1, 3) {
		c.BigEvery = 5
	}
	c.Focus = windows[idx%len(windows)]
	if r.Chance(1, 3) {
		c.Focus = 0
	}
	c.ProbDen = 2
	c.Gosched = r.Chance(1, 4)
	c.Batches = r.Range(3, 5)
	c.Reads = r.Range(2, 3)
	return c
}

// ------------------------------------------------------------------ hooks: yield policy, epochs

type hooks struct {
	cfg   runCfg
	ctr   uint64
	rot   uint64
	inst  uint64
	drop  uint64
	sep   [4][3]uint64 // [yield point][rot/inst/drop]: reads whose window contained such an event
	sepN  uint64
	tr    *tracer
	txnMu sync.Mutex
	txnBy map[uint64]*txnRec
}

func mix(x uint64) uint64 {
	x += 0x9e3779b97f4a7c15
	x = (x ^ (x >> 30)) * 0xbf58476d1ce4e5b9
	x = (x ^ (x >> 27)) * 0x94d049bb133111eb
	return x ^ (x >> 31)
}

func (h *hooks) stretch(window int) {
	f := h.cfg.Focus
	if f == -1 {
		return
	}
	x := mix(uint64(h.cfg.Seed) + atomic.AddUint64(&h.ctr, 1))
	if f != 0 && f != window {
		if x%97 != 0 {
			return
		}
	} else if x%uint64(h.cfg.ProbDen) != 0 {
		return
	}
	y := x >> 24
	if h.cfg.Gosched {
		n := 1 + int(y%24)
		for i := 0; i < n; i++ {
			runtime.Gosched()
		}
	} else {
		time.Sleep(time.Duration(50+y%450) * time.Microsecond)
	}
}

func (h *hooks) yield(p int) {
	if p >= 1 && p <= 3 {
		r0, i0, d0 := atomic.LoadUint64(&h.rot), atomic.LoadUint64(&h.inst), atomic.LoadUint64(&h.drop)
		h.stretch(p)
		r1, i1, d1 := atomic.LoadUint64(&h.rot), atomic.LoadUint64(&h.inst), atomic.LoadUint64(&h.drop)
		any := false
		if r1 != r0 {
			atomic.AddUint64(&h.sep[p][0], 1)
			any = true
		}
		if i1 != i0 {
			atomic.AddUint64(&h.sep[p][1], 1)
			any = true
		}
		if d1 != d0 {
			atomic.AddUint64(&h.sep[p][2], 1)
			any = true
		}
		if any {
			atomic.AddUint64(&h.sepN, 1)
		}
		return
	}
	h.stretch(p)
}

func (h *hooks) event(kind int, a, b uint64) {
	if h.tr != nil && kind >= 500 && kind <= 509 {
		h.tr.record(kind, a, b)
	}
	switch kind {
	case leveldb.VerifEvCutSetVersion:
		atomic.AddUint64(&h.inst, 1)
	case leveldb.VerifEvCutRotate:
		atomic.AddUint64(&h.rot, 1)
	case leveldb.VerifEvCutDrop:
		atomic.AddUint64(&h.drop, 1)
	case leveldb.VerifEvCutInserted:
		h.stretch(4)
	case leveldb.VerifEvCutPublished:
		h.stretch(8)
	case leveldb.VerifEvCutSetSeq:
		g := goid()
		h.txnMu.Lock()
		if t := h.txnBy[g]; t != nil {
			t.hi = a
		}
		h.txnMu.Unlock()
	}
}

// ------------------------------------------------------------------ observations

type txnRec struct {
	recs []orec // in write order, seq filled once hi is known
	hi   uint64
}

type wrec struct {
	c             uint32
	g             int
	del           bool
	before, after uint64
}

type obsGet struct {
	key           string
	val           []byte
	before, after uint64
	dv            []uint32
}

type obsHas struct {
	key           string
	has           bool
	before, after uint64
	dv            []uint32
}

type obsView struct {
	what          string // "snapshot" | "snapshot-iterator" | "iterator"
	exact         bool
	s             uint64
	before, after uint64
	dv            []uint32
	view          map[string][]byte
	partial       []string // keys read (nil = full scan)
}

type violation struct {
	Desc string      `json:"desc"`
	Case interface{} `json:"case"`
}

type runner struct {
	cfg    runCfg
	db     *leveldb.DB
	jc     *jcapStorage
	h      *hooks
	stop   int32
	nw     int // writer ids 0..nw-1 (the transaction user is nw-1 when cfg.Txn)
	done   []uint32
	wlogs  [][]wrec
	gets   [][]obsGet
	hass   [][]obsHas
	views  [][]obsView
	txns   []*txnRec
	mu     sync.Mutex
	viols  []violation
	counts map[string]int
	keys   []string // universe of group and progress keys
}

func (r *runner) violate(desc string, detail interface{}) {
	r.mu.Lock()
	if len(r.viols) < 6 {
		r.viols = append(r.viols, violation{desc, map[string]interface{}{"cfg": r.cfg, "detail": detail}})
	}
	r.mu.Unlock()
}

func (r *runner) count(k string, n int) {
	r.mu.Lock()
	r.counts[k] += n
	r.mu.Unlock()
}

func (r *runner) stopped() bool { return atomic.LoadInt32(&r.stop) != 0 }

func (r *runner) doneVec() []uint32 {
	dv := make([]uint32, r.nw)
	for i := range dv {
		dv[i] = atomic.LoadUint32(&r.done[i])
	}
	return dv
}

func hexs(b []byte) string {
	if b == nil {
		return "absent"
	}
	return fmt.Sprintf("%x", b)
}

// checkView: oracle-free checks on one consistent view: (i) the 4 keys of a group carry the same value,
// (ii) a group value (w,c) implies progress of w >= c, (iv) progress of w >= what w had completed before the read.
func (r *runner) checkView(what string, view map[string][]byte, dv []uint32, full bool, s uint64) {
	for g := 0; g < r.cfg.Groups; g++ {
		v0, have0 := view[string(gkey(g, 0))]
		_ = have0
		for i := 1; i < 4; i++ {
			vi := view[string(gkey(g, i))]
			if !bytes.Equal(v0, vi) {
				r.violate(fmt.Sprintf("%s at seq %d sees part of a batch: group %d key 0 = %s, key %d = %s", what, s, g, hexs(v0), i, hexs(vi)),
					map[string]interface{}{"view": viewJSON(view), "seq": s})
				return
			}
		}
		if w, c, ok := parseVal(v0); ok && w < r.nw {
			pw, pc, pok := parseVal(view[string(pkey(w))])
			if !pok || pw != w || pc < c {
				r.violate(fmt.Sprintf("%s at seq %d sees writer %d's batch %d in group %d but its progress key says %s", what, s, w, c, g, hexs(view[string(pkey(w))])),
					map[string]interface{}{"view": viewJSON(view), "seq": s})
				return
			}
		}
	}
	if full {
		for w := 0; w < r.nw; w++ {
			if dv[w] == 0 {
				continue
			}
			_, pc, pok := parseVal(view[string(pkey(w))])
			if !pok || pc < dv[w] {
				r.violate(fmt.Sprintf("%s at seq %d started after writer %d's batch %d had returned but sees progress %s", what, s, w, dv[w], hexs(view[string(pkey(w))])),
					map[string]interface{}{"view": viewJSON(view), "seq": s, "completed_before": dv})
				return
			}
		}
	}
}

func viewJSON(v map[string][]byte) map[string]string {
	out := map[string]string{}
	for k, x := range v {
		out[k] = hexs(x)
	}
	return out
}

// ------------------------------------------------------------------ workers

func (r *runner) guard(name string, wg *sync.WaitGroup, f func()) {
	wg.Add(1)
	go func() {
		defer wg.Done()
		defer func() {
			if x := recover(); x != nil {
				buf := make([]byte, 2048)
				n := runtime.Stack(buf, false)
				r.violate(fmt.Sprintf("panic in %s: %v", name, x), string(buf[:n]))
				atomic.StoreInt32(&r.stop, 1)
			}
		}()
		f()
	}()
}

func (r *runner) writer(w int, rng *vlib.RNG) {
	if r.h.tr != nil {
		r.h.tr.register(role{reader: false, id: w})
	}
	gid := goid()
	var c uint32
	junk := bytes.Repeat([]byte{0x5a}, r.cfg.WriteBuffer+32)
	for !r.stopped() && (r.cfg.Batches == 0 || int(c) < r.cfg.Batches) {
		c++
		g := rng.Intn(r.cfg.Groups)
		del := rng.Chance(1, 8)
		big := r.cfg.BigEvery > 0 && rng.Intn(r.cfg.BigEvery) == 0
		b := new(leveldb.Batch)
		var recs []orec
		for i := 0; i < 4; i++ {
			if del {
				b.Delete(gkey(g, i))
				recs = append(recs, orec{del: true, key: string(gkey(g, i))})
			} else {
				b.Put(gkey(g, i), mkval(w, c))
				recs = append(recs, orec{key: string(gkey(g, i)), val: mkval(w, c)})
			}
		}
		if big {
			b.Put(zkey(w), junk)
			recs = append(recs, orec{key: string(zkey(w)), val: junk})
		}
		b.Put(pkey(w), mkval(w, c))
		recs = append(recs, orec{key: string(pkey(w)), val: mkval(w, c)})
		tp := &txnRec{recs: recs}
		if big {
			r.h.txnMu.Lock()
			r.h.txnBy[gid] = tp
			r.h.txnMu.Unlock()
		}
		rec := wrec{c: c, g: g, del: del, before: leveldb.VerifSeq(r.db)}
		err := r.db.Write(b, nil)
		rec.after = leveldb.VerifSeq(r.db)
		if big {
			r.h.txnMu.Lock()
			delete(r.h.txnBy, gid)
			r.h.txnMu.Unlock()
			if tp.hi != 0 {
				r.mu.Lock()
				r.txns = append(r.txns, tp)
				r.counts["large_batch_txn"]++
				r.mu.Unlock()
			}
		}
		if err != nil {
			r.violate(fmt.Sprintf("Write failed: %v", err), nil)
			return
		}
		atomic.StoreUint32(&r.done[w], c)
		r.wlogs[w] = append(r.wlogs[w], rec)
		if r.cfg.Trace {
			time.Sleep(time.Duration(rng.Intn(300)) * time.Microsecond)
		}
	}
}

func (r *runner) txnUser(w int, rng *vlib.RNG) {
	if r.h.tr != nil {
		r.h.tr.register(role{reader: false, id: w})
	}
	gid := goid()
	var c uint32
	for !r.stopped() && (r.cfg.Batches == 0 || int(c) < 1) {
		if r.cfg.Batches == 0 {
			time.Sleep(time.Duration(2+rng.Intn(12)) * time.Millisecond)
		} else {
			time.Sleep(time.Duration(rng.Intn(500)) * time.Microsecond)
		}
		c++
		g := rng.Intn(r.cfg.Groups)
		rec := wrec{c: c, g: g, before: leveldb.VerifSeq(r.db)}
		tr, err := r.db.OpenTransaction()
		if err != nil {
			r.violate(fmt.Sprintf("OpenTransaction failed: %v", err), nil)
			return
		}
		var recs []orec
		for i := 0; i < 4; i++ {
			if err := tr.Put(gkey(g, i), mkval(w, c), nil); err != nil {
				r.violate(fmt.Sprintf("Transaction.Put failed: %v", err), nil)
				tr.Discard()
				return
			}
			recs = append(recs, orec{key: string(gkey(g, i)), val: mkval(w, c)})
		}
		tr.Put(pkey(w), mkval(w, c), nil)
		recs = append(recs, orec{key: string(pkey(w)), val: mkval(w, c)})
		tp := &txnRec{recs: recs}
		r.h.txnMu.Lock()
		r.h.txnBy[gid] = tp
		r.h.txnMu.Unlock()
		err = tr.Commit()
		rec.after = leveldb.VerifSeq(r.db)
		r.h.txnMu.Lock()
		delete(r.h.txnBy, gid)
		r.h.txnMu.Unlock()
		if err != nil {
			r.violate(fmt.Sprintf("Transaction.Commit failed: %v", err), nil)
			tr.Discard()
			return
		}
		if tp.hi == 0 {
			r.violate("Transaction.Commit returned without setting db.seq (no event 509)", nil)
			return
		}
		r.mu.Lock()
		r.txns = append(r.txns, tp)
		r.counts["transactions"]++
		r.mu.Unlock()
		atomic.StoreUint32(&r.done[w], c)
		r.wlogs[w] = append(r.wlogs[w], rec)
	}
}

// compactor calls CompactRange over everything: takes the write lock, rotates the memdb, forces table
// compactions while snapshots and iterators are alive.  It writes nothing (role id beyond the writers).
func (r *runner) compactor(id int, rng *vlib.RNG) {
	if r.h.tr != nil {
		r.h.tr.register(role{reader: false, id: id})
	}
	n := 0
	for !r.stopped() && (r.cfg.Batches == 0 || n < 1) {
		n++
		if r.cfg.Batches == 0 {
			time.Sleep(time.Duration(5+rng.Intn(40)) * time.Millisecond)
		} else {
			time.Sleep(time.Duration(300+rng.Intn(1500)) * time.Microsecond)
		}
		if r.stopped() {
			return
		}
		if err := r.db.CompactRange(util.Range{}); err != nil {
			r.violate(fmt.Sprintf("CompactRange failed: %v", err), nil)
			return
		}
		r.count("compact_range_calls", 1)
	}
}

func (r *runner) getter(id, slot int, rng *vlib.RNG) {
	tr := r.h.tr
	if tr != nil {
		tr.register(role{reader: true, id: id})
	}
	lastProg := make([]uint32, r.nw)
	lastSame := map[string]uint32{} // key+writer -> counter
	n := 0
	for !r.stopped() && (r.cfg.Reads == 0 || n < r.cfg.Reads*3) {
		n++
		var key []byte
		if rng.Chance(1, 3) {
			key = pkey(rng.Intn(r.nw))
		} else {
			key = gkey(rng.Intn(r.cfg.Groups), rng.Intn(4))
		}
		dv := r.doneVec()
		if tr == nil && rng.Chance(1, 8) {
			// Has: same read path, presence only
			before := leveldb.VerifSeq(r.db)
			has, err := r.db.Has(key, nil)
			after := leveldb.VerifSeq(r.db)
			if err != nil {
				r.violate(fmt.Sprintf("Has failed: %v", err), nil)
				return
			}
			if len(r.hass[slot]) < 100000 {
				r.hass[slot] = append(r.hass[slot], obsHas{string(key), has, before, after, dv})
			}
			continue
		}
		before := leveldb.VerifSeq(r.db)
		v, err := r.db.Get(key, nil)
		after := leveldb.VerifSeq(r.db)
		if err != nil && err != leveldb.ErrNotFound {
			r.violate(fmt.Sprintf("Get failed: %v", err), nil)
			return
		}
		if err == leveldb.ErrNotFound {
			v = nil
		}
		if tr != nil {
			tr.noteGet(string(key), v, err == nil)
			tr.note(evDone, "", nil, false)
		}
		// oracle-free checks: progress keys and same-writer values never go back for one reader; real time
		if key[0] == 'p' {
			w := int(key[1] - 'A')
			_, c, ok := parseVal(v)
			if (!ok && (dv[w] > 0 || lastProg[w] > 0)) || (ok && (c < dv[w] || c < lastProg[w])) {
				r.violate(fmt.Sprintf("Get(progress of writer %d) = %s after this reader saw %d and the writer had completed %d before the call", w, hexs(v), lastProg[w], dv[w]),
					map[string]interface{}{"key": string(key), "seq_before": before, "seq_after": after})
				return
			}
			if ok {
				lastProg[w] = c
			}
		} else if w, c, ok := parseVal(v); ok {
			k := string(key) + string(rune('A'+w))
			if c < lastSame[k] {
				r.violate(fmt.Sprintf("Get(%s) went back in time: writer %d's batch %d after its batch %d", key, w, c, lastSame[k]),
					map[string]interface{}{"key": string(key), "seq_before": before, "seq_after": after})
				return
			}
			lastSame[k] = c
		}
		if len(r.gets[slot]) < 400000 {
			r.gets[slot] = append(r.gets[slot], obsGet{string(key), v, before, after, dv})
		}
		if r.cfg.Trace {
			time.Sleep(time.Duration(rng.Intn(400)) * time.Microsecond)
		}
	}
}

func (r *runner) readKeys(get func(k []byte) ([]byte, error), keys []string, note bool) (map[string][]byte, bool) {
	view := map[string][]byte{}
	for _, k := range keys {
		v, err := get([]byte(k))
		if err != nil && err != leveldb.ErrNotFound {
			r.violate(fmt.Sprintf("snapshot Get failed: %v", err), nil)
			return nil, false
		}
		if err == nil {
			view[k] = v
		}
		if note && r.h.tr != nil {
			r.h.tr.note(evLookup, k, v, err == nil)
		}
	}
	return view, true
}

type kvIter interface {
	Next() bool
	Key() []byte
	Value() []byte
	Release()
	Error() error
}

func (r *runner) scan(it kvIter) (map[string][]byte, bool) {
	view := map[string][]byte{}
	var prev []byte
	for it.Next() {
		k := it.Key()
		if prev != nil && bytes.Compare(prev, k) >= 0 {
			r.violate(fmt.Sprintf("iterator keys not strictly increasing: %x then %x", prev, k), nil)
			return nil, false
		}
		prev = append(prev[:0], k...)
		if k[0] == 'z' {
			continue
		}
		view[string(k)] = append([]byte{}, it.Value()...)
	}
	if err := it.Error(); err != nil {
		r.violate(fmt.Sprintf("iterator failed: %v", err), nil)
		return nil, false
	}
	return view, true
}

func (r *runner) noteView(view map[string][]byte) {
	if r.h.tr == nil {
		return
	}
	for _, k := range r.keys {
		v, ok := view[k]
		r.h.tr.note(evLookup, k, v, ok)
	}
}

func sameView(a, b map[string][]byte) bool {
	if len(a) != len(b) {
		return false
	}
	for k, v := range a {
		w, ok := b[k]
		if !ok || !bytes.Equal(v, w) {
			return false
		}
	}
	return true
}

func (r *runner) snapper(id, slot int, rng *vlib.RNG) {
	tr := r.h.tr
	if tr != nil {
		tr.register(role{reader: true, id: id})
	}
	var lastS uint64
	n := 0
	for !r.stopped() && (r.cfg.Reads == 0 || n < r.cfg.Reads) {
		n++
		dv := r.doneVec()
		before := leveldb.VerifSeq(r.db)
		snap, err := r.db.GetSnapshot()
		if err != nil {
			r.violate(fmt.Sprintf("GetSnapshot failed: %v", err), nil)
			return
		}
		s := leveldb.VerifSnapshotSeq(snap)
		after := leveldb.VerifSeq(r.db)
		if s < before || s > after || s < lastS {
			r.violate(fmt.Sprintf("snapshot sequence number %d outside [%d,%d] (seq before/after GetSnapshot) or below this reader's previous snapshot %d", s, before, after, lastS), nil)
			snap.Release()
			return
		}
		lastS = s
		keys := r.keys
		partial := false
		if r.cfg.Trace {
			// keep traces small: one group + the progress keys
			g := rng.Intn(r.cfg.Groups)
			keys = nil
			for i := 0; i < 4; i++ {
				keys = append(keys, string(gkey(g, i)))
			}
			for w := 0; w < r.nw; w++ {
				keys = append(keys, string(pkey(w)))
			}
			partial = true
		}
		get := func(k []byte) ([]byte, error) { return snap.Get(k, nil) }
		v1, ok := r.readKeys(get, keys, true)
		if !ok {
			snap.Release()
			return
		}
		// hold the snapshot across flushes / compactions, then look again: the view must not move
		if r.cfg.Trace {
			time.Sleep(time.Duration(200+rng.Intn(800)) * time.Microsecond)
		} else {
			time.Sleep(time.Duration(rng.Intn(3000)) * time.Microsecond)
		}
		var v2 map[string][]byte
		what := "snapshot"
		if rng.Chance(1, 2) {
			it := snap.NewIterator(nil, nil)
			v2, ok = r.scan(it)
			it.Release()
			if ok {
				r.noteView(v2)
			}
			what = "snapshot-iterator"
			if ok && partial {
				// compare on the keys read
				f := map[string][]byte{}
				for _, k := range keys {
					if x, has := v2[k]; has {
						f[k] = x
					}
				}
				if !sameView(v1, f) {
					r.violate(fmt.Sprintf("snapshot at seq %d changed between its Gets and its iterator", s), map[string]interface{}{"first": viewJSON(v1), "second": viewJSON(f)})
					ok = false
				}
			} else if ok && !sameView(v1, v2) {
				r.violate(fmt.Sprintf("snapshot at seq %d changed between its Gets and its iterator", s), map[string]interface{}{"first": viewJSON(v1), "second": viewJSON(v2)})
				ok = false
			}
		} else {
			v2, ok = r.readKeys(get, keys, true)
			if ok && !sameView(v1, v2) {
				r.violate(fmt.Sprintf("snapshot at seq %d changed between two reads", s), map[string]interface{}{"first": viewJSON(v1), "second": viewJSON(v2)})
				ok = false
			}
		}
		snap.Release()
		if tr != nil {
			tr.note(evDone, "", nil, false)
		}
		if !ok {
			return
		}
		r.checkView(what, v2, dv, !partial || what == "snapshot-iterator", s)
		o := obsView{what: what, exact: true, s: s, before: before, after: after, dv: dv, view: v2}
		if partial && what == "snapshot" {
			o.partial = keys
		}
		if len(r.views[slot]) < 100000 {
			r.views[slot] = append(r.views[slot], o)
		}
	}
}

func (r *runner) iterUser(id, slot int, rng *vlib.RNG) {
	tr := r.h.tr
	if tr != nil {
		tr.register(role{reader: true, id: id})
	}
	n := 0
	for !r.stopped() && (r.cfg.Reads == 0 || n < r.cfg.Reads) {
		n++
		dv := r.doneVec()
		before := leveldb.VerifSeq(r.db)
		it := r.db.NewIterator(nil, nil)
		after := leveldb.VerifSeq(r.db)
		if rng.Chance(1, 2) {
			time.Sleep(time.Duration(rng.Intn(1500)) * time.Microsecond) // let writes, flushes, compactions happen under the iterator
		}
		view, ok := r.scan(it)
		it.Release()
		if !ok {
			return
		}
		r.noteView(view)
		if tr != nil {
			tr.note(evDone, "", nil, false)
		}
		r.checkView("iterator", view, dv, true, 0)
		if len(r.views[slot]) < 100000 {
			r.views[slot] = append(r.views[slot], obsView{what: "iterator", before: before, after: after, dv: dv, view: view})
		}
		if r.cfg.Trace {
			time.Sleep(time.Duration(rng.Intn(600)) * time.Microsecond)
		}
	}
}

// ------------------------------------------------------------------ post-hoc checks against the oracle

func (r *runner) lowerBound(o *oracle, progSeq []map[uint32]uint64, before uint64, dv []uint32) uint64 {
	lb := before
	for w, c := range dv {
		if c == 0 {
			continue
		}
		if s, ok := progSeq[w][c]; ok && s > lb {
			lb = s
		}
	}
	return lb
}

func (r *runner) checkOracle(o *oracle) {
	// position of every batch: the entry "progress key of w = c" is the last record of w's batch c
	progSeq := make([]map[uint32]uint64, r.nw)
	for w := 0; w < r.nw; w++ {
		progSeq[w] = map[uint32]uint64{}
		for _, e := range o.perKey[string(pkey(w))] {
			if _, c, ok := parseVal(e.val); ok {
				progSeq[w][c] = e.seq
			}
		}
	}
	// writes take effect between call and return
	for w := 0; w < r.nw; w++ {
		for _, rec := range r.wlogs[w] {
			s, ok := progSeq[w][rec.c]
			if !ok {
				r.violate(fmt.Sprintf("acknowledged batch %d of writer %d is in no journal record and no transaction", rec.c, w), nil)
				return
			}
			if s > rec.after || s <= rec.before {
				r.violate(fmt.Sprintf("batch %d of writer %d occupies sequence numbers ending at %d, outside its call (db.seq %d before, %d after)", rec.c, w, s, rec.before, rec.after), nil)
				return
			}
		}
	}
	nGet, nView := 0, 0
	for _, gs := range r.gets {
		for _, g := range gs {
			nGet++
			lb := r.lowerBound(o, progSeq, g.before, g.dv)
			if lb > g.after {
				r.violate(fmt.Sprintf("Get(%s): a write that had returned before the call ends at seq %d, above db.seq %d after the call", g.key, lb, g.after), nil)
				return
			}
			ok := bytes.Equal(o.at(g.key, lb), g.val)
			if !ok {
				for _, s := range o.changes(g.key, lb, g.after) {
					if bytes.Equal(o.at(g.key, s), g.val) {
						ok = true
						break
					}
				}
			}
			if !ok {
				r.violate(fmt.Sprintf("Get(%s) = %s equals the committed state at no sequence number in [%d,%d] (state at %d: %s, at %d: %s)", g.key, hexs(g.val), lb, g.after, lb, hexs(o.at(g.key, lb)), g.after, hexs(o.at(g.key, g.after))),
					map[string]interface{}{"key": g.key, "got": hexs(g.val), "lo": lb, "hi": g.after})
				return
			}
		}
	}
	nHas := 0
	for _, hs := range r.hass {
		for _, h := range hs {
			nHas++
			lb := r.lowerBound(o, progSeq, h.before, h.dv)
			ok := (o.at(h.key, lb) != nil) == h.has
			if !ok {
				for _, s := range o.changes(h.key, lb, h.after) {
					if (o.at(h.key, s) != nil) == h.has {
						ok = true
						break
					}
				}
			}
			if !ok {
				r.violate(fmt.Sprintf("Has(%s) = %v agrees with the committed state at no sequence number in [%d,%d]", h.key, h.has, lb, h.after), nil)
				return
			}
		}
	}
	r.count("has_checked", nHas)
	cmpView := func(v obsView, s uint64) (string, bool) {
		keys := r.keys
		if v.partial != nil {
			keys = v.partial
		}
		for _, k := range keys {
			want := o.at(k, s)
			got, has := v.view[k]
			if !has {
				got = nil
			}
			if !bytes.Equal(want, got) {
				return fmt.Sprintf("key %s: saw %s, committed state %s", k, hexs(got), hexs(want)), false
			}
		}
		return "", true
	}
	for _, vs := range r.views {
		for _, v := range vs {
			nView++
			if v.exact {
				if !o.isPubPoint(v.s) {
					r.violate(fmt.Sprintf("%s fixed sequence number %d, strictly inside a batch", v.what, v.s), nil)
					return
				}
				lb := r.lowerBound(o, progSeq, v.before, v.dv)
				if v.s < lb {
					r.violate(fmt.Sprintf("%s at seq %d: a write that had returned before it was taken ends at seq %d", v.what, v.s, lb), nil)
					return
				}
				if why, ok := cmpView(v, v.s); !ok {
					r.violate(fmt.Sprintf("%s at seq %d differs from the committed state at %d: %s", v.what, v.s, v.s, why),
						map[string]interface{}{"view": viewJSON(v.view), "seq": v.s})
					return
				}
			} else {
				lb := r.lowerBound(o, progSeq, v.before, v.dv)
				cands := o.pubPoints(lb, v.after)
				found := false
				why := ""
				for _, s := range cands {
					w, ok := cmpView(v, s)
					if ok {
						found = true
						break
					}
					why = w
				}
				if !found {
					r.violate(fmt.Sprintf("%s scan equals the committed state at no published sequence number in [%d,%d] (%d candidates; last: %s)", v.what, lb, v.after, len(cands), why),
						map[string]interface{}{"view": viewJSON(v.view), "lo": lb, "hi": v.after})
					return
				}
			}
		}
	}
	r.count("gets_checked", nGet)
	r.count("views_checked", nView)
	// a client's later write is never visible without its earlier ones, judged on the writers' own logs
	// (independent of the journal): a view with progress(w) = c must not show, in a group w wrote at c' <= c,
	// a value of w older than c'
	for _, vs := range r.views {
		for _, v := range vs {
			if v.partial != nil {
				continue
			}
			for w := 0; w < r.nw; w++ {
				_, pc, ok := parseVal(v.view[string(pkey(w))])
				if !ok {
					continue
				}
				lastAt := map[int]uint32{}
				for _, rec := range r.wlogs[w] {
					if rec.c <= pc {
						lastAt[rec.g] = rec.c
					}
				}
				for g, c1 := range lastAt {
					vw, vc, ok := parseVal(v.view[string(gkey(g, 0))])
					if ok && vw == w && vc < c1 {
						r.violate(fmt.Sprintf("%s sees writer %d's progress %d but in group %d its older batch %d instead of %d", v.what, w, pc, g, vc, c1), viewJSON(v.view))
						return
					}
				}
			}
		}
	}
}

// ------------------------------------------------------------------ one run

type runResult struct {
	Viols      []violation    `json:"viols"`
	Counts     map[string]int `json:"counts"`
	Separated  int            `json:"separated"`
	Reads      int            `json:"reads"`
	TraceCases []string       `json:"-"`
	TraceStats map[string]int `json:"trace_stats"`
}

var runMu sync.Mutex // hooks are process-wide: one DB at a time

func doRun(cfg runCfg) (rr runResult) {
	runMu.Lock()
	defer runMu.Unlock()
	rr.Counts = map[string]int{}
	old := runtime.GOMAXPROCS(cfg.Procs)
	defer runtime.GOMAXPROCS(old)
	jc := newJcap(storage.NewMemStorage())
	o := &opt.Options{
		WriteBuffer: cfg.WriteBuffer, CompactionTableSize: cfg.TableSize, CompactionTotalSize: 4 * cfg.TableSize,
		CompactionL0Trigger: cfg.L0Trigger, BlockSize: 256, NoSync: true, NoWriteMerge: cfg.NoMerge,
		OpenFilesCacheCapacity: 64, BlockCacheCapacity: 64 << 10,
	}
	db, err := leveldb.Open(jc, o)
	if err != nil {
		rr.Viols = append(rr.Viols, violation{fmt.Sprintf("Open failed: %v", err), cfg})
		return
	}
	nw := cfg.Writers
	if cfg.Txn {
		nw++
	}
	r := &runner{cfg: cfg, db: db, jc: jc, nw: nw, done: make([]uint32, nw), wlogs: make([][]wrec, nw), counts: rr.Counts}
	r.h = &hooks{cfg: cfg, txnBy: map[uint64]*txnRec{}}
	for g := 0; g < cfg.Groups; g++ {
		for i := 0; i < 4; i++ {
			r.keys = append(r.keys, string(gkey(g, i)))
		}
	}
	for w := 0; w < nw; w++ {
		r.keys = append(r.keys, string(pkey(w)))
	}
	sort.Strings(r.keys)
	if cfg.Trace {
		r.h.tr = newTracer(db)
		leveldb.VerifSetCommitHook(r.h.tr.commit)
	}
	leveldb.VerifSetHooks(r.h.yield, r.h.event)
	rng := vlib.NewRNG(uint64(cfg.Seed))
	nReaders := cfg.Getters + cfg.Snappers + cfg.Iters
	r.gets = make([][]obsGet, cfg.Getters)
	r.hass = make([][]obsHas, cfg.Getters)
	r.views = make([][]obsView, cfg.Snappers+cfg.Iters)
	var wgW, wgR sync.WaitGroup
	for w := 0; w < cfg.Writers; w++ {
		w, g := w, rng.Fork()
		r.guard("writer", &wgW, func() { r.writer(w, g) })
	}
	if cfg.Txn {
		g := rng.Fork()
		r.guard("transaction user", &wgW, func() { r.txnUser(nw-1, g) })
	}
	if cfg.Compactor {
		g := rng.Fork()
		r.guard("compactor", &wgW, func() { r.compactor(nw, g) })
	}
	id := 0
	for i := 0; i < cfg.Getters; i++ {
		i, id2, g := i, id, rng.Fork()
		r.guard("getter", &wgR, func() { r.getter(id2, i, g) })
		id++
	}
	for i := 0; i < cfg.Snappers; i++ {
		i, id2, g := i, id, rng.Fork()
		r.guard("snapshot reader", &wgR, func() { r.snapper(id2, i, g) })
		id++
	}
	for i := 0; i < cfg.Iters; i++ {
		i, id2, g := cfg.Snappers+i, id, rng.Fork()
		r.guard("iterator user", &wgR, func() { r.iterUser(id2, i, g) })
		id++
	}
	_ = nReaders
	finished := make(chan struct{})
	go func() {
		if cfg.Batches == 0 {
			time.Sleep(time.Duration(cfg.DurMs) * time.Millisecond)
			atomic.StoreInt32(&r.stop, 1)
		}
		wgW.Wait()
		wgR.Wait()
		close(finished)
	}()
	hung := false
	select {
	case <-finished:
	case <-time.After(time.Duration(cfg.DurMs)*time.Millisecond + 60*time.Second):
		hung = true
		atomic.StoreInt32(&r.stop, 1)
		r.violate("workers did not finish within 60 s after the end of the run (a call blocks)", nil)
	}
	idle := true
	if !hung && cfg.Trace {
		idle = leveldb.VerifWaitIdle(db, 10*time.Second)
		r.h.tr.close()
	}
	leveldb.VerifSetHooks(nil, nil)
	if cfg.Trace {
		leveldb.VerifSetCommitHook(nil)
	}
	if hung {
		rr.Viols = r.viols
		return
	}
	// the oracle: journal records + transactions
	groups, recs, jerr := jc.journalGroups()
	if jerr != nil {
		r.violate("journal copy unreadable: "+jerr.Error(), nil)
	}
	for _, t := range r.txns {
		n := uint64(len(t.recs))
		for i := range t.recs {
			t.recs[i].seq = t.hi - n + 1 + uint64(i)
		}
		groups = append(groups, ogroup{lo: t.hi - n, hi: t.hi, txn: true})
		recs = append(recs, t.recs...)
	}
	orc, bad := buildOracle(groups, recs)
	if bad != "" && jerr == nil {
		r.violate("committed writes do not form one total order: "+bad, nil)
	}
	if bad == "" && jerr == nil && len(r.viols) == 0 {
		if fin := leveldb.VerifSeq(db); fin != orc.final {
			r.violate(fmt.Sprintf("db.seq is %d at the end but the committed entries end at %d", fin, orc.final), nil)
		}
		r.checkOracle(orc)
		// final state: a full scan equals the committed state at the final sequence number
		it := db.NewIterator(nil, nil)
		view, ok := r.scan(it)
		it.Release()
		if ok {
			for _, k := range orc.keys() {
				if k[0] == 'z' {
					continue
				}
				want := orc.at(k, orc.final)
				got := view[k]
				if !bytes.Equal(want, got) {
					r.violate(fmt.Sprintf("final scan: key %s = %s, committed state %s", k, hexs(got), hexs(want)), nil)
					break
				}
			}
		}
	}
	for p := 1; p <= 3; p++ {
		for k, name := range []string{"rotation", "install", "drop"} {
			if n := int(atomic.LoadUint64(&r.h.sep[p][k])); n > 0 {
				rr.Counts[fmt.Sprintf("window%d_spans_%s", p, name)] += n
			}
		}
	}
	rr.Separated = int(atomic.LoadUint64(&r.h.sepN))
	rr.Counts["rotations"] += int(atomic.LoadUint64(&r.h.rot))
	rr.Counts["version_installs"] += int(atomic.LoadUint64(&r.h.inst))
	rr.Counts["frozen_drops"] += int(atomic.LoadUint64(&r.h.drop))
	rr.Counts["entries_committed"] += int(orc.final)
	rr.Counts["publications"] += len(orc.groups)
	rr.Counts[fmt.Sprintf("runs_gomaxprocs_%d", cfg.Procs)]++
	rr.Counts[fmt.Sprintf("runs_focus_%d", cfg.Focus)]++
	for _, g := range r.gets {
		rr.Reads += len(g)
	}
	for _, v := range r.views {
		rr.Reads += len(v)
	}
	if cfg.Trace && !idle {
		rr.Counts["traces_skipped_db_not_idle"]++
	}
	if cfg.Trace && jerr == nil && idle {
		jm := map[uint64]orec{}
		for _, e := range recs {
			jm[e.seq] = e
		}
		acts, problems, stats := r.h.tr.build(jm)
		rr.TraceStats = stats
		for _, p := range problems {
			r.violate("trace log inconsistent with the locking protocol: "+p, nil)
		}
		n, kinds := separatedReads(acts)
		rr.Separated += n
		for k, c := range kinds {
			rr.Counts["traced_window_spans_"+k] += c
		}
		rr.Counts["traced_actions"] += len(acts)
		if len(acts) <= 1500 {
			rr.TraceCases = append(rr.TraceCases, renderTrace(true, acts))
			if neg, name := negativeControl(acts, int(uint64(cfg.Seed)%4)); neg != nil {
				rr.TraceCases = append(rr.TraceCases, renderTrace(false, neg))
				rr.Counts["negative_control_"+name]++
			}
		} else {
			rr.Counts["traces_too_long_skipped"]++
		}
	}
	db.Close()
	rr.Viols = r.viols
	return
}

// ------------------------------------------------------------------ orchestration

type childOut struct {
	Runs      int            `json:"runs"`
	Reads     int            `json:"reads"`
	Separated int            `json:"separated"`
	Counts    map[string]int `json:"counts"`
	Viols     []violation    `json:"viols"`
	Samples   []runCfg       `json:"samples"`
}

func childMain(a vlib.Args, idx int, budget time.Duration) {
	out := childOut{Counts: map[string]int{}}
	rng := vlib.NewRNG(a.Seed*1000003 + uint64(idx)*7919 + 17)
	deadline := time.Now().Add(budget)
	for i := 0; time.Now().Before(deadline) && len(out.Viols) < 3; i++ {
		cfg := stressCfg(rng, i+idx) // children start their "each window in turn" at different windows
		rr := doRun(cfg)
		out.Runs++
		out.Reads += rr.Reads
		out.Separated += rr.Separated
		for k, v := range rr.Counts {
			out.Counts[k] += v
		}
		out.Viols = append(out.Viols, rr.Viols...)
		if len(out.Samples) < 2 {
			out.Samples = append(out.Samples, cfg)
		}
	}
	b, _ := json.Marshal(out)
	os.WriteFile(filepath.Join(a.Out, "child.json"), b, 0o644)
}

func main() {
	a := vlib.ParseArgs()
	if strings.HasPrefix(a.Extra, "child:") {
		var idx, ms int
		fmt.Sscanf(a.Extra, "child:%d:%d", &idx, &ms)
		childMain(a, idx, time.Duration(ms)*time.Millisecond)
		return
	}
	res := vlib.NewResult("C05", a.Out, rule)
	defer res.Write()
	if a.Replay != "" {
		replay(a, res)
		return
	}
	nChildren, budget, nTraces := 12, 18*time.Second, 24
	if a.Thorough() {
		budget, nTraces = 15*time.Minute, 160
	}
	if strings.Contains(a.Extra, "search") {
		budget, nTraces = 4*time.Minute, 60
	}
	// children: the high-volume (P) runs, one process each (hooks are process-wide)
	var wg sync.WaitGroup
	outs := make([]childOut, nChildren)
	cerr := make([]string, nChildren)
	for i := 0; i < nChildren; i++ {
		i := i
		wg.Add(1)
		go func() {
			defer wg.Done()
			dir := filepath.Join(a.Out, fmt.Sprintf("child_%d", i))
			os.MkdirAll(dir, 0o755)
			cmd := exec.Command(os.Args[0], "--tier", a.Tier, "--seed", fmt.Sprint(a.Seed), "--out", dir,
				"--extra", fmt.Sprintf("child:%d:%d", i, budget.Milliseconds()))
			var eb bytes.Buffer
			cmd.Stderr = &eb
			done := make(chan error, 1)
			if err := cmd.Start(); err != nil {
				cerr[i] = err.Error()
				return
			}
			go func() { done <- cmd.Wait() }()
			select {
			case err := <-done:
				if err != nil {
					s := eb.String()
					if len(s) > 3000 {
						s = s[:3000]
					}
					cerr[i] = fmt.Sprintf("%v: %s", err, s)
				}
			case <-time.After(budget + 90*time.Second):
				cmd.Process.Kill()
				cerr[i] = "child process did not finish (killed)"
			}
			b, err := os.ReadFile(filepath.Join(dir, "child.json"))
			if err == nil {
				json.Unmarshal(b, &outs[i])
			} else if cerr[i] == "" {
				cerr[i] = "no child result"
			}
			os.RemoveAll(dir)
		}()
	}
	// parent: the traced (K) runs
	rng := vlib.NewRNG(a.Seed*31 + 5)
	var cases []string
	separated, reads := 0, 0
	for i := 0; i < nTraces; i++ {
		cfg := traceCfg(rng, i)
		rr := doRun(cfg)
		res.Count("traced_runs", 1)
		for k, v := range rr.Counts {
			res.Count(k, v)
		}
		for k, v := range rr.TraceStats {
			res.Count("trace_"+k, v)
		}
		separated += rr.Separated
		reads += rr.Reads
		cases = append(cases, rr.TraceCases...)
		for _, v := range rr.Viols {
			res.Violate(v.Desc, v.Case)
		}
		if i < 2 {
			res.Sample(cfg)
		}
	}
	wg.Wait()
	for i, o := range outs {
		if cerr[i] != "" {
			res.Violate("stress process failed: "+cerr[i], map[string]interface{}{"child": i})
		}
		res.Count("stress_runs", o.Runs)
		for k, v := range o.Counts {
			res.Count(k, v)
		}
		separated += o.Separated
		reads += o.Reads
		for _, v := range o.Viols {
			res.Violate(v.Desc, v.Case)
		}
		for _, s := range o.Samples {
			res.Sample(s)
		}
	}
	res.Evaluations = reads
	res.DistinctNontrivial = separated
	shards := 16
	if len(cases) > 64 {
		shards = 32
	}
	res.WriteCases("From GL Require Import Corr.C05Run.", "c05case", "mismatches", cases, shards)
}

// replay re-runs the stored configuration (schedules are not reproducible: several attempts).
func replay(a vlib.Args, res *vlib.Result) {
	b, err := os.ReadFile(a.Replay)
	if err != nil {
		res.Violate("cannot read replay file: "+err.Error(), nil)
		return
	}
	var f struct {
		Case struct {
			Cfg runCfg `json:"cfg"`
		} `json:"case"`
	}
	if err := json.Unmarshal(b, &f); err != nil || f.Case.Cfg.Writers == 0 {
		res.Violate("replay file holds no run configuration", nil)
		return
	}
	cfg := f.Case.Cfg
	for i := 0; i < 40; i++ {
		rr := doRun(cfg)
		res.Evaluations += rr.Reads
		for _, v := range rr.Viols {
			res.Violate(v.Desc, v.Case)
		}
		if len(rr.Viols) > 0 {
			return
		}
		cfg.Seed++
	}
}
