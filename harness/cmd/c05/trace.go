package main

import (
	"encoding/hex"
	"fmt"
	"runtime"
	"sort"
	"strings"
	"sync"

	"github.com/syndtr/goleveldb/leveldb"
)

// goid returns the id of the calling goroutine (the hooks are process-wide callbacks without arguments that
// identify the caller; the trace needs to know which reader / writer performed a step).
func goid() uint64 {
	var buf [48]byte
	n := runtime.Stack(buf[:], false)
	// "goroutine 123 [running]:..."
	var id uint64
	for i := 10; i < n; i++ {
		c := buf[i]
		if c < '0' || c > '9' {
			break
		}
		id = id*10 + uint64(c-'0')
	}
	return id
}

const (
	evLookup = 600 // harness: a reader obtained an answer (key, value)
	evDone   = 601 // harness: a reader session ended
)

type role struct {
	reader bool
	id     int
}

type editInfo struct {
	kind   string // "flush" | "txn" | "rewrite"
	es     []orec // flush/txn: entries of the added tables; rewrite: entries of the whole new version
	minSeq uint64
	seqNow uint64 // db.seq when the commit hook ran (right after setVersion, same goroutine)
	err    string
}

type rawEv struct {
	gid  uint64
	kind int
	a, b uint64
	key  string
	val  []byte
	has  bool
	aux  *editInfo
}

type tracer struct {
	closed bool
	mu     sync.Mutex
	db     *leveldb.DB
	log    []rawEv
	roles  map[uint64]role
	lastSV map[uint64]int
	orphan int
}

func newTracer(db *leveldb.DB) *tracer {
	return &tracer{db: db, roles: map[uint64]role{}, lastSV: map[uint64]int{}}
}

func (t *tracer) close() {
	t.mu.Lock()
	t.closed = true
	t.mu.Unlock()
}

func (t *tracer) register(r role) {
	g := goid()
	t.mu.Lock()
	t.roles[g] = r
	t.mu.Unlock()
}

func (t *tracer) record(kind int, a, b uint64) {
	g := goid()
	t.mu.Lock()
	if t.closed {
		t.mu.Unlock()
		return
	}
	t.log = append(t.log, rawEv{gid: g, kind: kind, a: a, b: b})
	if kind == leveldb.VerifEvCutSetVersion {
		t.lastSV[g] = len(t.log) - 1
	}
	t.mu.Unlock()
}

func (t *tracer) note(kind int, key string, val []byte, has bool) {
	g := goid()
	t.mu.Lock()
	t.log = append(t.log, rawEv{gid: g, kind: kind, key: key, val: val, has: has})
	t.mu.Unlock()
}

// noteGet logs the answer of a DB.Get (computed before the call released its sequence number).
func (t *tracer) noteGet(key string, val []byte, has bool) {
	g := goid()
	t.mu.Lock()
	t.log = append(t.log, rawEv{gid: g, kind: evLookup, a: 1, key: key, val: val, has: has})
	t.mu.Unlock()
}

func entriesOf(ves []leveldb.VerifEntry) []orec {
	out := make([]orec, 0, len(ves))
	for _, e := range ves {
		out = append(out, orec{seq: e.Seq, del: e.Kind == 0, key: string(e.Ukey), val: append([]byte{}, e.Value...)})
	}
	return out
}

// commit is the process-wide commit hook: called on the committing goroutine right after setVersion returned.
func (t *tracer) commit(e leveldb.VerifEdit) {
	g := goid()
	info := &editInfo{seqNow: leveldb.VerifSeq(t.db)}
	read := func(ts []leveldb.VerifTable) {
		for _, tb := range ts {
			es, err := e.Read(tb)
			if err != nil {
				info.err = fmt.Sprintf("reading table %d: %v", tb.Num, err)
			}
			info.es = append(info.es, entriesOf(es)...)
		}
	}
	switch {
	case len(e.Deleted) > 0:
		info.kind = "rewrite"
		if e.HasMinSeq {
			info.minSeq = e.MinSeq
		}
		read(e.Version)
	case e.HasJournal:
		info.kind = "flush"
		read(e.Added)
	default:
		info.kind = "txn"
		read(e.Added)
	}
	t.mu.Lock()
	if idx, ok := t.lastSV[g]; ok {
		t.log[idx].aux = info
		delete(t.lastSV, g)
	} else if !t.closed {
		t.orphan++
	}
	t.mu.Unlock()
}

// ---- trace construction ----

type act struct {
	kind string // Coq constructor
	id   int    // writer / reader
	n    uint64 // KPub n, KSetSeq s, KRSeq s, KRew m
	es   []orec
	key  string
	val  []byte
	has  bool
}

func hx(b []byte) string { return `"` + hex.EncodeToString(b) + `"` }

func renderEntry(e orec) string {
	k := 1
	if e.del {
		k = 0
	}
	return fmt.Sprintf("E %s %d %d %s", hx([]byte(e.key)), e.seq, k, hx(e.val))
}

func renderEntries(es []orec) string {
	var sb strings.Builder
	sb.WriteString("[")
	for i, e := range es {
		if i > 0 {
			sb.WriteString("; ")
		}
		sb.WriteString(renderEntry(e))
	}
	sb.WriteString("]")
	return sb.String()
}

func (a act) render() string {
	switch a.kind {
	case "KIns":
		return fmt.Sprintf("KIns %d (%s)", a.id, renderEntry(a.es[0]))
	case "KPub":
		return fmt.Sprintf("KPub %d %d", a.id, a.n)
	case "KRot":
		return fmt.Sprintf("KRot %d", a.id)
	case "KInst":
		return "KInst " + renderEntries(a.es)
	case "KDrop":
		return "KDrop"
	case "KRew":
		return fmt.Sprintf("KRew %d %s", a.n, renderEntries(a.es))
	case "KTxn":
		return fmt.Sprintf("KTxn %d %s", a.id, renderEntries(a.es))
	case "KSetSeq":
		return fmt.Sprintf("KSetSeq %d %d", a.id, a.n)
	case "KRSeq":
		return fmt.Sprintf("KRSeq %d %d", a.id, a.n)
	case "KRMems":
		return fmt.Sprintf("KRMems %d", a.id)
	case "KRVer":
		return fmt.Sprintf("KRVer %d", a.id)
	case "KRLook":
		if a.has {
			return fmt.Sprintf("KRLook %d %s (Some %s)", a.id, hx([]byte(a.key)), hx(a.val))
		}
		return fmt.Sprintf("KRLook %d %s None", a.id, hx([]byte(a.key)))
	case "KRRel":
		return fmt.Sprintf("KRRel %d", a.id)
	case "KRDone":
		return fmt.Sprintf("KRDone %d", a.id)
	}
	return "?"
}

func renderTrace(expect bool, acts []act) string {
	var sb strings.Builder
	if expect {
		sb.WriteString("KTrace 0 true [")
	} else {
		sb.WriteString("KTrace 0 false [")
	}
	for i, a := range acts {
		if i > 0 {
			sb.WriteString(";\n  ")
		}
		sb.WriteString(a.render())
	}
	sb.WriteString("]")
	return sb.String()
}

type pendPub struct {
	setseq bool
	w      int
	newSeq uint64
}

// build turns the raw event log into the action sequence of the LTS.  jrecs: seq -> entry from the journal
// capture.  Returns the actions, the log-consistency problems found (empty on a healthy run) and counters.
func (t *tracer) build(jrecs map[uint64]orec) (out []act, problems []string, stats map[string]int) {
	stats = map[string]int{}
	bad := func(f string, a ...interface{}) {
		if len(problems) < 5 {
			problems = append(problems, fmt.Sprintf(f, a...))
		}
	}
	var (
		lastSeq      uint64 // db.seq in the order of `out`
		insertedUpTo uint64 // highest sequence number whose entry has been emitted (KIns / KTxn)
		liveJ        uint64
		frozenJ      uint64
		knowJ        bool
		verID        uint64
		knowV        bool
		pend         *pendPub
		pubPos       = map[uint64]int{} // old db.seq value -> index in out of the publication that left it
		phase        = map[int]int{}    // reader -> 0 idle 1 seq 2 mems 3 ver
		lastIdx      = map[int]int{}    // reader -> index in out of its latest action
	)
	if t.orphan > 0 {
		bad("%d commit-hook calls without a preceding setVersion event", t.orphan)
	}
	emit := func(a act) int {
		out = append(out, a)
		return len(out) - 1
	}
	publish := func(a act, newSeq uint64) {
		pubPos[lastSeq] = len(out)
		emit(a)
		lastSeq = newSeq
	}
	insertAt := func(idx int, a act) {
		out = append(out, act{})
		copy(out[idx+1:], out[idx:])
		out[idx] = a
		for k, v := range pubPos {
			if v >= idx {
				pubPos[k] = v + 1
			}
		}
		for k, v := range lastIdx {
			if v >= idx {
				lastIdx[k] = v + 1
			}
		}
	}
	// pullForward: an event carries a value of db.seq (a compaction's minSeq, a reader's sequence number)
	// that only the publication in flight can have produced: the atomic store precedes its own event, so the
	// publication belongs before the observer
	pullForward := func(seen uint64) bool {
		if pend == nil || pend.newSeq < seen {
			return false
		}
		s := pend.newSeq
		if pend.setseq {
			publish(act{kind: "KSetSeq", id: pend.w, n: s}, s)
		} else {
			publish(act{kind: "KPub", id: pend.w, n: s - lastSeq}, s)
		}
		pend = nil
		stats["publish_pulled_forward"]++
		return true
	}
	emitIns := func(w int, upTo uint64) {
		for s := insertedUpTo + 1; s <= upTo; s++ {
			e, ok := jrecs[s]
			if !ok {
				bad("no journal record holds sequence number %d", s)
				continue
			}
			emit(act{kind: "KIns", id: w, es: []orec{e}})
		}
		if upTo > insertedUpTo {
			insertedUpTo = upTo
		}
	}
	lastWorker := -1 // index of the last event of a registered goroutine
	for i, ev := range t.log {
		if _, ok := t.roles[ev.gid]; ok {
			lastWorker = i
		}
	}
	for i, ev := range t.log {
		ro, known := t.roles[ev.gid]
		switch ev.kind {
		case leveldb.VerifEvCutRSeq:
			if !known || !ro.reader {
				continue
			}
			r, s := ro.id, ev.a
			a := act{kind: "KRSeq", id: r, n: s}
			switch {
			case s == lastSeq:
				lastIdx[r] = emit(a)
			case s > lastSeq:
				// the publication to s took effect before its event was logged: it belongs here
				if pend != nil && pend.newSeq == s {
					pullForward(s)
				} else {
					bad("reader %d fixed sequence number %d while db.seq was %d with no matching publication in flight", r, s, lastSeq)
				}
				lastIdx[r] = emit(a)
			default:
				// the reader loaded db.seq before a publication whose event was logged first
				idx, ok := pubPos[s]
				if !ok {
					bad("reader %d fixed sequence number %d, a value db.seq never had (db.seq = %d)", r, s, lastSeq)
					lastIdx[r] = emit(a)
				} else {
					if li, ok := lastIdx[r]; ok && li >= idx {
						bad("reader %d: its ARSeq (%d) would have to precede its own earlier step", r, s)
					}
					insertAt(idx, a)
					lastIdx[r] = idx
					stats["rseq_moved_back"]++
				}
			}
			phase[r] = 1
		case leveldb.VerifEvCutRelease:
			if known && ro.reader && phase[ro.id] != 0 {
				lastIdx[ro.id] = emit(act{kind: "KRRel", id: ro.id})
				if phase[ro.id] == 2 {
					phase[ro.id] = 1 // answered from a buffer: the version was never taken
				}
			}
		case leveldb.VerifEvCutRMems:
			if !knowJ {
				liveJ, frozenJ, knowJ = ev.a, ev.b, true
			}
			if ev.a != liveJ || ev.b != frozenJ {
				bad("getMems saw journals (%d,%d) but the rotation/drop events say (%d,%d)", ev.a, ev.b, liveJ, frozenJ)
			}
			if known && ro.reader && phase[ro.id] != 0 {
				lastIdx[ro.id] = emit(act{kind: "KRMems", id: ro.id})
				phase[ro.id] = 2
			}
		case leveldb.VerifEvCutRVersion:
			if knowV && ev.a != verID {
				bad("session.version() returned version %d but the last setVersion event was %d", ev.a, verID)
			}
			if known && ro.reader && phase[ro.id] == 2 {
				lastIdx[ro.id] = emit(act{kind: "KRVer", id: ro.id})
				phase[ro.id] = 3
			}
		case leveldb.VerifEvCutSetVersion:
			verID, knowV = ev.a, true
			info := ev.aux
			if info == nil {
				if i >= lastWorker {
					stats["trailing_commit_dropped"]++ // in flight when the hooks were removed
				} else {
					bad("setVersion event %d without commit information", ev.a)
				}
				continue
			}
			if info.err != "" {
				bad("%s", info.err)
			}
			switch info.kind {
			case "flush":
				emit(act{kind: "KInst", es: info.es})
				stats["flush_installs"]++
			case "rewrite":
				if info.minSeq > lastSeq && !pullForward(info.minSeq) {
					bad("a compaction read minSeq %d while db.seq was %d with no publication in flight", info.minSeq, lastSeq)
				}
				emit(act{kind: "KRew", n: info.minSeq, es: info.es})
				stats["rewrites"]++
			case "txn":
				w := -1
				if known && !ro.reader {
					w = ro.id
				} else {
					bad("transaction commit by an unregistered goroutine")
				}
				var hi uint64
				for _, e := range info.es {
					if e.seq > hi {
						hi = e.seq
					}
				}
				if info.seqNow >= hi && lastSeq < hi {
					// db.seq had already been set when the tables were installed: the LTS must refuse this
					publish(act{kind: "KSetSeq", id: w, n: hi}, hi)
					emit(act{kind: "KTxn", id: w, es: info.es})
				} else {
					emit(act{kind: "KTxn", id: w, es: info.es})
					pend = &pendPub{setseq: true, w: w, newSeq: hi}
				}
				if hi > insertedUpTo {
					insertedUpTo = hi
				}
				stats["txn_installs"]++
			}
		case leveldb.VerifEvCutRotate:
			if knowJ && (ev.b != liveJ || frozenJ != 0) {
				bad("rotation froze journal %d but live/frozen were (%d,%d)", ev.b, liveJ, frozenJ)
			}
			liveJ, frozenJ, knowJ = ev.a, ev.b, true
			w := -1
			if known && !ro.reader {
				w = ro.id
			} else {
				bad("rotation by an unregistered goroutine")
			}
			emit(act{kind: "KRot", id: w})
			stats["rotations"]++
		case leveldb.VerifEvCutDrop:
			if knowJ && ev.a != frozenJ {
				bad("drop of frozen journal %d but the frozen one is %d", ev.a, frozenJ)
			}
			frozenJ = 0
			emit(act{kind: "KDrop"})
			stats["drops"]++
		case leveldb.VerifEvCutInserted:
			w := -1
			if known && !ro.reader {
				w = ro.id
			} else {
				bad("group inserted by an unregistered goroutine")
			}
			if ev.b != lastSeq && ev.b > lastSeq {
				// db.seq moved before the group was completely in the memdb
				publish(act{kind: "KPub", id: w, n: ev.b - lastSeq}, ev.b)
				emitIns(w, ev.a-1)
				pend = nil
			} else {
				emitIns(w, ev.a-1)
				pend = &pendPub{w: w, newSeq: ev.a - 1}
			}
		case leveldb.VerifEvCutPublished:
			if ev.a == lastSeq {
				continue // already placed
			}
			w := -1
			if known && !ro.reader {
				w = ro.id
			}
			publish(act{kind: "KPub", id: w, n: ev.a - lastSeq}, ev.a)
			pend = nil
		case leveldb.VerifEvCutSetSeq:
			if ev.a == lastSeq {
				continue
			}
			w := -1
			if known && !ro.reader {
				w = ro.id
			}
			publish(act{kind: "KSetSeq", id: w, n: ev.a}, ev.a)
			pend = nil
		case evLookup:
			if known && ro.reader {
				a := act{kind: "KRLook", id: ro.id, key: ev.key, val: ev.val, has: ev.has}
				li, ok := lastIdx[ro.id]
				if ev.a == 1 && ok && out[li].kind == "KRRel" {
					// DB.Get computes its answer before its deferred releaseSnapshot runs; the harness only
					// learns the answer when the call has returned: the lookup belongs before the release
					insertAt(li, a)
					lastIdx[ro.id] = li + 1
				} else {
					lastIdx[ro.id] = emit(a)
				}
				stats["lookups"]++
			}
		case evDone:
			if known && ro.reader {
				lastIdx[ro.id] = emit(act{kind: "KRDone", id: ro.id})
				phase[ro.id] = 0
			}
		}
	}
	stats["actions"] = len(out)
	return
}

// separatedReads counts reader sessions whose acquisition steps (KRSeq .. KRMems .. KRVer) have a rotation,
// a flush install, a drop, a rewrite or a transaction install between them.
func separatedReads(acts []act) (n int, kinds map[string]int) {
	kinds = map[string]int{}
	open := map[int]map[string]bool{}
	for _, a := range acts {
		switch a.kind {
		case "KRSeq":
			open[a.id] = map[string]bool{}
		case "KRMems":
			if open[a.id] == nil {
				open[a.id] = map[string]bool{} // a snapshot's later read: the window starts at its KRMems
			}
		case "KRVer":
			if s := open[a.id]; s != nil {
				if len(s) > 0 {
					n++
					var ks []string
					for k := range s {
						ks = append(ks, k)
					}
					sort.Strings(ks)
					kinds[strings.Join(ks, "+")]++
				}
				delete(open, a.id)
			}
		case "KRot", "KInst", "KDrop", "KRew", "KTxn":
			for _, s := range open {
				s[a.kind] = true
			}
		}
	}
	return
}

// negativeControl returns the trace with one protocol order reversed (nil if the trace has no such pair).
func negativeControl(acts []act, which int) ([]act, string) {
	cp := func() []act { return append([]act{}, acts...) }
	find := func(from int, pred func(a act) bool) int {
		for i := from; i < len(acts); i++ {
			if pred(acts[i]) {
				return i
			}
		}
		return -1
	}
	switch which % 4 {
	case 0: // reader takes the version before the buffers
		i := find(0, func(a act) bool { return a.kind == "KRMems" })
		if i < 0 {
			return nil, ""
		}
		j := find(i+1, func(a act) bool { return a.kind == "KRVer" && a.id == acts[i].id })
		if j < 0 {
			return nil, ""
		}
		c := cp()
		c[i], c[j] = c[j], c[i]
		return c[:j+1], "reader-version-first"
	case 1: // drop before install (of a non-empty frozen memdb)
		i := find(0, func(a act) bool { return a.kind == "KInst" && len(a.es) > 0 })
		if i < 0 {
			return nil, ""
		}
		j := find(i+1, func(a act) bool { return a.kind == "KDrop" })
		if j < 0 {
			return nil, ""
		}
		c := cp()
		c[i], c[j] = c[j], c[i]
		return c[:j+1], "drop-before-install"
	case 2: // publish before the group is inserted
		j := find(0, func(a act) bool { return a.kind == "KPub" })
		if j < 0 {
			return nil, ""
		}
		// first KIns of that group: the earliest KIns after the previous publication
		i := j
		for k := j - 1; k >= 0; k-- {
			if acts[k].kind == "KPub" || acts[k].kind == "KSetSeq" {
				break
			}
			if acts[k].kind == "KIns" {
				i = k
			}
		}
		if i == j {
			return nil, ""
		}
		c := cp()
		p := c[j]
		copy(c[i+1:j+1], c[i:j])
		c[i] = p
		return c[:j+1], "publish-before-insert"
	default: // setSeq before the transaction's tables are installed
		i := find(0, func(a act) bool { return a.kind == "KTxn" })
		if i < 0 {
			return nil, ""
		}
		j := find(i+1, func(a act) bool { return a.kind == "KSetSeq" })
		if j < 0 {
			return nil, ""
		}
		c := cp()
		c[i], c[j] = c[j], c[i]
		return c[:j+1], "setseq-before-install"
	}
}
