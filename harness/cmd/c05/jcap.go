package main

import (
	"bytes"
	"encoding/binary"
	"fmt"
	"io"
	"sort"
	"sync"

	"github.com/syndtr/goleveldb/leveldb/journal"
	"github.com/syndtr/goleveldb/leveldb/storage"
)

// jcapStorage wraps a storage and keeps a copy of every byte written to journal files (also after the DB removed
// them): the write-ahead log is the independent record of which sequence numbers every batch received.
type jcapStorage struct {
	storage.Storage
	mu    sync.Mutex
	files []*jfile
}

type jfile struct {
	num int64
	mu  sync.Mutex
	buf []byte
}

type jwriter struct {
	storage.Writer
	jf *jfile
}

func newJcap(inner storage.Storage) *jcapStorage { return &jcapStorage{Storage: inner} }

func (s *jcapStorage) Create(fd storage.FileDesc) (storage.Writer, error) {
	w, err := s.Storage.Create(fd)
	if err != nil || fd.Type != storage.TypeJournal {
		return w, err
	}
	jf := &jfile{num: fd.Num}
	s.mu.Lock()
	s.files = append(s.files, jf)
	s.mu.Unlock()
	return &jwriter{Writer: w, jf: jf}, nil
}

func (w *jwriter) Write(p []byte) (int, error) {
	n, err := w.Writer.Write(p)
	if n > 0 {
		w.jf.mu.Lock()
		w.jf.buf = append(w.jf.buf, p[:n]...)
		w.jf.mu.Unlock()
	}
	return n, err
}

// orec is one record of the oracle log: the entry that received sequence number seq.
type orec struct {
	seq uint64
	del bool
	key string
	val []byte
}

// ogroup is one publication: entries (lo, hi] became visible together.
type ogroup struct {
	lo, hi uint64
	txn    bool
}

// parseJournalRecord decodes one journal record (batch header + records).
func parseJournalRecord(b []byte) (recs []orec, err error) {
	if len(b) < 12 {
		return nil, fmt.Errorf("short journal record (%d bytes)", len(b))
	}
	seq := binary.LittleEndian.Uint64(b[:8])
	cnt := int(binary.LittleEndian.Uint32(b[8:12]))
	o := 12
	for o < len(b) {
		kt := b[o]
		o++
		kl, n := binary.Uvarint(b[o:])
		if n <= 0 || o+n+int(kl) > len(b) {
			return nil, fmt.Errorf("bad key length")
		}
		o += n
		key := string(b[o : o+int(kl)])
		o += int(kl)
		r := orec{seq: seq + uint64(len(recs)), key: key}
		switch kt {
		case 1:
			vl, n := binary.Uvarint(b[o:])
			if n <= 0 || o+n+int(vl) > len(b) {
				return nil, fmt.Errorf("bad value length")
			}
			o += n
			r.val = append([]byte{}, b[o:o+int(vl)]...)
			o += int(vl)
		case 0:
			r.del = true
		default:
			return nil, fmt.Errorf("bad record type %d", kt)
		}
		recs = append(recs, r)
	}
	if len(recs) != cnt {
		return nil, fmt.Errorf("journal record announces %d entries, holds %d", cnt, len(recs))
	}
	return recs, nil
}

// journalGroups parses every captured journal file: one ogroup + its entries per journal record.
func (s *jcapStorage) journalGroups() (groups []ogroup, recs []orec, err error) {
	s.mu.Lock()
	files := append([]*jfile{}, s.files...)
	s.mu.Unlock()
	for _, jf := range files {
		jf.mu.Lock()
		buf := append([]byte{}, jf.buf...)
		jf.mu.Unlock()
		jr := journal.NewReader(bytes.NewReader(buf), nil, true, true)
		for {
			r, e := jr.Next()
			if e == io.EOF {
				break
			}
			if e != nil {
				return nil, nil, fmt.Errorf("journal %d: %v", jf.num, e)
			}
			b, e := io.ReadAll(r)
			if e != nil {
				return nil, nil, fmt.Errorf("journal %d: %v", jf.num, e)
			}
			rs, e := parseJournalRecord(b)
			if e != nil {
				return nil, nil, fmt.Errorf("journal %d: %v", jf.num, e)
			}
			if len(rs) == 0 {
				continue
			}
			groups = append(groups, ogroup{lo: rs[0].seq - 1, hi: rs[len(rs)-1].seq})
			recs = append(recs, rs...)
		}
	}
	return
}

// oracle: the totally ordered log of committed entries, indexed per key.
type okv struct {
	seq uint64
	del bool
	val []byte
}

type oracle struct {
	perKey map[string][]okv
	groups []ogroup // sorted by lo
	his    []uint64 // sorted publication points (0 first)
	final  uint64
}

// buildOracle merges journal groups and transaction groups; returns an error text if they do not tile (0, final].
func buildOracle(groups []ogroup, recs []orec) (*oracle, string) {
	sort.Slice(groups, func(i, j int) bool { return groups[i].lo < groups[j].lo })
	sort.Slice(recs, func(i, j int) bool { return recs[i].seq < recs[j].seq })
	o := &oracle{perKey: map[string][]okv{}, groups: groups, his: []uint64{0}}
	var at uint64
	for _, g := range groups {
		if g.lo != at {
			return o, fmt.Sprintf("publication ranges do not tile: after %d comes (%d,%d]", at, g.lo, g.hi)
		}
		if g.hi <= g.lo {
			return o, fmt.Sprintf("empty publication range (%d,%d]", g.lo, g.hi)
		}
		at = g.hi
		o.his = append(o.his, g.hi)
	}
	o.final = at
	for i, r := range recs {
		if r.seq != uint64(i)+1 {
			return o, fmt.Sprintf("entry log has a hole or a duplicate at position %d: seq %d", i, r.seq)
		}
		o.perKey[r.key] = append(o.perKey[r.key], okv{r.seq, r.del, r.val})
	}
	if uint64(len(recs)) != at {
		return o, fmt.Sprintf("%d entries logged but publications end at %d", len(recs), at)
	}
	return o, ""
}

// at returns the value of key at sequence number s (nil = absent).
func (o *oracle) at(key string, s uint64) []byte {
	l := o.perKey[key]
	i := sort.Search(len(l), func(i int) bool { return l[i].seq > s })
	if i == 0 {
		return nil
	}
	e := l[i-1]
	if e.del {
		return nil
	}
	return e.val
}

// changes returns the sequence numbers in (lo, hi] at which key changes.
func (o *oracle) changes(key string, lo, hi uint64) []uint64 {
	l := o.perKey[key]
	i := sort.Search(len(l), func(i int) bool { return l[i].seq > lo })
	var out []uint64
	for ; i < len(l) && l[i].seq <= hi; i++ {
		out = append(out, l[i].seq)
	}
	return out
}

// pubPoints returns the publication points in [lo, hi] (values db.seq has taken).
func (o *oracle) pubPoints(lo, hi uint64) []uint64 {
	i := sort.Search(len(o.his), func(i int) bool { return o.his[i] >= lo })
	var out []uint64
	for ; i < len(o.his) && o.his[i] <= hi; i++ {
		out = append(out, o.his[i])
	}
	return out
}

func (o *oracle) isPubPoint(s uint64) bool {
	i := sort.Search(len(o.his), func(i int) bool { return o.his[i] >= s })
	return i < len(o.his) && o.his[i] == s
}

// keys returns all keys ever written, sorted.
func (o *oracle) keys() []string {
	var ks []string
	for k := range o.perKey {
		ks = append(ks, k)
	}
	sort.Strings(ks)
	return ks
}
