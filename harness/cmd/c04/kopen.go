// (K) correspondence for the composed Open (Store/OpenPath.v open_bytes, Corr/C04OpenRun.v): small workloads run on
// the checker's storage; a crash image (every file as bytes, the meta pointer) is handed to the REAL leveldb.Open —
// read-only and read-write, each on its own copy — and everything Open made of it is recorded: db.seq, the new
// journal's number, the version's table numbers per level (from the commit hook at the last commit of the recovery),
// the live buffer's entries, every Remove call in order, every record the recovery committed, the batches kept from
// the journals (read off the markers), and length + CRC-32C of every file afterwards.  The Coq model must produce
// the same from the same bytes.  (P) on the way: the image opens, a second Open of what the first one left yields
// the same contents, sequence number and tables (idempotence).
package main

import (
	"bytes"
	"encoding/binary"
	"fmt"
	"hash/crc32"
	"os"
	"sort"
	"strings"
	"sync"

	"github.com/syndtr/goleveldb/leveldb"
	"github.com/syndtr/goleveldb/leveldb/errors"
	"github.com/syndtr/goleveldb/leveldb/journal"
	"github.com/syndtr/goleveldb/leveldb/opt"
	"github.com/syndtr/goleveldb/leveldb/storage"
	"github.com/syndtr/goleveldb/leveldb/util"
	"verifharness/lib/dbh"
	"verifharness/lib/vlib"
	"verifharness/lib/vstor"
	"verifharness/lib/wl"
)

// openHooks: storage -> func(leveldb.VerifEdit); consulted by the process-wide commit hook (main.go installHook)
var openHooks sync.Map

var castagnoli = crc32.MakeTable(crc32.Castagnoli)

type koOpts struct {
	cid                  int
	strictMan, strictJ   bool
	jck                  bool
	wbuf                 int
	maxman               int64
	blockSize, restartI  int
	errMissing, errExist bool
}

func (k koOpts) options(ro bool) *opt.Options {
	st := opt.StrictBlockChecksum
	if k.strictMan {
		st |= opt.StrictManifest
	}
	if k.strictJ {
		st |= opt.StrictJournal
	}
	if k.jck {
		st |= opt.StrictJournalChecksum
	}
	return &opt.Options{
		WriteBuffer: k.wbuf, MaxManifestFileSize: k.maxman, Compression: opt.NoCompression,
		BlockSize: k.blockSize, BlockRestartInterval: k.restartI, Comparer: vlib.ComparerByID(k.cid),
		ReadOnly: ro, Strict: st, ErrorIfMissing: k.errMissing, ErrorIfExist: k.errExist,
		// nothing but the recovery itself may touch the storage while it is observed
		CompactionL0Trigger: 1000, WriteL0SlowdownTrigger: 2000, WriteL0PauseTrigger: 3000,
		CompactionTotalSize: 1 << 30, DisableSeeksCompaction: true, DisableBlockCache: true,
		DisableCompactionBackoff: true,
	}
}

type koCommit struct {
	journal int64
	seq     uint64
	added   []int64
	version []leveldb.VerifTable
}

type koObs struct {
	fail      bool
	class     int
	errText   string
	seq       uint64
	journal   int64 // -1: none
	layout    [][]int64
	mem       [][2][]byte
	removed   [][2]int64
	kept      [][2]uint64
	keptKnown bool
	commits   []koCommit
	after     [][4]uint64
	metaAfter int64 // -1: none
	contents  map[string][]byte
	scanErr   string
}

func errClass(err error) int {
	switch {
	case errors.IsCorrupted(err):
		return 1
	case os.IsNotExist(err):
		return 2
	case err == os.ErrExist:
		return 3
	}
	return 9
}

func ikeyOf(e leveldb.VerifEntry) []byte {
	b := append([]byte{}, e.Ukey...)
	var t [8]byte
	binary.LittleEndian.PutUint64(t[:], e.Seq<<8|uint64(e.Kind))
	return append(b, t[:]...)
}

func layoutOf(ts []leveldb.VerifTable) [][]int64 {
	var out [][]int64
	for _, t := range ts {
		for len(out) <= t.Level {
			out = append(out, nil)
		}
		out[t.Level] = append(out[t.Level], t.Num)
	}
	return out
}

func filesOf(s *vstor.Stor) (sums [][4]uint64, total int) {
	for _, fd := range s.ListAll() {
		d, _, _ := s.FileBytes(fd)
		sums = append(sums, [4]uint64{uint64(fd.Type), uint64(fd.Num), uint64(len(d)), uint64(crc32.Checksum(d, castagnoli))})
		total += len(d)
	}
	return
}

// observeOpen runs the real Open on a copy of img.
func observeOpen(img *vstor.Stor, k koOpts, ro bool) (obs *koObs, after *vstor.Stor) {
	st := img.Clone(true)
	obs = &koObs{journal: -1, metaAfter: -1}
	// what session.recover computes: needed to tell which journal records the sequence rule rejects
	var stSeq uint64
	if ss, err, _, pan := leveldb.VerifSessionRecover(img.Clone(false), k.options(true)); err == nil && pan == "" && ss != nil {
		stSeq = ss.SeqNum
	}
	var mu sync.Mutex
	openHooks.Store(storage.Storage(st), func(e leveldb.VerifEdit) {
		if !e.HasJournal {
			return
		}
		c := koCommit{journal: e.JournalNum, seq: e.SeqNum, version: e.Version}
		for _, t := range e.Added {
			c.added = append(c.added, t.Num)
		}
		mu.Lock()
		obs.commits = append(obs.commits, c)
		mu.Unlock()
	})
	defer openHooks.Delete(storage.Storage(st))
	var db *leveldb.DB
	var err error
	func() {
		defer func() {
			if x := recover(); x != nil {
				err = fmt.Errorf("panic: %v", x)
			}
		}()
		db, err = leveldb.Open(st, k.options(ro))
	}()
	if err != nil {
		obs.fail, obs.class, obs.errText = true, errClass(err), err.Error()
		return obs, nil
	}
	nops := st.OpCount()
	obs.seq = leveldb.VerifSeq(db)
	nums := leveldb.VerifFileNums(db)
	if !ro {
		obs.journal = nums.JournalNum
	}
	mu.Lock()
	ncommits := len(obs.commits)
	mu.Unlock()
	if ro {
		obs.layout = layoutOf(leveldb.VerifDumpVersion(db))
	} else if ncommits > 0 {
		obs.layout = layoutOf(obs.commits[ncommits-1].version)
	}
	live, _, _ := leveldb.VerifMemEntries(db)
	for _, e := range live {
		obs.mem = append(obs.mem, [2][]byte{ikeyOf(e), e.Value})
	}
	got, serr := wl.Scan(db)
	closeDB(db)
	scanFailed := serr != nil // a table the version names is unreadable: Open itself does not look (directed cases)
	if scanFailed {
		got = map[string][]byte{}
		obs.scanErr = serr.Error()
	}
	obs.contents = got
	var opened []storage.FileDesc
	for _, o := range st.Ops() {
		if o.Idx >= nops {
			break
		}
		if o.Kind == vstor.OpRemove && !o.Fail {
			obs.removed = append(obs.removed, [2]int64{int64(o.Fd.Type), o.Fd.Num})
		}
		if o.Kind == vstor.OpOpen && o.Fd.Type == storage.TypeJournal {
			opened = append(opened, o.Fd)
		}
	}
	// the batches kept from the journals the recovery read, in the order it read them
	obs.keptKnown = k.jck && !scanFailed
	cur := stSeq
	for _, fd := range opened {
		data, _, ok := img.FileBytes(fd)
		if !ok {
			obs.keptKnown = false
			continue
		}
		for _, jr := range readAllCk(data, k.jck) {
			if jr.id < 0 {
				obs.keptKnown = false
				continue
			}
			_, present := got[string(wl.Marker(jr.id))]
			if jr.seq < cur {
				// rejected by the sequence rule whatever the marker says (the batch may sit in a table)
				continue
			}
			if present {
				obs.kept = append(obs.kept, [2]uint64{jr.seq, uint64(jr.n)})
				cur = jr.seq + uint64(jr.n)
			}
		}
	}
	obs.after, _ = filesOf(st)
	if m, ok := st.Meta(); ok {
		obs.metaAfter = m.Num
	}
	return obs, st
}

// readAllCk is readAll with the checksum flag of the options in force.
func readAllCk(data []byte, ck bool) []jrec {
	if ck {
		return readAll(data)
	}
	return readAllMode(data, false)
}

func coqOptN(x int64) string {
	if x < 0 {
		return "None"
	}
	return fmt.Sprintf("(Some %d)", x)
}

func coqNList(xs []int64) string {
	var p []string
	for _, x := range xs {
		p = append(p, fmt.Sprint(x))
	}
	return "[" + strings.Join(p, "; ") + "]"
}

func (o *koObs) coq() string {
	if o == nil {
		return "KESkip"
	}
	if o.fail {
		return fmt.Sprintf("(KEFail %d)", o.class)
	}
	var lay, mem, rem, kept, com, aft []string
	for _, l := range o.layout {
		lay = append(lay, coqNList(l))
	}
	for _, m := range o.mem {
		mem = append(mem, fmt.Sprintf("(%s, %s)", vlib.CoqHex(m[0]), vlib.CoqHex(m[1])))
	}
	for _, r := range o.removed {
		rem = append(rem, fmt.Sprintf("(%d, %d)", r[0], r[1]))
	}
	for _, r := range o.kept {
		kept = append(kept, fmt.Sprintf("(%d, %d)", r[0], r[1]))
	}
	for _, c := range o.commits {
		com = append(com, fmt.Sprintf("(%d, %d, %s)", c.journal, c.seq, coqNList(c.added)))
	}
	for _, a := range o.after {
		aft = append(aft, fmt.Sprintf("(%d, %d, %d, %d)", a[0], a[1], a[2], a[3]))
	}
	ks := "None"
	if o.keptKnown {
		ks = "(Some [" + strings.Join(kept, "; ") + "])"
	}
	return fmt.Sprintf("(KEOk %d %s [%s] [%s] [%s] %s [%s] [%s] %s)", o.seq, coqOptN(o.journal), strings.Join(lay, "; "),
		strings.Join(mem, "; "), strings.Join(rem, "; "), ks, strings.Join(com, "; "), strings.Join(aft, "; "), coqOptN(o.metaAfter))
}

func coqZi(x int64) string {
	if x < 0 {
		return fmt.Sprintf("(%d)%%Z", x)
	}
	return fmt.Sprintf("%d%%Z", x)
}

// genOpenWorkload: few keys, short values with an occasional value of a few hundred bytes, tiny buffers — the whole
// storage stays within a few tens of KB so that every file can travel to Coq.
func genOpenWorkload(r *vlib.RNG) *wl.Workload {
	cfg := dbh.RandomCfg(r)
	cfg.Snappy, cfg.FilterBits, cfg.NoSync = false, 0, false
	cfg.CmpID = []int{0, 0, 0, 1, 2}[r.Intn(5)]
	cfg.MaxManifest = int64([]int{0, 0, 1, 512}[r.Intn(4)])
	cfg.WriteBuffer = []int{512, 1024, 4096, 16384}[r.Intn(4)]
	cfg.BlockSize = []int{64, 256, 1024, 4096}[r.Intn(4)]
	cfg.BlockCache = -1
	pool := dbh.GenPool(r, r.Range(4, 14), false)
	w := &wl.Workload{Cfg: cfg}
	tag := 0
	mkrecs := func(n int) []dbh.Rec {
		var recs []dbh.Rec
		for i := 0; i < n; i++ {
			k := pool[r.Intn(len(pool))]
			tag++
			if r.Chance(1, 5) {
				recs = append(recs, dbh.Rec{Del: true, K: k})
				continue
			}
			n := r.Range(0, 60)
			if r.Chance(1, 5) {
				n = r.Range(150, 600)
			}
			v := []byte(fmt.Sprintf("v%d.", tag))
			for len(v) < n {
				v = append(v, byte('a'+len(v)%23))
			}
			recs = append(recs, dbh.Rec{K: k, V: v})
		}
		return recs
	}
	nsteps := r.Range(15, 110)
	for len(w.Steps) < nsteps {
		switch r.Pick(50, 5, 3, 6, 2) {
		case 0:
			w.Steps = append(w.Steps, wl.Step{Kind: "write", Recs: mkrecs(r.Range(1, 3)), Sync: r.Chance(1, 2)})
		case 1:
			w.Steps = append(w.Steps, wl.Step{Kind: "txn", Recs: mkrecs(r.Range(1, 5)), Parts: r.Range(1, 2)})
		case 2:
			w.Steps = append(w.Steps, wl.Step{Kind: "compact"})
		case 3:
			w.Steps = append(w.Steps, wl.Step{Kind: "reopen"})
		case 4:
			w.Steps = append(w.Steps, wl.Step{Kind: "idle"})
		}
	}
	return w
}

type koReplay struct {
	W         *wl.Workload `json:"w"`
	CrashIdx  int          `json:"crash_idx"`
	Policy    int          `json:"policy"`
	Vanish    bool         `json:"vanish"`
	PolSeed   uint64       `json:"pol_seed"`
	Nested    int          `json:"nested"`
	NestedPol int          `json:"nested_pol"`
	WBuf      int          `json:"wbuf"`
	MaxMan    int64        `json:"maxman"`
	StrictJ   bool         `json:"strict_j"`
	What      string       `json:"what"`
}

func sameContents(a, b map[string][]byte) string {
	if len(a) != len(b) {
		return fmt.Sprintf("%d keys vs %d keys", len(a), len(b))
	}
	for k, v := range a {
		if w, ok := b[k]; !ok || !bytes.Equal(v, w) {
			return fmt.Sprintf("key %x differs", k)
		}
	}
	return ""
}

// openCase observes one image under both modes and renders the K case; P: idempotence of Open.
func openCase(img *vstor.Stor, k koOpts, res *vlib.Result, maxBytes, maxText int) (text string, pmsg string) {
	return openCaseD(img, k, res, maxBytes, maxText, false)
}

// openCaseD: directed = the image was damaged on purpose (no property oracle, correspondence only).
func openCaseD(img *vstor.Stor, k koOpts, res *vlib.Result, maxBytes, maxText int, directed bool) (text string, pmsg string) {
	fds := img.ListAll()
	total := 0
	var fls []string
	for _, fd := range fds {
		d, _, _ := img.FileBytes(fd)
		total += len(d)
		fls = append(fls, fmt.Sprintf("KFile %d %d %s", fd.Type, fd.Num, segsOf(d)))
	}
	if total > maxBytes {
		res.Count("ko_skipped_image_too_big", 1)
		return "", ""
	}
	meta := int64(-1)
	if m, ok := img.Meta(); ok {
		meta = m.Num
	}
	roObs, _ := observeOpen(img, k, true)
	rwObs, after := observeOpen(img, k, false)
	if directed {
		if after != nil {
			after.Discard()
		}
		text = fmt.Sprintf("KOpenBytes %d %s %s %s %s %s %s %s %s %d %d %s [%s]\n   %s\n   %s", k.cid,
			vlib.CoqHex([]byte(vlib.ComparerByID(k.cid).Name())), vlib.CoqBool(k.strictMan), vlib.CoqBool(k.strictJ), vlib.CoqBool(k.jck),
			vlib.CoqBool(k.errMissing), vlib.CoqBool(k.errExist), coqZi(int64(k.wbuf)), coqZi(k.maxman), k.blockSize, k.restartI, coqOptN(meta),
			strings.Join(fls, ";\n    "), rwObs.coq(), roObs.coq())
		res.Count("ko_directed", 1)
		if rwObs.fail {
			res.Count(fmt.Sprintf("ko_directed_rw_error_class_%d", rwObs.class), 1)
		}
		return text, ""
	}
	if !rwObs.fail && rwObs.scanErr != "" {
		pmsg = "scan of the recovered DB fails: " + rwObs.scanErr
	}
	if !rwObs.fail && !roObs.fail && pmsg == "" {
		if m := sameContents(roObs.contents, rwObs.contents); m != "" {
			pmsg = "read-only and read-write Open of the same image disagree on the contents: " + m
		}
		if roObs.seq != rwObs.seq {
			pmsg = fmt.Sprintf("read-only and read-write Open of the same image disagree on db.seq: %d vs %d", roObs.seq, rwObs.seq)
		}
	}
	if roObs.fail != rwObs.fail && !(k.strictJ || k.strictMan) {
		pmsg = fmt.Sprintf("Open of a crash image: read-only fails=%v (%s), read-write fails=%v (%s)", roObs.fail, roObs.errText, rwObs.fail, rwObs.errText)
	}
	if rwObs.fail && !(k.strictJ || k.strictMan) && pmsg == "" {
		pmsg = "Open of the crash image fails: " + rwObs.errText
	}
	if after != nil && pmsg == "" {
		// idempotence: what a successful Open leaves opens to the same contents, sequence number and tables, and
		// leaves nothing behind but the live tables, the journal, the manifest
		again, after2 := observeOpen(after, k, false)
		switch {
		case again.fail:
			pmsg = "the storage a successful Open left does not open again: " + again.errText
		case sameContents(rwObs.contents, again.contents) != "":
			pmsg = "a second Open changes the contents: " + sameContents(rwObs.contents, again.contents)
		case again.seq != rwObs.seq:
			pmsg = fmt.Sprintf("a second Open changes db.seq: %d, then %d", rwObs.seq, again.seq)
		case fmt.Sprint(again.layout) != fmt.Sprint(rwObs.layout):
			pmsg = fmt.Sprintf("a second Open changes the tables: %v, then %v", rwObs.layout, again.layout)
		case len(again.kept) != 0:
			pmsg = fmt.Sprintf("a second Open replays batches again: %v", again.kept)
		}
		if after2 != nil {
			after2.Discard()
		}
		res.Count("ko_idempotence_checked", 1)
	}
	if after != nil {
		after.Discard()
	}
	text = fmt.Sprintf("KOpenBytes %d %s %s %s %s %s %s %s %s %d %d %s [%s]\n   %s\n   %s", k.cid,
		vlib.CoqHex([]byte(vlib.ComparerByID(k.cid).Name())), vlib.CoqBool(k.strictMan), vlib.CoqBool(k.strictJ), vlib.CoqBool(k.jck),
		vlib.CoqBool(k.errMissing), vlib.CoqBool(k.errExist), coqZi(int64(k.wbuf)), coqZi(k.maxman), k.blockSize, k.restartI, coqOptN(meta), strings.Join(fls, ";\n    "), rwObs.coq(), roObs.coq())
	if len(text) > maxText {
		res.Count("ko_skipped_text_too_big", 1)
		return "", pmsg
	}
	res.Count("ko_image_bytes", total)
	res.Count("ko_image_files", len(fds))
	if rwObs.fail {
		res.Count("ko_open_fails_by_design", 1)
	} else {
		res.Count("ko_commits_in_recovery", len(rwObs.commits))
		res.Count("ko_removed_files", len(rwObs.removed))
		res.Count("ko_batches_kept", len(rwObs.kept))
		res.Count("ko_ro_mem_entries", len(roObs.mem))
		nt := 0
		for _, l := range rwObs.layout {
			nt += len(l)
		}
		res.Count("ko_tables_after", nt)
		if len(rwObs.commits) >= 2 {
			res.Count("ko_cases_two_or_more_journals", 1)
		}
		if !rwObs.keptKnown {
			res.Count("ko_kept_unknown", 1)
		}
	}
	return text, pmsg
}

// kOpenCases produces want cases; every case is one crash image.
func kOpenCases(root *vlib.RNG, res *vlib.Result, want, maxBytes, maxText int) (cases []string) {
	nviol := 0
	for attempt := 0; attempt < want*6 && len(cases) < want; attempt++ {
		r := root.Fork()
		w := genOpenWorkload(r)
		w.Seed = r.Uint64() % 1000000
		out := runWorkload(w)
		if out.err != "" {
			res.Count("ko_workload_errors", 1)
			continue
		}
		ops := out.stor.Ops()
		n := len(ops)
		// crash points: around namespace operations and syncs of the second half, inside recoveries, the end
		var pts []int
		inRec := map[int]bool{}
		for _, ri := range out.reopens {
			for d := 1; d < 60 && ri+d <= n; d++ {
				inRec[ri+d] = true
			}
		}
		for i, o := range ops {
			if i < out.openIdx {
				continue
			}
			switch o.Kind {
			case vstor.OpSync, vstor.OpSetMeta, vstor.OpCreate, vstor.OpRemove:
				pts = append(pts, i, i+1)
			default:
				if inRec[i] {
					pts = append(pts, i)
				}
			}
		}
		pts = append(pts, n)
		for t := 0; t < 6 && n > out.openIdx; t++ {
			pts = append(pts, r.Range(out.openIdx, n))
		}
		per := 3
		for t := 0; t < per && len(cases) < want; t++ {
			c := pts[r.Intn(len(pts))]
			if c > n {
				c = n
			}
			pol := vstor.TailPolicy(r.Intn(int(vstor.NumTailPolicies)))
			van := r.Chance(1, 4)
			ps := r.Uint64()
			img := out.stor.ImageAt(c, vstor.ImageOpts{Policy: pol, UnsyncedFilesVanish: van, Rand: rnd(ps)})
			k := koOpts{cid: w.Cfg.CmpID, jck: true, wbuf: []int{256, 512, 1024, 4096}[r.Intn(4)],
				maxman: int64([]int{0, 0, 1, 300}[r.Intn(4)]), blockSize: w.Cfg.BlockSize, restartI: w.Cfg.RestartInterval}
			if k.maxman == 0 {
				k.maxman = 64 << 20
			}
			if r.Chance(1, 8) {
				k.strictJ = true
			}
			if r.Chance(1, 10) {
				// without journal checksums a torn tail may be read as records: outside the property, inside the model
				k.jck = false
			}
			nested, npol := -1, 0
			if r.Chance(1, 4) {
				// crash again inside the recovery of img (run with the workload's own options); the image of an
				// image replays the recovery's operations on top of it
				db, err := leveldb.Open(img, w.Cfg.Options())
				if err != nil {
					img.Discard()
					res.Count("ko_nested_first_open_failed", 1)
					continue
				}
				closeDB(db)
				nested = r.Intn(img.OpCount() + 1)
				npol = r.Intn(int(vstor.NumTailPolicies))
				img2 := img.ImageAt(nested, vstor.ImageOpts{Policy: vstor.TailPolicy(npol), Rand: rnd(ps + 1)})
				img.Discard()
				img = img2
				res.Count("ko_nested_images", 1)
			}
			text, pmsg := openCase(img, k, res, maxBytes, maxText)
			img.Discard()
			if !k.jck {
				pmsg = ""
			}
			if pmsg != "" && nviol < 3 {
				nviol++
				res.Violate(fmt.Sprintf("%s [crash after op %d of %d, policy %s, vanish=%v, nested=%d; reopened with wbuf=%d maxman=%d strictJ=%v; %s]",
					pmsg, c, n, pol, van, nested, k.wbuf, k.maxman, k.strictJ, w.Cfg.String()),
					koReplay{W: w, CrashIdx: c, Policy: int(pol), Vanish: van, PolSeed: ps, Nested: nested, NestedPol: npol, WBuf: k.wbuf, MaxMan: k.maxman, StrictJ: k.strictJ, What: "open-bytes"})
			}
			res.Eval(fmt.Sprintf("ko/%d/%d/%d", w.Seed, c, pol), true)
			if text != "" {
				cases = append(cases, text)
				res.Count("ko_policy_"+pol.String(), 1)
			}
		}
		out.stor.Discard()
	}
	return cases
}

// kOpenDirected: the branches of Open that crash images do not reach — an empty storage (create), ErrorIfMissing,
// ErrorIfExist, files without a meta pointer, a meta pointer to a manifest that is gone, a live table that is gone.
func kOpenDirected(root *vlib.RNG, res *vlib.Result) (cases []string) {
	r := root.Fork()
	base := koOpts{cid: 0, jck: true, wbuf: 1024, maxman: 64 << 20, blockSize: 256, restartI: 4}
	add := func(img *vstor.Stor, k koOpts) {
		if t, _ := openCaseD(img, k, res, 1<<20, 200000, true); t != "" {
			cases = append(cases, t)
		}
		img.Discard()
	}
	// 1-3: empty storage
	add(vstor.New(true), base)
	k := base
	k.errMissing = true
	add(vstor.New(true), k)
	k = base
	k.maxman = 1
	add(vstor.New(true), k)
	// a small closed DB
	var w *wl.Workload
	var out *runOut
	for t := 0; t < 8; t++ {
		w = genOpenWorkload(r)
		w.Cfg.CmpID = 0
		out = runWorkload(w)
		if out.err == "" {
			break
		}
	}
	if out == nil || out.err != "" {
		return
	}
	base.blockSize, base.restartI = w.Cfg.BlockSize, w.Cfg.RestartInterval
	final := func() *vstor.Stor { return out.stor.Clone(true) }
	if tot := out.stor.TotalBytes(storage.TypeAll); tot > 60000 {
		res.Count("ko_directed_db_too_big", 1)
		return
	}
	k = base
	k.errExist = true
	add(final(), k)
	// files without a meta pointer
	img := final()
	img.ClearMeta()
	add(img, base)
	// the manifest the pointer names is gone
	img = final()
	if m, ok := img.Meta(); ok {
		img.DeleteFile(m)
		add(img, base)
	}
	// a live table is gone
	img = final()
	for _, fd := range img.ListAll() {
		if fd.Type == storage.TypeTable {
			img.DeleteFile(fd)
			add(img, base)
			img = nil
			break
		}
	}
	if img != nil {
		img.Discard()
	}
	// a stray journal above everything, a stray table, a temp file, an older manifest
	img = final()
	hi := int64(0)
	for _, fd := range img.ListAll() {
		if fd.Num > hi {
			hi = fd.Num
		}
	}
	img.SetFileBytes(storage.FileDesc{Type: storage.TypeTable, Num: hi + 3}, []byte("stray"))
	img.SetFileBytes(storage.FileDesc{Type: storage.TypeTemp, Num: hi + 4}, []byte("tmp"))
	img.SetFileBytes(storage.FileDesc{Type: storage.TypeJournal, Num: hi + 7}, nil)
	add(img, base)
	// a checksum-valid journal record whose batch header leaves the key range (seq = 2^64-1; count 0 with an
	// empty body, count 1 with one well-formed record): decodeBatchToMem must report 'invalid sequence number';
	// skipped without StrictJournal, Open fails with it
	for _, count := range []uint32{0, 1} {
		for _, strict := range []bool{false, true} {
			img = final()
			rec := make([]byte, 12)
			binary.LittleEndian.PutUint64(rec, ^uint64(0))
			binary.LittleEndian.PutUint32(rec[8:], count)
			if count == 1 {
				rec = append(rec, 1, 1, 'z', 1, 'Z')
			}
			var jb bytes.Buffer
			jw := journal.NewWriter(&jb)
			ww, _ := jw.Next()
			ww.Write(rec)
			jw.Close()
			img.SetFileBytes(storage.FileDesc{Type: storage.TypeJournal, Num: hi + 7}, jb.Bytes())
			k = base
			k.strictJ = strict
			add(img, k)
			res.Count("ko_directed_seq_range_records", 1)
		}
	}
	out.stor.Discard()
	return cases
}

func writeOpenCases(res *vlib.Result, out string, cases []string, shards int) {
	if len(cases) == 0 {
		return
	}
	if shards > len(cases) {
		shards = len(cases)
	}
	// balance the shards by text size
	sort.SliceStable(cases, func(a, b int) bool { return len(cases[a]) > len(cases[b]) })
	bins := make([][]string, shards)
	size := make([]int, shards)
	for _, c := range cases {
		m := 0
		for i := range size {
			if size[i] < size[m] {
				m = i
			}
		}
		bins[m] = append(bins[m], c)
		size[m] += len(c)
	}
	lo := 0
	for i, b := range bins {
		if len(b) == 0 {
			continue
		}
		name := fmt.Sprintf("cases_C04o_%d.v", i)
		var sb strings.Builder
		sb.WriteString("From GL Require Import Corr.C12Run Corr.C04OpenRun.\n")
		sb.WriteString("From Coq Require Import List NArith ZArith String.\nImport ListNotations.\nOpen Scope string_scope.\nOpen Scope N_scope.\n")
		sb.WriteString(fmt.Sprintf("Definition cases : list c04ocase :=\n %s.\n", vlib.CoqList(b)))
		sb.WriteString("Definition M := Eval vm_compute in mismatches_o cases.\nPrint M.\n")
		os.WriteFile(out+"/"+name, []byte(sb.String()), 0o644)
		res.KCaseFiles = append(res.KCaseFiles, fmt.Sprintf("%s:%d", name, lo))
		lo += len(b)
	}
	res.KCases += len(cases)
}

// replayOpen re-runs a stored open-bytes (P) failure.
func replayOpen(rp *koReplay, res *vlib.Result) string {
	out := runWorkload(rp.W)
	if out.err != "" {
		return "workload failed: " + out.err
	}
	img := out.stor.ImageAt(rp.CrashIdx, vstor.ImageOpts{Policy: vstor.TailPolicy(rp.Policy), UnsyncedFilesVanish: rp.Vanish, Rand: rnd(rp.PolSeed)})
	if rp.Nested >= 0 {
		db, err := leveldb.Open(img, rp.W.Cfg.Options())
		if err != nil {
			return "Open of the first image fails: " + err.Error()
		}
		closeDB(db)
		img = img.ImageAt(rp.Nested, vstor.ImageOpts{Policy: vstor.TailPolicy(rp.NestedPol), Rand: rnd(rp.PolSeed + 1)})
	}
	k := koOpts{cid: rp.W.Cfg.CmpID, jck: true, wbuf: rp.WBuf, maxman: rp.MaxMan, strictJ: rp.StrictJ, blockSize: rp.W.Cfg.BlockSize, restartI: rp.W.Cfg.RestartInterval}
	_, pmsg := openCase(img, k, res, 1<<30, 1<<30)
	return pmsg
}

var _ = util.Range{}
