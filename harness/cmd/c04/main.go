// c04: crash at any instant — synced writes survive, batches stay atomic, the DB reopens.
// A workload runs once on the checker's storage with a full operation log; the durable image after a crash
// at any operation index is materialised under each tail policy and reopened with the real Open.
package main

import (
	"bytes"
	"encoding/json"
	"fmt"
	"os"
	"sort"
	"strings"
	"sync"
	"time"

	"github.com/syndtr/goleveldb/leveldb"
	"github.com/syndtr/goleveldb/leveldb/opt"
	"github.com/syndtr/goleveldb/leveldb/util"
	"verifharness/lib/dbh"
	"verifharness/lib/vlib"
	"verifharness/lib/vstor"
)

// Batch is one issued write (every write carries a unique marker key so its presence can be read off).
type Batch struct {
	ID       int       `json:"id"`
	Recs     []dbh.Rec `json:"recs"`
	Sync     bool      `json:"sync"`
	Txn      bool      `json:"txn,omitempty"`
	StartIdx int       `json:"start_idx"`
	AckIdx   int       `json:"ack_idx"`
	OK       bool      `json:"ok"`
}

// Step of a workload (replayable).
type Step struct {
	Kind  string    `json:"kind"` // write | txn | compact | reopen | idle
	Recs  []dbh.Rec `json:"recs,omitempty"`
	Sync  bool      `json:"sync,omitempty"`
	Parts int       `json:"parts,omitempty"` // txn: number of Write calls the records are split into
}

type Workload struct {
	Seed  uint64  `json:"seed"`
	Cfg   dbh.Cfg `json:"cfg"`
	Steps []Step  `json:"steps"`
}

func marker(id int) []byte { return []byte(fmt.Sprintf("\x01m%06d", id)) }

func genWorkload(r *vlib.RNG, nsteps int) *Workload {
	cfg := dbh.RandomCfg(r)
	cfg.MaxManifest = int64([]int{0, 1, 512, 512}[r.Intn(4)])
	cfg.NoSync = false // the NoSync option waives durability altogether; the property is about the sync write option
	if cfg.WriteBuffer > 8192 {
		cfg.WriteBuffer = []int{1024, 2048, 4096}[r.Intn(3)]
	}
	pool := dbh.GenPool(r, r.Range(6, 40), false)
	w := &Workload{Cfg: cfg}
	var tag uint64
	mkrecs := func(n int, big bool) []dbh.Rec {
		var recs []dbh.Rec
		for i := 0; i < n; i++ {
			k := pool[r.Intn(len(pool))]
			tag++
			if r.Chance(1, 5) {
				recs = append(recs, dbh.Rec{Del: true, K: k})
			} else {
				v := dbh.GenValue(r, cfg, k, tag)
				if len(v) > 3000 {
					v = v[:3000]
				}
				if big && len(v) < 200 {
					v = append(v, bytes.Repeat([]byte{'q'}, 300)...)
				}
				recs = append(recs, dbh.Rec{K: k, V: v})
			}
		}
		return recs
	}
	for len(w.Steps) < nsteps {
		switch r.Pick(50, 6, 4, 3, 3, 2) {
		case 0:
			w.Steps = append(w.Steps, Step{Kind: "write", Recs: mkrecs(r.Range(1, 4), false), Sync: r.Chance(1, 2)})
		case 1: // oversized batch
			n := cfg.WriteBuffer/300 + 2
			w.Steps = append(w.Steps, Step{Kind: "write", Recs: mkrecs(n, true), Sync: r.Chance(1, 2)})
		case 2:
			w.Steps = append(w.Steps, Step{Kind: "txn", Recs: mkrecs(r.Range(1, 30), r.Chance(1, 2)), Parts: r.Range(1, 3)})
		case 3:
			w.Steps = append(w.Steps, Step{Kind: "compact"})
		case 4:
			w.Steps = append(w.Steps, Step{Kind: "reopen"})
		case 5:
			w.Steps = append(w.Steps, Step{Kind: "idle"})
		}
	}
	return w
}

type runOut struct {
	stor    *vstor.Stor
	batches []*Batch
	openIdx int // op count when the first Open returned
	err     string
	jobs    []int // op indexes at which background edits were committed (for classification)
}

func mkBatch(recs []dbh.Rec) *leveldb.Batch {
	b := new(leveldb.Batch)
	for _, rec := range recs {
		if rec.Del {
			b.Delete(rec.K)
		} else {
			b.Put(rec.K, rec.V)
		}
	}
	return b
}

func runWorkload(w *Workload) (out runOut) {
	stor := vstor.New(true)
	out.stor = stor
	o := w.Cfg.Options()
	db, err := leveldb.Open(stor, o)
	if err != nil {
		out.err = "initial Open: " + err.Error()
		return
	}
	out.openIdx = stor.OpCount()
	syncOK := !w.Cfg.NoSync
	id := 0
	defer func() {
		if x := recover(); x != nil {
			out.err = fmt.Sprintf("panic during workload: %v", x)
		}
	}()
	for _, st := range w.Steps {
		switch st.Kind {
		case "write":
			b := &Batch{ID: id, Sync: st.Sync && syncOK}
			id++
			b.Recs = append([]dbh.Rec{{K: marker(b.ID), V: []byte{1}}}, st.Recs...)
			b.StartIdx = stor.OpCount()
			err := db.Write(mkBatch(b.Recs), &opt.WriteOptions{Sync: st.Sync})
			b.AckIdx = stor.OpCount()
			b.OK = err == nil
			out.batches = append(out.batches, b)
			if err != nil {
				out.err = "Write: " + err.Error()
				return
			}
		case "txn":
			b := &Batch{ID: id, Sync: syncOK, Txn: true}
			id++
			b.Recs = append([]dbh.Rec{{K: marker(b.ID), V: []byte{1}}}, st.Recs...)
			b.StartIdx = stor.OpCount()
			tr, err := db.OpenTransaction()
			if err != nil {
				out.err = "OpenTransaction: " + err.Error()
				return
			}
			parts := st.Parts
			if parts < 1 {
				parts = 1
			}
			per := (len(b.Recs) + parts - 1) / parts
			for i := 0; i < len(b.Recs); i += per {
				j := i + per
				if j > len(b.Recs) {
					j = len(b.Recs)
				}
				if err := tr.Write(mkBatch(b.Recs[i:j]), nil); err != nil {
					out.err = "Transaction.Write: " + err.Error()
					return
				}
			}
			err = tr.Commit()
			b.AckIdx = stor.OpCount()
			b.OK = err == nil
			out.batches = append(out.batches, b)
			if err != nil {
				out.err = "Commit: " + err.Error()
				return
			}
		case "compact":
			if err := db.CompactRange(util.Range{}); err != nil {
				out.err = "CompactRange: " + err.Error()
				return
			}
		case "idle":
			leveldb.VerifWaitIdle(db, 20*time.Second)
		case "reopen":
			if err := db.Close(); err != nil {
				out.err = "Close: " + err.Error()
				return
			}
			db, err = leveldb.Open(stor, o)
			if err != nil {
				out.err = "reopen: " + err.Error()
				return
			}
		}
	}
	if err := db.Close(); err != nil {
		out.err = "final Close: " + err.Error()
	}
	return
}

func scan(db *leveldb.DB) (map[string][]byte, error) {
	m := map[string][]byte{}
	it := db.NewIterator(nil, nil)
	defer it.Release()
	for it.Next() {
		m[string(it.Key())] = append([]byte{}, it.Value()...)
	}
	return m, it.Error()
}

// checkImage reopens one crash image and evaluates the property; returns "" when it holds.
func checkImage(w *Workload, batches []*Batch, img *vstor.Stor, crashIdx int, usable bool) (msg string) {
	defer func() {
		if x := recover(); x != nil {
			msg = fmt.Sprintf("panic while reopening the crash image: %v", x)
		}
	}()
	o := w.Cfg.Options()
	done := make(chan struct{})
	var db *leveldb.DB
	var err error
	go func() { db, err = leveldb.Open(img, o); close(done) }()
	select {
	case <-done:
	case <-time.After(60 * time.Second):
		return "Open of the crash image did not return within 60 s"
	}
	if err != nil {
		return "Open of the crash image fails: " + err.Error()
	}
	defer db.Close()
	got, err := scan(db)
	if err != nil {
		return "scan of the recovered DB fails: " + err.Error()
	}
	delete(got, "\x01usable") // written by an earlier usability probe on the same image (nested crashes)
	exp := map[string][]byte{}
	for _, b := range batches {
		_, keep := got[string(marker(b.ID))]
		if b.StartIdx > crashIdx && keep {
			return fmt.Sprintf("batch %d was issued after the crash point yet its marker is present", b.ID)
		}
		if b.OK && b.Sync && b.AckIdx <= crashIdx && !keep {
			kind := "write"
			if b.Txn {
				kind = "committed transaction"
			}
			return fmt.Sprintf("%s %d was acknowledged with sync at op %d (crash at op %d) but is absent after recovery", kind, b.ID, b.AckIdx, crashIdx)
		}
		if keep {
			for _, rec := range b.Recs {
				if rec.Del {
					delete(exp, string(rec.K))
				} else {
					exp[string(rec.K)] = rec.V
				}
			}
		}
	}
	if len(got) != len(exp) {
		for k := range got {
			if _, ok := exp[k]; !ok {
				return fmt.Sprintf("recovered DB holds key %x which no kept batch leaves behind (batches not atomic or data invented): %d keys vs %d expected", k, len(got), len(exp))
			}
		}
		for k := range exp {
			if _, ok := got[k]; !ok {
				return fmt.Sprintf("recovered DB lacks key %x of a batch whose marker is present (batch not atomic): %d keys vs %d expected", k, len(got), len(exp))
			}
		}
	}
	for k, v := range exp {
		if gv, ok := got[k]; !ok || !bytes.Equal(gv, v) {
			return fmt.Sprintf("recovered value of key %x differs from what the kept batches, applied in order, produce (have %d bytes, want %d bytes, present=%v)", k, len(gv), len(v), ok)
		}
	}
	if usable {
		k := []byte("\x01usable")
		if err := db.Put(k, []byte("yes"), &opt.WriteOptions{Sync: true}); err != nil {
			return "Put on the recovered DB fails: " + err.Error()
		}
		if err := db.CompactRange(util.Range{}); err != nil {
			return "CompactRange on the recovered DB fails: " + err.Error()
		}
		if v, err := db.Get(k, nil); err != nil || string(v) != "yes" {
			return fmt.Sprintf("Get after Put on the recovered DB: %q %v", v, err)
		}
		got2, err := scan(db)
		if err != nil {
			return "scan after use fails: " + err.Error()
		}
		delete(got2, string(k))
		if len(got2) != len(exp) {
			return fmt.Sprintf("contents changed by compaction on the recovered DB: %d keys vs %d", len(got2), len(exp))
		}
		for kk, v := range exp {
			if !bytes.Equal(got2[kk], v) {
				return fmt.Sprintf("value of %x changed by compaction on the recovered DB", kk)
			}
		}
	}
	return ""
}

type caseRef struct {
	W        *Workload `json:"workload"`
	CrashIdx int       `json:"crash_idx"`
	Policy   int       `json:"policy"`
	Vanish   bool      `json:"unsynced_files_vanish"`
	Nested   int       `json:"nested_crash_idx"` // -1 = none
	PolSeed  uint64    `json:"policy_seed"`
	What     string    `json:"what,omitempty"`
}

func rnd(seed uint64) func() uint64 {
	x := seed*0x9e3779b97f4a7c15 + 1
	return func() uint64 { x ^= x << 13; x ^= x >> 7; x ^= x << 17; return x }
}

// evalCase re-runs the workload (the op log depends on background timing, so replays re-run it several
// times) and checks the given crash point; used for --replay.
func evalCase(c *caseRef, tries int) string {
	for t := 0; t < tries; t++ {
		out := runWorkload(c.W)
		if out.err != "" {
			return "workload error: " + out.err
		}
		n := out.stor.OpCount()
		lo, hi := c.CrashIdx-40, c.CrashIdx+40
		if lo < out.openIdx {
			lo = out.openIdx
		}
		if hi > n {
			hi = n
		}
		for i := lo; i <= hi; i++ {
			img := out.stor.ImageAt(i, vstor.ImageOpts{Policy: vstor.TailPolicy(c.Policy), UnsyncedFilesVanish: c.Vanish, Rand: rnd(c.PolSeed + uint64(i))})
			if m := checkImage(c.W, out.batches, img, i, false); m != "" {
				return fmt.Sprintf("%s [crash after op %d of %d, policy %s, vanish=%v]", m, i, n, vstor.TailPolicy(c.Policy), c.Vanish)
			}
		}
	}
	return ""
}

func main() {
	a := vlib.ParseArgs()
	res := vlib.NewResult("C04", a.Out, "workloads of marker-carrying batches (single writes, multi-record and oversized batches, transactions, sync/no-sync mix, CompactRange, reopen; tiny buffers; MaxManifestFileSize in {default,1,512}) run once on the checker's storage; for crash points = operation indexes (all indexes around every Sync/SetMeta/Create/Remove/Rename plus a uniform sample) x tail policies {lost, kept, cut, cut+zeros, cut+garbage} x {never-synced files vanish or not} the durable image is reopened with the real Open and compared with the kept-batch oracle; nested: the recovery's own op log is cut again; non-trivial = crash point inside a flush, compaction, manifest rotation or recovery (within 3 ops of a table/manifest Create, Sync, SetMeta or Remove)")
	defer res.Write()
	if a.Replay != "" {
		b, err := os.ReadFile(a.Replay)
		if err != nil {
			fmt.Println("cannot read replay:", err)
			return
		}
		var wr struct {
			Case caseRef `json:"case"`
		}
		if err := json.Unmarshal(b, &wr); err != nil || wr.Case.W == nil {
			fmt.Println("cannot parse replay:", err)
			return
		}
		res.Eval("replay", true)
		res.Eval("replay2", true)
		if m := evalCase(&wr.Case, 5); m != "" {
			fmt.Println("replay fails:", m)
			res.Violate(m, wr.Case)
		} else {
			fmt.Println("replay passes")
		}
		return
	}
	nwork, nsteps, perWork := 10, 120, 260
	if a.Thorough() {
		nwork, nsteps, perWork = 200, 300, 3000
	}
	if strings.Contains(a.Extra, "search") {
		nwork *= 3
	}
	root := vlib.NewRNG(a.Seed)
	type job struct {
		w    *Workload
		out  runOut
		i    int
		pol  vstor.TailPolicy
		van  bool
		ps   uint64
		us   bool
		nest bool
	}
	jobs := make(chan job, 64)
	var wg sync.WaitGroup
	var vmu sync.Mutex
	nviol := 0
	for k := 0; k < 16; k++ {
		wg.Add(1)
		go func() {
			defer wg.Done()
			for j := range jobs {
				img := j.out.stor.ImageAt(j.i, vstor.ImageOpts{Policy: j.pol, UnsyncedFilesVanish: j.van, Rand: rnd(j.ps)})
				m := checkImage(j.w, j.out.batches, img, j.i, j.us)
				nested := -1
				if m == "" && j.nest {
					// crash again inside the recovery that just ran on img
					nops := img.OpCount()
					r2 := vlib.NewRNG(j.ps)
					for t := 0; t < 3 && m == ""; t++ {
						nested = r2.Intn(nops + 1)
						img2 := img.ImageAt(nested, vstor.ImageOpts{Policy: vstor.TailPolicy(r2.Intn(int(vstor.NumTailPolicies))), Rand: rnd(j.ps + uint64(t))})
						m = checkImage(j.w, j.out.batches, img2, j.i, false)
						res.Count("nested_crash_points", 1)
						if m != "" {
							m = "after a second crash at op " + fmt.Sprint(nested) + " of the recovery: " + m
						}
					}
				}
				nontriv := false
				ops := j.out.stor.Ops()
				for d := -3; d <= 3; d++ {
					if x := j.i + d; x >= 0 && x < len(ops) {
						o := ops[x]
						if (o.Kind == vstor.OpSync || o.Kind == vstor.OpSetMeta || o.Kind == vstor.OpCreate || o.Kind == vstor.OpRemove || o.Kind == vstor.OpRename) && (o.Fd.Type&(4|1)) != 0 {
							nontriv = true
						}
					}
				}
				res.Eval(fmt.Sprintf("%d/%d/%d/%v", j.w.Seed, j.i, j.pol, j.van), nontriv)
				res.Count("policy_"+j.pol.String(), 1)
				if m != "" {
					vmu.Lock()
					if nviol < 5 {
						nviol++
						desc := fmt.Sprintf("%s [crash after op %d of %d, policy %s, vanish=%v; %s]", m, j.i, len(ops), j.pol, j.van, j.w.Cfg.String())
						res.Violate(desc, caseRef{W: j.w, CrashIdx: j.i, Policy: int(j.pol), Vanish: j.van, Nested: nested, PolSeed: j.ps, What: m})
					}
					vmu.Unlock()
				}
			}
		}()
	}
	for wi := 0; wi < nwork; wi++ {
		r := root.Fork()
		w := genWorkload(r, r.Range(nsteps/2, nsteps))
		w.Seed = a.Seed*1000 + uint64(wi)
		out := runWorkload(w)
		if out.err != "" {
			res.Violate("workload failed without any crash: "+out.err+" ["+w.Cfg.String()+"]", caseRef{W: w, Nested: -1})
			continue
		}
		ops := out.stor.Ops()
		n := len(ops)
		res.Count("workloads", 1)
		res.Count("storage_ops", n)
		res.Count("batches", len(out.batches))
		if wi < 2 {
			res.Sample(map[string]interface{}{"cfg": w.Cfg.String(), "steps": len(w.Steps), "storage_ops": n, "batches": len(out.batches), "first_steps": w.Steps[:3]})
		}
		// crash points: everything near namespace/sync operations, plus a uniform sample
		pts := map[int]bool{n: true}
		for i, o := range ops {
			if i < out.openIdx {
				continue
			}
			switch o.Kind {
			case vstor.OpSync, vstor.OpSetMeta, vstor.OpCreate, vstor.OpRemove, vstor.OpRename:
				for d := -1; d <= 2; d++ {
					if x := i + d; x >= out.openIdx && x <= n {
						pts[x] = true
					}
				}
			}
		}
		var all []int
		for p := range pts {
			all = append(all, p)
		}
		sort.Ints(all)
		for len(all) > perWork*2/3 {
			all = append(all[:r.Intn(len(all))], all[r.Intn(len(all))+0:]...)[:len(all)-1]
		}
		for len(all) < perWork && n > out.openIdx {
			all = append(all, r.Range(out.openIdx, n))
		}
		for _, i := range all {
			pol := vstor.TailPolicy(r.Intn(int(vstor.NumTailPolicies)))
			jobs <- job{w: w, out: out, i: i, pol: pol, van: r.Chance(1, 4), ps: r.Uint64(), us: r.Chance(1, 10), nest: r.Chance(1, 12)}
		}
	}
	close(jobs)
	wg.Wait()
}
