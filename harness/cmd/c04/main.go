// c04: crash at any instant — synced writes survive, batches stay atomic, the DB reopens.
// A workload runs once on the checker's storage with a full operation log; the durable image after a crash
// at any operation index is materialised under each tail policy and reopened with the real Open.
package main

import (
	"bytes"
	"encoding/json"
	"fmt"
	"os"
	"runtime"
	"sort"
	"strings"
	"sync"
	"sync/atomic"
	"time"

	"github.com/syndtr/goleveldb/leveldb"
	"github.com/syndtr/goleveldb/leveldb/opt"
	"github.com/syndtr/goleveldb/leveldb/storage"
	"github.com/syndtr/goleveldb/leveldb/util"
	"verifharness/lib/dbh"
	"verifharness/lib/vlib"
	"verifharness/lib/vstor"
	"verifharness/lib/wl"
)

type editEv struct {
	idx     int // storage op count when the commit hook ran (manifest written and synced)
	flush   bool
	txn     bool
	nAdded  int
	nDelete int
}

type runOut struct {
	stor    *vstor.Stor
	batches []*wl.Batch
	openIdx int // op count when the first Open returned
	err     string
	mu      sync.Mutex
	edits   []editEv
	reopens []int // op count right after each Close that precedes a reopen
}

var (
	hookOnce sync.Once
	outs     sync.Map // storage.Storage -> *runOut
)

func installHook() {
	hookOnce.Do(func() {
		leveldb.VerifSetCommitHook(func(e leveldb.VerifEdit) {
			if f, ok := openHooks.Load(e.Stor); ok {
				f.(func(leveldb.VerifEdit))(e)
				return
			}
			x, ok := outs.Load(e.Stor)
			if !ok {
				return
			}
			o := x.(*runOut)
			ev := editEv{idx: o.stor.OpCount(), flush: e.HasJournal, txn: !e.HasJournal && e.HasSeq, nAdded: len(e.Added), nDelete: len(e.Deleted)}
			o.mu.Lock()
			o.edits = append(o.edits, ev)
			o.mu.Unlock()
		})
	})
}

func runWorkload(w *wl.Workload) (out *runOut) {
	out = &runOut{}
	stor := vstor.New(true)
	out.stor = stor
	installHook()
	outs.Store(stor, out)
	defer outs.Delete(stor)
	o := w.Cfg.Options()
	db, err := leveldb.Open(stor, o)
	if err != nil {
		out.err = "initial Open: " + err.Error()
		return
	}
	out.openIdx = stor.OpCount()
	syncOK := !w.Cfg.NoSync
	id := 0
	defer func() {
		if x := recover(); x != nil {
			out.err = fmt.Sprintf("panic during workload: %v", x)
		}
	}()
	for _, st := range w.Steps {
		switch st.Kind {
		case "write":
			b := &wl.Batch{ID: id, Sync: st.Sync && syncOK}
			id++
			b.Recs = append([]dbh.Rec{{K: wl.Marker(b.ID), V: []byte{1}}}, st.Recs...)
			b.StartIdx = stor.OpCount()
			err := db.Write(wl.MkBatch(b.Recs), &opt.WriteOptions{Sync: st.Sync})
			b.AckIdx = stor.OpCount()
			b.OK = err == nil
			out.batches = append(out.batches, b)
			if err != nil {
				out.err = "Write: " + err.Error()
				return
			}
		case "txn":
			b := &wl.Batch{ID: id, Sync: syncOK, Txn: true}
			id++
			b.Recs = append([]dbh.Rec{{K: wl.Marker(b.ID), V: []byte{1}}}, st.Recs...)
			b.StartIdx = stor.OpCount()
			tr, err := db.OpenTransaction()
			if err != nil {
				out.err = "OpenTransaction: " + err.Error()
				return
			}
			parts := st.Parts
			if parts < 1 {
				parts = 1
			}
			per := (len(b.Recs) + parts - 1) / parts
			for i := 0; i < len(b.Recs); i += per {
				j := i + per
				if j > len(b.Recs) {
					j = len(b.Recs)
				}
				if err := tr.Write(wl.MkBatch(b.Recs[i:j]), nil); err != nil {
					out.err = "Transaction.Write: " + err.Error()
					return
				}
			}
			err = tr.Commit()
			b.AckIdx = stor.OpCount()
			b.OK = err == nil
			out.batches = append(out.batches, b)
			if err != nil {
				out.err = "Commit: " + err.Error()
				return
			}
		case "cwrite":
			// concurrent writers (write merge): each writes one marker batch over its own keys with its own Sync
			// option; a writer that asked for Sync and got nil must survive any crash after its call returned,
			// whoever led the group its write was merged into
			k := st.Parts
			if k < 2 {
				k = 2
			}
			bs := make([]*wl.Batch, k)
			start := stor.OpCount()
			var wg sync.WaitGroup
			for j := 0; j < k; j++ {
				b := &wl.Batch{ID: id, Sync: j < len(st.Syncs) && st.Syncs[j] && syncOK, StartIdx: start}
				id++
				b.Recs = []dbh.Rec{{K: wl.Marker(b.ID), V: []byte{1}}}
				if j%2 == 0 {
					// a multi-record batch through DB.Write; odd writers issue a single DB.Put of their marker
					// (Put/Delete requests are merged by another path of the leader's loop than batches)
					for ri := j; ri < len(st.Recs); ri += k {
						rec := st.Recs[ri]
						rec.K = append([]byte(fmt.Sprintf("\x02cw%05d.", b.ID)), rec.K...)
						b.Recs = append(b.Recs, rec)
					}
				}
				bs[j] = b
			}
			for j := 0; j < k; j++ {
				wg.Add(1)
				go func(b *wl.Batch) {
					defer wg.Done()
					var err error
					if len(b.Recs) == 1 {
						err = db.Put(b.Recs[0].K, b.Recs[0].V, &opt.WriteOptions{Sync: b.Sync})
					} else {
						err = db.Write(wl.MkBatch(b.Recs), &opt.WriteOptions{Sync: b.Sync})
					}
					b.AckIdx = stor.OpCount()
					b.OK = err == nil
				}(bs[j])
			}
			wg.Wait()
			for _, b := range bs {
				out.batches = append(out.batches, b)
				if !b.OK {
					out.err = "concurrent Write failed"
					return
				}
			}
		case "compact":
			if err := db.CompactRange(util.Range{}); err != nil {
				out.err = "CompactRange: " + err.Error()
				return
			}
		case "idle":
			leveldb.VerifWaitIdle(db, 20*time.Second)
		case "reopen":
			if err := db.Close(); err != nil {
				out.err = "Close: " + err.Error()
				return
			}
			leveldb.VerifForget(db)
			out.reopens = append(out.reopens, stor.OpCount())
			db, err = leveldb.Open(stor, o)
			if err != nil {
				out.err = "reopen: " + err.Error()
				return
			}
		}
	}
	if err := db.Close(); err != nil {
		out.err = "final Close: " + err.Error()
	}
	leveldb.VerifForget(db)
	return
}

// closeDB closes a DB and removes it from the hooks' process-wide tables (see leveldb.VerifForget).
func closeDB(db *leveldb.DB) {
	db.Close()
	leveldb.VerifForget(db)
}

// checkImage reopens one crash image and evaluates the property; returns "" when it holds.
func checkImage(w *wl.Workload, batches []*wl.Batch, img *vstor.Stor, crashIdx int, usable bool) (msg string) {
	defer func() {
		if x := recover(); x != nil {
			msg = fmt.Sprintf("panic while reopening the crash image: %v", x)
		}
	}()
	o := w.Cfg.Options()
	done := make(chan struct{})
	var db *leveldb.DB
	var err error
	go func() { db, err = leveldb.Open(img, o); close(done) }()
	select {
	case <-done:
	case <-time.After(60 * time.Second):
		return "Open of the crash image did not return within 60 s"
	}
	if err != nil {
		return "Open of the crash image fails: " + err.Error()
	}
	defer closeDB(db)
	got, err := wl.Scan(db)
	if err != nil {
		return "scan of the recovered DB fails: " + err.Error()
	}
	delete(got, "\x01usable") // written by an earlier usability probe on the same image (nested crashes)
	exp := map[string][]byte{}
	for _, b := range batches {
		_, keep := got[string(wl.Marker(b.ID))]
		if b.StartIdx > crashIdx && keep {
			return fmt.Sprintf("batch %d was issued after the crash point yet its marker is present", b.ID)
		}
		if b.OK && b.Sync && b.AckIdx <= crashIdx && !keep {
			kind := "write"
			if b.Txn {
				kind = "committed transaction"
			}
			return fmt.Sprintf("%s %d was acknowledged with sync at op %d (crash at op %d) but is absent after recovery", kind, b.ID, b.AckIdx, crashIdx)
		}
		if keep {
			for _, rec := range b.Recs {
				if rec.Del {
					delete(exp, string(rec.K))
				} else {
					exp[string(rec.K)] = rec.V
				}
			}
		}
	}
	if len(got) != len(exp) {
		for k := range got {
			if _, ok := exp[k]; !ok {
				return fmt.Sprintf("recovered DB holds key %x which no kept batch leaves behind (batches not atomic or data invented): %d keys vs %d expected", k, len(got), len(exp))
			}
		}
		for k := range exp {
			if _, ok := got[k]; !ok {
				return fmt.Sprintf("recovered DB lacks key %x of a batch whose marker is present (batch not atomic): %d keys vs %d expected", k, len(got), len(exp))
			}
		}
	}
	for k, v := range exp {
		if gv, ok := got[k]; !ok || !bytes.Equal(gv, v) {
			return fmt.Sprintf("recovered value of key %x differs from what the kept batches, applied in order, produce (have %d bytes, want %d bytes, present=%v)", k, len(gv), len(v), ok)
		}
	}
	if usable {
		k := []byte("\x01usable")
		if err := db.Put(k, []byte("yes"), &opt.WriteOptions{Sync: true}); err != nil {
			return "Put on the recovered DB fails: " + err.Error()
		}
		if err := db.CompactRange(util.Range{}); err != nil {
			return "CompactRange on the recovered DB fails: " + err.Error()
		}
		if v, err := db.Get(k, nil); err != nil || string(v) != "yes" {
			return fmt.Sprintf("Get after Put on the recovered DB: %q %v", v, err)
		}
		got2, err := wl.Scan(db)
		if err != nil {
			return "scan after use fails: " + err.Error()
		}
		delete(got2, string(k))
		if len(got2) != len(exp) {
			return fmt.Sprintf("contents changed by compaction on the recovered DB: %d keys vs %d", len(got2), len(exp))
		}
		for kk, v := range exp {
			if !bytes.Equal(got2[kk], v) {
				return fmt.Sprintf("value of %x changed by compaction on the recovered DB", kk)
			}
		}
	}
	return ""
}

// ---- (K) correspondence with the record-level persistence model (Store/Crash.v) ----

type kev struct {
	idx, ord int
	op       string
}

// kEvents translates what was observed (op log, batch windows, committed edits) into model operations.
func kEvents(out *runOut) []kev {
	ops := out.stor.Ops()
	var evs []kev
	ord := 0
	add := func(idx int, op string) { evs = append(evs, kev{idx, ord, op}); ord++ }
	for _, b := range out.batches {
		txnIdx := -1
		for _, e := range out.edits {
			if e.txn && e.idx > b.StartIdx && e.idx <= b.AckIdx {
				txnIdx = e.idx
			}
		}
		if txnIdx >= 0 {
			if os.Getenv("C04_DEBUG") == "2" {
				fmt.Fprintf(os.Stderr, "TXN batch start=%d ack=%d txnIdx=%d\n", b.StartIdx, b.AckIdx, txnIdx)
				for i := b.StartIdx; i < b.AckIdx && i < len(ops); i++ {
					if ops[i].Kind != vstor.OpRead && ops[i].Kind != vstor.OpWrite || ops[i].Fd.Type <= 2 {
						fmt.Fprintf(os.Stderr, "   %s\n", ops[i])
					}
				}
				for _, e := range out.edits {
					if e.idx > b.StartIdx && e.idx <= b.AckIdx {
						fmt.Fprintf(os.Stderr, "   edit %+v\n", e)
					}
				}
			}
			add(txnIdx-1, fmt.Sprintf("PTxnCommit %d", len(b.Recs)))
			continue
		}
		widx, synced := -1, false
		for i := b.StartIdx; i < b.AckIdx && i < len(ops); i++ {
			if ops[i].Fd.Type == 2 && ops[i].Kind == vstor.OpWrite && ops[i].N > 0 {
				widx = i
			}
			if ops[i].Fd.Type == 2 && ops[i].Kind == vstor.OpSync && widx >= 0 {
				synced = true
			}
		}
		if widx < 0 {
			return nil // cannot place this batch: give up on this workload
		}
		add(widx, fmt.Sprintf("PWrite %d %v", len(b.Recs), synced))
	}
	for i, o := range ops {
		if i < out.openIdx || o.Fd.Type != 2 || o.Fail {
			continue
		}
		switch o.Kind {
		case vstor.OpCreate:
			add(i, "PRotate")
		case vstor.OpRemove:
			add(i, "PDropFrozen")
		}
	}
	for _, ri := range out.reopens {
		// a clean close keeps everything written; reopening replays it into memory, the flushes that follow
		// are ordinary events
		add(ri-1, "PReopen")
	}
	for _, e := range out.edits {
		if e.idx < out.openIdx {
			continue
		}
		switch {
		case e.flush:
			add(e.idx-1, "PFlushEdit")
			add(e.idx-1, "PManSync")
		case e.txn:
		default:
			add(e.idx-1, "PCompactEdit")
			add(e.idx-1, "PManSync")
		}
	}
	sort.SliceStable(evs, func(i, j int) bool {
		if evs[i].idx != evs[j].idx {
			return evs[i].idx < evs[j].idx
		}
		return evs[i].ord < evs[j].ord
	})
	if os.Getenv("C04_DEBUG") == "3" {
		live, frozen := 0, -1
		for k, e := range evs {
			switch {
			case strings.HasPrefix(e.op, "PWrite"):
				live++
			case e.op == "PRotate":
				if frozen < 0 {
					frozen, live = live, 0
				}
			case e.op == "PDropFrozen":
				frozen = -1
			case strings.HasPrefix(e.op, "PTxn"):
				if live != 0 || frozen >= 0 {
					fmt.Fprintf(os.Stderr, "TXN-PRECOND live=%d frozen=%d at ev %d idx=%d\n", live, frozen, k, e.idx)
					lo := evs[k].idx - 60
					for i := lo; i <= evs[k].idx+2 && i < len(ops); i++ {
						if i >= 0 && (ops[i].Kind != vstor.OpRead && ops[i].Kind != vstor.OpWrite || ops[i].Fd.Type <= 2) {
							fmt.Fprintf(os.Stderr, "   %s\n", ops[i])
						}
					}
					for _, b := range out.batches {
						if b.AckIdx > lo && b.StartIdx <= e.idx+2 {
							fmt.Fprintf(os.Stderr, "   batch %d [%d,%d] n=%d txn=%v\n", b.ID, b.StartIdx, b.AckIdx, len(b.Recs), b.Txn)
						}
					}
					st := k - 8
					if st < 0 {
						st = 0
					}
					for _, x := range evs[st : k+1] {
						fmt.Fprintf(os.Stderr, "   ev @%d %s\n", x.idx, x.op)
					}
				}
			}
		}
	}
	return evs
}

// kPointOK: the crash point is not inside a write/transaction call and no manifest write is awaiting its sync.
func kPointOK(out *runOut, c int) bool {
	if c < out.openIdx {
		return false
	}
	for _, b := range out.batches {
		if b.StartIdx < c && c < b.AckIdx {
			return false
		}
	}
	ops := out.stor.Ops()
	// an edit is durable from the manifest Sync that follows its record, but it is logged when the commit hook runs;
	// other goroutines' storage operations may fall between the two: a crash point in that gap already holds an edit
	// that the event list up to the point does not — not a point the record-level comparison can use
	for _, e := range out.edits {
		if e.idx > c {
			for i := e.idx - 1; i >= 0 && i >= c-400; i-- {
				if i < len(ops) && ops[i].Fd.Type == storage.TypeManifest && ops[i].Kind == vstor.OpSync {
					if i < c {
						return false
					}
					break
				}
			}
		}
	}
	pending := false
	for i := 0; i < c && i < len(ops); i++ {
		if ops[i].Fd.Type == 1 && ops[i].Kind == vstor.OpWrite {
			pending = true
		}
		if ops[i].Fd.Type == 1 && ops[i].Kind == vstor.OpSync {
			pending = false
		}
	}
	return !pending
}

// keptOf reopens an image and returns the issue indexes of the batches whose marker is present.
func keptOf(w *wl.Workload, batches []*wl.Batch, img *vstor.Stor) ([]int, error) {
	db, err := leveldb.Open(img, w.Cfg.Options())
	if err != nil {
		return nil, err
	}
	defer closeDB(db)
	got, err := wl.Scan(db)
	if err != nil {
		return nil, err
	}
	var kept []int
	for i, b := range batches {
		if _, ok := got[string(wl.Marker(b.ID))]; ok {
			kept = append(kept, i)
		}
	}
	return kept, nil
}

func kCases(w *wl.Workload, out *runOut, r *vlib.RNG, max int) []string {
	evs := kEvents(out)
	if evs == nil {
		return nil
	}
	cands := map[int]bool{out.stor.OpCount(): true}
	for _, b := range out.batches {
		cands[b.AckIdx] = true
	}
	for _, e := range evs {
		cands[e.idx+1] = true
	}
	var pts []int
	for c := range cands {
		if kPointOK(out, c) {
			pts = append(pts, c)
		}
	}
	sort.Ints(pts)
	var cases []string
	for len(cases) < max && len(pts) > 0 {
		i := r.Intn(len(pts))
		c := pts[i]
		pts = append(pts[:i], pts[i+1:]...)
		var mops []string
		nw := 0
		for _, e := range evs {
			if e.idx < c {
				mops = append(mops, e.op)
				if strings.HasPrefix(e.op, "PWrite") || strings.HasPrefix(e.op, "PTxn") {
					nw++
				}
			}
		}
		nb := 0
		for _, b := range out.batches {
			if b.AckIdx <= c {
				nb++
			}
		}
		if nw != nb && os.Getenv("C04_DEBUG") != "" {
			fmt.Fprintf(os.Stderr, "K-DEBUG c=%d events=%d batches=%d\n", c, nw, nb)
			for i, b := range out.batches {
				if b.AckIdx <= c+50 && b.AckIdx >= c-200 {
					fmt.Fprintf(os.Stderr, "  batch %d start=%d ack=%d n=%d sync=%v\n", i, b.StartIdx, b.AckIdx, len(b.Recs), b.Sync)
				}
			}
			for _, e := range evs {
				if e.idx >= c-200 && e.idx <= c+50 {
					fmt.Fprintf(os.Stderr, "  ev %d %s\n", e.idx, e.op)
				}
			}
		}
		for _, keepAll := range []bool{false, true} {
			pol := vstor.TailLost
			if keepAll {
				pol = vstor.TailKept
			}
			img := out.stor.ImageAt(c, vstor.ImageOpts{Policy: pol})
			kept, err := keptOf(w, out.batches, img)
			if err != nil {
				continue
			}
			var ks []string
			for _, k := range kept {
				ks = append(ks, fmt.Sprint(k))
				if os.Getenv("C04_DEBUG") != "" && out.batches[k].AckIdx > c {
					b := out.batches[k]
					fmt.Fprintf(os.Stderr, "K-DEBUG2 c=%d keepAll=%v batch %d kept but start=%d ack=%d n=%d\n", c, keepAll, k, b.StartIdx, b.AckIdx, len(b.Recs))
				}
			}
			if os.Getenv("C04_DEBUG") != "" {
				prev := -1
				for _, k := range kept {
					if k != prev+1 {
						b := out.batches[prev+1]
						fmt.Fprintf(os.Stderr, "K-DEBUG3 c=%d keepAll=%v batch %d missing start=%d ack=%d n=%d sync=%v txn=%v\n", c, keepAll, prev+1, b.StartIdx, b.AckIdx, len(b.Recs), b.Sync, b.Txn)
					}
					prev = k
				}
			}
			dbg := ""
			if os.Getenv("C04_DEBUG") != "" {
				dbg = fmt.Sprintf("(* c=%d ", c)
				for i, b := range out.batches {
					if b.AckIdx > c-120 && b.StartIdx < c+40 {
						dbg += fmt.Sprintf("b%d[%d,%d n%d s%v] ", i, b.StartIdx, b.AckIdx, len(b.Recs), b.Sync)
					}
				}
				for _, e := range evs {
					if e.idx > c-120 && e.idx < c+40 {
						dbg += fmt.Sprintf("@%d:%s ", e.idx, e.op)
					}
				}
				ops := out.stor.Ops()
				for i := c - 60; i < c+5 && i < len(ops); i++ {
					if i >= 0 && (ops[i].Kind == vstor.OpSync || ops[i].Kind == vstor.OpCreate || ops[i].Kind == vstor.OpRemove || (ops[i].Kind == vstor.OpWrite && ops[i].Fd.Type <= 2)) {
						dbg += fmt.Sprintf("#%d:%s:%s ", i, ops[i].Kind, ops[i].Fd)
					}
				}
				dbg += "*) "
			}
			cases = append(cases, fmt.Sprintf("%sKCrash [%s] %v [%s]", dbg, strings.Join(mops, "; "), keepAll, strings.Join(ks, "; ")))
		}
	}
	return cases
}

type caseRef struct {
	W        *wl.Workload `json:"workload"`
	CrashIdx int          `json:"crash_idx"`
	Policy   int          `json:"policy"`
	Vanish   bool         `json:"unsynced_files_vanish"`
	Nested   int          `json:"nested_crash_idx"` // -1 = none
	PolSeed  uint64       `json:"policy_seed"`
	What     string       `json:"what,omitempty"`
}

func rnd(seed uint64) func() uint64 {
	x := seed*0x9e3779b97f4a7c15 + 1
	return func() uint64 { x ^= x << 13; x ^= x >> 7; x ^= x << 17; return x }
}

// evalCase re-runs the workload (the op log depends on background timing, so replays re-run it several
// times) and checks the given crash point; used for --replay.
func evalCase(c *caseRef, tries int) string {
	for t := 0; t < tries; t++ {
		out := runWorkload(c.W)
		if out.err != "" {
			return "workload error: " + out.err
		}
		n := out.stor.OpCount()
		lo, hi := c.CrashIdx-40, c.CrashIdx+40
		if lo < out.openIdx {
			lo = out.openIdx
		}
		if hi > n {
			hi = n
		}
		for i := lo; i <= hi; i++ {
			img := out.stor.ImageAt(i, vstor.ImageOpts{Policy: vstor.TailPolicy(c.Policy), UnsyncedFilesVanish: c.Vanish, Rand: rnd(c.PolSeed + uint64(i))})
			if m := checkImage(c.W, out.batches, img, i, false); m != "" {
				return fmt.Sprintf("%s [crash after op %d of %d, policy %s, vanish=%v]", m, i, n, vstor.TailPolicy(c.Policy), c.Vanish)
			}
		}
	}
	return ""
}

// A closed goleveldb DB is kept alive for a second by its mpoolDrain goroutine (it waits for the memory pool with a
// one-second timeout), and with it the crash image it was opened on.  (What exhausted memory in the thorough tier was
// something else: the hooks' process-wide verifMinSeqs table kept the session of every DB closed during a table
// compaction; closeDB/VerifForget remove it.)  As a safety net a monitor raises heapHigh while the heap is large;
// workers wait for it to drop before taking the next job.
var heapHigh int32

func heapMonitor() {
	for {
		var ms runtime.MemStats
		runtime.ReadMemStats(&ms)
		switch {
		case ms.HeapAlloc > 10<<30:
			atomic.StoreInt32(&heapHigh, 1)
		case ms.HeapAlloc < 5<<30:
			atomic.StoreInt32(&heapHigh, 0)
		}
		if os.Getenv("C04_DEBUG") == "heap" {
			fmt.Fprintf(os.Stderr, "heap alloc=%dMB sys=%dMB objects=%d high=%d goroutines=%d\n", ms.HeapAlloc>>20, ms.HeapSys>>20, ms.HeapObjects, atomic.LoadInt32(&heapHigh), runtime.NumGoroutine())
		}
		if atomic.LoadInt32(&heapHigh) != 0 {
			// the workers are waiting, so nothing allocates and no collection would start by itself
			time.Sleep(time.Second)
			runtime.GC()
			continue
		}
		time.Sleep(100 * time.Millisecond)
	}
}

func throttle() {
	for i := 0; i < 400 && atomic.LoadInt32(&heapHigh) != 0; i++ {
		time.Sleep(50 * time.Millisecond)
	}
}

func main() {
	a := vlib.ParseArgs()
	res := vlib.NewResult("C04", a.Out, "workloads of marker-carrying batches (single writes, multi-record and oversized batches, transactions, sync/no-sync mix, CompactRange, reopen; tiny buffers; MaxManifestFileSize in {default,1,512}) run once on the checker's storage; for crash points = operation indexes (all indexes around every Sync/SetMeta/Create/Remove/Rename plus a uniform sample) x tail policies {lost, kept, cut, cut+zeros, cut+garbage} x {never-synced files vanish or not} the durable image is reopened with the real Open and compared with the kept-batch oracle; nested: the recovery's own op log is cut again; non-trivial = crash point inside a flush, compaction, manifest rotation or recovery (within 3 ops of a table/manifest Create, Sync, SetMeta or Remove)")
	defer res.Write()
	if a.Replay != "" {
		b, err := os.ReadFile(a.Replay)
		if err != nil {
			fmt.Println("cannot read replay:", err)
			return
		}
		if replayRecord(b, res) {
			return
		}
		var wr struct {
			Case caseRef `json:"case"`
		}
		if err := json.Unmarshal(b, &wr); err == nil && wr.Case.W == nil && wr.Case.What == "torn-manifest" {
			res.Eval("replay", true)
			res.Eval("replay2", true)
			if m, tc := tornManifestProbe(res, 12000); m != "" {
				fmt.Println("replay fails:", m)
				res.Violate(m, tc)
			} else {
				fmt.Println("replay passes")
			}
			return
		}
		var wo struct {
			Case koReplay `json:"case"`
		}
		if err := json.Unmarshal(b, &wo); err == nil && wo.Case.W != nil && wo.Case.What == "open-bytes" {
			res.Eval("replay", true)
			res.Eval("replay2", true)
			installHook()
			if m := replayOpen(&wo.Case, res); m != "" {
				fmt.Println("replay fails:", m)
				res.Violate(m, wo.Case)
			} else {
				fmt.Println("replay passes")
			}
			return
		}
		if err := json.Unmarshal(b, &wr); err != nil || wr.Case.W == nil {
			fmt.Println("cannot parse replay:", err)
			return
		}
		res.Eval("replay", true)
		res.Eval("replay2", true)
		if m := evalCase(&wr.Case, 5); m != "" {
			fmt.Println("replay fails:", m)
			res.Violate(m, wr.Case)
		} else {
			fmt.Println("replay passes")
		}
		return
	}
	nwork, nsteps, perWork := 30, 120, 300
	if a.Thorough() {
		nwork, nsteps, perWork = 200, 300, 2000
	}
	if strings.Contains(a.Extra, "search") {
		nwork *= 3
	}
	root := vlib.NewRNG(a.Seed)
	// the manifest record codec first ((P) against a reference codec/replay, (K) cases for the Coq model; no DB
	// involved): when the codec itself is broken the DB-level workloads below would only crash on it
	recRoot := vlib.NewRNG(a.Seed ^ 0x7265636f7264)
	krec, nrec := recordChecks(recRoot, res, a.Thorough())
	if nrec > 0 {
		writeRecordCases(res, a.Out, krec, 12, 250000)
		return
	}
	type job struct {
		w    *wl.Workload
		out  *runOut
		i    int
		pol  vstor.TailPolicy
		van  bool
		ps   uint64
		us   bool
		nest bool
	}
	jobs := make(chan job, 64)
	go heapMonitor()
	var wg sync.WaitGroup
	var vmu sync.Mutex
	nviol := 0
	for k := 0; k < 16; k++ {
		wg.Add(1)
		go func() {
			defer wg.Done()
			for j := range jobs {
				throttle()
				img := j.out.stor.ImageAt(j.i, vstor.ImageOpts{Policy: j.pol, UnsyncedFilesVanish: j.van, Rand: rnd(j.ps)})
				m := checkImage(j.w, j.out.batches, img, j.i, j.us)
				var discard []*vstor.Stor
				discard = append(discard, img)
				nested := -1
				if m == "" && j.nest {
					// crash again inside the recovery that just ran on img
					nops := img.OpCount()
					r2 := vlib.NewRNG(j.ps)
					for t := 0; t < 3 && m == ""; t++ {
						nested = r2.Intn(nops + 1)
						img2 := img.ImageAt(nested, vstor.ImageOpts{Policy: vstor.TailPolicy(r2.Intn(int(vstor.NumTailPolicies))), Rand: rnd(j.ps + uint64(t))})
						m = checkImage(j.w, j.out.batches, img2, j.i, false)
						discard = append(discard, img2)
						res.Count("nested_crash_points", 1)
						if m != "" {
							m = "after a second crash at op " + fmt.Sprint(nested) + " of the recovery: " + m
						}
					}
				}
				nontriv := false
				ops := j.out.stor.Ops()
				for d := -3; d <= 3; d++ {
					if x := j.i + d; x >= 0 && x < len(ops) {
						o := ops[x]
						if (o.Kind == vstor.OpSync || o.Kind == vstor.OpSetMeta || o.Kind == vstor.OpCreate || o.Kind == vstor.OpRemove || o.Kind == vstor.OpRename) && (o.Fd.Type&(4|1)) != 0 {
							nontriv = true
						}
					}
				}
				for _, d := range discard {
					d.Discard() // a closed DB stays reachable for a second; do not let it pin the image's bytes
				}
				res.Eval(fmt.Sprintf("%d/%d/%d/%v", j.w.Seed, j.i, j.pol, j.van), nontriv)
				res.Count("policy_"+j.pol.String(), 1)
				if m != "" {
					vmu.Lock()
					if nviol < 5 {
						nviol++
						desc := fmt.Sprintf("%s [crash after op %d of %d, policy %s, vanish=%v; %s]", m, j.i, len(ops), j.pol, j.van, j.w.Cfg.String())
						res.Violate(desc, caseRef{W: j.w, CrashIdx: j.i, Policy: int(j.pol), Vanish: j.van, Nested: nested, PolSeed: j.ps, What: m})
					}
					vmu.Unlock()
				}
			}
		}()
	}
	for wi := 0; wi < nwork; wi++ {
		r := root.Fork()
		var w *wl.Workload
		if wi%3 == 2 {
			w = wl.GenBigJournalWorkload(r, r.Range(nsteps/3, nsteps/2))
			res.Count("workloads_big_journal", 1)
		} else {
			w = wl.GenWorkload(r, r.Range(nsteps/2, nsteps))
		}
		if wi%3 == 1 {
			// write-merge family: groups of concurrent writers with mixed Sync options spliced into the workload
			n := r.Range(6, 14)
			for c := 0; c < n; c++ {
				k := r.Range(2, 8)
				st := wl.Step{Kind: "cwrite", Parts: k}
				for j := 0; j < k; j++ {
					st.Syncs = append(st.Syncs, r.Chance(1, 3))
				}
				nrec := r.Range(k, 3*k)
				for x := 0; x < nrec; x++ {
					st.Recs = append(st.Recs, dbh.Rec{K: []byte(fmt.Sprintf("k%03d", r.Intn(50))), V: []byte(fmt.Sprintf("v%d", r.Intn(1000000)))})
				}
				pos := r.Intn(len(w.Steps) + 1)
				w.Steps = append(w.Steps[:pos], append([]wl.Step{st}, w.Steps[pos:]...)...)
			}
			res.Count("workloads_with_concurrent_writers", 1)
		}
		w.Seed = a.Seed*1000 + uint64(wi)
		out := runWorkload(w)
		if out.err != "" {
			res.Violate("workload failed without any crash: "+out.err+" ["+w.Cfg.String()+"]", caseRef{W: w, Nested: -1})
			continue
		}
		ops := out.stor.Ops()
		n := len(ops)
		res.Count("workloads", 1)
		res.Count("storage_ops", n)
		res.Count("batches", len(out.batches))
		if wi < 2 {
			res.Sample(map[string]interface{}{"cfg": w.Cfg.String(), "steps": len(w.Steps), "storage_ops": n, "batches": len(out.batches), "first_steps": w.Steps[:3]})
		}
		// crash points: everything near namespace/sync operations, plus a uniform sample
		pts := map[int]bool{n: true}
		// journal/manifest writes that reach or cross a 32 KiB block boundary: crash right after them
		offs := map[storage.FileDesc]int{}
		for i, o := range ops {
			switch o.Kind {
			case vstor.OpCreate:
				offs[o.Fd] = 0
			case vstor.OpWrite:
				before := offs[o.Fd]
				offs[o.Fd] = before + len(o.Data)
				if i >= out.openIdx && (o.Fd.Type&(storage.TypeJournal|storage.TypeManifest)) != 0 && before/vstor.JournalBlock != offs[o.Fd]/vstor.JournalBlock {
					pts[i+1] = true
					res.Count("crash_points_after_block_crossing_write", 1)
				}
			}
		}
		for i, o := range ops {
			if i < out.openIdx {
				continue
			}
			switch o.Kind {
			case vstor.OpSync, vstor.OpSetMeta, vstor.OpCreate, vstor.OpRemove, vstor.OpRename:
				for d := -1; d <= 2; d++ {
					if x := i + d; x >= out.openIdx && x <= n {
						pts[x] = true
					}
				}
			}
		}
		var all []int
		for p := range pts {
			all = append(all, p)
		}
		sort.Ints(all)
		for len(all) > perWork*2/3 {
			all = append(all[:r.Intn(len(all))], all[r.Intn(len(all))+0:]...)[:len(all)-1]
		}
		for len(all) < perWork && n > out.openIdx {
			all = append(all, r.Range(out.openIdx, n))
		}
		// right after a write acknowledged with Sync returned: the weakest image (unsynced tails lost) must hold it
		nextra := 0
		for _, b := range out.batches {
			if b.OK && b.Sync && b.AckIdx >= out.openIdx && b.AckIdx <= n && nextra < 120 && (len(b.Recs) == 1 || r.Chance(1, 4)) {
				nextra++
				jobs <- job{w: w, out: out, i: b.AckIdx, pol: vstor.TailLost, van: false, ps: r.Uint64()}
			}
		}
		res.Count("crash_points_right_after_a_synced_ack", nextra)
		for _, i := range all {
			pol := vstor.TailPolicy(r.Intn(int(vstor.NumTailPolicies)))
			jobs <- job{w: w, out: out, i: i, pol: pol, van: r.Chance(1, 4), ps: r.Uint64(), us: r.Chance(1, 10), nest: r.Chance(1, 12)}
		}
	}
	// directed: journal records ending 0..9 bytes before a 32 KiB block end (see residueRun); crash after every write
	{
		r := root.Fork()
		w, out := residueRun(r)
		w.Seed = a.Seed*1000 + 999
		if out.err == "" {
			res.Count("workloads_residue_directed", 1)
			for _, b := range out.batches {
				for _, pol := range []vstor.TailPolicy{vstor.TailKept, vstor.TailCut} {
					jobs <- job{w: w, out: out, i: b.AckIdx, pol: pol, ps: r.Uint64()}
				}
			}
		} else {
			res.Count("workloads_residue_directed_errors", 1)
		}
	}
	close(jobs)
	wg.Wait()
	// directed: manifest records torn at 32 KiB block boundaries (see mantorn.go)
	{
		n := 12000
		if a.Thorough() {
			n = 40000
		}
		if m, tc := tornManifestProbe(res, n); m != "" {
			res.Violate(m, tc)
		}
	}
	// (K) dedicated workloads: no reopen, default manifest size (the model has neither)
	nk, perK := 6, 14
	if a.Thorough() {
		nk, perK = 60, 40
	}
	var kcases []string
	for wi := 0; wi < nk; wi++ {
		r := root.Fork()
		w := wl.GenWorkload(r, r.Range(30, 90))
		out := runWorkload(w)
		if out.err != "" {
			continue
		}
		kc := kCases(w, out, r, perK)
		res.Count("k_workloads", 1)
		res.Count("k_crash_cases", len(kc))
		kcases = append(kcases, kc...)
	}
	res.WriteCases("From GL Require Import Store.Crash Corr.C04Run.", "c04case", "mismatches", kcases, 16)
	// (K) byte level: journal file bytes of crash images against the model's recover_bytes
	nb := 16
	if a.Thorough() {
		nb = 64
	}
	writeByteCases(res, a.Out, kByteCases(root, res, nb, 120000), 16)
	// (K) the composed Open on whole crash images (every file as bytes): Store/OpenPath.v open_bytes
	{
		no := 96
		if a.Thorough() {
			no = 800
		}
		oroot := vlib.NewRNG(a.Seed ^ 0x6f70656e)
		oc := kOpenCases(oroot, res, no, 30000, 140000)
		oc = append(oc, kOpenDirected(oroot, res)...)
		writeOpenCases(res, a.Out, oc, 16)
	}
	// manifests of real DBs: (P) against the reference replay and the DB's own version, (K) against the Coq model
	krec = append(krec, realManifestChecks(recRoot, res, a.Thorough())...)
	writeRecordCases(res, a.Out, krec, 12, 250000)
}
