// Directed scenario: a manifest that grows past several 32 KiB block boundaries (default MaxManifestFileSize), with a
// crash right after the storage write that completes a block, i.e. between the two writes of a manifest record that
// is split over the boundary.  A torn record must leave nothing behind: before the repair ("fix: session.recover ...")
// session.recover decoded a record while streaming its chunks, so the fields of the first chunk of a torn record
// (journal number, next file number, sequence number) stayed in effect although the record was skipped, and
// acknowledged synced writes were lost.
package main

import (
	"fmt"

	"github.com/syndtr/goleveldb/leveldb"
	"github.com/syndtr/goleveldb/leveldb/opt"
	"github.com/syndtr/goleveldb/leveldb/storage"
	"verifharness/lib/vlib"
	"verifharness/lib/vstor"
)

type tornManifestCase struct {
	What        string `json:"what"`
	Puts        int    `json:"puts"`
	ValueLen    int    `json:"value_len"`
	WriteBuffer int    `json:"write_buffer"`
	CrashIdx    int    `json:"crash_after_storage_op"`
	ManifestOff int    `json:"manifest_bytes_written"`
	Lost        int    `json:"acknowledged_synced_puts_lost"`
	FirstLost   string `json:"first_lost_key"`
}

// tornManifestProbe returns the first crash point at which acknowledged synced puts are lost ("" if none).
func tornManifestProbe(res *vlib.Result, puts int) (string, *tornManifestCase) {
	stor := vstor.New(true)
	o := &opt.Options{WriteBuffer: 2048, DisableSeeksCompaction: true}
	db, err := leveldb.Open(stor, o)
	if err != nil {
		return "", nil
	}
	type ack struct {
		key string
		idx int
	}
	var acks []ack
	val := make([]byte, 400)
	for i := 0; i < puts; i++ {
		k := fmt.Sprintf("k%06d", i)
		if err := db.Put([]byte(k), val, &opt.WriteOptions{Sync: true}); err != nil {
			closeDB(db)
			return "", nil
		}
		acks = append(acks, ack{k, stor.OpCount()})
	}
	closeDB(db)
	sizes := map[storage.FileDesc]int{}
	type pt struct{ c, off int }
	var pts []pt
	for i, op := range stor.Ops() {
		if op.Fd.Type != storage.TypeManifest || op.Fail {
			continue
		}
		switch op.Kind {
		case vstor.OpCreate:
			sizes[op.Fd] = 0
		case vstor.OpWrite:
			b := sizes[op.Fd]
			sizes[op.Fd] = b + len(op.Data)
			if b/vstor.JournalBlock != sizes[op.Fd]/vstor.JournalBlock {
				pts = append(pts, pt{i + 1, sizes[op.Fd]})
			}
		}
	}
	res.Count("torn_manifest_crash_points", len(pts))
	for _, p := range pts {
		img := stor.ImageAt(p.c, vstor.ImageOpts{Policy: vstor.TailKept})
		db2, err := leveldb.Open(img, o)
		if err != nil {
			tc := &tornManifestCase{What: "torn-manifest", Puts: puts, ValueLen: len(val), WriteBuffer: 2048, CrashIdx: p.c, ManifestOff: p.off}
			return fmt.Sprintf("manifest record torn at a 32 KiB block boundary (crash after storage op %d, manifest at %d bytes): Open fails: %v", p.c, p.off, err), tc
		}
		lost, first := 0, ""
		for _, a := range acks {
			if a.idx <= p.c {
				if _, err := db2.Get([]byte(a.key), nil); err != nil {
					lost++
					if first == "" {
						first = a.key
					}
				}
			}
		}
		closeDB(db2)
		if lost > 0 {
			tc := &tornManifestCase{What: "torn-manifest", Puts: puts, ValueLen: len(val), WriteBuffer: 2048, CrashIdx: p.c, ManifestOff: p.off, Lost: lost, FirstLost: first}
			return fmt.Sprintf("manifest record split over a 32 KiB block boundary and torn between its two storage writes (crash after storage op %d, manifest at %d bytes, every written byte kept): %d Puts acknowledged with sync are absent after recovery (first %s)", p.c, p.off, lost, first), tc
		}
	}
	return "", nil
}
