// (K) byte-level correspondence for C04: the bytes of the live journal of a crash image (cut at a byte inside its
// unsynced tail, near 32 KiB block boundaries more often than not, followed by nothing, zeros or garbage) together
// with the batches the real Open recovered from that file.  Corr/C04BytesRun.v runs the model's recover_bytes
// (C12's tolerant reader model driven like recoverJournal, then the batch decoder) on the same bytes.
package main

import (
	"bytes"
	"encoding/binary"
	"fmt"
	"io"
	"os"
	"path/filepath"
	"sort"
	"strings"

	"github.com/syndtr/goleveldb/leveldb"
	"github.com/syndtr/goleveldb/leveldb/journal"
	"github.com/syndtr/goleveldb/leveldb/opt"
	"github.com/syndtr/goleveldb/leveldb/storage"
	"verifharness/lib/dbh"
	"verifharness/lib/vlib"
	"verifharness/lib/vstor"
	"verifharness/lib/wl"
)

// segsOf renders bytes for Corr/C12Run.v's decoder: R b n (a run of one byte), P hex n (n repetitions of a
// pattern; the workloads' values have period 23), X hex (literal).
func segsOf(b []byte) string {
	var parts []string
	lit := 0
	flush := func(end int) {
		for lit < end {
			e := end
			if e-lit > 2048 {
				e = lit + 2048
			}
			parts = append(parts, "X "+vlib.CoqHex(b[lit:e]))
			lit = e
		}
	}
	i := 0
	for i < len(b) {
		j := i
		for j < len(b) && b[j] == b[i] {
			j++
		}
		if j-i >= 24 {
			flush(i)
			parts = append(parts, fmt.Sprintf("R %d %d", b[i], j-i))
			i, lit = j, j
			continue
		}
		best, bp := 0, 0
		for _, p := range []int{23, 16} {
			k := i
			for k+p < len(b) && b[k] == b[k+p] {
				k++
			}
			if reps := (k - i) / p; reps >= 3 && reps*p > best {
				best, bp = reps*p, p
			}
		}
		if best > 0 {
			reps := best/bp + 1
			flush(i)
			parts = append(parts, fmt.Sprintf("P %s %d", vlib.CoqHex(b[i:i+bp]), reps))
			i += reps * bp
			lit = i
			continue
		}
		i++
	}
	flush(len(b))
	return "[" + strings.Join(parts, "; ") + "]"
}

type jrec struct {
	seq uint64
	n   uint32
	id  int // marker id of the batch, -1 if the first record is not a marker put
}

// readAll reads a whole journal file the way recoverJournal does (tolerant, checksums on) and returns the
// header fields and marker id of every record yielded.
func readAll(data []byte) []jrec { return readAllMode(data, true) }

// readAllMode: the same with the checksum flag given (opt.StrictJournalChecksum).
func readAllMode(data []byte, checksum bool) []jrec {
	var out []jrec
	jr := journal.NewReader(bytes.NewReader(data), nil, false, checksum)
	for {
		r, err := jr.Next()
		if err != nil {
			return out
		}
		var buf bytes.Buffer
		if _, err := buf.ReadFrom(r); err != nil {
			if err == io.ErrUnexpectedEOF {
				continue
			}
			return out
		}
		p := buf.Bytes()
		if len(p) < 12 {
			out = append(out, jrec{id: -1})
			continue
		}
		rec := jrec{seq: binary.LittleEndian.Uint64(p), n: binary.LittleEndian.Uint32(p[8:]), id: -1}
		q := p[12:]
		if len(q) > 2 && q[0] == 1 {
			kl, m := binary.Uvarint(q[1:])
			if m > 0 && 1+m+int(kl) <= len(q) {
				key := q[1+m : 1+m+int(kl)]
				var id int
				if len(key) == 8 && key[0] == 1 && key[1] == 'm' {
					if _, err := fmt.Sscanf(string(key[2:]), "%d", &id); err == nil {
						rec.id = id
					}
				}
			}
		}
		out = append(out, rec)
	}
}

type bcase struct {
	text   string
	blocks int
	near   bool
}

// casesFromRun turns one finished run into byte-level cases: crash right after a write to the live journal, the
// live journal cut inside its unsynced tail (see kByteCases), every other file as vstor leaves it.
func casesFromRun(w *wl.Workload, out *runOut, r *vlib.RNG, res *vlib.Result, maxText, tries int, directed bool, cases *[]bcase, nfail *int) {
	ops := out.stor.Ops()
	// journal lengths as the log is replayed
	type jst struct{ size, synced int }
	js := map[storage.FileDesc]*jst{}
	type cand struct {
		c        int
		fd       storage.FileDesc
		synced   int
		size     int
		crossing bool
	}
	var cands []cand
	for i, o := range ops {
		if o.Fd.Type != storage.TypeJournal || o.Fail {
			continue
		}
		switch o.Kind {
		case vstor.OpCreate:
			js[o.Fd] = &jst{}
		case vstor.OpRemove:
			delete(js, o.Fd)
		case vstor.OpSync:
			if s := js[o.Fd]; s != nil {
				s.synced = s.size
			}
		case vstor.OpWrite:
			s := js[o.Fd]
			if s == nil || len(o.Data) == 0 {
				continue
			}
			before := s.size
			s.size += len(o.Data)
			if i < out.openIdx {
				continue
			}
			live := true
			for fd := range js {
				if fd.Num > o.Fd.Num {
					live = false
				}
			}
			if live && s.size > s.synced {
				cands = append(cands, cand{c: i + 1, fd: o.Fd, synced: s.synced, size: s.size,
					crossing: before/vstor.JournalBlock != s.size/vstor.JournalBlock || s.synced/vstor.JournalBlock != s.size/vstor.JournalBlock})
			}
		}
	}
	if !directed {
		sort.SliceStable(cands, func(a, b int) bool { return cands[a].crossing && !cands[b].crossing })
	}
	ncross := 0
	for _, cd := range cands {
		if cd.crossing {
			ncross++
		}
	}
	tried := 0
	for tried < tries && len(cands) > 0 {
		tried++
		var cd cand
		if directed {
			// cands are in log order: the later crash points have more of the boundary records behind them
			cd = cands[len(cands)/2+r.Intn(len(cands)-len(cands)/2)]
		} else if ncross > 0 && r.Chance(5, 6) {
			cd = cands[r.Intn(ncross)]
		} else {
			cd = cands[r.Intn(len(cands))]
		}
		pol := vstor.TailKept
		if r.Chance(1, 3) {
			pol = vstor.TailLost
		}
		img := out.stor.ImageAt(cd.c, vstor.ImageOpts{Policy: pol})
		full, _, ok := out.stor.ImageAt(cd.c, vstor.ImageOpts{Policy: vstor.TailKept}).FileBytes(cd.fd)
		if !ok || len(full) != cd.size {
			res.Count("kb_skipped_size_mismatch", 1)
			continue
		}
		// cut point inside the unsynced tail
		cut := cd.synced + r.Intn(cd.size-cd.synced+1)
		near := false
		lo, hi := cd.synced/vstor.JournalBlock, cd.size/vstor.JournalBlock
		forceNone := false
		if hi > lo && r.Chance(4, 5) {
			b := (lo + 1 + r.Intn(hi-lo)) * vstor.JournalBlock
			var c int
			switch r.Pick(3, 3, 2) {
			case 0: // inside the 7-byte header that starts the block (of a continuation chunk more often than not)
				c, forceNone = b+1+r.Intn(6), true
			case 1:
				c = b - 8 + r.Intn(17)
			default: // that header whole, the payload behind it cut
				c = b + 9 + r.Intn(300)
			}
			if c >= cd.synced && c <= cd.size {
				cut, near = c, true
			} else {
				forceNone = false
			}
		}
		data := append([]byte(nil), full[:cut]...)
		tailKind := r.Pick(5, 2, 2)
		if forceNone {
			tailKind = 0
		}
		switch tailKind {
		case 1: // zeros up to the written length (vstor's cut+zeros)
			data = append(data, make([]byte, cd.size-cut)...)
		case 2: // garbage (bounded so that the case stays small; vstor's cut+garbage fills to the written length)
			n := cd.size - cut
			if n > 600 {
				n = r.Range(1, 600)
			}
			for k := 0; k < n; k++ {
				data = append(data, byte(r.Uint64()))
			}
		}
		img.SetFileBytes(cd.fd, data)
		fullRecs := readAll(full)
		okIDs := true
		for _, fr := range fullRecs {
			if fr.id < 0 {
				okIDs = false
			}
		}
		if !okIDs {
			res.Count("kb_skipped_unmarked_record", 1)
			continue
		}
		kept, err := keptOf(w, out.batches, img)
		if err != nil {
			// the model's recovery of a crash image never fails: reported as a disagreement
			res.Count("kb_open_failed", 1)
			if *nfail < 3 {
				*nfail++
				if os.Getenv("C04_DEBUG") != "" {
					fmt.Fprintf(os.Stderr, "KB open failed: c=%d cut=%d of %d synced=%d: %v\n", cd.c, cut, cd.size, cd.synced, err)
				}
				*cases = append(*cases, bcase{text: fmt.Sprintf("KOpenFailed [X %s]", vlib.CoqHex(data[:min(len(data), 16)])), blocks: 0, near: true})
			}
			continue
		}
		keptID := map[int]bool{}
		for _, k := range kept {
			keptID[out.batches[k].ID] = true
		}
		var ks []string
		for _, fr := range fullRecs {
			if keptID[fr.id] {
				ks = append(ks, fmt.Sprintf("(%d, %d)", fr.seq, fr.n))
			}
		}
		text := fmt.Sprintf("KJournal true %s [%s]", segsOf(data), strings.Join(ks, "; "))
		if len(text) > maxText {
			res.Count("kb_skipped_too_big", 1)
			continue
		}
		res.Count(fmt.Sprintf("kb_tail_%s", []string{"none", "zeros", "garbage"}[tailKind]), 1)
		if near {
			res.Count("kb_cut_within_8_of_block_boundary", 1)
		}
		res.Count("kb_records_in_file", len(fullRecs))
		res.Count("kb_records_kept", len(ks))
		*cases = append(*cases, bcase{text: text, blocks: len(data)/vstor.JournalBlock + 1, near: near || directed})
	}
}

// kByteCases runs big-journal workloads and cuts the live journal of crash images itself (the image is vstor's
// for every other file; for the live journal the cut point inside the unsynced tail is chosen here so that the
// offsets 8 bytes either side of every 32 KiB boundary are hit, which vstor.ImageAt only samples).
func kByteCases(root *vlib.RNG, res *vlib.Result, want int, maxText int) []string {
	var cases []bcase
	nfail := 0
	for wi := 0; wi < 6 && len(cases) < want*3; wi++ {
		r := root.Fork()
		w := wl.GenBigJournalWorkload(r, r.Range(40, 70))
		out := runWorkload(w)
		if out.err != "" {
			res.Count("kb_workload_errors", 1)
			continue
		}
		res.Count("kb_workloads", 1)
		casesFromRun(w, out, r, res, maxText, 40, false, &cases, &nfail)
	}
	// directed: records ending 0..9 bytes before a block end (empty / tiny first chunks, zero padding)
	{
		r := root.Fork()
		w, out := residueRun(r)
		if out.err != "" {
			res.Count("kb_residue_run_errors", 1)
			if os.Getenv("C04_DEBUG") != "" {
				fmt.Fprintln(os.Stderr, "residue run:", out.err)
			}
		} else {
			res.Count("kb_residue_runs", 1)
			var dc []bcase
			casesFromRun(w, out, r, res, maxText, 12, true, &dc, &nfail)
			if len(dc) > want/4 {
				dc = dc[:want/4]
			}
			res.Count("kb_residue_cases", len(dc))
			cases = append(dc, cases...)
		}
	}
	// prefer the cuts near block boundaries, keep the total number of blocks the model has to read bounded
	sort.SliceStable(cases, func(a, b int) bool { return cases[a].near && !cases[b].near })
	var outc []string
	blocks := 0
	for _, c := range cases {
		if len(outc) >= want || blocks+c.blocks > want*6 {
			continue
		}
		blocks += c.blocks
		outc = append(outc, c.text)
	}
	res.Count("kb_cases", len(outc))
	res.Count("kb_blocks_read_by_model", blocks)
	return outc
}

// writeByteCases writes one case file per shard (cases_C04b_<i>.v) and registers them with the driver.
func writeByteCases(res *vlib.Result, out string, cases []string, shards int) {
	if len(cases) == 0 {
		return
	}
	if shards > len(cases) {
		shards = len(cases)
	}
	per := (len(cases) + shards - 1) / shards
	for i := 0; i*per < len(cases); i++ {
		lo, hi := i*per, (i+1)*per
		if hi > len(cases) {
			hi = len(cases)
		}
		name := fmt.Sprintf("cases_C04b_%d.v", i)
		var sb strings.Builder
		sb.WriteString("From GL Require Import Corr.C12Run Corr.C04BytesRun.\n")
		sb.WriteString("From Coq Require Import List NArith String.\nImport ListNotations.\nOpen Scope string_scope.\nOpen Scope N_scope.\n")
		sb.WriteString(fmt.Sprintf("Definition cases : list c04bcase :=\n %s.\n", vlib.CoqList(cases[lo:hi])))
		sb.WriteString("Definition M := Eval vm_compute in mismatches_b cases.\nPrint M.\n")
		os.WriteFile(filepath.Join(out, name), []byte(sb.String()), 0o644)
		res.KCaseFiles = append(res.KCaseFiles, fmt.Sprintf("%s:%d", name, lo))
	}
	res.KCases += len(cases)
}

func min(a, b int) int {
	if a < b {
		return a
	}
	return b
}

// liveJournalSize: number and current size of the highest-numbered journal file, from the op log.
func liveJournalSize(stor *vstor.Stor) (storage.FileDesc, int) {
	sizes := map[storage.FileDesc]int{}
	for _, o := range stor.Ops() {
		if o.Fd.Type != storage.TypeJournal || o.Fail {
			continue
		}
		switch o.Kind {
		case vstor.OpCreate:
			sizes[o.Fd] = 0
		case vstor.OpRemove:
			delete(sizes, o.Fd)
		case vstor.OpWrite:
			sizes[o.Fd] += len(o.Data)
		}
	}
	var best storage.FileDesc
	found := false
	for fd := range sizes {
		if !found || fd.Num > best.Num {
			best, found = fd, true
		}
	}
	return best, sizes[best]
}

// residueRun: a directed run whose batches are sized, from the live journal's current length, so that journal
// records end exactly k bytes before the end of a 32 KiB block for k = 7 (the next record starts with an empty
// first chunk in the last 7 bytes), k < 7 (zero padding follows), k = 8, 9 (a first chunk of 1 or 2 bytes) — the
// boundary cases of Writer.Next / Reader.nextChunk ("does a header still fit?").
func residueRun(r *vlib.RNG) (*wl.Workload, *runOut) {
	w := wl.GenBigJournalWorkload(r, 1)
	w.Steps = nil
	w.Cfg.WriteBuffer = 1 << 20 // every boundary costs a block of journal: no buffer rotation during the run
	out := &runOut{}
	stor := vstor.New(true)
	out.stor = stor
	installHook()
	outs.Store(stor, out)
	defer outs.Delete(stor)
	o := w.Cfg.Options()
	db, err := leveldb.Open(stor, o)
	if err != nil {
		out.err = "initial Open: " + err.Error()
		return w, out
	}
	defer closeDB(db)
	out.openIdx = stor.OpCount()
	write := func(id int, vlen int, sync bool) bool {
		v := make([]byte, vlen)
		for i := range v {
			v[i] = byte('a' + i%23)
		}
		b := &wl.Batch{ID: id, Sync: sync}
		b.Recs = []dbh.Rec{{K: wl.Marker(id), V: []byte{1}}, {K: []byte("kk"), V: v}}
		w.Steps = append(w.Steps, wl.Step{Kind: "write", Recs: b.Recs[1:], Sync: sync})
		b.StartIdx = stor.OpCount()
		err := db.Write(wl.MkBatch(b.Recs), &opt.WriteOptions{Sync: sync})
		b.AckIdx = stor.OpCount()
		b.OK = err == nil
		out.batches = append(out.batches, b)
		if err != nil {
			out.err = "Write: " + err.Error()
		}
		return err == nil
	}
	residues := []int{7, 7, 8, 6, 7, 9, 0, 7, 1}
	id := 0
	for _, k := range residues {
		_, size := liveJournalSize(stor)
		rem := vstor.JournalBlock - size%vstor.JournalBlock
		if rem < 7+40+k+3 {
			// too close to the block end: a batch that moves well into the next block first
			if !write(id, rem+r.Range(200, 3000), false) {
				return w, out
			}
			id++
			_, size = liveJournalSize(stor)
			rem = vstor.JournalBlock - size%vstor.JournalBlock
		}
		// record = 7 (chunk header) + 12 (batch header) + 12 (marker put) + 1+1+2 + varint(L) + L, to end at rem-k
		payload := rem - 7 - k
		L := -1
		for _, vl := range []int{1, 2, 3} {
			l := payload - 28 - vl
			if l >= 0 && ((vl == 1 && l < 128) || (vl == 2 && l >= 128 && l < 16384) || (vl == 3 && l >= 16384)) {
				L = l
			}
		}
		if L < 0 {
			continue
		}
		if os.Getenv("C04_DEBUG") != "" {
			fmt.Fprintf(os.Stderr, "residue: k=%d size=%d rem=%d payload=%d L=%d\n", k, size, rem, payload, L)
		}
		if !write(id, L, false) {
			return w, out
		}
		id++
		if _, s2 := liveJournalSize(stor); (vstor.JournalBlock-s2%vstor.JournalBlock)%vstor.JournalBlock != k {
			out.err = fmt.Sprintf("residue run: aimed at %d bytes before the block end, journal is at %d", k, s2)
			return w, out
		}
		// the record that starts in (or right behind) the last k bytes of the block; every third one synced
		if !write(id, r.Range(1, 600), id%3 == 0) {
			return w, out
		}
		id++
	}
	return w, out
}
