// Manifest record codec and manifest replay (leveldb/session_record.go, session.recover, versionStaging):
//   (P) a reference encoder / decoder / replay of the documented format, written here independently of
//       goleveldb, against the real code through the verif exports VerifRecordEncode / VerifRecordDecode /
//       VerifSessionRecover and through read-only Open of real DB directories;
//   (K) the same inputs and the real outcomes as cases for the Coq model (Corr/C04RecRun.v):
//       KREnc  records built by the real setters from generated field values (boundary numbers, empty and long
//              keys, stray hasRec bits) and the bytes the real encode wrote (or its panic),
//       KRDec  valid / truncated / bit-flipped / huge-length / arbitrary bytes and what the real decode returned
//              (record, or corruption field + reason + the record state reached, bare EOF, panic),
//       KRMan  the records of manifests — crafted edit sequences (re-added and re-deleted numbers, missing
//              fields, comparer mismatch, damaged records strict and not, unknown tags) and REAL manifest files
//              taken from the checker's storage after DB workloads (flushes, compactions, transactions, manifest
//              rotation, reopen) — and what the real session.recover rebuilt.
package main

import (
	"bytes"
	"encoding/binary"
	"encoding/hex"
	"encoding/json"
	"fmt"
	"io"
	"math"
	"os"
	"path/filepath"
	"sort"
	"strings"
	"time"

	"github.com/syndtr/goleveldb/leveldb"
	lerrors "github.com/syndtr/goleveldb/leveldb/errors"
	"github.com/syndtr/goleveldb/leveldb/journal"
	"github.com/syndtr/goleveldb/leveldb/opt"
	"github.com/syndtr/goleveldb/leveldb/storage"
	"github.com/syndtr/goleveldb/leveldb/util"
	"verifharness/lib/vlib"
	"verifharness/lib/vstor"
)

// ---------------------------------------------------------------- rendering for Coq

func coqZ(x int64) string {
	if x < 0 {
		if x == math.MinInt64 {
			return "(-9223372036854775808)%Z"
		}
		return fmt.Sprintf("(-%d)%%Z", -x)
	}
	return fmt.Sprintf("%d%%Z", x)
}

func coqRec(v *leveldb.VerifRecord) string {
	var cps, adds, dels []string
	for _, c := range v.CompPtrs {
		cps = append(cps, fmt.Sprintf("(%s, %s)", coqZ(int64(c.Level)), vlib.CoqHex(c.IKey)))
	}
	for _, t := range v.Added {
		adds = append(adds, fmt.Sprintf("(%s, %s, %s, %s, %s)", coqZ(int64(t.Level)), coqZ(t.Num), coqZ(t.Size), vlib.CoqHex(t.Imin), vlib.CoqHex(t.Imax)))
	}
	for _, d := range v.Deleted {
		dels = append(dels, fmt.Sprintf("(%s, %s)", coqZ(int64(d.Level)), coqZ(d.Num)))
	}
	return fmt.Sprintf("(R %d %s %s %s %s %d [%s] [%s] [%s])", uint64(v.Has), vlib.CoqHex([]byte(v.Comparer)),
		coqZ(v.JournalNum), coqZ(v.PrevJournalNum), coqZ(v.NextFileNum), v.SeqNum,
		strings.Join(cps, "; "), strings.Join(adds, "; "), strings.Join(dels, "; "))
}

var fieldCtor = map[string]string{
	"field-header": "FHeader", "comparer": "FComparer", "journal-num": "FJournalNum", "prev-journal-num": "FPrevJournalNum",
	"next-file-num": "FNextFileNum", "seq-num": "FSeqNum", "comp-ptr.level": "FCpLevel", "comp-ptr.ikey": "FCpIkey",
	"add-table.level": "FAddLevel", "add-table.num": "FAddNum", "add-table.size": "FAddSize", "add-table.imin": "FAddImin",
	"add-table.imax": "FAddImax", "del-table.level": "FDelLevel", "del-table.num": "FDelNum",
}
var reasonCtor = map[string]string{
	"short read": "RShort", "binary: varint overflows a 64-bit integer": "ROverflow",
	"invalid negative value": "RNegative", "invalid level": "RLevel",
}

// manifestErr extracts field and reason of an ErrCorrupted{ErrManifestCorrupted}.
func manifestErr(err error) (field, reason string, ok bool) {
	if ce, is := err.(*lerrors.ErrCorrupted); is {
		if me, is2 := ce.Err.(*leveldb.ErrManifestCorrupted); is2 {
			return me.Field, me.Reason, true
		}
	}
	return "", "", false
}

// ---------------------------------------------------------------- reference codec (documented format)

type refOutcome struct {
	Kind   string // ok | corrupt
	Field  string
	Reason string
	Rec    leveldb.VerifRecord
}

func refPutUvarint(b []byte, x uint64) []byte {
	for x >= 0x80 {
		b = append(b, byte(x)|0x80)
		x >>= 7
	}
	return append(b, byte(x))
}

// refEncode: comparer(1) journal(2) next-file(3) seq(4) if their bits are set, then comp-ptrs(5), deleted(6),
// added(7); the previous journal number (9) is never written. Returns false when a number is negative (panic).
func refEncode(v *leveldb.VerifRecord) ([]byte, bool) {
	var b []byte
	neg := false
	putV := func(x int64) {
		if x < 0 {
			neg = true
			return
		}
		b = refPutUvarint(b, uint64(x))
	}
	putB := func(x []byte) { b = refPutUvarint(b, uint64(len(x))); b = append(b, x...) }
	if v.Has&(1<<1) != 0 {
		b = refPutUvarint(b, 1)
		putB([]byte(v.Comparer))
	}
	if v.Has&(1<<2) != 0 {
		b = refPutUvarint(b, 2)
		putV(v.JournalNum)
	}
	if neg {
		return nil, false
	}
	if v.Has&(1<<3) != 0 {
		b = refPutUvarint(b, 3)
		putV(v.NextFileNum)
	}
	if neg {
		return nil, false
	}
	if v.Has&(1<<4) != 0 {
		b = refPutUvarint(b, 4)
		b = refPutUvarint(b, v.SeqNum)
	}
	for _, c := range v.CompPtrs {
		b = refPutUvarint(b, 5)
		b = refPutUvarint(b, uint64(c.Level))
		putB(c.IKey)
	}
	for _, d := range v.Deleted {
		b = refPutUvarint(b, 6)
		b = refPutUvarint(b, uint64(d.Level))
		putV(d.Num)
		if neg {
			return nil, false
		}
	}
	for _, t := range v.Added {
		b = refPutUvarint(b, 7)
		b = refPutUvarint(b, uint64(t.Level))
		putV(t.Num)
		putV(t.Size)
		if neg {
			return nil, false
		}
		putB(t.Imin)
		putB(t.Imax)
	}
	return b, true
}

type refReader struct {
	b            []byte
	field, why   string
	failed, atEO bool
}

func (r *refReader) fail(field, why string) {
	if !r.failed {
		r.failed, r.field, r.why = true, field, why
	}
}

// uv reads a uvarint as binary.ReadUvarint does; eofOK: no byte at all is the clean end.
func (r *refReader) uv(field string, eofOK bool) uint64 {
	if r.failed {
		return 0
	}
	var x uint64
	var s uint
	for i := 0; i < 10; i++ {
		if len(r.b) == 0 {
			if i == 0 && eofOK {
				r.atEO = true
				r.failed = true
				return 0
			}
			r.fail(field, "short read")
			return 0
		}
		c := r.b[0]
		r.b = r.b[1:]
		if c < 0x80 {
			if i == 9 && c > 1 {
				r.fail(field, "binary: varint overflows a 64-bit integer")
				return 0
			}
			return x | uint64(c)<<s
		}
		x |= uint64(c&0x7f) << s
		s += 7
	}
	r.fail(field, "binary: varint overflows a 64-bit integer")
	return 0
}

func (r *refReader) varint(field string) int64 {
	x := r.uv(field, false)
	if !r.failed && x >= 1<<63 {
		r.fail(field, "invalid negative value")
	}
	return int64(x)
}

func (r *refReader) level(field string) int {
	x := r.uv(field, false)
	if !r.failed && x >= 1<<63 {
		r.fail(field, "invalid level")
	}
	return int(x)
}

func (r *refReader) bytes(field string) []byte {
	n := r.uv(field, false)
	if r.failed {
		return nil
	}
	if n > uint64(len(r.b)) {
		if n-uint64(len(r.b)) > 1<<20 && n <= 1<<48 {
			lastMidrange = true
		}
		r.fail(field, "short read")
		return nil
	}
	x := append([]byte{}, r.b[:n]...)
	r.b = r.b[n:]
	return x
}

// lastMidrange: the last refDecodeInto met a byte-string length that exceeds what is left by more than 1 MiB
// without exceeding runtime.maxAlloc — a decoder that allocates from the length before checking it would reserve
// that much (and the process would die of "out of memory" rather than panic); such inputs are not handed to the
// real decoder.
var lastMidrange bool

// refDecodeInto decodes b into v (fields accumulate as in the reused record). Unknown tags are skipped.
func refDecodeInto(v *leveldb.VerifRecord, b []byte) (field, why string, ok bool) {
	lastMidrange = false
	r := &refReader{b: b}
	for {
		tag := r.uv("field-header", true)
		if r.atEO {
			return "", "", true
		}
		if r.failed {
			return r.field, r.why, false
		}
		switch tag {
		case 1:
			x := r.bytes("comparer")
			if !r.failed {
				v.Has |= 1 << 1
				v.Comparer = string(x)
			}
		case 2:
			x := r.varint("journal-num")
			if !r.failed {
				v.Has |= 1 << 2
				v.JournalNum = x
			}
		case 9:
			x := r.varint("prev-journal-num")
			if !r.failed {
				v.Has |= 1 << 9
				v.PrevJournalNum = x
			}
		case 3:
			x := r.varint("next-file-num")
			if !r.failed {
				v.Has |= 1 << 3
				v.NextFileNum = x
			}
		case 4:
			x := r.uv("seq-num", false)
			if !r.failed {
				v.Has |= 1 << 4
				v.SeqNum = x
			}
		case 5:
			l := r.level("comp-ptr.level")
			k := r.bytes("comp-ptr.ikey")
			if !r.failed {
				v.Has |= 1 << 5
				v.CompPtrs = append(v.CompPtrs, leveldb.VerifCompPtr{Level: l, IKey: k})
			}
		case 7:
			l := r.level("add-table.level")
			n := r.varint("add-table.num")
			s := r.varint("add-table.size")
			imin := r.bytes("add-table.imin")
			imax := r.bytes("add-table.imax")
			if !r.failed {
				v.Has |= 1 << 7
				v.Added = append(v.Added, leveldb.VerifTable{Level: l, Num: n, Size: s, Imin: imin, Imax: imax})
			}
		case 6:
			l := r.level("del-table.level")
			n := r.varint("del-table.num")
			if !r.failed {
				v.Has |= 1 << 6
				v.Deleted = append(v.Deleted, leveldb.VerifDelTable{Level: l, Num: n})
			}
		}
		if r.failed {
			return r.field, r.why, false
		}
	}
}

func recEqual(a, b *leveldb.VerifRecord) bool {
	if a.Has != b.Has || a.Comparer != b.Comparer || a.JournalNum != b.JournalNum || a.PrevJournalNum != b.PrevJournalNum ||
		a.NextFileNum != b.NextFileNum || a.SeqNum != b.SeqNum || len(a.CompPtrs) != len(b.CompPtrs) ||
		len(a.Added) != len(b.Added) || len(a.Deleted) != len(b.Deleted) {
		return false
	}
	for i := range a.CompPtrs {
		if a.CompPtrs[i].Level != b.CompPtrs[i].Level || !bytes.Equal(a.CompPtrs[i].IKey, b.CompPtrs[i].IKey) {
			return false
		}
	}
	for i := range a.Added {
		x, y := a.Added[i], b.Added[i]
		if x.Level != y.Level || x.Num != y.Num || x.Size != y.Size || !bytes.Equal(x.Imin, y.Imin) || !bytes.Equal(x.Imax, y.Imax) {
			return false
		}
	}
	for i := range a.Deleted {
		if a.Deleted[i] != b.Deleted[i] {
			return false
		}
	}
	return true
}

// ---------------------------------------------------------------- reference replay

type refState struct {
	Fail                       string // "" or the failure class (Coq constructor of rfail)
	Journal, PrevJournal, Next int64
	Seq                        uint64
	NumLevels                  int
	Tables                     []leveldb.VerifTable // by level, then by number
	CompPtrs                   [][]byte
}

type lvlNum struct {
	level int
	num   int64
}

// refReplay: every record decoded into one accumulating record (lists per record); a record that fails to
// decode is fatal when strict, else skipped (its leading scalar fields stay); deletions of a record before its
// additions; afterwards the checks comparer / next-file / journal / seq.
func refReplay(recs [][]byte, strict bool, cmp string) refState {
	acc := &leveldb.VerifRecord{}
	live := map[lvlNum]leveldb.VerifTable{}
	var cps [][]byte
	for _, b := range recs {
		acc.CompPtrs, acc.Added, acc.Deleted = nil, nil, nil
		acc.Has &^= (1 << 5) | (1 << 6) | (1 << 7)
		f, w, ok := refDecodeInto(acc, b)
		if !ok {
			if strict {
				return refState{Fail: fmt.Sprintf("(RFDecode (ECorrupt %s %s))", fieldCtor[f], reasonCtor[w])}
			}
			continue
		}
		for _, c := range acc.CompPtrs {
			for len(cps) <= c.Level {
				cps = append(cps, nil)
			}
			cps[c.Level] = append([]byte{}, c.IKey...)
		}
		for _, d := range acc.Deleted {
			delete(live, lvlNum{d.Level, d.Num})
		}
		for _, t := range acc.Added {
			live[lvlNum{t.Level, t.Num}] = t
		}
	}
	switch {
	case acc.Has&(1<<1) == 0:
		return refState{Fail: "RFNoComparer"}
	case acc.Comparer != cmp:
		return refState{Fail: "RFComparerMismatch"}
	case acc.Has&(1<<3) == 0:
		return refState{Fail: "RFNoNextFile"}
	case acc.Has&(1<<2) == 0:
		return refState{Fail: "RFNoJournal"}
	case acc.Has&(1<<4) == 0:
		return refState{Fail: "RFNoSeq"}
	}
	st := refState{Journal: acc.JournalNum, Next: acc.NextFileNum, Seq: acc.SeqNum, CompPtrs: cps}
	if acc.Has&(1<<9) != 0 {
		st.PrevJournal = acc.PrevJournalNum
	}
	for _, t := range live {
		st.Tables = append(st.Tables, t)
		if t.Level+1 > st.NumLevels {
			st.NumLevels = t.Level + 1
		}
	}
	sortTables(st.Tables)
	return st
}

func sortTables(ts []leveldb.VerifTable) {
	sort.Slice(ts, func(i, j int) bool {
		if ts[i].Level != ts[j].Level {
			return ts[i].Level < ts[j].Level
		}
		return ts[i].Num < ts[j].Num
	})
}

func tablesEqual(a, b []leveldb.VerifTable) bool {
	if len(a) != len(b) {
		return false
	}
	for i := range a {
		x, y := a[i], b[i]
		if x.Level != y.Level || x.Num != y.Num || x.Size != y.Size || !bytes.Equal(x.Imin, y.Imin) || !bytes.Equal(x.Imax, y.Imax) {
			return false
		}
	}
	return true
}

// ---------------------------------------------------------------- generators

var boundaryI64 = []int64{0, 1, 2, 127, 128, 129, 16383, 16384, 1<<31 - 1, 1 << 31, 1 << 32, 1<<56 - 1, 1<<62 + 5, math.MaxInt64}
var boundaryU64 = []uint64{0, 1, 127, 128, 1<<31 - 1, 1 << 31, 1 << 32, 1<<56 - 1, 1<<63 - 1, 1 << 63, math.MaxUint64}
var boundaryLevel = []int{0, 0, 1, 1, 2, 3, 6, 7, 12, 127, 128, 1<<31 - 1, 1 << 31, 1 << 32, math.MaxInt64}

func genI64(r *vlib.RNG, allowNeg bool) int64 {
	switch {
	case allowNeg && r.Chance(1, 25):
		return []int64{-1, math.MinInt64, -128}[r.Intn(3)]
	case r.Chance(1, 2):
		return boundaryI64[r.Intn(len(boundaryI64))]
	default:
		return int64(r.Uint64() >> uint(1+r.Intn(63)))
	}
}

func genLevel(r *vlib.RNG, wild bool) int {
	if !wild {
		return r.Intn(5)
	}
	if r.Chance(1, 30) {
		return []int{-1, math.MinInt64}[r.Intn(2)]
	}
	if r.Chance(1, 2) {
		return boundaryLevel[r.Intn(len(boundaryLevel))]
	}
	return r.Intn(8)
}

func genKey(r *vlib.RNG) []byte {
	switch r.Pick(2, 5, 3, 1) {
	case 0:
		return []byte{}
	case 1: // an internal key: user key + 8 byte trailer
		return genIKey(r)
	case 2:
		return r.Bytes(r.Range(1, 12), []byte{0, 1, 'a', 'b', 0x7f, 0x80, 0xff})
	default:
		return r.Bytes(r.Range(100, 700), []byte{0, 'x', 0xff})
	}
}

func genIKey(r *vlib.RNG) []byte {
	k := r.Bytes(r.Range(0, 6), []byte("abcd\x00\xff"))
	var t [8]byte
	binary.LittleEndian.PutUint64(t[:], (r.Uint64()>>uint(8+r.Intn(56)))<<8|1)
	return append(k, t[:]...)
}

func genRecord(r *vlib.RNG, wild bool) *leveldb.VerifRecord {
	v := &leveldb.VerifRecord{}
	if r.Chance(1, 2) {
		v.Has |= 1 << 1
		switch r.Intn(4) {
		case 0:
			v.Comparer = ""
		case 1:
			v.Comparer = "leveldb.BytewiseComparator"
		case 2:
			v.Comparer = string(r.Bytes(r.Range(1, 9), []byte{0, 'c', 0xff}))
		default:
			v.Comparer = string(r.Bytes(r.Range(120, 400), []byte("cmp")))
		}
	}
	if r.Chance(1, 2) {
		v.Has |= 1 << 2
		v.JournalNum = genI64(r, wild)
	}
	if r.Chance(1, 2) {
		v.Has |= 1 << 3
		v.NextFileNum = genI64(r, wild)
	}
	if r.Chance(1, 2) {
		v.Has |= 1 << 4
		if r.Chance(1, 2) {
			v.SeqNum = boundaryU64[r.Intn(len(boundaryU64))]
		} else {
			v.SeqNum = r.Uint64() >> uint(r.Intn(64))
		}
	}
	if r.Chance(1, 4) { // never written by encode
		v.Has |= 1 << 9
		v.PrevJournalNum = genI64(r, false)
	}
	for i, n := 0, r.Pick(3, 3, 2, 1); i < n; i++ {
		v.CompPtrs = append(v.CompPtrs, leveldb.VerifCompPtr{Level: genLevel(r, wild), IKey: genKey(r)})
	}
	for i, n := 0, r.Pick(3, 3, 2, 1); i < n; i++ {
		v.Deleted = append(v.Deleted, leveldb.VerifDelTable{Level: genLevel(r, wild), Num: genI64(r, wild)})
	}
	for i, n := 0, r.Pick(3, 3, 2, 1); i < n; i++ {
		v.Added = append(v.Added, leveldb.VerifTable{Level: genLevel(r, wild), Num: genI64(r, wild), Size: genI64(r, wild), Imin: genKey(r), Imax: genKey(r)})
	}
	return v
}

// canonical: what decode(encode(v)) must give — the previous journal number is not written
func canonical(v *leveldb.VerifRecord, has int) *leveldb.VerifRecord {
	c := *v
	c.Has = has &^ (1 << 9)
	c.PrevJournalNum = 0
	if c.Has&(1<<1) == 0 {
		c.Comparer = ""
	}
	if c.Has&(1<<2) == 0 {
		c.JournalNum = 0
	}
	if c.Has&(1<<3) == 0 {
		c.NextFileNum = 0
	}
	if c.Has&(1<<4) == 0 {
		c.SeqNum = 0
	}
	return &c
}

// ---------------------------------------------------------------- replay files

type recReplay struct {
	What   string                `json:"what"` // record-encode | record-decode | manifest-replay
	Desc   string                `json:"desc,omitempty"`
	Rec    *leveldb.VerifRecord  `json:"rec,omitempty"`
	Hex    string                `json:"hex,omitempty"`
	Recs   []string              `json:"recs,omitempty"`
	Strict bool                  `json:"strict,omitempty"`
	Cmp    string                `json:"cmp,omitempty"`
}

// ---------------------------------------------------------------- (i) encode

// checkEncode runs the real encode on v; returns a (P) failure text ("" if fine) and the K case.
func checkEncode(v *leveldb.VerifRecord) (msg string, kcase string, enc []byte) {
	b, has, err, pan := leveldb.VerifRecordEncode(v)
	if err != nil {
		return "encode returned an error on a bytes.Buffer: " + err.Error(), "", nil
	}
	full := *v
	full.Has = has
	ref, ok := refEncode(&full)
	switch {
	case pan != "" && ok:
		return "encode panicked (" + pan + ") on a record without negative numbers", "", nil
	case pan == "" && !ok:
		return "encode wrote a negative number instead of panicking", "", nil
	case pan != "":
		return "", fmt.Sprintf("KREnc %s None", coqRec(&full)), nil
	}
	k := fmt.Sprintf("KREnc %s (Some %s)", coqRec(&full), vlib.CoqHex(b))
	if !bytes.Equal(b, ref) {
		return fmt.Sprintf("encode wrote %x, the documented format is %x", b, ref), k, nil
	}
	return "", k, b
}

func inRange(v *leveldb.VerifRecord) bool {
	for _, c := range v.CompPtrs {
		if c.Level < 0 {
			return false
		}
	}
	for _, d := range v.Deleted {
		if d.Level < 0 {
			return false
		}
	}
	for _, t := range v.Added {
		if t.Level < 0 {
			return false
		}
	}
	return true
}

// ---------------------------------------------------------------- (ii) decode

func decOutcome(b []byte) (kind, field, why, pan string, rec *leveldb.VerifRecord, err error) {
	rec, err, cor, pan := leveldb.VerifRecordDecode(b)
	switch {
	case pan != "":
		return "panic", "", "", pan, rec, nil
	case err == nil:
		return "ok", "", "", "", rec, nil
	case err == io.EOF:
		return "eof", "", "", "", rec, err
	case cor:
		if f, w, ok := manifestErr(err); ok {
			return "corrupt", f, w, "", rec, err
		}
	}
	return "other", "", "", "", rec, err
}

// checkDecode runs the real decode on b; (P): the outcome must be a record or a corruption error naming a known
// field and reason, and equal to the reference decoder's.
func checkDecode(b []byte) (msg string, kcase string) {
	kind, f, w, pan, rec, err := decOutcome(b)
	ref := &leveldb.VerifRecord{}
	rf, rw, rok := refDecodeInto(ref, b)
	h := vlib.CoqHex(b)
	switch kind {
	case "panic":
		return fmt.Sprintf("decode panicked on %x: %s", b, pan), fmt.Sprintf("KRDec %s OPanic", h)
	case "eof":
		return fmt.Sprintf("decode returned the bare io.EOF (not an ErrCorrupted) on %x", b), fmt.Sprintf("KRDec %s (OEOF %s)", h, coqRec(rec))
	case "other":
		return fmt.Sprintf("decode returned an error that is not a manifest corruption on %x: %v", b, err), ""
	case "ok":
		k := fmt.Sprintf("KRDec %s (OOk %s)", h, coqRec(rec))
		if !rok {
			return fmt.Sprintf("decode accepted %x, the reference decoder reports %s: %s", b, rf, rw), k
		}
		if !recEqual(rec, ref) {
			return fmt.Sprintf("decode of %x gave %+v, the reference decoder %+v", b, *rec, *ref), k
		}
		return "", k
	}
	fc, wc := fieldCtor[f], reasonCtor[w]
	if fc == "" || wc == "" {
		return fmt.Sprintf("decode of %x: unknown corruption field/reason %q / %q", b, f, w), ""
	}
	k := fmt.Sprintf("KRDec %s (OErr %s %s %s)", h, fc, wc, coqRec(rec))
	if rok {
		return fmt.Sprintf("decode rejected %x (%s: %s), the reference decoder accepts it", b, f, w), k
	}
	if rf != f || rw != w {
		return fmt.Sprintf("decode of %x reports %s: %s, the reference decoder %s: %s", b, f, w, rf, rw), k
	}
	if !recEqual(rec, ref) {
		return fmt.Sprintf("decode of %x left %+v in the record when it failed, the reference decoder %+v", b, *rec, *ref), k
	}
	return "", k
}

// damaged variants of a valid encoding; lengths substituted are either barely too large or >= 2^62 (never in
// between: a decoder that allocates from the length would reserve that much)
func damage(r *vlib.RNG, b []byte) []byte {
	d := append([]byte{}, b...)
	switch r.Pick(4, 3, 2, 2, 1) {
	case 0:
		if len(d) > 0 {
			d = d[:r.Intn(len(d))]
		}
	case 1:
		if len(d) > 0 {
			d[r.Intn(len(d))] ^= 1 << uint(r.Intn(8))
		}
	case 2: // insert a huge varint somewhere
		i := r.Intn(len(d) + 1)
		huge := [][]byte{
			{0xff, 0xff, 0xff, 0xff, 0xff, 0xff, 0xff, 0xff, 0x7f},
			{0xff, 0xff, 0xff, 0xff, 0xff, 0xff, 0xff, 0xff, 0xff, 0x01},
			{0x80, 0x80, 0x80, 0x80, 0x80, 0x80, 0x80, 0x80, 0x80, 0x01},
			{0x80, 0x80, 0x80, 0x80, 0x80, 0x80, 0x80, 0x80, 0x40},
			{0x80, 0x80, 0x80, 0x80, 0x80, 0x80, 0x80, 0x80, 0x80, 0x02},
			{0x80, 0x80, 0x80, 0x80, 0x80, 0x80, 0x80, 0x80, 0x80, 0x80},
			{0xff, 0xff, 0xff, 0xff, 0xff, 0xff, 0xff, 0xff, 0xff, 0xff, 0x01},
		}[r.Intn(7)]
		d = append(d[:i], append(append([]byte{}, huge...), d[i:]...)...)
	case 3: // extend with garbage
		d = append(d, r.Bytes(r.Range(1, 12), []byte{0, 1, 2, 3, 4, 5, 6, 7, 8, 9, 10, 0x7f, 0x80, 0xff})...)
	default:
		if len(d) > 2 {
			i := r.Intn(len(d) - 1)
			d = append(d[:i], d[i+1:]...)
		}
	}
	return d
}

var directedDecode = [][]byte{
	{},
	{0},
	{8, 3, 5},
	{10, 200},
	{0x80},
	{1, 0xff, 0xff, 0xff, 0xff, 0xff, 0xff, 0xff, 0xff, 0x7f},                // comparer length 2^63-1 (pinned: makeslice panic)
	{1, 0xff, 0xff, 0xff, 0xff, 0xff, 0xff, 0xff, 0xff, 0xff, 0x01},          // 2^64-1
	{1, 5},                                                                   // length, then nothing (pinned: bare EOF)
	{1, 5, 'a'},                                                              // length, then too little
	{1, 0},                                                                   // empty comparer
	{6, 0x80, 0x80, 0x80, 0x80, 0x80, 0x80, 0x80, 0x80, 0x80, 0x01, 7},       // deleted table at level 2^63 (pinned: negative index)
	{5, 0xff, 0xff, 0xff, 0xff, 0xff, 0xff, 0xff, 0xff, 0xff, 0x01, 0},       // compaction pointer at level 2^64-1
	{7, 0xff, 0xff, 0xff, 0xff, 0xff, 0xff, 0xff, 0xff, 0x7f, 1, 1, 0, 0},    // added table at level 2^63-1: accepted by decode
	{6, 0xff, 0xff, 0xff, 0xff, 0x0f, 7},                                     // level 2^32-1
	{6, 0x80, 0x80, 0x80, 0x80, 0x10, 7},                                     // level 2^32
	{6, 0x80, 0x80, 0x80, 0x80, 0x08, 7},                                     // level 2^31
	{3, 0x80, 0x80, 0x80, 0x80, 0x80, 0x80, 0x80, 0x80, 0x80, 0x01},          // next-file-num 2^63
	{2, 0xff, 0xff, 0xff, 0xff, 0xff, 0xff, 0xff, 0xff, 0x7f},                // journal-num 2^63-1
	{4, 0xff, 0xff, 0xff, 0xff, 0xff, 0xff, 0xff, 0xff, 0xff, 0x01},          // seq 2^64-1
	{4, 0xff, 0xff, 0xff, 0xff, 0xff, 0xff, 0xff, 0xff, 0xff, 0x02},          // seq overflow
	{0x80, 0x80, 0x80, 0x80, 0x80, 0x80, 0x80, 0x80, 0x80, 0x80},             // tag: ten continuation bytes
	{0x81, 0x00, 3, 9},                                                       // tag 1 in two bytes, length 3, too little
	{9, 77, 2, 5},                                                            // previous journal number
	{7, 1, 8, 100, 1, 'a'},                                                   // added table cut after imin's length byte... and imin
	{7, 1, 8, 100, 1},                                                        // cut right after the length of imin
	{2, 9, 7},                                                                // journal number, then a torn added table
}

// ---------------------------------------------------------------- (iii) manifests

func splitManifest(data []byte) ([][]byte, error) {
	jr := journal.NewReader(bytes.NewReader(data), nil, true, true)
	var recs [][]byte
	for {
		r, err := jr.Next()
		if err == io.EOF {
			return recs, nil
		}
		if err != nil {
			return recs, err
		}
		b, err := io.ReadAll(r)
		if err != nil {
			return recs, err
		}
		recs = append(recs, b)
	}
}

func manifestStorage(recs [][]byte) storage.Storage {
	stor := storage.NewMemStorage()
	fd := storage.FileDesc{Type: storage.TypeManifest, Num: 1}
	w, _ := stor.Create(fd)
	jw := journal.NewWriter(w)
	for _, r := range recs {
		ww, _ := jw.Next()
		ww.Write(r)
	}
	jw.Close()
	w.Close()
	stor.SetMeta(fd)
	return stor
}

func failCtor(err error) string {
	if err == io.EOF {
		return "(RFDecode EEOF)"
	}
	f, w, ok := manifestErr(err)
	if !ok {
		return ""
	}
	switch {
	case f == "comparer" && w == "missing":
		return "RFNoComparer"
	case f == "comparer" && strings.HasPrefix(w, "mismatch"):
		return "RFComparerMismatch"
	case f == "next-file-num" && w == "missing":
		return "RFNoNextFile"
	case f == "journal-file-num" && w == "missing":
		return "RFNoJournal"
	case f == "seq-num" && w == "missing":
		return "RFNoSeq"
	}
	if fieldCtor[f] != "" && reasonCtor[w] != "" {
		return fmt.Sprintf("(RFDecode (ECorrupt %s %s))", fieldCtor[f], reasonCtor[w])
	}
	return ""
}

func coqRecs(recs [][]byte) string {
	var hs []string
	for _, r := range recs {
		hs = append(hs, vlib.CoqHex(r))
	}
	return "[" + strings.Join(hs, "; ") + "]"
}

func coqTables(ts []leveldb.VerifTable) string {
	var xs []string
	for _, t := range ts {
		xs = append(xs, fmt.Sprintf("(%s, %s, %s, %s, %s)", coqZ(int64(t.Level)), coqZ(t.Num), coqZ(t.Size), vlib.CoqHex(t.Imin), vlib.CoqHex(t.Imax)))
	}
	return "[" + strings.Join(xs, "; ") + "]"
}

func coqCptrs(cps [][]byte) string {
	var xs []string
	for _, c := range cps {
		if c == nil {
			xs = append(xs, "None")
		} else {
			xs = append(xs, "Some "+vlib.CoqHex(c))
		}
	}
	return "[" + strings.Join(xs, "; ") + "]"
}

// checkManifest runs the real session.recover on a storage holding recs as its manifest. (P): agreement with the
// reference replay. allDecode: every record must decode on its own in the model (real manifests).
func checkManifest(stor storage.Storage, recs [][]byte, strict bool, cmp string, o *opt.Options, allDecode bool) (msg, kcase string, st *leveldb.VerifSessionState) {
	oo := *o
	if strict {
		oo.Strict |= opt.StrictManifest
	} else {
		oo.Strict &^= opt.StrictManifest
	}
	st, err, _, pan := leveldb.VerifSessionRecover(stor, &oo)
	ref := refReplay(recs, strict, cmp)
	head := fmt.Sprintf("KRMan %s %s %s %s", vlib.CoqBool(strict), vlib.CoqHex([]byte(cmp)), coqRecs(recs), vlib.CoqBool(allDecode))
	if pan != "" {
		return "session.recover panicked: " + pan, head + " MPanic", nil
	}
	if err != nil {
		fc := failCtor(err)
		if fc == "" {
			return "session.recover failed with an error that is not a manifest corruption: " + err.Error(), "", nil
		}
		k := fmt.Sprintf("%s (MFail %s)", head, fc)
		if ref.Fail != fc {
			if ref.Fail == "" {
				return fmt.Sprintf("session.recover failed (%v); the reference replay succeeds", err), k, nil
			}
			return fmt.Sprintf("session.recover failed with %s (%v); the reference replay fails with %s", fc, err, ref.Fail), k, nil
		}
		return "", k, nil
	}
	tabs := append([]leveldb.VerifTable{}, st.Version...)
	sortTables(tabs)
	k := fmt.Sprintf("%s (MOk %s %s %s %d %d %s %s)", head, coqZ(st.JournalNum), coqZ(st.PrevJournalNum), coqZ(st.NextFileNum),
		st.SeqNum, st.NumLevels, coqTables(tabs), coqCptrs(st.CompPtrs))
	switch {
	case ref.Fail != "":
		return "session.recover succeeded; the reference replay fails with " + ref.Fail, k, st
	case ref.Journal != st.JournalNum || ref.PrevJournal != st.PrevJournalNum || ref.Next != st.NextFileNum || ref.Seq != st.SeqNum:
		return fmt.Sprintf("session.recover installed journal/prev/next-file/seq = %d/%d/%d/%d; the records denote %d/%d/%d/%d",
			st.JournalNum, st.PrevJournalNum, st.NextFileNum, st.SeqNum, ref.Journal, ref.PrevJournal, ref.Next, ref.Seq), k, st
	case !tablesEqual(tabs, ref.Tables) || st.NumLevels != ref.NumLevels:
		return fmt.Sprintf("session.recover rebuilt %d tables in %d levels %v; the records denote %d tables in %d levels %v",
			len(tabs), st.NumLevels, tabNums(tabs), len(ref.Tables), ref.NumLevels, tabNums(ref.Tables)), k, st
	case len(st.CompPtrs) != len(ref.CompPtrs):
		return fmt.Sprintf("session.recover holds %d compaction pointers; the records denote %d", len(st.CompPtrs), len(ref.CompPtrs)), k, st
	}
	for i := range st.CompPtrs {
		if !bytes.Equal(st.CompPtrs[i], ref.CompPtrs[i]) || (st.CompPtrs[i] == nil) != (ref.CompPtrs[i] == nil) {
			return fmt.Sprintf("compaction pointer of level %d is %x; the records denote %x", i, st.CompPtrs[i], ref.CompPtrs[i]), k, st
		}
	}
	return "", k, st
}

func tabNums(ts []leveldb.VerifTable) string {
	var xs []string
	for _, t := range ts {
		xs = append(xs, fmt.Sprintf("L%d:%d", t.Level, t.Num))
	}
	return strings.Join(xs, " ")
}

// genManifest: a crafted record sequence: a head record with the session fields (some possibly missing), then
// edits over a small pool of (level, number) pairs so that re-additions, deletions of absent tables, deletion and
// addition of the same file in one record all occur; occasionally a damaged record or an unknown tag.
func genManifest(r *vlib.RNG) (recs [][]byte, cmp string) {
	cmp = "leveldb.BytewiseComparator"
	enc := func(v *leveldb.VerifRecord) []byte {
		b, _ := refEncode(v)
		return b
	}
	head := &leveldb.VerifRecord{Has: 1<<1 | 1<<2 | 1<<3 | 1<<4, Comparer: cmp, JournalNum: int64(r.Range(1, 9)), NextFileNum: int64(r.Range(10, 40)), SeqNum: uint64(r.Intn(1000))}
	switch r.Pick(16, 1, 1, 1, 1, 1) {
	case 1:
		head.Has &^= 1 << 1
	case 2:
		head.Has &^= 1 << 2
	case 3:
		head.Has &^= 1 << 3
	case 4:
		head.Has &^= 1 << 4
	case 5:
		head.Comparer = "other.Comparator"
	}
	recs = append(recs, enc(head))
	n := r.Range(0, 9)
	for i := 0; i < n; i++ {
		v := &leveldb.VerifRecord{}
		if r.Chance(1, 2) {
			v.Has |= 1<<2 | 1<<4
			v.JournalNum = int64(r.Range(1, 60))
			v.SeqNum = uint64(r.Intn(100000))
		}
		if r.Chance(1, 3) {
			v.Has |= 1 << 3
			v.NextFileNum = int64(r.Range(10, 90))
		}
		if r.Chance(1, 8) {
			v.Has |= 1 << 1
			v.Comparer = cmp
		}
		for j, m := 0, r.Pick(3, 3, 2, 1); j < m; j++ {
			v.Deleted = append(v.Deleted, leveldb.VerifDelTable{Level: r.Intn(4), Num: int64(r.Range(1, 7))})
		}
		for j, m := 0, r.Pick(2, 3, 2, 1); j < m; j++ {
			a, b := genIKey(r), genIKey(r)
			v.Added = append(v.Added, leveldb.VerifTable{Level: r.Intn(4), Num: int64(r.Range(1, 7)), Size: int64(r.Intn(5000)), Imin: a, Imax: b})
		}
		if r.Chance(1, 4) {
			v.CompPtrs = append(v.CompPtrs, leveldb.VerifCompPtr{Level: r.Intn(5), IKey: genIKey(r)})
		}
		b := enc(v)
		// (no bit flips here: a flipped key length can yield a table whose key is shorter than 8 bytes, on
		// which goleveldb's internalKey.ukey() panics while sorting the level — outside what the model covers)
		switch r.Pick(14, 2, 1) {
		case 1: // cut: damaged behind its leading fields, or a shorter record when the cut is clean
			if len(b) > 1 {
				b = b[:r.Range(1, len(b)-1)]
			}
		case 2: // an unknown tag in front (skipped), a previous journal number behind
			b = append([]byte{8}, append(b, 9, byte(r.Intn(100)))...)
		}
		recs = append(recs, b)
	}
	return recs, cmp
}

// realManifests: DB workloads on the checker's storage; at quiescent points and after Close the current manifest
// file is read back, split into records and replayed; the table set must be the one VerifDumpVersion shows at that
// point / after a read-only reopen.
func realManifests(r *vlib.RNG, res *vlib.Result, maxText int, fail func(string, recReplay)) (cases []string) {
	manSizes := []int64{0, 0, 1, 512, 4096}
	o := &opt.Options{
		WriteBuffer:                   r.Range(2, 8) * 1024,
		CompactionTableSize:           r.Range(2, 6) * 1024,
		CompactionTotalSize:           r.Range(8, 30) * 1024,
		CompactionL0Trigger:           r.Range(2, 4),
		MaxManifestFileSize:           manSizes[r.Intn(len(manSizes))],
		DisableSeeksCompaction:        r.Bool(),
		DisableLargeBatchTransaction: r.Bool(),
	}
	cmpName := "leveldb.BytewiseComparator"
	stor := vstor.New(false)
	db, err := leveldb.Open(stor, o)
	if err != nil {
		return nil
	}
	defer func() {
		if db != nil {
			closeDB(db)
		}
	}()
	snapshot := func(what string, dump []leveldb.VerifTable) {
		fd, ok := stor.Meta()
		if !ok {
			return
		}
		data, _, ok := stor.FileBytes(fd)
		if !ok {
			return
		}
		recs, err := splitManifest(data)
		if err != nil {
			fail(fmt.Sprintf("the manifest %v of a live DB does not split into journal records: %v", fd, err), recReplay{What: "manifest-replay", Desc: what})
			return
		}
		res.Count("real_manifests", 1)
		res.Count("real_manifest_records", len(recs))
		clone := stor.Clone(false)
		msg, k, st := checkManifest(clone, recs, true, cmpName, o, true)
		clone.Discard()
		var hs []string
		for _, b := range recs {
			hs = append(hs, hex.EncodeToString(b))
		}
		rp := recReplay{What: "manifest-replay", Desc: what, Recs: hs, Strict: true, Cmp: cmpName}
		if msg != "" {
			fail("real manifest ("+what+"): "+msg, rp)
			return
		}
		if st != nil && dump != nil {
			a := append([]leveldb.VerifTable{}, st.Version...)
			b := append([]leveldb.VerifTable{}, dump...)
			sortTables(a)
			sortTables(b)
			if !tablesEqual(a, b) {
				fail(fmt.Sprintf("real manifest (%s): session.recover of the manifest rebuilds %s, the DB's version is %s", what, tabNums(a), tabNums(b)), rp)
				return
			}
		}
		res.Eval("man/"+what+"/"+fmt.Sprint(len(recs))+"/"+fmt.Sprint(len(dump)), len(recs) > 2)
		if k != "" && len(k) < maxText {
			cases = append(cases, k)
		}
	}
	key := func() []byte { return []byte(fmt.Sprintf("k%04d", r.Intn(400))) }
	val := func() []byte { return bytes.Repeat([]byte{byte('a' + r.Intn(26))}, r.Range(20, 300)) }
	steps := r.Range(60, 160)
	for i := 0; i < steps; i++ {
		switch r.Pick(40, 8, 3, 3, 2, 3) {
		case 0:
			db.Put(key(), val(), &opt.WriteOptions{Sync: r.Chance(1, 4)})
		case 1:
			db.Delete(key(), nil)
		case 2:
			db.CompactRange(utilRange(r))
		case 3:
			tr, err := db.OpenTransaction()
			if err == nil {
				for j, m := 0, r.Range(1, 30); j < m; j++ {
					tr.Put(key(), val(), nil)
				}
				if r.Chance(1, 5) {
					tr.Discard()
				} else {
					tr.Commit()
				}
			}
		case 4: // quiescent point: the live manifest against the live version
			if leveldb.VerifWaitIdle(db, 5*time.Second) {
				snapshot("live", leveldb.VerifDumpVersion(db))
			}
		case 5: // close; manifest against a read-only reopen; reopen for writing
			leveldb.VerifWaitIdle(db, 5*time.Second)
			closeDB(db)
			db = nil
			ro := *o
			ro.ReadOnly = true
			rdb, err := leveldb.Open(stor, &ro)
			if err != nil {
				fail("read-only reopen failed: "+err.Error(), recReplay{What: "manifest-replay", Desc: "reopen"})
				return
			}
			dump := leveldb.VerifDumpVersion(rdb)
			closeDB(rdb)
			snapshot("closed", dump)
			db, err = leveldb.Open(stor, o)
			if err != nil {
				fail("reopen failed: "+err.Error(), recReplay{What: "manifest-replay", Desc: "reopen"})
				db = nil
				return
			}
		}
	}
	if leveldb.VerifWaitIdle(db, 5*time.Second) {
		snapshot("live", leveldb.VerifDumpVersion(db))
	}
	return cases
}

func utilRange(r *vlib.RNG) util.Range {
	if r.Chance(1, 3) {
		return util.Range{}
	}
	a, b := r.Intn(400), r.Intn(400)
	if a > b {
		a, b = b, a
	}
	return util.Range{Start: []byte(fmt.Sprintf("k%04d", a)), Limit: []byte(fmt.Sprintf("k%04d", b))}
}

// ---------------------------------------------------------------- driver

// recordChecks runs (P) and collects (K) for the record codec and for crafted manifests (no DB involved); returns
// the K cases and the number of (P) failures.
func recordChecks(root *vlib.RNG, res *vlib.Result, thorough bool) (cases []string, nviol int) {
	nEnc, nDec, nMan := 160, 420, 70
	if thorough {
		nEnc, nDec, nMan = 3000, 12000, 1500
	}
	kEnc, kDec, kMan := 110, 330, 60
	fail := func(msg string, rp recReplay) {
		nviol++
		if nviol <= 4 {
			rp.Desc = msg
			res.Violate("manifest record codec: "+msg, rp)
		}
	}
	r := root.Fork()
	var valid, validIn [][]byte
	// (i) encode
	for i := 0; i < nEnc; i++ {
		v := genRecord(r, i%3 != 0)
		msg, k, b := checkEncode(v)
		res.Eval(fmt.Sprintf("enc/%d/%d/%d/%d/%d", v.Has, len(v.CompPtrs), len(v.Added), len(v.Deleted), len(b)), len(v.Added)+len(v.Deleted)+len(v.CompPtrs) > 0)
		res.Count("record_encode", 1)
		if k != "" && i < kEnc && len(k) < 6000 {
			cases = append(cases, k)
		}
		if msg != "" {
			fail(msg, recReplay{What: "record-encode", Rec: v})
			continue
		}
		// the three resets: list and its bit cleared, everything else untouched
		{
			c, a, d := r.Bool(), r.Bool(), r.Bool()
			before := leveldb.VerifRecordReset(v, false, false, false)
			after := leveldb.VerifRecordReset(v, c, a, d)
			want := *before
			if c {
				want.Has &^= 1 << 5
				want.CompPtrs = nil
			}
			if a {
				want.Has &^= 1 << 7
				want.Added = nil
			}
			if d {
				want.Has &^= 1 << 6
				want.Deleted = nil
			}
			if !recEqual(after, &want) {
				fail(fmt.Sprintf("reset(compPtrs=%v, added=%v, deleted=%v) of %+v gave %+v", c, a, d, *before, *after), recReplay{What: "record-encode", Rec: v})
			}
		}
		if b == nil {
			res.Count("record_encode_panics_on_negative", 1)
			continue
		}
		valid = append(valid, b)
		if inRange(v) {
			validIn = append(validIn, b)
		}
		// round trip through the real decoder
		kind, f, w, pan, back, _ := decOutcome(b)
		_, has, _, _ := leveldb.VerifRecordEncode(v)
		switch {
		case inRange(v) && (kind != "ok" || !recEqual(back, canonical(v, has))):
			fail(fmt.Sprintf("decode(encode(r)) is not r for the in-range record %+v: %s %s %s %s %+v", *v, kind, f, w, pan, back), recReplay{What: "record-encode", Rec: v})
		case !inRange(v) && !(kind == "corrupt" && w == "invalid level"):
			fail(fmt.Sprintf("a record with a negative level was written and read back as %s %s %s", kind, f, w), recReplay{What: "record-encode", Rec: v})
		}
	}
	// (ii) decode
	nd := 0
	emit := func(b []byte, always bool) {
		refDecodeInto(&leveldb.VerifRecord{}, b)
		if lastMidrange {
			res.Count("record_decode_skipped_midrange_length", 1)
			return
		}
		msg, k := checkDecode(b)
		res.Count("record_decode", 1)
		res.Eval(fmt.Sprintf("dec/%x", b), len(b) > 2)
		if msg != "" {
			fail(msg, recReplay{What: "record-decode", Hex: hex.EncodeToString(b)})
		}
		if k != "" && (always || nd < kDec) && len(k) < 6000 {
			cases = append(cases, k)
			nd++
		}
	}
	for _, b := range directedDecode {
		emit(b, true)
	}
	if nviol > 0 { // the directed inputs already fail: stop here, with their replay files
		return cases, nviol
	}
	for i := 0; i < nDec && len(valid) > 0; i++ {
		b := valid[r.Intn(len(valid))]
		switch r.Pick(2, 6, 2) {
		case 0:
			emit(b, false)
		case 1:
			emit(damage(r, b), false)
		default:
			emit(r.Bytes(r.Range(1, 24), []byte{0, 1, 2, 3, 4, 5, 6, 7, 8, 9, 10, 0x7f, 0x80, 0x81, 0xff}), false)
		}
	}
	// every proper prefix of a few encodings: clean cuts succeed with fewer fields, the others are short reads
	for i := 0; i < 6 && i < len(validIn); i++ {
		b := validIn[r.Intn(len(validIn))]
		if len(b) > 120 {
			continue
		}
		for n := 0; n < len(b); n++ {
			msg, k := checkDecode(b[:n])
			res.Count("record_decode_prefixes", 1)
			if msg != "" {
				fail(msg, recReplay{What: "record-decode", Hex: hex.EncodeToString(b[:n])})
			}
			kind, _, w, _, _, _ := decOutcome(b[:n])
			if kind == "corrupt" && w != "short read" {
				fail(fmt.Sprintf("a strict prefix of a valid encoding is reported as %q, not as a short read", w), recReplay{What: "record-decode", Hex: hex.EncodeToString(b[:n])})
			}
			if k != "" && n%3 == 0 {
				cases = append(cases, k)
			}
		}
	}
	// (iii) crafted manifests through the real session.recover
	o := &opt.Options{}
	nm := 0
	runMan := func(recs [][]byte, strict bool, cmp string) {
		stor := manifestStorage(recs)
		oo := o
		if cmp == (vlib.ShortLex{}).Name() { // a session whose comparer is not the one the manifest names
			oo = &opt.Options{Comparer: vlib.ShortLex{}}
		}
		msg, k, _ := checkManifest(stor, recs, strict, cmp, oo, false)
		stor.Close()
		res.Count("crafted_manifests", 1)
		res.Eval(fmt.Sprintf("cman/%v/%x", strict, bytes.Join(recs, []byte{0xfe})), len(recs) > 2)
		if msg != "" {
			var hs []string
			for _, b := range recs {
				hs = append(hs, hex.EncodeToString(b))
			}
			fail("crafted manifest: "+msg, recReplay{What: "manifest-replay", Recs: hs, Strict: strict, Cmp: cmp})
		}
		if k != "" && nm < kMan && len(k) < 8000 {
			cases = append(cases, k)
			nm++
		}
	}
	good := []byte("\x01\x1aleveldb.BytewiseComparator\x02\x02\x03\x05\x04\x00")
	for _, strict := range []bool{true, false} {
		runMan([][]byte{good, {2, 9, 7}}, strict, "leveldb.BytewiseComparator")          // damaged behind its journal number
		runMan([][]byte{good, {1, 5}}, strict, "leveldb.BytewiseComparator")             // pinned: bare EOF
		runMan([][]byte{good, directedDecode[5]}, strict, "leveldb.BytewiseComparator")  // pinned: makeslice panic
		runMan([][]byte{good, directedDecode[10]}, strict, "leveldb.BytewiseComparator") // pinned: negative index
		runMan([][]byte{good, directedDecode[11]}, strict, "leveldb.BytewiseComparator")
		runMan([][]byte{good}, strict, (vlib.ShortLex{}).Name())
		runMan([][]byte{}, strict, "leveldb.BytewiseComparator")
	}
	for i := 0; i < nMan; i++ {
		recs, cmp := genManifest(r)
		runMan(recs, r.Bool(), cmp)
	}
	// known finding: a huge level is accepted and sizes the staging area (clean panic above maxAlloc only)
	{
		recs := [][]byte{good, {6, 0xff, 0xff, 0xff, 0xff, 0xff, 0xff, 0xff, 0xff, 0x3f, 7}}
		stor := manifestStorage(recs)
		_, _, _, pan := leveldb.VerifSessionRecover(stor, &opt.Options{})
		stor.Close()
		if pan != "" {
			res.ViolateKnown("a manifest record naming level 2^62-1 (06 ff ff ff ff ff ff ff ff 3f 07) makes session.recover panic in versionStaging.getScratch: "+pan,
				recReplay{What: "manifest-huge-level", Recs: []string{hex.EncodeToString(recs[0]), hex.EncodeToString(recs[1])}, Strict: false, Cmp: "leveldb.BytewiseComparator"},
				"manifest-huge-level")
		} else {
			res.Count("manifest_huge_level_not_reproduced", 1)
		}
	}
	res.Count("kr_codec_cases", len(cases))
	return cases, nviol
}

// realManifestChecks: (P) and (K) on manifests of real DBs (see realManifests).
func realManifestChecks(root *vlib.RNG, res *vlib.Result, thorough bool) (cases []string) {
	nReal, kReal := 8, 14
	if thorough {
		nReal, kReal = 60, 40
	}
	nviol := 0
	fail := func(msg string, rp recReplay) {
		nviol++
		if nviol <= 4 {
			rp.Desc = msg
			res.Violate("manifest replay: "+msg, rp)
		}
	}
	r := root.Fork()
	nr := 0
	for i := 0; i < nReal; i++ {
		cs := realManifests(r.Fork(), res, 60000, fail)
		for _, c := range cs {
			if nr < kReal {
				cases = append(cases, c)
				nr++
			}
		}
	}
	res.Count("kr_real_manifest_cases", nr)
	return cases
}

// writeRecordCases writes cases_C04r_<i>.v, each below maxFile bytes of text.
func writeRecordCases(res *vlib.Result, out string, cases []string, shards, maxFile int) {
	if len(cases) == 0 {
		return
	}
	var files [][]string
	per := (len(cases) + shards - 1) / shards
	cur, size := []string{}, 0
	for _, c := range cases {
		if len(cur) > 0 && (len(cur) >= per || size+len(c) > maxFile) {
			files = append(files, cur)
			cur, size = []string{}, 0
		}
		cur = append(cur, c)
		size += len(c)
	}
	if len(cur) > 0 {
		files = append(files, cur)
	}
	lo := 0
	for i, f := range files {
		name := fmt.Sprintf("cases_C04r_%d.v", i)
		var sb strings.Builder
		sb.WriteString("From GL Require Import Codec.SessionRecord Corr.C04RecRun.\n")
		sb.WriteString("From Coq Require Import List NArith ZArith String.\nImport ListNotations.\nOpen Scope string_scope.\nOpen Scope N_scope.\n")
		sb.WriteString(fmt.Sprintf("Definition cases : list c04rcase :=\n %s.\n", vlib.CoqList(f)))
		sb.WriteString("Definition M := Eval vm_compute in mismatches_r cases.\nPrint M.\n")
		os.WriteFile(filepath.Join(out, name), []byte(sb.String()), 0o644)
		res.KCaseFiles = append(res.KCaseFiles, fmt.Sprintf("%s:%d", name, lo))
		lo += len(f)
	}
	res.KCases += len(cases)
}

// replayRecord re-runs a stored record-codec case; handled=false if the file is not one.
func replayRecord(b []byte, res *vlib.Result) (handled bool) {
	var wr struct {
		Case recReplay `json:"case"`
	}
	if err := json.Unmarshal(b, &wr); err != nil {
		return false
	}
	c := wr.Case
	msg := ""
	switch c.What {
	case "record-encode":
		if c.Rec == nil {
			return false
		}
		var bb []byte
		msg, _, bb = checkEncode(c.Rec)
		if msg == "" && bb != nil {
			kind, _, w, _, back, _ := decOutcome(bb)
			_, has, _, _ := leveldb.VerifRecordEncode(c.Rec)
			if inRange(c.Rec) && (kind != "ok" || !recEqual(back, canonical(c.Rec, has))) {
				msg = "decode(encode(r)) is not r"
			} else if !inRange(c.Rec) && !(kind == "corrupt" && w == "invalid level") {
				msg = "a negative level was read back"
			}
		}
	case "record-decode":
		bb, _ := hex.DecodeString(c.Hex)
		msg, _ = checkDecode(bb)
		if msg == "" && strings.Contains(c.Desc, "strict prefix") {
			if kind, _, w, _, _, _ := decOutcome(bb); kind == "corrupt" && w != "short read" {
				msg = "a strict prefix of a valid encoding is not reported as a short read"
			}
		}
	case "manifest-replay", "manifest-huge-level":
		if c.Recs == nil {
			fmt.Println("replay: this case needs the DB workload; re-run the check with the same seed")
			res.Eval("replay", true)
			return true
		}
		var recs [][]byte
		for _, h := range c.Recs {
			bb, _ := hex.DecodeString(h)
			recs = append(recs, bb)
		}
		stor := manifestStorage(recs)
		msg, _, _ = checkManifest(stor, recs, c.Strict, c.Cmp, &opt.Options{}, false)
		stor.Close()
	default:
		return false
	}
	res.Eval("replay", true)
	res.Eval("replay2", true)
	if msg != "" {
		fmt.Println("replay fails:", msg)
		if c.What == "manifest-huge-level" {
			res.ViolateKnown(msg, wr, "manifest-huge-level")
		} else {
			res.Violate(msg, wr)
		}
	} else {
		fmt.Println("replay passes")
	}
	return true
}
