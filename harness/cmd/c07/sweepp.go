package main

// (P) oracles of the sweep part on a running DB, for the deletions that do not go through the reference loop:
//
//	order    every storage.Remove of the op log is judged at the moment of the call against what the commit hook
//	         has shown so far: a journal may be removed only after a commit that set a higher journal number
//	         (dropFrozenMem after the flush commit; recoverJournal after its commit), a table only if it is neither
//	         in the version before nor in the version after the commit in flight (never_remove_needed on the
//	         implementation);
//	revert   Close while a table compaction that has already finished output tables keeps failing: the job exits
//	         while building and must remove every table it finished (no residue: the table files left are the
//	         tables of the version the manifest describes);
//	txnfail  a transaction whose commit fails with the record possibly in the manifest; Discard while the fresh
//	         manifest cannot be written either must keep the tables (the next Open must not report missing files),
//	         Discard after the storage healed removes them; one Open later the listing is exact.
import (
	"fmt"
	"sort"
	"strings"
	"sync"
	"time"

	"github.com/syndtr/goleveldb/leveldb"
	"github.com/syndtr/goleveldb/leveldb/opt"
	"github.com/syndtr/goleveldb/leveldb/storage"
	"github.com/syndtr/goleveldb/leveldb/util"
	"verifharness/lib/vlib"
	"verifharness/lib/vstor"
)

// edits with the op-log position at which the hook saw them
type stampedEdit struct {
	at int
	e  leveldb.VerifEdit
}

type stampLog struct {
	editLog
	st   *vstor.Stor
	list []stampedEdit
}

var sweepStamps = map[storage.Storage]*stampLog{}
var sweepStampsMu sync.Mutex

func stampHook(e leveldb.VerifEdit) {
	sweepStampsMu.Lock()
	l := sweepStamps[e.Stor]
	sweepStampsMu.Unlock()
	if l == nil {
		sweepHook(e)
		return
	}
	e.Read = nil
	l.mu.Lock()
	l.list = append(l.list, stampedEdit{at: l.st.OpCount(), e: e})
	l.mu.Unlock()
}

// judgeRemoves: the order oracle over an op log and the stamped edits.
func judgeRemoves(ops []vstor.Op, edits []stampedEdit) string {
	written := map[storage.FileDesc]int{}
	inVer := func(e leveldb.VerifEdit, n int64) bool {
		for _, t := range e.Version {
			if t.Num == n {
				return true
			}
		}
		return false
	}
	for _, op := range ops {
		switch op.Kind {
		case vstor.OpWrite:
			written[op.Fd] += op.N
		case vstor.OpCreate:
			if !op.Fail {
				written[op.Fd] = 0
			}
		case vstor.OpRemove:
			// edits seen before this call, and the first one after it
			k := sort.Search(len(edits), func(i int) bool { return edits[i].at > op.Idx })
			switch op.Fd.Type {
			case storage.TypeJournal:
				if written[op.Fd] == 0 {
					continue // an empty journal holds nothing
				}
				ok := false
				for i := k - 1; i >= 0; i-- {
					if edits[i].e.HasJournal {
						ok = edits[i].e.JournalNum > op.Fd.Num
						break
					}
				}
				if !ok {
					return fmt.Sprintf("storage operation %s: journal %d (%d bytes) is removed before any commit set a journal number above it: a crash now loses what it holds", op, op.Fd.Num, written[op.Fd])
				}
			case storage.TypeTable:
				if k == 0 {
					continue
				}
				before := inVer(edits[k-1].e, op.Fd.Num)
				after := k >= len(edits) || inVer(edits[k].e, op.Fd.Num)
				if before && after {
					return fmt.Sprintf("storage operation %s: table %d is removed while the current version holds it", op, op.Fd.Num)
				}
			}
		}
	}
	return ""
}

func runOrder(c DBCase) (fail string, stats map[string]int) {
	stats = map[string]int{}
	r := vlib.NewRNG(c.Seed)
	stor := vstor.New(true)
	stor.NoData = true
	js := &jstor{Stor: stor}
	sl := &stampLog{st: stor}
	sweepStampsMu.Lock()
	sweepStamps[storage.Storage(js)] = sl
	sweepStampsMu.Unlock()
	defer func() {
		sweepStampsMu.Lock()
		delete(sweepStamps, storage.Storage(js))
		sweepStampsMu.Unlock()
	}()
	o := c.Cfg.Options()
	db, err := leveldb.Open(js, o)
	if err != nil {
		return "Open error " + err.Error(), stats
	}
	vsz := c.Cfg.WriteBuffer / 5
	if vsz < 40 {
		vsz = 40
	}
	n := r.Range(150, 500)
	for i := 0; i < n; i++ {
		k := r.Intn(80)
		switch {
		case r.Chance(1, 8):
			db.Delete(keyN(k), nil)
		case r.Chance(1, 40):
			if tr, err := db.OpenTransaction(); err == nil {
				for j := 0; j < 5; j++ {
					tr.Put(keyN(r.Intn(80)), valN(j, i, vsz), nil)
				}
				if r.Bool() {
					tr.Commit()
				} else {
					tr.Discard()
				}
				stats["transactions"]++
			}
		case r.Chance(1, 120):
			db.CompactRange(util.Range{})
		case r.Chance(1, 150):
			leveldb.VerifWaitIdle(db, settleBound)
			db.Close()
			if db, err = leveldb.Open(js, o); err != nil {
				return "reopen error " + err.Error(), stats
			}
			stats["reopens"]++
		default:
			db.Put(keyN(k), valN(k, i, vsz), nil)
		}
	}
	leveldb.VerifWaitIdle(db, settleBound)
	db.Close()
	ops := stor.Ops()
	sl.mu.Lock()
	edits := append([]stampedEdit(nil), sl.list...)
	sl.mu.Unlock()
	for _, op := range ops {
		if op.Kind == vstor.OpRemove {
			stats["removes_judged"]++
			if op.Fd.Type == storage.TypeJournal {
				stats["journal_removes_judged"]++
			}
		}
	}
	stats["commits_seen"] = len(edits)
	return judgeRemoves(ops, edits), stats
}

func tableFiles(stor *vstor.Stor) []int64 {
	var l []int64
	for _, fd := range stor.ListAll() {
		if fd.Type == storage.TypeTable {
			l = append(l, fd.Num)
		}
	}
	return l
}

func runRevert(c DBCase) (fail string, stats map[string]int) {
	stats = map[string]int{}
	r := vlib.NewRNG(c.Seed)
	stor := vstor.New(false)
	o := c.Cfg.Options()
	o.CompactionTableSize = 1024
	o.BlockSize = 256
	o.WriteBuffer = 4096
	o.CompactionL0Trigger = 1 << 20 // nothing moves until CompactRange
	o.WriteL0PauseTrigger = 1 << 20
	o.WriteL0SlowdownTrigger = 1 << 20
	o.MaxManifestFileSize = 0
	o.NoSync = false
	db, err := leveldb.Open(stor, o)
	if err != nil {
		return "Open error " + err.Error(), stats
	}
	for i := 0; i < 420; i++ {
		db.Put(keyN(i%140), valN(i, i, 110), nil)
	}
	leveldb.VerifWaitIdle(db, settleBound)
	before := len(tableFiles(stor))
	// the compaction of everything writes a dozen tables; the fault starts after a few of them are complete
	ft := &vstor.Fault{Kind: vstor.OpWrite, Type: storage.TypeTable, K: r.Range(12, 70), Persistent: true}
	stor.AddFault(ft)
	done := make(chan struct{})
	go func() { db.CompactRange(util.Range{}); close(done) }()
	deadline := time.Now().Add(4 * time.Second)
	for ft.Hits == 0 && time.Now().Before(deadline) {
		time.Sleep(200 * time.Microsecond)
	}
	if ft.Hits == 0 {
		stats["fault_not_hit"]++
		stor.Heal()
		<-done
		db.Close()
		return "", stats
	}
	stats["fault_hit"]++
	time.Sleep(time.Duration(r.Range(1, 8)) * time.Millisecond)
	mid := len(tableFiles(stor))
	db.Close()
	select {
	case <-done:
	case <-time.After(5 * time.Second):
		return "CompactRange did not return after Close", stats
	}
	stor.Heal()
	stats["tables_before"] = before
	stats["tables_while_failing"] = mid
	stats["tables_after_close"] = len(tableFiles(stor))
	if mid > before {
		stats["outputs_finished_before_close"] = mid - before
	}
	if d := tablesExactView(stor, o); d != "" {
		return fmt.Sprintf("Close while a table compaction kept failing (persistent Write fault on table files from their write #%d on; %d table files before, %d while failing): the job must revert what it built: %s", ft.K, before, mid, d), stats
	}
	return "", stats
}

// tablesExactView: every table file on a closed storage belongs to the version its manifest describes (what
// session.recover computes; nothing is written, no journal is replayed).
func tablesExactView(stor *vstor.Stor, o *opt.Options) string {
	vv, err := leveldb.VerifRecoverView(stor.Clone(false), o)
	if err != nil {
		return "session.recover on a clone of the closed DB failed: " + err.Error()
	}
	want := map[int64]bool{}
	for _, t := range vv.Tables {
		want[t.Num] = true
	}
	var problems []string
	for _, n := range tableFiles(stor) {
		if !want[n] {
			problems = append(problems, fmt.Sprintf("table %d is on storage but not in the manifest's version", n))
		}
	}
	sort.Strings(problems)
	if len(problems) > 6 {
		problems = problems[:6]
	}
	return strings.Join(problems, "; ")
}

func runTxnFail(c DBCase) (fail string, stats map[string]int) {
	stats = map[string]int{}
	r := vlib.NewRNG(c.Seed)
	stor := vstor.New(false)
	o := c.Cfg.Options()
	o.NoSync = false
	o.MaxManifestFileSize = 0
	db, err := leveldb.Open(stor, o)
	if err != nil {
		return "Open error " + err.Error(), stats
	}
	for i := 0; i < 40; i++ {
		db.Put(keyN(i), valN(i, 0, 50), nil)
	}
	db.CompactRange(util.Range{})
	leveldb.VerifWaitIdle(db, settleBound)
	tr, err := db.OpenTransaction()
	if err != nil {
		db.Close()
		return "OpenTransaction: " + err.Error(), stats
	}
	for i := 0; i < 30; i++ {
		tr.Put(keyN(100+i), valN(i, 1, 60), nil)
	}
	healFirst := c.N%2 == 1
	stor.AddFault(&vstor.Fault{Kind: vstor.OpSync, Type: storage.TypeManifest, K: 0, Persistent: true})
	if err := tr.Commit(); err == nil {
		db.Close()
		return "Commit succeeded although every manifest Sync fails", stats
	}
	stats["commit_failed"]++
	txnTables := leveldb.VerifTxnTableNums(tr)
	stats["txn_tables"] = len(txnTables)
	if healFirst {
		stor.Heal()
	}
	tr.Discard()
	have := map[int64]bool{}
	for _, n := range tableFiles(stor) {
		have[n] = true
	}
	kept := 0
	for _, n := range txnTables {
		if have[n] {
			kept++
		}
	}
	stats["txn_tables_on_storage_after_discard"] = kept
	if !healFirst {
		stor.Heal()
		if kept != len(txnTables) {
			// the record may be in the manifest: without its tables the next Open fails
			stats["tables_removed_with_record_possibly_durable"]++
		}
	}
	_ = r
	leveldb.VerifWaitIdle(db, settleBound)
	db.Close()
	db2, err := leveldb.Open(stor, quietOptions(o))
	if err != nil {
		how := "Discard while the fresh manifest could not be written either"
		if healFirst {
			how = "Discard after the storage had healed"
		}
		return fmt.Sprintf("a transaction commit failed (every manifest Sync failing, the record written), %s left %d of its %d tables on storage, and the next Open fails: %v", how, kept, len(txnTables), err), stats
	}
	if d := exactAfter(db2, stor); d != "" {
		db2.Close()
		return "after the failed transaction and a reopen the listing is not exact: " + d, stats
	}
	stats["exact_listing_checks"]++
	db2.Close()
	return "", stats
}

func runSweepP(c DBCase) (string, map[string]int) {
	switch c.N {
	case 7:
		return runOrder(c)
	case 8:
		return runRevert(c)
	default:
		return runTxnFail(c)
	}
}

var _ = strings.Contains
var _ = opt.NoCompression
