package main

// Generator of event sequences for the reference loop: a simulation of the version layer (session.setVersion,
// commit, version.incref/releaseNB) with many concurrent holders of random lifetimes. By construction the
// sequences satisfy the protocol env_ok (checked again with the Env mirror and, for the Coq sample, by the
// Coq definition itself). A second generator derives malformed streams from valid ones.

import (
	"verifharness/lib/vlib"
)

type simVer struct {
	id      int64
	levels  [][]int64
	holders int  // reader references (iterators, snapshots' reads, compactions) besides the session's
	current bool // the session holds it
}

type Sim struct {
	r        *vlib.RNG
	evs      []Event
	nid      int64
	nextFile int64
	cur      *simVer
	held     []*simVer // versions with holders > 0 (may include cur)
	pExpired int       // per mille of Ref events flagged expired
	late     []int64   // tables of cur not yet listed by a delta (reopen shape)
	stats    map[string]int
}

func NewSim(r *vlib.RNG, pExpired int) *Sim {
	s := &Sim{r: r, pExpired: pExpired, nextFile: 1 + int64(r.Intn(5)), stats: map[string]int{}}
	// newSession: version 0 without tables
	s.cur = &simVer{id: 0, current: true}
	s.nid = 1
	s.evs = append(s.evs, Event{Kind: EvRef, Vid: 0})
	return s
}

func flat(levels [][]int64) []int64 {
	var out []int64
	for _, l := range levels {
		out = append(out, l...)
	}
	return out
}

func cloneLevels(l [][]int64) [][]int64 {
	out := make([][]int64, len(l))
	for i := range l {
		out[i] = append([]int64(nil), l[i]...)
	}
	return out
}

func (s *Sim) newFiles(n int) []int64 {
	var out []int64
	for i := 0; i < n; i++ {
		// journals and manifests consume numbers too: leave gaps
		s.nextFile += int64(1 + s.r.Intn(3))
		out = append(out, s.nextFile)
	}
	return out
}

// Commit installs a new version: nAdd new tables, nDel deleted ones, nMove trivially moved ones (listed in both
// lists). lateShape: the delta omits the new tables (session.recover); they are listed by the next delta.
func (s *Sim) Commit(nAdd, nDel, nMove int, lateShape bool) {
	old := s.cur
	levels := cloneLevels(old.levels)
	for len(levels) < 4 {
		levels = append(levels, nil)
	}
	// pick deleted and moved tables among the old version's counted tables (not among late ones)
	lateSet := toSet(s.late)
	var cand []int64
	for _, f := range flat(levels) {
		if !lateSet[f] {
			cand = append(cand, f)
		}
	}
	for i := len(cand) - 1; i > 0; i-- {
		j := s.r.Intn(i + 1)
		cand[i], cand[j] = cand[j], cand[i]
	}
	if lateShape {
		nDel, nMove = 0, 0
	}
	if nDel > len(cand) {
		nDel = len(cand)
	}
	deleted := append([]int64(nil), cand[:nDel]...)
	cand = cand[nDel:]
	if nMove > len(cand) {
		nMove = len(cand)
	}
	moved := append([]int64(nil), cand[:nMove]...)
	added := s.newFiles(nAdd)
	remove := func(f int64) {
		for li := range levels {
			for i, x := range levels[li] {
				if x == f {
					levels[li] = append(append([]int64(nil), levels[li][:i]...), levels[li][i+1:]...)
					return
				}
			}
		}
	}
	for _, f := range deleted {
		remove(f)
	}
	for _, f := range moved {
		remove(f)
		li := s.r.Intn(len(levels))
		levels[li] = append(levels[li], f)
	}
	for _, f := range added {
		li := s.r.Intn(len(levels))
		// level 0 is newest first, deeper levels sorted: position is irrelevant to the loop, vary it
		if s.r.Bool() {
			levels[li] = append([]int64{f}, levels[li]...)
		} else {
			levels[li] = append(levels[li], f)
		}
	}
	nv := &simVer{id: s.nid, levels: levels, current: true}
	s.nid++
	s.evs = append(s.evs, Event{Kind: EvRef, Vid: nv.id, Levels: cloneLevels(levels), Expired: s.r.Intn(1000) < s.pExpired})
	for s.r.Chance(1, 12) {
		s.evs = append(s.evs, Event{Kind: EvTick})
	}
	// the delta of the old version: added = late tables of the old version + new tables + moved; deleted + moved
	var dAdd, dDel []int64
	if lateShape {
		s.stats["late_commits"]++
	} else {
		dAdd = append(dAdd, added...)
		dAdd = append(dAdd, s.late...)
		dAdd = append(dAdd, moved...)
		dDel = append(dDel, deleted...)
		dDel = append(dDel, moved...)
		if s.r.Bool() { // order inside the lists is free
			for i := len(dAdd) - 1; i > 0; i-- {
				j := s.r.Intn(i + 1)
				dAdd[i], dAdd[j] = dAdd[j], dAdd[i]
			}
		}
	}
	s.evs = append(s.evs, Event{Kind: EvDelta, Vid: old.id, Added: dAdd, Deleted: dDel})
	if lateShape {
		s.late = added
	} else {
		s.late = nil
	}
	if len(moved) > 0 {
		s.stats["trivial_moves"]++
	}
	s.stats["commits"]++
	old.current = false
	s.cur = nv
	if old.holders == 0 {
		s.evs = append(s.evs, Event{Kind: EvRel, Vid: old.id, Levels: cloneLevels(old.levels)})
	}
}

// FailCommit: a failed commit consumed the next version id.
func (s *Sim) FailCommit() {
	if len(s.evs) < 1 {
		return
	}
	s.evs = append(s.evs, Event{Kind: EvAbandon, Vid: s.nid})
	s.nid++
	s.stats["abandons"]++
}

// Acquire takes a reader reference on the current version.
func (s *Sim) Acquire() {
	if s.cur.holders == 0 {
		s.held = append(s.held, s.cur)
	}
	s.cur.holders++
	s.stats["acquires"]++
}

// Release drops one reader reference of the i-th held version.
func (s *Sim) Release(i int) {
	if len(s.held) == 0 {
		return
	}
	i %= len(s.held)
	v := s.held[i]
	v.holders--
	if v.holders == 0 {
		s.held = append(s.held[:i], s.held[i+1:]...)
		if !v.current {
			s.evs = append(s.evs, Event{Kind: EvRel, Vid: v.id, Levels: cloneLevels(v.levels)})
		}
	}
}

func (s *Sim) ReleaseAll() {
	for len(s.held) > 0 {
		s.Release(s.r.Intn(len(s.held)))
	}
}

func (s *Sim) Tick() { s.evs = append(s.evs, Event{Kind: EvTick}) }

func (s *Sim) randomCommit() {
	nAdd, nDel, nMove := 0, 0, 0
	switch s.r.Pick(5, 6, 1, 1, 1) {
	case 0: // flush: one new table
		nAdd = 1
	case 1: // compaction
		nDel = s.r.Range(1, 4)
		nAdd = s.r.Range(0, 3)
	case 2: // trivial move
		nMove = 1
	case 3: // big
		nDel = s.r.Range(0, 8)
		nAdd = s.r.Range(0, 8)
		nMove = s.r.Range(0, 2)
	case 4: // empty record (e.g. journal number only)
	}
	s.Commit(nAdd, nDel, nMove, false)
}

// Shape names the generator scenario.
type Shape int

const (
	ShapeMix      Shape = iota // many holders with random lifetimes
	ShapePinned                // one version pinned behind more than maxCachedNumber later versions
	ShapeReopen                // starts like a reopened session (late tables), then mix
	ShapeAbandons              // many failed commits
	ShapeExpired               // many tasks older than maxCachedTime
	NumShapes
)

func (sh Shape) String() string {
	return [...]string{"mix", "pinned", "reopen", "abandons", "expired"}[sh]
}

// GenValid generates a protocol-conforming sequence of roughly n commits.
func GenValid(r *vlib.RNG, sh Shape, n int, maxCached int) ([]Event, map[string]int) {
	pExp := 0
	if sh == ShapeExpired {
		pExp = 150 + r.Intn(400)
	} else if r.Chance(1, 4) {
		pExp = r.Intn(60)
	}
	s := NewSim(r, pExp)
	if sh == ShapeReopen {
		// session.recover: version 1 holds the recovered tables, the delta of version 0 lists nothing
		s.Commit(r.Range(1, 12), 0, 0, true)
		// recoverJournal's commit: lists the replay-flushed tables and (through fillRecord) the recovered ones
		s.Commit(r.Range(0, 3), 0, 0, false)
	} else {
		// db open: the first commits only add
		s.Commit(r.Range(0, 6), 0, 0, false)
	}
	pAbandon := 30
	if sh == ShapeAbandons {
		pAbandon = 350
	}
	switch sh {
	case ShapePinned:
		// a few ordinary steps, then pin, then more than maxCached version changes, releasing the
		// intermediate versions (some of them late), then unpin
		for i, k := 0, r.Intn(6); i < k; i++ {
			s.randomCommit()
		}
		s.Acquire()
		pinned := s.cur
		extra := r.Range(1, 40)
		if r.Chance(1, 3) {
			extra += r.Range(0, maxCached) // sometimes more than 2x
		}
		total := maxCached + extra
		if n > 0 && n < total && r.Chance(1, 2) {
			total = n // sometimes fewer than the bound: the queue just waits
		}
		for i := 0; i < total; i++ {
			if r.Intn(1000) < pAbandon {
				s.FailCommit()
			}
			if r.Chance(1, 5) {
				s.Acquire()
			}
			s.randomCommit()
			if r.Chance(1, 4) && len(s.held) > 1 {
				// release something that is not the pinned version
				j := r.Intn(len(s.held))
				if s.held[j] != pinned {
					s.Release(j)
				}
			}
			if r.Chance(1, 30) {
				s.Tick()
			}
		}
		// unpin
		for i, v := range s.held {
			if v == pinned {
				s.Release(i)
				break
			}
		}
		for i, k := 0, r.Intn(8); i < k; i++ {
			s.randomCommit()
		}
	default:
		for i := 0; i < n; i++ {
			switch r.Pick(10, 8, 9, 2) {
			case 0:
				if r.Intn(1000) < pAbandon {
					s.FailCommit()
				}
				s.randomCommit()
			case 1:
				s.Acquire()
			case 2:
				if len(s.held) > 0 {
					s.Release(r.Intn(len(s.held)))
				}
			case 3:
				s.Tick()
			}
			if sh == ShapeAbandons && r.Chance(1, 3) {
				s.FailCommit()
			}
		}
	}
	if r.Chance(4, 5) {
		s.ReleaseAll()
	}
	if r.Chance(1, 3) {
		s.Tick()
	}
	return s.evs, s.stats
}

// GenMalformed derives a stream that breaks the protocol from a valid one. The result may make the loop panic;
// the caller truncates it with the mirror.
func GenMalformed(r *vlib.RNG, valid []Event) ([]Event, string) {
	evs := make([]Event, len(valid))
	copy(evs, valid)
	pick := func(k EvKind) int {
		var idx []int
		for i, e := range evs {
			if e.Kind == k && i > 0 {
				idx = append(idx, i)
			}
		}
		if len(idx) == 0 {
			return -1
		}
		return idx[r.Intn(len(idx))]
	}
	del := func(i int) { evs = append(evs[:i], evs[i+1:]...) }
	what := ""
	switch r.Intn(11) {
	case 0: // a delta is lost
		what = "drop-delta"
		if i := pick(EvDelta); i >= 0 {
			del(i)
		}
	case 1: // an abandon is lost: the queue blocks at that id
		what = "drop-abandon"
		if i := pick(EvAbandon); i >= 0 {
			del(i)
		} else if i := pick(EvRef); i >= 0 {
			what = "skip-id"
			for j := i; j < len(evs); j++ {
				if evs[j].Kind != EvTick && evs[j].Vid >= evs[i].Vid {
					evs[j].Vid++
				}
			}
		}
	case 2: // tables listed twice in a delta (what an unpatched reopen sends)
		what = "double-add"
		if i := pick(EvDelta); i >= 0 {
			evs[i].Added = append(append([]int64(nil), evs[i].Added...), evs[i].Added...)
		}
	case 3: // release sent before the delta
		what = "rel-before-delta"
		if i := pick(EvDelta); i >= 0 {
			for j := i + 1; j < len(evs); j++ {
				if evs[j].Kind == EvRel && evs[j].Vid == evs[i].Vid {
					e := evs[j]
					copy(evs[i+1:j+1], evs[i:j])
					evs[i] = e
					break
				}
			}
		}
	case 4: // a release is sent twice
		what = "double-rel"
		if i := pick(EvRel); i >= 0 {
			j := i + r.Intn(len(evs)-i)
			evs = append(evs[:j+1], append([]Event{evs[i]}, evs[j+1:]...)...)
		}
	case 5: // a reference is sent twice
		what = "double-ref"
		if i := pick(EvRef); i >= 0 {
			j := i + r.Intn(len(evs)-i)
			evs = append(evs[:j+1], append([]Event{evs[i]}, evs[j+1:]...)...)
		}
	case 6: // a delta deletes a table that was never added
		what = "delete-unknown"
		if i := pick(EvDelta); i >= 0 {
			evs[i].Deleted = append(append([]int64(nil), evs[i].Deleted...), 1000000+int64(r.Intn(10)))
		}
	case 7: // abandon of an id the loop already passed, or of a live id
		what = "stray-abandon"
		i := 1 + r.Intn(len(evs))
		v := int64(0)
		if r.Bool() && i > 1 {
			v = evs[r.Intn(i)].Vid
		}
		evs = append(evs[:i], append([]Event{{Kind: EvAbandon, Vid: v}}, evs[i:]...)...)
	case 8: // two adjacent events swapped
		what = "swap"
		if len(evs) > 3 {
			i := 1 + r.Intn(len(evs)-2)
			evs[i], evs[i+1] = evs[i+1], evs[i]
		}
	case 9: // a release carries another table list than the reference
		what = "rel-other-files"
		if i := pick(EvRel); i >= 0 {
			l := cloneLevels(evs[i].Levels)
			if len(l) > 0 && len(l[0]) > 0 {
				l[0] = l[0][1:]
			} else {
				l = append(l, []int64{2000000})
			}
			evs[i].Levels = l
		}
	case 10: // the delta is addressed to the new version instead of the old one
		what = "delta-wrong-vid"
		if i := pick(EvDelta); i >= 0 {
			evs[i].Vid++
		}
	}
	return evs, what
}
