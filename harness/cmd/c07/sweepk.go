package main

// The janitor part: Open (session.recover, recoverJournal, checkAndCleanFiles) on directed and generated listings.
//
//	(K) every Open of this part is replayed on the model Store/Sweep.v: input = the listing before Open, what
//	    session.recover computes from it (VerifRecoverView on a clone), the tables flushed per replayed journal and
//	    the Remove calls that fail; the model's Remove calls (all of them, in order, failed ones included), the
//	    listing afterwards and the journal / manifest / next file numbers must equal what the op log and the DB show
//	    (KOpen); the janitor alone (listing its List(TypeAll) returned, version tables from the commit hook, manifest
//	    number from the op log -> its Remove calls or the missing tables it reports: KJan) and recoverJournal's
//	    choice of journals (KSel) are compared separately.  A Go mirror of the model evaluates every case at once
//	    (a disagreement is reported with a replay file); the Coq model evaluates all of them again.
//	(P) after a successful Open the listing is exactly {tables of the version} + {the journal} + {the manifest}
//	    (sweep_exact on the implementation), for stray files of every type numbered below, between, at and above the
//	    live numbers; an Open that failed because a Remove failed is followed by one that succeeds and leaves the
//	    exact listing; a missing live table is reported, nothing is removed.
import (
	"errors"
	"fmt"
	"sort"
	"strings"
	"sync"
	"time"

	"github.com/syndtr/goleveldb/leveldb"
	lerrors "github.com/syndtr/goleveldb/leveldb/errors"
	"github.com/syndtr/goleveldb/leveldb/opt"
	"github.com/syndtr/goleveldb/leveldb/storage"
	"github.com/syndtr/goleveldb/leveldb/util"
	"verifharness/lib/dbh"
	"verifharness/lib/vlib"
	"verifharness/lib/vstor"
)

// ---- a storage that remembers what the janitor was given ----

type listRec struct {
	at  int
	fds []storage.FileDesc
}

type jstor struct {
	*vstor.Stor
	mu    sync.Mutex
	lists []listRec
	logs  []string
}

func (j *jstor) List(ft storage.FileType) ([]storage.FileDesc, error) {
	fds, err := j.Stor.List(ft)
	if err == nil && ft == storage.TypeAll {
		j.mu.Lock()
		j.lists = append(j.lists, listRec{at: j.Stor.OpCount(), fds: append([]storage.FileDesc(nil), fds...)})
		j.mu.Unlock()
	}
	return fds, err
}

func (j *jstor) Log(str string) {
	if strings.Contains(str, "db@janitor") {
		j.mu.Lock()
		j.logs = append(j.logs, str)
		j.mu.Unlock()
	}
}

// commit hook of the sweep part: edits per storage
var sweepEdits sync.Map // storage.Storage -> *editLog

type editLog struct {
	mu    sync.Mutex
	edits []leveldb.VerifEdit
}

func sweepHook(e leveldb.VerifEdit) {
	if x, ok := sweepEdits.Load(e.Stor); ok {
		l := x.(*editLog)
		e.Read = nil
		l.mu.Lock()
		l.edits = append(l.edits, e)
		l.mu.Unlock()
	}
}

// ---- Go mirror of Store/Sweep.v (janitor, rj_select, open_db) ----

type mfd struct {
	T int // 0 manifest, 1 journal, 2 table, 3 temp
	N int64
}

func toM(fd storage.FileDesc) mfd {
	switch fd.Type {
	case storage.TypeManifest:
		return mfd{0, fd.Num}
	case storage.TypeJournal:
		return mfd{1, fd.Num}
	case storage.TypeTable:
		return mfd{2, fd.Num}
	}
	return mfd{3, fd.Num}
}

func (f mfd) coq() string { return fmt.Sprintf("%s %d", [...]string{"Fm", "Fj", "Ft", "Fx"}[f.T], f.N) }

func coqFds(l []mfd) string {
	s := make([]string, len(l))
	for i, f := range l {
		s[i] = f.coq()
	}
	return "[" + strings.Join(s, "; ") + "]"
}

func coqNs(l []int64) string {
	s := make([]string, len(l))
	for i, n := range l {
		s[i] = fmt.Sprint(n)
	}
	return "[" + strings.Join(s, "; ") + "]"
}

type mview struct {
	Tabs      []int64
	Jnum      int64
	Prev      int64
	HasPrev   bool
	Next, Man int64
}

func (v mview) coq() string {
	p := "None"
	if v.HasPrev {
		p = fmt.Sprintf("(Some %d)", v.Prev)
	}
	return fmt.Sprintf("(VW %s %d %s %d %d)", coqNs(v.Tabs), v.Jnum, p, v.Next, v.Man)
}

type mjan struct {
	Tabs          []int64
	Man, Journal  int64
	Frozen        int64
	HasFrozen     bool
	missing       []int64
	rem           []mfd
	isMissingPlan bool
}

func mirrorKeep(tabs map[int64]bool, man, journal, frozen int64, hasFrozen bool, f mfd) bool {
	switch f.T {
	case 0:
		return f.N == man
	case 1:
		if hasFrozen {
			return f.N >= frozen
		}
		return f.N >= journal
	case 2:
		return tabs[f.N]
	}
	return false
}

// mirrorJanitor: the plan of checkAndCleanFiles for a listing (in listing order).
func mirrorJanitor(tabs []int64, man, journal, frozen int64, hasFrozen bool, listing []mfd) (missing []int64, rem []mfd, isMissing bool) {
	tm := map[int64]bool{}
	var order []int64
	for i := len(tabs) - 1; i >= 0; i-- { // ndedup keeps the last occurrence
		if !tm[tabs[i]] {
			tm[tabs[i]] = true
			order = append([]int64{tabs[i]}, order...)
		}
	}
	nt := 0
	have := map[mfd]bool{}
	for _, f := range listing {
		have[f] = true
		if f.T == 2 && tm[f.N] {
			nt++
		}
	}
	if nt != len(tm) {
		for _, t := range order {
			if !have[mfd{2, t}] {
				missing = append(missing, t)
			}
		}
		return missing, nil, true
	}
	for _, f := range listing {
		if !mirrorKeep(tm, man, journal, frozen, hasFrozen, f) {
			rem = append(rem, f)
		}
	}
	return nil, rem, false
}

func mirrorSelect(jn, pj int64, listing []mfd) []int64 {
	var js []int64
	for _, f := range listing {
		if f.T == 1 {
			js = append(js, f.N)
		}
	}
	sort.Slice(js, func(a, b int) bool { return js[a] < js[b] })
	var out []int64
	for _, n := range js {
		if n >= jn || n == pj {
			out = append(out, n)
		}
	}
	return out
}

type mopen struct {
	calls              []mfd
	ok                 bool
	files              map[mfd]bool
	journal, man, next int64
}

// mirrorOpen follows Sweep.open_db.
func mirrorOpen(v mview, listing []mfd, fl []int, mbad bool, bad map[mfd]bool) mopen {
	files := map[mfd]bool{}
	for _, f := range listing {
		files[f] = true
	}
	tabs := map[int64]bool{}
	for _, t := range v.Tabs {
		tabs[t] = true
	}
	var outs []int64
	next, man, hasman := v.Next, v.Man, false
	pj := int64(0)
	if v.HasPrev {
		pj = v.Prev
	}
	res := mopen{}
	rm := func(f mfd) bool {
		res.calls = append(res.calls, f)
		if !files[f] || bad[f] {
			return false
		}
		delete(files, f)
		return true
	}
	commit := func() {
		if !hasman {
			m := next
			next++
			files[mfd{0, m}] = true
			// the old manifest: the error is only logged
			res.calls = append(res.calls, mfd{0, man})
			if files[mfd{0, man}] && !mbad {
				delete(files, mfd{0, man})
			}
			man, hasman = m, true
		}
		for _, t := range outs {
			tabs[t] = true
		}
		outs = nil
	}
	flush := func(n int) {
		for i := 0; i < n; i++ {
			t := next
			next++
			files[mfd{2, t}] = true
			outs = append(outs, t)
		}
	}
	fail := func() mopen {
		res.ok, res.files, res.journal, res.man, res.next = false, files, 0, man, next
		return res
	}
	sel := mirrorSelect(v.Jnum, pj, listing)
	if len(sel) > 0 && sel[len(sel)-1]+1 > next {
		next = sel[len(sel)-1] + 1
	}
	for i, j := range sel {
		_ = j
		if i > 0 {
			commit()
			if !rm(mfd{1, sel[i-1]}) {
				return fail()
			}
		}
		n := 0
		if i < len(fl) {
			n = fl[i]
		}
		flush(n)
	}
	journal := next
	next++
	files[mfd{1, journal}] = true
	commit()
	if len(sel) > 0 {
		if !rm(mfd{1, sel[len(sel)-1]}) {
			return fail()
		}
	}
	// the janitor reads the listing in the storage's order: type, then number
	var cur []mfd
	for f := range files {
		cur = append(cur, f)
	}
	sort.Slice(cur, func(a, b int) bool {
		if cur[a].T != cur[b].T {
			return cur[a].T < cur[b].T
		}
		return cur[a].N < cur[b].N
	})
	var tl []int64
	for t := range tabs {
		tl = append(tl, t)
	}
	_, rem, isMissing := mirrorJanitor(tl, man, journal, 0, false, cur)
	if isMissing {
		return fail()
	}
	for _, f := range rem {
		if !rm(f) {
			return fail()
		}
	}
	res.ok, res.files, res.journal, res.man, res.next = true, files, journal, man, next
	return res
}

// ---- observing one Open ----

type openObs struct {
	view      mview
	before    []mfd
	fl        []int
	bad       map[mfd]bool
	mbad      bool
	badList   []mfd
	calls     []mfd
	ok        bool
	err       error
	after     []mfd
	nums      leveldb.VerifNums
	replayed  []int64
	janList   []mfd
	janCalls  []mfd
	janDone   bool
	janTabs   []int64
	janMan    int64
	janJ      int64
	janRan    bool
	janMiss   []int64
	hasJanMis bool
}

func listM(stor *vstor.Stor) []mfd {
	var l []mfd
	for _, fd := range stor.ListAll() {
		l = append(l, toM(fd))
	}
	return l
}

var errNoView = errors.New("no view")

// quietOptions: nothing may run after Open by itself.
func quietOptions(o *opt.Options) *opt.Options {
	o2 := *o
	o2.CompactionL0Trigger = 1 << 20
	o2.CompactionTotalSize = 1 << 40
	o2.DisableSeeksCompaction = true
	o2.MaxManifestFileSize = 0
	return &o2
}

// observeOpen opens the DB on stor and records what the model needs. The DB is returned open (nil on error).
func observeOpen(stor *vstor.Stor, o *opt.Options) (*openObs, *leveldb.DB, error) {
	ob := &openObs{bad: map[mfd]bool{}}
	vv, err := leveldb.VerifRecoverView(stor.Clone(false), o)
	if err != nil {
		return nil, nil, errNoView
	}
	for _, t := range vv.Tables {
		ob.view.Tabs = append(ob.view.Tabs, t.Num)
	}
	ob.view.Jnum, ob.view.Prev, ob.view.HasPrev = vv.JournalNum, vv.PrevJournalNum, vv.PrevJournalNum != 0
	ob.view.Next, ob.view.Man = vv.NextFileNum, vv.ManifestNum
	ob.before = listM(stor)
	js := &jstor{Stor: stor}
	el := &editLog{}
	sweepEdits.Store(storage.Storage(js), el)
	defer sweepEdits.Delete(storage.Storage(js))
	n0 := stor.OpCount()
	db, err := leveldb.Open(js, o)
	n1 := stor.OpCount()
	ob.ok, ob.err = err == nil, err
	all := stor.Ops()
	if n1 > len(all) {
		n1 = len(all)
	}
	ops := all[n0:n1]
	// journals replayed, Remove calls, tables flushed per replayed journal
	for _, op := range ops {
		if op.Kind == vstor.OpOpen && op.Fd.Type == storage.TypeJournal && !op.Fail {
			ob.replayed = append(ob.replayed, op.Fd.Num)
		}
	}
	ob.fl = make([]int, len(ob.replayed))
	idx := 0
	janAt := -1
	js.mu.Lock()
	if len(js.lists) > 0 {
		janAt = js.lists[len(js.lists)-1].at
		for _, fd := range js.lists[len(js.lists)-1].fds {
			ob.janList = append(ob.janList, toM(fd))
		}
	}
	js.mu.Unlock()
	lastMeta := int64(-1)
	for _, op := range ops {
		switch {
		case op.Kind == vstor.OpCreate && op.Fd.Type == storage.TypeTable && !op.Fail:
			if idx < len(ob.fl) {
				ob.fl[idx]++
			}
		case op.Kind == vstor.OpSetMeta && !op.Fail:
			if janAt < 0 || op.Idx < janAt {
				lastMeta = op.Fd.Num
			}
		case op.Kind == vstor.OpRemove:
			f := toM(op.Fd)
			ob.calls = append(ob.calls, f)
			if op.Fail {
				if op.Fd.Type == storage.TypeManifest && (janAt < 0 || op.Idx < janAt) {
					// the old manifest, removed by the session's first commit
					ob.mbad = true
				} else {
					ob.bad[f] = true
					ob.badList = append(ob.badList, f)
				}
			}
			if !op.Fail && op.Fd.Type == storage.TypeJournal && idx < len(ob.replayed)-1 && op.Fd.Num == ob.replayed[idx] {
				idx++
			}
			if janAt >= 0 && op.Idx >= janAt {
				ob.janCalls = append(ob.janCalls, f)
			}
		}
	}
	// the janitor ran iff the session logged its summary line or reported missing files
	js.mu.Lock()
	for _, l := range js.logs {
		if strings.Contains(l, "db@janitor F") {
			ob.janRan = true
		}
	}
	js.mu.Unlock()
	var ec *lerrors.ErrCorrupted
	if err != nil && errors.As(err, &ec) {
		if mf, ok := ec.Err.(*lerrors.ErrMissingFiles); ok {
			ob.hasJanMis = true
			for _, fd := range mf.Fds {
				ob.janMiss = append(ob.janMiss, fd.Num)
			}
			sort.Slice(ob.janMiss, func(a, b int) bool { return ob.janMiss[a] < ob.janMiss[b] })
		}
	}
	el.mu.Lock()
	if n := len(el.edits); n > 0 && (ob.janRan || ob.hasJanMis) {
		for _, t := range el.edits[n-1].Version {
			ob.janTabs = append(ob.janTabs, t.Num)
		}
		for i := n - 1; i >= 0; i-- {
			if el.edits[i].HasJournal {
				ob.janJ = el.edits[i].JournalNum
				break
			}
		}
	}
	el.mu.Unlock()
	ob.janMan = lastMeta
	ob.janDone = ob.janRan && ob.ok
	ob.after = listM(stor)
	if err == nil {
		ob.nums = leveldb.VerifFileNums(db)
	}
	return ob, db, nil
}

// kcases renders the observation as Coq cases and evaluates the Go mirror; mismatch != "" when the mirror disagrees.
func (ob *openObs) kcases() (cases []string, mismatch string) {
	fl := make([]int64, len(ob.fl))
	for i, n := range ob.fl {
		fl[i] = int64(n)
	}
	after := append([]mfd(nil), ob.after...)
	j, m, nx := int64(0), int64(0), int64(0)
	if ob.ok {
		j, m, nx = ob.nums.JournalNum, ob.nums.ManifestNum, ob.nums.NextFileNum
	}
	cases = append(cases, fmt.Sprintf("KOpen %s %s %s %s %s %s %s %s %d %d %d", ob.view.coq(), coqFds(ob.before), coqNs(fl),
		vlib.CoqBool(ob.mbad), coqFds(ob.badList), coqFds(ob.calls), vlib.CoqBool(ob.ok), coqFds(after), j, m, nx))
	pj := int64(0)
	if ob.view.HasPrev {
		pj = ob.view.Prev
	}
	cases = append(cases, fmt.Sprintf("KSel %d %d %s %s", ob.view.Jnum, pj, coqFds(ob.before), coqNs(ob.replayed)))
	if ob.janRan || ob.hasJanMis {
		res := fmt.Sprintf("(JR %s %s)", coqFds(ob.janCalls), vlib.CoqBool(ob.janDone))
		if ob.hasJanMis {
			res = fmt.Sprintf("(JM %s)", coqNs(ob.janMiss))
		}
		cases = append(cases, fmt.Sprintf("KJan %s %d %d None %s %s %s", coqNs(ob.janTabs), ob.janMan, ob.janJ, coqFds(ob.janList), coqFds(ob.badList), res))
	}
	// mirror
	mo := mirrorOpen(ob.view, ob.before, ob.fl, ob.mbad, ob.bad)
	switch {
	case fmt.Sprint(mo.calls) != fmt.Sprint(ob.calls):
		mismatch = fmt.Sprintf("Remove calls of Open: implementation %v, model %v", ob.calls, mo.calls)
	case mo.ok != ob.ok:
		mismatch = fmt.Sprintf("Open succeeded = %v (%v), model %v", ob.ok, ob.err, mo.ok)
	default:
		if len(mo.files) != len(ob.after) {
			mismatch = fmt.Sprintf("listing after Open: implementation %v, model %d files", ob.after, len(mo.files))
		}
		for _, f := range ob.after {
			if !mo.files[f] {
				mismatch = fmt.Sprintf("listing after Open: implementation has %v, the model does not (%v)", f, ob.after)
			}
		}
		if mismatch == "" && ob.ok && (mo.journal != j || mo.man != m || mo.next != nx) {
			mismatch = fmt.Sprintf("numbers after Open: implementation journal=%d manifest=%d next=%d, model %d %d %d", j, m, nx, mo.journal, mo.man, mo.next)
		}
	}
	if mismatch == "" {
		if sel := mirrorSelect(ob.view.Jnum, pj, ob.before); fmt.Sprint(sel) != fmt.Sprint(ob.replayed) && !(len(sel) == 0 && len(ob.replayed) == 0) {
			// a failing Remove ends the replay early: the implementation's list is then a prefix
			if ob.ok || len(ob.replayed) > len(sel) || fmt.Sprint(sel[:len(ob.replayed)]) != fmt.Sprint(ob.replayed) {
				mismatch = fmt.Sprintf("journals replayed: implementation %v, model %v", ob.replayed, sel)
			}
		}
	}
	if mismatch == "" && (ob.janRan || ob.hasJanMis) {
		miss, rem, isMiss := mirrorJanitor(ob.janTabs, ob.janMan, ob.janJ, 0, false, ob.janList)
		if isMiss != ob.hasJanMis || (isMiss && fmt.Sprint(sorted64(miss)) != fmt.Sprint(ob.janMiss)) {
			mismatch = fmt.Sprintf("janitor: implementation reports missing %v (%v), model %v (%v)", ob.janMiss, ob.hasJanMis, miss, isMiss)
		} else if !isMiss {
			want := rem
			for i, f := range rem {
				if ob.bad[f] {
					want = rem[:i+1]
					break
				}
			}
			if fmt.Sprint(want) != fmt.Sprint(ob.janCalls) && !(len(want) == 0 && len(ob.janCalls) == 0) {
				mismatch = fmt.Sprintf("janitor on listing %v with tables %v manifest %d journal %d: implementation removes %v, model %v", ob.janList, ob.janTabs, ob.janMan, ob.janJ, ob.janCalls, want)
			}
		}
	}
	return cases, mismatch
}

func sorted64(l []int64) []int64 {
	o := append([]int64(nil), l...)
	sort.Slice(o, func(a, b int) bool { return o[a] < o[b] })
	return o
}

// KSel of a failed replay is a prefix only: drop the case then (the model cannot know where it stopped)
func (ob *openObs) selComparable() bool { return ob.ok || ob.janRan || ob.hasJanMis }

// exactAfter: sweep_exact on the implementation.
func exactAfter(db *leveldb.DB, stor *vstor.Stor) string {
	ver := leveldb.VerifDumpVersion(db)
	nums := leveldb.VerifFileNums(db)
	want := map[mfd]bool{{1, nums.JournalNum}: true, {0, nums.ManifestNum}: true}
	for _, t := range ver {
		want[mfd{2, t.Num}] = true
	}
	var problems []string
	have := map[mfd]bool{}
	for _, f := range listM(stor) {
		have[f] = true
		if !want[f] {
			problems = append(problems, fmt.Sprintf("%s is on storage after Open but nothing needs it", f.coq()))
		}
	}
	for f := range want {
		if !have[f] {
			problems = append(problems, fmt.Sprintf("%s is needed but missing after Open", f.coq()))
		}
	}
	sort.Strings(problems)
	if len(problems) > 5 {
		problems = problems[:5]
	}
	return strings.Join(problems, "; ")
}

// ---- cases ----

// buildBase writes a small DB with tables on several levels and closes it; the op log is kept.
func buildBase(r *vlib.RNG, cfg dbh.Cfg, n int) (*vstor.Stor, string) {
	stor := vstor.New(true)
	o := cfg.Options()
	o.MaxManifestFileSize = 0
	db, err := leveldb.Open(stor, o)
	if err != nil {
		return nil, "Open error " + err.Error()
	}
	vsz := cfg.WriteBuffer / 6
	if vsz < 30 {
		vsz = 30
	}
	for i := 0; i < n; i++ {
		k := r.Intn(60)
		switch {
		case r.Chance(1, 7):
			db.Delete(keyN(k), nil)
		default:
			db.Put(keyN(k), valN(k, i, vsz), &opt.WriteOptions{Sync: r.Chance(1, 3)})
		}
		if r.Chance(1, 90) {
			db.CompactRange(util.Range{})
		}
	}
	if r.Chance(1, 2) {
		leveldb.VerifWaitIdle(db, settleBound)
	}
	db.Close()
	return stor, ""
}

func pickLive(v mview, journals []int64) (lo, hi int64) {
	lo, hi = v.Man, v.Man
	for _, n := range append(append([]int64{v.Jnum, v.Next}, v.Tabs...), journals...) {
		if n < lo {
			lo = n
		}
		if n > hi {
			hi = n
		}
	}
	return
}

// strayNumbers: below, between, at and above the live numbers.
func strayNumbers(r *vlib.RNG, v mview) []int64 {
	lo, hi := pickLive(v, nil)
	c := []int64{0, 1, lo - 1, lo, lo + 1, v.Jnum - 1, v.Jnum, v.Jnum + 1, v.Man - 1, v.Man, v.Man + 1, v.Next - 1, v.Next, v.Next + 1, v.Next + 2, v.Next + 3, hi + 1, hi + 5, hi + 40}
	for _, t := range v.Tabs {
		c = append(c, t, t+1)
	}
	if v.HasPrev {
		c = append(c, v.Prev-1, v.Prev, v.Prev+1)
	}
	var out []int64
	for _, n := range c {
		if n >= 0 {
			out = append(out, n)
		}
	}
	return out
}

func mkFile(stor *vstor.Stor, fd storage.FileDesc, data []byte) {
	stor.SetFileBytes(fd, data)
}

// runSweep: one case. variant (c.N): 0 strays, 1 crash image + strays, 2 prev-journal, 3 renumbered table above
// next, 4 missing table, 5 failing Remove, 6 plain reopen chain.
func runSweep(c DBCase) (fail string, stats map[string]int, kc []string) {
	if c.N >= 7 {
		d, st := runSweepP(c)
		return d, st, nil
	}
	stats = map[string]int{}
	r := vlib.NewRNG(c.Seed)
	base, d := buildBase(r, c.Cfg, r.Range(40, 220))
	if d != "" {
		return d, stats, nil
	}
	o := quietOptions(c.Cfg.Options())
	variant := c.N
	stor := base.Clone(true)
	if variant == 1 {
		ops := base.Ops()
		pt := r.Range(len(ops)/3, len(ops))
		pol := vstor.TailKept
		stor = vstor.ImageOf(ops[:pt], vstor.ImageOpts{Policy: pol})
		stats["crash_images"]++
	}
	open := func(tag string) (*openObs, *leveldb.DB, string) {
		ob, db, err := observeOpen(stor, o)
		if err == errNoView {
			stats["no_view"]++
			return nil, nil, ""
		}
		cases, mm := ob.kcases()
		for _, cs := range cases {
			if strings.HasPrefix(cs, "KSel") && !ob.selComparable() {
				continue
			}
			kc = append(kc, cs)
		}
		stats["opens"]++
		stats["remove_calls"] += len(ob.calls)
		stats["journals_replayed"] += len(ob.replayed)
		for _, n := range ob.fl {
			stats["tables_flushed_at_open"] += n
		}
		if mm != "" {
			if db != nil {
				db.Close()
			}
			return ob, nil, tag + ": the implementation and the model Store/Sweep.v disagree: " + mm
		}
		if ob.ok {
			if d := exactAfter(db, stor); d != "" {
				db.Close()
				return ob, nil, tag + ": listing after Open is not exact: " + d
			}
			stats["exact_listing_checks"]++
		}
		return ob, db, ""
	}
	// special states that need a running DB
	if variant == 2 || variant == 3 {
		_, db, d := open("preparing open")
		if d != "" {
			return d, stats, kc
		}
		if db == nil {
			return "", stats, kc
		}
		if variant == 2 {
			nums := leveldb.VerifFileNums(db)
			p := []int64{0, 1, nums.JournalNum - 1, nums.JournalNum - 2, 3}[r.Intn(5)]
			if p < 0 {
				p = 0
			}
			if err := leveldb.VerifCommitPrevJournal(db, p); err != nil {
				db.Close()
				return "commit of a prev-journal record failed: " + err.Error(), stats, kc
			}
			stats["prev_journal_records"]++
		} else {
			ver := leveldb.VerifDumpVersion(db)
			if len(ver) > 0 {
				t := ver[r.Intn(len(ver))]
				nums := leveldb.VerifFileNums(db)
				nn := nums.NextFileNum + int64(r.Range(0, 30))
				data, _, ok := stor.FileBytes(storage.FileDesc{Type: storage.TypeTable, Num: t.Num})
				if ok {
					mkFile(stor, storage.FileDesc{Type: storage.TypeTable, Num: nn}, data)
					if err := leveldb.VerifCommitRenumber(db, t, nn); err != nil {
						db.Close()
						return "commit of a renumbering record failed: " + err.Error(), stats, kc
					}
					stats["tables_renumbered_above_next"]++
				}
			}
		}
		leveldb.VerifWaitIdle(db, settleBound)
		db.Close()
	}
	// strays
	vv, err := leveldb.VerifRecoverView(stor.Clone(false), o)
	if err != nil {
		stats["no_view"]++
		return "", stats, kc
	}
	v := mview{Jnum: vv.JournalNum, Prev: vv.PrevJournalNum, HasPrev: vv.PrevJournalNum != 0, Next: vv.NextFileNum, Man: vv.ManifestNum}
	for _, t := range vv.Tables {
		v.Tabs = append(v.Tabs, t.Num)
	}
	live := map[mfd]bool{}
	for _, f := range listM(stor) {
		live[f] = true
	}
	if variant != 6 {
		cand := strayNumbers(r, v)
		ns := r.Range(1, 10)
		types := []storage.FileType{storage.TypeManifest, storage.TypeJournal, storage.TypeTable, storage.TypeTemp}
		for i := 0; i < ns; i++ {
			fd := storage.FileDesc{Type: types[r.Intn(4)], Num: cand[r.Intn(len(cand))]}
			if live[toM(fd)] {
				continue
			}
			mkFile(stor, fd, nil)
			live[toM(fd)] = true
			stats["stray_files"]++
			stats[fmt.Sprintf("stray_%s", [...]string{"manifest", "journal", "table", "temp"}[toM(fd).T])]++
			switch {
			case fd.Num >= v.Next:
				stats["stray_at_or_above_next"]++
			case fd.Num == 0:
				stats["stray_number_0"]++
			}
		}
	}
	if variant == 4 && len(v.Tabs) > 0 {
		k := r.Range(1, 2)
		for i := 0; i < k; i++ {
			stor.DeleteFile(storage.FileDesc{Type: storage.TypeTable, Num: v.Tabs[r.Intn(len(v.Tabs))]})
		}
		stats["live_tables_deleted"]++
	}
	if variant == 5 {
		types := []storage.FileType{storage.TypeManifest, storage.TypeJournal, storage.TypeTable, storage.TypeTemp, 0}
		stor.AddFault(&vstor.Fault{Kind: vstor.OpRemove, Type: types[r.Intn(len(types))], K: r.Intn(3), Persistent: r.Chance(1, 3)})
	}
	ob, db, d := open("open")
	if d != "" {
		return d, stats, kc
	}
	if ob == nil {
		return "", stats, kc
	}
	if variant == 4 && ob.ok && stats["live_tables_deleted"] > 0 {
		db.Close()
		return "a table of the version was deleted from storage and Open did not report it", stats, kc
	}
	if variant == 4 && !ob.ok {
		stats["missing_reported"]++
		if len(ob.janCalls) != 0 {
			return fmt.Sprintf("the janitor reported missing tables and still removed %v", ob.janCalls), stats, kc
		}
		return "", stats, kc
	}
	if !ob.ok {
		stats["opens_failed"]++
		if len(ob.badList) == 0 && !ob.mbad {
			return fmt.Sprintf("Open failed without an injected fault: %v", ob.err), stats, kc
		}
		// the next Open picks up what was left
		stor.Heal()
		ob2, db2, d := open("open after a failed open")
		if d != "" {
			return d, stats, kc
		}
		if ob2 == nil || !ob2.ok {
			return fmt.Sprintf("after an Open that failed on a Remove fault (%v) the next Open fails too: %v", ob.err, ob2.err), stats, kc
		}
		stats["recovered_after_failed_open"]++
		db = db2
	} else if len(ob.badList) > 0 || ob.mbad {
		stats["remove_failure_tolerated"]++
	}
	// a few more opens: each must be exact again; with writes in between
	for i, k := 0, r.Range(0, 2); i < k && db != nil; i++ {
		for j, m := 0, r.Range(0, 30); j < m; j++ {
			db.Put(keyN(r.Intn(60)), valN(j, i, 40), nil)
		}
		leveldb.VerifWaitIdle(db, settleBound)
		db.Close()
		_, db, d = open("reopen")
		if d != "" {
			return d, stats, kc
		}
	}
	if db != nil {
		db.Close()
	}
	return "", stats, kc
}

// sweepPart: the child part "sweep".
func sweepPart(a vlib.Args, res *vlib.Result) []string {
	leveldb.VerifSetCommitHook(stampHook)
	per := []int{14, 8, 6, 6, 4, 8, 4, 6, 8, 2, 2}
	if a.Thorough() {
		per = []int{400, 250, 120, 120, 60, 200, 60, 150, 150, 20, 20}
	}
	if strings.Contains(a.Extra, "search") && !a.Thorough() {
		for i := range per {
			per[i] *= 3
		}
	}
	for _, f := range strings.Split(a.Extra, ",") {
		if strings.HasPrefix(f, "only=") {
			for i := range per {
				if fmt.Sprint(i) != strings.TrimPrefix(f, "only=") {
					per[i] = 0
				}
			}
		}
	}
	root := vlib.NewRNG(a.Seed ^ 0x5eeb)
	var cases []DBCase
	for variant, n := range per {
		for i := 0; i < n; i++ {
			r := root.Fork()
			cfg := dbh.RandomCfg(r)
			if cfg.WriteBuffer > 8192 {
				cfg.WriteBuffer = 4096
			}
			cfg.MaxManifest = 0
			cfg.CmpID = 0
			cases = append(cases, DBCase{Scenario: "sweep", Cfg: cfg, Seed: r.Uint64(), N: variant})
		}
	}
	type out struct {
		kc []string
	}
	outs := make([]out, len(cases))
	jobs := make(chan int)
	var wg sync.WaitGroup
	var mu sync.Mutex
	for w := 0; w < 16; w++ {
		wg.Add(1)
		go func(w int) {
			defer wg.Done()
			defer clearInflight(100 + w)
			for i := range jobs {
				c := cases[i]
				setInflight(100+w, replayFile{DB: &c})
				d, stats, kc := runSweep(c)
				outs[i].kc = kc
				mu.Lock()
				nontriv := stats["opens"] > 0 && stats["remove_calls"] > 0
				switch {
				case c.N == 7:
					nontriv = stats["journal_removes_judged"] > 0
				case c.N == 8:
					nontriv = stats["outputs_finished_before_close"] > 0
				case c.N >= 9:
					nontriv = stats["commit_failed"] > 0
				}
				res.Eval(fmt.Sprintf("sweep%d", i), nontriv)
				res.Count(fmt.Sprintf("sweep_cases_variant%d", c.N), 1)
				for k, v := range stats {
					res.Count("sweep_"+k, v)
				}
				if d != "" && res.NViolations() < 8 {
					res.Violate(fmt.Sprintf("[sweep/%d] %s [%s]", c.N, d, c.Cfg.String()), replayFile{DB: &c})
				}
				mu.Unlock()
			}
		}(w)
	}
	for i := range cases {
		jobs <- i
	}
	close(jobs)
	wg.Wait()
	var kcases []string
	budget := 300 << 10
	if a.Thorough() {
		budget = 1 << 20
	}
	for _, o := range outs {
		for _, k := range o.kc {
			if budget -= len(k); budget < 0 {
				res.Count("sweep_kcases_dropped_over_budget", 1)
				continue
			}
			kcases = append(kcases, k)
		}
	}
	res.Count("sweep_kcases", len(kcases))
	_ = time.Second
	return kcases
}
