// c07: files are deleted only when unneeded, and then they are deleted.
//
//	(K) exact: generated event sequences (protocol-conforming ones from a simulation of the version layer with
//	    many concurrent holders, long-pinned versions with more than maxCachedNumber later versions, abandoned
//	    ids, backdated tasks; and malformed streams, including ones on which the loop panics — those run in a
//	    child process) are sent to the REAL session.refLoop; after every event its fileRef map and the Remove
//	    calls that reached the storage must equal the RefLoop model's state and output (Go mirror on every
//	    sequence, the Coq model itself on a sample that always contains every disagreement).
//	    The REAL version layer (newSession, create/recover, commit incl. failing commits, version/release, close,
//	    reopen; its loop replaced by a recorder) is driven with random histories; per session, the events it sent
//	    must equal one by one the events of the version-layer model (Conc/VersionLayer.v) for the same operations
//	    (Go mirror vlmodel.go on every history; the Coq model on the KVL cases) and must satisfy env_ok.
//	(P) on the real loop: no table of a referenced, unreleased version is ever removed; once all versions but the
//	    current one are released, removed = added minus current, each once, and the counters hold exactly the
//	    current tables.  On the real DB over vstor: pinned iterators/snapshots across N version changes keep
//	    their creation-time contents and no read/open of a removed file happens; after the readers are gone and
//	    background work settled the storage listing is exactly live tables + one journal + the manifest CURRENT
//	    names, and again after close + reopen; discarded transactions and failed flushes/compactions leave no
//	    table behind; delete-all + CompactRange gives all table bytes back; garbage in crash images is swept.
package main

import (
	"encoding/json"
	"fmt"
	"os"
	"path/filepath"
	"sort"
	"strings"
	"sync"
	"sync/atomic"
	"time"

	"github.com/syndtr/goleveldb/leveldb"
	"github.com/syndtr/goleveldb/leveldb/storage"
	"verifharness/lib/dbh"
	"verifharness/lib/vlib"
)

const rule = "reference loop: event sequences from a simulation of the version layer (shapes mix/pinned/reopen/abandons/expired) plus malformed streams sent to the real session.refLoop, fileRef and Remove log compared with the model after every event, safety/completeness evaluated on the implementation's own observations; non-trivial = the sequence exercised a conversion (forced by the queue bound or by age), an abandoned id, a late delta or a trivial move. DB level: programs with pinned iterators/snapshots across N version changes, random mixes, discarded transactions, storage faults during flush/compaction, delete-all + CompactRange, crash images; non-trivial = at least one table compaction and one exact-listing check"

type replayFile struct {
	Loop *SeqCase `json:"loop,omitempty"`
	DB   *DBCase  `json:"db,omitempty"`
	VL   *VLCase  `json:"vl,omitempty"`
}

func main() {
	a := vlib.ParseArgs()
	if strings.HasPrefix(a.Extra, "panicchild=") {
		childMain(strings.TrimPrefix(a.Extra, "panicchild="))
		return
	}
	for _, f := range strings.Split(a.Extra, ",") {
		if strings.HasPrefix(f, "part=") {
			childPart(a, strings.TrimPrefix(f, "part="))
			return
		}
	}
	res := vlib.NewResult("C07", a.Out, rule)
	defer res.Write()
	if a.Replay != "" {
		replay(a, res)
		return
	}
	var kcases []string
	for _, part := range []string{"corpus", "loop", "vl", "db", "sweep"} {
		if part == "corpus" && !strings.Contains(a.Extra, "corpus=") {
			continue
		}
		kcases = append(kcases, runPart(a, res, part)...)
	}
	res.WriteCases("From GL Require Import Conc.RefLoop Conc.VersionLayer Corr.C07Run.", "c07case", "mismatches", spread(kcases, 16), 16)
}

// spread reorders the cases so that the shards of WriteCases (consecutive runs of equal length) carry about the
// same amount of text: longest first, each into the lightest shard that still has room.
func spread(cases []string, shards int) []string {
	if len(cases) < 2*shards {
		return cases
	}
	per := (len(cases) + shards - 1) / shards
	idx := make([]int, len(cases))
	for i := range idx {
		idx[i] = i
	}
	sort.SliceStable(idx, func(a, b int) bool { return len(cases[idx[a]]) > len(cases[idx[b]]) })
	bins := make([][]int, shards)
	size := make([]int, shards)
	// the last shard may be shorter: shards*per >= len(cases)
	room := func(b int) int {
		full := per
		if lo := b * per; lo+per > len(cases) {
			full = len(cases) - lo
			if full < 0 {
				full = 0
			}
		}
		return full - len(bins[b])
	}
	for _, i := range idx {
		best := -1
		for b := 0; b < shards; b++ {
			if room(b) > 0 && (best < 0 || size[b] < size[best]) {
				best = b
			}
		}
		bins[best] = append(bins[best], i)
		size[best] += len(cases[i])
	}
	out := make([]string, 0, len(cases))
	for b := 0; b < shards; b++ {
		sort.Ints(bins[b])
		for _, i := range bins[b] {
			out = append(out, cases[i])
		}
	}
	return out
}

// corpus re-runs the stored cases (earlier failures, minimised) before the generated ones.
func corpus(a vlib.Args, res *vlib.Result) {
	for _, part := range strings.Fields(strings.ReplaceAll(a.Extra, ",", " ")) {
		if !strings.HasPrefix(part, "corpus=") {
			continue
		}
		files, _ := filepath.Glob(filepath.Join(strings.TrimPrefix(part, "corpus="), "*.json"))
		sort.Strings(files)
		for _, f := range files {
			res.Count("corpus_cases", 1)
			replayOne(f, res, 1)
		}
	}
}

func replay(a vlib.Args, res *vlib.Result) {
	if replayOne(a.Replay, res, 3) {
		fmt.Println("replay passes")
	}
}

func replayOne(path string, res *vlib.Result, tries int) bool {
	b, err := os.ReadFile(path)
	if err != nil {
		fmt.Println("cannot read replay:", err)
		return false
	}
	var w struct {
		Case replayFile `json:"case"`
	}
	if err := json.Unmarshal(b, &w); err != nil {
		fmt.Println("bad replay file:", err)
		return false
	}
	switch {
	case w.Case.Loop != nil:
		c := w.Case.Loop
		res.Eval("replay:"+path, true)
		if at, _, _ := PredictPanic(c.Events, 256); at >= 0 {
			c.Events = c.Events[:at]
		}
		o := RunLoopCase(c.Events)
		if o.PViolation != "" {
			fmt.Println("replay fails:", o.PViolation)
			res.Violate(o.PViolation, replayFile{Loop: c})
			return false
		}
		if o.KMismatch >= 0 {
			fmt.Println("replay: model and implementation disagree:", o.KText)
			res.Violate("reference loop differs from its model: "+o.KText, replayFile{Loop: c})
			return false
		}
	case w.Case.DB != nil:
		c := w.Case.DB
		for i := 0; i < tries; i++ {
			res.Eval(fmt.Sprintf("replay%d:%s", i, path), true)
			if d, _ := runDBCase(*c); d != "" {
				fmt.Println("replay fails:", d)
				res.Violate(d, replayFile{DB: c})
				return false
			}
		}
	case w.Case.VL != nil:
		res.Eval("replay:"+path, true)
		if d, _, _ := runVLCase(*w.Case.VL); d != "" {
			fmt.Println("replay fails:", d)
			res.Violate(d, replayFile{VL: w.Case.VL})
			return false
		}
	default:
		fmt.Println("replay file holds no case:", path)
		return false
	}
	return true
}

// ---------------------------------------------------------------- reference loop

func loopPart(a vlib.Args, res *vlib.Result) []string {
	nseq, nmal, npanic := 2000, 400, 8
	kValid, kMal := 40, 16
	if a.Thorough() {
		nseq, nmal, npanic = 200000, 20000, 24
		kValid, kMal = 150, 50
	}
	if strings.Contains(a.Extra, "search") {
		nseq, nmal = nseq/2+4000, nmal/2+1000
	}
	const maxCached = 256 // only used to size the generator; the model reads the bound from the implementation
	root := vlib.NewRNG(a.Seed)
	type job struct {
		i   int
		r   *vlib.RNG
		mal bool
	}
	type kcase struct {
		text  string
		size  int
		force bool
		key   string
		idx   int
	}
	nforce := 0
	jobs := make(chan job)
	var mu sync.Mutex
	var kc []kcase
	var nMismatch int32
	var wg sync.WaitGroup
	for w := 0; w < 16; w++ {
		wg.Add(1)
		go func(w int) {
			defer wg.Done()
			defer clearInflight(w)
			for j := range jobs {
				r := j.r
				var sh Shape
				switch {
				case j.i%97 == 1: // long-pinned: few (they are long)
					sh = ShapePinned
				default:
					sh = []Shape{ShapeMix, ShapeMix, ShapeReopen, ShapeAbandons, ShapeExpired}[r.Intn(5)]
				}
				n := r.Range(4, 60)
				if sh == ShapePinned && r.Chance(1, 4) {
					n = r.Range(20, 200) // the queue stays below the bound
				} else if sh == ShapePinned {
					n = 0
				}
				evs, gstats := GenValid(r, sh, n, maxCached)
				kind := "valid:" + sh.String()
				if j.mal {
					var what string
					evs, what = GenMalformed(r, evs)
					kind = "malformed:" + what
					if at, _, _ := PredictPanic(evs, maxCached); at >= 0 {
						evs = evs[:at]
						kind += "(cut)"
					}
				}
				c := SeqCase{Kind: kind, Events: evs}
				setInflight(w, replayFile{Loop: &c})
				o := RunLoopCase(evs)
				if !j.mal && !o.EnvOK {
					res.Violate("harness: the generator produced a sequence its own protocol checker rejects ("+kind+")", replayFile{Loop: &c})
				}
				nontriv := o.Stats["conversions"] > 0 || o.Stats["abandon_skips"] > 0 || o.Stats["late_deltas"] > 0 || gstats["trivial_moves"] > 0
				res.Eval(fmt.Sprintf("loop%d", j.i), nontriv)
				res.Count("loop_sequences_"+strings.SplitN(kind, ":", 2)[0], 1)
				res.Count("loop_shape_"+strings.TrimSuffix(strings.SplitN(kind, ":", 2)[1], "(cut)"), 1)
				res.Count("loop_events", len(evs))
				for k, v := range o.Stats {
					res.Count("loop_"+k, v)
				}
				if o.Stats["forced_conversions"] > 0 {
					res.Count("loop_sequences_with_forced_conversion", 1)
				}
				if o.Quiescent {
					res.Count("loop_sequences_ending_quiescent", 1)
				}
				for k, v := range gstats {
					res.Count("loop_gen_"+k, v)
				}
				if o.PViolation != "" {
					res.Violate("reference loop: "+o.PViolation+" ["+kind+"]", replayFile{Loop: shrinkLoop(c)})
				}
				// candidates for the Coq sample (chosen by job index, so that the sample is a function of the seed):
				// every disagreement, the first long-pinned sequences, the first short valid and malformed ones
				force := o.KMismatch >= 0
				cand := force || (sh == ShapePinned && !j.mal && j.i < 97*8) || (!j.mal && j.i < 4*kValid) || (j.mal && j.i-nseq < 4*kMal)
				if cand {
					txt := CoqSeqCase(evs, o)
					mu.Lock()
					if !force || nforce < 200 {
						kc = append(kc, kcase{text: txt, size: len(txt), force: force, key: kind, idx: j.i})
						if force {
							nforce++
						}
					}
					mu.Unlock()
				}
				if o.KMismatch >= 0 {
					res.Count("loop_mirror_mismatches", 1)
					if n := atomic.AddInt32(&nMismatch, 1); n <= 3 {
						fmt.Println("model mirror and implementation disagree:", o.KText[:min(len(o.KText), 400)])
						b, _ := json.Marshal(replayFile{Loop: &SeqCase{Kind: kind, Events: evs[:o.KMismatch+1]}})
						os.WriteFile(fmt.Sprintf("%s/mirror_mismatch_%d.json", a.Out, n), b, 0o644)
					}
				}
			}
		}(w)
	}
	for i := 0; i < nseq; i++ {
		jobs <- job{i, root.Fork(), false}
	}
	for i := 0; i < nmal; i++ {
		jobs <- job{nseq + i, root.Fork(), true}
	}
	close(jobs)
	wg.Wait()
	// panic cases in child processes
	var panicTexts []string
	pr := root.Fork()
	tries := 0
	// hand-made streams first: a converted version released twice (the second release must hit "invalid release
	// request", i.e. the first one must have forgotten the conversion), a delta for a version never referenced,
	// a reference sent twice while queued
	lv := func(f ...int64) [][]int64 { return [][]int64{f} }
	fixed := [][]Event{
		{{Kind: EvRef, Vid: 0}, {Kind: EvRef, Vid: 1, Levels: lv(5, 6), Expired: true}, {Kind: EvDelta, Vid: 0, Added: []int64{5, 6}}, {Kind: EvRel, Vid: 0},
			{Kind: EvRef, Vid: 2, Levels: lv(5, 6, 7)}, {Kind: EvDelta, Vid: 1, Added: []int64{7}}, {Kind: EvRel, Vid: 1, Levels: lv(5, 6)}, {Kind: EvRel, Vid: 1, Levels: lv(5, 6)}},
		{{Kind: EvRef, Vid: 0}, {Kind: EvRef, Vid: 1, Levels: lv(5)}, {Kind: EvDelta, Vid: 7, Added: []int64{5}}},
		{{Kind: EvRef, Vid: 0}, {Kind: EvRef, Vid: 1, Levels: lv(5)}, {Kind: EvDelta, Vid: 0, Added: []int64{5}}, {Kind: EvRef, Vid: 1, Levels: lv(5)}},
	}
	for len(panicTexts) < npanic+len(fixed) && tries < 400 {
		tries++
		var evs []Event
		what := "hand-made"
		if tries <= len(fixed) {
			evs = fixed[tries-1]
		} else {
			evs, _ = GenValid(pr, []Shape{ShapeMix, ShapeReopen, ShapeAbandons}[pr.Intn(3)], pr.Range(3, 25), maxCached)
			evs, what = GenMalformed(pr, evs)
		}
		at, pk, inTick := PredictPanic(evs, maxCached)
		if at < 0 || inTick {
			continue
		}
		obs, d := RunPanicCase(a.Out, len(panicTexts), evs, at, pk)
		res.Eval(fmt.Sprintf("panic%d", tries), true)
		res.Count("loop_panic_cases", 1)
		res.Count(fmt.Sprintf("loop_panic_kind_%d", pk), 1)
		if d != "" {
			// the model says the implementation must crash here and it does not (or crashes elsewhere): that is a
			// disagreement of the correspondence; keep it as a Coq case so that the check reports it
			fmt.Println("panic case disagrees:", d)
			res.Count("loop_mirror_mismatches", 1)
			c := SeqCase{Kind: "malformed:" + what, Events: evs[:at+1]}
			b, _ := json.Marshal(replayFile{Loop: &c})
			os.WriteFile(fmt.Sprintf("%s/panic_disagreement_%d.json", a.Out, len(panicTexts)), b, 0o644)
			// a case that cannot evaluate to true: the implementation did not panic as the model does
			panicTexts = append(panicTexts, fmt.Sprintf("KPanic %s [] (%s) 99", coqNList(nil), coqEvent(evs[at])))
			continue
		}
		panicTexts = append(panicTexts, CoqPanicCase(evs, obs, at, pk))
	}
	// the Coq sample: every disagreement, the long pinned sequences first, then short ones up to the caps
	sort.Slice(kc, func(i, j int) bool { return kc[i].idx < kc[j].idx })
	var out []string
	budget := 2600000
	if !a.Thorough() {
		budget = 1500000
	}
	nv, nm, nlong := 0, 0, 0
	for _, k := range kc {
		if k.force && len(out) < 24 {
			out = append(out, k.text)
			budget -= k.size
		}
	}
	for _, k := range kc {
		if k.force {
			continue
		}
		isMal := strings.HasPrefix(k.key, "malformed")
		long := k.size > 60000
		switch {
		case long && nlong < 3 && k.size < 290000 && strings.HasPrefix(k.key, "valid:pinned"):
			nlong++
		case !long && !isMal && nv < kValid && k.size < 40000:
			nv++
		case !long && isMal && nm < kMal && k.size < 40000:
			nm++
		default:
			continue
		}
		if budget-k.size < 0 {
			continue
		}
		budget -= k.size
		out = append(out, k.text)
	}
	res.Count("k_valid_sequences", nv)
	res.Count("k_long_pinned_sequences", nlong)
	res.Count("k_malformed_sequences", nm)
	res.Count("k_panic_cases", len(panicTexts))
	out = append(out, panicTexts...)
	return out
}

func min(a, b int) int {
	if a < b {
		return a
	}
	return b
}

// shrinkLoop removes events from a failing valid sequence while the property oracle still fails (the sequence
// must stay protocol-conforming for the oracle to apply, so whole suffixes and tick events are what can go).
func shrinkLoop(c SeqCase) *SeqCase {
	fails := func(evs []Event) bool {
		if at, _, _ := PredictPanic(evs, 256); at >= 0 {
			return false
		}
		return RunLoopCase(evs).PViolation != ""
	}
	evs := c.Events
	// shortest failing prefix
	lo, hi := 1, len(evs)
	for lo < hi {
		mid := (lo + hi) / 2
		if fails(evs[:mid]) {
			hi = mid
		} else {
			lo = mid + 1
		}
	}
	if fails(evs[:lo]) {
		evs = evs[:lo]
	}
	return &SeqCase{Kind: c.Kind + " (shortest failing prefix)", Events: evs}
}

// ---------------------------------------------------------------- version layer

// vlPart drives the real version layer and checks that what it sends satisfies env_ok and equals, event by
// event, what the model of the version layer (Conc/VersionLayer.v; Go mirror vlmodel.go) sends for the same
// operations. Every session becomes a KVL case, re-evaluated by the Coq model itself.
func vlPart(a vlib.Args, res *vlib.Result) []string {
	n, kcap, kbytes := 400, 4000, 3000000
	if a.Thorough() {
		n, kcap, kbytes = 30000, 4000, 3000000
	}
	root := vlib.NewRNG(a.Seed ^ 0x7e1)
	jobs := make(chan int)
	cases := make([]VLCase, n)
	for i := range cases {
		r := root.Fork()
		cases[i] = genVLCase(r, r.Range(10, 70))
		cases[i].NoSyncFlag = r.Chance(1, 6)
	}
	var mu sync.Mutex
	var out []string
	outBytes := 0
	texts := make([][]string, n)
	var wg sync.WaitGroup
	for w := 0; w < 16; w++ {
		wg.Add(1)
		go func(w int) {
			defer wg.Done()
			defer clearInflight(w)
			for i := range jobs {
				c := cases[i]
				setInflight(w, replayFile{VL: &c})
				d, sessions, stats := runVLCase(c)
				res.Eval(fmt.Sprintf("vl%d", i), stats["commits"] > 0 && (stats["failed_commits"] > 0 || stats["sessions"] > 1))
				res.Count("vl_cases", 1)
				for k, v := range stats {
					res.Count("vl_"+k, v)
				}
				for _, s := range sessions {
					res.Count("vl_events", len(s.Events))
					res.Count("vl_model_ops", len(s.Ops))
					if !s.Disc {
						res.Count("vl_sessions_outside_discipline", 1)
					}
				}
				if d != "" {
					res.Violate("version layer: "+d, replayFile{VL: shrinkVL(c)})
				}
				mu.Lock()
				for _, s := range sessions {
					if len(s.Events) > 4 {
						texts[i] = append(texts[i], CoqVLCase(s))
					}
				}
				mu.Unlock()
			}
		}(w)
	}
	for i := range cases {
		jobs <- i
	}
	close(jobs)
	wg.Wait()
	for _, ts := range texts { // in case order: the case files do not depend on the scheduling
		for _, t := range ts {
			if len(out) < kcap && outBytes+len(t) <= kbytes {
				out = append(out, t)
				outBytes += len(t)
			}
		}
	}
	// directed: a recovered session whose first commit fails AFTER newManifest has switched to the new manifest
	// (removing the old manifest file fails), continued instead of closed. Outside the discipline (through the DB
	// Open fails there); the model says the recovered tables are then never counted and the loop panics when one
	// of them is deleted. The real layer must send exactly what the model sends, and the loop model must panic.
	probe := VLCase{Seed: a.Seed, Probe: true, Ops: []VLOp{{Kind: "commit", Add: 2}, {Kind: "reopen"},
		{Kind: "failsw", Add: 1}, {Kind: "commit", Add: 1}, {Kind: "commit", Del: 3}}}
	if d, sessions, _ := runVLCase(probe); d != "" {
		res.Violate("version layer (directed, failed-but-switched first commit): "+d, replayFile{VL: &probe})
	} else if len(sessions) == 2 && !sessions[1].Disc {
		m := NewModel(256)
		for _, e := range sessions[1].Events {
			if _, pk, _ := m.Step(e); pk == PanicNegative {
				res.Count("vl_probe_failed_switched_loop_negative_ref", 1)
				break
			}
		}
		out = append(out, CoqVLCase(sessions[1]))
		res.Count("vl_probe_failed_switched_outside_discipline", 1)
	}
	res.Count("k_version_layer_sessions", len(out))
	res.Count("k_version_layer_bytes", outBytes)
	return out
}

func shrinkVL(c VLCase) *VLCase {
	fails := func(ops []VLOp) bool {
		cc := c
		cc.Ops = ops
		d, _, _ := runVLCase(cc)
		return d != ""
	}
	ops := append([]VLOp(nil), c.Ops...)
	for chunk := len(ops) / 2; chunk >= 1; chunk /= 2 {
		for start := 0; start+chunk <= len(ops); {
			cand := append(append([]VLOp(nil), ops[:start]...), ops[start+chunk:]...)
			if fails(cand) {
				ops = cand
			} else {
				start += chunk
			}
		}
	}
	out := c
	out.Ops = ops
	return &out
}

// ---------------------------------------------------------------- DB level

func runDBCase(c DBCase) (string, map[string]int) {
	switch c.Scenario {
	case "pinned":
		return runProgram(c.Prog, c.N)
	case "mix", "txn":
		return runProgram(c.Prog, 0)
	case "fault":
		return runFault(c)
	case "space":
		return runSpace(c)
	case "crash":
		return runCrashSweep(c)
	case "recover":
		return runRecover(c)
	case "mfault":
		return runManifestFault(c)
	case "txniter":
		return runTxnIter(c)
	case "sweep":
		leveldb.VerifSetCommitHook(stampHook)
		d, st, _ := runSweep(c)
		return d, st
	}
	return "unknown scenario " + c.Scenario, nil
}

func tweak(r *vlib.RNG, c *dbh.Cfg, scenario string) {
	switch scenario {
	case "pinned":
		c.WriteBuffer = []int{1024, 2048, 4096}[r.Intn(3)]
		c.L0Trigger = []int{2, 4}[r.Intn(2)]
		if r.Chance(1, 2) {
			c.OpenFiles = []int{1, 2}[r.Intn(2)]
		}
	case "txn":
		c.WriteBuffer = []int{1024, 2048, 4096}[r.Intn(3)]
		c.NoLargeBatchTxn = false
	case "mfault":
		if c.WriteBuffer > 8192 {
			c.WriteBuffer = 4096
		}
		c.NoSync = false
	case "txniter":
		c.WriteBuffer = []int{1024, 2048, 4096}[r.Intn(3)]
		c.BlockCache = -1
		c.BlockSize = []int{64, 256}[r.Intn(2)]
	case "fault", "space", "crash", "recover":
		if c.WriteBuffer > 8192 {
			c.WriteBuffer = 4096
		}
		c.MaxManifest = 0
	}
}

func dbPart(a vlib.Args, res *vlib.Result) {
	type spec struct {
		scenario string
		count    int
		n        int
	}
	specs := []spec{{"pinned", 8, 40}, {"mix", 40, 260}, {"txn", 10, 0}, {"fault", 24, 0}, {"mfault", 12, 0}, {"txniter", 8, 0}, {"space", 6, 400}, {"crash", 8, 300}, {"recover", 4, 300}}
	if a.Thorough() {
		specs = []spec{{"pinned", 40, 600}, {"pinned", 40, 40}, {"mix", 800, 900}, {"txn", 150, 0}, {"fault", 500, 0}, {"mfault", 200, 0}, {"txniter", 150, 0}, {"space", 80, 1500}, {"crash", 150, 600}, {"recover", 80, 800}}
	}
	if strings.Contains(a.Extra, "search") && !a.Thorough() {
		for i := range specs {
			specs[i].count *= 3
		}
	}
	root := vlib.NewRNG(a.Seed ^ 0xc07)
	var cases []DBCase
	for _, sp := range specs {
		for i := 0; i < sp.count; i++ {
			r := root.Fork()
			cfg := dbh.RandomCfg(r)
			tweak(r, &cfg, sp.scenario)
			c := DBCase{Scenario: sp.scenario, Cfg: cfg, Seed: r.Uint64(), N: sp.n}
			switch sp.scenario {
			case "pinned":
				c.Prog = genPinned(r, cfg, sp.n)
			case "mix":
				pool := dbh.GenPool(r, r.Range(8, 50), r.Chance(1, 8))
				c.Prog = dbh.GenProgram(r, cfg, pool, r.Range(sp.n/3, sp.n), mixWeights())
			case "txn":
				c.Prog = genTxnDiscard(r, cfg)
			}
			if c.Prog != nil {
				c.Prog.Seed = a.Seed
			}
			cases = append(cases, c)
		}
	}
	jobs := make(chan int)
	var wg sync.WaitGroup
	for w := 0; w < 16; w++ {
		wg.Add(1)
		go func(w int) {
			defer wg.Done()
			defer clearInflight(w)
			for i := range jobs {
				c := cases[i]
				setInflight(w, replayFile{DB: &c})
				d, stats := runDBCase(c)
				nontriv := stats["table_compactions"] >= 1 && stats["exact_listing_checks"] >= 1
				switch c.Scenario {
				case "fault":
					nontriv = stats["fault_hit"] > 0
				case "space":
					nontriv = stats["peak_table_bytes"] > 0
				case "crash":
					nontriv = stats["images_opened"] > 0
				case "recover":
					nontriv = stats["tables_after_recover"] > 0
				case "mfault":
					nontriv = stats["fault_hit"] > 0
				case "txniter":
					nontriv = stats["txn_tables_created"] > 0
				case "pinned":
					nontriv = nontriv && stats["short_of_version_changes"] == 0
				}
				res.Eval(fmt.Sprintf("db%d", i), nontriv)
				res.Count("db_cases_"+c.Scenario, 1)
				for k, v := range stats {
					if k == "version_changes" {
						if c.Scenario == "pinned" {
							res.Count("db_pinned_version_changes_total", v)
							if v > 256 {
								res.Count("db_pinned_cases_over_256_changes", 1)
							}
						}
						continue
					}
					res.Count("db_"+c.Scenario+"_"+k, v)
				}
				if i < 2 && c.Prog != nil {
					res.Sample(map[string]interface{}{"scenario": c.Scenario, "cfg": c.Cfg.String(), "ops": len(c.Prog.Ops), "stats": stats})
				}
				if d != "" && res.NViolations() < 8 {
					cc := c
					res.Violate(fmt.Sprintf("[%s] %s [%s]", c.Scenario, d, c.Cfg.String()), replayFile{DB: shrinkDB(&cc, d)})
				}
			}
		}(w)
	}
	for i := range cases {
		jobs <- i
	}
	close(jobs)
	wg.Wait()
	// candidate finding (reported, not a violation): stray .tmp files
	desc, survives := probeTemp(a.Seed)
	res.Extra["candidate_finding_tmp"] = desc
	if survives {
		res.Count("candidate_finding_tmp_file_survives_open", 1)
	}
	_ = storage.TypeTemp
}

// shrinkDB shortens the op list of a failing dbh program (bounded effort); other scenarios are kept as they are.
func shrinkDB(c *DBCase, d string) *DBCase {
	if c.Prog == nil || len(c.Prog.Ops) < 8 {
		return c
	}
	deadline := time.Now().Add(25 * time.Second)
	fails := func(p *dbh.Program) bool {
		if time.Now().After(deadline) {
			return false
		}
		for i := 0; i < 2; i++ {
			if dd, _ := runProgram(p, 0); dd != "" {
				return true
			}
		}
		return false
	}
	q := dbh.Shrink(c.Prog, fails, 25*time.Second)
	if dd, _ := runProgram(q, 0); dd == "" {
		if dd, _ = runProgram(q, 0); dd == "" {
			return c
		}
	}
	out := *c
	out.Prog = q
	return &out
}
