package main

// Go mirror of coq/theories/Conc/VersionLayer.v (same state components, same branch structure): the version
// layer as a state machine that returns the events it sends to the reference loop. Every history driven through
// the REAL version layer (vlayer.go) is replayed through this mirror and the two event lists must be equal; the
// same histories are written as KVL cases and replayed by the Coq model itself (Corr/C07Run.v), which also
// cross-checks this mirror.

import (
	"fmt"
	"strings"
)

// VTbl is a table as the model sees it: file number and the two bounds finish() orders by (internal keys
// abstracted to numbers ordered like icmp orders them).
type VTbl struct {
	Num int64 `json:"n"`
	Min int64 `json:"a"`
	Max int64 `json:"b"`
}

type VAdd struct {
	Level int  `json:"l"`
	T     VTbl `json:"t"`
}

type VDel struct {
	Level int   `json:"l"`
	Num   int64 `json:"n"`
}

type VRec struct {
	Added   []VAdd `json:"a,omitempty"`
	Deleted []VDel `json:"d,omitempty"`
}

func (r VRec) addedNums() []int64 {
	out := make([]int64, 0, len(r.Added))
	for _, a := range r.Added {
		out = append(out, a.T.Num)
	}
	return out
}

func (r VRec) deletedNums() []int64 {
	out := make([]int64, 0, len(r.Deleted))
	for _, d := range r.Deleted {
		out = append(out, d.Num)
	}
	return out
}

// outcomes of session.commit
const (
	OcOk = iota
	OcFail
	OcFailSwitched
)

// operations
const (
	VAcquire = iota
	VRelease
	VInstall
	VCommit
)

type VMOp struct {
	Kind    int   `json:"k"`
	V       int64 `json:"v,omitempty"`
	Rec     VRec  `json:"r,omitempty"`
	Trivial bool  `json:"t,omitempty"`
	Oc      int   `json:"o,omitempty"`
}

type vrec struct {
	id       int64
	levels   [][]VTbl
	ref      int64
	released bool
}

type VLModel struct {
	cur      vrec
	olds     []vrec
	nvid     int64
	manifest bool
	// ghost bookkeeping of the discipline
	held []int64
	seen map[int64]bool
	Disc bool // the history so far respects the discipline
}

type vlPanic string

func flatLevels(lv [][]VTbl) []int64 {
	var out []int64
	for _, l := range lv {
		for _, t := range l {
			out = append(out, t.Num)
		}
	}
	return out
}

func evRef(v vrec) Event { return Event{Kind: EvRef, Vid: v.id, Levels: [][]int64{flatLevels(v.levels)}} }
func evRel(v vrec) Event { return Event{Kind: EvRel, Vid: v.id, Levels: [][]int64{flatLevels(v.levels)}} }

func increfM(v vrec) (vrec, []Event) {
	if v.released {
		panic(vlPanic("already released"))
	}
	var evs []Event
	if v.ref == 0 {
		evs = append(evs, evRef(v))
	}
	v.ref++
	return v, evs
}

func releaseNBM(v vrec) (vrec, []Event) {
	if v.ref == 0 {
		panic(vlPanic("negative version ref"))
	}
	if v.ref == 1 {
		ev := evRel(v)
		v.ref, v.released = 0, true
		return v, []Event{ev}
	}
	v.ref--
	return v, nil
}

type scratchM struct {
	added   []VTbl // most recent first, one per number
	deleted []int64
}

func tdelM(l []VTbl, n int64) []VTbl {
	var out []VTbl
	for _, t := range l {
		if t.Num != n {
			out = append(out, t)
		}
	}
	return out
}

func tmemM(l []VTbl, n int64) bool {
	for _, t := range l {
		if t.Num == n {
			return true
		}
	}
	return false
}

func smemM(l []int64, n int64) bool {
	for _, x := range l {
		if x == n {
			return true
		}
	}
	return false
}

func sdelM(l []int64, n int64) []int64 {
	var out []int64
	for _, x := range l {
		if x != n {
			out = append(out, x)
		}
	}
	return out
}

func levelOf(base [][]VTbl, l int) []VTbl {
	if l < len(base) {
		return base[l]
	}
	return nil
}

func stageCommitM(base [][]VTbl, p []scratchM, r VRec) []scratchM {
	get := func(l int) *scratchM {
		for len(p) <= l {
			p = append(p, scratchM{})
		}
		return &p[l]
	}
	for _, d := range r.Deleted {
		s := get(d.Level)
		s.added = tdelM(s.added, d.Num)
		if len(levelOf(base, d.Level)) > 0 && !smemM(s.deleted, d.Num) {
			s.deleted = append([]int64{d.Num}, s.deleted...)
		}
	}
	for _, a := range r.Added {
		s := get(a.Level)
		s.added = append([]VTbl{a.T}, tdelM(s.added, a.T.Num)...)
		s.deleted = sdelM(s.deleted, a.T.Num)
	}
	return p
}

func leNumDesc(a, b VTbl) bool { return b.Num <= a.Num }
func leKey(a, b VTbl) bool     { return a.Min < b.Min || (a.Min == b.Min && a.Num <= b.Num) }

func insertBy(le func(a, b VTbl) bool, x VTbl, l []VTbl) []VTbl {
	for i, y := range l {
		if le(x, y) {
			out := append([]VTbl(nil), l[:i]...)
			out = append(out, x)
			return append(out, l[i:]...)
		}
	}
	return append(append([]VTbl(nil), l...), x)
}

// fold_right (insert_by le) [] l
func sortBy(le func(a, b VTbl) bool, l []VTbl) []VTbl {
	var out []VTbl
	for i := len(l) - 1; i >= 0; i-- {
		out = insertBy(le, l[i], out)
	}
	return out
}

func goSearch(n int, f func(int) bool) int {
	i, j := 0, n
	for i < j {
		h := (i + j) / 2
		if !f(h) {
			i = h + 1
		} else {
			j = h
		}
	}
	return i
}

func finishLevelM(trivial bool, lvl int, base []VTbl, s scratchM) []VTbl {
	if len(s.added) == 0 && len(s.deleted) == 0 {
		return base
	}
	var nt []VTbl
	for _, t := range base {
		if !smemM(s.deleted, t.Num) && !tmemM(s.added, t.Num) {
			nt = append(nt, t)
		}
	}
	if len(s.added) == 0 {
		return nt
	}
	if trivial {
		var added []VTbl
		var idx int
		if lvl == 0 {
			added = sortBy(leNumDesc, s.added)
			num := added[len(added)-1].Num
			idx = goSearch(len(nt), func(i int) bool { return nt[i].Num < num })
		} else {
			added = sortBy(leKey, s.added)
			var amax int64
			for _, t := range added {
				if amax < t.Max {
					amax = t.Max
				}
			}
			idx = goSearch(len(nt), func(i int) bool { return amax <= nt[i].Min })
		}
		out := append([]VTbl(nil), nt[:idx]...)
		out = append(out, added...)
		return append(out, nt[idx:]...)
	}
	all := append(append([]VTbl(nil), nt...), s.added...)
	if lvl == 0 {
		return sortBy(leNumDesc, all)
	}
	return sortBy(leKey, all)
}

func finishM(trivial bool, base [][]VTbl, p []scratchM) [][]VTbl {
	n := len(p)
	if len(base) > n {
		n = len(base)
	}
	out := make([][]VTbl, n)
	for l := 0; l < n; l++ {
		var s scratchM
		if l < len(p) {
			s = p[l]
		}
		out[l] = finishLevelM(trivial, l, levelOf(base, l), s)
	}
	for n > 0 && len(out[n-1]) == 0 {
		n--
	}
	return out[:n]
}

func spawnM(base [][]VTbl, r VRec, trivial bool) [][]VTbl {
	return finishM(trivial, base, stageCommitM(base, nil, r))
}

func fillRecordM(r VRec, lv [][]VTbl) VRec {
	listed := r.addedNums()
	out := VRec{Added: append([]VAdd(nil), r.Added...), Deleted: r.Deleted}
	for l, tables := range lv {
		for _, t := range tables {
			if !smemM(listed, t.Num) {
				out.Added = append(out.Added, VAdd{Level: l, T: t})
			}
		}
	}
	return out
}

// NewVLModel is vl_start: newSession, then create (recs == nil) or recover over the records.
func NewVLModel(recover bool, recs []VRec) (*VLModel, []Event) {
	m := &VLModel{cur: vrec{id: 0, ref: 1}, nvid: 1, seen: map[int64]bool{}, Disc: true}
	evs := []Event{evRef(vrec{id: 0})}
	if !recover {
		m.manifest = true
		return m, evs
	}
	var p []scratchM
	for _, r := range recs {
		p = stageCommitM(nil, p, r)
	}
	nv := vrec{id: m.nvid, levels: finishM(false, nil, p)}
	m.nvid++
	evs = append(evs, m.setVersion(VRec{}, nv)...)
	fl := flatLevels(m.cur.levels)
	if !noDup(fl) {
		m.Disc = false
	}
	for _, f := range fl {
		m.seen[f] = true
	}
	return m, evs
}

func (m *VLModel) setVersion(r VRec, nv vrec) []Event {
	nv1, evs := increfM(nv)
	evs = append(evs, Event{Kind: EvDelta, Vid: m.cur.id, Added: r.addedNums(), Deleted: r.deletedNums()})
	c1, ev3 := releaseNBM(m.cur)
	evs = append(evs, ev3...)
	if c1.ref != 0 {
		m.olds = append([]vrec{c1}, m.olds...)
	}
	m.cur = nv1
	return evs
}

func (m *VLModel) acquire() []Event {
	c, evs := increfM(m.cur)
	m.cur = c
	return evs
}

func (m *VLModel) release(v int64) []Event {
	if m.cur.id == v {
		c, evs := releaseNBM(m.cur)
		m.cur = c
		return evs
	}
	for i, o := range m.olds {
		if o.id == v {
			o2, evs := releaseNBM(o)
			if o2.ref == 0 {
				m.olds = append(append([]vrec(nil), m.olds[:i]...), m.olds[i+1:]...)
			} else {
				m.olds[i] = o2
			}
			return evs
		}
	}
	panic(vlPanic("release of an unknown version"))
}

func (m *VLModel) recOk(r VRec) bool {
	a, d := r.addedNums(), r.deletedNums()
	if !noDup(a) || !noDup(d) {
		return false
	}
	for _, x := range r.Deleted {
		if !tmemM(levelOf(m.cur.levels, x.Level), x.Num) {
			return false
		}
	}
	for _, n := range a {
		if !smemM(d, n) && m.seen[n] {
			return false
		}
	}
	return m.manifest || len(r.Deleted) == 0
}

func (m *VLModel) install(r VRec, trivial bool, oc int) []Event {
	if !m.recOk(r) || (!m.manifest && oc == OcFailSwitched) {
		m.Disc = false
	}
	lv := spawnM(m.cur.levels, r, trivial)
	id := m.nvid
	m.nvid++
	switch oc {
	case OcOk:
		r2 := r
		if !m.manifest {
			r2 = fillRecordM(r, lv)
		}
		evs := m.setVersion(r2, vrec{id: id, levels: lv})
		m.manifest = true
		for _, f := range flatLevels(lv) {
			m.seen[f] = true
		}
		return evs
	case OcFailSwitched:
		m.manifest = true
	}
	return []Event{{Kind: EvAbandon, Vid: id}}
}

// Step is vl_step; a panic of the model is returned as text.
func (m *VLModel) Step(op VMOp) (evs []Event, pmsg string) {
	defer func() {
		if x := recover(); x != nil {
			if p, ok := x.(vlPanic); ok {
				pmsg = string(p)
				return
			}
			panic(x)
		}
	}()
	switch op.Kind {
	case VAcquire:
		m.held = append(m.held, m.cur.id)
		return m.acquire(), ""
	case VRelease:
		if !smemM(m.held, op.V) {
			m.Disc = false
		}
		for i, h := range m.held {
			if h == op.V {
				m.held = append(append([]int64(nil), m.held[:i]...), m.held[i+1:]...)
				break
			}
		}
		return m.release(op.V), ""
	case VInstall:
		return m.install(op.Rec, op.Trivial, op.Oc), ""
	case VCommit:
		old := m.cur.id
		evs = append(evs, m.acquire()...)
		evs = append(evs, m.install(op.Rec, op.Trivial, op.Oc)...)
		evs = append(evs, m.release(old)...)
		return evs, ""
	}
	return nil, "unknown operation"
}

func eventsEqual(a, b Event) bool {
	return a.Kind == b.Kind && a.Vid == b.Vid && eqList(a.Files(), b.Files()) && eqList(a.Added, b.Added) && eqList(a.Deleted, b.Deleted)
}

// VLSession is one session of a version-layer history: how it was opened, the operations, what the real layer sent.
type VLSession struct {
	Recover bool    `json:"recover"`
	Recs    []VRec  `json:"recs,omitempty"`
	Ops     []VMOp  `json:"ops"`
	Events  []Event `json:"events"`
	Disc    bool    `json:"disc"`
}

// ---- Coq rendering ----

func coqTbl(t VTbl) string { return fmt.Sprintf("T %d %d %d", t.Num, t.Min, t.Max) }

func coqRec(r VRec) string {
	var sb strings.Builder
	sb.WriteString("R [")
	for i, a := range r.Added {
		if i > 0 {
			sb.WriteByte(';')
		}
		fmt.Fprintf(&sb, "(%d,%s)", a.Level, coqTbl(a.T))
	}
	sb.WriteString("] [")
	for i, d := range r.Deleted {
		if i > 0 {
			sb.WriteByte(';')
		}
		fmt.Fprintf(&sb, "(%d,%d)", d.Level, d.Num)
	}
	sb.WriteString("]")
	return sb.String()
}

func coqBool(b bool) string {
	if b {
		return "true"
	}
	return "false"
}

func coqOp(op VMOp) string {
	oc := []string{"COk", "CFail", "CFailSwitched"}[op.Oc]
	switch op.Kind {
	case VAcquire:
		return "VAcquire"
	case VRelease:
		return fmt.Sprintf("VRelease %d", op.V)
	case VInstall:
		return fmt.Sprintf("VInstall (%s) %s %s", coqRec(op.Rec), coqBool(op.Trivial), oc)
	}
	return fmt.Sprintf("VCommit (%s) %s %s", coqRec(op.Rec), coqBool(op.Trivial), oc)
}

// CoqVLCase renders KVL disc open ops events.
func CoqVLCase(s VLSession) string {
	var sb strings.Builder
	sb.WriteString("KVL ")
	sb.WriteString(coqBool(s.Disc))
	if s.Recover {
		sb.WriteString(" (ORecover [")
		for i, r := range s.Recs {
			if i > 0 {
				sb.WriteByte(';')
			}
			sb.WriteString(coqRec(r))
		}
		sb.WriteString("])")
	} else {
		sb.WriteString(" OCreate")
	}
	sb.WriteString("\n  [")
	for i, op := range s.Ops {
		if i > 0 {
			sb.WriteString("; ")
		}
		sb.WriteString(coqOp(op))
	}
	sb.WriteString("]\n  [")
	for i, e := range s.Events {
		if i > 0 {
			sb.WriteString("; ")
		}
		sb.WriteString(coqEvent(e))
	}
	sb.WriteString("]")
	return sb.String()
}
