package main

// Each part of the run (corpus, reference loop, version layer, DB level) executes in a child process: a panic
// in the implementation (e.g. refLoop's "negative ref" on a goroutine of its own, which nothing can recover)
// kills only that child. Every worker records the case it is running in an "inflight" file; after a crash
// the parent re-runs those cases one by one (again in children) and reports the one that crashes as a
// violation with its replay file.

import (
	"bytes"
	"encoding/json"
	"fmt"
	"os"
	"os/exec"
	"path/filepath"
	"sort"
	"strings"
	"time"

	"verifharness/lib/vlib"
)

var inflightDir string

func setInflight(w int, c replayFile) {
	if inflightDir == "" {
		return
	}
	b, _ := json.Marshal(map[string]interface{}{"case": c})
	os.WriteFile(filepath.Join(inflightDir, fmt.Sprintf("inflight_%d.json", w)), b, 0o644)
}

func clearInflight(w int) {
	if inflightDir == "" {
		return
	}
	os.Remove(filepath.Join(inflightDir, fmt.Sprintf("inflight_%d.json", w)))
}

type childResult struct {
	Evaluations        int                    `json:"evaluations"`
	DistinctNontrivial int                    `json:"distinct_nontrivial"`
	Samples            []interface{}          `json:"samples"`
	Distribution       map[string]int         `json:"distribution"`
	Extra              map[string]interface{} `json:"extra"`
	Violations         []vlib.Violation       `json:"violations"`
}

func runChild(args []string, limit time.Duration) (int, string) {
	cmd := exec.Command(os.Args[0], args...)
	var buf bytes.Buffer
	cmd.Stdout, cmd.Stderr = &buf, &buf
	if err := cmd.Start(); err != nil {
		return -1, "cannot start child: " + err.Error()
	}
	done := make(chan error, 1)
	go func() { done <- cmd.Wait() }()
	select {
	case err := <-done:
		out := buf.String()
		if err != nil {
			if ee, ok := err.(*exec.ExitError); ok {
				return ee.ExitCode(), out
			}
			return -1, out
		}
		return 0, out
	case <-time.After(limit):
		cmd.Process.Kill()
		<-done
		return 124, buf.String() + "\n[child killed after " + limit.String() + "]"
	}
}

func panicLine(out string) string {
	for _, l := range strings.Split(out, "\n") {
		if strings.HasPrefix(l, "panic:") || strings.HasPrefix(l, "fatal error:") {
			if len(l) > 300 {
				l = l[:300]
			}
			return l
		}
	}
	t := out
	if len(t) > 300 {
		t = t[len(t)-300:]
	}
	return strings.TrimSpace(t)
}

// runPart executes one part in a child and merges what it reports; it returns the part's Coq cases.
func runPart(a vlib.Args, res *vlib.Result, part string) []string {
	dir := filepath.Join(a.Out, "part_"+part)
	os.MkdirAll(dir, 0o755)
	extra := "part=" + part
	for _, f := range strings.Fields(strings.ReplaceAll(a.Extra, ",", " ")) {
		extra += "," + f
	}
	limit := 14 * time.Minute
	if a.Thorough() {
		limit = 110 * time.Minute
	}
	t0 := time.Now()
	rc, out := runChild([]string{"--tier", a.Tier, "--seed", fmt.Sprint(a.Seed), "--out", dir, "--extra", extra}, limit)
	res.Extra[part+"_part_s"] = time.Since(t0).Seconds()
	if s := strings.TrimSpace(out); s != "" {
		if len(s) > 2000 {
			s = s[:2000]
		}
		fmt.Println(s)
	}
	var kcases []string
	var cr childResult
	if b, err := os.ReadFile(filepath.Join(dir, "result.json")); err == nil && json.Unmarshal(b, &cr) == nil {
		res.Evaluations += cr.Evaluations
		res.DistinctNontrivial += cr.DistinctNontrivial
		for k, v := range cr.Distribution {
			res.Count(k, v)
		}
		for k, v := range cr.Extra {
			res.Extra[k] = v
		}
		for _, s := range cr.Samples {
			res.Sample(s)
		}
		for _, v := range cr.Violations {
			var w struct {
				Case json.RawMessage `json:"case"`
			}
			if b, err := os.ReadFile(filepath.Join(dir, v.Replay)); err == nil && json.Unmarshal(b, &w) == nil {
				res.Violate(v.Desc, w.Case)
			} else {
				res.Violate(v.Desc, map[string]string{"lost": v.Replay})
			}
		}
		if b, err := os.ReadFile(filepath.Join(dir, "kcases.json")); err == nil {
			json.Unmarshal(b, &kcases)
		}
	}
	if rc == 0 {
		return kcases
	}
	// the child died: find the case that kills it
	res.Count("parts_crashed", 1)
	files, _ := filepath.Glob(filepath.Join(dir, "inflight_*.json"))
	sort.Strings(files)
	found := false
	for i, f := range files {
		if found && i >= 4 {
			break
		}
		sub := filepath.Join(dir, fmt.Sprintf("confirm_%d", i))
		os.MkdirAll(sub, 0o755)
		rc2, out2 := runChild([]string{"--tier", a.Tier, "--seed", fmt.Sprint(a.Seed), "--out", sub, "--replay", f}, 5*time.Minute)
		if rc2 == 0 {
			continue
		}
		var w struct {
			Case json.RawMessage `json:"case"`
		}
		b, _ := os.ReadFile(f)
		json.Unmarshal(b, &w)
		what := "the implementation crashed"
		if rc2 == 124 {
			what = "the implementation hung"
		}
		res.Violate(fmt.Sprintf("[%s] %s on this case: %s", part, what, panicLine(out2)), w.Case)
		found = true
	}
	if !found {
		tail := out
		if len(tail) > 4000 {
			tail = tail[len(tail)-4000:]
		}
		res.Violate(fmt.Sprintf("[%s] the harness part died (exit code %d; 124 = watchdog) and no single case reproduces it: %s", part, rc, panicLine(out)), map[string]string{"output": tail})
	}
	return kcases
}

// childPart is the child side of runPart.
func childPart(a vlib.Args, part string) {
	inflightDir = a.Out
	res := vlib.NewResult("C07", a.Out, rule)
	var kcases []string
	switch part {
	case "corpus":
		corpus(a, res)
	case "loop":
		kcases = loopPart(a, res)
	case "vl":
		kcases = vlPart(a, res)
	case "db":
		dbPart(a, res)
	case "sweep":
		kcases = sweepPart(a, res)
	}
	b, _ := json.Marshal(kcases)
	os.WriteFile(filepath.Join(a.Out, "kcases.json"), b, 0o644)
	res.Write()
}
