package main

// Go mirror of coq/theories/Conc/RefLoop.v (same state components, same branch structure). It is used for
// volume: every generated sequence is compared step by step with the real refLoop through this mirror; a
// sample of the same sequences is re-evaluated by the Coq model itself (Corr/C07Run.v), which cross-checks
// the mirror, and every sequence on which mirror and implementation disagree is always put in that sample.

import (
	"fmt"
	"sort"
)

type EvKind int

const (
	EvRef EvKind = iota
	EvRel
	EvDelta
	EvAbandon
	EvTick
)

// Event is one input of the loop. Levels is the [][]int64 sent to the real loop (Ref/Rel); the model sees it
// flattened level by level.
type Event struct {
	Kind    EvKind    `json:"k"`
	Vid     int64     `json:"v"`
	Levels  [][]int64 `json:"l,omitempty"`
	Added   []int64   `json:"a,omitempty"`
	Deleted []int64   `json:"d,omitempty"`
	Expired bool      `json:"x,omitempty"` // Ref only: creation time older than maxCachedTime
}

func (e Event) Files() []int64 {
	var out []int64
	for _, l := range e.Levels {
		out = append(out, l...)
	}
	return out
}

func (e Event) String() string {
	switch e.Kind {
	case EvRef:
		x := ""
		if e.Expired {
			x = " expired"
		}
		return fmt.Sprintf("Ref(%d,%v%s)", e.Vid, e.Files(), x)
	case EvRel:
		return fmt.Sprintf("Rel(%d,%v)", e.Vid, e.Files())
	case EvDelta:
		return fmt.Sprintf("Delta(%d,+%v,-%v)", e.Vid, e.Added, e.Deleted)
	case EvAbandon:
		return fmt.Sprintf("Abandon(%d)", e.Vid)
	}
	return "Tick"
}

type mDelta struct{ added, deleted []int64 }

// Panic kinds (C07Run.panic_code)
const (
	PanicNone       = -1
	PanicNegative   = 0
	PanicDuplicate  = 1
	PanicInvalidRel = 2
)

type Model struct {
	maxCached  int64
	fileRef    map[int64]int64
	ref        map[int64][]int64
	deltas     map[int64]*mDelta
	referenced map[int64]bool
	released   map[int64]*mDelta // value may be nil
	abandoned  map[int64]bool
	next, last int64
	expired    map[int64]bool // oracle: ids whose age test holds
	// statistics
	Conversions       int
	ForcedConversions int // conversions caused by last-next >= maxCachedNumber (not by age)
	LateDeltas        int // delta applied on arrival because the version was already converted
	AbandonSkips      int
	Progress          int // loop iterations of processTasks that changed the state
}

func NewModel(maxCached int64) *Model {
	return &Model{maxCached: maxCached, fileRef: map[int64]int64{}, ref: map[int64][]int64{}, deltas: map[int64]*mDelta{},
		referenced: map[int64]bool{}, released: map[int64]*mDelta{}, abandoned: map[int64]bool{}, expired: map[int64]bool{}}
}

type modelPanic struct {
	kind int
	msg  string
}

func (m *Model) addFileRef(f int64, d int64) int64 {
	r := m.fileRef[f] + d
	if r > 0 {
		m.fileRef[f] = r
	} else if r == 0 {
		delete(m.fileRef, f)
	} else {
		panic(modelPanic{PanicNegative, fmt.Sprintf("negative ref: %v", f)})
	}
	return r
}

func (m *Model) applyDelta(d *mDelta, out *[]int64) {
	for _, t := range d.added {
		m.addFileRef(t, 1)
	}
	for _, t := range d.deleted {
		if m.addFileRef(t, -1) == 0 {
			*out = append(*out, t)
		}
	}
}

func (m *Model) skipAbandoned() bool {
	if m.abandoned[m.next] {
		delete(m.abandoned, m.next)
		m.AbandonSkips++
		m.Progress++
		return true
	}
	return false
}

func (m *Model) processTasks(out *[]int64) {
	for {
		if m.skipAbandoned() {
			m.next++
			continue
		}
		if _, ok := m.released[m.next]; ok {
			break
		}
		files, ok := m.ref[m.next]
		if !ok {
			break
		}
		if m.last-m.next < m.maxCached && !m.expired[m.next] {
			break
		}
		m.Conversions++
		m.Progress++
		if !m.expired[m.next] {
			m.ForcedConversions++
		}
		for _, t := range files {
			m.addFileRef(t, 1)
		}
		if d := m.deltas[m.next]; d != nil {
			m.applyDelta(d, out)
		}
		m.referenced[m.next] = true
		delete(m.ref, m.next)
		delete(m.deltas, m.next)
		m.next++
	}
	for {
		if m.skipAbandoned() {
			m.next++
			continue
		}
		if d, ok := m.released[m.next]; ok {
			if d != nil {
				m.applyDelta(d, out)
			}
			delete(m.released, m.next)
			m.Progress++
			m.next++
			continue
		}
		return
	}
}

// Step consumes one event; it returns the removes issued (in order) and the panic kind (PanicNone if none).
// After a panic the model state is meaningless.
func (m *Model) Step(e Event) (removed []int64, pk int, pmsg string) {
	pk = PanicNone
	defer func() {
		if x := recover(); x != nil {
			mp, ok := x.(modelPanic)
			if !ok {
				panic(x)
			}
			pk, pmsg = mp.kind, mp.msg
		}
	}()
	switch e.Kind {
	case EvRef:
		if _, ok := m.ref[e.Vid]; ok {
			panic(modelPanic{PanicDuplicate, "duplicate reference request"})
		}
		m.ref[e.Vid] = e.Files()
		if e.Expired {
			m.expired[e.Vid] = true
		}
		if e.Vid > m.last {
			m.last = e.Vid
		}
	case EvDelta:
		d := &mDelta{added: e.Added, deleted: e.Deleted}
		if _, ok := m.ref[e.Vid]; !ok {
			if !m.referenced[e.Vid] {
				panic(modelPanic{PanicInvalidRel, "invalid release request"})
			}
			m.LateDeltas++
			m.applyDelta(d, &removed)
		} else {
			m.deltas[e.Vid] = d
		}
	case EvRel:
		if m.referenced[e.Vid] {
			for _, t := range e.Files() {
				if m.addFileRef(t, -1) == 0 {
					removed = append(removed, t)
				}
			}
			delete(m.referenced, e.Vid)
		} else {
			if _, ok := m.ref[e.Vid]; !ok {
				panic(modelPanic{PanicInvalidRel, "invalid release request"})
			}
			m.released[e.Vid] = m.deltas[e.Vid]
			delete(m.deltas, e.Vid)
			delete(m.ref, e.Vid)
		}
	case EvAbandon:
		if e.Vid >= m.next {
			m.abandoned[e.Vid] = true
		}
	case EvTick:
	}
	m.processTasks(&removed)
	return
}

// StepQ consumes the event the way the harness presents it to the real loop: the event itself (nothing for a
// tick), then one processTasks run per fileRefCh request (serving a request sends the loop round its for-loop
// once more). Requests are repeated until a run changes nothing, so that the last one - which races with the
// harness reading the Remove log - is a no-op. It returns the removes, the number q of requests, the panic kind
// and whether the panic happened in one of the runs after a request (the implementation would then crash
// after having answered).
func (m *Model) StepQ(e Event) (removed []int64, q int, pk int, inTick bool) {
	pk = PanicNone
	if e.Kind != EvTick {
		removed, pk, _ = m.Step(e)
		if pk != PanicNone {
			return
		}
	}
	for {
		before := m.Progress
		rm, k, _ := m.Step(Event{Kind: EvTick})
		q++
		if k != PanicNone {
			return removed, q, k, true
		}
		removed = append(removed, rm...)
		if m.Progress == before {
			return
		}
	}
}

// SortedRef returns the fileRef map as a list sorted by file number.
func sortedRef(m map[int64]int64) [][2]int64 {
	out := make([][2]int64, 0, len(m))
	for f, c := range m {
		out = append(out, [2]int64{f, c})
	}
	sort.Slice(out, func(i, j int) bool { return out[i][0] < out[j][0] })
	return out
}

// ---- mirror of env_step (the environment protocol) ----

type envVer struct {
	id       int64
	files    []int64
	late     []int64
	hasDelta bool
	rel      bool
}

type Env struct {
	nid   int64
	chain []*envVer // newest LAST (the Coq list is newest first)
	seen  map[int64]bool
}

func NewEnv() *Env { return &Env{seen: map[int64]bool{}} }

func toSet(l []int64) map[int64]bool {
	s := make(map[int64]bool, len(l))
	for _, x := range l {
		s[x] = true
	}
	return s
}

func noDup(l []int64) bool { return len(toSet(l)) == len(l) }

func diff(a []int64, b map[int64]bool) []int64 {
	var out []int64
	for _, x := range a {
		if !b[x] {
			out = append(out, x)
		}
	}
	return out
}

func incl(a []int64, b map[int64]bool) bool {
	for _, x := range a {
		if !b[x] {
			return false
		}
	}
	return true
}

func disj(a []int64, b map[int64]bool) bool {
	for _, x := range a {
		if b[x] {
			return false
		}
	}
	return true
}

func (e *Env) settled() bool {
	n := len(e.chain)
	return n < 2 || e.chain[n-2].hasDelta
}

func eqList(a, b []int64) bool {
	if len(a) != len(b) {
		return false
	}
	for i := range a {
		if a[i] != b[i] {
			return false
		}
	}
	return true
}

// Step returns false when the event violates the protocol (the state is then unchanged).
func (e *Env) Step(ev Event) bool {
	n := len(e.chain)
	switch ev.Kind {
	case EvRef:
		files := ev.Files()
		if ev.Vid != e.nid || !noDup(files) || !e.settled() {
			return false
		}
		if n == 0 {
			if len(files) != 0 {
				return false
			}
			e.chain = append(e.chain, &envVer{id: ev.Vid})
			e.nid++
			return true
		}
		c := e.chain[n-1]
		fresh := diff(files, toSet(c.files))
		if c.hasDelta || !disj(fresh, e.seen) {
			return false
		}
		for _, f := range fresh {
			e.seen[f] = true
		}
		e.chain = append(e.chain, &envVer{id: ev.Vid, files: files})
		e.nid++
		return true
	case EvDelta:
		if n < 2 {
			return false
		}
		nv, c := e.chain[n-1], e.chain[n-2]
		a1 := diff(ev.Added, toSet(c.late))
		kept := diff(c.files, toSet(ev.Deleted))
		t := append(append([]int64{}, kept...), a1...)
		lateN := diff(nv.files, toSet(t))
		if c.id != ev.Vid || c.hasDelta || !noDup(ev.Added) || !noDup(ev.Deleted) ||
			!incl(ev.Deleted, toSet(diff(c.files, toSet(c.late)))) || !incl(c.late, toSet(ev.Added)) ||
			!disj(a1, toSet(kept)) || !incl(t, toSet(nv.files)) || !disj(lateN, toSet(c.files)) {
			return false
		}
		c.hasDelta = true
		nv.late = lateN
		return true
	case EvRel:
		for _, c := range e.chain {
			if c.id == ev.Vid {
				if c.rel || !c.hasDelta || !eqList(ev.Files(), c.files) {
					return false
				}
				c.rel = true
				return true
			}
		}
		return false
	case EvAbandon:
		if ev.Vid != e.nid || !e.settled() || n == 0 {
			return false
		}
		e.nid++
		return true
	}
	return true
}

// LiveFiles returns the set of tables of versions referenced and not yet released.
func (e *Env) LiveFiles() map[int64]bool {
	s := map[int64]bool{}
	for _, c := range e.chain {
		if !c.rel {
			for _, f := range c.files {
				s[f] = true
			}
		}
	}
	return s
}

// Quiescent: nothing in flight and every version but the current one released.
func (e *Env) Quiescent() bool {
	if !e.settled() {
		return false
	}
	for i := 0; i+1 < len(e.chain); i++ {
		if !e.chain[i].rel {
			return false
		}
	}
	return true
}

func (e *Env) CurLate() []int64 {
	if len(e.chain) == 0 {
		return nil
	}
	return e.chain[len(e.chain)-1].late
}

func (e *Env) CurFiles() []int64 {
	if len(e.chain) == 0 {
		return nil
	}
	return e.chain[len(e.chain)-1].files
}
