package main

// (P) at DB level, over the checker-owned storage: pinned iterators/snapshots across many version changes,
// exact storage listing after the readers are gone and background work settled (and after close + reopen),
// no residue of discarded transactions and failed flushes/compactions, space given back by compaction,
// garbage of crash images swept at open, and the stray-.tmp candidate finding.

import (
	"fmt"
	"sort"
	"strings"
	"time"

	"github.com/syndtr/goleveldb/leveldb"
	"github.com/syndtr/goleveldb/leveldb/opt"
	"github.com/syndtr/goleveldb/leveldb/storage"
	"github.com/syndtr/goleveldb/leveldb/util"
	"verifharness/lib/dbh"
	"verifharness/lib/vlib"
	"verifharness/lib/vstor"
)

// DBCase is a replayable DB-level case.
type DBCase struct {
	Scenario string       `json:"scenario"`
	Prog     *dbh.Program `json:"prog,omitempty"`
	Cfg      dbh.Cfg      `json:"cfg"`
	Seed     uint64       `json:"seed"`
	N        int          `json:"n,omitempty"`
}

const settleBound = 12 * time.Second

// listingDiff compares the storage listing with what the property allows once readers are released and
// background work has settled: the tables of the current version, exactly one journal, the manifest CURRENT
// points to. It returns "" if they agree. Temp files are reported separately (candidate finding).
func listingDiff(stor *vstor.Stor, ver []leveldb.VerifTable) string {
	want := map[int64]bool{}
	for _, t := range ver {
		want[t.Num] = true
	}
	var problems []string
	nj, nm := 0, 0
	meta, hasMeta := stor.Meta()
	have := map[int64]bool{}
	for _, fd := range stor.ListAll() {
		switch fd.Type {
		case storage.TypeTable:
			have[fd.Num] = true
			if !want[fd.Num] {
				problems = append(problems, fmt.Sprintf("table %d is on storage but not in the current version", fd.Num))
			}
		case storage.TypeJournal:
			nj++
		case storage.TypeManifest:
			nm++
			if !hasMeta || fd != meta {
				problems = append(problems, fmt.Sprintf("manifest %d is on storage but CURRENT points to %v", fd.Num, meta))
			}
		case storage.TypeTemp:
			// candidate finding, reported separately
		}
	}
	for n := range want {
		if !have[n] {
			problems = append(problems, fmt.Sprintf("table %d of the current version is missing from storage", n))
		}
	}
	if nj != 1 {
		problems = append(problems, fmt.Sprintf("%d journal files (one live journal expected)", nj))
	}
	if nm != 1 {
		problems = append(problems, fmt.Sprintf("%d manifest files", nm))
	}
	sort.Strings(problems)
	if len(problems) > 6 {
		problems = append(problems[:6], fmt.Sprintf("... %d more", len(problems)-6))
	}
	return strings.Join(problems, "; ")
}

// settle waits for background work and the asynchronous reference loop, polling up to settleBound; it returns
// "" once the listing is exact, or the difference that persisted for the whole bound.
func settle(db *leveldb.DB, stor *vstor.Stor) string {
	deadline := time.Now().Add(settleBound)
	d := ""
	for {
		leveldb.VerifWaitIdle(db, settleBound)
		ver := leveldb.VerifDumpVersion(db)
		d = listingDiff(stor, ver)
		if d == "" {
			// the counters must agree as well: every live table counted, nothing else
			refs := leveldb.VerifFileRefs(db)
			for _, t := range ver {
				if refs[t.Num] < 1 {
					d = fmt.Sprintf("table %d of the current version has reference count %d", t.Num, refs[t.Num])
				}
			}
			if d == "" && len(refs) != len(ver) {
				d = fmt.Sprintf("reference loop counts %d tables, the current version has %d (counts %v)", len(refs), len(ver), refs)
			}
			if d == "" {
				return ""
			}
		}
		if time.Now().After(deadline) {
			return d
		}
		time.Sleep(2 * time.Millisecond)
	}
}

// liveTablesPresent: every table of the current version is on storage (must hold at any time). Background
// compactions may install a new version between the version dump and the listing, so the listing is only
// judged against a version that was current both before and after it was taken.
func liveTablesPresent(db *leveldb.DB, stor *vstor.Stor) string {
	for try := 0; try < 200; try++ {
		id1 := leveldb.VerifVersionID(db)
		ver := leveldb.VerifDumpVersion(db)
		have := map[int64]bool{}
		for _, fd := range stor.ListAll() {
			if fd.Type == storage.TypeTable {
				have[fd.Num] = true
			}
		}
		if leveldb.VerifVersionID(db) != id1 {
			time.Sleep(200 * time.Microsecond)
			continue
		}
		for _, t := range ver {
			if !have[t.Num] {
				return fmt.Sprintf("table %d of the current version is missing from storage", t.Num)
			}
		}
		return ""
	}
	return ""
}

func counters(stor *vstor.Stor) string {
	if stor.ReadAfterRemove != 0 {
		return fmt.Sprintf("%d reads were served from a table file after it had been removed", stor.ReadAfterRemove)
	}
	if stor.OpenMissing != 0 {
		return fmt.Sprintf("%d opens of a file that does not exist (a needed file was removed)", stor.OpenMissing)
	}
	return ""
}

// ---- scenario: dbh programs (pinned readers; random mixes; discarded transactions) ----

func iterStepOp(iter int, moves ...int) dbh.Op {
	code := 0
	for i, m := range moves {
		code |= m << uint(2*i)
	}
	return dbh.Op{Kind: dbh.OpIterStep, I: code*64 + iter}
}

// genPinned: readers pinned across at least n version changes.
func genPinned(r *vlib.RNG, cfg dbh.Cfg, n int) *dbh.Program {
	pool := dbh.GenPool(r, r.Range(20, 48), false)
	p := &dbh.Program{Cfg: cfg}
	for _, k := range pool {
		p.Pool = append(p.Pool, k)
	}
	var tag uint64
	key := func() []byte { return pool[r.Intn(len(pool))] }
	val := func(k []byte, n int) []byte {
		tag++
		v := []byte(fmt.Sprintf("%d:", tag))
		for len(v) < n {
			v = append(v, byte('a'+(len(v)*7+int(tag))%23))
		}
		return v
	}
	put := func() {
		k := key()
		p.Ops = append(p.Ops, dbh.Op{Kind: dbh.OpPut, K: k, V: val(k, r.Range(60, cfg.WriteBuffer/3))})
	}
	// initial contents spread over a few tables and levels
	for i := 0; i < 3*len(pool); i++ {
		put()
		if i%17 == 16 {
			p.Ops = append(p.Ops, dbh.Op{Kind: dbh.OpCompact})
		}
	}
	niter := r.Range(1, 3)
	for i := 0; i < niter; i++ {
		p.Ops = append(p.Ops, dbh.Op{Kind: dbh.OpIterOpen})
		if r.Bool() { // position it inside a table
			p.Ops = append(p.Ops, iterStepOp(i, 3, 0, 0))
		}
	}
	nsnap := r.Range(0, 2)
	for i := 0; i < nsnap; i++ {
		p.Ops = append(p.Ops, dbh.Op{Kind: dbh.OpSnap})
		put()
	}
	// n rounds, each filling the write buffer at least once (a flush = one version change; compactions add more)
	for round := 0; round < n; round++ {
		bytes := 0
		for bytes < cfg.WriteBuffer+cfg.WriteBuffer/4 {
			k := key()
			if r.Chance(1, 5) {
				p.Ops = append(p.Ops, dbh.Op{Kind: dbh.OpDelete, K: k})
				bytes += len(k) + 8
			} else {
				v := val(k, r.Range(60, cfg.WriteBuffer/3))
				p.Ops = append(p.Ops, dbh.Op{Kind: dbh.OpPut, K: k, V: v})
				bytes += len(k) + len(v) + 8
			}
		}
		switch {
		case r.Chance(1, 9):
			p.Ops = append(p.Ops, dbh.Op{Kind: dbh.OpCompact})
		case r.Chance(1, 6):
			p.Ops = append(p.Ops, iterStepOp(r.Intn(niter), r.Intn(4), r.Intn(4), r.Intn(4)))
		case r.Chance(1, 12) && nsnap > 0:
			p.Ops = append(p.Ops, dbh.Op{Kind: dbh.OpSnapRead, I: r.Intn(64)})
		case r.Chance(1, 20):
			p.Ops = append(p.Ops, dbh.Op{Kind: dbh.OpGet, K: key()})
		}
	}
	p.Ops = append(p.Ops, dbh.Op{Kind: dbh.OpCompact})
	// full walk of every pinned iterator over its creation-time contents
	for i := 0; i < niter; i++ {
		p.Ops = append(p.Ops, iterStepOp(i, 3, 0, 0))
		for j := 0; j < len(pool)/3+2; j++ {
			p.Ops = append(p.Ops, iterStepOp(i, 0, 0, 0))
		}
		for j := 0; j < 4; j++ {
			p.Ops = append(p.Ops, iterStepOp(i, 2, 2, 2))
		}
	}
	for i := 0; i < nsnap; i++ {
		p.Ops = append(p.Ops, dbh.Op{Kind: dbh.OpSnapRead, I: i})
	}
	p.Ops = append(p.Ops, dbh.Op{Kind: dbh.OpCheckAll})
	return p
}

// genTxnDiscard: transactions with internal flushes that are discarded (and some committed).
func genTxnDiscard(r *vlib.RNG, cfg dbh.Cfg) *dbh.Program {
	pool := dbh.GenPool(r, r.Range(12, 40), false)
	p := &dbh.Program{Cfg: cfg}
	for _, k := range pool {
		p.Pool = append(p.Pool, k)
	}
	var tag uint64
	key := func() []byte { return pool[r.Intn(len(pool))] }
	for i := 0; i < 20; i++ {
		k := key()
		tag++
		p.Ops = append(p.Ops, dbh.Op{Kind: dbh.OpPut, K: k, V: dbh.GenValue(r, cfg, k, tag)})
	}
	for t, nt := 0, r.Range(1, 4); t < nt; t++ {
		if r.Chance(1, 3) {
			p.Ops = append(p.Ops, dbh.Op{Kind: dbh.OpIterOpen})
		}
		p.Ops = append(p.Ops, dbh.Op{Kind: dbh.OpTxnOpen})
		total := 0
		for total < 3*cfg.WriteBuffer {
			var recs []dbh.Rec
			for i, m := 0, r.Range(1, 8); i < m; i++ {
				k := key()
				tag++
				v := make([]byte, r.Range(80, 400))
				for j := range v {
					v[j] = byte('a' + (j+int(tag))%23)
				}
				recs = append(recs, dbh.Rec{K: k, V: v})
				total += len(k) + len(v) + 8
			}
			p.Ops = append(p.Ops, dbh.Op{Kind: dbh.OpTxnBatch, Recs: recs})
			if r.Chance(1, 6) {
				p.Ops = append(p.Ops, dbh.Op{Kind: dbh.OpTxnGet, K: key()})
			}
		}
		if r.Chance(3, 4) {
			p.Ops = append(p.Ops, dbh.Op{Kind: dbh.OpTxnDiscard})
		} else {
			p.Ops = append(p.Ops, dbh.Op{Kind: dbh.OpTxnCommit})
		}
		p.Ops = append(p.Ops, dbh.Op{Kind: dbh.OpWaitIdle})
	}
	p.Ops = append(p.Ops, dbh.Op{Kind: dbh.OpCheckAll})
	return p
}

func mixWeights() dbh.Weights {
	w := dbh.DefaultWeights()
	w.IterOpen, w.IterStep, w.IterClose = 4, 10, 3
	w.Snap, w.SnapRead, w.SnapRelease = 4, 4, 3
	w.Compact, w.Reopen, w.WaitIdle, w.Txn = 6, 3, 3, 3
	w.BigBatch = 3
	return w
}

// runProgram executes a dbh program with the C07 checks. It returns a failure text ("" none) and statistics.
func runProgram(p *dbh.Program, wantChanges int) (fail string, stats map[string]int) {
	stats = map[string]int{}
	rn, _ := dbh.NewRunner(p, false)
	done := make(chan struct{})
	go func() {
		defer close(done)
		defer func() {
			if x := recover(); x != nil {
				s := fmt.Sprintf("%v", x)
				if len(s) > 600 {
					s = s[:600]
				}
				fail = "panic: " + s
			}
		}()
		if err := rn.Open(); err != nil {
			fail = "Open error " + err.Error()
			return
		}
		defer func() {
			if rn.DB != nil {
				rn.Close()
			}
			rn.Forget()
		}()
		sessStart := leveldb.VerifVersionID(rn.DB)
		changes := 0
		creates0 := rn.Stor.Counts(vstor.OpCreate, storage.TypeTable)
		for i := range p.Ops {
			op := &p.Ops[i]
			if op.Kind == dbh.OpReopen {
				changes += int(leveldb.VerifVersionID(rn.DB) - sessStart)
			}
			if f := rn.Step(i, op); f != nil {
				fail = f.Error()
				return
			}
			if op.Kind == dbh.OpReopen {
				sessStart = leveldb.VerifVersionID(rn.DB)
			}
			if c := counters(rn.Stor); c != "" {
				fail = fmt.Sprintf("op %d (%s): %s", i, op.Kind, c)
				return
			}
			if op.Kind == dbh.OpWaitIdle || op.Kind == dbh.OpCompact || op.Kind == dbh.OpReopen || op.Kind == dbh.OpTxnDiscard || i%64 == 63 {
				if d := liveTablesPresent(rn.DB, rn.Stor); d != "" {
					fail = fmt.Sprintf("op %d (%s): %s", i, op.Kind, d)
					return
				}
			}
			// exact listing whenever no reader and no transaction is live
			if (op.Kind == dbh.OpWaitIdle || op.Kind == dbh.OpReopen || op.Kind == dbh.OpTxnDiscard) && len(rn.Iters) == 0 && len(rn.Snaps) == 0 && rn.Txn == nil {
				stats["exact_listing_checks"]++
				if d := settle(rn.DB, rn.Stor); d != "" {
					fail = fmt.Sprintf("op %d (%s): after background work settled (no reader live): %s", i, op.Kind, d)
					return
				}
			}
		}
		stats["version_changes"] = changes + int(leveldb.VerifVersionID(rn.DB)-sessStart)
		stats["tables_created"] = rn.Stor.Counts(vstor.OpCreate, storage.TypeTable) - creates0
		if wantChanges > 0 && stats["version_changes"] < wantChanges {
			stats["short_of_version_changes"] = 1
		}
		// release every reader, then the listing must become exact
		for len(rn.Iters) > 0 {
			if f := rn.Step(len(p.Ops), &dbh.Op{Kind: dbh.OpIterClose}); f != nil {
				fail = f.Error()
				return
			}
		}
		for len(rn.Snaps) > 0 {
			rn.Step(len(p.Ops), &dbh.Op{Kind: dbh.OpSnapRelease})
		}
		if rn.Txn != nil {
			rn.Step(len(p.Ops), &dbh.Op{Kind: dbh.OpTxnDiscard})
		}
		stats["exact_listing_checks"]++
		if d := settle(rn.DB, rn.Stor); d != "" {
			fail = "after releasing all readers and waiting for background work: " + d
			return
		}
		if c := counters(rn.Stor); c != "" {
			fail = "end of program: " + c
			return
		}
		// close and reopen: the same must hold
		if f := rn.Step(len(p.Ops), &dbh.Op{Kind: dbh.OpReopen}); f != nil {
			fail = "final reopen: " + f.Error()
			return
		}
		stats["exact_listing_checks"]++
		if d := settle(rn.DB, rn.Stor); d != "" {
			fail = "after close and reopen: " + d
			return
		}
		if c := counters(rn.Stor); c != "" {
			fail = "after reopen: " + c
			return
		}
		for _, fd := range rn.Stor.ListAll() {
			if fd.Type == storage.TypeTemp {
				stats["temp_files_left"]++
			}
		}
		if err := rn.Close(); err != nil {
			fail = "Close error " + err.Error()
		}
	}()
	select {
	case <-done:
	case <-time.After(150 * time.Second):
		return "program did not finish within the watchdog time", stats
	}
	for k, v := range rn.Stats {
		if strings.HasPrefix(k, "op_") || k == "table_compactions" || k == "trivial_moves" || k == "edits" || k == "txn_discarded" || k == "txn_committed" {
			stats[k] += v
		}
	}
	return
}

// ---- scenario: storage faults during flush / compaction ----

func keyN(i int) []byte { return []byte(fmt.Sprintf("key%05d", i)) }

func valN(i, gen, n int) []byte {
	v := []byte(fmt.Sprintf("%d/%d:", i, gen))
	for len(v) < n {
		v = append(v, byte('a'+(len(v)+i+gen)%23))
	}
	return v
}

// runFault: a table Write or Sync fails during a flush/compaction (once, or persistently until healed or until
// Close). Afterwards no table file may be left behind that the current version does not hold.
func runFault(c DBCase) (fail string, stats map[string]int) {
	stats = map[string]int{}
	r := vlib.NewRNG(c.Seed)
	stor := vstor.New(false)
	o := c.Cfg.Options()
	db, err := leveldb.Open(stor, o)
	if err != nil {
		return "Open error " + err.Error(), stats
	}
	closed := false
	defer func() {
		if !closed {
			db.Close()
		}
	}()
	vsz := c.Cfg.WriteBuffer / 6
	if vsz < 40 {
		vsz = 40
	}
	nkeys := 60
	acked := map[int]int{}
	for i := 0; i < 3*nkeys; i++ {
		k := r.Intn(nkeys)
		if db.Put(keyN(k), valN(k, i, vsz), nil) == nil {
			acked[k] = i
		}
	}
	leveldb.VerifWaitIdle(db, settleBound)
	kind := vstor.OpWrite
	if r.Bool() {
		kind = vstor.OpSync
	}
	persistent := r.Chance(1, 2)
	closeUnderFault := persistent && r.Chance(1, 2)
	ft := &vstor.Fault{Kind: kind, Type: storage.TypeTable, K: r.Intn(6), Persistent: persistent, PartialPermille: r.Intn(1000)}
	if c.Cfg.NoSync && kind == vstor.OpSync {
		ft.Kind = vstor.OpWrite
	}
	stor.AddFault(ft)
	stats["fault_"+ft.Kind.String()]++
	// writes that force flushes and compactions; they may fail or block while the fault lasts
	stop := make(chan struct{})
	wdone := make(chan struct{})
	go func() {
		defer close(wdone)
		for i := 0; i < 6*nkeys; i++ {
			select {
			case <-stop:
				return
			default:
			}
			k := (i * 7) % nkeys
			db.Put(keyN(k), valN(k, 1000+i, vsz), nil)
		}
	}()
	go func() { db.CompactRange(util.Range{}) }()
	deadline := time.Now().Add(3 * time.Second)
	for ft.Hits == 0 && time.Now().Before(deadline) {
		time.Sleep(time.Millisecond)
	}
	if ft.Hits == 0 {
		stats["fault_not_hit"]++
	} else {
		stats["fault_hit"]++
	}
	if persistent {
		time.Sleep(time.Duration(r.Range(1, 20)) * time.Millisecond)
	}
	if closeUnderFault {
		stats["close_under_fault"]++
		close(stop)
		db.Close()
		closed = true
		<-wdone
		stor.Heal()
		// Close made the interrupted flush/compaction revert what it had built: the tables on storage must be
		// tables of the version the manifest describes (read through a clone of the storage, so that the
		// janitor of the next Open has not run yet)
		if d := tablesExactClone(stor, o); d != "" {
			return fmt.Sprintf("after Close during a persistent %s fault on table files: %s", ft.Kind, d), stats
		}
		db2, err := leveldb.Open(stor, o)
		if err != nil {
			return "reopen after close under fault: " + err.Error(), stats
		}
		db, closed = db2, false
	} else {
		stor.Heal()
		close(stop)
		<-wdone
	}
	// let the retries finish
	if err := db.CompactRange(util.Range{}); err != nil {
		// the compaction error state may still be draining: retry once after idle
		leveldb.VerifWaitIdle(db, settleBound)
		if err2 := db.CompactRange(util.Range{}); err2 != nil {
			stats["compact_error_after_heal"]++
		}
	}
	if d := settle(db, stor); d != "" {
		return fmt.Sprintf("after a %s fault on a table file (persistent=%v, close under fault=%v) was healed and background work settled: %s", ft.Kind, persistent, closeUnderFault, d), stats
	}
	if cs := counters(stor); cs != "" {
		return cs, stats
	}
	db.Close()
	closed = true
	db3, err := leveldb.Open(stor, o)
	if err != nil {
		return "reopen: " + err.Error(), stats
	}
	db, closed = db3, false
	if d := settle(db, stor); d != "" {
		return "after the fault run, close and reopen: " + d, stats
	}
	return "", stats
}

// runManifestFault: a manifest Sync fails once (a commit fails, its version id is abandoned, the commit is retried).
// The reference loop must get past the abandoned id: afterwards deletion works as usual.
func runManifestFault(c DBCase) (fail string, stats map[string]int) {
	stats = map[string]int{}
	r := vlib.NewRNG(c.Seed)
	stor := vstor.New(false)
	o := c.Cfg.Options()
	db, err := leveldb.Open(stor, o)
	if err != nil {
		return "Open error " + err.Error(), stats
	}
	defer func() { db.Close() }()
	vsz := c.Cfg.WriteBuffer / 6
	if vsz < 40 {
		vsz = 40
	}
	nkeys := 60
	for i := 0; i < 2*nkeys; i++ {
		k := r.Intn(nkeys)
		db.Put(keyN(k), valN(k, i, vsz), nil)
	}
	leveldb.VerifWaitIdle(db, settleBound)
	for round := 0; round < 3; round++ {
		ft := &vstor.Fault{Kind: vstor.OpSync, Type: storage.TypeManifest, K: r.Intn(3)}
		stor.AddFault(ft)
		for i := 0; i < 3*nkeys; i++ {
			k := (i*7 + round) % nkeys
			db.Put(keyN(k), valN(k, 1000*round+i, vsz), nil)
		}
		db.CompactRange(util.Range{})
		if ft.Hits > 0 {
			stats["fault_hit"]++
		}
		stor.Heal()
		leveldb.VerifWaitIdle(db, settleBound)
	}
	for i := 0; i < nkeys; i++ {
		db.Put(keyN(i), valN(i, 9999, vsz), nil)
	}
	if err := db.CompactRange(util.Range{}); err != nil {
		leveldb.VerifWaitIdle(db, settleBound)
		if err2 := db.CompactRange(util.Range{}); err2 != nil {
			stats["compact_error_after_heal"]++
		}
	}
	if d := settle(db, stor); d != "" {
		return "after commits failed on a manifest Sync fault (version ids abandoned), the fault was healed and background work settled: " + d, stats
	}
	if cs := counters(stor); cs != "" {
		return cs, stats
	}
	return "", stats
}

// runTxnIter: an iterator of a transaction stays open across Discard; the tables the transaction built are
// removed through the file cache, i.e. only after the iterator let go of them.
func runTxnIter(c DBCase) (fail string, stats map[string]int) {
	stats = map[string]int{}
	r := vlib.NewRNG(c.Seed)
	stor := vstor.New(false)
	o := c.Cfg.Options()
	db, err := leveldb.Open(stor, o)
	if err != nil {
		return "Open error " + err.Error(), stats
	}
	defer func() { db.Close() }()
	for i := 0; i < 20; i++ {
		db.Put(keyN(i), valN(i, 0, 50), nil)
	}
	for round := 0; round < 3; round++ {
		tr, err := db.OpenTransaction()
		if err != nil {
			return "OpenTransaction error " + err.Error(), stats
		}
		c0 := stor.Counts(vstor.OpCreate, storage.TypeTable)
		n := 0
		for total := 0; total < 4*c.Cfg.WriteBuffer; n++ {
			v := valN(n, round, r.Range(60, 300))
			if err := tr.Put(keyN(1000+n), v, nil); err != nil {
				tr.Discard()
				return "Transaction.Put error " + err.Error(), stats
			}
			total += len(v) + 16
		}
		stats["txn_tables_created"] += stor.Counts(vstor.OpCreate, storage.TypeTable) - c0
		it := tr.NewIterator(nil, nil)
		seen := 0
		for ok := it.First(); ok && seen < n/3; ok = it.Next() {
			seen++
		}
		commit := r.Chance(1, 4)
		if commit {
			if err := tr.Commit(); err != nil {
				it.Release()
				return "Transaction.Commit error " + err.Error(), stats
			}
		} else {
			tr.Discard()
		}
		// the iterator goes on over what it pinned
		for it.Next() {
			seen++
		}
		if err := it.Error(); err != nil {
			stats["iterator_error_after_discard"]++
		}
		if cs := counters(stor); cs != "" {
			it.Release()
			return fmt.Sprintf("iterator of a transaction kept across %s: %s", map[bool]string{true: "Commit", false: "Discard"}[commit], cs), stats
		}
		it.Release()
		if d := settle(db, stor); d != "" {
			return fmt.Sprintf("after a transaction (commit=%v) whose iterator was released after it ended: %s", commit, d), stats
		}
	}
	return "", stats
}

// tablesExactClone checks a closed DB for residue without letting its janitor run: a clone of the storage is
// opened (with compaction triggers out of reach, so that the version right after Open is the manifest's version
// plus what the journal replay flushes) and every table file of the original storage must belong to it.
// (A read-only Open of the original would be simpler, but it fails with io.EOF as soon as two journals have to
// be replayed: recoverJournalRO returns journal.Reader.Reset's stale error, which recoverJournal ignores.)
func tablesExactClone(stor *vstor.Stor, o *opt.Options) string {
	clone := stor.Clone(false)
	o2 := *o
	o2.CompactionL0Trigger = 1 << 20
	o2.CompactionTotalSize = 1 << 40
	o2.DisableSeeksCompaction = true
	db, err := leveldb.Open(clone, &o2)
	if err != nil {
		return "open of a clone of the closed DB failed: " + err.Error()
	}
	want := map[int64]bool{}
	for _, t := range leveldb.VerifDumpVersion(db) {
		want[t.Num] = true
	}
	db.Close()
	var problems []string
	for _, fd := range stor.ListAll() {
		if fd.Type == storage.TypeTable && !want[fd.Num] {
			problems = append(problems, fmt.Sprintf("table %d is on storage but not in the version", fd.Num))
		}
	}
	sort.Strings(problems)
	return strings.Join(problems, "; ")
}

// ---- scenario: space is given back ----

func runSpace(c DBCase) (fail string, stats map[string]int) {
	stats = map[string]int{}
	r := vlib.NewRNG(c.Seed)
	stor := vstor.New(false)
	o := c.Cfg.Options()
	db, err := leveldb.Open(stor, o)
	if err != nil {
		return "Open error " + err.Error(), stats
	}
	defer func() { db.Close() }()
	n := c.N
	vsz := r.Range(40, 300)
	for gen := 0; gen < 3; gen++ {
		for i := 0; i < n; i++ {
			if err := db.Put(keyN(i), valN(i, gen, vsz), nil); err != nil {
				return "Put error " + err.Error(), stats
			}
		}
		if r.Bool() {
			db.CompactRange(util.Range{})
		}
	}
	leveldb.VerifWaitIdle(db, settleBound)
	peak := stor.TotalBytes(storage.TypeTable)
	stats["peak_table_bytes"] = peak
	var it = db.NewIterator(nil, nil)
	if r.Bool() {
		it.First() // a reader pinned while everything is deleted, released before the final compaction
	}
	for i := 0; i < n; i++ {
		if err := db.Delete(keyN(i), nil); err != nil {
			return "Delete error " + err.Error(), stats
		}
	}
	it.Release()
	if err := db.CompactRange(util.Range{}); err != nil {
		return "CompactRange error " + err.Error(), stats
	}
	if d := settle(db, stor); d != "" {
		return "after delete-all and CompactRange: " + d, stats
	}
	ver := leveldb.VerifDumpVersion(db)
	left := stor.TotalBytes(storage.TypeTable)
	stats["left_table_bytes"] = left
	if len(ver) != 0 || left != 0 {
		return fmt.Sprintf("after deleting all %d keys and CompactRange(nil,nil) with no snapshot live, %d tables / %d table bytes remain (peak %d)", n, len(ver), left, peak), stats
	}
	return "", stats
}

// ---- scenario: Recover() rebuilds the manifest from the table files; afterwards deletion must work as usual ----

func runRecover(c DBCase) (fail string, stats map[string]int) {
	stats = map[string]int{}
	r := vlib.NewRNG(c.Seed)
	stor := vstor.New(false)
	o := c.Cfg.Options()
	db, err := leveldb.Open(stor, o)
	if err != nil {
		return "Open error " + err.Error(), stats
	}
	vsz := r.Range(40, 200)
	for gen := 0; gen < 2; gen++ {
		for i := 0; i < c.N; i++ {
			db.Put(keyN(i), valN(i, gen, vsz), nil)
		}
	}
	leveldb.VerifWaitIdle(db, settleBound)
	db.Close()
	if r.Bool() { // with or without a usable manifest
		if m, ok := stor.Meta(); ok {
			stor.DeleteFile(m)
			stor.ClearMeta()
		}
	}
	db, err = leveldb.Recover(stor, o)
	if err != nil {
		return "Recover error " + err.Error(), stats
	}
	defer func() { db.Close() }()
	stats["tables_after_recover"] = len(leveldb.VerifDumpVersion(db))
	for i := 0; i < c.N; i++ {
		if err := db.Put(keyN(i), valN(i, 7, vsz), nil); err != nil {
			return "Put error " + err.Error(), stats
		}
	}
	if err := db.CompactRange(util.Range{}); err != nil {
		return "CompactRange error " + err.Error(), stats
	}
	if d := settle(db, stor); d != "" {
		return "after Recover, overwriting everything and CompactRange: " + d, stats
	}
	for i := 0; i < c.N; i += 7 {
		v, err := db.Get(keyN(i), nil)
		if err != nil || string(v) != string(valN(i, 7, vsz)) {
			return fmt.Sprintf("after Recover: Get(%s) = %q, %v", keyN(i), v, err), stats
		}
	}
	return "", stats
}

// ---- scenario: garbage in a crash image is swept at open ----

func runCrashSweep(c DBCase) (fail string, stats map[string]int) {
	stats = map[string]int{}
	r := vlib.NewRNG(c.Seed)
	stor := vstor.New(true)
	o := c.Cfg.Options()
	db, err := leveldb.Open(stor, o)
	if err != nil {
		return "Open error " + err.Error(), stats
	}
	vsz := c.Cfg.WriteBuffer / 5
	if vsz < 40 {
		vsz = 40
	}
	for i := 0; i < c.N; i++ {
		k := r.Intn(50)
		if r.Chance(1, 6) {
			db.Delete(keyN(k), nil)
		} else {
			db.Put(keyN(k), valN(k, i, vsz), &opt.WriteOptions{Sync: true})
		}
		if i%97 == 96 {
			db.CompactRange(util.Range{})
		}
	}
	leveldb.VerifWaitIdle(db, settleBound)
	db.Close()
	ops := stor.Ops()
	// crash points: right after a manifest record became durable (the window in which the flushed journal or the
	// compaction's input tables are obsolete but not yet removed), and a few random ones
	var points []int
	for i, op := range ops {
		if op.Kind == vstor.OpSync && op.Fd.Type == storage.TypeManifest && !op.Fail {
			points = append(points, i+1)
		}
		if op.Kind == vstor.OpCreate && op.Fd.Type == storage.TypeTable && r.Chance(1, 3) {
			points = append(points, i+1+r.Intn(4))
		}
	}
	for i := 0; i < 4; i++ {
		points = append(points, r.Intn(len(ops)+1))
	}
	for i := len(points) - 1; i > 0; i-- {
		j := r.Intn(i + 1)
		points[i], points[j] = points[j], points[i]
	}
	max := 10
	if len(points) < max {
		max = len(points)
	}
	for _, pt := range points[:max] {
		if pt > len(ops) {
			pt = len(ops)
		}
		img := vstor.ImageOf(ops[:pt], vstor.ImageOpts{Policy: vstor.TailKept})
		before := len(img.ListAll())
		db2, err := leveldb.Open(img, o)
		if err != nil {
			stats["image_open_errors"]++
			continue
		}
		stats["images_opened"]++
		d := settle(db2, img)
		if d == "" {
			if cs := counters(img); cs != "" {
				d = cs
			}
		}
		stats["files_in_images"] += before
		stats["files_after_sweep"] += len(img.ListAll())
		db2.Close()
		if d != "" {
			return fmt.Sprintf("crash image after storage operation %d (%s), opened and settled: %s", pt-1, ops[pt-1], d), stats
		}
	}
	return "", stats
}

// ---- candidate finding: stray .tmp files are never removed ----

// probeTemp reproduces: a crash inside Recover's table rebuild leaves a .tmp file; later Opens keep it.
func probeTemp(seed uint64) (desc string, survives bool) {
	stor := vstor.New(true)
	o := &opt.Options{WriteBuffer: 2048, BlockSize: 256, Compression: opt.NoCompression}
	db, err := leveldb.Open(stor, o)
	if err != nil {
		return "probe: open " + err.Error(), false
	}
	for i := 0; i < 200; i++ {
		db.Put(keyN(i), valN(i, 0, 60), nil)
	}
	db.CompactRange(util.Range{})
	db.Close()
	// damage one data block of one table so that Recover rebuilds it through a temp file
	var tfd storage.FileDesc
	for _, fd := range stor.ListAll() {
		if fd.Type == storage.TypeTable {
			tfd = fd
			break
		}
	}
	data, _, ok := stor.FileBytes(tfd)
	if !ok || len(data) < 600 {
		return "probe: no table to damage", false
	}
	for i := 300; i < 310; i++ {
		data[i] ^= 0xff
	}
	stor.SetFileBytes(tfd, data)
	n0 := stor.OpCount()
	db, err = leveldb.Recover(stor, o)
	if err != nil {
		return "probe: recover " + err.Error(), false
	}
	db.Close()
	ops := stor.Ops()
	crash := -1
	for i := n0; i < len(ops); i++ {
		if ops[i].Kind == vstor.OpCreate && ops[i].Fd.Type == storage.TypeTemp {
			crash = i + 2 // the temp file exists and has some bytes; the rename has not happened
			break
		}
	}
	if crash < 0 {
		return "probe: Recover did not rebuild through a temp file", false
	}
	img := vstor.ImageOf(ops[:crash], vstor.ImageOpts{Policy: vstor.TailKept})
	hasTmp := func() (storage.FileDesc, bool) {
		for _, fd := range img.ListAll() {
			if fd.Type == storage.TypeTemp {
				return fd, true
			}
		}
		return storage.FileDesc{}, false
	}
	tmp, ok := hasTmp()
	if !ok {
		return "probe: crash image holds no temp file", false
	}
	for round := 0; round < 2; round++ {
		db, err = leveldb.Open(img, o)
		if err != nil {
			return fmt.Sprintf("probe: open of the crash image: %v", err), false
		}
		db.Put([]byte("x"), []byte("y"), nil)
		db.CompactRange(util.Range{})
		db.Close()
	}
	if _, still := hasTmp(); still {
		return fmt.Sprintf("crash during Recover's table rebuild (image after storage op %d, %s) leaves %v; two Open/Close cycles later it is still on storage (checkAndCleanFiles keeps every TypeTemp file)", crash-1, ops[crash-1], tmp), true
	}
	return "temp file removed by a later open", false
}
