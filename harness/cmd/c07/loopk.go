package main

// (K)+(P) on the real session.refLoop: an event sequence is sent to a bare session's loop through the
// verif_export_refloop.go hooks; after every event the real fileRef map (read through the session's own
// fileRefCh, which also synchronises with the loop) and the Remove calls that reached the storage are
// compared with the model mirror, and the property predicates (safety / completeness / no panic) are
// evaluated directly on the implementation's observations.

import (
	"bytes"
	"encoding/json"
	"fmt"
	"os"
	"os/exec"
	"sort"
	"strings"
	"sync"
	"time"

	"github.com/syndtr/goleveldb/leveldb"
	"github.com/syndtr/goleveldb/leveldb/opt"
	"github.com/syndtr/goleveldb/leveldb/storage"
	"verifharness/lib/vstor"
)

// recStor records the Remove calls (in order) on top of the checker-owned storage.
type recStor struct {
	*vstor.Stor
	mu      sync.Mutex
	removes []storage.FileDesc
	errs    int // removes of files that do not exist
}

func (s *recStor) Remove(fd storage.FileDesc) error {
	err := s.Stor.Remove(fd)
	s.mu.Lock()
	s.removes = append(s.removes, fd)
	if err != nil {
		s.errs++
	}
	s.mu.Unlock()
	return err
}

func (s *recStor) take() []storage.FileDesc {
	s.mu.Lock()
	r := s.removes
	s.removes = nil
	s.mu.Unlock()
	return r
}

// StepObs is what the real loop showed after one event.
type StepObs struct {
	Removed []int64
	Ref     [][2]int64
	Q       int // fileRefCh requests made after the event (= processTasks runs after it)
}

// SeqCase is a replayable loop case.
type SeqCase struct {
	Kind   string  `json:"kind"` // "valid:<shape>" or "malformed:<what>"
	Events []Event `json:"events"`
}

// LoopOutcome of running a case on the implementation.
type LoopOutcome struct {
	Obs        []StepObs
	KMismatch  int    // index of the first event where mirror and implementation disagree (-1 none)
	KText      string // description of the disagreement
	PViolation string // property oracle failure ("" none)
	PIndex     int
	EnvOK      bool
	Quiescent  bool
	Stats      map[string]int
}

func allTables(evs []Event) []int64 {
	set := map[int64]bool{}
	for _, e := range evs {
		for _, f := range e.Files() {
			set[f] = true
		}
		for _, f := range e.Added {
			set[f] = true
		}
		for _, f := range e.Deleted {
			set[f] = true
		}
	}
	var out []int64
	for f := range set {
		out = append(out, f)
	}
	sort.Slice(out, func(i, j int) bool { return out[i] < out[j] })
	return out
}

func refEq(a map[int64]int, b map[int64]int64) bool {
	if len(a) != len(b) {
		return false
	}
	for f, c := range a {
		if b[f] != int64(c) {
			return false
		}
	}
	return true
}

func refOf(a map[int64]int) [][2]int64 {
	m := make(map[int64]int64, len(a))
	for f, c := range a {
		m[f] = int64(c)
	}
	return sortedRef(m)
}

func sendEvent(rl *leveldb.VerifRefLoop, i int, e Event) {
	if i == 0 {
		return // newSession sent Ref(0) itself
	}
	switch e.Kind {
	case EvRef:
		rl.Ref(e.Vid, e.Levels, e.Expired)
	case EvRel:
		rl.Rel(e.Vid, e.Levels)
	case EvDelta:
		rl.Delta(e.Vid, e.Added, e.Deleted)
	case EvAbandon:
		rl.Abandon(e.Vid)
	case EvTick:
	}
}

// RunLoopCase sends the events (the first one must be Ref(0, no tables): newSession sends it itself) to a real
// loop. It must only be called with sequences on which the mirror predicts no panic.
func RunLoopCase(evs []Event) (out LoopOutcome) {
	out.KMismatch = -1
	out.Stats = map[string]int{}
	stor := &recStor{Stor: vstor.New(false)}
	for _, f := range allTables(evs) {
		stor.SetFileBytes(storage.FileDesc{Type: storage.TypeTable, Num: f}, []byte{})
	}
	rl, err := leveldb.VerifNewRefLoopSession(stor, &opt.Options{})
	if err != nil {
		out.PViolation = "cannot create the session: " + err.Error()
		return
	}
	defer rl.Close()
	m := NewModel(int64(rl.MaxCachedNumber()))
	env := NewEnv()
	out.EnvOK = true
	removedAll := map[int64]int{}
	everAdded := map[int64]bool{}
	for i, e := range evs {
		if i == 0 {
			if e.Kind != EvRef || e.Vid != 0 || len(e.Files()) != 0 {
				out.PViolation = "harness: a case must start with Ref(0, no tables)"
				return
			}
		}
		// the model first: it says how many requests are needed to reach a state that further processTasks
		// runs do not change (and this function must not be called with a sequence on which it panics)
		mrm, q, pk, _ := m.StepQ(e)
		if pk != PanicNone {
			out.KMismatch, out.KText = i, fmt.Sprintf("harness: event %d %s makes the model panic (kind %d); such cases run in a child process", i, e, pk)
			return
		}
		sendEvent(rl, i, e)
		var real map[int64]int
		for k := 0; k < q; k++ {
			real = rl.FileRef() // served by the loop after it processed everything sent before: synchronises
		}
		var rm []int64
		for _, fd := range stor.take() {
			if fd.Type != storage.TypeTable {
				out.PViolation = fmt.Sprintf("the loop removed a non-table file %v", fd)
				out.PIndex = i
				return
			}
			rm = append(rm, fd.Num)
		}
		out.Obs = append(out.Obs, StepObs{Removed: rm, Ref: refOf(real), Q: q})
		if out.KMismatch < 0 && (!eqList(rm, mrm) || !refEq(real, m.fileRef)) {
			out.KMismatch = i
			out.KText = fmt.Sprintf("event %d %s: implementation removed %v fileRef %v; model removed %v fileRef %v", i, e, rm, refOf(real), mrm, sortedRef(m.fileRef))
		}
		// ---- property oracle on the implementation's own observations ----
		if out.EnvOK && !env.Step(e) {
			out.EnvOK = false
		}
		if out.EnvOK && out.PViolation == "" {
			for _, f := range e.Added {
				everAdded[f] = true
			}
			live := env.LiveFiles()
			for _, f := range rm {
				removedAll[f]++
				if live[f] {
					out.PViolation = fmt.Sprintf("event %d %s: table %d removed while a referenced, unreleased version holds it", i, e, f)
					out.PIndex = i
				} else if removedAll[f] > 1 {
					out.PViolation = fmt.Sprintf("event %d %s: table %d removed twice", i, e, f)
					out.PIndex = i
				} else if !everAdded[f] {
					out.PViolation = fmt.Sprintf("event %d %s: table %d removed but never added", i, e, f)
					out.PIndex = i
				}
			}
			if out.PViolation == "" && env.Quiescent() {
				// completeness: removed = added minus the current version's tables, and fileRef = current tables once each
				cur := toSet(env.CurFiles())
				for f := range everAdded {
					if !cur[f] && removedAll[f] != 1 {
						out.PViolation = fmt.Sprintf("event %d %s: all versions but the current one are released, yet table %d (added, not in the current version) was not removed", i, e, f)
						out.PIndex = i
						break
					}
				}
				late := toSet(env.CurLate())
				for f := range cur {
					if real[f] < 1 && !late[f] {
						out.PViolation = fmt.Sprintf("event %d %s: quiescent, table %d of the current version has reference count %d", i, e, f, real[f])
						out.PIndex = i
					}
				}
				for f := range real {
					if !cur[f] {
						out.PViolation = fmt.Sprintf("event %d %s: quiescent, table %d is still counted (%d) though no version holds it", i, e, f, real[f])
						out.PIndex = i
					}
				}
			}
		}
	}
	out.Quiescent = out.EnvOK && env.Quiescent()
	out.Stats["conversions"] = m.Conversions
	out.Stats["forced_conversions"] = m.ForcedConversions
	out.Stats["late_deltas"] = m.LateDeltas
	out.Stats["abandon_skips"] = m.AbandonSkips
	out.Stats["remove_errors"] = stor.errs
	return
}

// PredictPanic runs the mirror alone; it returns the index of the first event on which the model panics (-1
// none) and the kind.
func PredictPanic(evs []Event, maxCached int64) (at int, pk int, inTick bool) {
	m := NewModel(maxCached)
	for i, e := range evs {
		if _, _, k, tick := m.StepQ(e); k != PanicNone {
			return i, k, tick
		}
	}
	return -1, PanicNone, false
}

// ---- Coq rendering ----

func coqNList(l []int64) string {
	var sb strings.Builder
	sb.WriteByte('[')
	for i, x := range l {
		if i > 0 {
			sb.WriteByte(';')
		}
		fmt.Fprintf(&sb, "%d", x)
	}
	sb.WriteByte(']')
	return sb.String()
}

func coqEvent(e Event) string {
	switch e.Kind {
	case EvRef:
		return fmt.Sprintf("ERef %d %s", e.Vid, coqNList(e.Files()))
	case EvRel:
		return fmt.Sprintf("ERel %d %s", e.Vid, coqNList(e.Files()))
	case EvDelta:
		return fmt.Sprintf("EDelta %d %s %s", e.Vid, coqNList(e.Added), coqNList(e.Deleted))
	case EvAbandon:
		return fmt.Sprintf("EAbandon %d", e.Vid)
	}
	return "ETick"
}

// coqGroup: the events the loop consumed up to an observation: the event itself, then one tick per fileRefCh
// request (the last of them runs after the request was answered and changes nothing).
func coqGroup(evs []Event, i int, q int) string {
	var items []string
	if evs[i].Kind != EvTick {
		items = append(items, coqEvent(evs[i]))
	}
	for k := 0; k < q; k++ {
		items = append(items, "ETick")
	}
	return "[" + strings.Join(items, "; ") + "]"
}

func coqObs(ref [][2]int64, full bool) string {
	if full {
		var sb strings.Builder
		sb.WriteString("OFull [")
		for i, p := range ref {
			if i > 0 {
				sb.WriteByte(';')
			}
			fmt.Fprintf(&sb, "(%d,%d)", p[0], p[1])
		}
		sb.WriteString("]")
		return sb.String()
	}
	var s, w int64
	for _, p := range ref {
		s += p[1]
		w += p[0] * p[1]
	}
	return fmt.Sprintf("OSum %d %d %d", len(ref), s, w)
}

func expiredOf(evs []Event) []int64 {
	var out []int64
	for _, e := range evs {
		if e.Kind == EvRef && e.Expired {
			out = append(out, e.Vid)
		}
	}
	return out
}

func coqSteps(evs []Event, obs []StepObs) string {
	var sb strings.Builder
	sb.WriteByte('[')
	for i := range obs {
		if i > 0 {
			sb.WriteString(";\n  ")
		}
		full := i%16 == 15 || i == len(obs)-1 || len(obs[i].Ref) <= 3
		fmt.Fprintf(&sb, "(%s, %s, %s)", coqGroup(evs, i, obs[i].Q), coqNList(obs[i].Removed), coqObs(obs[i].Ref, full))
	}
	sb.WriteByte(']')
	return sb.String()
}

// CoqSeqCase renders KSeq envok exp steps.
func CoqSeqCase(evs []Event, o LoopOutcome) string {
	return fmt.Sprintf("KSeq %v %s\n  %s", o.EnvOK, coqNList(expiredOf(evs)), coqSteps(evs, o.Obs))
}

// ---- panic cases: the real loop runs in a child process ----

type panicCase struct {
	Events []Event `json:"events"`
	Q      []int   `json:"q"` // requests after each event but the last (from the model)
}

// childMain is entered with --extra panicchild=<file>: sends the events, printing "AT i" before each.
func childMain(path string) {
	b, err := os.ReadFile(path)
	if err != nil {
		fmt.Println("child: cannot read", err)
		os.Exit(3)
	}
	var pc panicCase
	if err := json.Unmarshal(b, &pc); err != nil {
		fmt.Println("child: bad case", err)
		os.Exit(3)
	}
	stor := &recStor{Stor: vstor.New(false)}
	for _, f := range allTables(pc.Events) {
		stor.SetFileBytes(storage.FileDesc{Type: storage.TypeTable, Num: f}, []byte{})
	}
	rl, err := leveldb.VerifNewRefLoopSession(stor, &opt.Options{})
	if err != nil {
		fmt.Println("child: session", err)
		os.Exit(3)
	}
	for i, e := range pc.Events {
		fmt.Printf("AT %d\n", i)
		sendEvent(rl, i, e)
		q := 1
		if i < len(pc.Q) {
			q = pc.Q[i]
		}
		var ref map[int64]int
		for k := 0; k < q; k++ {
			ref = rl.FileRef()
		}
		var rm []int64
		for _, fd := range stor.take() {
			rm = append(rm, fd.Num)
		}
		ob, _ := json.Marshal(StepObs{Removed: rm, Ref: refOf(ref), Q: q})
		fmt.Printf("OBS %s\n", ob)
	}
	fmt.Println("DONE")
	rl.Close()
	os.Exit(0)
}

// RunPanicCase runs a sequence on which the mirror predicts a panic at index at (kind pk) in a child process
// and checks that the real loop panics exactly there with the corresponding message. It returns the
// observations of the events before the panic and a description of a disagreement ("" if none).
func RunPanicCase(dir string, idx int, evs []Event, at int, pk int) ([]StepObs, string) {
	path := fmt.Sprintf("%s/panic_case_%d.json", dir, idx)
	pcase := panicCase{Events: evs[:at+1]}
	pm := NewModel(256)
	for _, e := range evs[:at] {
		_, q, _, _ := pm.StepQ(e)
		pcase.Q = append(pcase.Q, q)
	}
	b, _ := json.Marshal(pcase)
	os.WriteFile(path, b, 0o644)
	defer os.Remove(path)
	cmd := exec.Command(os.Args[0], "--out", dir, "--extra", "panicchild="+path)
	var buf bytes.Buffer
	cmd.Stdout, cmd.Stderr = &buf, &buf
	done := make(chan error, 1)
	if err := cmd.Start(); err != nil {
		return nil, "cannot start the child process: " + err.Error()
	}
	go func() { done <- cmd.Wait() }()
	select {
	case <-done:
	case <-time.After(60 * time.Second):
		cmd.Process.Kill()
		return nil, "child process hung"
	}
	outS := buf.String()
	var obs []StepObs
	lastAt := -1
	for _, line := range strings.Split(outS, "\n") {
		if strings.HasPrefix(line, "AT ") {
			fmt.Sscanf(line, "AT %d", &lastAt)
		} else if strings.HasPrefix(line, "OBS ") {
			var so StepObs
			if json.Unmarshal([]byte(line[4:]), &so) == nil {
				obs = append(obs, so)
			}
		}
	}
	want := map[int]string{PanicNegative: "negative ref", PanicDuplicate: "duplicate reference request", PanicInvalidRel: "invalid release request"}[pk]
	tail := outS
	if len(tail) > 600 {
		tail = tail[:600]
	}
	if strings.Contains(outS, "DONE") {
		return obs, fmt.Sprintf("the model panics (%s) on event %d %s, the implementation processed it", want, at, evs[at])
	}
	if lastAt != at || len(obs) != at {
		return obs, fmt.Sprintf("the model panics on event %d, the implementation stopped at event %d: %s", at, lastAt, tail)
	}
	if !strings.Contains(outS, "panic: "+want) {
		return obs, fmt.Sprintf("the model panics with %q on event %d, the implementation said: %s", want, at, tail)
	}
	return obs, ""
}

// CoqPanicCase renders KPanic exp steps last kind.
func CoqPanicCase(evs []Event, obs []StepObs, at int, pk int) string {
	return fmt.Sprintf("KPanic %s\n  %s\n  (%s) %d", coqNList(expiredOf(evs[:at+1])), coqSteps(evs, obs), coqEvent(evs[at]), pk)
}
