package main

// The protocol env_ok is what the theorems assume of the version layer. Here the REAL version layer
// (newSession, create/recover, commit incl. failed commits, version/release, close; its reference loop stopped
// and replaced by a recorder, see verif_export_refloop.go) is driven with random histories and every event
// sequence it sends must be accepted by the protocol checker (Go mirror of env_step; a sample is re-checked by
// the Coq definition env_ok itself).

import (
	"fmt"

	"github.com/syndtr/goleveldb/leveldb"
	"github.com/syndtr/goleveldb/leveldb/opt"
	"github.com/syndtr/goleveldb/leveldb/storage"
	"verifharness/lib/vlib"
	"verifharness/lib/vstor"
)

// VLOp is one step of a version-layer history.
type VLOp struct {
	Kind string `json:"k"` // commit | fail | failsw | acquire | release | reopen
	Add  int    `json:"a,omitempty"`
	Del  int    `json:"d,omitempty"`
	Move int    `json:"m,omitempty"`
	I    int    `json:"i,omitempty"`
	Wr   bool   `json:"w,omitempty"` // fail: fault on manifest Write instead of Sync
	Triv bool   `json:"t,omitempty"` // commit with trivial = true (what table compactions pass to session.commit)
}

// VLCase is a replayable version-layer case.
type VLCase struct {
	Seed       uint64 `json:"seed"`
	MaxMan     int64  `json:"maxman"`
	NoSyncFlag bool   `json:"nosync"`
	Ops        []VLOp `json:"ops"`
	// Probe: do not keep to the discipline of the first commit after a recovery (directed cases that leave the
	// discipline on purpose; the protocol check is then not applied, only model = implementation)
	Probe bool `json:"probe,omitempty"`
}

func genVLCase(r *vlib.RNG, n int) VLCase {
	c := VLCase{Seed: r.Uint64(), MaxMan: int64([]int{0, 0, 1, 512}[r.Intn(4)])}
	for i := 0; i < n; i++ {
		switch r.Pick(10, 2, 6, 6, 1, 1) {
		case 5:
			c.Ops = append(c.Ops, VLOp{Kind: "failsw", Add: r.Range(0, 2), Del: r.Range(0, 2), Triv: r.Bool()})
		case 0:
			op := VLOp{Kind: "commit", Triv: r.Chance(2, 5)}
			switch r.Pick(4, 5, 1, 1) {
			case 0:
				op.Add = 1
			case 1:
				op.Del, op.Add = r.Range(1, 4), r.Range(0, 3)
			case 2:
				op.Move = 1
			case 3:
			}
			c.Ops = append(c.Ops, op)
		case 1:
			c.Ops = append(c.Ops, VLOp{Kind: "fail", Add: r.Range(0, 2), Del: r.Range(0, 2), Wr: r.Chance(1, 5)})
		case 2:
			c.Ops = append(c.Ops, VLOp{Kind: "acquire"})
		case 3:
			c.Ops = append(c.Ops, VLOp{Kind: "release", I: r.Intn(64)})
		case 4:
			c.Ops = append(c.Ops, VLOp{Kind: "reopen"})
		}
	}
	return c
}

func vlEvent(e leveldb.VerifVLEvent) Event {
	switch e.Kind {
	case 0:
		return Event{Kind: EvRef, Vid: e.Vid, Levels: e.Levels}
	case 1:
		return Event{Kind: EvRel, Vid: e.Vid, Levels: e.Levels}
	case 2:
		return Event{Kind: EvDelta, Vid: e.Vid, Added: e.Added, Deleted: e.Deleted}
	}
	return Event{Kind: EvAbandon, Vid: e.Vid}
}

// tblOf reads the model's view of a table of the real version: the bounds are the numbers in its user keys.
func tblOf(t leveldb.VerifTable) VTbl {
	num := func(ik []byte) int64 {
		var n int64
		if len(ik) >= 8+9 {
			fmt.Sscanf(string(ik[1:9]), "%d", &n)
		}
		return n
	}
	return VTbl{Num: t.Num, Min: num(t.Imin), Max: num(t.Imax)}
}

// runVLCase returns a failure text ("" none), the sessions of the history (each up to its close: how it was
// opened, the operations, the events the real layer sent) and stats.
func runVLCase(c VLCase) (fail string, sessions []VLSession, stats map[string]int) {
	stats = map[string]int{}
	r := vlib.NewRNG(c.Seed)
	stor := vstor.New(false)
	o := &opt.Options{MaxManifestFileSize: c.MaxMan, NoSync: c.NoSyncFlag}
	nextNum := int64(10)
	var cur VLSession // the session being driven
	var model *VLModel
	var modelEvs []Event
	// check compares what the real layer sent so far with the protocol env_ok and with the model of the version layer
	check0 := func(vl *leveldb.VerifVersionLayer, upto int, what string, final bool) (string, []Event) {
		env := NewEnv()
		log := vl.Log()
		var closing []leveldb.VerifVLEvent
		if final {
			// the log is complete now (Close waited for the recorder); what follows the model's events is what
			// session.close sends: the closing version's reference and the release of the current version
			if len(log) > len(modelEvs) {
				closing, log = log[len(modelEvs):], log[:len(modelEvs)]
			}
		} else if upto >= 0 && upto < len(log) {
			log = log[:upto]
		}
		var evs []Event
		for i, e := range log {
			ev := vlEvent(e)
			evs = append(evs, ev)
			if model.Disc && !env.Step(ev) {
				for _, e2 := range log[i+1:] {
					evs = append(evs, vlEvent(e2))
				}
				return fmt.Sprintf("%s: the version layer sent event %d %s, which the protocol env_ok does not allow after %v", what, i, ev, tailEvents(evs[:i+1], 6)), evs
			}
		}
		for i := 0; i < len(evs) || i < len(modelEvs); i++ {
			if i >= len(evs) {
				if !final {
					break // the recorder may lag by an event
				}
				return fmt.Sprintf("%s: the model of the version layer sends event %d %s, the real layer sent nothing more (after %v)", what, i, modelEvs[i], tailEvents(modelEvs[:i+1], 6)), evs
			}
			if i >= len(modelEvs) {
				return fmt.Sprintf("%s: the real version layer sent event %d %s, the model sends nothing more (after %v)", what, i, evs[i], tailEvents(evs[:i+1], 6)), evs
			}
			if !eventsEqual(evs[i], modelEvs[i]) {
				return fmt.Sprintf("%s: event %d of the real version layer is %s, the model of the version layer says %s (after %v)", what, i, evs[i], modelEvs[i], tailEvents(evs[:i+1], 6)), evs
			}
		}
		if final {
			want := []Event{{Kind: EvRef, Vid: model.nvid}, evRel(model.cur)}
			if len(closing) != len(want) {
				return fmt.Sprintf("%s: session.close sent %d events, expected the closing version's reference and the release of version %d", what, len(closing), model.cur.id), evs
			}
			for i := range want {
				if ev := vlEvent(closing[i]); !eventsEqual(ev, want[i]) {
					return fmt.Sprintf("%s: session.close sent %s, expected %s", what, ev, want[i]), evs
				}
			}
		}
		return "", evs
	}
	// a session is handed on (to the KVL cases) when it ends, and also when something is wrong with it, so that
	// the Coq model judges the same observation
	check := func(vl *leveldb.VerifVersionLayer, upto int, what string, final bool) string {
		d, evs := check0(vl, upto, what, final)
		if final || d != "" {
			cur.Events = evs
			cur.Disc = model.Disc
			sessions = append(sessions, cur)
		}
		return d
	}
	vl, err := leveldb.VerifNewVersionLayer(stor, o)
	if err != nil {
		return "cannot open the session: " + err.Error(), sessions, stats
	}
	defer func() {
		if vl != nil {
			vl.Close()
		}
	}()
	cur = VLSession{}
	model, modelEvs = NewVLModel(false, nil)
	// apply runs one operation on the model and compares the model's state facts with the real session's
	apply := func(op VMOp, what string) string {
		cur.Ops = append(cur.Ops, op)
		evs, pmsg := model.Step(op)
		if pmsg != "" {
			return fmt.Sprintf("%s: the model of the version layer panics (%s), the real layer did not", what, pmsg)
		}
		modelEvs = append(modelEvs, evs...)
		if model.manifest != vl.HasManifest() {
			return fmt.Sprintf("%s: the session has a manifest writer = %v, the model says %v", what, vl.HasManifest(), model.manifest)
		}
		if model.nvid != vl.NextVersionID() {
			return fmt.Sprintf("%s: the session's next version id is %d, the model says %d", what, vl.NextVersionID(), model.nvid)
		}
		return ""
	}
	mkTable := func(level int, num int64) (leveldb.VerifTable, VTbl) {
		t := VTbl{Num: num, Min: int64(r.Intn(60))}
		t.Max = t.Min + int64(r.Intn(6))
		imin, _ := leveldb.VerifMakeIKey([]byte(fmt.Sprintf("k%08d", t.Min)), 1, 1)
		imax, _ := leveldb.VerifMakeIKey([]byte(fmt.Sprintf("k%08d", t.Max)), 1, 1)
		return leveldb.VerifTable{Level: level, Num: num, Size: 100 + num, Imin: imin, Imax: imax}, t
	}
	buildRec := func(op VLOp) (added, deleted []leveldb.VerifTable, rec VRec) {
		_, cur := vl.Current()
		perm := make([]int, len(cur))
		for i := range perm {
			perm[i] = i
		}
		for i := len(perm) - 1; i > 0; i-- {
			j := r.Intn(i + 1)
			perm[i], perm[j] = perm[j], perm[i]
		}
		k := 0
		for ; k < op.Del && k < len(cur); k++ {
			t := cur[perm[k]]
			deleted = append(deleted, leveldb.VerifTable{Level: t.Level, Num: t.Num})
			rec.Deleted = append(rec.Deleted, VDel{Level: t.Level, Num: t.Num})
		}
		for m := 0; m < op.Move && k < len(cur); m, k = m+1, k+1 {
			t := cur[perm[k]]
			deleted = append(deleted, leveldb.VerifTable{Level: t.Level, Num: t.Num})
			rec.Deleted = append(rec.Deleted, VDel{Level: t.Level, Num: t.Num})
			nt := t
			nt.Level = t.Level + 1
			added = append(added, nt)
			rec.Added = append(rec.Added, VAdd{Level: nt.Level, T: tblOf(t)})
		}
		for i := 0; i < op.Add; i++ {
			nextNum += int64(1 + r.Intn(3))
			vt, mt := mkTable(r.Intn(4), nextNum)
			added = append(added, vt)
			rec.Added = append(rec.Added, VAdd{Level: vt.Level, T: mt})
		}
		return
	}
	// the first commit after a session was recovered is openDB's recoverJournal commit: it only adds tables (the
	// recovered tables are not yet counted by the loop; a record deleting one of them there would make the
	// loop panic with a negative count - db.go never does that), and if it fails Open fails: no "failed but
	// switched" outcome is continued from
	firstAfterRecover := false
	for i, op := range c.Ops {
		what := fmt.Sprintf("op %d (%s)", i, op.Kind)
		if firstAfterRecover && !c.Probe && (op.Kind == "commit" || op.Kind == "fail" || op.Kind == "failsw") {
			op.Del, op.Move = 0, 0
			if op.Kind == "failsw" {
				op.Kind = "fail"
			}
		}
		d := ""
		switch op.Kind {
		case "commit":
			a, dl, rec := buildRec(op)
			oc := OcOk
			if err := vl.CommitT(a, dl, op.Triv); err != nil {
				stats["unexpected_commit_errors"]++
				oc = OcFail
			} else {
				stats["commits"]++
				if op.Triv {
					stats["trivial_flag_commits"]++
				}
				firstAfterRecover = false
			}
			d = apply(VMOp{Kind: VCommit, Rec: rec, Trivial: op.Triv, Oc: oc}, what)
		case "fail", "failsw":
			a, dl, rec := buildRec(op)
			kind := vstor.OpSync
			if op.Wr || c.NoSyncFlag {
				kind = vstor.OpWrite
			}
			if op.Kind == "failsw" {
				kind = vstor.OpRemove
			}
			stor.AddFault(&vstor.Fault{Kind: kind, Type: storage.TypeManifest, K: 0})
			err := vl.CommitT(a, dl, op.Triv)
			stor.Heal()
			oc := OcOk
			if err != nil {
				if op.Kind == "failsw" {
					oc = OcFailSwitched
					stats["failed_switched_commits"]++
				} else {
					oc = OcFail
					stats["failed_commits"]++
				}
			} else {
				stats["fault_missed"]++
				firstAfterRecover = false
			}
			d = apply(VMOp{Kind: VCommit, Rec: rec, Trivial: op.Triv, Oc: oc}, what)
		case "acquire":
			vl.Acquire()
			stats["acquires"]++
			d = apply(VMOp{Kind: VAcquire}, what)
		case "release":
			if vl.NumHeld() > 0 {
				k := op.I % vl.NumHeld()
				id := vl.HeldID(k)
				vl.Release(k)
				d = apply(VMOp{Kind: VRelease, V: id}, what)
			}
		case "reopen":
			for vl.NumHeld() > 0 { // what Close does first; made explicit so that the model sees the releases
				id := vl.HeldID(0)
				vl.Release(0)
				if d = apply(VMOp{Kind: VRelease, V: id}, what); d != "" {
					return d, sessions, stats
				}
			}
			n := vl.Close()
			if d := check(vl, n, fmt.Sprintf("session closed at op %d", i), true); d != "" {
				vl = nil
				return d, sessions, stats
			}
			stats["sessions"]++
			vl, err = leveldb.VerifNewVersionLayer(stor, o)
			if err != nil {
				vl = nil
				stats["reopen_errors"]++
				return "", sessions, stats // a damaged manifest after failed commits is not this property's business
			}
			firstAfterRecover = true
			stats["reopens"]++
			// recover's input is the manifest; what it describes is summarised as one record listing the recovered
			// version (finish(false) orders every level canonically, so the summary yields the same version)
			_, tabs := vl.Current()
			var rec VRec
			for _, t := range tabs {
				rec.Added = append(rec.Added, VAdd{Level: t.Level, T: tblOf(t)})
			}
			cur = VLSession{Recover: true, Recs: []VRec{rec}}
			model, modelEvs = NewVLModel(true, cur.Recs)
			if len(tabs) > 0 {
				stats["recovered_with_tables"]++
			}
		}
		if d != "" {
			if d2 := check(vl, -1, what, false); d2 == "" { // hand the session on as observed so far
				cur.Events = nil
				for _, e := range vl.Log() {
					cur.Events = append(cur.Events, vlEvent(e))
				}
				cur.Disc = model.Disc
				sessions = append(sessions, cur)
			}
			return d, sessions, stats
		}
		if i%16 == 15 {
			if d := check(vl, -1, fmt.Sprintf("after op %d", i), false); d != "" {
				return d, sessions, stats
			}
		}
	}
	for vl.NumHeld() > 0 {
		id := vl.HeldID(0)
		vl.Release(0)
		if d := apply(VMOp{Kind: VRelease, V: id}, "final releases"); d != "" {
			return d, sessions, stats
		}
	}
	n := vl.Close()
	d := check(vl, n, "at the end", true)
	vl = nil
	stats["sessions"]++
	return d, sessions, stats
}

func tailEvents(evs []Event, n int) []string {
	if len(evs) > 0 {
		evs = evs[:len(evs)-1]
	}
	if len(evs) > n {
		evs = evs[len(evs)-n:]
	}
	var out []string
	for _, e := range evs {
		out = append(out, e.String())
	}
	return out
}

// CoqProtoCase renders KProto evs.
func CoqProtoCase(evs []Event) string {
	s := "KProto ["
	for i, e := range evs {
		if i > 0 {
			s += "; "
		}
		s += coqEvent(e)
	}
	return s + "]"
}
