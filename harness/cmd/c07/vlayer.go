package main

// The protocol env_ok is what the theorems assume of the version layer. Here the REAL version layer
// (newSession, create/recover, commit incl. failed commits, version/release, close; its reference loop stopped
// and replaced by a recorder, see verif_export_refloop.go) is driven with random histories and every event
// sequence it sends must be accepted by the protocol checker (Go mirror of env_step; a sample is re-checked by
// the Coq definition env_ok itself).

import (
	"fmt"

	"github.com/syndtr/goleveldb/leveldb"
	"github.com/syndtr/goleveldb/leveldb/opt"
	"github.com/syndtr/goleveldb/leveldb/storage"
	"verifharness/lib/vlib"
	"verifharness/lib/vstor"
)

// VLOp is one step of a version-layer history.
type VLOp struct {
	Kind string `json:"k"` // commit | fail | acquire | release | reopen
	Add  int    `json:"a,omitempty"`
	Del  int    `json:"d,omitempty"`
	Move int    `json:"m,omitempty"`
	I    int    `json:"i,omitempty"`
	Wr   bool   `json:"w,omitempty"` // fail: fault on manifest Write instead of Sync
}

// VLCase is a replayable version-layer case.
type VLCase struct {
	Seed       uint64 `json:"seed"`
	MaxMan     int64  `json:"maxman"`
	NoSyncFlag bool   `json:"nosync"`
	Ops        []VLOp `json:"ops"`
}

func genVLCase(r *vlib.RNG, n int) VLCase {
	c := VLCase{Seed: r.Uint64(), MaxMan: int64([]int{0, 0, 1, 512}[r.Intn(4)])}
	for i := 0; i < n; i++ {
		switch r.Pick(10, 2, 6, 6, 1) {
		case 0:
			op := VLOp{Kind: "commit"}
			switch r.Pick(4, 5, 1, 1) {
			case 0:
				op.Add = 1
			case 1:
				op.Del, op.Add = r.Range(1, 4), r.Range(0, 3)
			case 2:
				op.Move = 1
			case 3:
			}
			c.Ops = append(c.Ops, op)
		case 1:
			c.Ops = append(c.Ops, VLOp{Kind: "fail", Add: r.Range(0, 2), Del: r.Range(0, 2), Wr: r.Chance(1, 5)})
		case 2:
			c.Ops = append(c.Ops, VLOp{Kind: "acquire"})
		case 3:
			c.Ops = append(c.Ops, VLOp{Kind: "release", I: r.Intn(64)})
		case 4:
			c.Ops = append(c.Ops, VLOp{Kind: "reopen"})
		}
	}
	return c
}

func vlEvent(e leveldb.VerifVLEvent) Event {
	switch e.Kind {
	case 0:
		return Event{Kind: EvRef, Vid: e.Vid, Levels: e.Levels}
	case 1:
		return Event{Kind: EvRel, Vid: e.Vid, Levels: e.Levels}
	case 2:
		return Event{Kind: EvDelta, Vid: e.Vid, Added: e.Added, Deleted: e.Deleted}
	}
	return Event{Kind: EvAbandon, Vid: e.Vid}
}

// runVLCase returns a failure text ("" none), the event logs of the sessions (each up to its close) and stats.
func runVLCase(c VLCase) (fail string, logs [][]Event, stats map[string]int) {
	stats = map[string]int{}
	r := vlib.NewRNG(c.Seed)
	stor := vstor.New(false)
	o := &opt.Options{MaxManifestFileSize: c.MaxMan, NoSync: c.NoSyncFlag}
	nextNum := int64(10)
	check := func(vl *leveldb.VerifVersionLayer, upto int, what string) string {
		env := NewEnv()
		log := vl.Log()
		if upto >= 0 && upto < len(log) {
			log = log[:upto]
		}
		var evs []Event
		for i, e := range log {
			ev := vlEvent(e)
			evs = append(evs, ev)
			if !env.Step(ev) {
				return fmt.Sprintf("%s: the version layer sent event %d %s, which the protocol env_ok does not allow after %v", what, i, ev, tailEvents(evs, 6))
			}
		}
		logs = append(logs, evs)
		return ""
	}
	vl, err := leveldb.VerifNewVersionLayer(stor, o)
	if err != nil {
		return "cannot open the session: " + err.Error(), logs, stats
	}
	defer func() {
		if vl != nil {
			vl.Close()
		}
	}()
	mkTable := func(level int, num int64) leveldb.VerifTable {
		k := []byte(fmt.Sprintf("k%08d", num))
		imin, _ := leveldb.VerifMakeIKey(k, uint64(num), 1)
		imax, _ := leveldb.VerifMakeIKey(append(k, 'z'), uint64(num), 1)
		return leveldb.VerifTable{Level: level, Num: num, Size: 100 + num, Imin: imin, Imax: imax}
	}
	buildRec := func(op VLOp) (added, deleted []leveldb.VerifTable) {
		_, cur := vl.Current()
		perm := make([]int, len(cur))
		for i := range perm {
			perm[i] = i
		}
		for i := len(perm) - 1; i > 0; i-- {
			j := r.Intn(i + 1)
			perm[i], perm[j] = perm[j], perm[i]
		}
		k := 0
		for ; k < op.Del && k < len(cur); k++ {
			t := cur[perm[k]]
			deleted = append(deleted, leveldb.VerifTable{Level: t.Level, Num: t.Num})
		}
		for m := 0; m < op.Move && k < len(cur); m, k = m+1, k+1 {
			t := cur[perm[k]]
			deleted = append(deleted, leveldb.VerifTable{Level: t.Level, Num: t.Num})
			nt := t
			nt.Level = t.Level + 1
			added = append(added, nt)
		}
		for i := 0; i < op.Add; i++ {
			nextNum += int64(1 + r.Intn(3))
			added = append(added, mkTable(r.Intn(4), nextNum))
		}
		return
	}
	// the first commit after a session was recovered is openDB's recoverJournal commit: it only adds tables (the
	// recovered tables are not yet counted by the loop; a record deleting one of them there would make the
	// loop panic with a negative count - db.go never does that)
	firstAfterRecover := false
	for i, op := range c.Ops {
		if firstAfterRecover && (op.Kind == "commit" || op.Kind == "fail") {
			op.Del, op.Move = 0, 0
		}
		switch op.Kind {
		case "commit":
			a, d := buildRec(op)
			if err := vl.Commit(a, d); err != nil {
				stats["unexpected_commit_errors"]++
			} else {
				stats["commits"]++
				firstAfterRecover = false
			}
		case "fail":
			a, d := buildRec(op)
			kind := vstor.OpSync
			if op.Wr || c.NoSyncFlag {
				kind = vstor.OpWrite
			}
			stor.AddFault(&vstor.Fault{Kind: kind, Type: storage.TypeManifest, K: 0})
			err := vl.Commit(a, d)
			stor.Heal()
			if err != nil {
				stats["failed_commits"]++
			} else {
				stats["fault_missed"]++
				firstAfterRecover = false
			}
		case "acquire":
			vl.Acquire()
			stats["acquires"]++
		case "release":
			if vl.NumHeld() > 0 {
				vl.Release(op.I % vl.NumHeld())
			}
		case "reopen":
			n := vl.Close()
			if d := check(vl, n, fmt.Sprintf("session closed at op %d", i)); d != "" {
				vl = nil
				return d, logs, stats
			}
			stats["sessions"]++
			vl, err = leveldb.VerifNewVersionLayer(stor, o)
			if err != nil {
				vl = nil
				stats["reopen_errors"]++
				return "", logs, stats // a damaged manifest after failed commits is not this property's business
			}
			firstAfterRecover = true
			stats["reopens"]++
		}
		if i%16 == 15 {
			if d := check(vl, -1, fmt.Sprintf("after op %d", i)); d != "" {
				return d, logs, stats
			}
			logs = logs[:len(logs)-1]
		}
	}
	n := vl.Close()
	d := check(vl, n, "at the end")
	vl = nil
	stats["sessions"]++
	return d, logs, stats
}

func tailEvents(evs []Event, n int) []string {
	if len(evs) > 0 {
		evs = evs[:len(evs)-1]
	}
	if len(evs) > n {
		evs = evs[len(evs)-n:]
	}
	var out []string
	for _, e := range evs {
		out = append(out, e.String())
	}
	return out
}

// CoqProtoCase renders KProto evs.
func CoqProtoCase(evs []Event) string {
	s := "KProto ["
	for i, e := range evs {
		if i > 0 {
			s += "; "
		}
		s += coqEvent(e)
	}
	return s + "]"
}
