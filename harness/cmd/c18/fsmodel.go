package main

// The file storage itself (leveldb/storage/file_storage.go) against the Coq model Store/FileStorage.v.
//
// (K) case kinds (Corr/C18Run.v):
//   KGen / KParse  fsGenName / fsGenOldName / fsParseName through the verif export, on generated descriptors
//                  and on adversarial names;
//   KDir           a real temporary directory is built for a generated state (CURRENT / CURRENT.bak /
//                  CURRENT.<n> with valid, stale, garbage, empty contents; manifests present or absent; LOCK and
//                  LOG present or not, LOG above the rotation threshold), the REAL OpenFile(dir, ro) + GetMeta
//                  run on it, and the result class, the descriptor and the directory afterwards are recorded;
//   KOps           the mutating system calls of the real SetMeta / read-write GetMeta observed with strace;
//   KCrash         every model-predicted state between two file-system operations of setMeta, with a subset
//                  of the unsynced effects lost, is built by hand and given to the real GetMeta;
//   KLife          OpenFile / Lock / Unlock / Close / guarded methods: error classes.
// (P) on the implementation, same runs: a read-only GetMeta leaves every file as it found it (only a missing
// LOCK file may appear); a second read-write GetMeta returns the same descriptor and changes nothing; every
// crash state of a manifest switch M0 -> M1 yields M0 or M1, never an error or a third value.

import (
	"bufio"
	"bytes"
	"encoding/hex"
	"encoding/json"
	"errors"
	"fmt"
	"os"
	"os/exec"
	"path/filepath"
	"regexp"
	"runtime"
	"sort"
	"strconv"
	"strings"
	"sync"
	"syscall"
	"time"

	"github.com/syndtr/goleveldb/leveldb"
	"github.com/syndtr/goleveldb/leveldb/opt"
	"github.com/syndtr/goleveldb/leveldb/storage"
	"github.com/syndtr/goleveldb/leveldb/util"
	"verifharness/lib/vlib"
)

const logThreshold = 1024 * 1024

type dirEnt struct {
	Name string `json:"name"`
	Data string `json:"data"` // hex
}

func coqZ(n int64) string { return fmt.Sprintf("(%d)%%Z", n) }

func coqDir(l []dirEnt) string {
	items := make([]string, len(l))
	for i, e := range l {
		items[i] = fmt.Sprintf("(\"%s\", \"%s\")", hex.EncodeToString([]byte(e.Name)), e.Data)
	}
	return "[" + strings.Join(items, "; ") + "]"
}

// writeDir creates dir holding exactly l ("B"/"S" contents of LOG and LOG.old become real sizes).
func writeDir(dir string, l []dirEnt) error {
	if err := os.MkdirAll(dir, 0o755); err != nil {
		return err
	}
	for _, e := range l {
		b, _ := hex.DecodeString(e.Data)
		p := filepath.Join(dir, e.Name)
		if e.Name == "LOG" || e.Name == "LOG.old" {
			f, err := os.Create(p)
			if err != nil {
				return err
			}
			if string(b) == "B" {
				if err := f.Truncate(logThreshold + 4096); err != nil { // sparse
					f.Close()
					return err
				}
			} else {
				f.Write([]byte("old log line\n"))
			}
			f.Close()
			continue
		}
		if err := os.WriteFile(p, b, 0o644); err != nil {
			return err
		}
	}
	return nil
}

// listDir reads a flat directory, sorted by name; LOG / LOG.old contents are replaced by "B" or "S".
func listDir(dir string) ([]dirEnt, error) {
	ents, err := os.ReadDir(dir)
	if err != nil {
		return nil, err
	}
	var l []dirEnt
	for _, e := range ents {
		p := filepath.Join(dir, e.Name())
		if e.Name() == "LOG" || e.Name() == "LOG.old" {
			fi, err := os.Stat(p)
			if err != nil {
				return nil, err
			}
			c := "S"
			if fi.Size() > logThreshold {
				c = "B"
			}
			l = append(l, dirEnt{e.Name(), hex.EncodeToString([]byte(c))})
			continue
		}
		b, err := os.ReadFile(p)
		if err != nil {
			return nil, err
		}
		l = append(l, dirEnt{e.Name(), hex.EncodeToString(b)})
	}
	sort.Slice(l, func(i, j int) bool { return l[i].Name < l[j].Name })
	return l, nil
}

func sameDir(a, b []dirEnt) string {
	am := map[string]string{}
	for _, e := range a {
		am[e.Name] = e.Data
	}
	for _, e := range b {
		x, ok := am[e.Name]
		if !ok {
			return fmt.Sprintf("file %q was created", e.Name)
		}
		if x != e.Data {
			return fmt.Sprintf("file %q was modified (%q -> %q)", e.Name, unhexs(x), unhexs(e.Data))
		}
		delete(am, e.Name)
	}
	for n := range am {
		return fmt.Sprintf("file %q was removed or renamed", n)
	}
	return ""
}

func unhexs(s string) string { b, _ := hex.DecodeString(s); return string(b) }

func ftCode(t storage.FileType) int { return int(t) }

// metaClass: 0 descriptor, 1 os.ErrNotExist, 2 ErrCorrupted, 3 anything else
func metaClass(err error) int {
	switch {
	case err == nil:
		return 0
	case errors.Is(err, os.ErrNotExist):
		return 1
	default:
		var ce *storage.ErrCorrupted
		if errors.As(err, &ce) {
			return 2
		}
		return 3
	}
}

type fsK struct {
	r     *vlib.RNG
	root  string
	cases []kcase
	fails []string
	stats map[string]int
	notes []string
	n     int
}

func (k *fsK) add(coq string, js interface{}) {
	k.cases = append(k.cases, kcase{index: 1000000 + len(k.cases), coq: coq, js: js})
}

func (k *fsK) fail(f string, a ...interface{}) {
	if len(k.fails) < 8 {
		k.fails = append(k.fails, "file storage model: "+fmt.Sprintf(f, a...))
	}
}

func (k *fsK) tmp() string {
	k.n++
	return filepath.Join(k.root, fmt.Sprintf("d%04d", k.n))
}

// ------------------------------------------------------------------------------------------------ (i) names

var allTypes = []storage.FileType{storage.TypeManifest, storage.TypeJournal, storage.TypeTable, storage.TypeTemp}

func (k *fsK) names(thorough bool) {
	r := k.r
	nums := []int64{0, 1, 5, 9, 10, 99999, 100000, 999999, 1000000, 1234567, 1 << 31, 1 << 62, 1<<63 - 1,
		-1, -5, -99999, -100000, -999999, -1 << 63}
	for i := 0; i < 12; i++ {
		nums = append(nums, int64(r.Uint64()>>uint(r.Intn(64))))
		nums = append(nums, -int64(r.Uint64()>>uint(1+r.Intn(63))))
	}
	var canon []string
	for _, t := range allTypes {
		for _, n := range nums {
			if !thorough && r.Chance(1, 2) && n != 0 && n != 999999 && n != 1000000 && n != -1<<63 && n != 1<<63-1 {
				continue
			}
			fd := storage.FileDesc{Type: t, Num: n}
			g, ok1 := storage.VerifGenName(fd)
			o, ok2 := storage.VerifGenOldName(fd)
			if !ok1 || !ok2 {
				k.fail("fsGenName panicked on %v", fd)
				continue
			}
			k.add(fmt.Sprintf("KGen %d %s \"%s\" \"%s\" %s", ftCode(t), coqZ(n), hex.EncodeToString([]byte(g)), hex.EncodeToString([]byte(o)),
				vlib.CoqBool(storage.VerifHasOldName(fd))), map[string]interface{}{"gen": fd.String(), "name": g, "old": o})
			// (P) round trip on the implementation
			for _, nm := range []string{g, o} {
				if p, ok := storage.VerifParseName(nm); !ok || p != fd {
					k.fail("fsParseName(fsGenName(%v) = %q) = %v, %v", fd, nm, p, ok)
				}
			}
			canon = append(canon, g, o)
			k.stats["fsk_gen_cases"]++
		}
	}
	adv := []string{"", " ", "5", "5.", "5.ldb", "+5.ldb", "-5.ldb", " 5.ldb", "\t5.ldb", "5.ldb x", "5. ldb", "5.\tldb", "5.ldb\n", "5.\nldb", "\n5.ldb",
		"5.sst", "5.log", "5.tmp", "5.xyz", "5.ldbx", "5.LDB", "5.l", ".ldb", "-.ldb", "+.ldb", "--5.ldb", "+-5.ldb", "5..ldb", "5 .ldb", "0000005.ldb", "00000.ldb",
		"00000000000000000000000000000000000000007.log", "9223372036854775807.ldb", "9223372036854775808.ldb", "-9223372036854775808.ldb",
		"-9223372036854775809.ldb", "18446744073709551616.ldb", "99999999999999999999999999.tmp", "1_0.ldb", "0x10.ldb", "1e3.ldb", "٣.ldb",
		"MANIFEST-000005", "MANIFEST-5", "MANIFEST-", "MANIFEST", "MANIFEST--5", "MANIFEST-+5", "MANIFEST-+", "MANIFEST--", "MANIFEST- 5", "MANIFEST-\t5", "MANIFEST-\n5",
		"MANIFEST-5 ", "MANIFEST-5 x", "MANIFEST-5x", "MANIFEST-5\n", "MANIFEST-5\nfoo", "MANIFEST-5\r\n", "MANIFEST-5\rx", "MANIFEST-5.ldb", "MANIFEST-5.",
		"MANIFEST-9223372036854775807", "MANIFEST-9223372036854775808", "MANIFEST--9223372036854775808", "MANIFEST--9223372036854775809", "MANIFEST-0000000000000000000000001",
		"manifest-5", "MANIFEST_5", " MANIFEST-5", "MANIFEST-5\xc2\x85", "MANIFEST-5\xc2\x85x", "MANIFEST-5\xe2\x80\xa8", "MANIFEST-5\xe2\x80\xa8y", "MANIFEST-\xe3\x80\x805", "MANIFEST-5\xff",
		"CURRENT", "CURRENT.5", "CURRENT.bak", "CURRENT.", "LOCK", "LOG", "LOG.old", "5.ldb\xc2\x85x", "5.\xc2\xa0ldb", "\xe3\x80\x805.ldb", "5.l\xffdb", "\xc2\x855.ldb", "5.ldb\xe2\x80\xa8",
		"\xe1\x9a\x805.log", "\xe2\x80\x805.log", "\xe2\x80\x8a5.log", "\xe2\x80\x8b5.log", "\xe2\x80\xa95.log", "\xe2\x80\xaf5.log", "\xe2\x81\x9f5.log", "\xe2\x81\x9e5.log", "\xc25.log", "\xc2\x865.log",
		"5.\xe2\x80log", "5.log\xe2\x80", "5.log\xe2", "\xe2\x805.log", "\x0b5.log", "\x0c5.log", "\r5.log", "\r\n5.log", "5.\r\nlog", "5.\rlog", "\x1c5.log", "\x855.log", "\xa05.log", "5.tmp\x00", "\x005.tmp"}
	alpha := []byte("0123456789.-+ \t\n\rM_xldbsgotmpAN\xc2\x85\xa0\xe2\x80\x81\x9f\xe3\xe1\x9a\xa8\xff")
	nmut := 160
	if thorough {
		nmut = 1500
	}
	for i := 0; i < nmut && len(canon) > 0; i++ {
		b := []byte(canon[r.Intn(len(canon))])
		if r.Chance(1, 4) {
			b = []byte(adv[r.Intn(len(adv))])
		}
		for e := r.Range(1, 3); e > 0; e-- {
			p := r.Intn(len(b) + 1)
			switch r.Intn(3) {
			case 0:
				b = append(b[:p:p], append([]byte{alpha[r.Intn(len(alpha))]}, b[p:]...)...)
			case 1:
				if p < len(b) {
					b = append(b[:p:p], b[p+1:]...)
				}
			default:
				if p < len(b) {
					b[p] = alpha[r.Intn(len(alpha))]
				}
			}
		}
		adv = append(adv, string(b))
	}
	seen := map[string]bool{}
	for _, nm := range adv {
		if seen[nm] {
			continue
		}
		seen[nm] = true
		fd, ok := storage.VerifParseName(nm)
		ty, num := 0, int64(0)
		if ok {
			ty, num = ftCode(fd.Type), fd.Num
			k.stats["fsk_parse_accepted"]++
			if g, _ := storage.VerifGenName(fd); g != nm {
				k.stats["fsk_parse_accepted_noncanonical"]++
			}
			if fd.Num < 0 {
				k.stats["fsk_parse_accepted_negative"]++
			}
		}
		k.add(fmt.Sprintf("KParse \"%s\" %s %d %s", hex.EncodeToString([]byte(nm)), vlib.CoqBool(ok), ty, coqZ(num)),
			map[string]interface{}{"parse": nm, "ok": ok, "fd": fd.String()})
		k.stats["fsk_parse_cases"]++
	}
}

// ------------------------------------------------------------------------------------------------ (ii) directory states

func manifestName(n int64) string { return fmt.Sprintf("MANIFEST-%06d", n) }

// genContent draws the content of a CURRENT-family file; nums are the manifest numbers in play.
func genContent(r *vlib.RNG, present, absent []int64) []byte {
	pick := func(l []int64) int64 {
		if len(l) == 0 {
			return int64(r.Intn(9))
		}
		return l[r.Intn(len(l))]
	}
	switch r.Pick(10, 5, 2, 2, 2, 1, 1, 1, 1, 1, 1, 1) {
	case 0:
		return []byte(manifestName(pick(present)) + "\n")
	case 1:
		return []byte(manifestName(pick(absent)) + "\n")
	case 2:
		return nil // empty
	case 3:
		return []byte(manifestName(pick(present))) // no newline
	case 4:
		s := manifestName(pick(present)) + "\n"
		return []byte(s[:r.Intn(len(s))]) // torn
	case 5:
		return []byte("MANIFEST-\n")
	case 6:
		return []byte(fmt.Sprintf("MANIFEST-%d\n", pick(present))) // short digits
	case 7:
		return []byte(manifestName(pick(present)) + "\n\n")
	case 8:
		return []byte(fmt.Sprintf("%06d.ldb\n", pick(present))) // names a table
	case 9:
		return []byte(manifestName(pick(present)) + " \n")
	case 10:
		return []byte(fmt.Sprintf("MANIFEST--%d\n", pick(present)))
	default:
		return r.Bytes(r.Range(1, 20), []byte("MANIFEST-0123456789\n ."))
	}
}

type dirCase struct {
	Ro   bool     `json:"ro"`
	Pre  []dirEnt `json:"pre"`
	Res  int      `json:"res"`
	Fd   string   `json:"fd"`
	Post []dirEnt `json:"post"`
}

func genDirState(r *vlib.RNG) []dirEnt {
	m := map[string][]byte{}
	var present, absent []int64
	pool := []int64{1, 2, 3, 4, 5, 7, 12, 1000000}
	for _, n := range pool {
		if r.Chance(2, 5) {
			present = append(present, n)
			m[manifestName(n)] = []byte("manifest")
		} else {
			absent = append(absent, n)
		}
	}
	if r.Chance(1, 3) {
		for _, n := range present {
			if r.Bool() {
				m[fmt.Sprintf("%06d.ldb", n)] = []byte("t")
			}
		}
	}
	if r.Chance(1, 6) {
		m["MANIFEST--00003"] = []byte("neg")
	}
	if r.Chance(4, 5) {
		m["CURRENT"] = genContent(r, present, absent)
	}
	if r.Chance(1, 2) {
		m["CURRENT.bak"] = genContent(r, present, absent)
	}
	for np := r.Pick(4, 4, 2, 1); np > 0; np-- {
		var name string
		n := pool[r.Intn(len(pool))]
		switch r.Pick(12, 1, 1, 1, 1, 1, 1) {
		case 0:
			name = fmt.Sprintf("CURRENT.%d", n)
		case 1:
			name = fmt.Sprintf("CURRENT.%02d", n)
		case 2:
			name = fmt.Sprintf("CURRENT.+%d", n)
		case 3:
			name = fmt.Sprintf("CURRENT.-%d", n)
		case 4:
			name = "CURRENT." + string(r.Bytes(r.Range(0, 3), []byte("x1_ .b")))
		case 5:
			name = "CURRENT.9223372036854775808"
		default:
			name = fmt.Sprintf("CURRENT.%d", r.Intn(20))
		}
		var c []byte
		if r.Chance(1, 2) {
			// what setMeta writes under this name, whole or torn
			s := manifestName(n) + "\n"
			if r.Chance(1, 4) {
				s = s[:r.Intn(len(s))]
			}
			c = []byte(s)
		} else {
			c = genContent(r, present, absent)
		}
		m[name] = c
	}
	if r.Chance(3, 4) {
		m["LOCK"] = nil
	}
	switch r.Pick(3, 3, 1) {
	case 0:
		m["LOG"] = []byte("S")
	case 2:
		m["LOG"] = []byte("B")
		if r.Bool() {
			m["LOG.old"] = []byte("S")
		}
	}
	if r.Chance(1, 8) {
		m["000009.log"] = []byte("j")
	}
	var l []dirEnt
	for n, c := range m {
		l = append(l, dirEnt{n, hex.EncodeToString(c)})
	}
	sort.Slice(l, func(i, j int) bool { return l[i].Name < l[j].Name })
	return l
}

// runDir builds the directory, runs the real OpenFile + GetMeta (+ a second GetMeta), closes.
func (k *fsK) runDir(pre []dirEnt, ro bool) (dc dirCase, ok bool) {
	dir := k.tmp()
	defer os.RemoveAll(dir)
	if err := writeDir(dir, pre); err != nil {
		k.fail("cannot build a directory: %v", err)
		return dc, false
	}
	st, err := storage.OpenFile(dir, ro)
	if err != nil {
		k.fail("OpenFile(ro=%v) of a prepared directory: %v", ro, err)
		return dc, false
	}
	defer st.Close()
	fd, err := st.GetMeta()
	cls := metaClass(err)
	if cls == 3 {
		k.fail("GetMeta: unexpected error class: %v", err)
		return dc, false
	}
	post, err1 := listDir(dir)
	if err1 != nil {
		k.fail("cannot list: %v", err1)
		return dc, false
	}
	dc = dirCase{Ro: ro, Pre: pre, Res: cls, Fd: fd.String(), Post: post}
	// ---- (P) read-only: nothing but a missing LOCK file may appear
	if ro {
		want := pre
		if !hasEnt(pre, "LOCK") {
			want = append(append([]dirEnt{}, pre...), dirEnt{"LOCK", ""})
			k.stats["fsk_ro_open_created_LOCK"]++
		}
		if d := sameDir(want, post); d != "" {
			k.fail("GetMeta on a storage opened read-only changed the directory: %s; before: %s", d, showDir(pre))
		}
	}
	// ---- (P) a second GetMeta: same answer, nothing changes any more
	fd2, err2 := st.GetMeta()
	if metaClass(err2) != cls || fd2 != fd {
		k.fail("second GetMeta answers (%v, %v) after (%v, %v); directory before: %s", fd2, err2, fd, err, showDir(pre))
	}
	post2, _ := listDir(dir)
	if d := sameDir(post, post2); d != "" {
		k.fail("second GetMeta (ro=%v) changed the directory again: %s; directory before the first: %s", ro, d, showDir(pre))
	}
	ty, num := 0, int64(0)
	if cls == 0 {
		ty, num = ftCode(fd.Type), fd.Num
	}
	k.add(fmt.Sprintf("KDir %s %s %d %d %s %s", vlib.CoqBool(ro), coqDir(pre), cls, ty, coqZ(num), coqDir(post)), dc)
	return dc, true
}

func hasEnt(l []dirEnt, n string) bool {
	for _, e := range l {
		if e.Name == n {
			return true
		}
	}
	return false
}

func showDir(l []dirEnt) string {
	var sb strings.Builder
	for _, e := range l {
		fmt.Fprintf(&sb, "%s=%q ", e.Name, unhexs(e.Data))
	}
	return sb.String()
}

func (k *fsK) dirs(thorough bool) {
	n := 150
	if thorough {
		n = 3000
	}
	for i := 0; i < n; i++ {
		pre := genDirState(k.r)
		ro := k.r.Chance(2, 5)
		dc, ok := k.runDir(pre, ro)
		if !ok {
			continue
		}
		k.stats["fsk_dir_cases"]++
		k.stats[fmt.Sprintf("fsk_dir_result_class_%d", dc.Res)]++
		if !ro {
			a, b := stripLL(pre), stripLL(dc.Post)
			if sameDir(a, b) != "" {
				k.stats["fsk_dir_repaired"]++
			}
		} else {
			k.stats["fsk_dir_read_only"]++
		}
		if hasEnt(dc.Post, "LOG.old") && !hasEnt(pre, "LOG.old") {
			k.stats["fsk_dir_log_rotated"]++
		}
	}
}

func stripLL(l []dirEnt) []dirEnt {
	var o []dirEnt
	for _, e := range l {
		if e.Name != "LOCK" && e.Name != "LOG" && e.Name != "LOG.old" {
			o = append(o, e)
		}
	}
	return o
}

// ------------------------------------------------------------------------------------------------ (iii) strace

type straceScen struct {
	Dir  string   `json:"dir"`
	Kind int      `json:"kind"` // 0 SetMeta(Num), 1 GetMeta
	Num  int64    `json:"num"`
	Pre  []dirEnt `json:"pre"`
}

type obsOp struct {
	Code int    `json:"code"`
	A    string `json:"a"`
	B    string `json:"b"`
}

// fsChild is the traced process: for each scenario OpenFile, marker, the call, marker, Close.
func fsChild(spec string) {
	if os.Getenv("C18_FS_LOCKTHREAD") != "" {
		runtime.LockOSThread() // strace's inject=...:when=N counts per thread
	}
	b, err := os.ReadFile(spec)
	if err != nil {
		os.Exit(3)
	}
	var sc []straceScen
	if json.Unmarshal(b, &sc) != nil {
		os.Exit(3)
	}
	for i, s := range sc {
		st, err := storage.OpenFile(s.Dir, false)
		if err != nil {
			os.Exit(4)
		}
		os.Stat(fmt.Sprintf("/c18-marker/%d/b", i))
		if s.Kind == 0 {
			st.SetMeta(storage.FileDesc{Type: storage.TypeManifest, Num: s.Num})
		} else {
			st.GetMeta()
		}
		os.Stat(fmt.Sprintf("/c18-marker/%d/e", i))
		st.Close()
	}
	os.Exit(0)
}

func straceQuoted(s string) (string, bool) {
	// a -xx string literal: "\x41\x42..." (possibly followed by ...)
	if len(s) < 2 || s[0] != '"' {
		return "", false
	}
	end := strings.IndexByte(s[1:], '"')
	if end < 0 {
		return "", false
	}
	body := s[1 : 1+end]
	var out []byte
	for i := 0; i < len(body); i += 4 {
		if i+4 > len(body) || body[i] != '\\' || body[i+1] != 'x' {
			return "", false
		}
		v, err := strconv.ParseUint(body[i+2:i+4], 16, 8)
		if err != nil {
			return "", false
		}
		out = append(out, byte(v))
	}
	return string(out), true
}

// splitArgs splits the argument text of a system call at top-level commas.
func splitArgs(s string) []string {
	var out []string
	depth, inq, start := 0, false, 0
	for i := 0; i < len(s); i++ {
		c := s[i]
		switch {
		case c == '"':
			inq = !inq
		case inq:
		case c == '{' || c == '[' || c == '(':
			depth++
		case c == '}' || c == ']' || c == ')':
			depth--
		case c == ',' && depth == 0:
			out = append(out, strings.TrimSpace(s[start:i]))
			start = i + 1
		}
	}
	out = append(out, strings.TrimSpace(s[start:]))
	return out
}

var straceRet = regexp.MustCompile(`\)\s+=\s+`)

// parseStrace returns, per scenario index, the mutating operations between its markers.
func parseStrace(path string, scen []straceScen) (map[int][]obsOp, error) {
	f, err := os.Open(path)
	if err != nil {
		return nil, err
	}
	defer f.Close()
	res := map[int][]obsOp{}
	pending := map[string]string{} // pid -> unfinished text
	fds := map[int]string{}        // fd -> path
	cur := -1
	sc := bufio.NewScanner(f)
	sc.Buffer(make([]byte, 1<<20), 1<<24)
	for sc.Scan() {
		line := sc.Text()
		sp := strings.IndexByte(line, ' ')
		if sp < 0 {
			continue
		}
		pid, rest := line[:sp], strings.TrimSpace(line[sp:])
		if strings.HasSuffix(rest, "<unfinished ...>") {
			pending[pid] = strings.TrimSuffix(rest, "<unfinished ...>")
			continue
		}
		if strings.HasPrefix(rest, "<... ") {
			i := strings.Index(rest, "resumed>")
			if i < 0 {
				continue
			}
			rest = pending[pid] + rest[i+len("resumed>"):]
			delete(pending, pid)
		}
		op := strings.IndexByte(rest, '(')
		loc := straceRet.FindAllStringIndex(rest, -1)
		if op < 0 || len(loc) == 0 || loc[len(loc)-1][0] < op {
			continue
		}
		eq, after := loc[len(loc)-1][0], loc[len(loc)-1][1]
		name, args, ret := rest[:op], splitArgs(rest[op+1:eq]), strings.Fields(rest[after:])
		if len(ret) == 0 {
			continue
		}
		rv, _ := strconv.Atoi(ret[0])
		rel := func(p string) (string, bool) {
			if cur < 0 {
				return "", false
			}
			d := scen[cur].Dir
			if p == d {
				return "", true
			}
			if strings.HasPrefix(p, d+"/") {
				return p[len(d)+1:], true
			}
			return "", false
		}
		emit := func(code int, a, b string) {
			if cur < 0 || a == "LOG" || a == "LOG.old" || b == "LOG" {
				return
			}
			res[cur] = append(res[cur], obsOp{code, hex.EncodeToString([]byte(a)), hex.EncodeToString([]byte(b))})
		}
		switch name {
		case "newfstatat", "stat", "statx":
			for _, a := range args {
				if p, ok := straceQuoted(a); ok && strings.HasPrefix(p, "/c18-marker/") {
					parts := strings.Split(p, "/")
					if len(parts) == 4 {
						i, _ := strconv.Atoi(parts[2])
						if parts[3] == "b" {
							cur = i
							if _, ok := res[i]; !ok {
								res[i] = []obsOp{}
							}
						} else {
							cur = -1
						}
					}
				}
			}
		case "openat", "open", "creat":
			if rv < 0 {
				continue
			}
			var p, flags string
			for _, a := range args {
				if q, ok := straceQuoted(a); ok {
					p = q
				} else if strings.HasPrefix(a, "O_") {
					flags = a
				}
			}
			fds[rv] = p
			if strings.Contains(flags, "O_CREAT") || strings.Contains(flags, "O_TRUNC") {
				if n, ok := rel(p); ok && n != "" {
					if !strings.Contains(flags, "O_TRUNC") {
						emit(9, n, "") // an open with O_CREAT but without O_TRUNC: not a model operation
					} else {
						emit(0, n, "")
					}
				}
			}
		case "close":
			if len(args) > 0 {
				fd, _ := strconv.Atoi(args[0])
				delete(fds, fd)
			}
		case "write", "pwrite64":
			if len(args) >= 2 {
				fd, _ := strconv.Atoi(args[0])
				if n, ok := rel(fds[fd]); ok && n != "" {
					d, _ := straceQuoted(args[1])
					if rv >= 0 && rv < len(d) {
						d = d[:rv]
					}
					emit(1, n, d)
				}
			}
		case "fsync", "fdatasync":
			if len(args) >= 1 {
				fd, _ := strconv.Atoi(args[0])
				if n, ok := rel(fds[fd]); ok {
					if n == "" {
						emit(5, "", "")
					} else {
						emit(2, n, "")
					}
				}
			}
		case "rename", "renameat", "renameat2":
			var ps []string
			for _, a := range args {
				if q, ok := straceQuoted(a); ok {
					ps = append(ps, q)
				}
			}
			if len(ps) == 2 {
				a, ok1 := rel(ps[0])
				b, ok2 := rel(ps[1])
				if ok1 && ok2 {
					emit(3, a, b)
				}
			}
		case "unlink", "unlinkat":
			if strings.Contains(rest, "AT_REMOVEDIR") {
				continue
			}
			for _, a := range args {
				if q, ok := straceQuoted(a); ok {
					if n, ok := rel(q); ok && n != "" {
						emit(4, n, "")
					}
				}
			}
		case "ftruncate", "truncate", "mkdir", "mkdirat", "link", "linkat", "symlink", "symlinkat":
			emit(9, name, "")
		}
	}
	return res, sc.Err()
}

func mustHex(s string) string { return hex.EncodeToString([]byte(s)) }

func straceScenarios(root string) []straceScen {
	d := func(m map[string]string) []dirEnt {
		var l []dirEnt
		for n, c := range m {
			l = append(l, dirEnt{n, mustHex(c)})
		}
		sort.Slice(l, func(i, j int) bool { return l[i].Name < l[j].Name })
		return l
	}
	M := manifestName
	type sp struct {
		kind int
		num  int64
		m    map[string]string
	}
	sps := []sp{
		{0, 1, map[string]string{M(1): "m"}},                                                                                         // first SetMeta: no CURRENT
		{0, 2, map[string]string{M(1): "m", M(2): "m", "CURRENT": M(1) + "\n"}},                                                      // switch with backup
		{0, 2, map[string]string{M(2): "m", "CURRENT": M(2) + "\n"}},                                                                 // unchanged: nothing
		{0, 7, map[string]string{M(7): "m", "CURRENT": "garbage", "CURRENT.bak": M(3) + "\n", "CURRENT.7": "torn"}},                  // garbage backed up, pending file reused
		{0, 1000000, map[string]string{M(5): "m", M(1000000): "m", "CURRENT": M(5) + "\n", "CURRENT.bak": M(4) + "\n"}},              // wide number, stale backup
		{0, 3, map[string]string{M(3): "m", "CURRENT": ""}},                                                                          // empty CURRENT backed up
		{1, 0, map[string]string{M(1): "m", M(2): "m", "CURRENT": M(1) + "\n", "CURRENT.2": M(2) + "\n"}},                            // pending newer: repair
		{1, 0, map[string]string{M(1): "m", "CURRENT.bak": M(1) + "\n"}},                                                             // only the backup
		{1, 0, map[string]string{M(4): "m", "CURRENT": M(4) + "\n", "CURRENT.1": M(1) + "\n", "CURRENT.3": "MANIF"}},                 // stale + torn pending
		{1, 0, map[string]string{M(4): "m", "CURRENT": "MANIF", "CURRENT.bak": M(4) + "\n"}},                                         // garbage CURRENT, good backup
		{1, 0, map[string]string{M(4): "m", "CURRENT": M(4) + "\n"}},                                                                 // clean: nothing
		{1, 0, map[string]string{M(4): "m", M(5): "m", "CURRENT": M(4) + "\n", "CURRENT.05": M(5) + "\n", "CURRENT.5": M(5) + "\n"}}, // duplicate numbers
		{1, 0, map[string]string{M(4): "m", M(9): "m", "CURRENT": M(4) + "\n", "CURRENT.6": M(9) + "\n", "CURRENT.-2": M(4) + "\n"}}, // name/content numbers differ, negative
		{1, 0, map[string]string{"CURRENT": M(4) + "\n", "CURRENT.8": "x"}},                                                          // nothing valid
	}
	var out []straceScen
	for i, s := range sps {
		out = append(out, straceScen{Dir: filepath.Join(root, fmt.Sprintf("st%02d", i)), Kind: s.kind, Num: s.num, Pre: d(s.m)})
	}
	return out
}

// crashScen is a directed scenario whose every intermediate state is examined: a switch m0 -> m1 (kind 0) or the
// repair of a read-write GetMeta (kind 1) whose answer must be m0 or m1.
type crashScen struct {
	kind   int
	m0, m1 int64
	m      map[string]string
	pre    []dirEnt
	dir    string
	ops    []obsOp // observed with strace (nil: not observed)
}

func crashScenarios(root string) []*crashScen {
	M := manifestName
	scs := []*crashScen{
		{kind: 0, m0: 1, m1: 2, m: map[string]string{"LOCK": "", "LOG": "S", M(1): "m", M(2): "m", "CURRENT": M(1) + "\n"}},
		{kind: 0, m0: 4, m1: 5, m: map[string]string{"LOCK": "", "LOG": "S", M(4): "m", M(5): "m", "CURRENT": M(4) + "\n", "CURRENT.bak": M(3) + "\n", "CURRENT.4": M(4) + "\n", "CURRENT.2": "MANIF"}},
		{kind: 0, m0: 7, m1: 1000000, m: map[string]string{"LOCK": "", "LOG": "S", M(7): "m", M(1000000): "m", "000008.ldb": "t", "CURRENT": M(7) + "\n", "CURRENT.bak": "", "CURRENT.1000000": "MANIFEST-10"}},
		// the repair inside a read-write GetMeta
		{kind: 1, m0: 4, m1: 4, m: map[string]string{"LOCK": "", "LOG": "S", M(4): "m", "CURRENT": "MANIF", "CURRENT.bak": M(4) + "\n"}},                                 // torn CURRENT, good backup
		{kind: 1, m0: 4, m1: 4, m: map[string]string{"LOCK": "", "LOG": "S", M(4): "m", "CURRENT": M(6) + "\n", "CURRENT.bak": M(4) + "\n", "CURRENT.3": M(3) + "\n"}},   // dangling CURRENT, good backup
		{kind: 1, m0: 1, m1: 2, m: map[string]string{"LOCK": "", "LOG": "S", M(1): "m", M(2): "m", "CURRENT": M(1) + "\n", "CURRENT.2": M(2) + "\n"}},                    // pending newer: the switch is replayed
		{kind: 1, m0: 1, m1: 2, m: map[string]string{"LOCK": "", "LOG": "S", M(1): "m", M(2): "m", "CURRENT": "", "CURRENT.bak": M(1) + "\n", "CURRENT.2": M(2) + "\n"}}, // pending newer over an empty CURRENT
		{kind: 1, m0: 4, m1: 4, m: map[string]string{"LOCK": "", "LOG": "S", M(4): "m", "CURRENT.bak": M(4) + "\n"}},                                                     // only the backup
	}
	for i, s := range scs {
		for n, c := range s.m {
			s.pre = append(s.pre, dirEnt{n, mustHex(c)})
		}
		sort.Slice(s.pre, func(a, b int) bool { return s.pre[a].Name < s.pre[b].Name })
		s.dir = filepath.Join(root, fmt.Sprintf("cr%02d", i))
	}
	return scs
}

const straceSyscalls = "trace=open,openat,creat,close,write,pwrite64,fsync,fdatasync,rename,renameat,renameat2,unlink,unlinkat,ftruncate,truncate,mkdir,mkdirat,link,linkat,symlink,symlinkat,newfstatat,stat,statx"

func (k *fsK) strace(crash []*crashScen) {
	exe, err := os.Executable()
	if err != nil {
		k.notes = append(k.notes, "strace: cannot find the harness executable: "+err.Error())
		return
	}
	if _, err := exec.LookPath("strace"); err != nil {
		k.notes = append(k.notes, "strace is not installed: the operation order of setMeta is not observed in this run")
		k.stats["fsk_strace_unavailable"]++
		return
	}
	scen := straceScenarios(k.root)
	nplain := len(scen)
	for _, c := range crash {
		scen = append(scen, straceScen{Dir: c.dir, Kind: c.kind, Num: c.m1, Pre: c.pre})
	}
	for _, s := range scen {
		if err := writeDir(s.Dir, s.Pre); err != nil {
			k.fail("cannot build a directory: %v", err)
			return
		}
	}
	spec := filepath.Join(k.root, "strace_spec.json")
	b, _ := json.Marshal(scen)
	os.WriteFile(spec, b, 0o644)
	out := filepath.Join(k.root, "strace.txt")
	cmd := exec.Command("strace", "-f", "-xx", "-s", "4096", "-o", out, "-e", straceSyscalls, exe)
	cmd.Env = append(os.Environ(), "C18_FS_CHILD="+spec, "GOMAXPROCS=2")
	if msg, err := cmd.CombinedOutput(); err != nil {
		k.notes = append(k.notes, fmt.Sprintf("strace could not trace the child (%v: %.200s): the operation order of setMeta is not observed in this run", err, msg))
		k.stats["fsk_strace_unavailable"]++
		return
	}
	obs, err := parseStrace(out, scen)
	if err != nil {
		k.fail("cannot parse the strace output: %v", err)
		return
	}
	for i, s := range scen {
		ops, ok := obs[i]
		if !ok {
			k.fail("strace: no marker for scenario %d", i)
			continue
		}
		if i >= nplain {
			crash[i-nplain].ops = ops
		}
		items := make([]string, len(ops))
		for j, o := range ops {
			items[j] = fmt.Sprintf("KOp %d \"%s\" \"%s\"", o.Code, o.A, o.B)
		}
		k.add(fmt.Sprintf("KOps %d %s 1 %s [%s]", s.Kind, coqDir(s.Pre), coqZ(s.Num), strings.Join(items, "; ")),
			map[string]interface{}{"strace": s, "ops": ops})
		k.stats["fsk_strace_cases"]++
		k.stats["fsk_strace_ops"] += len(ops)
	}
}

// killPoints runs the real call of every crash scenario again and again under strace, killing the process
// (SIGKILL injected before the n-th system call that touches the CURRENT family or the directory, n = 1, 2, ...)
// and then asks the real GetMeta what the directory it left behind answers.  This is a crash of the process,
// not of the machine: nothing that was issued is lost; the states with lost effects are built by crashStates.
func (k *fsK) killPoints(crash []*crashScen, thorough bool) {
	exe, err := os.Executable()
	if err != nil || k.stats["fsk_strace_unavailable"] > 0 {
		return
	}
	type outc struct {
		fails []string
		cases []kcase
		n     int
	}
	res := make([]outc, len(crash))
	var wg sync.WaitGroup
	for ci, c := range crash {
		wg.Add(1)
		go func(ci int, c *crashScen) {
			defer wg.Done()
			o := &res[ci]
			// strace counts the invocations of every system call separately
			for _, sc := range []string{"openat", "write", "fsync", "renameat", "unlinkat"} {
				for n := 1; n <= 30; n++ {
					dir := filepath.Join(k.root, fmt.Sprintf("kill%02d_%s_%03d", ci, sc, n))
					if err := writeDir(dir, c.pre); err != nil {
						o.fails = append(o.fails, "cannot build a directory: "+err.Error())
						return
					}
					spec := dir + ".json"
					b, _ := json.Marshal([]straceScen{{Dir: dir, Kind: c.kind, Num: c.m1}})
					os.WriteFile(spec, b, 0o644)
					args := []string{"-f", "-o", "/dev/null", "-P", dir}
					names := map[string]bool{"CURRENT": true, "CURRENT.bak": true, fmt.Sprintf("CURRENT.%d", c.m1): true, fmt.Sprintf("CURRENT.%d", c.m0): true}
					for _, e := range c.pre {
						if strings.HasPrefix(e.Name, "CURRENT") {
							names[e.Name] = true
						}
					}
					for nm := range names {
						args = append(args, "-P", filepath.Join(dir, nm))
					}
					args = append(args, "-e", "trace="+sc, "-e", fmt.Sprintf("inject=%s:signal=SIGKILL:when=%d", sc, n), exe)
					cmd := exec.Command("strace", args...)
					cmd.Env = append(os.Environ(), "C18_FS_CHILD="+spec, "C18_FS_LOCKTHREAD=1", "GOMAXPROCS=1")
					_, rerr := cmd.CombinedOutput()
					os.Remove(spec)
					if rerr == nil {
						// the call completed: there is no n-th such system call; the directory must answer the new manifest
						if st, err := storage.OpenFile(dir, true); err == nil {
							fd, gerr := st.GetMeta()
							st.Close()
							if gerr != nil || fd.Type != storage.TypeManifest || fd.Num != c.m1 {
								left, _ := listDir(dir)
								o.fails = append(o.fails, fmt.Sprintf("after the completed call (kind %d) on { %s} the directory { %s} answers (%v, %v), not %s", c.kind, showDir(c.pre), showDir(left), fd, gerr, manifestName(c.m1)))
							}
						}
						os.RemoveAll(dir)
						break
					}
					o.n++
					left, _ := listDir(dir)
					st, err := storage.OpenFile(dir, true)
					if err != nil {
						o.fails = append(o.fails, fmt.Sprintf("OpenFile after a kill: %v", err))
						os.RemoveAll(dir)
						continue
					}
					fd, gerr := st.GetMeta()
					st.Close()
					after, _ := listDir(dir)
					cls := metaClass(gerr)
					what := map[int]string{0: "SetMeta", 1: "a read-write GetMeta (its repair)"}[c.kind]
					if cls != 0 || fd.Type != storage.TypeManifest || (fd.Num != c.m0 && fd.Num != c.m1) {
						o.fails = append(o.fails, fmt.Sprintf("crash inside %s: the process was killed entering its %s no. %d on the CURRENT family of a directory { %s}; it left { %s} and GetMeta answers (%v, %v): neither %s nor %s",
							what, sc, n, showDir(c.pre), showDir(left), fd, gerr, manifestName(c.m0), manifestName(c.m1)))
					}
					ty, num := 0, int64(0)
					if cls == 0 {
						ty, num = ftCode(fd.Type), fd.Num
					}
					if cls != 3 {
						o.cases = append(o.cases, kcase{coq: fmt.Sprintf("KDir true %s %d %d %s %s", coqDir(left), cls, ty, coqZ(num), coqDir(after)),
							js: map[string]interface{}{"killed_entering": fmt.Sprintf("%s #%d", sc, n), "scenario": ci, "left": left, "res": cls, "fd": fd.String()}})
					}
					os.RemoveAll(dir)
				}
			}
		}(ci, c)
	}
	wg.Wait()
	for _, o := range res {
		for _, f := range o.fails {
			k.fail("%s", f)
		}
		for _, c := range o.cases {
			k.add(c.coq, c.js)
		}
		k.stats["fsk_kill_points"] += o.n
	}
}

// ------------------------------------------------------------------------------------------------ crash states of a switch

// A Go mirror of the model's durability bookkeeping (Store/FileStorage.v section 4), used only to GENERATE the
// states; every generated state is re-derived inside Coq (KCrash) and must be equal there.
type gIno struct {
	v, d  []byte
	trunc bool
}
type gEnt struct {
	name string
	ino  int
}
type gDop struct {
	kind int // 0 link, 1 rename, 2 unlink
	a, b string
	ino  int
}
type gFs struct {
	ents, dents []gEnt
	pdir        []gDop
	inos        map[int]*gIno
	next        int
}

func gLookup(e []gEnt, n string) int {
	for i, x := range e {
		if x.name == n {
			return i
		}
	}
	return -1
}
func gSet(e []gEnt, n string, ino int) []gEnt {
	e = append([]gEnt{}, e...)
	if i := gLookup(e, n); i >= 0 {
		e[i].ino = ino
		return e
	}
	return append(e, gEnt{n, ino})
}
func gRemove(e []gEnt, n string) []gEnt {
	var o []gEnt
	for _, x := range e {
		if x.name != n {
			o = append(o, x)
		}
	}
	return o
}
func gRename(e []gEnt, a, b string) []gEnt {
	i := gLookup(e, a)
	if i < 0 {
		return e
	}
	ino := e[i].ino
	return gSet(gRemove(e, a), b, ino)
}
func gDapply(e []gEnt, o gDop) []gEnt {
	switch o.kind {
	case 0:
		return gSet(e, o.a, o.ino)
	case 1:
		return gSet(gRemove(e, o.a), o.b, o.ino)
	default:
		return gRemove(e, o.a)
	}
}

func gOfView(v []dirEnt) *gFs {
	fs := &gFs{inos: map[int]*gIno{}}
	for i, e := range v {
		b, _ := hex.DecodeString(e.Data)
		fs.ents = append(fs.ents, gEnt{e.Name, i})
		fs.inos[i] = &gIno{v: b, d: b}
	}
	fs.dents = append([]gEnt{}, fs.ents...)
	fs.next = len(v)
	return fs
}

type gOp struct {
	code int // as KOp
	a, b string
}

func (fs *gFs) apply(o gOp) {
	i := gLookup(fs.ents, o.a)
	switch o.code {
	case 0:
		if i >= 0 {
			x := fs.inos[fs.ents[i].ino]
			x.v, x.trunc = nil, true
		} else {
			fs.inos[fs.next] = &gIno{}
			fs.ents = gSet(fs.ents, o.a, fs.next)
			fs.pdir = append(fs.pdir, gDop{0, o.a, "", fs.next})
			fs.next++
		}
	case 1:
		if i >= 0 {
			x := fs.inos[fs.ents[i].ino]
			x.v = append(append([]byte{}, x.v...), []byte(o.b)...)
		}
	case 2:
		if i >= 0 {
			x := fs.inos[fs.ents[i].ino]
			x.d, x.trunc = x.v, false
		}
	case 3:
		if i >= 0 {
			fs.pdir = append(fs.pdir, gDop{1, o.a, o.b, fs.ents[i].ino})
			fs.ents = gRename(fs.ents, o.a, o.b)
		}
	case 4:
		if i >= 0 {
			fs.ents = gRemove(fs.ents, o.a)
			fs.pdir = append(fs.pdir, gDop{2, o.a, "", 0})
		}
	case 5:
		fs.dents = append([]gEnt{}, fs.ents...)
		fs.pdir = nil
	}
}

// setMetaOpsGo mirrors set_meta_ops (the backup is made only of a usable CURRENT).
func setMetaOpsGo(v []dirEnt, num int64) []gOp {
	content := manifestName(num) + "\n"
	p := fmt.Sprintf("CURRENT.%d", num)
	sw := []gOp{{0, p, ""}, {1, p, content}, {2, p, ""}, {3, p, "CURRENT"}, {5, "", ""}}
	for _, e := range v {
		if e.Name == "CURRENT" {
			b := unhexs(e.Data)
			if b == content {
				return nil
			}
			usable := false
			if len(b) > 0 && b[len(b)-1] == '\n' {
				if fd, ok := storage.VerifParseName(b[:len(b)-1]); ok {
					if g, ok := storage.VerifGenName(fd); ok {
						usable = hasEnt(v, g)
					}
				}
			}
			if !usable {
				return sw
			}
			return append([]gOp{{0, "CURRENT.bak", ""}, {1, "CURRENT.bak", b}, {2, "CURRENT.bak", ""}}, sw...)
		}
	}
	return sw
}

func opsOfObs(o []obsOp) []gOp {
	var l []gOp
	for _, x := range o {
		l = append(l, gOp{x.Code, unhexs(x.A), unhexs(x.B)})
	}
	return l
}

func (k *fsK) crashStates(scs []*crashScen, thorough bool) {
	M := manifestName
	budget := 40
	if thorough {
		budget = 1500
	}
	for _, s := range scs {
		pre := s.pre
		var ops []gOp
		if s.ops != nil {
			ops = opsOfObs(s.ops) // the operations the real call issued (strace)
		} else if s.kind == 0 {
			ops = setMetaOpsGo(pre, s.m1)
		} else {
			continue
		}
		type cand struct {
			k    int
			mask []bool
			sel  map[int]int
		}
		var cands []cand
		for kk := 0; kk <= len(ops); kk++ {
			fs := gOfView(pre)
			for _, o := range ops[:kk] {
				fs.apply(o)
			}
			np := len(fs.pdir)
			if np > 6 {
				np = 6
			}
			// inodes that are not synced
			var dirty []int
			for id, x := range fs.inos {
				if x.trunc || !bytes.Equal(x.v, x.d) {
					dirty = append(dirty, id)
				}
			}
			sort.Ints(dirty)
			for m := 0; m < 1<<uint(np); m++ {
				mask := make([]bool, np)
				for j := range mask {
					mask[j] = m&(1<<uint(j)) != 0
				}
				// data choices: synced; or cut at 0, a middle point, the full length
				sels := []map[int]int{{}}
				for _, id := range dirty {
					x := fs.inos[id]
					var nx []map[int]int
					cuts := map[int]bool{0: true, len(x.v): true, len(x.v) / 2: true}
					if len(x.v) > 0 {
						cuts[len(x.v)-1] = true
					}
					var cl []int
					for c := range cuts {
						cl = append(cl, c)
					}
					sort.Ints(cl)
					for _, base := range sels {
						nx = append(nx, base)
						for _, c := range cl {
							mm := map[int]int{}
							for a, b := range base {
								mm[a] = b
							}
							mm[id] = c
							nx = append(nx, mm)
						}
					}
					sels = nx
				}
				for _, sel := range sels {
					cands = append(cands, cand{kk, mask, sel})
				}
			}
		}
		k.stats["fsk_crash_states_enumerated"] += len(cands)
		// deterministic order, then a random sample
		sort.SliceStable(cands, func(i, j int) bool { return cands[i].k < cands[j].k })
		picked := map[int]bool{}
		for len(picked) < budget && len(picked) < len(cands) {
			picked[k.r.Intn(len(cands))] = true
		}
		var idx []int
		for i := range picked {
			idx = append(idx, i)
		}
		sort.Ints(idx)
		for _, ci := range idx {
			c := cands[ci]
			fs := gOfView(pre)
			for _, o := range ops[:c.k] {
				fs.apply(o)
			}
			e := append([]gEnt{}, fs.dents...)
			for j, o := range fs.pdir {
				if j < len(c.mask) && c.mask[j] {
					e = gDapply(e, o)
				}
			}
			var img []dirEnt
			for _, x := range e {
				in := fs.inos[x.ino]
				data := in.d
				if cut, ok := c.sel[x.ino]; ok {
					if in.trunc || len(in.d) <= cut {
						if cut > len(in.v) {
							cut = len(in.v)
						}
						data = in.v[:cut]
					}
				}
				img = append(img, dirEnt{x.name, hex.EncodeToString(data)})
			}
			sort.Slice(img, func(i, j int) bool { return img[i].Name < img[j].Name })
			dir := k.tmp()
			if err := writeDir(dir, img); err != nil {
				k.fail("cannot build a crash state: %v", err)
				continue
			}
			st, err := storage.OpenFile(dir, true)
			if err != nil {
				k.fail("OpenFile of a crash state: %v", err)
				os.RemoveAll(dir)
				continue
			}
			fd, gerr := st.GetMeta()
			st.Close()
			cls := metaClass(gerr)
			if cls == 0 && fd.Type == storage.TypeManifest && c.k == len(ops) && fd.Num != s.m1 {
				k.fail("after the COMPLETED %s (%s -> %s) from { %s} a crash image { %s} answers %v, not the new manifest",
					map[int]string{0: "manifest switch", 1: "repair of a read-write GetMeta"}[s.kind], M(s.m0), M(s.m1), showDir(pre), showDir(img), fd)
			}
			if cls != 0 || fd.Type != storage.TypeManifest || (fd.Num != s.m0 && fd.Num != s.m1) {
				k.fail("crash during %s (%s -> %s) from { %s}: after %d of its %d file-system operations, with the unsynced directory operations kept as %v and the unsynced files cut at %v, the directory is { %s} and GetMeta answers (%v, %v): neither the old nor the new manifest",
					map[int]string{0: "the manifest switch", 1: "the repair of a read-write GetMeta"}[s.kind], M(s.m0), M(s.m1), showDir(pre), c.k, len(ops), c.mask, c.sel, showDir(img), fd, gerr)
			}
			// also read-write: the answer must be the same set, and (P) the repaired directory answers the same again
			st2, err := storage.OpenFile(dir, false)
			if err == nil {
				fd2, gerr2 := st2.GetMeta()
				fd3, gerr3 := st2.GetMeta()
				st2.Close()
				if metaClass(gerr2) != cls || fd2 != fd || metaClass(gerr3) != cls || fd3 != fd {
					k.fail("crash state of the switch %s -> %s { %s}: read-only GetMeta answers (%v, %v), read-write (%v, %v), again (%v, %v)", M(s.m0), M(s.m1), showDir(img), fd, gerr, fd2, gerr2, fd3, gerr3)
				}
			}
			os.RemoveAll(dir)
			ty, num := 0, int64(0)
			if cls == 0 {
				ty, num = ftCode(fd.Type), fd.Num
			}
			var selItems []string
			var selKeys []int
			for id := range c.sel {
				selKeys = append(selKeys, id)
			}
			sort.Ints(selKeys)
			for _, id := range selKeys {
				selItems = append(selItems, fmt.Sprintf("(%d, %d)", id, c.sel[id]))
			}
			maskItems := make([]string, len(c.mask))
			for j, b := range c.mask {
				maskItems[j] = vlib.CoqBool(b)
			}
			k.add(fmt.Sprintf("KCrash %d %s %s 1 %s %d [%s] [%s] %s %d %d %s", s.kind, coqDir(pre), coqZ(s.m0), coqZ(s.m1), c.k, strings.Join(maskItems, "; "),
				strings.Join(selItems, "; "), coqDir(img), cls, ty, coqZ(num)),
				map[string]interface{}{"crash": map[string]interface{}{"m0": s.m0, "m1": s.m1, "k": c.k, "mask": c.mask, "sel": fmt.Sprint(c.sel), "img": img, "res": cls, "fd": fd.String()}})
			k.stats["fsk_crash_cases"]++
			k.stats[fmt.Sprintf("fsk_crash_answer_%s", map[bool]string{true: "old", false: "new"}[fd.Num == s.m0])]++
		}
	}
}

// ------------------------------------------------------------------------------------------------ lifecycle of the storage object

func serrCode(err error) int {
	switch {
	case err == nil:
		return 0
	case err == storage.ErrClosed:
		return 1
	case err == storage.ErrLocked:
		return 2
	case strings.Contains(err.Error(), "storage is read-only"):
		return 3
	case err == storage.ErrInvalidFile:
		return 4
	case errors.Is(err, syscall.EAGAIN) || errors.Is(err, syscall.EWOULDBLOCK):
		return 5
	case errors.Is(err, os.ErrNotExist):
		return 6
	}
	return 99
}

func (k *fsK) life(thorough bool) {
	r := k.r
	nseq := 24
	if thorough {
		nseq = 400
	}
	for q := 0; q < nseq; q++ {
		dir := k.tmp()
		exists := r.Chance(4, 5)
		startExists := exists
		if exists {
			writeDir(dir, []dirEnt{{manifestName(1), mustHex("m")}, {"CURRENT", mustHex(manifestName(1) + "\n")}})
		}
		type lk struct {
			s  int
			id int
			l  storage.Locker
		}
		var stors []storage.Storage
		var ros []bool
		var nlock []int
		var lockers []lk
		var steps []string
		var trace []string
		bad := false
		tmpn := int64(100)
		for i, n := 0, r.Range(8, 30); i < n && !bad; i++ {
			var call string
			var err error
			si := 0
			if len(stors) > 0 {
				si = r.Intn(len(stors))
			}
			kind := r.Pick(4, 5, 4, 3, 8)
			if len(stors) == 0 {
				kind = 0
			}
			switch kind {
			case 0:
				ro := r.Chance(2, 5)
				var st storage.Storage
				st, err = storage.OpenFile(dir, ro)
				if err == nil {
					stors, ros, nlock = append(stors, st), append(ros, ro), append(nlock, 0)
					if !exists {
						exists = true
					}
					if !ro {
						// the files the guarded methods below need
						if _, e := os.Stat(filepath.Join(dir, manifestName(1))); e != nil {
							os.WriteFile(filepath.Join(dir, manifestName(1)), []byte("m"), 0o644)
							os.WriteFile(filepath.Join(dir, "CURRENT"), []byte(manifestName(1)+"\n"), 0o644)
						}
					}
				}
				call = fmt.Sprintf("FOpenFile %s", vlib.CoqBool(ro))
			case 1:
				var l storage.Locker
				l, err = stors[si].Lock()
				if err == nil {
					if ros[si] {
						lockers = append(lockers, lk{-1, 0, l})
					} else {
						lockers = append(lockers, lk{si, nlock[si], l})
						nlock[si]++
					}
				}
				call = fmt.Sprintf("FLock %d%%nat", si)
			case 2:
				if len(lockers) == 0 {
					continue
				}
				l := lockers[r.Intn(len(lockers))]
				l.l.Unlock()
				if l.s < 0 {
					call = "FUnlock LKnone"
				} else {
					call = fmt.Sprintf("FUnlock (LK %d%%nat %d)", l.s, l.id)
				}
			case 3:
				err = stors[si].Close()
				call = fmt.Sprintf("FClose %d%%nat", si)
			default:
				st := stors[si]
				okfd := r.Chance(3, 4)
				man := storage.FileDesc{Type: storage.TypeManifest, Num: 1}
				badfd := storage.FileDesc{Type: storage.TypeManifest, Num: -1}
				if r.Bool() {
					badfd = storage.FileDesc{Type: storage.FileType(3), Num: 1}
				}
				pick := func(good storage.FileDesc) storage.FileDesc {
					if okfd {
						return good
					}
					return badfd
				}
				tmpn++
				tfd := storage.FileDesc{Type: storage.TypeTemp, Num: tmpn}
				switch r.Intn(7) {
				case 0:
					err = st.SetMeta(pick(man))
					call = fmt.Sprintf("FMeth %d%%nat (MSetMeta %s)", si, vlib.CoqBool(okfd))
				case 1:
					_, err = st.GetMeta()
					call = fmt.Sprintf("FMeth %d%%nat MGetMeta", si)
				case 2:
					_, err = st.List(storage.TypeAll)
					call = fmt.Sprintf("FMeth %d%%nat MList", si)
				case 3:
					var rd storage.Reader
					rd, err = st.Open(pick(man))
					if err == nil {
						rd.Close()
					}
					call = fmt.Sprintf("FMeth %d%%nat (MOpen %s)", si, vlib.CoqBool(okfd))
				case 4:
					var w storage.Writer
					w, err = st.Create(pick(tfd))
					if err == nil {
						w.Close()
					}
					call = fmt.Sprintf("FMeth %d%%nat (MCreate %s)", si, vlib.CoqBool(okfd))
				case 5:
					os.WriteFile(filepath.Join(dir, fmt.Sprintf("%06d.tmp", tmpn)), []byte("x"), 0o644)
					err = st.Remove(pick(tfd))
					call = fmt.Sprintf("FMeth %d%%nat (MRemove %s)", si, vlib.CoqBool(okfd))
				default:
					os.WriteFile(filepath.Join(dir, fmt.Sprintf("%06d.tmp", tmpn)), []byte("x"), 0o644)
					same := r.Chance(1, 3)
					to := storage.FileDesc{Type: storage.TypeTemp, Num: tmpn + 500}
					if same {
						to = pick(tfd)
					}
					err = st.Rename(pick(tfd), to)
					call = fmt.Sprintf("FMeth %d%%nat (MRename %s %s)", si, vlib.CoqBool(okfd), vlib.CoqBool(same))
				}
			}
			code := serrCode(err)
			if code == 99 {
				k.fail("storage call %s on %s: unexpected error %v (after %v)", call, dir, err, trace)
				bad = true
				break
			}
			steps = append(steps, fmt.Sprintf("(%s, %d)", call, code))
			trace = append(trace, fmt.Sprintf("%s=%d", call, code))
			k.stats[fmt.Sprintf("fsk_life_code_%d", code)]++
		}
		for _, st := range stors {
			st.Close()
		}
		os.RemoveAll(dir)
		if bad {
			continue
		}
		k.add(fmt.Sprintf("KLife %s [%s]", vlib.CoqBool(startExists), strings.Join(steps, "; ")), map[string]interface{}{"life": trace})
		k.stats["fsk_life_cases"]++
		k.stats["fsk_life_steps"] += len(steps)
	}
}

// ------------------------------------------------------------------------------------------------ a failed SetMeta in a live session

// sessionChild is the process of sessionFaultChecks: a real DB on the real file storage whose every commit starts
// a new manifest (MaxManifestFileSize 1).  CURRENT is made immutable (chattr +i), so the rename at the end of
// the next setMeta fails AFTER the pending file CURRENT.<n> was written and synced; newManifest removes
// MANIFEST-<n> and the flush is retried by the compaction loop.  When the parent says go (it has attached
// strace by then) the flag is cleared and the retried commit runs — until strace kills the process.
func sessionChild(dir string) {
	fail := func(code int, f string, a ...interface{}) {
		fmt.Fprintf(os.Stderr, f+"\n", a...)
		os.Exit(code)
	}
	o := &opt.Options{MaxManifestFileSize: 1, WriteBuffer: 64 << 10}
	db, err := leveldb.OpenFile(dir, o)
	if err != nil {
		fail(4, "OpenFile: %v", err)
	}
	put := func(lo, hi int) {
		for i := lo; i < hi; i++ {
			if err := db.Put([]byte(fmt.Sprintf("k%02d", i)), []byte(fmt.Sprintf("v%02d", i)), &opt.WriteOptions{Sync: true}); err != nil {
				fail(4, "Put: %v", err)
			}
		}
	}
	put(0, 20)
	if err := db.CompactRange(util.Range{}); err != nil {
		fail(4, "CompactRange: %v", err)
	}
	leveldb.VerifWaitIdle(db, 5*time.Second)
	cur := filepath.Join(dir, "CURRENT")
	if out, err := exec.Command("chattr", "+i", cur).CombinedOutput(); err != nil {
		fail(5, "chattr +i: %v %s", err, out)
	}
	put(20, 30)
	done := make(chan error, 1)
	go func() { done <- db.CompactRange(util.Range{}) }()
	// wait for the failed setMeta: a pending file whose manifest is gone
	deadline := time.Now().Add(8 * time.Second)
	for seen := false; !seen; {
		if time.Now().After(deadline) {
			exec.Command("chattr", "-i", cur).Run()
			fail(6, "the commit did not fail")
		}
		ents, _ := os.ReadDir(dir)
		for _, e := range ents {
			var n int64
			if _, err := fmt.Sscanf(e.Name(), "CURRENT.%d", &n); err == nil && e.Name() != "CURRENT.bak" {
				if _, err := os.Stat(filepath.Join(dir, manifestName(n))); err != nil {
					seen = true
				}
			}
		}
		time.Sleep(2 * time.Millisecond)
	}
	os.WriteFile(dir+".ready", nil, 0o644)
	for deadline = time.Now().Add(15 * time.Second); ; time.Sleep(time.Millisecond) {
		if _, err := os.Stat(dir + ".go"); err == nil {
			break
		}
		if time.Now().After(deadline) {
			exec.Command("chattr", "-i", cur).Run()
			fail(7, "no go")
		}
	}
	exec.Command("chattr", "-i", cur).Run()
	select {
	case <-done: // the flush that met the fault: it fails, or was retried by the compaction loop
	case <-time.After(30 * time.Second):
		fail(8, "the flush that met the fault did not return")
	}
	// the DB commits again: the compaction loop retries the flush (back-off 1 s); CompactRange reports the
	// transient error until the retry went through
	for t0 := time.Now(); ; time.Sleep(50 * time.Millisecond) {
		err := db.CompactRange(util.Range{})
		if err == nil {
			break
		}
		if time.Since(t0) > 25*time.Second {
			fail(8, "the commit after the fault was lifted: %v", err)
		}
	}
	put(30, 31)
	if err := db.CompactRange(util.Range{}); err != nil {
		fail(8, "the second commit after the fault was lifted: %v", err)
	}
	if err := db.Close(); err != nil {
		fail(8, "Close: %v", err)
	}
	os.Exit(0)
}

// sessionFaultChecks: (P) through the REAL session on the real file storage.  After a SetMeta that failed once
// its pending file was written, the DB commits again; the process is killed entering the first openat / write /
// fsync / renameat / unlinkat on the new manifests, on the CURRENT family, or on the directory (one run per
// combination, plus one run that is not killed).  Whatever is left: GetMeta answers a manifest leveldb.OpenFile
// can open, read-only and read-write, and every write acknowledged with Sync is there.
func (k *fsK) sessionFaultChecks() {
	exe, err := os.Executable()
	if err != nil || k.stats["fsk_strace_unavailable"] > 0 {
		return
	}
	if _, err := exec.LookPath("chattr"); err != nil {
		k.notes = append(k.notes, "chattr is not installed: the failed-SetMeta-in-a-live-session scenario is not run")
		return
	}
	type variant struct{ sc, group string }
	vars := []variant{{"", ""}}
	for _, sc := range []string{"openat", "write", "fsync", "renameat", "unlinkat"} {
		for _, g := range []string{"manifest", "current", "dir"} {
			vars = append(vars, variant{sc, g})
		}
	}
	type outc struct {
		fail, note string
		killed    bool
	}
	res := make([]outc, len(vars))
	var wg sync.WaitGroup
	for vi, v := range vars {
		wg.Add(1)
		go func(vi int, v variant) {
			defer wg.Done()
			o := &res[vi]
			dir := filepath.Join(k.root, fmt.Sprintf("sess%02d", vi))
			defer func() {
				exec.Command("chattr", "-i", filepath.Join(dir, "CURRENT")).Run()
				os.RemoveAll(dir)
				os.Remove(dir + ".ready")
				os.Remove(dir + ".go")
			}()
			child := exec.Command(exe)
			child.Env = append(os.Environ(), "C18_FS_SESSION="+dir)
			var cerr bytes.Buffer
			child.Stderr = &cerr
			if err := child.Start(); err != nil {
				o.fail = "cannot start the session child: " + err.Error()
				return
			}
			exited := make(chan error, 1)
			go func() { exited <- child.Wait() }()
			// wait for the failed SetMeta
			ready := false
			for t0 := time.Now(); time.Since(t0) < 20*time.Second && !ready; time.Sleep(2 * time.Millisecond) {
				if _, err := os.Stat(dir + ".ready"); err == nil {
					ready = true
				}
				select {
				case err := <-exited:
					code := -1
					if ee, ok := err.(*exec.ExitError); ok {
						code = ee.ExitCode()
					}
					if code == 5 {
						o.note = "chattr +i is not supported on the temporary directory: the failed-SetMeta-in-a-live-session scenario is not run (" + strings.TrimSpace(cerr.String()) + ")"
					} else {
						o.fail = fmt.Sprintf("the session child stopped before the fault (exit %d): %s", code, strings.TrimSpace(cerr.String()))
					}
					return
				default:
				}
			}
			if !ready {
				child.Process.Kill()
				o.fail = "the session child never reached the failed SetMeta"
				return
			}
			pre, _ := listDir(dir)
			var tracer *exec.Cmd
			if v.sc != "" {
				var curNum int64
				for _, e := range pre {
					if e.Name == "CURRENT" {
						fmt.Sscanf(unhexs(e.Data), "MANIFEST-%d", &curNum)
					}
				}
				args := []string{"-f", "-p", strconv.Itoa(child.Process.Pid), "-o", "/dev/null"}
				switch v.group {
				case "manifest":
					for n := curNum + 1; n <= curNum+24; n++ {
						args = append(args, "-P", filepath.Join(dir, manifestName(n)))
					}
				case "current":
					args = append(args, "-P", filepath.Join(dir, "CURRENT"), "-P", filepath.Join(dir, "CURRENT.bak"))
					for n := curNum + 1; n <= curNum+24; n++ {
						args = append(args, "-P", filepath.Join(dir, fmt.Sprintf("CURRENT.%d", n)))
					}
				default:
					args = append(args, "-P", dir)
				}
				args = append(args, "-e", "trace="+v.sc, "-e", "inject="+v.sc+":signal=SIGKILL")
				tracer = exec.Command("strace", args...)
				stderr, _ := tracer.StderrPipe()
				if err := tracer.Start(); err != nil {
					child.Process.Kill()
					o.fail = "cannot attach strace: " + err.Error()
					return
				}
				sc := bufio.NewScanner(stderr)
				att := make(chan bool, 1)
				go func() {
					sent := false
					for sc.Scan() {
						if !sent && strings.Contains(sc.Text(), "attached") {
							att <- true
							sent = true
						}
					}
					if !sent {
						att <- false
					}
				}()
				select {
				case ok := <-att:
					if !ok {
						child.Process.Kill()
						o.note = "strace could not attach to the session child: kill points of the retried commit not examined"
						return
					}
				case <-time.After(10 * time.Second):
					child.Process.Kill()
					tracer.Process.Kill()
					o.fail = "strace did not attach in time"
					return
				}
				time.Sleep(30 * time.Millisecond) // the remaining threads
			}
			os.WriteFile(dir+".go", nil, 0o644)
			var werr error
			select {
			case werr = <-exited:
			case <-time.After(60 * time.Second):
				child.Process.Kill()
				o.fail = "the session child hangs after the fault was lifted"
				return
			}
			if tracer != nil {
				tracer.Wait()
			}
			if werr != nil {
				if ee, ok := werr.(*exec.ExitError); ok && ee.ExitCode() >= 0 {
					o.fail = fmt.Sprintf("after a SetMeta that failed once (immutable CURRENT) the session did not recover (exit %d): %s", ee.ExitCode(), strings.TrimSpace(cerr.String()))
					return
				}
				o.killed = true
			}
			exec.Command("chattr", "-i", filepath.Join(dir, "CURRENT")).Run()
			left, _ := listDir(dir)
			where := "the session completed"
			if o.killed {
				where = fmt.Sprintf("the process was killed entering its first %s on the %s files of the retried commit", v.sc, v.group)
			}
			ctx := fmt.Sprintf("live session, SetMeta failed after writing its pending file (directory then: %s), the commit was retried, %s; directory left: %s", namesOf(pre), where, namesOf(left))
			st, err := storage.OpenFile(dir, true)
			if err != nil {
				o.fail = ctx + ": storage.OpenFile: " + err.Error()
				return
			}
			fd, gerr := st.GetMeta()
			st.Close()
			if gerr != nil {
				o.fail = fmt.Sprintf("%s: GetMeta: %v", ctx, gerr)
				return
			}
			for _, ro := range []bool{true, false} {
				d2, oerr := leveldb.OpenFile(dir, &opt.Options{ReadOnly: ro, ErrorIfMissing: true})
				if oerr != nil {
					o.fail = fmt.Sprintf("%s: GetMeta answers %v and leveldb.OpenFile(ReadOnly=%v) fails: %v", ctx, fd, ro, oerr)
					return
				}
				for i := 0; i < 30; i++ {
					if v, err := d2.Get([]byte(fmt.Sprintf("k%02d", i)), nil); err != nil || string(v) != fmt.Sprintf("v%02d", i) {
						o.fail = fmt.Sprintf("%s: the write k%02d acknowledged with Sync reads (%q, %v) after OpenFile(ReadOnly=%v)", ctx, i, v, err, ro)
						break
					}
				}
				d2.Close()
				if o.fail != "" {
					return
				}
			}
		}(vi, v)
	}
	wg.Wait()
	for _, o := range res {
		if o.fail != "" {
			k.fail("%s", o.fail)
		}
		if o.note != "" && len(k.notes) < 6 {
			k.notes = append(k.notes, o.note)
		}
		if o.note == "" && o.fail == "" {
			k.stats["fsk_session_fault_runs"]++
			if o.killed {
				k.stats["fsk_session_fault_kill_points"]++
			}
		}
	}
}

func namesOf(l []dirEnt) string {
	var n []string
	for _, e := range l {
		if strings.HasPrefix(e.Name, "CURRENT") {
			n = append(n, fmt.Sprintf("%s=%q", e.Name, unhexs(e.Data)))
		} else {
			n = append(n, e.Name)
		}
	}
	return "{" + strings.Join(n, " ") + "}"
}

// fsModelChecks runs everything above; the (K) cases it returns are appended to the check's case files.
func fsModelChecks(r *vlib.RNG, base string, thorough bool) (cases []kcase, fails []string, stats map[string]int, notes []string, known map[string]string) {
	known = map[string]string{}
	root, err := os.MkdirTemp(base, "c18fsk")
	if err != nil {
		return nil, []string{"file storage model: cannot create a temporary directory: " + err.Error()}, map[string]int{}, nil, known
	}
	defer os.RemoveAll(root)
	k := &fsK{r: r, root: root, stats: map[string]int{}}
	k.names(thorough)
	k.dirs(thorough)
	crash := crashScenarios(root)
	k.strace(crash)
	k.crashStates(crash, thorough)
	k.killPoints(crash, thorough)
	k.life(thorough)
	k.sessionFaultChecks()
	return k.cases, k.fails, k.stats, k.notes, known
}
