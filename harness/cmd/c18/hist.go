package main

import (
	"bytes"
	"errors"
	"fmt"
	"strings"
	"time"

	"github.com/syndtr/goleveldb/leveldb"
	"github.com/syndtr/goleveldb/leveldb/comparer"
	"github.com/syndtr/goleveldb/leveldb/iterator"
	"github.com/syndtr/goleveldb/leveldb/opt"
	"github.com/syndtr/goleveldb/leveldb/storage"
	"github.com/syndtr/goleveldb/leveldb/util"
	"verifharness/lib/dbh"
	"verifharness/lib/vlib"
	"verifharness/lib/vstor"
)

// (P) on the implementation: prior histories ending in each situation, then the read-only, switched-read-only,
// closed and released-handle contracts checked with the storage's operation log.

const (
	sitJournalOnly = iota // data only in the journal / write buffer
	sitTables             // data in tables at several levels, background work drained
	sitPending            // tiny level-0 trigger, burst of writes, Close while compaction is pending
	sitOpenTxn            // a transaction with flushed tables is open at Close
	sitLiveHandles        // live snapshots and iterators at Close
	numSits
)

var sitNames = [...]string{"journal-only", "tables", "pending-compaction", "open-transaction", "live-handles"}

type reader interface {
	Get(key []byte, ro *opt.ReadOptions) ([]byte, error)
	Has(key []byte, ro *opt.ReadOptions) (bool, error)
	NewIterator(slice *util.Range, ro *opt.ReadOptions) iterator.Iterator
}

// checkData compares Get/Has of every pool key and of absent keys plus a full forward and backward iteration
// with the oracle map.
func checkData(rd reader, view dbh.Oracle, pool []dbh.HexBytes, cmp comparer.Comparer, what string) string {
	keys := make([][]byte, 0, len(pool)+3)
	for _, k := range pool {
		keys = append(keys, k)
	}
	keys = append(keys, []byte("\x02absent-0"), []byte("\x02absent-1"), []byte("zzzz\xff"))
	for _, k := range keys {
		want, ok := view[string(k)]
		v, err := rd.Get(k, nil)
		if ok {
			if err != nil {
				return fmt.Sprintf("%s: Get(%x) error %v, oracle has a %d-byte value", what, k, err, len(want))
			}
			if !bytes.Equal(v, want) {
				return fmt.Sprintf("%s: Get(%x) returns %d bytes, oracle says %d bytes (different content)", what, k, len(v), len(want))
			}
		} else if err != leveldb.ErrNotFound {
			return fmt.Sprintf("%s: Get(%x) = %d bytes err=%v, oracle says not found", what, k, len(v), err)
		}
		h, err := rd.Has(k, nil)
		if err != nil || h != ok {
			return fmt.Sprintf("%s: Has(%x) = %v err=%v, oracle says %v", what, k, h, err, ok)
		}
	}
	want := view.Sorted(cmp, nil, nil, false, false)
	it := rd.NewIterator(nil, nil)
	defer it.Release()
	i := 0
	for ok := it.First(); ok; ok = it.Next() {
		if i >= len(want) || !bytes.Equal(it.Key(), want[i].K) || !bytes.Equal(it.Value(), want[i].V) {
			return fmt.Sprintf("%s: forward iteration differs from the oracle at pair %d (key %x; oracle has %d pairs)", what, i, it.Key(), len(want))
		}
		i++
	}
	if err := it.Error(); err != nil {
		return fmt.Sprintf("%s: iteration error %v", what, err)
	}
	if i != len(want) {
		return fmt.Sprintf("%s: forward iteration yields %d pairs, oracle has %d", what, i, len(want))
	}
	i = len(want) - 1
	for ok := it.Last(); ok; ok = it.Prev() {
		if i < 0 || !bytes.Equal(it.Key(), want[i].K) || !bytes.Equal(it.Value(), want[i].V) {
			return fmt.Sprintf("%s: backward iteration differs from the oracle at pair %d", what, i)
		}
		i--
	}
	if i != -1 {
		return fmt.Sprintf("%s: backward iteration stops early (%d pairs missing)", what, i+1)
	}
	return ""
}

type mySnap struct {
	s      *leveldb.Snapshot
	frozen dbh.Oracle
}

type myIter struct {
	it   iterator.Iterator
	list []dbh.KV
	pos  int
}

// hist is one prior history with the handles the harness keeps.
type hist struct {
	r    *vlib.RNG
	sit  int
	cfg  dbh.Cfg
	prog *dbh.Program
	rn   *dbh.Runner
	// handles
	snaps     []*mySnap
	iters     []*myIter
	snapRel   *leveldb.Snapshot    // released before Close
	itRel     iterator.Iterator    // released before Close
	trCommit  *leveldb.Transaction // committed before Close
	trDiscard *leveldb.Transaction // discarded before Close
	trOpen    *leveldb.Transaction // open at Close
	stats     map[string]int
	fails     []string // (P) failures
	known     map[string]string
	logs      []string // observations that do not count (unreleased iterators after Close)
	switched  bool
}

func (h *hist) fail(f string, a ...interface{}) {
	if len(h.fails) < 8 {
		h.fails = append(h.fails, fmt.Sprintf(f, a...))
	}
}

func (h *hist) key() []byte { return h.prog.Pool[h.r.Intn(len(h.prog.Pool))] }

// expectErr runs a guarded call and requires the outcome class.
func (h *hist) expect(what string, want Out, f func() cres) cres {
	cr, pan, hung := guard(10*time.Second, f)
	switch {
	case hung:
		h.fail("%s: did not return within 10 s", what)
	case pan != "":
		h.fail("%s: panicked: %s", what, pan)
	case cr.out != want:
		h.fail("%s: outcome %s (%v), expected %s", what, cr.out, cr.err, want)
	case cr.nonzero != "" && want != Ok:
		h.fail("%s: returned %s together with %s", what, cr.nonzero, want)
	}
	return cr
}

func tweakCfg(r *vlib.RNG, sit int, c *dbh.Cfg) {
	if c.WriteBuffer > 8192 {
		c.WriteBuffer = 4096
	}
	// several levels within short programs
	if r.Chance(2, 3) {
		c.TotalSize = 4096
		if c.TableSize > 2048 {
			c.TableSize = 2048
		}
	}
	switch sit {
	case sitPending:
		c.L0Trigger = 1 + r.Intn(2)
		c.WriteBuffer = 1024
		c.TableSize = 1024
	case sitJournalOnly:
		if c.WriteBuffer < 4096 {
			c.WriteBuffer = 4096
		}
	}
}

// build runs the generated program (the dbh runner checks every read against the Go map) and puts the DB
// into the wanted situation. It returns false when the history itself failed.
func (h *hist) build(nops int) bool {
	r := h.r
	w := dbh.DefaultWeights()
	w.Snap, w.SnapRead, w.SnapRelease, w.IterOpen, w.IterStep, w.IterClose = 0, 0, 0, 0, 0, 0
	w.Txn, w.Reopen, w.Compact = 3, 2, 3
	pool := dbh.GenPool(r, r.Range(8, 40), r.Chance(1, 10))
	h.prog = dbh.GenProgram(r, h.cfg, pool, nops, w)
	rn, _ := dbh.NewRunner(h.prog, false)
	rn.Hooks = dbh.Hooks{CheckEvery: 16}
	h.rn = rn
	if err := rn.Open(); err != nil {
		h.fail("history: Open error %v", err)
		return false
	}
	for i := range h.prog.Ops {
		op := &h.prog.Ops[i]
		if f := rn.Step(i, op); f != nil {
			h.fail("history: %s", f.Error())
			return false
		}
		if rn.Txn != nil {
			continue
		}
		// own handles at random places (the runner's reopen closes the DB: ours are released before)
		if i+1 < len(h.prog.Ops) && h.prog.Ops[i+1].Kind == dbh.OpReopen {
			h.releaseHandles()
			continue
		}
		switch {
		case r.Chance(1, 20) && len(h.snaps) < 4:
			s, err := rn.DB.GetSnapshot()
			if err != nil {
				h.fail("history: GetSnapshot error %v", err)
				return false
			}
			h.snaps = append(h.snaps, &mySnap{s: s, frozen: rn.Model.Clone()})
		case r.Chance(1, 25) && len(h.iters) < 3:
			it := rn.DB.NewIterator(nil, nil)
			mi := &myIter{it: it, list: rn.Model.Sorted(rn.Cmp, nil, nil, false, false), pos: -1}
			for s := r.Intn(4); s > 0 && it.Next(); s-- {
				mi.pos++
			}
			h.iters = append(h.iters, mi)
		}
	}
	// ---- situation tails
	db := rn.DB
	switch h.sit {
	case sitJournalOnly:
		settle(db, rn.Stor, true, 20*time.Second)
		for i, n := 0, r.Range(2, 8); i < n; i++ {
			k := h.key()
			v := []byte(fmt.Sprintf("journal-only-%d", i))
			if err := db.Put(k, v, &opt.WriteOptions{Sync: r.Bool()}); err != nil {
				h.fail("history: Put error %v", err)
				return false
			}
			rn.Model[string(k)] = v
		}
		if r.Bool() {
			k := h.key()
			if err := db.Delete(k, nil); err != nil {
				h.fail("history: Delete error %v", err)
				return false
			}
			delete(rn.Model, string(k))
		}
	case sitTables:
		for i, n := 0, r.Range(80, 240); i < n; i++ {
			k := h.key()
			v := dbh.GenValue(r, h.cfg, k, uint64(1000+i))
			if err := db.Put(k, v, nil); err != nil {
				h.fail("history: Put error %v", err)
				return false
			}
			rn.Model[string(k)] = v
		}
		settle(db, rn.Stor, true, 20*time.Second)
	case sitPending:
		for i, n := 0, r.Range(60, 200); i < n; i++ {
			k := h.key()
			v := bytes.Repeat([]byte{byte('a' + i%26)}, r.Range(40, 300))
			if err := db.Put(k, v, nil); err != nil {
				h.fail("history: Put error %v", err)
				return false
			}
			rn.Model[string(k)] = v
		}
	case sitOpenTxn:
		// a committed and a discarded one first, then the one left open with enough data to own tables
		for _, commit := range []bool{true, false} {
			tr, err := db.OpenTransaction()
			if err != nil {
				h.fail("history: OpenTransaction error %v", err)
				return false
			}
			k := h.key()
			v := []byte("txn-value")
			tr.Put(k, v, nil)
			if commit {
				if err := tr.Commit(); err != nil {
					h.fail("history: Commit error %v", err)
					return false
				}
				rn.Model[string(k)] = v
				h.trCommit = tr
			} else {
				tr.Discard()
				h.trDiscard = tr
			}
		}
		tr, err := db.OpenTransaction()
		if err != nil {
			h.fail("history: OpenTransaction error %v", err)
			return false
		}
		for i, n := 0, r.Range(3, 30); i < n; i++ {
			tr.Put(h.key(), bytes.Repeat([]byte{'t'}, r.Range(10, h.cfg.WriteBuffer/2+10)), nil)
		}
		h.trOpen = tr
	case sitLiveHandles:
		for len(h.snaps) < 2 {
			s, _ := db.GetSnapshot()
			h.snaps = append(h.snaps, &mySnap{s: s, frozen: rn.Model.Clone()})
			k := h.key()
			v := []byte(fmt.Sprintf("after-snapshot-%d", len(h.snaps)))
			db.Put(k, v, nil)
			rn.Model[string(k)] = v
		}
		for len(h.iters) < 2 {
			it := db.NewIterator(nil, nil)
			mi := &myIter{it: it, list: rn.Model.Sorted(rn.Cmp, nil, nil, false, false), pos: -1}
			if it.Next() {
				mi.pos = 0
			}
			h.iters = append(h.iters, mi)
		}
	}
	// most histories also leave a little data only in the journal (pending-compaction ones do anyway)
	if (h.sit == sitTables || h.sit == sitLiveHandles) && r.Chance(3, 4) {
		settle(db, rn.Stor, true, 20*time.Second)
		for i, n := 0, r.Range(1, 4); i < n; i++ {
			k := h.key()
			v := []byte(fmt.Sprintf("tail-%d", i))
			if err := db.Put(k, v, nil); err != nil {
				h.fail("history: Put error %v", err)
				return false
			}
			rn.Model[string(k)] = v
		}
	}
	return true
}

func (h *hist) releaseHandles() {
	for _, s := range h.snaps {
		s.s.Release()
	}
	for _, it := range h.iters {
		it.it.Release()
	}
	h.snaps, h.iters = nil, nil
}

// nontrivial per rule (G): unflushed journal data and at least two populated levels.
func (h *hist) measure(db *leveldb.DB) (journalOnly int, levels int) {
	live, frozen, _ := leveldb.VerifMemEntries(db)
	journalOnly = len(live) + len(frozen)
	seen := map[int]bool{}
	for _, t := range leveldb.VerifDumpVersion(db) {
		seen[t.Level] = true
	}
	return journalOnly, len(seen)
}

// releasedHandles: part (e) on the open DB; also prepares snapRel / itRel for the after-Close checks.
func (h *hist) releasedHandles(db *leveldb.DB, st *vstor.Stor, idle bool, keep bool) {
	s, err := db.GetSnapshot()
	if err != nil {
		h.fail("GetSnapshot on an open DB: %v", err)
		return
	}
	it := db.NewIterator(nil, nil)
	it.First()
	sit := s.NewIterator(nil, nil)
	sit.Last()
	sit.Release()
	s.Release()
	it.Release()
	if idle {
		settle(db, st, true, 10*time.Second)
	}
	c0 := st.OpCount()
	k := h.key()
	h.expect("released snapshot: Get", ErrSnapshotReleased, func() cres { return templates["Snapshot.Get"](&hs{snap: s, key: k}) })
	h.expect("released snapshot: Has", ErrSnapshotReleased, func() cres { return templates["Snapshot.Has"](&hs{snap: s, key: k}) })
	cr := h.expect("released snapshot: NewIterator", ErrSnapshotReleased, func() cres { return templates["Snapshot.NewIterator"](&hs{snap: s}) })
	if cr.newIt != nil {
		if cr.newIt.First() || cr.newIt.Next() || cr.newIt.Valid() {
			h.fail("released snapshot: the iterator it returns moves")
		}
		cr.newIt.Release()
	}
	h.expect("released snapshot: String", Ok, func() cres { return templates["Snapshot.String"](&hs{snap: s}) })
	h.expect("released snapshot: second Release", Ok, func() cres { return templates["Snapshot.Release"](&hs{snap: s}) })
	// iterator: Error() stays nil until it is moved (the code), then every movement is false with ErrIterReleased
	for _, m := range []string{"Iterator.Next", "Iterator.Prev", "Iterator.First", "Iterator.Last", "Iterator.Seek"} {
		m := m
		for _, x := range []iterator.Iterator{it, sit} {
			x := x
			h.expect("released iterator: "+m, ErrIterReleased, func() cres { return templates[m](&hs{it: x, key: k}) })
		}
	}
	for _, m := range []string{"Iterator.Valid", "Iterator.Key", "Iterator.Value", "Iterator.Error", "Iterator.Release"} {
		m := m
		h.expect("released iterator: "+m, ErrIterReleased, func() cres { return templates[m](&hs{it: it}) })
	}
	if idle {
		if c1 := st.OpCount(); c1 != c0 {
			h.fail("calls on released handles performed %d storage operations", c1-c0)
		}
	}
	if keep {
		h.snapRel, h.itRel = s, it
	}
	h.stats["released_handle_checks"]++
}

// roExpectations: writes on a read-only DB.
func (h *hist) roWrites(db *leveldb.DB, what string) {
	k := h.key()
	big := new(leveldb.Batch)
	for i := 0; i < 8; i++ {
		big.Put([]byte(fmt.Sprintf("big-%d", i)), bytes.Repeat([]byte{'B'}, h.cfg.WriteBuffer/4+16))
	}
	for _, nm := range []bool{false, true} {
		wo := &opt.WriteOptions{NoWriteMerge: nm, Sync: nm}
		h.expect(what+": Put", ErrReadOnly, func() cres { e := db.Put(k, []byte("x"), wo); return cres{out: classify(e), err: e} })
		h.expect(what+": Delete", ErrReadOnly, func() cres { e := db.Delete(k, wo); return cres{out: classify(e), err: e} })
		h.expect(what+": Write", ErrReadOnly, func() cres {
			b := new(leveldb.Batch)
			b.Put(k, []byte("y"))
			e := db.Write(b, wo)
			return cres{out: classify(e), err: e}
		})
		h.expect(what+": Write(batch > WriteBuffer)", ErrReadOnly, func() cres { e := db.Write(big, wo); return cres{out: classify(e), err: e} })
	}
	h.expect(what+": OpenTransaction", ErrReadOnly, func() cres { return templates["DB.OpenTransaction"](&hs{db: db}) })
	h.expect(what+": CompactRange", ErrReadOnly, func() cres { return templates["DB.CompactRange"](&hs{db: db}) })
	h.expect(what+": SetReadOnly", ErrReadOnly, func() cres { return templates["DB.SetReadOnly"](&hs{db: db}) })
	h.expect(what+": Write(empty batch)", Ok, func() cres { e := db.Write(new(leveldb.Batch), nil); return cres{out: classify(e), err: e} })
	h.expect(what+": GetProperty", Ok, func() cres { return templates["DB.GetProperty"](&hs{db: db}) })
	h.expect(what+": Stats", Ok, func() cres { return templates["DB.Stats"](&hs{db: db}) })
	h.expect(what+": SizeOf", Ok, func() cres { return templates["DB.SizeOf"](&hs{db: db, key: k}) })
}

// readLoad: reads meant to provoke anything a read could schedule (absent keys between stored ones: seeks).
func (h *hist) readLoad(db *leveldb.DB, rounds int) {
	for r := 0; r < rounds; r++ {
		for _, k := range h.prog.Pool {
			db.Get(append(append([]byte{}, k...), 0x7), nil)
			db.Has(k, nil)
		}
	}
	it := db.NewIterator(nil, nil)
	for it.Next() {
	}
	for it.Prev() {
	}
	it.Release()
}

// roOpenCheck: part (b) — open a CLONE of the storage read-only; zero mutating storage operations ever; the
// data of the read-write history, journal-only data included; writes rejected.
func (h *hist) roOpenCheck(cl *vstor.Stor, view dbh.Oracle, what string) {
	cl.SetAudit(true)
	o := h.cfg.Options()
	o.ReadOnly = true
	var db *leveldb.DB
	nj := 0
	for _, fd := range cl.ListAll() {
		if fd.Type == storage.TypeJournal {
			nj++
		}
	}
	cr, pan, hung := guard(20*time.Second, func() cres {
		d, err := leveldb.Open(cl, o)
		db = d
		return cres{out: classify(err), err: err}
	})
	h.stats[fmt.Sprintf("ro_open_journal_files_%d", nj)]++
	if hung || pan != "" || cr.err != nil {
		h.fail("%s: read-only Open of a clone holding %d journal file(s) failed: err=%v hung=%v %s", what, nj, cr.err, hung, pan)
		return
	}
	if m := mutations(cl); len(m) > 0 {
		h.fail("%s: read-only Open issued %d mutating storage operations, first %s", what, len(m), m[0])
	}
	if d := checkData(db, view, h.prog.Pool, h.rn.Cmp, what+": read-only DB"); d != "" {
		h.fail("%s", d)
	}
	// a second owner is refused
	_, err := leveldb.Open(cl, o)
	if !errors.Is(err, storage.ErrLocked) {
		h.fail("%s: second Open while the read-only DB is open: err=%v, expected storage.ErrLocked", what, err)
	}
	h.roWrites(db, what+": read-only DB")
	s, err := db.GetSnapshot()
	if err != nil {
		h.fail("%s: GetSnapshot on a read-only DB: %v", what, err)
	} else {
		if d := checkData(s, view, h.prog.Pool, h.rn.Cmp, what+": snapshot of the read-only DB"); d != "" {
			h.fail("%s", d)
		}
		s.Release()
	}
	h.readLoad(db, 3)
	h.releasedHandles(db, cl, false, false)
	time.Sleep(time.Millisecond)
	if d := checkData(db, view, h.prog.Pool, h.rn.Cmp, what+": read-only DB after rejected writes"); d != "" {
		h.fail("%s", d)
	}
	h.expect(what+": Close of the read-only DB", Ok, func() cres { return templates["DB.Close"](&hs{db: db}) })
	time.Sleep(500 * time.Microsecond)
	if m := mutations(cl); len(m) > 0 {
		h.fail("%s: the read-only DB issued %d mutating storage operations, first %s", what, len(m), m[0])
	}
	if cl.Locked() {
		h.fail("%s: storage still locked after Close of the read-only DB", what)
	}
	h.stats["ro_open_checks"]++
}

// switchCheck: part (c) — SetReadOnly on the open read-write DB.
func (h *hist) switchCheck() {
	rn := h.rn
	db, st := rn.DB, rn.Stor
	st.SetAudit(true)
	h.expect("SetReadOnly on an open read-write DB", Ok, func() cres { return templates["DB.SetReadOnly"](&hs{db: db}) })
	h.switched = true
	h.roWrites(db, "switched read-only DB")
	if f := rn.CheckAll(true); f != nil {
		h.fail("switched read-only DB: %s", f.What)
	}
	for i, s := range h.snaps {
		if d := checkData(s.s, s.frozen, h.prog.Pool, rn.Cmp, fmt.Sprintf("switched read-only DB: live snapshot %d", i)); d != "" {
			h.fail("%s", d)
		}
	}
	// drain: the job that was running when SetReadOnly returned may finish; then the compaction goroutines leave
	stopped, stable := settleSwitched(db, st, 5*time.Second, 20*time.Second)
	if !stopped {
		h.stats["switch_compaction_goroutines_still_running_after_5s"]++
	}
	if !stable {
		h.stats["switch_not_idle"]++
		return
	}
	inflight := len(mutations(st))
	h.stats["switch_mutations_before_idle"] += inflight
	// quiet window: reads (they sample seeks and may send seek-compaction requests), rejected writes
	h.readLoad(db, 4)
	h.roWrites(db, "switched read-only DB (drained)")
	if d := checkData(db, rn.Model, h.prog.Pool, rn.Cmp, "switched read-only DB (drained)"); d != "" {
		h.fail("%s", d)
	}
	time.Sleep(2 * time.Millisecond)
	if stopped {
		settle(nil, st, false, 20*time.Second)
	} else {
		settle(db, st, true, 20*time.Second)
	}
	ms := mutations(st)
	if len(ms) > inflight {
		h.fail("after SetReadOnly on a DB opened read-write and after its background work had drained (compaction goroutines stopped: %v), reads and rejected writes caused %d further mutating storage operations (first %s; seek compaction disabled: %v)", stopped, len(ms)-inflight, ms[inflight], h.cfg.DisableSeeks)
	} else {
		h.stats["switch_quiet_after_idle"]++
	}
	h.stats["switch_checks"]++
}

// expectedClosed: the class every method must return once the DB is closed (own table of the harness, the Coq
// model's closed_outcome is compared through the (K) sequences).
func expectedClosed(name string, variant bool, handle string) Out {
	switch receiverOf(name) {
	case "DB":
		return ErrClosed
	case "Snapshot":
		switch name {
		case "Snapshot.String", "Snapshot.Release":
			return Ok
		}
		if handle == "released" {
			return ErrSnapshotReleased
		}
		return ErrClosed
	case "Transaction":
		switch name {
		case "Transaction.Commit":
			return ErrClosed
		case "Transaction.Discard":
			return Ok
		case "Transaction.Write":
			if variant {
				return Ok
			}
		}
		return ErrTransactionDone
	}
	return NoHandle
}

// closedCheck: part (d) — Close with everything outstanding, then every exported method.
func (h *hist) closedCheck(methods []string) bool {
	rn := h.rn
	db, st := rn.DB, rn.Stor
	var cerr error
	_, pan, hung := guard(10*time.Second, func() cres { cerr = db.Close(); return cres{} })
	if hung || pan != "" {
		h.fail("Close (%s at close) hung=%v %s", sitNames[h.sit], hung, pan)
		return false
	}
	if cerr != nil {
		h.fail("Close returned %v", cerr)
	}
	if st.Locked() {
		h.fail("storage lock still held after Close")
	}
	time.Sleep(300 * time.Microsecond)
	c0 := st.OpCount()
	k := h.key()
	v := []byte("after-close")
	type target struct {
		label  string
		handle string
		hs     hs
	}
	var targets []target
	targets = append(targets, target{"closed DB", "", hs{db: db}})
	for i, s := range h.snaps {
		targets = append(targets, target{fmt.Sprintf("snapshot %d live at Close", i), "live", hs{snap: s.s}})
	}
	if h.snapRel != nil {
		targets = append(targets, target{"snapshot released before Close", "released", hs{snap: h.snapRel}})
	}
	if h.trOpen != nil {
		targets = append(targets, target{"transaction open at Close", "", hs{tr: h.trOpen}})
	}
	if h.trCommit != nil {
		targets = append(targets, target{"transaction committed before Close", "", hs{tr: h.trCommit}})
	}
	if h.trDiscard != nil {
		targets = append(targets, target{"transaction discarded before Close", "", hs{tr: h.trDiscard}})
	}
	var fresh []iterator.Iterator
	for _, t := range targets {
		recv := "DB"
		switch {
		case t.hs.snap != nil:
			recv = "Snapshot"
		case t.hs.tr != nil:
			recv = "Transaction"
		}
		// Release / Discard / Close last
		var order []string
		for _, m := range methods {
			if receiverOf(m) == recv && m != "Snapshot.Release" {
				order = append(order, m)
			}
		}
		if recv == "Snapshot" {
			order = append(order, "Snapshot.Release")
		}
		for _, m := range order {
			tp, ok := templates[m]
			if !ok {
				continue // reported by main
			}
			for _, variant := range []bool{false, true} {
				if variant && m != "DB.Write" && m != "Transaction.Write" {
					continue
				}
				x := t.hs
				x.key, x.val, x.variant = k, v, variant
				want := expectedClosed(m, variant, t.handle)
				cr := h.expect(fmt.Sprintf("after Close, %s: %s", t.label, m), want, func() cres { return tp(&x) })
				if cr.newIt != nil {
					fresh = append(fresh, cr.newIt)
					if cr.newIt.First() || cr.newIt.Last() || cr.newIt.Next() || cr.newIt.Prev() || cr.newIt.Seek(k) || cr.newIt.Valid() || cr.newIt.Key() != nil || cr.newIt.Value() != nil {
						h.fail("after Close, %s: %s returned an iterator that moves", t.label, m)
					}
					if classify(cr.newIt.Error()) != want {
						h.fail("after Close, %s: iterator of %s reports %v after movement", t.label, m, cr.newIt.Error())
					}
				}
				if cr.newSnap != nil || cr.newTr != nil {
					h.fail("after Close, %s: %s returned a handle", t.label, m)
				}
				h.stats["closed_method_calls"]++
			}
		}
		if recv == "Snapshot" && t.handle == "live" {
			// now released after Close: its own error takes over
			x := t.hs
			x.key = k
			h.expect(fmt.Sprintf("%s, released after Close: Get", t.label), ErrSnapshotReleased, func() cres { return templates["Snapshot.Get"](&x) })
			h.expect(fmt.Sprintf("%s, released after Close: String", t.label), Ok, func() cres { return templates["Snapshot.String"](&x) })
		}
	}
	// iterators: released before Close, error iterators obtained after Close
	var its []target
	if h.itRel != nil {
		its = append(its, target{"iterator released before Close", "released", hs{it: h.itRel}})
	}
	for i, it := range fresh {
		if i < 3 {
			its = append(its, target{fmt.Sprintf("error iterator %d obtained after Close", i), "empty", hs{it: it}})
		}
	}
	for _, t := range its {
		var want Out
		if t.handle == "released" {
			want = ErrIterReleased
		} else {
			want = classify(t.hs.it.Error())
			if want == Ok {
				h.fail("after Close: %s has no error", t.label)
			}
		}
		for _, m := range methods {
			if receiverOf(m) != "Iterator" || m == "Iterator.SetReleaser" || m == "Iterator.Release" {
				continue
			}
			tp, ok := templates[m]
			if !ok {
				continue
			}
			x := t.hs
			x.key = k
			cr := h.expect(fmt.Sprintf("after Close, %s: %s", t.label, m), want, func() cres { return tp(&x) })
			if cr.nonzero != "" {
				h.fail("after Close, %s: %s: %s", t.label, m, cr.nonzero)
			}
			h.stats["closed_method_calls"]++
		}
		x := t.hs
		h.expect(fmt.Sprintf("after Close, %s: Release", t.label), want, func() cres { return templates["Iterator.Release"](&x) })
		// documented panic of util.ReleaseSetter on a released resource
		cr, pan, hung := guard(10*time.Second, func() cres { return templates["Iterator.SetReleaser"](&x) })
		if hung || cr.out != Panics {
			h.fail("after Close, %s: SetReleaser on a released iterator: outcome %s hung=%v, the documented behaviour is a panic with util.ErrReleased", t.label, cr.out, hung)
		} else if !strings.HasPrefix(pan, util.ErrReleased.Error()) {
			h.fail("after Close, %s: SetReleaser panicked with %q, documented is util.ErrReleased", t.label, pan)
		}
		h.stats["closed_method_calls"] += 2
	}
	h.expect("second Close", ErrClosed, func() cres { return templates["DB.Close"](&hs{db: db}) })
	if c1 := st.OpCount(); c1 != c0 {
		h.fail("calls after Close performed %d storage operations (operation log grew from %d to %d)", c1-c0, c0, c1)
	}
	// unreleased iterators of the closed DB: documented unsafe — exercised, logged, not part of the verdict
	for i, mi := range h.iters {
		cr, pan, hung := guard(10*time.Second, func() cres {
			n := 0
			for mi.it.Next() && n < 1000 {
				n++
			}
			e := mi.it.Error()
			mi.it.Release()
			return cres{err: e, detail: fmt.Sprintf("%d more pairs", n)}
		})
		h.logs = append(h.logs, fmt.Sprintf("unreleased iterator %d used after Close: %s err=%v hung=%v panic=%q", i, cr.detail, cr.err, hung, firstLine(pan)))
		h.stats["unreleased_iterator_after_close_logged"]++
	}
	h.iters = nil
	h.stats["closed_checks"]++
	return true
}

func firstLine(s string) string {
	for i := 0; i < len(s); i++ {
		if s[i] == '\n' {
			return s[:i]
		}
	}
	return s
}

// reopenCheck: the lock is free again, exclusive while held, and the data is the oracle's.
func (h *hist) reopenCheck() {
	rn := h.rn
	st := rn.Stor
	o := h.cfg.Options()
	var db *leveldb.DB
	cr, pan, hung := guard(30*time.Second, func() cres {
		d, err := leveldb.Open(st, o)
		db = d
		return cres{out: classify(err), err: err}
	})
	if hung || pan != "" || cr.err != nil {
		h.fail("Open after Close failed: err=%v hung=%v %s", cr.err, hung, pan)
		return
	}
	_, err := leveldb.Open(st, o)
	if !errors.Is(err, storage.ErrLocked) {
		h.fail("second Open while the DB is open: err=%v, expected storage.ErrLocked", err)
	}
	o2 := h.cfg.Options()
	o2.ReadOnly = true
	_, err = leveldb.Open(st, o2)
	if !errors.Is(err, storage.ErrLocked) {
		h.fail("read-only Open while the DB is open read-write: err=%v, expected storage.ErrLocked", err)
	}
	if !st.Locked() {
		h.fail("storage not locked while the DB is open")
	}
	if d := checkData(db, rn.Model, h.prog.Pool, rn.Cmp, "reopened DB"); d != "" {
		h.fail("%s", d)
	}
	h.expect("Close of the reopened DB", Ok, func() cres { return templates["DB.Close"](&hs{db: db}) })
	if st.Locked() {
		h.fail("storage lock still held after Close of the reopened DB")
	}
	h.stats["reopen_checks"]++
}

// runHistory executes one history with all its checks.
func runHistory(r *vlib.RNG, sit int, nops int, methods []string) *hist {
	h := &hist{r: r, sit: sit, stats: map[string]int{}, known: map[string]string{}}
	h.cfg = dbh.RandomCfg(r)
	tweakCfg(r, sit, &h.cfg)
	doSwitch := sit != sitOpenTxn && r.Chance(1, 2)
	_, pan, hung := guard(240*time.Second, func() cres {
		if !h.build(nops) {
			return cres{}
		}
		rn := h.rn
		db := rn.DB
		quiescent := sit != sitPending
		if quiescent {
			settle(db, rn.Stor, true, 20*time.Second)
		}
		jo, lv := h.measure(db)
		h.stats["journal_only_entries"] = jo
		h.stats["levels"] = lv
		if sit != sitOpenTxn && quiescent {
			h.releasedHandles(db, rn.Stor, true, true)
		}
		if quiescent {
			// clone of the live storage at a quiescent point (journal-only data lives only in the .log file)
			cl := rn.Stor.Clone(false)
			h.roOpenCheck(cl, rn.Model.Clone(), "clone of the open DB's storage")
		}
		if doSwitch {
			h.switchCheck()
		}
		if !h.closedCheck(methods) {
			return cres{}
		}
		cl := rn.Stor.Clone(false)
		h.roOpenCheck(cl, rn.Model.Clone(), "clone taken after Close ("+sitNames[sit]+")")
		rn.Forget()
		h.reopenCheck()
		return cres{}
	})
	if hung {
		h.fail("history did not finish within 240 s")
	}
	if pan != "" {
		h.fail("harness-level panic while running the history: %s", pan)
	}
	return h
}
