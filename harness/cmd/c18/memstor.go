// memstor.go: the storages goleveldb runs on, as storage.Storage values, against ONE contract (Props/C18M.v).
// One generated call sequence (Lock / Unlock / SetMeta / GetMeta / List / Open / Create / Remove / Rename / Close and
// Write / Sync / read / Close on the handles) is executed on the REAL storage.NewMemStorage(), on the REAL
// storage.OpenFile over a temporary directory (empty or pre-populated with old-style and foreign names) and on the
// checker's own vstor.  (P): every result is compared with a small oracle written here in Go (the contract plus
// the documented deviations of each storage, see the D / F / V lists in Props/C18M.v); (K): the same observations
// become KStor cases which the Coq models (Store/MemStorage.v, Store/FileStorageSeq.v, Store/StorContract.v) must
// predict exactly.
package main

import (
	"bytes"
	"errors"
	"fmt"
	"io"
	"os"
	"path/filepath"
	"sort"
	"strings"

	"github.com/syndtr/goleveldb/leveldb/storage"
	"verifharness/lib/vlib"
	"verifharness/lib/vstor"
)

type sfd struct {
	Ty  int   `json:"ty"`
	Num int64 `json:"num"`
}

func (f sfd) ok() bool {
	return (f.Ty == 1 || f.Ty == 2 || f.Ty == 4 || f.Ty == 8) && f.Num >= 0
}
func (f sfd) desc() storage.FileDesc { return storage.FileDesc{Type: storage.FileType(f.Ty), Num: f.Num} }

type sOp struct {
	Kind string `json:"kind"`
	F    sfd    `json:"f,omitempty"`
	G    sfd    `json:"g,omitempty"`
	Mask int    `json:"mask,omitempty"`
	K    int    `json:"k,omitempty"` // locker / handle index
	D    string `json:"d,omitempty"` // hex
}

type sRes struct {
	Kind string // ok err fd list data lock handle
	Code int
	F    sfd
	L    []sfd
	D    []byte
	ID   int
}

func (r sRes) String() string {
	switch r.Kind {
	case "err":
		return fmt.Sprintf("error class %d", r.Code)
	case "fd":
		return fmt.Sprintf("descriptor %v", r.F)
	case "list":
		return fmt.Sprintf("list %v", r.L)
	case "data":
		return fmt.Sprintf("data %x", r.D)
	case "lock", "handle":
		return fmt.Sprintf("%s #%d", r.Kind, r.ID)
	}
	return r.Kind
}

func (r sRes) equal(o sRes) bool {
	if r.Kind != o.Kind {
		return false
	}
	switch r.Kind {
	case "err":
		return r.Code == o.Code
	case "fd":
		return r.F == o.F
	case "list":
		if len(r.L) != len(o.L) {
			return false
		}
		for i := range r.L {
			if r.L[i] != o.L[i] {
				return false
			}
		}
		return true
	case "data":
		return bytes.Equal(r.D, o.D)
	case "lock", "handle":
		return r.ID == o.ID
	}
	return true
}

func errClass(err error) int {
	var ec *storage.ErrCorrupted
	switch {
	case err == storage.ErrClosed:
		return 1
	case err == storage.ErrLocked:
		return 2
	case err == storage.ErrInvalidFile:
		return 3
	case os.IsNotExist(err) || errors.Is(err, os.ErrNotExist):
		return 4
	case err.Error() == "leveldb/storage: file still open":
		return 5
	case errors.As(err, &ec):
		return 6
	case errors.Is(err, os.ErrClosed):
		return 7
	}
	return 9
}

func sortFds(l []sfd) {
	sort.SliceStable(l, func(i, j int) bool {
		if l[i].Ty != l[j].Ty {
			return l[i].Ty < l[j].Ty
		}
		return l[i].Num < l[j].Num
	})
}

// ---- the real storages ----

type realStor struct {
	st      storage.Storage
	lockers []storage.Locker
	hs      []interface{}
}

func errRes(err error) sRes { return sRes{Kind: "err", Code: errClass(err)} }

func (r *realStor) do(o sOp) sRes {
	switch o.Kind {
	case "lock":
		l, err := r.st.Lock()
		if err != nil {
			return errRes(err)
		}
		r.lockers = append(r.lockers, l)
		return sRes{Kind: "lock", ID: len(r.lockers) - 1}
	case "unlock":
		r.lockers[o.K].Unlock()
		return sRes{Kind: "ok"}
	case "setmeta":
		if err := r.st.SetMeta(o.F.desc()); err != nil {
			return errRes(err)
		}
		return sRes{Kind: "ok"}
	case "getmeta":
		fd, err := r.st.GetMeta()
		if err != nil {
			return errRes(err)
		}
		return sRes{Kind: "fd", F: sfd{int(fd.Type), fd.Num}}
	case "list":
		fds, err := r.st.List(storage.FileType(o.Mask))
		if err != nil {
			return errRes(err)
		}
		l := []sfd{}
		for _, fd := range fds {
			l = append(l, sfd{int(fd.Type), fd.Num})
		}
		sortFds(l)
		return sRes{Kind: "list", L: l}
	case "open":
		rd, err := r.st.Open(o.F.desc())
		if err != nil {
			return errRes(err)
		}
		r.hs = append(r.hs, rd)
		return sRes{Kind: "handle", ID: len(r.hs) - 1}
	case "create":
		w, err := r.st.Create(o.F.desc())
		if err != nil {
			return errRes(err)
		}
		r.hs = append(r.hs, w)
		return sRes{Kind: "handle", ID: len(r.hs) - 1}
	case "remove":
		if err := r.st.Remove(o.F.desc()); err != nil {
			return errRes(err)
		}
		return sRes{Kind: "ok"}
	case "rename":
		if err := r.st.Rename(o.F.desc(), o.G.desc()); err != nil {
			return errRes(err)
		}
		return sRes{Kind: "ok"}
	case "close":
		if err := r.st.Close(); err != nil {
			return errRes(err)
		}
		return sRes{Kind: "ok"}
	case "write":
		d := unhexS(o.D)
		n, err := r.hs[o.K].(storage.Writer).Write(d)
		if err != nil {
			return errRes(err)
		}
		if n != len(d) {
			return sRes{Kind: "err", Code: 9}
		}
		return sRes{Kind: "ok"}
	case "sync":
		if err := r.hs[o.K].(storage.Writer).Sync(); err != nil {
			return errRes(err)
		}
		return sRes{Kind: "ok"}
	case "readall":
		d, err := io.ReadAll(io.NewSectionReader(r.hs[o.K].(storage.Reader), 0, 1<<30))
		if err != nil {
			return errRes(err)
		}
		if d == nil {
			d = []byte{}
		}
		return sRes{Kind: "data", D: d}
	case "hclose":
		if err := r.hs[o.K].(io.Closer).Close(); err != nil {
			return errRes(err)
		}
		return sRes{Kind: "ok"}
	}
	panic("unknown storage op " + o.Kind)
}

func unhexS(s string) []byte {
	b := make([]byte, len(s)/2)
	fmt.Sscanf(s, "%x", &b)
	return b
}

// ---- the oracle: the contract and the documented deviations of each storage, in Go ----

const (
	implMem = iota
	implFile
	implVstor
)

var implNames = []string{"memStorage", "file storage", "vstor"}

type gfile struct {
	data  []byte
	open  int // handles not closed
	epoch int
}

type ghandle struct {
	writer bool
	f      *gfile
	snap   []byte
	epoch  int
	pos    int
	closed bool
}

type gmodel struct {
	impl   int
	dir    map[sfd]*gfile
	other  map[string]*gfile // file storage: names that are not what fsGenName produces
	hs     []*ghandle
	lock   int
	nlock  int
	meta   *sfd
	bak    *sfd
	closed bool
	unsure string // set when the sequence left what this oracle covers (the Coq models still cover it)
}

func newGModel(impl int) *gmodel {
	return &gmodel{impl: impl, dir: map[sfd]*gfile{}, other: map[string]*gfile{}, lock: -1}
}

func oldName(f sfd) string { return fmt.Sprintf("%06d.sst", f.Num) }

func (g *gmodel) refuse() (sRes, bool) {
	if g.impl == implFile && g.closed {
		return sRes{Kind: "err", Code: 1}, true
	}
	return sRes{}, false
}

func errc(c int) sRes { return sRes{Kind: "err", Code: c} }

var okRes = sRes{Kind: "ok"}

func (g *gmodel) expect(o sOp) sRes {
	switch o.Kind {
	case "lock":
		if r, no := g.refuse(); no {
			return r
		}
		if g.lock >= 0 {
			return errc(2)
		}
		g.lock = g.nlock
		g.nlock++
		return sRes{Kind: "lock", ID: g.lock}
	case "unlock":
		if g.lock == o.K {
			g.lock = -1
		}
		return okRes
	case "setmeta":
		if !o.F.ok() {
			return errc(3)
		}
		if r, no := g.refuse(); no {
			return r
		}
		if g.impl == implFile && g.meta != nil && *g.meta != o.F && g.dir[*g.meta] != nil {
			b := *g.meta
			g.bak = &b // setMeta backs up a usable CURRENT
		}
		f := o.F
		g.meta = &f
		return okRes
	case "getmeta":
		if r, no := g.refuse(); no {
			return r
		}
		if g.meta == nil {
			return errc(4)
		}
		if g.impl != implFile {
			return sRes{Kind: "fd", F: *g.meta} // D2 / V2: no look at the file
		}
		if g.dir[*g.meta] != nil {
			return sRes{Kind: "fd", F: *g.meta}
		}
		if g.bak != nil && g.dir[*g.bak] != nil { // F0: CURRENT.bak, and the repair makes it CURRENT
			b := *g.bak
			g.meta = &b
			return sRes{Kind: "fd", F: b}
		}
		return errc(4)
	case "list":
		if r, no := g.refuse(); no {
			return r
		}
		l := []sfd{}
		for f := range g.dir {
			if f.Ty&o.Mask != 0 {
				l = append(l, f)
			}
		}
		for n := range g.other {
			if fd, ok := storage.VerifParseName(n); ok && int(fd.Type)&o.Mask != 0 {
				l = append(l, sfd{int(fd.Type), fd.Num})
			}
		}
		sortFds(l)
		return sRes{Kind: "list", L: l}
	case "open":
		if !o.F.ok() {
			return errc(3)
		}
		if r, no := g.refuse(); no {
			return r
		}
		f := g.dir[g.key(o.F)]
		if f == nil && g.impl == implFile && o.F.Ty == 4 {
			f = g.other[oldName(o.F)] // F1
		}
		if f == nil {
			return errc(4)
		}
		if g.impl == implMem && f.open > 0 {
			return errc(5) // D3
		}
		f.open++
		g.hs = append(g.hs, &ghandle{f: f, snap: append([]byte{}, f.data...), epoch: f.epoch})
		return sRes{Kind: "handle", ID: len(g.hs) - 1}
	case "create":
		if !o.F.ok() {
			return errc(3)
		}
		if r, no := g.refuse(); no {
			return r
		}
		k := g.key(o.F)
		f := g.dir[k]
		switch {
		case f == nil || g.impl == implVstor:
			f = &gfile{}
			g.dir[k] = f
		case g.impl == implMem:
			if f.open > 0 {
				return errc(5) // D3
			}
			f.data, f.epoch = nil, f.epoch+1 // the same memFile, Reset
		default:
			if f.open > 0 {
				g.unsure = "file storage: Create truncated an inode that has open handles (F3)"
			}
			f.data, f.epoch = nil, f.epoch+1 // the same inode, O_TRUNC
		}
		f.open++
		g.hs = append(g.hs, &ghandle{writer: true, f: f})
		return sRes{Kind: "handle", ID: len(g.hs) - 1}
	case "remove":
		if !o.F.ok() {
			return errc(3)
		}
		if r, no := g.refuse(); no {
			return r
		}
		k := g.key(o.F)
		if g.dir[k] != nil {
			delete(g.dir, k)
			return okRes
		}
		if g.impl == implFile && o.F.Ty == 4 && g.other[oldName(o.F)] != nil {
			delete(g.other, oldName(o.F)) // F1
			return okRes
		}
		return errc(4)
	case "rename":
		if !o.F.ok() || !o.G.ok() {
			return errc(3)
		}
		if o.F == o.G {
			return okRes
		}
		if r, no := g.refuse(); no {
			return r
		}
		ka, kb := g.key(o.F), g.key(o.G)
		fa := g.dir[ka]
		if fa == nil {
			return errc(4)
		}
		if g.impl == implMem && ((g.dir[kb] != nil && g.dir[kb].open > 0) || fa.open > 0) {
			return errc(5) // D3
		}
		delete(g.dir, ka)
		g.dir[kb] = fa
		return okRes
	case "close":
		if g.impl != implFile {
			return okRes // D1 / V1
		}
		if g.closed {
			return errc(1)
		}
		g.closed = true
		return okRes
	}
	h := g.hs[o.K]
	closedCode := map[int]int{implMem: 0, implFile: 7, implVstor: 1}[g.impl] // D5 / F4
	switch o.Kind {
	case "write", "sync":
		if h.closed && closedCode != 0 {
			return errc(closedCode)
		}
		if o.Kind == "write" {
			d := unhexS(o.D)
			if g.impl == implFile && h.pos != len(h.f.data) {
				g.unsure = "file storage: a writer whose offset is not the end of its file (F3)"
			}
			h.f.data = append(h.f.data, d...)
			h.pos += len(d)
		}
		return okRes
	case "readall":
		if h.closed && closedCode != 0 {
			return errc(closedCode)
		}
		if g.impl == implFile {
			return sRes{Kind: "data", D: append([]byte{}, h.f.data...)} // F5: the file's current bytes
		}
		if g.impl == implMem && h.epoch != h.f.epoch {
			g.unsure = "memStorage: a reader over a memFile that was reset since (D6)"
		}
		return sRes{Kind: "data", D: h.snap}
	case "hclose":
		if h.closed {
			return errc(1)
		}
		h.closed = true
		if g.impl == implMem {
			h.f.open = 0
		} else {
			h.f.open--
		}
		return okRes
	}
	panic("unknown storage op " + o.Kind)
}

// memStorage keys its map by packFile: the number modulo 2^60 (D4)
func (g *gmodel) key(f sfd) sfd {
	if g.impl == implMem {
		return sfd{f.Ty, f.Num & (1<<60 - 1)}
	}
	return f
}

// ---- generator ----

type storCase struct {
	Init [][2]string `json:"init,omitempty"` // file storage: directory entries (name, hex content) present at OpenFile
	Ops  []sOp       `json:"ops"`
}

func genFd(r *vlib.RNG) sfd {
	if r.Chance(1, 2) {
		return sfd{4, 1} // a hot name: create / write / close / create again / open / read chains need one
	}
	ty := []int{1, 2, 4, 8}[r.Pick(2, 2, 5, 1)]
	num := int64(r.Range(1, 3))
	switch r.Pick(60, 2, 2, 1, 1) {
	case 1:
		ty = []int{0, 3, 16, 5}[r.Intn(4)]
	case 2:
		num = -1
	case 3:
		num = int64(1)<<60 + int64(r.Range(1, 3))
	case 4:
		num = []int64{0, 999999, 1000000, 1<<63 - 1}[r.Intn(4)]
	}
	return sfd{ty, num}
}

func genStorCase(r *vlib.RNG) *storCase {
	c := &storCase{}
	if r.Chance(1, 4) {
		names := []string{"000005.sst", "000002.sst", "000001.ldb", "MANIFEST-000002", "0000003.ldb", "foo", "000002.log", "1.ldb", "000001.sst"}
		for _, i := range permPrefix(r, len(names), r.Range(1, 4)) {
			c.Init = append(c.Init, [2]string{names[i], fmt.Sprintf("%x", r.Bytes(r.Intn(4), nil))})
		}
	}
	nh, nlock := 0, 0
	var writers, readers []int
	emit := func(o sOp) {
		switch o.Kind {
		case "create":
			writers = append(writers, nh)
			nh++ // provisional numbering: each storage renumbers (runStorOn)
		case "open":
			readers = append(readers, nh)
			nh++
		case "lock":
			nlock++
		}
		c.Ops = append(c.Ops, o)
	}
	data := func() string { return fmt.Sprintf("%x", r.Bytes(r.Range(0, 4), nil)) }
	n := r.Range(8, 40)
	for len(c.Ops) < n {
		switch r.Pick(10, 5, 5, 14, 8, 7, 4, 4, 3, 14, 3, 10, 8, 1, 6) {
		case 0:
			emit(sOp{Kind: "create", F: genFd(r)})
		case 1:
			emit(sOp{Kind: "remove", F: genFd(r)})
		case 2:
			o := sOp{Kind: "rename", F: genFd(r), G: genFd(r)}
			if r.Chance(1, 10) {
				o.G = o.F
			}
			emit(o)
		case 3:
			emit(sOp{Kind: "open", F: genFd(r)})
		case 4:
			emit(sOp{Kind: "list", Mask: []int{15, 4, 1, 2, 8, 6, 0}[r.Pick(6, 3, 1, 1, 1, 1, 1)]})
		case 5:
			emit(sOp{Kind: "setmeta", F: genFd(r)})
		case 6:
			emit(sOp{Kind: "getmeta"})
		case 7:
			emit(sOp{Kind: "lock"})
		case 8:
			if nlock == 0 {
				emit(sOp{Kind: "lock"})
			} else {
				emit(sOp{Kind: "unlock", K: r.Intn(nlock)})
			}
		case 9:
			if len(writers) > 0 {
				k := writers[len(writers)-1]
				if r.Chance(1, 3) {
					k = writers[r.Intn(len(writers))]
				}
				emit(sOp{Kind: "write", K: k, D: data()})
			}
		case 10:
			if len(writers) > 0 {
				emit(sOp{Kind: "sync", K: writers[r.Intn(len(writers))]})
			}
		case 11:
			if len(readers) > 0 {
				k := readers[len(readers)-1]
				if r.Chance(1, 3) {
					k = readers[r.Intn(len(readers))]
				}
				emit(sOp{Kind: "readall", K: k})
			}
		case 12:
			if nh > 0 {
				k := nh - 1 - r.Intn(2)
				if k < 0 || r.Chance(1, 3) {
					k = r.Intn(nh)
				}
				emit(sOp{Kind: "hclose", K: k})
			}
		case 13:
			emit(sOp{Kind: "close"})
		default:
			// a whole life of one name: write it, close, (write it again,) read it back; variations leave handles open
			f := genFd(r)
			for round, rounds := 0, r.Range(1, 2); round < rounds; round++ {
				emit(sOp{Kind: "create", F: f})
				w := nh - 1
				for k := r.Intn(3); k > 0; k-- {
					emit(sOp{Kind: "write", K: w, D: data()})
				}
				if r.Chance(5, 6) {
					emit(sOp{Kind: "hclose", K: w})
				}
			}
			if r.Chance(1, 4) {
				g := genFd(r)
				emit(sOp{Kind: "rename", F: f, G: g})
				f = g
			}
			emit(sOp{Kind: "open", F: f})
			rd := nh - 1
			emit(sOp{Kind: "readall", K: rd})
			if r.Chance(3, 4) {
				emit(sOp{Kind: "hclose", K: rd})
			}
		}
	}
	return c
}

func permPrefix(r *vlib.RNG, n, k int) []int {
	p := make([]int, n)
	for i := range p {
		p[i] = i
	}
	for i := 0; i < k && i < n; i++ {
		j := i + r.Intn(n-i)
		p[i], p[j] = p[j], p[i]
	}
	if k > n {
		k = n
	}
	return p[:k]
}

// ---- running one case on one storage ----

type storObs struct {
	ops []sOp
	res []sRes
}

func coqFd(f sfd) string { return fmt.Sprintf("%d (%d)%%Z", f.Ty, f.Num) }

func coqSOp(o sOp) string {
	switch o.Kind {
	case "lock":
		return "YLock"
	case "unlock":
		return fmt.Sprintf("YUnlock %d%%nat", o.K)
	case "setmeta":
		return "YSetMeta " + coqFd(o.F)
	case "getmeta":
		return "YGetMeta"
	case "list":
		return fmt.Sprintf("YList %d", o.Mask)
	case "open":
		return "YOpen " + coqFd(o.F)
	case "create":
		return "YCreate " + coqFd(o.F)
	case "remove":
		return "YRemove " + coqFd(o.F)
	case "rename":
		return "YRename " + coqFd(o.F) + " " + coqFd(o.G)
	case "close":
		return "YClose"
	case "write":
		return fmt.Sprintf("YWrite %d%%nat %s", o.K, vlib.CoqHex(unhexS(o.D)))
	case "sync":
		return fmt.Sprintf("YSync %d%%nat", o.K)
	case "readall":
		return fmt.Sprintf("YReadAll %d%%nat", o.K)
	case "hclose":
		return fmt.Sprintf("YHClose %d%%nat", o.K)
	}
	panic(o.Kind)
}

func coqSRes(r sRes) string {
	switch r.Kind {
	case "ok":
		return "YROk"
	case "err":
		return fmt.Sprintf("YRErr %d", r.Code)
	case "fd":
		return "YRFd " + coqFd(r.F)
	case "list":
		var p []string
		for _, f := range r.L {
			p = append(p, fmt.Sprintf("(%d, (%d)%%Z)", f.Ty, f.Num))
		}
		return "YRList [" + strings.Join(p, "; ") + "]"
	case "data":
		return "YRData " + vlib.CoqHex(r.D)
	case "lock":
		return fmt.Sprintf("YRLockId %d%%nat", r.ID)
	case "handle":
		return fmt.Sprintf("YRHandle %d%%nat", r.ID)
	}
	panic(r.Kind)
}

// runStorOn drives one storage with the case against the Go oracle.  The generator numbers handles as if every Open /
// Create succeeded; the three storages succeed on different calls, so each run renumbers: a call on a handle this
// storage never produced is replaced by a harmless one.
func runStorOn(impl int, c *storCase, base string, idx int, count func(string, int)) (obs storObs, viol string) {
	var st storage.Storage
	g := newGModel(impl)
	switch impl {
	case implMem:
		st = storage.NewMemStorage()
	case implVstor:
		st = vstor.New(false)
	default:
		dir, err := os.MkdirTemp(base, fmt.Sprintf("c18stor%d_", idx))
		if err != nil {
			return obs, ""
		}
		defer os.RemoveAll(dir)
		for _, e := range c.Init {
			d := unhexS(e[1])
			os.WriteFile(filepath.Join(dir, e[0]), d, 0o644)
			f := &gfile{data: d}
			if fd, ok := storage.VerifParseName(e[0]); ok {
				if n, _ := storage.VerifGenName(fd); n == e[0] && fd.Num >= 0 {
					g.dir[sfd{int(fd.Type), fd.Num}] = f
					continue
				}
			}
			g.other[e[0]] = f
		}
		st, err = storage.OpenFile(dir, false)
		if err != nil {
			return obs, "storage.OpenFile on a fresh temporary directory failed: " + err.Error()
		}
	}
	rs := &realStor{st: st}
	defer func() {
		for _, h := range rs.hs {
			h.(io.Closer).Close()
		}
		st.Close()
	}()
	remap := map[int]int{}
	lremap := map[int]int{}
	provisional, lprovisional := 0, 0
	for i, o := range c.Ops {
		switch o.Kind {
		case "unlock":
			k, ok := lremap[o.K]
			if !ok {
				o = sOp{Kind: "list", Mask: 15}
			} else {
				o.K = k
			}
		case "write", "sync", "readall", "hclose":
			k, ok := remap[o.K]
			if !ok {
				o = sOp{Kind: "list", Mask: 15}
			} else {
				o.K = k
				// the generator's guess of the handle's kind holds: provisional indexes are per kind
			}
		}
		got := rs.do(o)
		if o.Kind == "open" || o.Kind == "create" {
			if got.Kind == "handle" {
				remap[provisional] = got.ID
			}
			provisional++
		}
		if o.Kind == "lock" {
			if got.Kind == "lock" {
				lremap[lprovisional] = got.ID
			}
			lprovisional++
		}
		obs.ops = append(obs.ops, o)
		obs.res = append(obs.res, got)
		count("stor_"+implNames[impl]+"_"+o.Kind, 1)
		if got.Kind == "err" {
			count(fmt.Sprintf("stor_%s_error_class_%d", implNames[impl], got.Code), 1)
		}
		if g.unsure != "" {
			continue
		}
		want := g.expect(o)
		if g.unsure != "" {
			count("stor_oracle_left_at: "+g.unsure, 1)
			continue
		}
		if !got.equal(want) && viol == "" {
			viol = fmt.Sprintf("%s, call %d %s: returned %s, expected %s", implNames[impl], i, coqSOp(o), got, want)
			g.unsure = "after a violation" // the oracle's state no longer follows the storage
		}
	}
	return obs, viol
}

func coqStorCase(impl int, c *storCase, obs storObs) string {
	var init, steps []string
	if impl == implFile {
		for _, e := range c.Init {
			init = append(init, fmt.Sprintf("(%s, %s)", vlib.CoqHex([]byte(e[0])), vlib.CoqHex(unhexS(e[1]))))
		}
	}
	for i, o := range obs.ops {
		steps = append(steps, "("+coqSOp(o)+", "+coqSRes(obs.res[i])+")")
	}
	return fmt.Sprintf("KStor %d [%s] [%s]", impl, strings.Join(init, "; "), strings.Join(steps, ";\n   "))
}

// storJob: one generated sequence on the three storages.
func storJob(r *vlib.RNG, idx int, base string, emitK bool, count func(string, int)) (cases []kcase, fails []string, detail interface{}) {
	c := genStorCase(r)
	detail = c
	for impl := 0; impl < 3; impl++ {
		obs, viol := runStorOn(impl, c, base, idx, count)
		if viol != "" {
			fails = append(fails, viol)
		}
		if (emitK || viol != "") && len(obs.ops) > 0 {
			cases = append(cases, kcase{idx, coqStorCase(impl, c, obs), map[string]interface{}{"stor": implNames[impl], "case": c}})
		}
	}
	return
}

// packWrapProbe: memStorage keys its files by packFile(fd) = uint64(fd.Num)<<4 | uint64(fd.Type), which drops the top four
// bits of the number: two valid descriptors whose numbers differ by a multiple of 2^60 name the same file (D4 of
// Props/C18M.v; recorded as a known finding, file numbers never get that large outside a forged manifest).
func packWrapProbe() string {
	ms := storage.NewMemStorage()
	a := storage.FileDesc{Type: storage.TypeTable, Num: 5}
	b := storage.FileDesc{Type: storage.TypeTable, Num: 5 + 1<<60}
	w, err := ms.Create(a)
	if err != nil {
		return ""
	}
	w.Write([]byte("A"))
	w.Close()
	r, err := ms.Open(b)
	if err != nil {
		return ""
	}
	r.Close()
	return fmt.Sprintf("memStorage: Create(%v) then Open(%v) succeeds: packFile shifts the number left by 4 bits in a uint64, descriptors whose numbers differ by 2^60 share one file (and List reports the number modulo 2^60)", a, b)
}
