package main

import (
	"bytes"
	"fmt"
	"math"
	"time"

	"github.com/syndtr/goleveldb/leveldb"
	"github.com/syndtr/goleveldb/leveldb/opt"
	"github.com/syndtr/goleveldb/leveldb/util"
	"verifharness/lib/vlib"
	"verifharness/lib/vstor"
)

// apiCtx is what a case of the sweep works with inside the child: a generator, a scratch directory, a populated DB
// image (built once per child) and the list of things to release when the case ends.
type apiCtx struct {
	r     *vlib.RNG
	tmp   string
	img   *vstor.Stor
	tblFS []byte // bytes of a well-formed table (built once)
	undo  []func()
	ndir  int
}

func newApiCtx(seed uint64, tmp string) *apiCtx { return &apiCtx{r: vlib.NewRNG(seed), tmp: tmp} }

func (x *apiCtx) reseed(seed uint64, index int) {
	x.r = vlib.NewRNG(seed*1000003 + 8*7919 + uint64(index)*104729)
}

func (x *apiCtx) later(f func()) { x.undo = append(x.undo, f) }

// cleanup runs inside the case's goroutine (a Close that hangs or panics belongs to the case).
func (x *apiCtx) cleanup() {
	for i := len(x.undo) - 1; i >= 0; i-- {
		x.undo[i]()
	}
	x.undo = nil
}

func (x *apiCtx) shutdown() {}

func (x *apiCtx) dir() string {
	x.ndir++
	return fmt.Sprintf("%s/d%d", x.tmp, x.ndir)
}

func apiSmallOptions() *opt.Options {
	return &opt.Options{WriteBuffer: 4096, Compression: opt.NoCompression, DisableCompactionBackoff: true,
		CompactionTableSize: 8192, BlockSize: 512}
}

func apiKey(i int) []byte { return []byte(fmt.Sprintf("k%04d", i)) }

// image: a DB of 160 keys k0000..k0159 (100-byte values), tables at level >= 1, the last 12 writes only in the journal.
func (x *apiCtx) image() *vstor.Stor {
	if x.img != nil {
		return x.img
	}
	st := vstor.New(false)
	db, err := leveldb.Open(st, apiSmallOptions())
	if err != nil {
		panic("api sweep: cannot build the DB image: " + err.Error())
	}
	val := bytes.Repeat([]byte{'v'}, 100)
	for round := 0; round < 2; round++ {
		for i := 0; i < 160; i++ {
			db.Put(apiKey((i*37+round*11)%160), val, nil)
		}
		leveldb.VerifWaitIdle(db, 20*time.Second)
	}
	db.CompactRange(util.Range{})
	leveldb.VerifWaitIdle(db, 20*time.Second)
	for i := 0; i < 12; i++ {
		db.Put(apiKey(i*13), []byte("fresh"), nil)
	}
	db.Delete(apiKey(5), nil)
	db.Close()
	x.img = st
	return st
}

// openDB opens a clone of the image read-write; it is closed when the case ends.
func (x *apiCtx) openDB() *leveldb.DB {
	st := x.image().Clone(false)
	db, err := leveldb.Open(st, apiSmallOptions())
	if err != nil {
		panic("api sweep: cannot open the DB image: " + err.Error())
	}
	x.later(func() { db.Close() })
	return db
}

// ---- argument lattices

const (
	maxInt = int(^uint(0) >> 1)
	minInt = -maxInt - 1
)

type namedBytes struct {
	name string
	b    []byte
}

// keyLattice: {nil, empty, 1-byte, typical present, typical absent, large}
func keyLattice() []namedBytes {
	return []namedBytes{
		{"nil", nil}, {"empty", []byte{}}, {"1-byte 00", []byte{0}}, {"1-byte ff", []byte{0xff}},
		{"present", apiKey(7)}, {"absent", []byte("k0007x")}, {"large 64K", bytes.Repeat([]byte{'K'}, 1<<16)},
	}
}

func valLattice() []namedBytes {
	return []namedBytes{{"nil", nil}, {"empty", []byte{}}, {"typical", []byte("value")}, {"large 256K", bytes.Repeat([]byte{'V'}, 1<<18)}}
}

type namedInt struct {
	name string
	n    int
}

// intLattice: {0, 1, -1, MaxInt, MinInt} + boundaries given by the caller
func intLattice(extra ...int) []namedInt {
	l := []namedInt{{"0", 0}, {"1", 1}, {"-1", -1}, {"MaxInt", maxInt}, {"MinInt", minInt}}
	for _, e := range extra {
		l = append(l, namedInt{fmt.Sprint(e), e})
	}
	return l
}

// intClass: the table's class of an int argument
func intClass(n int) string {
	switch {
	case n < 0:
		return "n<0"
	case n == 0:
		return "n=0"
	case n >= 1<<31:
		return "n huge"
	}
	return "n>0"
}

type namedRange struct {
	name string
	r    *util.Range
}

// rangeLattice: {nil pointer, unbounded, empty slices, equal ends, inverted, half-open both ways, typical, prefix}
func rangeLattice() []namedRange {
	return []namedRange{
		{"nil", nil},
		{"unbounded", &util.Range{}},
		{"empty-empty", &util.Range{Start: []byte{}, Limit: []byte{}}},
		{"equal", &util.Range{Start: apiKey(50), Limit: apiKey(50)}},
		{"inverted", &util.Range{Start: apiKey(120), Limit: apiKey(20)}},
		{"inverted-wide", &util.Range{Start: []byte{0xff, 0xff}, Limit: []byte{0}}},
		{"start-only", &util.Range{Start: apiKey(50)}},
		{"limit-only", &util.Range{Limit: apiKey(50)}},
		{"typical", &util.Range{Start: apiKey(20), Limit: apiKey(120)}},
		{"outside", &util.Range{Start: []byte("zz"), Limit: []byte("zzz")}},
		{"prefix", util.BytesPrefix([]byte("k00"))},
	}
}

func rangeClass(name string) string {
	switch name {
	case "inverted", "inverted-wide":
		return "range inverted"
	case "nil":
		return "range nil"
	case "equal", "empty-empty":
		return "range empty"
	}
	return "range"
}

func readOptLattice() []struct {
	name string
	ro   *opt.ReadOptions
} {
	return []struct {
		name string
		ro   *opt.ReadOptions
	}{{"ro=nil", nil}, {"ro=zero", &opt.ReadOptions{}}, {"ro=strict+nofill", &opt.ReadOptions{DontFillCache: true, Strict: opt.StrictAll}}}
}

func writeOptLattice() []struct {
	name string
	wo   *opt.WriteOptions
} {
	return []struct {
		name string
		wo   *opt.WriteOptions
	}{{"wo=nil", nil}, {"wo=zero", &opt.WriteOptions{}}, {"wo=sync+nomerge", &opt.WriteOptions{Sync: true, NoWriteMerge: true}}}
}

var _ = math.MaxInt32
