package main

import (
	"fmt"
	"strings"
	"time"

	"github.com/syndtr/goleveldb/leveldb"
	"github.com/syndtr/goleveldb/leveldb/iterator"
	"github.com/syndtr/goleveldb/leveldb/opt"
	"verifharness/lib/dbh"
	"verifharness/lib/vlib"
	"verifharness/lib/vstor"
)

// (K) call sequences: the harness keeps, per DB handle opened on one storage, the handles it obtained in
// creation order (exactly the lists of the Coq model), executes generated calls on them, and records for every
// call the observed outcome class and whether a mutating storage operation was issued between the start of the
// call and the end of the drain that follows it.

const (
	mRW = iota
	mROpened
	mRSwitched
	mClosed
)

type ksnap struct {
	s        *leveldb.Snapshot
	released bool
}

type kiter struct {
	it       iterator.Iterator
	real     bool // a *dbIter (no error at creation)
	owner    int  // transaction index, -1 = none
	released bool
}

type ktxn struct {
	tr   *leveldb.Transaction
	done bool
}

type kdb struct {
	db    *leveldb.DB
	mode  int
	alive bool // switched to read-only, but the compaction goroutines did not leave (code before the repair)
	snaps []*ksnap
	iters []*kiter
	txns  []*ktxn
}

func (d *kdb) openTxn() bool {
	for _, t := range d.txns {
		if !t.done {
			return true
		}
	}
	return false
}

// unsafeIter: an unreleased real iterator whose DB is closed or whose transaction is finished (documented
// unsafe; the model says Unspecified).
func (d *kdb) unsafeIter(it *kiter) bool {
	if !it.real || it.released {
		return false
	}
	if d.mode == mClosed {
		return true
	}
	return it.owner >= 0 && d.txns[it.owner].done
}

type kstepRec struct {
	Call   string `json:"call"`
	Obs    string `json:"obs"`
	Mut    bool   `json:"mut"`
	Detail string `json:"detail,omitempty"`
}

type kseqResult struct {
	coq       string
	steps     []kstepRec
	truncated bool
	// direct (P)-style failures met while executing (panic outside documented ones, hang)
	failures []string
	counts   map[string]int
}

var methodWeights = map[string]int{
	"DB.Get": 4, "DB.Has": 2, "DB.NewIterator": 4, "DB.GetSnapshot": 3, "DB.GetProperty": 2, "DB.Stats": 1, "DB.SizeOf": 1,
	"DB.Close": 2, "DB.OpenTransaction": 2, "DB.Write": 3, "DB.Put": 5, "DB.Delete": 2, "DB.CompactRange": 1, "DB.SetReadOnly": 1,
	"Snapshot.String": 1, "Snapshot.Get": 3, "Snapshot.Has": 1, "Snapshot.NewIterator": 2, "Snapshot.Release": 2,
	"Transaction.Get": 2, "Transaction.Has": 1, "Transaction.NewIterator": 1, "Transaction.Put": 4, "Transaction.Delete": 1,
	"Transaction.Write": 2, "Transaction.Commit": 1, "Transaction.Discard": 1,
	"Iterator.First": 2, "Iterator.Last": 1, "Iterator.Seek": 1, "Iterator.Next": 4, "Iterator.Prev": 2, "Iterator.Release": 3,
	"Iterator.SetReleaser": 1, "Iterator.Valid": 1, "Iterator.Error": 2, "Iterator.Key": 1, "Iterator.Value": 1,
}

// runKSeq generates and executes one call sequence of n steps on a storage (fresh, or holding the history the
// caller built and closed). It never issues calls the model says block, and never moves/releases an
// unreleased iterator of a closed DB.
func runKSeq(r *vlib.RNG, st *vstor.Stor, has bool, cfg dbh.Cfg, pool [][]byte, methods []string, n int) kseqResult {
	res := kseqResult{counts: map[string]int{}}
	var dbs []*kdb
	var items []string
	seek := !cfg.DisableSeeks
	st.SetAudit(true)
	nmut := func() int { return len(mutations(st)) }
	cur := func() *kdb { // the open DB if any
		for _, d := range dbs {
			if d.mode != mClosed {
				return d
			}
		}
		return nil
	}
	record := func(call string, obs Out, mut bool, detail string) {
		items = append(items, fmt.Sprintf("KS %s %d %s", call, int(obs), vlib.CoqBool(mut)))
		res.steps = append(res.steps, kstepRec{Call: call, Obs: obs.String(), Mut: mut, Detail: detail})
	}
	key := func() []byte { return pool[r.Intn(len(pool))] }
	closedBurst := 0
	for step := 0; step < n && !res.truncated; step++ {
		open := cur()
		// ---- Open?
		wantOpen := false
		switch {
		case len(dbs) == 0:
			wantOpen = true
		case open == nil:
			wantOpen = closedBurst <= 0 && r.Chance(1, 3)
		default:
			wantOpen = r.Chance(1, 25) // second owner: must fail with ErrLocked
		}
		if wantOpen {
			ro := r.Chance(2, 5)
			o := cfg.Options()
			o.ReadOnly = ro
			n0 := nmut()
			var db *leveldb.DB
			cr, pan, hung := guard(20*time.Second, func() cres {
				d, err := leveldb.Open(st, o)
				db = d
				return cres{out: classify(err), err: err}
			})
			if hung {
				res.failures = append(res.failures, fmt.Sprintf("Open(ro=%v) did not return within 20 s", ro))
				res.truncated = true
				break
			}
			if pan != "" {
				res.failures = append(res.failures, fmt.Sprintf("Open(ro=%v) panicked: %s", ro, pan))
				res.truncated = true
				break
			}
			var nd *kdb
			if cr.out == Ok && db != nil {
				nd = &kdb{db: db, mode: mRW}
				if ro {
					nd.mode = mROpened
				}
				dbs = append(dbs, nd)
				if !settle(db, st, !ro, 20*time.Second) {
					res.truncated = true
				}
			}
			detail := ""
			if cr.err != nil {
				detail = cr.err.Error()
			}
			record(fmt.Sprintf("(COpen %s %s)", vlib.CoqBool(ro), vlib.CoqBool(seek)), cr.out, nmut() > n0, detail)
			res.counts[fmt.Sprintf("k_open_ro=%v_%s", ro, cr.out)]++
			continue
		}
		// ---- choose DB, method, handle
		di := len(dbs) - 1
		if open != nil {
			for i, d := range dbs {
				if d == open {
					di = i
				}
			}
			if len(dbs) > 1 && r.Chance(1, 5) {
				di = r.Intn(len(dbs))
			}
		} else if r.Chance(1, 4) {
			di = r.Intn(len(dbs))
		}
		d := dbs[di]
		var name string
		for tries := 0; tries < 50; tries++ {
			w := make([]int, len(methods))
			for i, m := range methods {
				w[i] = methodWeights[m]
				if w[i] == 0 {
					w[i] = 1
				}
				// handles must exist
				switch receiverOf(m) {
				case "Snapshot":
					if len(d.snaps) == 0 {
						w[i] = 0
					}
				case "Transaction":
					if len(d.txns) == 0 {
						w[i] = 0
					}
				case "Iterator":
					if len(d.iters) == 0 {
						w[i] = 0
					}
				}
				if d.mode == mClosed && m == "DB.Close" {
					w[i] = 3
				}
			}
			name = methods[r.Pick(w...)]
			break
		}
		h := &hs{db: d.db, key: key(), variant: r.Chance(1, 4)}
		h.val = dbh.GenValue(r, cfg, h.key, uint64(step))
		hi := 0
		switch receiverOf(name) {
		case "Snapshot":
			hi = r.Intn(len(d.snaps))
			h.snap = d.snaps[hi].s
		case "Transaction":
			hi = r.Intn(len(d.txns))
			h.tr = d.txns[hi].tr
		case "Iterator":
			hi = r.Intn(len(d.iters))
			h.it = d.iters[hi].it
			if d.unsafeIter(d.iters[hi]) && (isMove(name) || name == "Iterator.Release") {
				res.counts["k_skipped_unsafe_iterator"]++
				continue
			}
		}
		if d.mode == mRW && d.openTxn() && takesWriteLock(name, h.variant) {
			res.counts["k_skipped_would_block"]++
			continue
		}
		n0 := nmut()
		cr, pan, hung := guard(20*time.Second, func() cres { return templates[name](h) })
		call := fmt.Sprintf("(CApi %d %d %s)", di, hi, coqCall(name, h.variant))
		if hung {
			res.failures = append(res.failures, fmt.Sprintf("%s on DB in mode %d did not return within 20 s", name, d.mode))
			record(call, Blocks, false, "hung")
			res.truncated = true
			break
		}
		detail := ""
		if cr.err != nil {
			detail = cr.err.Error()
		}
		if pan != "" {
			detail = "panic: " + strings.SplitN(pan, "\n", 2)[0]
		}
		// ---- mirror the handle lists
		switch name {
		case "DB.NewIterator", "Snapshot.NewIterator", "Transaction.NewIterator":
			if cr.newIt != nil {
				ki := &kiter{it: cr.newIt, real: cr.err == nil, owner: -1}
				if name == "Transaction.NewIterator" {
					ki.owner = hi
				}
				d.iters = append(d.iters, ki)
			}
		case "DB.GetSnapshot":
			if cr.newSnap != nil {
				d.snaps = append(d.snaps, &ksnap{s: cr.newSnap})
			}
		case "DB.OpenTransaction":
			if cr.newTr != nil {
				d.txns = append(d.txns, &ktxn{tr: cr.newTr})
			}
		case "DB.SetReadOnly":
			if cr.out == Ok && d.mode == mRW {
				d.mode = mRSwitched
			}
		case "DB.Close":
			if cr.out == Ok {
				d.mode = mClosed
				for _, t := range d.txns {
					t.done = true
				}
				closedBurst = r.Range(4, 14)
			}
		case "Snapshot.Release":
			d.snaps[hi].released = true
		case "Transaction.Commit":
			if cr.out == Ok {
				d.txns[hi].done = true
			}
		case "Transaction.Discard":
			d.txns[hi].done = true
		case "Iterator.Release":
			d.iters[hi].released = true
		}
		if d.mode == mClosed {
			closedBurst--
		}
		if d.mode == mRSwitched && !d.alive {
			// the drain of a switched DB: the job in flight finishes, the compaction goroutines leave
			stopped, stable := settleSwitched(d.db, st, 3*time.Second, 20*time.Second)
			if !stopped {
				d.alive = true
				res.counts["k_switched_compaction_goroutines_still_running"]++
			}
			if !stable {
				res.truncated = true
			}
		} else if !settle(d.db, st, d.mode == mRW || d.mode == mRSwitched, 20*time.Second) {
			res.truncated = true
		}
		if ms := mutations(st); len(ms) > n0 {
			detail += fmt.Sprintf(" [%d mutating ops, first %s]", len(ms)-n0, ms[n0])
		}
		record(call, cr.out, nmut() > n0, detail)
		res.counts[fmt.Sprintf("k_mode%d_%s_%s", d.mode, receiverOf(name), cr.out)]++
	}
	// ---- tidy up: release what is safe to release, close
	for _, d := range dbs {
		if d.mode != mClosed {
			for _, it := range d.iters {
				if !it.released {
					it.it.Release()
				}
			}
			for _, t := range d.txns {
				if !t.done {
					t.tr.Discard()
				}
			}
			guard(20*time.Second, func() cres { return cres{err: d.db.Close()} })
		}
	}
	res.coq = fmt.Sprintf("KSeq %s [%s]", vlib.CoqBool(has), strings.Join(items, ";\n   "))
	return res
}

var _ = opt.NoCompression
