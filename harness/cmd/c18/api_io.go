package main

import (
	"bytes"
	"encoding/binary"
	stderrors "errors"
	"fmt"
	"io"
	"os"
	"unsafe"

	"github.com/syndtr/goleveldb/leveldb/cache"
	"github.com/syndtr/goleveldb/leveldb/comparer"
	"github.com/syndtr/goleveldb/leveldb/filter"
	"github.com/syndtr/goleveldb/leveldb/journal"
	"github.com/syndtr/goleveldb/leveldb/opt"
	"github.com/syndtr/goleveldb/leveldb/storage"
	"github.com/syndtr/goleveldb/leveldb/table"
	"github.com/syndtr/goleveldb/leveldb/util"
)

// ---- journal

type countDropper struct{ n int }

func (d *countDropper) Drop(err error) { d.n++ }

type flushWriter struct {
	bytes.Buffer
	fail bool
}

func (f *flushWriter) Flush() error {
	if f.fail {
		return stderrors.New("harness: Flush fails")
	}
	return nil
}

// mkJournal: a journal of the given record sizes
func mkJournal(sizes ...int) []byte {
	var buf bytes.Buffer
	w := journal.NewWriter(&buf)
	for i, s := range sizes {
		ww, _ := w.Next()
		ww.Write(bytes.Repeat([]byte{byte('a' + i%26)}, s))
	}
	w.Close()
	return buf.Bytes()
}

func journalImages(x *apiCtx) []namedBytes {
	good := mkJournal(10, 0, 40000, 5)
	cut := good[:len(good)-3]
	flip := append([]byte(nil), good...)
	flip[20] ^= 0x40
	hdr := func(crc uint32, length uint16, typ byte) []byte {
		b := make([]byte, 7)
		binary.LittleEndian.PutUint32(b, crc)
		binary.LittleEndian.PutUint16(b[4:], length)
		b[6] = typ
		return b
	}
	return []namedBytes{
		{"nil", nil}, {"1 byte", []byte{1}}, {"6 bytes", make([]byte, 6)}, {"7 zero bytes", make([]byte, 7)}, {"a block of zeros", make([]byte, 32768)},
		{"well-formed", good}, {"cut", cut}, {"bit flip", flip},
		{"length beyond the block", append(hdr(0, 0xffff, 1), make([]byte, 100)...)},
		{"length beyond the file", append(hdr(0, 500, 1), make([]byte, 10)...)},
		{"chunk type 0", append(hdr(0, 3, 0), 1, 2, 3)}, {"chunk type 5", append(hdr(0, 3, 5), 1, 2, 3)}, {"chunk type ff", append(hdr(0, 3, 0xff), 1, 2, 3)},
		{"middle chunk first", append(hdr(0, 3, 3), 1, 2, 3)}, {"last chunk first", append(hdr(0, 3, 4), 1, 2, 3)},
		{"random 100", x.r.Bytes(100, nil)}, {"random 70000", x.r.Bytes(70000, nil)}, {"all ff 40000", bytes.Repeat([]byte{0xff}, 40000)},
	}
}

func drainJournal(r *journal.Reader, max int) error {
	var first error
	for i := 0; i < max; i++ {
		rr, err := r.Next()
		if err == io.EOF {
			return first
		}
		if err != nil {
			if first == nil {
				first = err
			}
			// Next after an error: must keep returning, not loop or panic
			if _, err2 := r.Next(); err2 == nil {
				continue
			}
			return first
		}
		if _, err := io.Copy(io.Discard, rr); err != nil && first == nil {
			first = err
		}
	}
	panic("harness: the journal reader delivers records without end")
}

func casesJournal(l *apiList) {
	for gi := 0; gi < 18; gi++ {
		gi := gi
		name := journalImages(newApiCtx(1, ""))[gi].name
		for _, fl := range []struct{ strict, checksum, dropper bool }{{false, false, false}, {false, true, true}, {true, true, false}, {true, false, true}} {
			fl := fl
			l.add("journal.NewReader", "bytes arbitrary", fmt.Sprintf("%s strict=%v checksum=%v dropper=%v", name, fl.strict, fl.checksum, fl.dropper), func(x *apiCtx) error {
				img := journalImages(x)[gi]
				var d journal.Dropper
				if fl.dropper {
					d = &countDropper{}
				}
				r := journal.NewReader(bytes.NewReader(img.b), d, fl.strict, fl.checksum)
				err := drainJournal(r, 1000)
				// Reset on the same reader object, other flags, and read again
				r.Reset(bytes.NewReader(img.b), nil, !fl.strict, !fl.checksum)
				drainJournal(r, 1000)
				return err
			})
		}
	}
	l.add("journal.Reader.Next", "-", "stale record reader after the next Next", func(x *apiCtx) error {
		r := journal.NewReader(bytes.NewReader(mkJournal(10, 20)), nil, true, true)
		r1, err := r.Next()
		if err != nil {
			return err
		}
		if _, err := r.Next(); err != nil {
			return err
		}
		if _, err := r1.Read(make([]byte, 4)); err == nil {
			panic("harness: a stale record reader still reads")
		}
		r1.Read(nil)
		return nil
	})
	l.add("journal.Reader.Next", "-", "Read with nil / empty / large buffers; Next after EOF", func(x *apiCtx) error {
		r := journal.NewReader(bytes.NewReader(mkJournal(10, 0, 70000)), nil, true, true)
		for {
			rr, err := r.Next()
			if err != nil {
				break
			}
			rr.Read(nil)
			rr.Read([]byte{})
			rr.Read(make([]byte, 1<<20))
			rr.Read(make([]byte, 1))
		}
		r.Next()
		_, err := r.Next()
		if err != io.EOF {
			return err
		}
		return nil
	})
	l.add("journal.Reader.Reset", "-", "on a fresh reader, after EOF, after an error", func(x *apiCtx) error {
		r := journal.NewReader(bytes.NewReader(nil), nil, true, true)
		r.Reset(bytes.NewReader(mkJournal(3)), &countDropper{}, false, false)
		drainJournal(r, 10)
		r.Reset(bytes.NewReader([]byte{1, 2, 3}), nil, true, true)
		drainJournal(r, 10)
		r.Reset(bytes.NewReader(nil), nil, true, true)
		return drainJournal(r, 10)
	})
	l.add("journal.Reader.Reset", "required argument nil", "Reset(nil reader) then Next", func(x *apiCtx) error {
		r := journal.NewReader(bytes.NewReader(nil), nil, true, true)
		r.Reset(nil, nil, true, true)
		_, err := r.Next()
		return err
	})
	l.add("journal.NewReader", "required argument nil", "nil io.Reader then Next", func(x *apiCtx) error {
		_, err := journal.NewReader(nil, nil, false, false).Next()
		return err
	})
	l.add("journal.NewReader", "reader fails", "failing io.Reader", func(x *apiCtx) error {
		r := journal.NewReader(errReader{}, nil, true, true)
		_, err := r.Next()
		r.Next()
		return err
	})
	l.add("journal.Dropper.Drop", "-", "caller-implemented interface: called for dropped chunks", func(x *apiCtx) error {
		d := &countDropper{}
		r := journal.NewReader(bytes.NewReader(bytes.Repeat([]byte{0xff}, 100)), d, false, true)
		drainJournal(r, 10)
		return nil
	})
	l.add("journal.ErrCorrupted.Error", "-", "zero and filled", func(x *apiCtx) error {
		_ = (&journal.ErrCorrupted{}).Error()
		_ = (&journal.ErrCorrupted{Size: -1, Reason: "r"}).Error()
		return nil
	})

	// the writer: orderings
	type wop int
	const (
		wNext wop = iota
		wWrite
		wFlush
		wClose
		wReset
		wSize
		wStale
	)
	names := []string{"Next", "Write", "Flush", "Close", "Reset", "Size", "StaleWrite"}
	seqs := [][]wop{
		{wClose}, {wClose, wClose}, {wFlush}, {wFlush, wFlush, wClose}, {wSize}, {wReset}, {wReset, wReset, wClose},
		{wNext, wWrite, wClose}, {wNext, wWrite, wClose, wClose}, {wNext, wClose, wNext}, {wNext, wClose, wWrite}, {wNext, wClose, wFlush},
		{wNext, wWrite, wNext, wStale}, {wNext, wWrite, wFlush, wStale}, {wNext, wWrite, wClose, wStale}, {wNext, wWrite, wReset, wStale},
		{wNext, wNext, wNext, wClose}, {wNext, wWrite, wFlush, wWrite}, {wNext, wWrite, wReset, wNext, wWrite, wClose, wSize},
		{wClose, wReset, wNext, wWrite, wFlush, wSize}, {wNext, wWrite, wWrite, wWrite, wSize, wFlush, wSize, wClose, wSize},
	}
	for _, sq := range seqs {
		sq := sq
		nm := ""
		for _, o := range sq {
			nm += names[o] + " "
		}
		last := names[sq[len(sq)-1]]
		entry := map[string]string{"Next": "journal.Writer.Next", "Write": "journal.Writer.Next", "Flush": "journal.Writer.Flush", "Close": "journal.Writer.Close",
			"Reset": "journal.Writer.Reset", "Size": "journal.Writer.Size", "StaleWrite": "journal.Writer.Next"}[last]
		for _, big := range []bool{false, true} {
			big := big
			l.add(entry, "ordering", fmt.Sprintf("%s(record of %s)", nm, map[bool]string{false: "10 bytes", true: "100000 bytes"}[big]), func(x *apiCtx) error {
				var out flushWriter
				w := journal.NewWriter(&out)
				var cur, stale io.Writer
				var lastErr error
				for _, o := range sq {
					switch o {
					case wNext:
						stale = cur
						cur, lastErr = w.Next()
					case wWrite:
						if cur != nil {
							n := 10
							if big {
								n = 100000
							}
							_, lastErr = cur.Write(make([]byte, n))
							cur.Write(nil)
						}
					case wFlush:
						stale, lastErr = cur, w.Flush()
					case wClose:
						stale, lastErr = cur, w.Close()
					case wReset:
						stale, lastErr = cur, w.Reset(&out)
					case wSize:
						if w.Size() < 0 {
							panic("harness: negative Size")
						}
					case wStale:
						if stale != nil {
							if _, err := stale.Write([]byte("x")); err == nil {
								panic("harness: a stale record writer still writes")
							}
						}
					}
				}
				// whatever was written must read back without a panic
				drainJournal(journal.NewReader(bytes.NewReader(out.Bytes()), nil, false, true), 100)
				return lastErr
			})
		}
	}
	l.add("journal.Writer.Size", "-", "nil *Writer", func(x *apiCtx) error {
		if (*journal.Writer)(nil).Size() != 0 {
			panic("harness: Size of a nil writer")
		}
		return nil
	})
	l.add("journal.NewWriter", "writer fails", "failing io.Writer: Next, Write 100000, Flush, Close, Next", func(x *apiCtx) error {
		w := journal.NewWriter(&failWriter{n: 1})
		ww, _ := w.Next()
		ww.Write(make([]byte, 100000))
		w.Flush()
		w.Next()
		w.Close()
		_, err := w.Next()
		if err == nil {
			panic("harness: a journal writer whose io.Writer failed goes on")
		}
		return nil
	})
	l.add("journal.NewWriter", "writer fails", "Flush of the underlying writer fails", func(x *apiCtx) error {
		w := journal.NewWriter(&flushWriter{fail: true})
		w.Next()
		err := w.Flush()
		w.Close()
		return err
	})
	l.add("journal.NewWriter", "required argument nil", "nil io.Writer: Next, Close", func(x *apiCtx) error {
		w := journal.NewWriter(nil)
		w.Next()
		return w.Close()
	})
	l.add("journal.Writer.Reset", "required argument nil", "Reset(nil) then Next, Flush", func(x *apiCtx) error {
		w := journal.NewWriter(&bytes.Buffer{})
		w.Reset(nil)
		w.Next()
		return w.Flush()
	})
}

// ---- table

type tableOpt struct {
	name string
	o    *opt.Options
}

func tableOpts() []tableOpt {
	return []tableOpt{{"o=nil", nil}, {"o=zero", &opt.Options{}},
		{"o=bloom, restart 1, block 64, no compression, strict", &opt.Options{Filter: filter.NewBloomFilter(10), BlockRestartInterval: 1, BlockSize: 64, Compression: opt.NoCompression, Strict: opt.StrictAll}}}
}

func buildTable(o *opt.Options, n int) []byte {
	var buf bytes.Buffer
	w := table.NewWriter(&buf, o, nil, 0)
	for i := 0; i < n; i++ {
		w.Append(apiKey(i*2), bytes.Repeat([]byte{'v'}, 30))
	}
	w.Close()
	return buf.Bytes()
}

const tableMagic = "\x57\xfb\x80\x8b\x24\x75\x47\xdb"

func uvar(v uint64) []byte { b := make([]byte, 10); return b[:binary.PutUvarint(b, v)] }

// footer builds a 48-byte footer from the two handles given as raw varint bytes
func footer(parts ...[]byte) []byte {
	f := make([]byte, 48)
	copy(f, bytes.Join(parts, nil))
	copy(f[40:], tableMagic)
	return f
}

// rawBlock: block contents + type byte + masked CRC (a block with a VALID checksum)
func rawBlock(content []byte) []byte {
	b := append(append([]byte(nil), content...), 0)
	crc := util.NewCRC(b).Value()
	return binary.LittleEndian.AppendUint32(b, crc)
}

type tableImage struct {
	class, name string
	b           []byte
	size        int64 // the size argument; -1 = len(b)
}

func tableImages(x *apiCtx) []tableImage {
	good := buildTable(tableOpts()[2].o, 40)
	empty := buildTable(nil, 0)
	over := bytes.Repeat([]byte{0xff}, 11)
	emptyBlk := rawBlock([]byte{0, 0, 0, 0}) // zero restarts
	lb := uint64(len(emptyBlk) - 5)
	mk := func(blocks []byte, f []byte) []byte { return append(append([]byte(nil), blocks...), f...) }
	two := append(append([]byte(nil), emptyBlk...), emptyBlk...)
	short := rawBlock([]byte{1, 2})                          // a block of 2 bytes: shorter than the restart count
	hugeRestarts := rawBlock([]byte{0xff, 0xff, 0xff, 0x7f}) // restart count 2^31-1
	badEntry := rawBlock(append(append([]byte{0}, over...), 0, 0, 0, 0, 1, 0, 0, 0))
	imgs := []tableImage{
		{"file well-formed", "well-formed, 40 entries, bloom filter", good, -1},
		{"file well-formed", "well-formed, no entries", empty, -1},
		{"size wrong", "size 0", good, 0}, {"size wrong", "size 1", good, 1}, {"size wrong", "size 47", good, 47}, {"size wrong", "size 48 (footer only)", good[len(good)-48:], -1},
		{"size wrong", "size negative", good, -1 << 40}, {"size wrong", "size MinInt64", good, -1 << 63}, {"size wrong", "size larger than the file", good, int64(len(good)) + 1000},
		{"size wrong", "size MaxInt64", good, 1<<63 - 1}, {"size wrong", "size smaller than the file", good, int64(len(good)) - 7},
		{"bytes arbitrary", "nil file contents, size 0", nil, 0}, {"bytes arbitrary", "nil file contents, size 48", nil, 48},
		{"bytes arbitrary", "random 48", x.r.Bytes(48, nil), -1}, {"bytes arbitrary", "random 1000", x.r.Bytes(1000, nil), -1},
		{"bytes arbitrary", "random 1000 + magic", append(x.r.Bytes(992, nil), tableMagic...), -1},
		{"bytes arbitrary", "well-formed, data part random", append(x.r.Bytes(len(good)-48, nil), good[len(good)-48:]...), -1},
		{"bytes arbitrary", "well-formed, one bit flipped in each quarter", flipBits(good), -1},
		{"footer crafted", "metaindex handle: varint overflow", mk(two, footer(over)), -1},
		{"footer crafted", "metaindex ok, index handle: varint overflow", mk(two, footer(uvar(0), uvar(lb), over)), -1},
		{"footer crafted", "metaindex offset ok, length: varint overflow", mk(two, footer(uvar(0), over)), -1},
		{"footer crafted", "metaindex handle unterminated (40 x 80)", mk(two, footer(bytes.Repeat([]byte{0x80}, 40))), -1},
		{"footer crafted", "metaindex length 2^63", mk(two, footer(uvar(0), uvar(1<<63), uvar(0), uvar(lb))), -1},
		{"footer crafted", "metaindex length 2^64-5", mk(two, footer(uvar(0), uvar(1<<64-5), uvar(0), uvar(lb))), -1},
		{"footer crafted", "metaindex length 2^64-1", mk(two, footer(uvar(0), uvar(1<<64-1), uvar(0), uvar(lb))), -1},
		{"footer crafted", "metaindex length 2^40", mk(two, footer(uvar(0), uvar(1<<40), uvar(0), uvar(lb))), -1},
		{"footer crafted", "metaindex length 2^31", mk(two, footer(uvar(0), uvar(1<<31), uvar(0), uvar(lb))), -1},
		{"footer crafted", "metaindex length file size + 1", mk(two, footer(uvar(0), uvar(uint64(len(two))+48+1), uvar(0), uvar(lb))), -1},
		{"footer crafted", "metaindex offset 2^63", mk(two, footer(uvar(1<<63), uvar(lb), uvar(0), uvar(lb))), -1},
		{"footer crafted", "metaindex offset 2^64-1", mk(two, footer(uvar(1<<64-1), uvar(lb), uvar(0), uvar(lb))), -1},
		{"footer crafted", "metaindex offset beyond the file", mk(two, footer(uvar(1<<20), uvar(lb), uvar(0), uvar(lb))), -1},
		{"footer crafted", "index length 2^63", mk(two, footer(uvar(0), uvar(lb), uvar(0), uvar(1<<63))), -1},
		{"footer crafted", "index length 2^40", mk(two, footer(uvar(0), uvar(lb), uvar(0), uvar(1<<40))), -1},
		{"footer crafted", "index length 2^64-5", mk(two, footer(uvar(0), uvar(lb), uvar(0), uvar(1<<64-5))), -1},
		{"footer crafted", "index offset 2^63", mk(two, footer(uvar(0), uvar(lb), uvar(1<<63), uvar(lb))), -1},
		{"footer crafted", "both handles zero length", mk(two, footer(uvar(0), uvar(0), uvar(0), uvar(0))), -1},
		{"footer crafted", "two empty blocks (well-formed empty table by hand)", mk(two, footer(uvar(0), uvar(lb), uvar(uint64(len(emptyBlk))), uvar(lb))), -1},
		{"block crafted with a valid checksum", "metaindex block of 2 bytes", mk(append(append([]byte(nil), short...), emptyBlk...), footer(uvar(0), uvar(2), uvar(uint64(len(short))), uvar(lb))), -1},
		{"block crafted with a valid checksum", "index block of 2 bytes", mk(append(append([]byte(nil), emptyBlk...), short...), footer(uvar(0), uvar(lb), uvar(uint64(len(emptyBlk))), uvar(2))), -1},
		{"block crafted with a valid checksum", "index block of 0 bytes", mk(append(append([]byte(nil), emptyBlk...), rawBlock(nil)...), footer(uvar(0), uvar(lb), uvar(uint64(len(emptyBlk))), uvar(0))), -1},
		{"block crafted with a valid checksum", "index block: restart count 2^31-1", mk(append(append([]byte(nil), emptyBlk...), hugeRestarts...), footer(uvar(0), uvar(lb), uvar(uint64(len(emptyBlk))), uvar(4))), -1},
		{"block crafted with a valid checksum", "metaindex block: restart count 2^31-1", mk(append(append([]byte(nil), hugeRestarts...), emptyBlk...), footer(uvar(0), uvar(4), uvar(uint64(len(hugeRestarts))), uvar(lb))), -1},
		{"block crafted with a valid checksum", "index block: entry with an overflowing varint", mk(append(append([]byte(nil), emptyBlk...), badEntry...), footer(uvar(0), uvar(lb), uvar(uint64(len(emptyBlk))), uvar(uint64(len(badEntry)-5)))), -1},
	}
	// crafted data blocks (valid checksums): one data block, an empty metaindex block, an index block of one entry
	ent := func(shared, klen, vlen []byte, key, val string) []byte {
		return bytes.Join([][]byte{shared, klen, vlen, []byte(key), []byte(val)}, nil)
	}
	le := func(v ...uint32) []byte {
		var b []byte
		for _, x := range v {
			b = binary.LittleEndian.AppendUint32(b, x)
		}
		return b
	}
	// rawBlockT: as rawBlock with a given compression type byte
	rawBlockT := func(content []byte, typ byte) []byte {
		b := append(append([]byte(nil), content...), typ)
		return binary.LittleEndian.AppendUint32(b, util.NewCRC(b).Value())
	}
	withRaw := func(d []byte, n int) []byte {
		h := append(uvar(0), uvar(uint64(n))...)
		ixc := append(ent(uvar(0), uvar(1), uvar(uint64(len(h))), "z", string(h)), le(0, 1)...)
		ix := rawBlock(ixc)
		all := append(append(append([]byte(nil), d...), emptyBlk...), ix...)
		return append(all, footer(uvar(uint64(len(d))), uvar(lb), uvar(uint64(len(d)+len(emptyBlk))), uvar(uint64(len(ixc))))...)
	}
	withData := func(content []byte) []byte {
		d := rawBlock(content)
		h := append(uvar(0), uvar(uint64(len(content)))...)
		ixc := append(ent(uvar(0), uvar(1), uvar(uint64(len(h))), "z", string(h)), le(0, 1)...)
		ix := rawBlock(ixc)
		all := append(append(append([]byte(nil), d...), emptyBlk...), ix...)
		return append(all, footer(uvar(uint64(len(d))), uvar(lb), uvar(uint64(len(d)+len(emptyBlk))), uvar(uint64(len(ixc))))...)
	}
	e1 := ent(uvar(0), uvar(1), uvar(1), "a", "1")
	for _, c := range []struct {
		name    string
		content []byte
	}{
		{"data block well-formed by hand (a=1, b=2)", append(append(append([]byte(nil), e1...), ent(uvar(0), uvar(1), uvar(1), "b", "2")...), le(0, uint32(len(e1)), 2)...)},
		{"data block: first entry, shared length varint overflows", append(ent(over, uvar(1), uvar(1), "a", "1"), le(0, 1)...)},
		{"data block: first entry, key length varint overflows", append(ent(uvar(0), over, uvar(1), "a", "1"), le(0, 1)...)},
		{"data block: first entry, value length varint overflows", append(ent(uvar(0), uvar(1), over, "a", "1"), le(0, 1)...)},
		{"data block: first entry, key length 2^63", append(ent(uvar(0), uvar(1<<63), uvar(1), "a", "1"), le(0, 1)...)},
		{"data block: first entry, value length 2^64-1", append(ent(uvar(0), uvar(1), uvar(1<<64-1), "a", "1"), le(0, 1)...)},
		{"data block: first entry, key length beyond the block", append(ent(uvar(0), uvar(200), uvar(1), "a", "1"), le(0, 1)...)},
		{"data block: first entry shares 5 bytes with nothing", append(ent(uvar(5), uvar(1), uvar(1), "a", "1"), le(0, 1)...)},
		{"data block: second entry shares 2^31 bytes", append(append(append([]byte(nil), e1...), ent(uvar(1<<31), uvar(1), uvar(1), "b", "2")...), le(0, 1)...)},
		{"data block: second entry shares 2^63 bytes", append(append(append([]byte(nil), e1...), ent(uvar(1<<63), uvar(1), uvar(1), "b", "2")...), le(0, 1)...)},
		{"data block: restart point beyond the entries", append(append([]byte(nil), e1...), le(0, 100, 2)...)},
		{"data block: restart point 2^32-1", append(append([]byte(nil), e1...), le(0, 1<<32-1, 2)...)},
		{"data block: restart point inside an entry", append(append(append([]byte(nil), e1...), ent(uvar(0), uvar(1), uvar(1), "b", "2")...), le(0, 2, 2)...)},
		{"data block: restart count 0 with entries", append(append([]byte(nil), e1...), le(0)...)},
		{"data block: only a restart count", le(0)},
		{"data block: 3 bytes", []byte{1, 2, 3}},
	} {
		imgs = append(imgs, tableImage{"block crafted with a valid checksum", c.name, withData(c.content), -1})
	}
	// compressed blocks (type byte 1) whose snappy header claims a decoded length
	for _, c := range []struct {
		name string
		body []byte
	}{
		{"snappy block: empty body", nil},
		{"snappy block: header only, 0 decoded bytes", uvar(0)},
		{"snappy block: header claims 2^20 decoded bytes, no elements", uvar(1 << 20)},
		{"snappy block: header claims 2^31 decoded bytes, no elements", uvar(1 << 31)},
		{"snappy block: header claims 2^32-1 decoded bytes, one literal", append(uvar(1<<32-1), 0, 'x')},
		{"snappy block: header claims 2^32 decoded bytes", uvar(1 << 32)},
		{"snappy block: header varint overflows", over},
		{"snappy block: unknown type byte 2", nil},
	} {
		typ := byte(1)
		if c.name == "snappy block: unknown type byte 2" {
			typ = 2
		}
		imgs = append(imgs, tableImage{"block crafted with a valid checksum (compressed)", c.name, withRaw(rawBlockT(c.body, typ), len(c.body)), -1})
	}
	return imgs
}

func flipBits(b []byte) []byte {
	nb := append([]byte(nil), b...)
	for q := 0; q < 4; q++ {
		nb[len(nb)*q/4+len(nb)/8] ^= 0x10
	}
	return nb
}

func useReader(r *table.Reader) error {
	var first error
	note := func(err error) {
		if err != nil && err != table.ErrNotFound && first == nil {
			first = err
		}
	}
	for _, k := range keyLattice() {
		for _, filtered := range []bool{false, true} {
			_, _, err := r.Find(k.b, filtered, nil)
			note(err)
			_, err = r.FindKey(k.b, filtered, &opt.ReadOptions{DontFillCache: true})
			note(err)
		}
		_, err := r.Get(k.b, nil)
		note(err)
		_, err = r.OffsetOf(k.b)
		note(err)
	}
	for _, rg := range rangeLattice() {
		note(walkIter(r.NewIterator(rg.r, nil), apiKey(6)))
	}
	return first
}

func casesTable(l *apiList) {
	nimg := len(tableImages(newApiCtx(1, "")))
	for gi := 0; gi < nimg; gi++ {
		gi := gi
		proto := tableImages(newApiCtx(1, ""))[gi]
		for _, env := range []struct {
			name        string
			cache, pool bool
			o           *opt.Options
		}{{"no cache, no pool, o=nil", false, false, nil}, {"cache, pool, bloom + strict", true, true, tableOpts()[2].o}} {
			env := env
			l.add("table.NewReader", proto.class, proto.name+" / "+env.name, func(x *apiCtx) error {
				img := tableImages(x)[gi]
				size := img.size
				if size == -1 {
					size = int64(len(img.b))
				}
				var cg *cache.NamespaceGetter
				var pool *util.BufferPool
				var c *cache.Cache
				if env.cache {
					c = cache.NewCache(cache.NewLRU(1 << 20))
					cg = &cache.NamespaceGetter{Cache: c, NS: 1}
				}
				if env.pool {
					pool = util.NewBufferPool(512)
				}
				r, err := table.NewReader(bytes.NewReader(img.b), size, storage.FileDesc{Type: storage.TypeTable, Num: 1}, cg, pool, env.o)
				if err != nil {
					return err
				}
				err = useReader(r)
				r.Release()
				r.Release()
				// every method of a released reader returns
				r.Get(nil, nil)
				r.Find(nil, true, nil)
				r.FindKey(nil, false, nil)
				r.OffsetOf(nil)
				r.NewIterator(nil, nil).Release()
				if c != nil {
					c.Close(true)
				}
				return err
			})
		}
	}
	l.add("table.NewReader", "required argument nil", "nil io.ReaderAt", func(x *apiCtx) error {
		_, err := table.NewReader(nil, 100, storage.FileDesc{}, nil, nil, nil)
		return err
	})
	l.add("table.NewReader", "reader fails", "ReaderAt that fails", func(x *apiCtx) error {
		_, err := table.NewReader(failReaderAt{}, 100, storage.FileDesc{}, nil, nil, nil)
		return err
	})
	good := func() *table.Reader {
		b := buildTable(tableOpts()[2].o, 40)
		r, err := table.NewReader(bytes.NewReader(b), int64(len(b)), storage.FileDesc{Type: storage.TypeTable, Num: 1}, nil, nil, tableOpts()[2].o)
		if err != nil {
			panic("harness: NewReader: " + err.Error())
		}
		return r
	}
	for _, k := range keyLattice() {
		k := k
		kc := "key " + classOfKey(k.name)
		for _, ro := range readOptLattice() {
			ro := ro
			l.add("table.Reader.Find", kc, k.name+" "+ro.name, func(x *apiCtx) error {
				r := good()
				defer r.Release()
				_, _, err := r.Find(k.b, true, ro.ro)
				if err == table.ErrNotFound {
					err = nil
				}
				_, _, _ = r.Find(k.b, false, ro.ro)
				return err
			})
			l.add("table.Reader.FindKey", kc, k.name+" "+ro.name, func(x *apiCtx) error {
				r := good()
				defer r.Release()
				_, err := r.FindKey(k.b, true, ro.ro)
				if err == table.ErrNotFound {
					err = nil
				}
				return err
			})
			l.add("table.Reader.Get", kc, k.name+" "+ro.name, func(x *apiCtx) error {
				r := good()
				defer r.Release()
				_, err := r.Get(k.b, ro.ro)
				if err == table.ErrNotFound {
					err = nil
				}
				return err
			})
		}
		l.add("table.Reader.OffsetOf", kc, k.name, func(x *apiCtx) error {
			r := good()
			defer r.Release()
			off, err := r.OffsetOf(k.b)
			if err == nil && off < 0 {
				panic("harness: negative offset")
			}
			return err
		})
	}
	for _, rg := range rangeLattice() {
		rg := rg
		l.add("table.Reader.NewIterator", rangeClass(rg.name), rg.name, func(x *apiCtx) error {
			r := good()
			defer r.Release()
			return walkIter(r.NewIterator(rg.r, nil), apiKey(6))
		})
	}
	l.add("table.Reader.Release", "-", "twice; iterator outlives the reader", func(x *apiCtx) error {
		r := good()
		it := r.NewIterator(nil, nil)
		it.First()
		r.Release()
		r.Release()
		return walkIter(it, nil)
	})
	l.add("table.ErrCorrupted.Error", "-", "zero and filled", func(x *apiCtx) error {
		_ = (&table.ErrCorrupted{}).Error()
		_ = (&table.ErrCorrupted{Pos: -1, Size: -1, Kind: "k", Reason: "r"}).Error()
		return nil
	})

	// the writer
	for _, to := range tableOpts() {
		to := to
		for _, n := range intLattice(4096) {
			n := n
			for _, pooled := range []bool{false, true} {
				pooled := pooled
				l.add("table.NewWriter", intClass(n.n), fmt.Sprintf("size=%s pool=%v %s", n.name, pooled, to.name), func(x *apiCtx) error {
					var pool *util.BufferPool
					if pooled {
						pool = util.NewBufferPool(512)
					}
					var buf bytes.Buffer
					w := table.NewWriter(&buf, to.o, pool, n.n)
					if err := w.Append([]byte("a"), []byte("1")); err != nil {
						return err
					}
					return w.Close()
				})
			}
		}
		for _, k := range keyLattice() {
			for _, v := range valLattice() {
				k, v := k, v
				l.add("table.Writer.Append", "key "+classOfKey(k.name), k.name+" / value "+v.name+" "+to.name, func(x *apiCtx) error {
					var buf bytes.Buffer
					w := table.NewWriter(&buf, to.o, nil, 0)
					if err := w.Append(k.b, v.b); err != nil {
						return err
					}
					if err := w.Close(); err != nil {
						return err
					}
					r, err := table.NewReader(bytes.NewReader(buf.Bytes()), int64(buf.Len()), storage.FileDesc{Type: storage.TypeTable, Num: 1}, nil, nil, to.o)
					if err != nil {
						return err
					}
					defer r.Release()
					got, err := r.Get(k.b, nil)
					if err != nil || !bytes.Equal(got, v.b) {
						panic(fmt.Sprintf("harness: a table of one pair does not return it: %v", err))
					}
					return nil
				})
			}
		}
		l.add("table.Writer.Append", "keys out of order", "b then a; then more calls "+to.name, func(x *apiCtx) error {
			var buf bytes.Buffer
			w := table.NewWriter(&buf, to.o, nil, 0)
			w.Append([]byte("b"), nil)
			err := w.Append([]byte("a"), nil)
			if err == nil {
				panic("harness: an out-of-order key was accepted")
			}
			w.Append([]byte("c"), nil)
			_, _, _ = w.BlocksLen(), w.EntriesLen(), w.BytesLen()
			w.Close()
			return err
		})
		l.add("table.Writer.Append", "keys out of order", "the same key twice "+to.name, func(x *apiCtx) error {
			var buf bytes.Buffer
			w := table.NewWriter(&buf, to.o, nil, 0)
			w.Append([]byte("a"), nil)
			err := w.Append([]byte("a"), nil)
			if err == nil {
				panic("harness: a repeated key was accepted")
			}
			return err
		})
		l.add("table.Writer.Append", "after Close", to.name, func(x *apiCtx) error {
			var buf bytes.Buffer
			w := table.NewWriter(&buf, to.o, nil, 0)
			w.Close()
			err := w.Append([]byte("a"), nil)
			if err == nil {
				panic("harness: Append after Close was accepted")
			}
			return err
		})
		l.add("table.Writer.Close", "twice", "empty table, no pool "+to.name, func(x *apiCtx) error {
			var buf bytes.Buffer
			w := table.NewWriter(&buf, to.o, nil, 0)
			if err := w.Close(); err != nil {
				return err
			}
			n := buf.Len()
			w.Close()
			if buf.Len() != n {
				panic("harness: the second Close wrote to the file")
			}
			_, _, _ = w.BlocksLen(), w.EntriesLen(), w.BytesLen()
			return nil
		})
		l.add("table.Writer.Close", "twice", "with a buffer pool: the block buffer must have one owner "+to.name, func(x *apiCtx) error {
			pool := util.NewBufferPool(512)
			var buf bytes.Buffer
			w := table.NewWriter(&buf, to.o, pool, 512)
			w.Append([]byte("a"), []byte("1"))
			if err := w.Close(); err != nil {
				return err
			}
			w.Close()
			w.Close()
			// sync.Pool may drop entries, it never duplicates them: two live buffers with one array = two owners
			seen := map[uintptr]bool{}
			for i := 0; i < 4; i++ {
				b := pool.Get(512)
				p := uintptr(unsafe.Pointer(&b[:1][0]))
				if seen[p] {
					panic("harness: after Close twice the buffer pool hands out the same buffer to two owners (Close returned its block buffer to the pool again)")
				}
				seen[p] = true
			}
			return nil
		})
		l.add("table.Writer.Close", "writer fails", "the io.Writer fails at the n-th write "+to.name, func(x *apiCtx) error {
			var last error
			for n := 0; n < 6; n++ {
				w := table.NewWriter(&failWriter{n: n}, to.o, nil, 0)
				for i := 0; i < 30; i++ {
					w.Append(apiKey(i), bytes.Repeat([]byte{'v'}, 40))
				}
				last = w.Close()
				w.Close()
			}
			return last
		})
		for _, m := range []string{"BlocksLen", "EntriesLen", "BytesLen"} {
			m := m
			l.add("table.Writer."+m, "-", "fresh, after appends, after Close "+to.name, func(x *apiCtx) error {
				var buf bytes.Buffer
				w := table.NewWriter(&buf, to.o, nil, 0)
				chk := func() {
					if w.BlocksLen() < 0 || w.EntriesLen() < 0 || w.BytesLen() < 0 {
						panic("harness: negative length")
					}
				}
				chk()
				for i := 0; i < 100; i++ {
					w.Append(apiKey(i), bytes.Repeat([]byte{'v'}, 40))
					chk()
				}
				w.Close()
				chk()
				if w.BytesLen() != buf.Len() || w.EntriesLen() != 100 {
					panic("harness: BytesLen / EntriesLen after Close")
				}
				return nil
			})
		}
	}
	l.add("table.NewWriter", "required argument nil", "nil io.Writer, Append + Close", func(x *apiCtx) error {
		w := table.NewWriter(nil, nil, nil, 0)
		w.Append([]byte("a"), nil)
		return w.Close()
	})
}

type failReaderAt struct{}

func (failReaderAt) ReadAt(p []byte, off int64) (int, error) {
	return 0, stderrors.New("harness: ReadAt fails")
}

// ---- cache

type relValue struct{ n *int }

func (v relValue) Release() { *v.n++ }

func casesCache(l *apiList) {
	cachers := []struct {
		name string
		mk   func() cache.Cacher
	}{{"cacher=nil", func() cache.Cacher { return nil }}, {"LRU(100)", func() cache.Cacher { return cache.NewLRU(100) }}, {"LRU(0)", func() cache.Cacher { return cache.NewLRU(0) }},
		{"LRU(-1)", func() cache.Cacher { return cache.NewLRU(-1) }}, {"LRU(MinInt)", func() cache.Cacher { return cache.NewLRU(minInt) }}, {"LRU(MaxInt)", func() cache.Cacher { return cache.NewLRU(maxInt) }}}
	for _, n := range intLattice(100) {
		n := n
		l.add("cache.NewLRU", intClass(n.n), "capacity="+n.name, func(x *apiCtx) error {
			c := cache.NewLRU(n.n)
			if c.Capacity() != n.n {
				panic("harness: Capacity")
			}
			for _, m := range intLattice() {
				c.SetCapacity(m.n)
			}
			return nil
		})
	}
	for _, cc := range cachers {
		cc := cc
		l.add("cache.NewCache", "-", cc.name+": fill with 2000 nodes of every size class, read back, evict", func(x *apiCtx) error {
			c := cache.NewCache(cc.mk())
			rel := 0
			for i := 0; i < 2000; i++ {
				sz := []int{0, 1, -1, 50, maxInt, minInt}[i%6]
				h := c.Get(uint64(i%3), uint64(i), func() (int, cache.Value) { return sz, relValue{&rel} })
				if h == nil {
					panic("harness: Get with a setFunc returned nil")
				}
				_ = h.Value()
				h.Release()
				h.Release()
			}
			_, _, _ = c.Nodes(), c.Size(), c.Capacity()
			_ = c.GetStats()
			c.EvictNS(1)
			c.EvictAll()
			c.Close(false)
			c.Close(true)
			return nil
		})
		l.add("cache.Cache.Get", "setFunc nil", cc.name+": absent and present keys", func(x *apiCtx) error {
			c := cache.NewCache(cc.mk())
			defer c.Close(true)
			if c.Get(0, 1, nil) != nil {
				panic("harness: Get of an absent key without setFunc returns a handle")
			}
			h := c.Get(0, 1, func() (int, cache.Value) { return 1, "v" })
			h2 := c.Get(0, 1, nil)
			if h2 != nil {
				h2.Release()
			}
			h.Release()
			return nil
		})
		l.add("cache.Cache.Get", "setFunc returns nil", cc.name, func(x *apiCtx) error {
			c := cache.NewCache(cc.mk())
			defer c.Close(true)
			if c.Get(0, 1, func() (int, cache.Value) { return 10, nil }) != nil {
				panic("harness: a nil value was cached")
			}
			if c.Nodes() != 0 || c.Size() != 0 {
				panic("harness: a nil value left a node behind")
			}
			return nil
		})
		l.add("cache.Cache.Get", "setFunc panics", cc.name+": the panic of the callback reaches the caller", func(x *apiCtx) error {
			c := cache.NewCache(cc.mk())
			c.Get(0, 1, func() (int, cache.Value) { panic("harness: setFunc panics") })
			return nil
		})
		l.add("cache.Cache.Get", "keys extreme", cc.name+": ns and key 0 and 2^64-1", func(x *apiCtx) error {
			c := cache.NewCache(cc.mk())
			defer c.Close(true)
			for _, ns := range []uint64{0, 1<<64 - 1} {
				for _, k := range []uint64{0, 1<<64 - 1} {
					h := c.Get(ns, k, func() (int, cache.Value) { return 1, k })
					if h.Value().(uint64) != k {
						panic("harness: wrong value")
					}
					h.Release()
				}
			}
			return nil
		})
		l.add("cache.Cache.Delete", "key absent", cc.name+": nil and non-nil delFunc", func(x *apiCtx) error {
			c := cache.NewCache(cc.mk())
			defer c.Close(true)
			n := 0
			if c.Delete(0, 1, nil) || c.Delete(0, 1, func() { n++ }) {
				panic("harness: Delete of an absent key reports true")
			}
			if n != 1 {
				panic("harness: delFunc of an absent key must run once")
			}
			return nil
		})
		l.add("cache.Cache.Delete", "key present", cc.name+": held and released, twice", func(x *apiCtx) error {
			c := cache.NewCache(cc.mk())
			defer c.Close(true)
			n := 0
			h := c.Get(0, 1, func() (int, cache.Value) { return 1, "v" })
			c.Delete(0, 1, func() { n++ })
			c.Delete(0, 1, func() { n++ })
			h.Release()
			c.Delete(0, 1, func() { n++ })
			if n != 3 {
				panic(fmt.Sprintf("harness: three delFuncs, %d ran", n))
			}
			return nil
		})
		l.add("cache.Cache.Evict", "key absent", cc.name, func(x *apiCtx) error {
			c := cache.NewCache(cc.mk())
			defer c.Close(true)
			if c.Evict(0, 1) {
				panic("harness: Evict of an absent key reports true")
			}
			c.EvictNS(5)
			c.EvictAll()
			return nil
		})
		l.add("cache.Cache.Evict", "key present", cc.name+": held and released", func(x *apiCtx) error {
			c := cache.NewCache(cc.mk())
			defer c.Close(true)
			h := c.Get(0, 1, func() (int, cache.Value) { return 1, "v" })
			c.Evict(0, 1)
			h.Release()
			c.Evict(0, 1)
			c.Evict(0, 1)
			return nil
		})
		for _, n := range intLattice(50) {
			n := n
			l.add("cache.Cache.SetCapacity", intClass(n.n), cc.name+" capacity="+n.name+" on a filled cache", func(x *apiCtx) error {
				c := cache.NewCache(cc.mk())
				defer c.Close(true)
				for i := 0; i < 100; i++ {
					c.Get(0, uint64(i), func() (int, cache.Value) { return 10, i }).Release()
				}
				c.SetCapacity(n.n)
				_ = c.Capacity()
				for i := 0; i < 100; i++ {
					c.Get(0, uint64(i+100), func() (int, cache.Value) { return 10, i }).Release()
				}
				return nil
			})
		}
		for _, force := range []bool{false, true} {
			force := force
			l.add("cache.Cache.Close", "-", fmt.Sprintf("%s force=%v: twice, with a live handle, then every method", cc.name, force), func(x *apiCtx) error {
				c := cache.NewCache(cc.mk())
				rel := 0
				h := c.Get(0, 1, func() (int, cache.Value) { return 1, relValue{&rel} })
				c.Get(0, 2, func() (int, cache.Value) { return 1, relValue{&rel} }).Release()
				c.Close(force)
				c.Close(force)
				c.Close(!force)
				_ = h.Value()
				h.Release()
				h.Release()
				if c.Get(0, 3, func() (int, cache.Value) { return 1, "v" }) != nil {
					panic("harness: Get on a closed cache returns a handle")
				}
				c.Delete(0, 1, func() {})
				c.Evict(0, 1)
				c.EvictNS(0)
				c.EvictAll()
				c.SetCapacity(5)
				_, _, _ = c.Nodes(), c.Size(), c.Capacity()
				_ = c.GetStats()
				if rel > 2 {
					panic("harness: a cached value was released more than once")
				}
				return nil
			})
		}
		for _, m := range []string{"Capacity", "Size", "Nodes", "GetStats", "EvictNS", "EvictAll"} {
			m := m
			l.add("cache.Cache."+m, "-", cc.name+": empty, filled, closed", func(x *apiCtx) error {
				c := cache.NewCache(cc.mk())
				call := func() {
					switch m {
					case "Capacity":
						_ = c.Capacity()
					case "Size":
						_ = c.Size()
					case "Nodes":
						if c.Nodes() < 0 {
							panic("harness: negative Nodes")
						}
					case "GetStats":
						_ = c.GetStats()
					case "EvictNS":
						c.EvictNS(0)
						c.EvictNS(1<<64 - 1)
					case "EvictAll":
						c.EvictAll()
					}
				}
				call()
				for i := 0; i < 600; i++ {
					c.Get(uint64(i%2), uint64(i), func() (int, cache.Value) { return 1, i }).Release()
				}
				call()
				c.Close(true)
				call()
				return nil
			})
		}
		l.add("cache.Handle.Release", "-", cc.name+": twice; after Close(force)", func(x *apiCtx) error {
			c := cache.NewCache(cc.mk())
			h := c.Get(0, 1, func() (int, cache.Value) { return 1, "v" })
			h.Release()
			h.Release()
			if h.Value() != nil {
				panic("harness: a released handle has a value")
			}
			h = c.Get(0, 1, func() (int, cache.Value) { return 1, "v" })
			c.Close(true)
			h.Release()
			return nil
		})
		l.add("cache.Handle.Value", "-", cc.name+": live, released, zero Handle", func(x *apiCtx) error {
			c := cache.NewCache(cc.mk())
			defer c.Close(true)
			h := c.Get(0, 1, func() (int, cache.Value) { return 1, "v" })
			_ = h.Value()
			h.Release()
			_ = h.Value()
			var z cache.Handle
			_ = z.Value()
			z.Release()
			return nil
		})
		l.add("cache.NamespaceGetter.Get", "-", cc.name+": nil and non-nil setFunc", func(x *apiCtx) error {
			c := cache.NewCache(cc.mk())
			defer c.Close(true)
			g := &cache.NamespaceGetter{Cache: c, NS: 1<<64 - 1}
			if g.Get(1, nil) != nil {
				panic("harness: Get of an absent key without setFunc returns a handle")
			}
			g.Get(1, func() (int, cache.Value) { return 1, "v" }).Release()
			return nil
		})
	}
	l.add("cache.NamespaceGetter.Get", "required argument nil", "zero NamespaceGetter (nil Cache)", func(x *apiCtx) error {
		g := &cache.NamespaceGetter{}
		g.Get(1, nil)
		return nil
	})
	// Node methods, reached through a Cacher that sees the nodes
	for _, m := range []string{"NS", "Key", "Size", "Value", "Ref", "GetHandle"} {
		m := m
		l.add("cache.Node."+m, "-", "nodes seen by a Cacher: promoted, banned, evicted, after Close", func(x *apiCtx) error {
			sp := &spyCacher{}
			c := cache.NewCache(sp)
			for i := 0; i < 20; i++ {
				c.Get(7, uint64(i), func() (int, cache.Value) { return i, i }).Release()
			}
			c.Delete(7, 3, nil)
			c.Evict(7, 4)
			c.Close(true)
			if len(sp.nodes) == 0 {
				panic("harness: the Cacher saw no node")
			}
			for _, n := range sp.nodes {
				switch m {
				case "NS":
					if n.NS() != 7 {
						panic("harness: NS")
					}
				case "Key":
					_ = n.Key()
				case "Size":
					_ = n.Size()
				case "Value":
					_ = n.Value()
				case "Ref":
					_ = n.Ref()
				case "GetHandle":
					if n.Ref() > 0 {
						n.GetHandle().Release()
					}
				}
			}
			return nil
		})
	}
	l.add("cache.Node.GetHandle", "node without a reference", "a node of a closed cache (ref = 0)", func(x *apiCtx) error {
		sp := &spyCacher{}
		c := cache.NewCache(sp)
		c.Get(7, 1, func() (int, cache.Value) { return 1, 1 }).Release()
		c.Close(true)
		sp.nodes[0].GetHandle()
		return nil
	})
	for _, m := range []string{"Capacity", "SetCapacity", "Promote", "Ban", "Evict"} {
		m := m
		l.add("cache.Cacher."+m, "-", "the LRU through the interface, nodes of a live and of a closed cache", func(x *apiCtx) error {
			lru := cache.NewLRU(5)
			sp := &spyCacher{inner: lru}
			c := cache.NewCache(sp)
			for i := 0; i < 20; i++ {
				c.Get(0, uint64(i), func() (int, cache.Value) { return 1, i }).Release()
			}
			use := func() {
				for _, n := range sp.nodes {
					switch m {
					case "Capacity":
						_ = lru.Capacity()
					case "SetCapacity":
						lru.SetCapacity(int(n.Key()) - 5)
					case "Promote":
						if n.Ref() > 0 {
							lru.Promote(n)
						}
					case "Ban":
						lru.Ban(n)
					case "Evict":
						lru.Evict(n)
						lru.Evict(n)
					}
				}
			}
			use()
			c.Close(true)
			use()
			return nil
		})
	}
	_ = comparer.DefaultComparer
}

// spyCacher records the nodes the cache shows to its Cacher
type spyCacher struct {
	inner cache.Cacher
	nodes []*cache.Node
}

func (s *spyCacher) Capacity() int {
	if s.inner != nil {
		return s.inner.Capacity()
	}
	return 0
}
func (s *spyCacher) SetCapacity(c int) {
	if s.inner != nil {
		s.inner.SetCapacity(c)
	}
}
func (s *spyCacher) Promote(n *cache.Node) {
	s.nodes = append(s.nodes, n)
	if s.inner != nil {
		s.inner.Promote(n)
	}
}
func (s *spyCacher) Ban(n *cache.Node) {
	if s.inner != nil {
		s.inner.Ban(n)
	}
}
func (s *spyCacher) Evict(n *cache.Node) {
	if s.inner != nil {
		s.inner.Evict(n)
	}
}

// ---- storage

func fdLattice() []struct {
	class string
	fd    storage.FileDesc
} {
	return []struct {
		class string
		fd    storage.FileDesc
	}{
		{"fd valid", storage.FileDesc{Type: storage.TypeTable, Num: 1}}, {"fd valid", storage.FileDesc{Type: storage.TypeManifest, Num: 0}},
		{"fd valid", storage.FileDesc{Type: storage.TypeJournal, Num: 1<<63 - 1}}, {"fd valid", storage.FileDesc{Type: storage.TypeTemp, Num: 1 << 60}},
		{"fd invalid", storage.FileDesc{}}, {"fd invalid", storage.FileDesc{Type: storage.TypeTable, Num: -1}}, {"fd invalid", storage.FileDesc{Type: storage.TypeTable, Num: -1 << 63}},
		{"fd invalid", storage.FileDesc{Type: storage.TypeAll, Num: 1}}, {"fd invalid", storage.FileDesc{Type: storage.TypeTable | storage.TypeJournal, Num: 1}},
		{"fd invalid", storage.FileDesc{Type: 16, Num: 1}}, {"fd invalid", storage.FileDesc{Type: -1, Num: 1}}, {"fd invalid", storage.FileDesc{Type: storage.FileType(minInt), Num: 1}},
	}
}

func casesStorage(l *apiList) {
	impls := []struct {
		name string
		mk   func(x *apiCtx) storage.Storage
	}{
		{"mem", func(x *apiCtx) storage.Storage { return storage.NewMemStorage() }},
		{"file", func(x *apiCtx) storage.Storage {
			s, err := storage.OpenFile(x.dir(), false)
			if err != nil {
				panic("harness: OpenFile: " + err.Error())
			}
			x.later(func() { s.Close() })
			return s
		}},
	}
	for _, im := range impls {
		im := im
		for _, f := range fdLattice() {
			f := f
			v := fmt.Sprintf("%s %v", im.name, f.fd)
			l.add("storage.FileDescOk", f.class, fmt.Sprint(f.fd), func(x *apiCtx) error {
				if storage.FileDescOk(f.fd) != (f.class == "fd valid") {
					panic("harness: FileDescOk")
				}
				return nil
			})
			l.add("storage.Storage.Create", f.class, v, func(x *apiCtx) error {
				s := im.mk(x)
				w, err := s.Create(f.fd)
				if err != nil {
					return err
				}
				w.Write(nil)
				w.Write([]byte("abc"))
				w.Sync()
				if err := w.Close(); err != nil {
					return err
				}
				w.Close()
				w.Write([]byte("late"))
				w.Sync()
				// create over an existing file
				w2, err := s.Create(f.fd)
				if err != nil {
					return err
				}
				return w2.Close()
			})
			l.add("storage.Storage.Open", f.class, v+" absent, then present", func(x *apiCtx) error {
				s := im.mk(x)
				if r, err := s.Open(f.fd); err == nil {
					r.Close()
					panic("harness: Open of an absent file succeeded")
				}
				w, err := s.Create(f.fd)
				if err != nil {
					return err
				}
				w.Write([]byte("0123456789"))
				w.Close()
				r, err := s.Open(f.fd)
				if err != nil {
					return err
				}
				r.Read(nil)
				r.Read(make([]byte, 100))
				r.ReadAt(make([]byte, 4), 3)
				r.ReadAt(make([]byte, 4), 1<<40)
				r.ReadAt(make([]byte, 4), -1)
				r.ReadAt(nil, 0)
				r.Seek(-1, io.SeekStart)
				r.Seek(1<<40, io.SeekEnd)
				r.Seek(0, 99)
				r.Seek(int64(minInt), io.SeekCurrent)
				if err := r.Close(); err != nil {
					return err
				}
				r.Close()
				r.Read(make([]byte, 1))
				r.ReadAt(make([]byte, 1), 0)
				r.Seek(0, 0)
				return nil
			})
			l.add("storage.Storage.Remove", f.class, v+" absent, then present, twice", func(x *apiCtx) error {
				s := im.mk(x)
				e1 := s.Remove(f.fd)
				if e1 == nil {
					panic("harness: Remove of an absent file succeeded")
				}
				w, err := s.Create(f.fd)
				if err != nil {
					return err
				}
				w.Close()
				if err := s.Remove(f.fd); err != nil {
					return err
				}
				s.Remove(f.fd)
				return nil
			})
			l.add("storage.Storage.Rename", f.class, v+" to / from a valid name, onto itself, absent source", func(x *apiCtx) error {
				s := im.mk(x)
				okfd := storage.FileDesc{Type: storage.TypeTable, Num: 77}
				s.Rename(f.fd, okfd)
				w, err := s.Create(okfd)
				if err != nil {
					return errors2("harness: ", err)
				}
				w.Close()
				e1 := s.Rename(okfd, f.fd)
				s.Rename(f.fd, f.fd)
				s.Rename(f.fd, okfd)
				return e1
			})
			l.add("storage.Storage.SetMeta", f.class, v+", then GetMeta", func(x *apiCtx) error {
				s := im.mk(x)
				if err := s.SetMeta(f.fd); err != nil {
					return err
				}
				_, err := s.GetMeta()
				return err
			})
			l.add("storage.FileDesc.String", f.class, fmt.Sprint(f.fd), func(x *apiCtx) error { _ = f.fd.String(); return nil })
			l.add("storage.FileDesc.Zero", f.class, fmt.Sprint(f.fd), func(x *apiCtx) error { _ = f.fd.Zero(); return nil })
		}
		l.add("storage.Storage.GetMeta", "-", im.name+" without a meta", func(x *apiCtx) error {
			_, err := im.mk(x).GetMeta()
			if err == nil {
				panic("harness: GetMeta of a fresh storage succeeded")
			}
			return nil
		})
		for _, ft := range []storage.FileType{0, storage.TypeManifest, storage.TypeAll, 16, -1, storage.FileType(minInt), storage.FileType(maxInt)} {
			ft := ft
			l.add("storage.Storage.List", "file type any", fmt.Sprintf("%s type=%d", im.name, int(ft)), func(x *apiCtx) error {
				s := im.mk(x)
				for i, t := range []storage.FileType{storage.TypeManifest, storage.TypeJournal, storage.TypeTable, storage.TypeTemp} {
					if w, err := s.Create(storage.FileDesc{Type: t, Num: int64(i)}); err == nil {
						w.Close()
					}
				}
				_, err := s.List(ft)
				return err
			})
			l.add("storage.FileType.String", "file type any", fmt.Sprintf("type=%d", int(ft)), func(x *apiCtx) error { _ = ft.String(); return nil })
		}
		l.add("storage.Storage.Lock", "-", im.name+": lock, second lock, unlock twice, relock", func(x *apiCtx) error {
			s := im.mk(x)
			lk, err := s.Lock()
			if err != nil {
				return err
			}
			if _, err := s.Lock(); err == nil {
				panic("harness: a second lock was granted")
			}
			lk.Unlock()
			lk.Unlock()
			lk2, err := s.Lock()
			if err != nil {
				return err
			}
			lk.Unlock() // a stale locker must not release the new lock
			if _, err := s.Lock(); err == nil {
				panic("harness: a stale Locker released the new lock")
			}
			lk2.Unlock()
			return nil
		})
		l.add("storage.Locker.Unlock", "-", im.name+": after the storage was closed", func(x *apiCtx) error {
			s := im.mk(x)
			lk, err := s.Lock()
			if err != nil {
				return err
			}
			s.Close()
			lk.Unlock()
			lk.Unlock()
			return nil
		})
		l.add("storage.Storage.Log", "-", im.name+": empty, long, with newlines and NUL; after Close", func(x *apiCtx) error {
			s := im.mk(x)
			s.Log("")
			s.Log(string(bytes.Repeat([]byte{'l'}, 1<<16)))
			s.Log("a\nb\x00c%d%s")
			s.Close()
			s.Log("late")
			return nil
		})
		l.add("storage.Storage.Close", "-", im.name+": twice, with open handles, then every method", func(x *apiCtx) error {
			s := im.mk(x)
			fd := storage.FileDesc{Type: storage.TypeTable, Num: 1}
			w, _ := s.Create(fd)
			w.Write([]byte("abc"))
			fd2 := storage.FileDesc{Type: storage.TypeTable, Num: 2}
			w2, _ := s.Create(fd2)
			w2.Close()
			r, _ := s.Open(fd2)
			err := s.Close()
			s.Close()
			w.Write([]byte("x"))
			w.Sync()
			w.Close()
			if r != nil {
				r.Read(make([]byte, 1))
				r.Close()
			}
			s.Lock()
			s.SetMeta(fd)
			s.GetMeta()
			s.List(storage.TypeAll)
			s.Open(fd)
			s.Create(fd)
			s.Remove(fd)
			s.Rename(fd, fd2)
			return err
		})
		for _, m := range []string{"Syncer.Sync"} {
			m := m
			l.add("storage."+m, "-", im.name+": handle methods with nil / empty / data, after Close", func(x *apiCtx) error {
				s := im.mk(x)
				fd := storage.FileDesc{Type: storage.TypeJournal, Num: 3}
				w, err := s.Create(fd)
				if err != nil {
					return err
				}
				w.Write(nil)
				w.Write([]byte{})
				w.Write(make([]byte, 1<<16))
				w.Sync()
				w.Sync()
				w.Close()
				w.Sync()
				r, err := s.Open(fd)
				if err != nil {
					return err
				}
				io.Copy(io.Discard, r)
				r.Read(nil)
				return r.Close()
			})
		}
	}
	l.add("storage.NewMemStorage", "-", "two storages are independent", func(x *apiCtx) error {
		a, b := storage.NewMemStorage(), storage.NewMemStorage()
		w, _ := a.Create(storage.FileDesc{Type: storage.TypeTable, Num: 1})
		w.Close()
		if _, err := b.Open(storage.FileDesc{Type: storage.TypeTable, Num: 1}); err == nil {
			panic("harness: two mem storages share files")
		}
		return nil
	})
	l.add("storage.ErrCorrupted.Error", "error plain", "with and without fd", func(x *apiCtx) error {
		_ = (&storage.ErrCorrupted{Fd: storage.FileDesc{Type: storage.TypeTable, Num: 1}, Err: stderrors.New("x")}).Error()
		_ = (&storage.ErrCorrupted{Err: stderrors.New("x")}).Error()
		return nil
	})
	l.add("storage.ErrCorrupted.Error", "wrapped error nil", "zero value", func(x *apiCtx) error {
		_ = (&storage.ErrCorrupted{}).Error()
		return nil
	})
	// OpenFile paths
	paths := []struct{ class, name string }{
		{"path empty", ""}, {"path new", "new"}, {"path nested absent", "a/b/c"}, {"path regular file", "FILE"}, {"path below a regular file", "FILE/sub"},
		{"path odd", "with space and ü"}, {"path odd", "trailing/"}, {"path odd", "./dot/../dot2"}, {"path odd", string(bytes.Repeat([]byte{'x'}, 300))}, {"path odd", "nul\x00byte"},
		{"path existing directory", "DIR"}, {"path unwritable directory", "RODIR/sub"},
	}
	for _, p := range paths {
		for _, ro := range []bool{false, true} {
			p, ro := p, ro
			l.add("storage.OpenFile", p.class, fmt.Sprintf("%q readOnly=%v", shorten(p.name), ro), func(x *apiCtx) error {
				base := x.dir()
				os.MkdirAll(base+"/DIR", 0o755)
				os.MkdirAll(base+"/RODIR", 0o555)
				defer os.Chmod(base+"/RODIR", 0o755)
				os.WriteFile(base+"/FILE", []byte("x"), 0o644)
				path := base + "/" + p.name
				if p.name == "" {
					wd, _ := os.Getwd()
					os.MkdirAll(base+"/cwd", 0o755)
					os.Chdir(base + "/cwd")
					defer os.Chdir(wd)
					path = ""
				}
				s, err := storage.OpenFile(path, ro)
				if err != nil {
					return err
				}
				if s2, err := storage.OpenFile(path, ro); err == nil {
					s2.Close()
					if !ro {
						panic("harness: two read-write storages on one directory")
					}
				}
				s.Log("x")
				s.GetMeta()
				s.List(storage.TypeAll)
				if err := s.Close(); err != nil {
					return err
				}
				s.Close()
				return nil
			})
		}
	}
}

func errors2(prefix string, err error) error { return stderrors.New(prefix + err.Error()) }
