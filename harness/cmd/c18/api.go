package main

// Part "api": the TOTALITY sweep of goleveldb's public API surface.
//
// Claim checked: every exported function and method of the packages leveldb, leveldb/util, comparer, filter, memdb,
// iterator, journal, table, cache, storage, opt, errors, called with every value of an argument lattice
// ({nil, empty, 1-byte, typical, large} x {0, 1, -1, MaxInt, MinInt, boundary}), RETURNS (a result or an error):
// it does not panic, does not loop, does not allocate from an unchecked number -- unless the documentation of
// the entry point forbids the argument (table apiExceptions, each row quoting the doc comment).
//
// How: the case list (api_*.go) is deterministic; the parent (apiSweep) partitions it into groups and runs each
// group in a CHILD process of this binary (env C18_API_CHILD) under `ulimit -v` 4 GB; the child runs its cases one
// at a time, each with recover(), a watchdog and an allocation meter, and reports one line per case.  A child that
// dies (a panic in a goroutine of the implementation, a fatal runtime error such as out of memory or stack
// overflow) is attributed to the case in flight and the group continues in a fresh child behind it.
// Outcome classes: 0 ok | 1 error | 2 panic | 3 hang | 4 huge allocation | 5 process died.
// (P): an outcome outside the class set the table allows is a violation (replay = the case index).
// (K): every observation (entry, argument class, outcome) is a case KApi, evaluated in Coq against the SECOND copy of
// the table (Store/ApiTotality.v: api_totality_table); the exported surface enumerated from the Go SOURCE (go/ast) is
// a case KApiEnum: an exported function or method that the table does not know is a mismatch, and (P) reports every
// enumerated entry point that no case calls.

import (
	"bufio"
	"encoding/json"
	"fmt"
	"go/ast"
	"go/parser"
	"go/token"
	"os"
	"os/exec"
	"path/filepath"
	"reflect"
	"runtime"
	"runtime/debug"
	"sort"
	"strconv"
	"strings"
	"sync"
	"time"

	"github.com/syndtr/goleveldb/leveldb"
	"verifharness/lib/vlib"
)

type apiOut int

const (
	aOk apiOut = iota
	aErr
	aPanic
	aHang
	aAlloc
	aDied
)

var apiOutNames = [...]string{"ok", "error", "PANIC", "HANG", "HUGE-ALLOC", "DIED"}

func (o apiOut) String() string { return apiOutNames[o] }

// masks over outcome classes
const (
	mOk    = 1 << aOk
	mErr   = 1 << aErr
	mPanic = 1 << aPanic
	mHang  = 1 << aHang
	mAlloc = 1 << aAlloc
	mDied  = 1 << aDied
	mRet   = mOk | mErr // "returns"
)

// apiCase is one call: entry = "<pkg>.<Func>" or "<pkg>.<Type>.<Method>"; class = the argument class (the key of the
// totality table); variant = which member of the class (free text, part of the replay only).
type apiCase struct {
	group   string
	entry   string
	class   string
	variant string
	run     func(x *apiCtx) error
	// model (optional): the (K) case that compares the outcome with the Coq model of this entry point on this input
	model func(out apiOut) string
}

type apiList struct {
	group string
	cases []apiCase
}

func (l *apiList) add(entry, class, variant string, run func(x *apiCtx) error) {
	l.cases = append(l.cases, apiCase{group: l.group, entry: entry, class: class, variant: variant, run: run})
}

// withModel attaches a model comparison to the case added last.
func (l *apiList) withModel(f func(out apiOut) string) { l.cases[len(l.cases)-1].model = f }

// apiCases builds the whole deterministic case list (the order is the case index).
func apiCases() []apiCase {
	var all []apiCase
	for _, g := range []struct {
		name string
		f    func(l *apiList)
	}{
		{"db", casesDB}, {"dbw", casesDBWrite}, {"open", casesOpen}, {"batch", casesBatch}, {"handles", casesHandles},
		{"util", casesUtil}, {"small", casesSmall}, {"memdb", casesMemdb}, {"iterator", casesIterator},
		{"journal", casesJournal}, {"table", casesTable}, {"cache", casesCache}, {"storage", casesStorage},
	} {
		l := &apiList{group: g.name}
		g.f(l)
		all = append(all, l.cases...)
	}
	return all
}

// ---- the child

type apiLine struct {
	I      int    `json:"i"`
	Start  bool   `json:"s,omitempty"`
	Out    int    `json:"o"`
	Detail string `json:"d,omitempty"`
	MB     int    `json:"mb,omitempty"`
}

const apiHugeMB = 192 // a call on small arguments that allocates this much allocated from an unchecked number

func apiWatchdog(thorough bool) time.Duration {
	if thorough {
		return 10 * time.Second
	}
	return 5 * time.Second
}

// runApiCase runs one case in this process: recover, watchdog, allocation meter.
func runApiCase(c apiCase, x *apiCtx, wd time.Duration) (out apiOut, detail string, mb int) {
	type res struct {
		out    apiOut
		detail string
	}
	var m0, m1 runtime.MemStats
	runtime.ReadMemStats(&m0)
	ch := make(chan res, 1)
	go func() {
		var r res
		defer func() {
			if e := recover(); e != nil {
				r.out = aPanic
				r.detail = fmt.Sprintf("%v @ %s", e, apiFrame(debug.Stack()))
			}
			ch <- r
		}()
		defer x.cleanup()
		if err := c.run(x); err != nil {
			r.out = aErr
			r.detail = apiFirstLine(err.Error())
		}
	}()
	select {
	case r := <-ch:
		out, detail = r.out, r.detail
	case <-time.After(wd):
		return aHang, fmt.Sprintf("no return within %v", wd), 0
	}
	runtime.ReadMemStats(&m1)
	mb = int((m1.TotalAlloc - m0.TotalAlloc) >> 20)
	if (out == aOk || out == aErr) && mb >= apiHugeMB {
		detail = fmt.Sprintf("allocated %d MB (%s)", mb, detail)
		out = aAlloc
	}
	if len(detail) > 300 {
		detail = detail[:300]
	}
	return
}

// apiFrame: the first goleveldb frame of a stack (function + file:line).
func apiFrame(stack []byte) string {
	lines := strings.Split(string(stack), "\n")
	for i, l := range lines {
		if strings.Contains(l, "goleveldb/leveldb") && !strings.HasPrefix(strings.TrimSpace(l), "/") && !strings.Contains(l, "cmd/c18") {
			f := strings.TrimSpace(l)
			if j := strings.LastIndex(f, "("); j > 0 {
				f = f[:j]
			}
			f = strings.TrimPrefix(f, "github.com/syndtr/goleveldb/")
			if i+1 < len(lines) {
				p := strings.TrimSpace(lines[i+1])
				if j := strings.Index(p, " +0x"); j > 0 {
					p = p[:j]
				}
				if j := strings.LastIndex(p, "/leveldb/"); j >= 0 {
					p = p[j+1:]
				}
				return f + " " + p
			}
			return f
		}
	}
	return "(no goleveldb frame)"
}

func apiFirstLine(s string) string {
	if i := strings.IndexByte(s, '\n'); i >= 0 {
		s = s[:i]
	}
	if len(s) > 200 {
		s = s[:200]
	}
	return s
}

// apiChild: env C18_API_CHILD = "<seed>:<group>:<start>:<thorough 0|1>:<tmpdir>[:<only>]"; runs the cases of the group
// from position start on (only that one when <only> is 1), one JSON line per event on stdout.
func apiChild(spec string) {
	p := strings.SplitN(spec, ":", 6)
	if len(p) < 5 {
		fmt.Fprintln(os.Stderr, "bad C18_API_CHILD")
		os.Exit(2)
	}
	seed, _ := strconv.ParseUint(p[0], 10, 64)
	group := p[1]
	start, _ := strconv.Atoi(p[2])
	thorough := p[3] == "1"
	tmp := p[4]
	only := len(p) == 6 && p[5] == "1"
	debug.SetGCPercent(50)
	all := apiCases()
	w := bufio.NewWriter(os.Stdout)
	emit := func(l apiLine) {
		b, _ := json.Marshal(l)
		w.Write(b)
		w.WriteByte('\n')
		w.Flush()
	}
	pos := 0
	x := newApiCtx(seed, tmp)
	for i, c := range all {
		if c.group != group {
			continue
		}
		if pos < start {
			pos++
			continue
		}
		pos++
		emit(apiLine{I: i, Start: true})
		x.reseed(seed, i)
		out, detail, mb := runApiCase(c, x, apiWatchdog(thorough))
		emit(apiLine{I: i, Out: int(out), Detail: detail, MB: mb})
		if out == aHang {
			// the abandoned goroutine may spin or hold locks: leave; the parent continues behind this case
			os.Exit(0)
		}
		if only {
			break
		}
	}
	x.shutdown()
}

// ---- the parent

type apiRow struct {
	Index   int    `json:"index"`
	Entry   string `json:"entry"`
	Class   string `json:"class"`
	Variant string `json:"variant"`
	Out     apiOut `json:"outcome"`
	Detail  string `json:"detail,omitempty"`
	MB      int    `json:"mb,omitempty"`
	ran     bool
}

// apiRunGroup runs the cases of one group from position start in children until the group is complete.
func apiRunGroup(seed uint64, group string, idxs []int, thorough bool, base string, only int, rows []apiRow) (spawned int, notes []string) {
	exe, err := os.Executable()
	if err != nil {
		return 0, []string{"cannot find own executable: " + err.Error()}
	}
	tmp, _ := os.MkdirTemp(base, "c18api-"+group+"-")
	defer os.RemoveAll(tmp)
	start := 0
	onlyFlag := ""
	if only >= 0 {
		for k, i := range idxs {
			if i == only {
				start = k
			}
		}
		onlyFlag = ":1"
	}
	th := "0"
	if thorough {
		th = "1"
	}
	for start < len(idxs) {
		spawned++
		spec := fmt.Sprintf("%d:%s:%d:%s:%s%s", seed, group, start, th, tmp, onlyFlag)
		cmd := exec.Command("sh", "-c", `ulimit -v 4194304 2>/dev/null; exec "$0"`, exe)
		cmd.Env = append(os.Environ(), "C18_API_CHILD="+spec, "GOMAXPROCS=4", "GOTRACEBACK=single")
		stdout, _ := cmd.StdoutPipe()
		errTail := &apiTail{max: 1 << 15}
		cmd.Stderr = errTail
		if err := cmd.Start(); err != nil {
			return spawned, append(notes, "cannot start the child: "+err.Error())
		}
		inflight := -1
		done := 0
		sc := bufio.NewScanner(stdout)
		sc.Buffer(make([]byte, 1<<16), 1<<20)
		killed := false
		timer := time.AfterFunc(apiWatchdog(thorough)*time.Duration(len(idxs)-start+4), func() { killed = true; cmd.Process.Kill() })
		for sc.Scan() {
			var l apiLine
			if json.Unmarshal(sc.Bytes(), &l) != nil {
				continue
			}
			if l.Start {
				inflight = l.I
				continue
			}
			if l.I >= 0 && l.I < len(rows) {
				rows[l.I].Out, rows[l.I].Detail, rows[l.I].MB, rows[l.I].ran = apiOut(l.Out), l.Detail, l.MB, true
				done++
				inflight = -1
			}
		}
		werr := cmd.Wait()
		timer.Stop()
		if only >= 0 {
			if inflight >= 0 {
				rows[inflight].Out, rows[inflight].Detail, rows[inflight].ran = apiDeath(errTail.String(), killed)
			}
			return
		}
		if inflight >= 0 {
			// the child died (or was killed) inside this case
			rows[inflight].Out, rows[inflight].Detail, rows[inflight].ran = apiDeath(errTail.String(), killed)
			done++
		} else if werr != nil && done == 0 {
			notes = append(notes, fmt.Sprintf("group %s: the child died outside a case at position %d: %v %s", group, start, werr, apiFirstLine(errTail.String())))
			return
		}
		if done == 0 {
			notes = append(notes, fmt.Sprintf("group %s: a child made no progress at position %d", group, start))
			return
		}
		start += done
	}
	return
}

// apiDeath classifies the death of a child from the head of its stderr.
func apiDeath(stderr string, killed bool) (apiOut, string, bool) {
	head := vlibPanicHead(stderr)
	switch {
	case killed:
		return aHang, "the child did not finish and was killed: " + head, true
	case strings.Contains(stderr, "out of memory") || strings.Contains(stderr, "cannot allocate memory"):
		return aAlloc, "fatal: " + head, true
	}
	return aDied, head, true
}

// vlibPanicHead: the panic / fatal-error line and the first goleveldb frames of a Go crash dump.
func vlibPanicHead(s string) string {
	i := strings.Index(s, "panic:")
	if j := strings.Index(s, "fatal error:"); j >= 0 && (i < 0 || j < i) {
		i = j
	}
	if i < 0 {
		return apiFirstLine(strings.TrimSpace(s))
	}
	s = s[i:]
	var keep []string
	for _, l := range strings.Split(s, "\n") {
		l = strings.TrimSpace(l)
		if strings.HasPrefix(l, "panic:") || strings.HasPrefix(l, "fatal error:") || (strings.Contains(l, "goleveldb/leveldb") && !strings.HasPrefix(l, "/") && !strings.Contains(l, "cmd/c18")) {
			if j := strings.LastIndex(l, "("); j > 0 && !strings.HasPrefix(l, "panic:") {
				l = l[:j]
			}
			keep = append(keep, strings.TrimPrefix(l, "github.com/syndtr/goleveldb/"))
		}
		if len(keep) >= 4 {
			break
		}
	}
	r := strings.Join(keep, " | ")
	if len(r) > 300 {
		r = r[:300]
	}
	return r
}

type apiTail struct {
	mu  sync.Mutex
	b   []byte
	max int
}

func (t *apiTail) Write(p []byte) (int, error) {
	t.mu.Lock()
	defer t.mu.Unlock()
	if len(t.b) < t.max {
		n := t.max - len(t.b)
		if n > len(p) {
			n = len(p)
		}
		t.b = append(t.b, p[:n]...)
	}
	return len(p), nil
}

func (t *apiTail) String() string { t.mu.Lock(); defer t.mu.Unlock(); return string(t.b) }

// apiSweep runs every case (only >= 0: that case alone) and returns the outcome matrix.
func apiSweep(seed uint64, thorough bool, base string, only int) (rows []apiRow, notes []string, children int) {
	all := apiCases()
	rows = make([]apiRow, len(all))
	groups := map[string][]int{}
	var order []string
	for i, c := range all {
		rows[i] = apiRow{Index: i, Entry: c.entry, Class: c.class, Variant: c.variant}
		if _, ok := groups[c.group]; !ok {
			order = append(order, c.group)
		}
		groups[c.group] = append(groups[c.group], i)
	}
	var wg sync.WaitGroup
	var mu sync.Mutex
	for _, g := range order {
		if only >= 0 && all[only].group != g {
			continue
		}
		wg.Add(1)
		go func(g string) {
			defer wg.Done()
			n, ns := apiRunGroup(seed, g, groups[g], thorough, base, only, rows)
			mu.Lock()
			children += n
			notes = append(notes, ns...)
			mu.Unlock()
		}(g)
	}
	wg.Wait()
	return
}

// ---- the exported surface, from the source

var apiPackages = []string{"", "util", "comparer", "filter", "memdb", "iterator", "journal", "table", "cache", "storage", "opt", "errors"}

// apiSourceDir: the directory of package leveldb of the tree this binary was built against.
func apiSourceDir() string {
	f := runtime.FuncForPC(reflect.ValueOf(leveldb.Open).Pointer())
	if f == nil {
		return ""
	}
	file, _ := f.FileLine(f.Entry())
	return filepath.Dir(file)
}

// apiSurface enumerates, per package: exported functions, exported methods of exported types, and the methods listed
// in exported interface types. Files of other platforms, tests and the verif_* hook files are left out.
func apiSurface(dir string) (names []string, err error) {
	for _, p := range apiPackages {
		pkg := "leveldb"
		if p != "" {
			pkg = p
		}
		ents, e := os.ReadDir(filepath.Join(dir, p))
		if e != nil {
			return nil, e
		}
		fs := token.NewFileSet()
		for _, ent := range ents {
			n := ent.Name()
			if ent.IsDir() || !strings.HasSuffix(n, ".go") || strings.HasSuffix(n, "_test.go") || strings.HasPrefix(n, "verif_") {
				continue
			}
			skip := false
			for _, s := range []string{"_windows", "_plan9", "_solaris", "_nacl", "_js"} {
				if strings.Contains(n, s) {
					skip = true
				}
			}
			if skip {
				continue
			}
			f, e := parser.ParseFile(fs, filepath.Join(dir, p, n), nil, 0)
			if e != nil {
				return nil, e
			}
			for _, d := range f.Decls {
				switch d := d.(type) {
				case *ast.FuncDecl:
					if !d.Name.IsExported() {
						continue
					}
					name := d.Name.Name
					if d.Recv != nil && len(d.Recv.List) > 0 {
						t := d.Recv.List[0].Type
						if s, ok := t.(*ast.StarExpr); ok {
							t = s.X
						}
						id, ok := t.(*ast.Ident)
						if !ok || !id.IsExported() {
							continue
						}
						name = id.Name + "." + name
					}
					names = append(names, pkg+"."+name)
				case *ast.GenDecl:
					for _, sp := range d.Specs {
						ts, ok := sp.(*ast.TypeSpec)
						if !ok || !ts.Name.IsExported() {
							continue
						}
						it, ok := ts.Type.(*ast.InterfaceType)
						if !ok {
							continue
						}
						for _, m := range it.Methods.List {
							for _, id := range m.Names {
								if id.IsExported() {
									names = append(names, pkg+"."+ts.Name.Name+"."+id.Name)
								}
							}
						}
					}
				}
			}
		}
	}
	sort.Strings(names)
	return
}

// ---- the job

func coqStr(s string) string { return `"` + strings.ReplaceAll(s, `"`, `""`) + `"` }

type apiResult struct {
	rows   []apiRow
	cases  []kcase
	fails  []apiFail
	stats  map[string]int
	notes  []string
	matrix map[string]map[string]int
	misuse []string
}

type apiFail struct {
	desc  string
	index int
	row   apiRow
}

func apiJob(seed uint64, thorough bool, base string, only int) apiResult {
	res := apiResult{stats: map[string]int{}, matrix: map[string]map[string]int{}}
	rows, notes, children := apiSweep(seed, thorough, base, only)
	res.notes = notes
	res.rows = rows
	res.stats["api_children_spawned"] = children
	for _, n := range notes {
		res.fails = append(res.fails, apiFail{desc: "api sweep: " + n, index: -1})
	}
	covered := map[string]bool{}
	misuseSeen := map[string]int{}
	seenK := map[string]bool{}
	kidx := 900000
	all := apiCases()
	for _, r := range rows {
		if only >= 0 && r.Index != only {
			continue
		}
		if !r.ran {
			res.fails = append(res.fails, apiFail{desc: fmt.Sprintf("api sweep: case %d (%s, %s) was not run", r.Index, r.Entry, r.Class), index: r.Index, row: r})
			continue
		}
		covered[r.Entry] = true
		res.stats["api_cases"]++
		res.stats["api_outcome_"+r.Out.String()]++
		pkg := r.Entry[:strings.IndexByte(r.Entry, '.')]
		if res.matrix[pkg] == nil {
			res.matrix[pkg] = map[string]int{}
		}
		res.matrix[pkg][r.Out.String()]++
		allowed, why := apiAllowed(r.Entry, r.Class)
		if allowed&(1<<r.Out) == 0 {
			res.fails = append(res.fails, apiFail{desc: fmt.Sprintf("api totality: %s with %s [%s] -> %s (%s); the table allows %s%s",
				r.Entry, r.Class, r.Variant, r.Out, r.Detail, apiMaskString(allowed), why), index: r.Index, row: r})
		} else if r.Out >= aPanic {
			res.stats["api_documented_misuse_observed"]++
			mk := fmt.Sprintf("%s | %s | %s", r.Entry, r.Class, r.Out)
			if misuseSeen[mk] == 0 {
				_, why := apiAllowed(r.Entry, r.Class)
				res.misuse = append(res.misuse, mk+" | e.g. "+r.Detail+why)
			}
			misuseSeen[mk]++
		}
		if m := all[r.Index].model; m != nil && r.Out <= aPanic {
			if txt := m(r.Out); txt != "" {
				res.cases = append(res.cases, kcase{kidx, txt, map[string]interface{}{"api_model": r}})
				kidx++
				res.stats["api_model_comparisons"]++
			}
		}
		key := fmt.Sprintf("%s|%s|%d", r.Entry, r.Class, r.Out)
		if !seenK[key] {
			seenK[key] = true
			res.cases = append(res.cases, kcase{kidx, fmt.Sprintf("KApi %s %s %d", coqStr(r.Entry), coqStr(r.Class), int(r.Out)),
				map[string]interface{}{"api": r}})
			kidx++
		}
	}
	if only >= 0 {
		return res
	}
	// the exported surface
	dir := apiSourceDir()
	surface, err := apiSurface(dir)
	if err != nil || len(surface) < 100 {
		res.fails = append(res.fails, apiFail{desc: fmt.Sprintf("api sweep: cannot enumerate the exported surface from the source in %q: %v (%d names)", dir, err, len(surface)), index: -1})
		return res
	}
	res.stats["api_surface_entry_points"] = len(surface)
	var items []string
	for _, n := range surface {
		items = append(items, coqStr(n))
		if reason, ok := apiNotCalled[n]; ok {
			_ = reason
			res.stats["api_surface_excluded_with_reason"]++
			continue
		}
		if !covered[n] {
			res.fails = append(res.fails, apiFail{desc: "api totality: exported entry point " + n + " is called by no case of the sweep (add cases to harness/cmd/c18/api_*.go and a row to Store/ApiTotality.v, or an exclusion with its reason)", index: -1})
		} else {
			res.stats["api_surface_covered"]++
		}
	}
	for n := range covered {
		found := false
		for _, s := range surface {
			if s == n {
				found = true
			}
		}
		if !found {
			res.fails = append(res.fails, apiFail{desc: "api totality: the sweep calls " + n + " but the source has no such exported entry point (renamed?)", index: -1})
		}
	}
	res.cases = append(res.cases, kcase{kidx, "KApiEnum [" + strings.Join(items, "; ") + "]", map[string]interface{}{"api_surface": surface}})
	sort.Strings(res.misuse)
	return res
}

func apiMaskString(m int) string {
	var s []string
	for o := aOk; o <= aDied; o++ {
		if m&(1<<o) != 0 {
			s = append(s, o.String())
		}
	}
	return "{" + strings.Join(s, ", ") + "}"
}

var _ = vlib.CoqHex
