package main

import (
	"bytes"
	"encoding/binary"
	"errors"
	"fmt"
	"os"
	"reflect"
	"strings"

	"github.com/syndtr/goleveldb/leveldb"
	"github.com/syndtr/goleveldb/leveldb/iterator"
	"github.com/syndtr/goleveldb/leveldb/opt"
	"github.com/syndtr/goleveldb/leveldb/storage"
	"github.com/syndtr/goleveldb/leveldb/util"
	"verifharness/lib/vstor"
)

func notFoundOk(err error) error {
	if err == leveldb.ErrNotFound {
		return nil
	}
	return err
}

// walk: every movement on an iterator, then Release, then the movements again (released)
func walkIter(it iterator.Iterator, seek []byte) error {
	n := 0
	for ok := it.First(); ok && n < 400; ok = it.Next() {
		_, _ = it.Key(), it.Value()
		n++
	}
	it.Next()
	it.Prev()
	for ok := it.Last(); ok && n < 800; ok = it.Prev() {
		_, _ = it.Key(), it.Value()
		n++
	}
	it.Prev()
	it.Next()
	it.Seek(seek)
	it.Valid()
	it.Key()
	it.Value()
	it.Seek(nil)
	it.Seek([]byte{0xff, 0xff, 0xff})
	it.Next()
	err := it.Error()
	it.Release()
	it.Release()
	it.First()
	it.Last()
	it.Next()
	it.Prev()
	it.Seek(seek)
	it.Valid()
	it.Key()
	it.Value()
	return err
}

var propertyNames = []struct{ class, name string }{
	{"name known", "leveldb.stats"}, {"name known", "leveldb.compcount"}, {"name known", "leveldb.iostats"}, {"name known", "leveldb.writedelay"},
	{"name known", "leveldb.sstables"}, {"name known", "leveldb.blockpool"}, {"name known", "leveldb.cachedblock"}, {"name known", "leveldb.openedtables"},
	{"name known", "leveldb.alivesnaps"}, {"name known", "leveldb.aliveiters"},
	{"name level", "leveldb.num-files-at-level0"}, {"name level", "leveldb.num-files-at-level1"}, {"name level", "leveldb.num-files-at-level6"},
	{"name level", "leveldb.num-files-at-level7"}, {"name level", "leveldb.num-files-at-level99"}, {"name level", "leveldb.num-files-at-level007"},
	{"name level out of range", "leveldb.num-files-at-level2147483647"}, {"name level out of range", "leveldb.num-files-at-level2147483648"},
	{"name level out of range", "leveldb.num-files-at-level4294967296"}, {"name level out of range", "leveldb.num-files-at-level9223372036854775807"},
	{"name level out of range", "leveldb.num-files-at-level9223372036854775808"}, {"name level out of range", "leveldb.num-files-at-level18446744073709551615"},
	{"name level out of range", "leveldb.num-files-at-level18446744073709551616"}, {"name level out of range", "leveldb.num-files-at-level" + strings.Repeat("9", 400)},
	{"name malformed", "leveldb.num-files-at-level-1"}, {"name malformed", "leveldb.num-files-at-level+1"}, {"name malformed", "leveldb.num-files-at-level"},
	{"name malformed", "leveldb.num-files-at-level1x"}, {"name malformed", "leveldb.num-files-at-level 1"}, {"name malformed", "leveldb.num-files-at-level1 "},
	{"name malformed", "leveldb.num-files-at-level0x10"}, {"name malformed", "leveldb.num-files-at-level1e3"}, {"name malformed", "leveldb.num-files-at-level\x00"},
	{"name malformed", "leveldb.num-files-at-level%d"}, {"name malformed", "leveldb.num-files-at-level\n1"},
	{"name malformed", "leveldb."}, {"name malformed", "leveldb"}, {"name malformed", ""}, {"name malformed", "x"}, {"name malformed", "leveldb.nosuch"},
	{"name malformed", "LEVELDB.stats"}, {"name malformed", "leveldb.stats "}, {"name malformed", "leveldb.stats\x00"}, {"name malformed", "leveldb.sstables.x"},
	{"name malformed", strings.Repeat("leveldb.", 1<<13)},
}

func casesDB(l *apiList) {
	keys := keyLattice()
	ros := readOptLattice()
	for _, k := range keys {
		for _, ro := range ros {
			k, ro := k, ro
			l.add("leveldb.DB.Get", "key "+classOfKey(k.name), k.name+" "+ro.name, func(x *apiCtx) error {
				_, err := x.openDB().Get(k.b, ro.ro)
				return notFoundOk(err)
			})
			l.add("leveldb.DB.Has", "key "+classOfKey(k.name), k.name+" "+ro.name, func(x *apiCtx) error {
				_, err := x.openDB().Has(k.b, ro.ro)
				return notFoundOk(err)
			})
		}
	}
	for _, rg := range rangeLattice() {
		for _, ro := range ros {
			rg, ro := rg, ro
			l.add("leveldb.DB.NewIterator", rangeClass(rg.name), rg.name+" "+ro.name, func(x *apiCtx) error {
				return walkIter(x.openDB().NewIterator(rg.r, ro.ro), apiKey(60))
			})
		}
	}
	for _, k := range keys {
		k := k
		l.add("leveldb.DB.NewIterator", "seek key "+classOfKey(k.name), k.name, func(x *apiCtx) error {
			return walkIter(x.openDB().NewIterator(nil, nil), k.b)
		})
	}
	l.add("leveldb.DB.GetSnapshot", "-", "", func(x *apiCtx) error {
		s, err := x.openDB().GetSnapshot()
		if err == nil {
			s.Release()
		}
		return err
	})
	for _, p := range propertyNames {
		p := p
		v := p.name
		if len(v) > 60 {
			v = v[:60] + "..."
		}
		l.add("leveldb.DB.GetProperty", p.class, fmt.Sprintf("%q", v), func(x *apiCtx) error {
			_, err := x.openDB().GetProperty(p.name)
			return notFoundOk(err)
		})
	}
	// SizeOf
	var all []util.Range
	for _, rg := range rangeLattice() {
		if rg.r == nil {
			continue
		}
		rg := rg
		all = append(all, *rg.r)
		l.add("leveldb.DB.SizeOf", rangeClass(rg.name), rg.name, func(x *apiCtx) error {
			s, err := x.openDB().SizeOf([]util.Range{*rg.r})
			if err == nil && len(s) != 1 {
				return errors.New("harness: wrong number of sizes")
			}
			if err == nil && s[0] < 0 {
				panic(fmt.Sprintf("harness: negative size %d", s[0]))
			}
			_ = s.Sum()
			return err
		})
	}
	l.add("leveldb.DB.SizeOf", "ranges nil", "nil slice", func(x *apiCtx) error {
		s, err := x.openDB().SizeOf(nil)
		_ = s.Sum()
		return err
	})
	l.add("leveldb.DB.SizeOf", "ranges nil", "empty slice", func(x *apiCtx) error {
		_, err := x.openDB().SizeOf([]util.Range{})
		return err
	})
	l.add("leveldb.DB.SizeOf", "range", "all of the lattice at once", func(x *apiCtx) error {
		_, err := x.openDB().SizeOf(all)
		return err
	})
	l.add("leveldb.Sizes.Sum", "-", "nil, empty, one, overflowing", func(x *apiCtx) error {
		_ = leveldb.Sizes(nil).Sum()
		_ = leveldb.Sizes{}.Sum()
		_ = leveldb.Sizes{1<<63 - 1, 1<<63 - 1, -1 << 63}.Sum()
		return nil
	})
	l.add("leveldb.DB.Stats", "-", "zero DBStats", func(x *apiCtx) error {
		var s leveldb.DBStats
		return x.openDB().Stats(&s)
	})
	l.add("leveldb.DB.Stats", "-", "reused DBStats", func(x *apiCtx) error {
		s := leveldb.DBStats{LevelSizes: leveldb.Sizes{1, 2, 3}, LevelTablesCounts: make([]int, 50)}
		db := x.openDB()
		if err := db.Stats(&s); err != nil {
			return err
		}
		return db.Stats(&s)
	})
	l.add("leveldb.DB.Stats", "required argument nil", "nil *DBStats", func(x *apiCtx) error {
		return x.openDB().Stats(nil)
	})
	for _, rg := range rangeLattice() {
		if rg.r == nil {
			continue
		}
		rg := rg
		l.add("leveldb.DB.CompactRange", rangeClass(rg.name), rg.name, func(x *apiCtx) error {
			db := x.openDB()
			if err := db.CompactRange(*rg.r); err != nil {
				return err
			}
			// the DB still answers and still accepts writes
			if _, err := db.Get(apiKey(7), nil); err != nil {
				return err
			}
			return db.Put([]byte("after"), []byte("x"), nil)
		})
	}
	l.add("leveldb.DB.SetReadOnly", "-", "then every write and a second SetReadOnly", func(x *apiCtx) error {
		db := x.openDB()
		if err := db.SetReadOnly(); err != nil {
			return err
		}
		db.Put(nil, nil, nil)
		db.Delete(nil, nil)
		db.Write(new(leveldb.Batch), nil)
		db.CompactRange(util.Range{})
		db.SetReadOnly()
		_, err := db.Get(apiKey(7), nil)
		return err
	})
	l.add("leveldb.DB.OpenTransaction", "-", "open, second open after discard", func(x *apiCtx) error {
		db := x.openDB()
		tr, err := db.OpenTransaction()
		if err != nil {
			return err
		}
		tr.Discard()
		tr, err = db.OpenTransaction()
		if err != nil {
			return err
		}
		return tr.Commit()
	})
	l.add("leveldb.DB.Close", "-", "twice, then every method", func(x *apiCtx) error {
		db := x.openDB()
		if err := db.Close(); err != nil {
			return err
		}
		db.Close()
		db.Get(nil, nil)
		db.Has(nil, nil)
		db.Put(nil, nil, nil)
		db.Delete(nil, nil)
		db.Write(nil, nil)
		db.NewIterator(nil, nil).Release()
		db.GetSnapshot()
		db.GetProperty("leveldb.num-files-at-level9223372036854775808")
		db.SizeOf(nil)
		db.CompactRange(util.Range{})
		db.SetReadOnly()
		db.OpenTransaction()
		var s leveldb.DBStats
		db.Stats(&s)
		return nil
	})
}

func classOfKey(name string) string {
	switch {
	case name == "nil":
		return "nil"
	case name == "empty":
		return "empty"
	case strings.HasPrefix(name, "large"):
		return "large"
	}
	return "typical"
}

// garbageBatches: byte strings for Batch.Load (the record part of a batch: no 12-byte header)
func garbageBatches(x *apiCtx) []namedBytes {
	uv := func(v uint64) []byte { b := make([]byte, 10); return b[:binary.PutUvarint(b, v)] }
	cat := func(p ...[]byte) []byte { return bytes.Join(p, nil) }
	return []namedBytes{
		{"nil", nil}, {"empty", []byte{}}, {"1 byte type del", []byte{0}}, {"1 byte type put", []byte{1}}, {"bad type 2", []byte{2, 0}}, {"bad type ff", []byte{0xff}},
		{"well-formed", cat([]byte{1}, uv(1), []byte("a"), uv(1), []byte("b"), []byte{0}, uv(1), []byte("c"))},
		{"key length 2^63", cat([]byte{1}, uv(1<<63), []byte("a"))},
		{"key length 2^64-1", cat([]byte{0}, uv(1<<64-1))},
		{"key length MaxInt", cat([]byte{0}, uv(uint64(maxInt)), []byte("abc"))},
		{"key length 2^32", cat([]byte{0}, uv(1<<32), []byte("abc"))},
		{"value length 2^63", cat([]byte{1}, uv(1), []byte("a"), uv(1<<63), []byte("b"))},
		{"value length 2^64-8", cat([]byte{1}, uv(1), []byte("a"), uv(1<<64-8), []byte("b"))},
		{"the 11 bytes that looped", []byte{1, 0x80, 0x80, 0x80, 0x80, 0x80, 0x80, 0x80, 0x80, 0x80, 0x01}},
		{"wrap to the start", cat([]byte{1}, uv(0), uv(1<<64-3))},
		{"varint overflow", cat([]byte{1}, bytes.Repeat([]byte{0xff}, 11))},
		{"varint unterminated", cat([]byte{0}, bytes.Repeat([]byte{0x80}, 5))},
		{"second record cut", cat([]byte{0}, uv(1), []byte("a"), []byte{1}, uv(5), []byte("ab"))},
		{"random 64", x.r.Bytes(64, nil)}, {"random 300 of {0,1,2,80,ff}", x.r.Bytes(300, []byte{0, 1, 2, 0x80, 0xff})},
	}
}

type countReplay struct{ puts, dels int }

func (c *countReplay) Put(k, v []byte) { c.puts++ }
func (c *countReplay) Delete(k []byte) { c.dels++ }

type panicReplay struct{}

func (panicReplay) Put(k, v []byte) { panic("harness: the BatchReplay fails") }
func (panicReplay) Delete(k []byte) { panic("harness: the BatchReplay fails") }

func casesBatch(l *apiList) {
	for _, n := range intLattice(1<<20, 1<<40) {
		n := n
		l.add("leveldb.MakeBatch", intClass(n.n), "n="+n.name, func(x *apiCtx) error {
			b := leveldb.MakeBatch(n.n)
			b.Put([]byte("k"), []byte("v"))
			if b.Len() != 1 {
				return errors.New("harness: Len")
			}
			return nil
		})
		for _, g := range intLattice() {
			g := g
			l.add("leveldb.MakeBatchWithConfig", intClass(n.n), fmt.Sprintf("InitialCapacity=%s GrowLimit=%s", n.name, g.name), func(x *apiCtx) error {
				if n.n >= 1<<31 {
					// the documented meaning of InitialCapacity: "the batch initial capacity to preallocate"
					return nil
				}
				b := leveldb.MakeBatchWithConfig(&leveldb.BatchConfig{InitialCapacity: n.n, GrowLimit: g.n})
				for i := 0; i < 50; i++ {
					b.Put(apiKey(i), []byte("v"))
				}
				return nil
			})
		}
	}
	l.add("leveldb.MakeBatchWithConfig", "config nil", "nil", func(x *apiCtx) error {
		leveldb.MakeBatchWithConfig(nil).Delete(nil)
		return nil
	})
	for _, k := range keyLattice() {
		for _, v := range valLattice() {
			k, v := k, v
			l.add("leveldb.Batch.Put", "key "+classOfKey(k.name), k.name+" / value "+v.name, func(x *apiCtx) error {
				var b leveldb.Batch
				b.Put(k.b, v.b)
				b.Put(k.b, v.b)
				var c countReplay
				if err := b.Replay(&c); err != nil {
					return err
				}
				if c.puts != 2 || b.Len() != 2 {
					return errors.New("harness: Replay count")
				}
				b2 := new(leveldb.Batch)
				return b2.Load(b.Dump())
			})
		}
		k := k
		l.add("leveldb.Batch.Delete", "key "+classOfKey(k.name), k.name, func(x *apiCtx) error {
			var b leveldb.Batch
			b.Delete(k.b)
			b.Reset()
			b.Delete(k.b)
			var c countReplay
			b.Replay(&c)
			if c.dels != 1 {
				return errors.New("harness: Replay count")
			}
			return nil
		})
	}
	l.add("leveldb.Batch.Dump", "zero batch", "zero value", func(x *apiCtx) error {
		var b leveldb.Batch
		if len(b.Dump()) != 0 {
			return errors.New("harness: Dump of a zero batch")
		}
		return nil
	})
	l.add("leveldb.Batch.Len", "zero batch", "zero value and nil receiver-free uses", func(x *apiCtx) error {
		var b leveldb.Batch
		if b.Len() != 0 {
			return errors.New("harness: Len")
		}
		return nil
	})
	l.add("leveldb.Batch.Reset", "zero batch", "zero value, twice, then Put", func(x *apiCtx) error {
		var b leveldb.Batch
		b.Reset()
		b.Reset()
		b.Put(nil, nil)
		b.Reset()
		if b.Len() != 0 || len(b.Dump()) != 0 {
			return errors.New("harness: Reset")
		}
		return nil
	})
	l.add("leveldb.Batch.Replay", "zero batch", "nil BatchReplay on an EMPTY batch", func(x *apiCtx) error {
		var b leveldb.Batch
		return b.Replay(nil)
	})
	l.add("leveldb.Batch.Replay", "required argument nil", "nil BatchReplay on a batch with records", func(x *apiCtx) error {
		var b leveldb.Batch
		b.Put([]byte("k"), nil)
		return b.Replay(nil)
	})
	l.add("leveldb.BatchReplay.Put", "-", "caller-implemented interface: receives nil / empty / large keys and values", func(x *apiCtx) error {
		var b leveldb.Batch
		for _, k := range keyLattice() {
			for _, v := range valLattice() {
				b.Put(k.b, v.b)
			}
		}
		var c countReplay
		b.Replay(&c)
		if c.puts != b.Len() {
			panic("harness: Replay count")
		}
		return nil
	})
	l.add("leveldb.BatchReplay.Delete", "-", "caller-implemented interface: receives nil / empty / large keys", func(x *apiCtx) error {
		var b leveldb.Batch
		for _, k := range keyLattice() {
			b.Delete(k.b)
		}
		var c countReplay
		b.Replay(&c)
		if c.dels != b.Len() {
			panic("harness: Replay count")
		}
		return nil
	})
	l.add("leveldb.Batch.Replay", "callback panics", "a BatchReplay that panics", func(x *apiCtx) error {
		var b leveldb.Batch
		b.Put([]byte("k"), nil)
		return b.Replay(panicReplay{})
	})
	// Load of garbage, then every other method on what Load left behind, then use of the batch in a DB
	for gi := 0; gi < 20; gi++ {
		gi := gi
		name := garbageBatches(newApiCtx(1, ""))[gi].name
		l.add("leveldb.Batch.Load", "bytes arbitrary", name, func(x *apiCtx) error {
			g := garbageBatches(x)[gi]
			b := new(leveldb.Batch)
			lerr := b.Load(g.b)
			var c countReplay
			if err := b.Replay(&c); err != nil {
				return err
			}
			if c.puts+c.dels != b.Len() {
				panic("harness: Replay after Load delivers another number of records than Len")
			}
			_ = b.Dump()
			b.Put([]byte("more"), []byte("x"))
			b.Delete([]byte("more"))
			if lerr == nil {
				db := x.openDB()
				if err := db.Write(b, nil); err != nil {
					return err
				}
				tr, err := db.OpenTransaction()
				if err != nil {
					return err
				}
				defer tr.Discard()
				if err := tr.Write(b, nil); err != nil {
					return err
				}
			}
			b.Reset()
			if b.Len() != 0 {
				panic("harness: Len after Reset")
			}
			return lerr
		})
	}
	l.add("leveldb.Batch.Load", "bytes arbitrary", "Load twice, second after a failed one", func(x *apiCtx) error {
		b := new(leveldb.Batch)
		b.Load([]byte{1, 1, 'a', 1})
		b.Load(nil)
		if b.Len() != 0 {
			panic("harness: Load(nil) keeps records")
		}
		return nil
	})
	for _, e := range []error{nil, errors.New("x")} {
		e := e
		l.add("leveldb.ErrBatchCorrupted.Error", "-", "", func(x *apiCtx) error {
			_ = (&leveldb.ErrBatchCorrupted{Reason: fmt.Sprint(e)}).Error()
			_ = (&leveldb.ErrBatchCorrupted{}).Error()
			return nil
		})
	}
	l.add("leveldb.ErrInternalKeyCorrupted.Error", "-", "zero, nil key, long key", func(x *apiCtx) error {
		_ = (&leveldb.ErrInternalKeyCorrupted{}).Error()
		_ = (&leveldb.ErrInternalKeyCorrupted{Ikey: bytes.Repeat([]byte{0xff}, 1<<12), Reason: "r"}).Error()
		return nil
	})
	l.add("leveldb.ErrManifestCorrupted.Error", "-", "zero", func(x *apiCtx) error {
		_ = (&leveldb.ErrManifestCorrupted{}).Error()
		_ = (&leveldb.ErrManifestCorrupted{Field: "f", Reason: "r"}).Error()
		return nil
	})
}

func casesDBWrite(l *apiList) {
	wos := writeOptLattice()
	for _, k := range keyLattice() {
		for _, wo := range wos {
			k, wo := k, wo
			for _, v := range valLattice() {
				v := v
				if wo.wo != nil && v.name != "typical" && v.name != "nil" {
					continue
				}
				l.add("leveldb.DB.Put", "key "+classOfKey(k.name), k.name+" / value "+v.name+" "+wo.name, func(x *apiCtx) error {
					db := x.openDB()
					if err := db.Put(k.b, v.b, wo.wo); err != nil {
						return err
					}
					got, err := db.Get(k.b, nil)
					if err == nil && !bytes.Equal(got, v.b) {
						panic("harness: Get after Put returns another value")
					}
					return err
				})
			}
			l.add("leveldb.DB.Delete", "key "+classOfKey(k.name), k.name+" "+wo.name, func(x *apiCtx) error {
				db := x.openDB()
				if err := db.Delete(k.b, wo.wo); err != nil {
					return err
				}
				if ok, _ := db.Has(k.b, nil); ok {
					panic("harness: Has after Delete")
				}
				return nil
			})
		}
	}
	for _, wo := range wos {
		wo := wo
		l.add("leveldb.DB.Write", "batch nil", wo.name, func(x *apiCtx) error { return x.openDB().Write(nil, wo.wo) })
		l.add("leveldb.DB.Write", "batch empty", "zero batch "+wo.name, func(x *apiCtx) error { return x.openDB().Write(new(leveldb.Batch), wo.wo) })
		l.add("leveldb.DB.Write", "batch empty", "reset batch "+wo.name, func(x *apiCtx) error {
			b := new(leveldb.Batch)
			b.Put([]byte("k"), nil)
			b.Reset()
			return x.openDB().Write(b, wo.wo)
		})
		l.add("leveldb.DB.Write", "batch", "nil/empty keys and values "+wo.name, func(x *apiCtx) error {
			b := new(leveldb.Batch)
			b.Put(nil, nil)
			b.Put([]byte{}, []byte{})
			b.Delete(nil)
			b.Delete([]byte{})
			return x.openDB().Write(b, wo.wo)
		})
		l.add("leveldb.DB.Write", "batch", "larger than the write buffer "+wo.name, func(x *apiCtx) error {
			b := new(leveldb.Batch)
			for i := 0; i < 80; i++ {
				b.Put(apiKey(1000+i), bytes.Repeat([]byte{'w'}, 100))
			}
			db := x.openDB()
			if err := db.Write(b, wo.wo); err != nil {
				return err
			}
			return db.Write(b, wo.wo)
		})
	}
	l.add("leveldb.DB.Write", "batch", "the same batch twice and after Reset", func(x *apiCtx) error {
		db := x.openDB()
		b := new(leveldb.Batch)
		b.Put([]byte("k"), []byte("v"))
		db.Write(b, nil)
		db.Write(b, nil)
		b.Reset()
		return db.Write(b, nil)
	})
}

type badStorage struct{ storage.Storage }

func (badStorage) Lock() (storage.Locker, error) { return nil, errors.New("harness: no lock") }

func casesOpen(l *apiList) {
	opts := []struct {
		name string
		o    *opt.Options
	}{
		{"o=nil", nil}, {"o=zero", &opt.Options{}}, {"o=ReadOnly", &opt.Options{ReadOnly: true}}, {"o=ErrorIfMissing", &opt.Options{ErrorIfMissing: true}},
		{"o=ErrorIfExist", &opt.Options{ErrorIfExist: true}}, {"o=ErrorIfExist+ErrorIfMissing+ReadOnly", &opt.Options{ErrorIfExist: true, ErrorIfMissing: true, ReadOnly: true}},
		{"o=Strict all, no caches, no pool", &opt.Options{Strict: opt.StrictAll, DisableBlockCache: true, DisableBufferPool: true, OpenFilesCacheCapacity: -1, BlockCacheCapacity: -1}},
		{"o=every int -1", &opt.Options{BlockCacheCapacity: -1, BlockRestartInterval: -1, BlockSize: -1, CompactionExpandLimitFactor: -1, CompactionGPOverlapsFactor: -1,
			CompactionL0Trigger: -1, CompactionSourceLimitFactor: -1, CompactionTableSize: -1, CompactionTableSizeMultiplier: -1, CompactionTotalSize: -1,
			CompactionTotalSizeMultiplier: -1, IteratorSamplingRate: -1, OpenFilesCacheCapacity: -1, WriteBuffer: -1, WriteL0PauseTrigger: -1, WriteL0SlowdownTrigger: -1,
			FilterBaseLg: -1, MaxManifestFileSize: -1}},
		// (CompactionTotalSize: 1 together with CompactionTotalSizeMultiplier: 1 and WriteBuffer: 1 is left out: every level limit is one byte, tables
		// descend without end and writers stall for ever -- recorded in props/C18.json as a finding for C09, not part of this lattice)
		{"o=every int 1", &opt.Options{BlockCacheCapacity: 1, BlockRestartInterval: 1, BlockSize: 1, CompactionExpandLimitFactor: 1, CompactionGPOverlapsFactor: 1,
			CompactionL0Trigger: 1, CompactionSourceLimitFactor: 1, CompactionTableSize: 1, CompactionTableSizeMultiplier: 1,
			IteratorSamplingRate: 1, OpenFilesCacheCapacity: 1, WriteBuffer: 1, WriteL0PauseTrigger: 1, WriteL0SlowdownTrigger: 1,
			FilterBaseLg: 1, MaxManifestFileSize: 1}},
	}
	// one numeric field at an extreme, the others default
	ot := reflect.TypeOf(opt.Options{})
	for i := 0; i < ot.NumField(); i++ {
		f := ot.Field(i)
		for _, ext := range []struct {
			name string
			v    int
		}{{"MaxInt", maxInt}, {"MinInt", minInt}, {"2^31", 1 << 31}} {
			o := &opt.Options{}
			fv := reflect.ValueOf(o).Elem().Field(i)
			switch f.Type.Kind() {
			case reflect.Int, reflect.Int64:
				fv.SetInt(int64(ext.v))
			case reflect.Float64:
				fv.SetFloat(float64(ext.v))
			case reflect.Uint:
				fv.SetUint(uint64(ext.v))
			default:
				continue
			}
			i, ext := i, ext
			_ = i
			cls := "option extreme"
			switch f.Name {
			case "WriteBuffer", "BlockSize", "CompactionTableSize", "CompactionTableSizeMultiplier":
				cls = "option extreme (a size in bytes)"
			}
			l.add("leveldb.Open", cls, fmt.Sprintf("%s=%s", f.Name, ext.name), func(x *apiCtx) error {
				db, err := leveldb.Open(x.image().Clone(false), o)
				if err != nil {
					return err
				}
				defer db.Close()
				return useDB(db, false)
			})
		}
	}
	for _, o := range opts {
		o := o
		l.add("leveldb.Open", "storage empty", o.name, func(x *apiCtx) error {
			db, err := leveldb.Open(vstor.New(false), o.o)
			if err != nil {
				return err
			}
			defer db.Close()
			return useDB(db, o.o.GetReadOnly())
		})
		l.add("leveldb.Open", "storage with a DB", o.name, func(x *apiCtx) error {
			db, err := leveldb.Open(x.image().Clone(false), o.o)
			if err != nil {
				return err
			}
			defer db.Close()
			return useDB(db, o.o.GetReadOnly())
		})
		l.add("leveldb.Recover", "storage with a DB", o.name, func(x *apiCtx) error {
			db, err := leveldb.Recover(x.image().Clone(false), o.o)
			if err != nil {
				return err
			}
			defer db.Close()
			return useDB(db, o.o.GetReadOnly())
		})
		l.add("leveldb.Recover", "storage empty", o.name, func(x *apiCtx) error {
			db, err := leveldb.Recover(vstor.New(false), o.o)
			if err != nil {
				return err
			}
			return db.Close()
		})
	}
	l.add("leveldb.Open", "storage nil", "nil Storage", func(x *apiCtx) error {
		db, err := leveldb.Open(nil, nil)
		if err == nil {
			db.Close()
		}
		return err
	})
	l.add("leveldb.Recover", "storage nil", "nil Storage", func(x *apiCtx) error {
		db, err := leveldb.Recover(nil, nil)
		if err == nil {
			db.Close()
		}
		return err
	})
	l.add("leveldb.Open", "storage refuses the lock", "", func(x *apiCtx) error {
		_, err := leveldb.Open(badStorage{storage.NewMemStorage()}, nil)
		return err
	})
	l.add("leveldb.Open", "storage with a DB", "open twice (second owner)", func(x *apiCtx) error {
		st := x.image().Clone(false)
		db, err := leveldb.Open(st, nil)
		if err != nil {
			return err
		}
		defer db.Close()
		db2, err := leveldb.Open(st, nil)
		if err == nil {
			db2.Close()
			panic("harness: a second owner was admitted")
		}
		return nil
	})
	// damaged storages: every file of the image cut / emptied / filled with garbage
	for _, dmg := range []string{"manifest empty", "manifest garbage", "manifest cut", "CURRENT names nothing", "journal garbage", "journal cut", "table empty", "table garbage", "table cut", "table footer only magic"} {
		dmg := dmg
		for _, fn := range []string{"Open", "Recover"} {
			fn := fn
			l.add("leveldb."+fn, "storage damaged", dmg, func(x *apiCtx) error {
				st := x.image().Clone(false)
				apiDamage(x, st, dmg)
				var db *leveldb.DB
				var err error
				if fn == "Open" {
					db, err = leveldb.Open(st, apiSmallOptions())
				} else {
					db, err = leveldb.Recover(st, apiSmallOptions())
				}
				if err != nil {
					return err
				}
				defer db.Close()
				it := db.NewIterator(nil, nil)
				for it.Next() {
				}
				it.Release()
				_, err = db.Get(apiKey(7), nil)
				return notFoundOk(err)
			})
		}
	}
	// paths
	paths := []struct{ class, name string }{
		{"path empty", ""}, {"path new", "new"}, {"path nested absent", "a/b/c"}, {"path regular file", "FILE"}, {"path below a regular file", "FILE/sub"},
		{"path odd", "with space and ü"}, {"path odd", "trailing/"}, {"path odd", "./dot/../dot2"}, {"path odd", strings.Repeat("x", 300)}, {"path odd", "nul\x00byte"},
	}
	for _, p := range paths {
		for _, fn := range []string{"OpenFile", "RecoverFile"} {
			for _, o := range opts[:3] {
				p, fn, o := p, fn, o
				l.add("leveldb."+fn, p.class, fmt.Sprintf("%q %s", shorten(p.name), o.name), func(x *apiCtx) error {
					base := x.dir()
					if err := os.MkdirAll(base, 0o755); err != nil {
						return errors.New("harness: " + err.Error())
					}
					os.WriteFile(base+"/FILE", []byte("x"), 0o644)
					path := base + "/" + p.name
					if p.name == "" {
						// the empty path names the working directory of the child: use a private one
						wd, _ := os.Getwd()
						os.MkdirAll(base+"/cwd", 0o755)
						os.Chdir(base + "/cwd")
						defer os.Chdir(wd)
						path = ""
					}
					var db *leveldb.DB
					var err error
					if fn == "OpenFile" {
						db, err = leveldb.OpenFile(path, o.o)
					} else {
						db, err = leveldb.RecoverFile(path, o.o)
					}
					if err != nil {
						return err
					}
					defer db.Close()
					return useDB(db, o.o.GetReadOnly())
				})
			}
		}
	}
	l.add("leveldb.OpenFile", "path new", "relative path", func(x *apiCtx) error {
		base := x.dir()
		os.MkdirAll(base, 0o755)
		wd, _ := os.Getwd()
		os.Chdir(base)
		defer os.Chdir(wd)
		db, err := leveldb.OpenFile("rel/db", nil)
		if err != nil {
			return err
		}
		return db.Close()
	})
	l.add("leveldb.OpenFile", "path new", "read-only on a missing directory", func(x *apiCtx) error {
		db, err := leveldb.OpenFile(x.dir()+"/missing", &opt.Options{ReadOnly: true})
		if err == nil {
			db.Close()
		}
		return err
	})
	l.add("leveldb.RecoverFile", "path with a DB", "after OpenFile+Close", func(x *apiCtx) error {
		p := x.dir()
		db, err := leveldb.OpenFile(p, apiSmallOptions())
		if err != nil {
			return err
		}
		for i := 0; i < 200; i++ {
			db.Put(apiKey(i), bytes.Repeat([]byte{'v'}, 50), nil)
		}
		db.Close()
		db, err = leveldb.RecoverFile(p, nil)
		if err != nil {
			return err
		}
		defer db.Close()
		return useDB(db, false)
	})
}

func shorten(s string) string {
	if len(s) > 24 {
		return s[:24] + "..."
	}
	return s
}

// useDB: a few calls on a freshly opened DB
func useDB(db *leveldb.DB, ro bool) error {
	if !ro {
		if err := db.Put([]byte("use"), []byte("1"), nil); err != nil {
			return err
		}
		for i := 0; i < 60; i++ {
			if err := db.Put(apiKey(2000+i), bytes.Repeat([]byte{'u'}, 200), nil); err != nil {
				return err
			}
		}
	}
	if _, err := db.Get(apiKey(7), nil); err != nil && err != leveldb.ErrNotFound {
		return err
	}
	it := db.NewIterator(nil, nil)
	n := 0
	for it.Next() && n < 1000 {
		n++
	}
	err := it.Error()
	it.Release()
	if err != nil {
		return err
	}
	if !ro {
		return db.CompactRange(util.Range{})
	}
	return nil
}

// apiDamage applies a named damage to the storage image.
func apiDamage(x *apiCtx, st *vstor.Stor, what string) {
	first := func(t storage.FileType) (storage.FileDesc, []byte, bool) {
		var best storage.FileDesc
		found := false
		for _, fd := range st.ListAll() {
			if fd.Type == t && (!found || fd.Num > best.Num) {
				best, found = fd, true
			}
		}
		if !found {
			return best, nil, false
		}
		b, _, _ := st.FileBytes(best)
		return best, b, true
	}
	magic := "\x57\xfb\x80\x8b\x24\x75\x47\xdb"
	switch what {
	case "manifest empty":
		if fd, _, ok := first(storage.TypeManifest); ok {
			st.SetFileBytes(fd, nil)
		}
	case "manifest garbage":
		if fd, b, ok := first(storage.TypeManifest); ok {
			st.SetFileBytes(fd, x.r.Bytes(len(b), nil))
		}
	case "manifest cut":
		if fd, b, ok := first(storage.TypeManifest); ok {
			st.SetFileBytes(fd, b[:len(b)/2])
		}
	case "CURRENT names nothing":
		st.SetMeta(storage.FileDesc{Type: storage.TypeManifest, Num: 987654})
	case "journal garbage":
		if fd, b, ok := first(storage.TypeJournal); ok {
			st.SetFileBytes(fd, x.r.Bytes(len(b)+100, nil))
		}
	case "journal cut":
		if fd, b, ok := first(storage.TypeJournal); ok {
			st.SetFileBytes(fd, b[:len(b)*2/3])
		}
	case "table empty":
		if fd, _, ok := first(storage.TypeTable); ok {
			st.SetFileBytes(fd, nil)
		}
	case "table garbage":
		if fd, b, ok := first(storage.TypeTable); ok {
			st.SetFileBytes(fd, x.r.Bytes(len(b), nil))
		}
	case "table cut":
		if fd, b, ok := first(storage.TypeTable); ok {
			st.SetFileBytes(fd, b[:len(b)-20])
		}
	case "table footer only magic":
		if fd, b, ok := first(storage.TypeTable); ok {
			nb := append([]byte(nil), b...)
			for i := len(nb) - 48; i < len(nb)-8; i++ {
				nb[i] = 0xff
			}
			copy(nb[len(nb)-8:], magic)
			st.SetFileBytes(fd, nb)
		}
	}
}

// casesHandles: Snapshot and Transaction methods over the argument lattice, live and after release / commit / discard
func casesHandles(l *apiList) {
	ros := readOptLattice()
	for _, m := range []string{"Get", "NewIterator"} {
		m := m
		l.add("leveldb.Reader."+m, "-", "DB, Snapshot and Transaction through the Reader interface, nil and typical arguments", func(x *apiCtx) error {
			db := x.openDB()
			sn, err := db.GetSnapshot()
			if err != nil {
				return err
			}
			defer sn.Release()
			readers := []leveldb.Reader{db, sn}
			tr, err := db.OpenTransaction()
			if err != nil {
				return err
			}
			defer tr.Discard()
			readers = append(readers, tr)
			for _, r := range readers {
				if m == "Get" {
					r.Get(nil, nil)
					if _, err := r.Get(apiKey(7), &opt.ReadOptions{}); err != nil {
						return err
					}
				} else {
					if err := walkIter(r.NewIterator(nil, nil), nil); err != nil {
						return err
					}
					walkIter(r.NewIterator(&util.Range{Start: apiKey(9), Limit: apiKey(3)}, &opt.ReadOptions{}), apiKey(5))
				}
			}
			return nil
		})
	}
	for _, state := range []string{"live", "released"} {
		state := state
		snap := func(x *apiCtx) *leveldb.Snapshot {
			s, err := x.openDB().GetSnapshot()
			if err != nil {
				panic("harness: GetSnapshot: " + err.Error())
			}
			if state == "released" {
				s.Release()
			} else {
				x.later(s.Release)
			}
			return s
		}
		for _, k := range keyLattice() {
			k := k
			ro := ros[len(k.name)%len(ros)]
			l.add("leveldb.Snapshot.Get", "key "+classOfKey(k.name), state+" "+k.name+" "+ro.name, func(x *apiCtx) error {
				_, err := snap(x).Get(k.b, ro.ro)
				return notFoundOk(err)
			})
			l.add("leveldb.Snapshot.Has", "key "+classOfKey(k.name), state+" "+k.name+" "+ro.name, func(x *apiCtx) error {
				_, err := snap(x).Has(k.b, ro.ro)
				return notFoundOk(err)
			})
		}
		for _, rg := range rangeLattice() {
			rg := rg
			l.add("leveldb.Snapshot.NewIterator", rangeClass(rg.name), state+" "+rg.name, func(x *apiCtx) error {
				return walkIter(snap(x).NewIterator(rg.r, nil), apiKey(60))
			})
		}
		l.add("leveldb.Snapshot.String", "-", state, func(x *apiCtx) error { _ = snap(x).String(); return nil })
		l.add("leveldb.Snapshot.Release", "-", state+", twice more", func(x *apiCtx) error {
			s := snap(x)
			s.Release()
			s.Release()
			return nil
		})
	}
	for _, state := range []string{"open", "committed", "discarded"} {
		state := state
		txn := func(x *apiCtx) *leveldb.Transaction {
			tr, err := x.openDB().OpenTransaction()
			if err != nil {
				panic("harness: OpenTransaction: " + err.Error())
			}
			switch state {
			case "committed":
				tr.Put([]byte("t"), []byte("1"), nil)
				if err := tr.Commit(); err != nil {
					panic("harness: Commit: " + err.Error())
				}
			case "discarded":
				tr.Discard()
			default:
				x.later(tr.Discard)
			}
			return tr
		}
		for _, k := range keyLattice() {
			k := k
			ro := ros[len(k.name)%len(ros)]
			l.add("leveldb.Transaction.Get", "key "+classOfKey(k.name), state+" "+k.name+" "+ro.name, func(x *apiCtx) error {
				_, err := txn(x).Get(k.b, ro.ro)
				return notFoundOk(err)
			})
			l.add("leveldb.Transaction.Has", "key "+classOfKey(k.name), state+" "+k.name+" "+ro.name, func(x *apiCtx) error {
				_, err := txn(x).Has(k.b, ro.ro)
				return notFoundOk(err)
			})
			for _, v := range valLattice() {
				v := v
				l.add("leveldb.Transaction.Put", "key "+classOfKey(k.name), state+" "+k.name+" / value "+v.name, func(x *apiCtx) error {
					tr := txn(x)
					if err := tr.Put(k.b, v.b, nil); err != nil {
						return err
					}
					got, err := tr.Get(k.b, nil)
					if err == nil && !bytes.Equal(got, v.b) {
						panic("harness: Transaction.Get after Put returns another value")
					}
					return err
				})
			}
			l.add("leveldb.Transaction.Delete", "key "+classOfKey(k.name), state+" "+k.name, func(x *apiCtx) error {
				return txn(x).Delete(k.b, &opt.WriteOptions{Sync: true})
			})
		}
		for _, rg := range rangeLattice() {
			rg := rg
			l.add("leveldb.Transaction.NewIterator", rangeClass(rg.name), state+" "+rg.name, func(x *apiCtx) error {
				tr := txn(x)
				if state == "open" {
					for i := 0; i < 100; i++ {
						tr.Put(apiKey(i*3), bytes.Repeat([]byte{'t'}, 100), nil)
					}
				}
				return walkIter(tr.NewIterator(rg.r, nil), apiKey(60))
			})
		}
		l.add("leveldb.Transaction.Write", "batch nil", state, func(x *apiCtx) error { return txn(x).Write(nil, nil) })
		l.add("leveldb.Transaction.Write", "batch empty", state, func(x *apiCtx) error { return txn(x).Write(new(leveldb.Batch), nil) })
		l.add("leveldb.Transaction.Write", "batch", state+" nil/empty keys and values, large", func(x *apiCtx) error {
			b := new(leveldb.Batch)
			b.Put(nil, nil)
			b.Delete([]byte{})
			for i := 0; i < 100; i++ {
				b.Put(apiKey(i), bytes.Repeat([]byte{'w'}, 100))
			}
			return txn(x).Write(b, nil)
		})
		l.add("leveldb.Transaction.Commit", "-", state+", then every method", func(x *apiCtx) error {
			tr := txn(x)
			err := tr.Commit()
			tr.Commit()
			tr.Discard()
			tr.Get(nil, nil)
			tr.Has(nil, nil)
			tr.Put(nil, nil, nil)
			tr.Delete(nil, nil)
			tr.Write(nil, nil)
			tr.NewIterator(nil, nil).Release()
			return err
		})
		l.add("leveldb.Transaction.Discard", "-", state+", twice more", func(x *apiCtx) error {
			tr := txn(x)
			tr.Discard()
			tr.Discard()
			return nil
		})
	}
}
