package main

import (
	"fmt"
	"sort"
	"strings"
)

// The Go copy of the totality table (the Coq copy is coq/theories/Store/ApiTotality.v; (K) evaluates every observation
// against that one, (P) against this one: they must agree, a row changed in one place only is a mismatch).
//
// Default for every entry point and every argument class: the call RETURNS (ok or error).
// apiExceptions lists the (entry, class) pairs with another set of allowed outcome classes, each with its reason:
//   doc:      the doc comment forbids the argument or announces the panic (quoted), or the code checks for it and panics
//             with a message that says so
//   required: a required collaborator (io.Reader, comparer, callback target, out-parameter, wrapped error) is nil; no doc
//             comment calls it optional; the call dereferences it (Go convention; recorded, not repaired)
//   size:     the argument IS the number of bytes the caller asks for (preallocation, buffer growth, an option that is a
//             size in bytes): MaxInt of it panics in make, 2^40 of it dies with 'out of memory'
//   contract: the caller-supplied implementation breaks the contract of its own interface (io.Reader, io.Writer,
//             IteratorIndexer, a callback that panics)
//   model:    undocumented precondition, NOT repaired: the Coq model of the entry point has the panic as a modelled result
//             and its theorems exclude the input by a stated hypothesis (named in the row)
//   error:    narrower than the default: the call must return an ERROR

type apiExc struct {
	entry, class string
	allow        int
	kind, why    string
}

const mMisuse = mRet | mPanic

var apiExceptions = []apiExc{
	// ---- leveldb
	{"leveldb.MakeBatch", "n huge", mRet | mPanic | mAlloc, "size", "MakeBatch returns empty batch with preallocated buffer: n is the preallocation"},
	{"leveldb.Batch.Replay", "required argument nil", mMisuse, "required", "the BatchReplay receives the records; Replay(nil) on a batch with records calls a method of nil (an empty batch returns nil)"},
	{"leveldb.Batch.Replay", "callback panics", mMisuse, "contract", "the caller's BatchReplay panics: the panic reaches the caller of Replay"},
	{"leveldb.DB.Stats", "required argument nil", mMisuse, "required", "Stats populates s with database statistics: s is the out-parameter"},
	{"leveldb.Open", "option extreme (a size in bytes)", mRet | mPanic | mAlloc | mDied, "size",
		"WriteBuffer ('maximum size of a memdb'), BlockSize, CompactionTableSize and its multiplier are sizes in bytes that the DB preallocates (memdb arena, buffer-pool classes of BlockSize/4.., the table writer's buffer of the target table size): 2^31 and MaxInt of them are allocated or overflow; the compaction goroutine's panic kills the process. Not repaired: see props/C18.json (finding for C09: the getters do not bound sizes)"},
	{"leveldb.Open", "storage nil", mErr, "error", "newSession: os.ErrInvalid"},
	{"leveldb.Open", "storage refuses the lock", mErr, "error", "the storage's Lock error is returned"},
	{"leveldb.Recover", "storage nil", mErr, "error", "newSession: os.ErrInvalid"},
	{"leveldb.OpenFile", "path regular file", mErr, "error", "storage.OpenFile: not a directory"},
	{"leveldb.OpenFile", "path below a regular file", mErr, "error", "os.Stat / MkdirAll error"},
	{"leveldb.RecoverFile", "path regular file", mErr, "error", "storage.OpenFile: not a directory"},
	{"leveldb.RecoverFile", "path below a regular file", mErr, "error", "os.Stat / MkdirAll error"},
	// ---- util
	{"util.Buffer.Truncate", "n out of range", mMisuse, "doc", "Truncate: 'It panics if n is negative or greater than the length of the buffer.'"},
	{"util.Buffer.Alloc", "n<0", mMisuse, "doc", "Alloc: 'If n is negative, Alloc will panic.'"},
	{"util.Buffer.Alloc", "n huge", mRet | mPanic | mAlloc, "size", "Alloc: 'If the buffer can't grow it will panic with bytes.ErrTooLarge.' (2^40: the runtime's out of memory is not a panic)"},
	{"util.Buffer.Grow", "n<0", mMisuse, "doc", "Grow: 'If n is negative, Grow will panic.'"},
	{"util.Buffer.Grow", "n huge", mRet | mPanic | mAlloc, "size", "Grow: 'If the buffer can't grow it will panic with bytes.ErrTooLarge.'"},
	{"util.Buffer.Next", "n<0", mMisuse, "model", "undocumented (a run-time slice error, as bytes.Buffer.Next); Base/UBuffer.v models it as RPanic PBounds and C13U_buffer_refines_queue lists it among 'the only panics'"},
	{"util.Buffer.ReadFrom", "reader breaks io.Reader", mMisuse, "contract", "io.Reader forbids a negative count; the code panics with 'reader returned negative count from Read'"},
	{"util.Buffer.ReadFrom", "required argument nil", mMisuse, "required", "ReadFrom reads data from r"},
	{"util.Buffer.WriteTo", "writer breaks io.Writer", mMisuse, "contract", "io.Writer forbids n > len(p); the code panics with 'invalid Write count'"},
	{"util.NewBufferPool", "n<=0", mMisuse, "doc", "the code checks and panics with \"baseline can't be <= 0\" (the doc comment is silent)"},
	{"util.BufferPool.Get", "n<0", mMisuse, "doc", "Get: 'returns buffer with length of n' -- no buffer has a negative length"},
	{"util.BufferPool.Get", "n huge", mRet | mPanic | mAlloc, "size", "Get: 'returns buffer with length of n': n is the allocation"},
	{"util.BasicReleaser.SetReleaser", "releaser already present", mMisuse, "doc", "ReleaseSetter: 'This will panic if a releaser already present or coresponding resource is already released.'"},
	{"util.BasicReleaser.SetReleaser", "already released", mMisuse, "doc", "ReleaseSetter: 'This will panic if a releaser already present or coresponding resource is already released.'"},
	// ---- filter
	{"filter.FilterGenerator.Generate", "required argument nil", mMisuse, "required", "Generate writes the filter to b"},
	// REPAIRED (fix: filter: ... commits; C16_bloom_generate_total / C16_bloom_contains_total are unconditional): no row for
	// "n<0" any more (a negative bitsPerKey reads as 0: the call must return), no PANIC for "n huge"
	{"filter.FilterGenerator.Generate", "n huge", mRet | mAlloc, "size", "bitsPerKey >= 2^31 with at least one key asks for a filter of keys * bitsPerKey bits; Generate limits it to maxBloomBits = 2^32-8 bits (512 MiB) and must return (no panic: the integer divide by zero and the uint32 wrap are repaired)"},
	// ---- memdb
	{"memdb.New", "n huge", mRet | mPanic | mAlloc, "size", "New: 'The capacity is the initial key/value buffer capacity.'"},
	{"memdb.New", "required argument nil", mMisuse, "required", "the comparer orders the keys: the second Put compares"},
	// ---- iterator
	{"iterator.NewArrayIterator", "required argument nil", mMisuse, "required", "the Array is what the iterator iterates"},
	{"iterator.NewIndexedIterator", "required argument nil", mMisuse, "required", "the index is what the iterator iterates"},
	{"iterator.NewIndexedIterator", "index returns a nil child", mMisuse, "contract", "IteratorIndexer.Get: 'returns a new data iterator for the current position, or nil if done' -- nil at a valid position breaks it (First/Next tolerate it, Last/Seek/Prev dereference)"},
	{"iterator.NewMergedIterator", "a child is nil", mMisuse, "doc", "NewMergedIterator: 'None of the iters may be nil.'"},
	{"iterator.NewMergedIterator", "required argument nil", mMisuse, "required", "'in strictly increasing key order, as defined by cmp': two non-empty children are compared"},
	// ---- journal
	{"journal.NewReader", "required argument nil", mMisuse, "required", "'NewReader returns a new reader. The dropper may be nil' -- the io.Reader may not"},
	{"journal.NewReader", "reader fails", mErr, "error", "the io.Reader's error is returned by Next"},
	{"journal.Reader.Reset", "required argument nil", mMisuse, "required", "as NewReader"},
	{"journal.NewWriter", "required argument nil", mMisuse, "required", "the io.Writer receives the journal"},
	{"journal.Writer.Reset", "required argument nil", mMisuse, "required", "as NewWriter"},
	// ---- table
	{"table.NewReader", "size wrong", mErr, "error", "a size that is not the file's: corruption or the reader's error"},
	{"table.NewReader", "bytes arbitrary", mErr, "error", "arbitrary bytes are not a table: corruption (magic, handles, checksums)"},
	{"table.NewReader", "reader fails", mErr, "error", "the io.ReaderAt's error is returned"},
	{"table.NewReader", "required argument nil", mErr, "error", "NewReader: 'leveldb/table: nil file'"},
	{"table.NewWriter", "n huge", mRet | mPanic | mAlloc, "size", "size is the initial buffer the caller asks for"},
	{"table.NewWriter", "required argument nil", mMisuse, "required", "the io.Writer receives the table"},
	{"table.Writer.Append", "keys out of order", mErr, "error", "Append: 'The keys passed must be in increasing order.' -- the code answers with an error"},
	{"table.Writer.Append", "after Close", mErr, "error", "Close: 'Calling Append is not possible after Close'"},
	// ---- cache
	{"cache.Cache.Get", "setFunc panics", mMisuse, "contract", "the caller's setFunc panics: the panic reaches the caller of Get (the node's mutex stays held: the key is unusable afterwards)"},
	{"cache.NamespaceGetter.Get", "required argument nil", mMisuse, "required", "NamespaceGetter 'simply calls Cache.Get()': the zero value has no Cache"},
	{"cache.Node.GetHandle", "node without a reference", mMisuse, "doc", "the code checks and panics with 'BUG: Node.GetHandle on zero ref' (API for Cacher implementations, which hold a reference when they ask)"},
	// ---- storage
	{"storage.OpenFile", "path regular file", mErr, "error", "OpenFile: 'not a directory'"},
	{"storage.OpenFile", "path below a regular file", mErr, "error", "os.Stat error"},
	{"storage.Storage.Create", "fd invalid", mErr, "error", "ErrInvalidFile (FileDescOk)"},
	{"storage.Storage.Open", "fd invalid", mErr, "error", "ErrInvalidFile (FileDescOk)"},
	{"storage.Storage.Remove", "fd invalid", mErr, "error", "ErrInvalidFile (FileDescOk)"},
	{"storage.Storage.Rename", "fd invalid", mErr, "error", "ErrInvalidFile (FileDescOk)"},
	{"storage.Storage.SetMeta", "fd invalid", mErr, "error", "ErrInvalidFile (FileDescOk)"},
	{"storage.ErrCorrupted.Error", "wrapped error nil", mMisuse, "required", "ErrCorrupted wraps Err; its zero value has none"},
	// ---- errors
	{"errors.ErrCorrupted.Error", "wrapped error nil", mMisuse, "required", "NewErrCorrupted(fd, nil) wraps no error"},
	{"errors.SetFd", "typed nil pointer", mMisuse, "required", "a typed nil *ErrCorrupted is not an error value anybody returns"},
}

// apiNotCalled: enumerated entry points that no case calls, with the reason (none at present).
var apiNotCalled = map[string]string{}

func apiAllowed(entry, class string) (int, string) {
	for _, e := range apiExceptions {
		if e.entry == entry && e.class == class {
			return e.allow, " [" + e.kind + ": " + e.why + "]"
		}
	}
	return mRet, ""
}

// apiDumpCoqTable renders the table as Coq source (used to write Store/ApiTotality.v, which is kept by hand
// afterwards: the two copies are compared on every run through the KApi cases).
func apiDumpCoqTable() string {
	entries := map[string]bool{}
	for _, c := range apiCases() {
		entries[c.entry] = true
	}
	var names []string
	for n := range entries {
		names = append(names, n)
	}
	sort.Strings(names)
	var sb strings.Builder
	for i, n := range names {
		var ex []string
		for _, e := range apiExceptions {
			if e.entry == n {
				ex = append(ex, fmt.Sprintf("(%s, %d)", coqStr(e.class), e.allow))
			}
		}
		sep := ";"
		if i == len(names)-1 {
			sep = ""
		}
		fmt.Fprintf(&sb, "  (%s, [%s])%s\n", coqStr(n), strings.Join(ex, "; "), sep)
	}
	return sb.String()
}
