package main

import (
	"bytes"
	stderrors "errors"
	"fmt"
	"sort"

	"github.com/syndtr/goleveldb/leveldb/comparer"
	"github.com/syndtr/goleveldb/leveldb/errors"
	"github.com/syndtr/goleveldb/leveldb/iterator"
	"github.com/syndtr/goleveldb/leveldb/memdb"
	"github.com/syndtr/goleveldb/leveldb/storage"
	"github.com/syndtr/goleveldb/leveldb/util"
)

func memStates() []struct {
	name string
	mk   func() *memdb.DB
} {
	fill := func(n int) func() *memdb.DB {
		return func() *memdb.DB {
			p := memdb.New(comparer.DefaultComparer, 0)
			for i := 0; i < n; i++ {
				p.Put(apiKey(i*2), []byte("v"))
			}
			return p
		}
	}
	return []struct {
		name string
		mk   func() *memdb.DB
	}{
		{"empty", fill(0)}, {"one entry", fill(1)}, {"100 entries", fill(100)},
		{"emptied by Delete", func() *memdb.DB {
			p := fill(3)()
			p.Delete(apiKey(0))
			p.Delete(apiKey(2))
			p.Delete(apiKey(4))
			return p
		}},
		{"after Reset", func() *memdb.DB { p := fill(50)(); p.Reset(); return p }},
		{"holds the nil key", func() *memdb.DB { p := fill(5)(); p.Put(nil, nil); return p }},
	}
}

func memNotFound(err error) error {
	if err == memdb.ErrNotFound || err == errors.ErrNotFound {
		return nil
	}
	return err
}

func casesMemdb(l *apiList) {
	for _, n := range intLattice(4096, 1<<40) {
		n := n
		l.add("memdb.New", intClass(n.n), "capacity="+n.name, func(x *apiCtx) error {
			p := memdb.New(comparer.DefaultComparer, n.n)
			p.Put([]byte("k"), []byte("v"))
			_, err := p.Get([]byte("k"))
			_ = p.Capacity()
			_ = p.Free()
			return err
		})
	}
	l.add("memdb.New", "required argument nil", "nil comparer, then Put twice", func(x *apiCtx) error {
		p := memdb.New(nil, 0)
		p.Put([]byte("a"), nil)
		return p.Put([]byte("b"), nil)
	})
	for _, st := range memStates() {
		st := st
		for _, k := range keyLattice() {
			k := k
			kc := "key " + classOfKey(k.name)
			for _, v := range valLattice()[:3] {
				v := v
				l.add("memdb.DB.Put", kc, st.name+" "+k.name+" / value "+v.name, func(x *apiCtx) error {
					p := st.mk()
					n0 := p.Len()
					had := p.Contains(k.b)
					if err := p.Put(k.b, v.b); err != nil {
						return err
					}
					if err := p.Put(k.b, v.b); err != nil {
						return err
					}
					got, err := p.Get(k.b)
					if err != nil || !bytes.Equal(got, v.b) {
						panic(fmt.Sprintf("harness: Get after Put: %q %v", got, err))
					}
					if want := n0 + 1; !had && p.Len() != want || had && p.Len() != n0 {
						panic("harness: Len after Put")
					}
					return nil
				})
			}
			l.add("memdb.DB.Delete", kc, st.name+" "+k.name, func(x *apiCtx) error {
				p := st.mk()
				err := p.Delete(k.b)
				if p.Contains(k.b) {
					panic("harness: Contains after Delete")
				}
				p.Delete(k.b)
				return memNotFound(err)
			})
			l.add("memdb.DB.Get", kc, st.name+" "+k.name, func(x *apiCtx) error { _, err := st.mk().Get(k.b); return memNotFound(err) })
			l.add("memdb.DB.Contains", kc, st.name+" "+k.name, func(x *apiCtx) error { _ = st.mk().Contains(k.b); return nil })
			l.add("memdb.DB.Find", kc, st.name+" "+k.name, func(x *apiCtx) error {
				rk, _, err := st.mk().Find(k.b)
				if err == nil && bytes.Compare(rk, k.b) < 0 {
					panic("harness: Find returns a smaller key")
				}
				return memNotFound(err)
			})
		}
		for _, rg := range rangeLattice() {
			rg := rg
			l.add("memdb.DB.NewIterator", rangeClass(rg.name), st.name+" "+rg.name, func(x *apiCtx) error {
				p := st.mk()
				it := p.NewIterator(rg.r)
				// the DB changes under the iterator (allowed: "safe for concurrent use")
				p.Put(apiKey(61), []byte("late"))
				return walkIter(it, apiKey(60))
			})
		}
		l.add("memdb.DB.NewIterator", "range", st.name+" iterator outlives Reset", func(x *apiCtx) error {
			p := st.mk()
			it := p.NewIterator(nil)
			it.First()
			p.Reset()
			return walkIter(it, apiKey(60))
		})
		l.add("memdb.DB.Capacity", "-", st.name, func(x *apiCtx) error { _ = st.mk().Capacity(); return nil })
		l.add("memdb.DB.Size", "-", st.name, func(x *apiCtx) error {
			if st.mk().Size() < 0 {
				panic("harness: negative Size")
			}
			return nil
		})
		l.add("memdb.DB.Free", "-", st.name, func(x *apiCtx) error { _ = st.mk().Free(); return nil })
		l.add("memdb.DB.Len", "-", st.name, func(x *apiCtx) error {
			if st.mk().Len() < 0 {
				panic("harness: negative Len")
			}
			return nil
		})
		l.add("memdb.DB.Reset", "-", st.name+", twice, then use", func(x *apiCtx) error {
			p := st.mk()
			p.Reset()
			p.Reset()
			if p.Len() != 0 || p.Size() != 0 {
				panic("harness: Reset leaves entries")
			}
			p.Put([]byte("k"), nil)
			_, err := p.Get([]byte("k"))
			return err
		})
	}
}

// ---- package iterator

type sliceArray struct{ keys, vals [][]byte }

func (a *sliceArray) Len() int { return len(a.keys) }
func (a *sliceArray) Search(key []byte) int {
	return sort.Search(len(a.keys), func(i int) bool { return bytes.Compare(a.keys[i], key) >= 0 })
}
func (a *sliceArray) Index(i int) (k, v []byte) { return a.keys[i], a.vals[i] }

func mkArray(n int, step int) *sliceArray {
	a := &sliceArray{}
	for i := 0; i < n; i++ {
		a.keys = append(a.keys, apiKey(i*step))
		a.vals = append(a.vals, []byte(fmt.Sprint(i)))
	}
	return a
}

// indexArray: an ArrayIndexer over child arrays; nilAt / errAt make child i nil / an error iterator
type indexArray struct {
	parts        []*sliceArray
	nilAt, errAt int
	corrupt      bool
}

func (a *indexArray) Len() int { return len(a.parts) }
func (a *indexArray) Search(key []byte) int {
	return sort.Search(len(a.parts), func(i int) bool {
		p := a.parts[i]
		return len(p.keys) > 0 && bytes.Compare(p.keys[len(p.keys)-1], key) >= 0
	})
}
func (a *indexArray) Get(i int) iterator.Iterator {
	if i == a.nilAt {
		return nil
	}
	if i == a.errAt {
		if a.corrupt {
			return iterator.NewEmptyIterator(errors.NewErrCorrupted(storage.FileDesc{}, stderrors.New("harness: corrupted child")))
		}
		return iterator.NewEmptyIterator(stderrors.New("harness: failing child"))
	}
	return iterator.NewArrayIterator(a.parts[i])
}

func mkIndex(parts int, per int, nilAt, errAt int, corrupt bool) *indexArray {
	a := &indexArray{nilAt: nilAt, errAt: errAt, corrupt: corrupt}
	for p := 0; p < parts; p++ {
		s := &sliceArray{}
		for i := 0; i < per; i++ {
			s.keys = append(s.keys, apiKey(p*100+i))
			s.vals = append(s.vals, []byte("v"))
		}
		a.parts = append(a.parts, s)
	}
	return a
}

// walkAnyIter: walkIter plus SetReleaser uses and every key of the lattice as Seek target
func walkAll(mk func() iterator.Iterator) error {
	var first error
	for _, k := range keyLattice() {
		if err := walkIter(mk(), k.b); err != nil && first == nil {
			first = err
		}
	}
	it := mk()
	r := &noopReleaser{}
	it.SetReleaser(r)
	it.SetReleaser(nil)
	it.SetReleaser(r)
	it.Release()
	if r.n != 1 {
		panic("harness: the releaser of an iterator must be called once")
	}
	// movements in every order from a fresh iterator
	for _, first := range []int{0, 1, 2, 3, 4} {
		it := mk()
		for _, m := range []int{first, 3, 3, 4, 4, 1, 3, 0, 4, 2, 3, 4} {
			switch m {
			case 0:
				it.First()
			case 1:
				it.Last()
			case 2:
				it.Seek(apiKey(3))
			case 3:
				it.Next()
			case 4:
				it.Prev()
			}
			if it.Valid() {
				_, _ = it.Key(), it.Value()
			} else if it.Key() != nil && it.Error() == nil {
				panic("harness: an invalid iterator returns a key")
			}
		}
		it.Release()
	}
	return first
}

func casesIterator(l *apiList) {
	for _, n := range []int{0, 1, 50} {
		n := n
		l.add("iterator.NewArrayIterator", fmt.Sprintf("array of %s", sizeClass(n)), fmt.Sprintf("%d entries", n), func(x *apiCtx) error {
			return walkAll(func() iterator.Iterator { return iterator.NewArrayIterator(mkArray(n, 2)) })
		})
		l.add("iterator.NewArrayIndexer", fmt.Sprintf("array of %s", sizeClass(n)), fmt.Sprintf("%d children", n), func(x *apiCtx) error {
			ix := iterator.NewArrayIndexer(mkIndex(n, 3, -1, -1, false))
			cnt := 0
			for ok := ix.First(); ok; ok = ix.Next() {
				if c := ix.Get(); c != nil {
					c.Release()
				}
				cnt++
			}
			if cnt != n {
				panic("harness: the indexer enumerates another number of children")
			}
			_ = ix.Get()
			ix.Last()
			ix.Seek(nil)
			ix.Seek(apiKey(150))
			ix.Prev()
			ix.Release()
			ix.Next()
			_ = ix.Get()
			return nil
		})
		for _, strict := range []bool{false, true} {
			strict := strict
			l.add("iterator.NewIndexedIterator", fmt.Sprintf("index of %s", sizeClass(n)), fmt.Sprintf("%d children x 3 strict=%v", n, strict), func(x *apiCtx) error {
				return walkAll(func() iterator.Iterator {
					return iterator.NewIndexedIterator(iterator.NewArrayIndexer(mkIndex(n, 3, -1, -1, false)), strict)
				})
			})
			l.add("iterator.NewIndexedIterator", "index with empty children", fmt.Sprintf("%d children x 0 strict=%v", n, strict), func(x *apiCtx) error {
				return walkAll(func() iterator.Iterator {
					return iterator.NewIndexedIterator(iterator.NewArrayIndexer(mkIndex(n, 0, -1, -1, false)), strict)
				})
			})
			l.add("iterator.NewMergedIterator", fmt.Sprintf("children %s", sizeClass(n)), fmt.Sprintf("%d children strict=%v", n, strict), func(x *apiCtx) error {
				return walkAll(func() iterator.Iterator {
					var its []iterator.Iterator
					for i := 0; i < n; i++ {
						a := &sliceArray{}
						for j := 0; j < 4; j++ {
							a.keys = append(a.keys, apiKey(j*n+i))
							a.vals = append(a.vals, nil)
						}
						its = append(its, iterator.NewArrayIterator(a))
					}
					return iterator.NewMergedIterator(its, comparer.DefaultComparer, strict)
				})
			})
		}
	}
	for _, strict := range []bool{false, true} {
		for _, corrupt := range []bool{false, true} {
			strict, corrupt := strict, corrupt
			l.add("iterator.NewIndexedIterator", "index with a failing child", fmt.Sprintf("child 1 of 3 fails, corrupted=%v strict=%v", corrupt, strict), func(x *apiCtx) error {
				walkAll(func() iterator.Iterator {
					return iterator.NewIndexedIterator(iterator.NewArrayIndexer(mkIndex(3, 3, -1, 1, corrupt)), strict)
				})
				return nil
			})
			l.add("iterator.NewMergedIterator", "children one failing", fmt.Sprintf("corrupted=%v strict=%v", corrupt, strict), func(x *apiCtx) error {
				walkAll(func() iterator.Iterator {
					var e error = stderrors.New("harness: failing child")
					if corrupt {
						e = errors.NewErrCorrupted(storage.FileDesc{}, e)
					}
					return iterator.NewMergedIterator([]iterator.Iterator{iterator.NewArrayIterator(mkArray(5, 2)), iterator.NewEmptyIterator(e),
						iterator.NewArrayIterator(mkArray(5, 3))}, comparer.DefaultComparer, strict)
				})
				return nil
			})
		}
	}
	l.add("iterator.NewIndexedIterator", "index returns a nil child", "child 1 of 3 is nil", func(x *apiCtx) error {
		return walkAll(func() iterator.Iterator {
			return iterator.NewIndexedIterator(iterator.NewArrayIndexer(mkIndex(3, 3, 1, -1, false)), false)
		})
	})
	l.add("iterator.NewIndexedIterator", "required argument nil", "nil index", func(x *apiCtx) error {
		it := iterator.NewIndexedIterator(nil, false)
		it.First()
		return it.Error()
	})
	l.add("iterator.NewMergedIterator", "children nil slice", "nil slice and empty slice", func(x *apiCtx) error {
		if err := walkAll(func() iterator.Iterator { return iterator.NewMergedIterator(nil, comparer.DefaultComparer, true) }); err != nil {
			return err
		}
		return walkAll(func() iterator.Iterator {
			return iterator.NewMergedIterator([]iterator.Iterator{}, comparer.DefaultComparer, false)
		})
	})
	l.add("iterator.NewMergedIterator", "children all empty", "three empty iterators", func(x *apiCtx) error {
		return walkAll(func() iterator.Iterator {
			return iterator.NewMergedIterator([]iterator.Iterator{iterator.NewEmptyIterator(nil), iterator.NewArrayIterator(mkArray(0, 1)), iterator.NewEmptyIterator(nil)},
				comparer.DefaultComparer, true)
		})
	})
	l.add("iterator.NewMergedIterator", "a child is nil", "iters = [array, nil]", func(x *apiCtx) error {
		it := iterator.NewMergedIterator([]iterator.Iterator{iterator.NewArrayIterator(mkArray(3, 1)), nil}, comparer.DefaultComparer, true)
		it.First()
		return it.Error()
	})
	l.add("iterator.NewMergedIterator", "required argument nil", "nil comparer, two non-empty children", func(x *apiCtx) error {
		it := iterator.NewMergedIterator([]iterator.Iterator{iterator.NewArrayIterator(mkArray(3, 1)), iterator.NewArrayIterator(mkArray(3, 2))}, nil, true)
		it.First()
		return it.Error()
	})
	l.add("iterator.NewMergedIterator", "children nil slice", "nil comparer, no children", func(x *apiCtx) error {
		it := iterator.NewMergedIterator(nil, nil, true)
		it.First()
		it.Last()
		it.Seek(nil)
		it.Next()
		it.Prev()
		return it.Error()
	})
	for _, e := range []error{nil, stderrors.New("harness: given error")} {
		e := e
		l.add("iterator.NewEmptyIterator", "-", fmt.Sprintf("err=%v", e), func(x *apiCtx) error {
			walkAll(func() iterator.Iterator { return iterator.NewEmptyIterator(e) })
			it := iterator.NewEmptyIterator(e)
			if it.Error() != e {
				panic("harness: NewEmptyIterator loses its error")
			}
			return nil
		})
	}
	l.add("iterator.NewArrayIterator", "required argument nil", "nil Array", func(x *apiCtx) error {
		it := iterator.NewArrayIterator(nil)
		it.First()
		return it.Error()
	})
	// the interface methods (every implementation above goes through them; named for the enumeration)
	for _, m := range []string{"IteratorSeeker.First", "IteratorSeeker.Last", "IteratorSeeker.Seek", "IteratorSeeker.Next", "IteratorSeeker.Prev",
		"CommonIterator.Valid", "CommonIterator.Error", "Iterator.Key", "Iterator.Value"} {
		m := m
		l.add("iterator."+m, "-", "array, indexed, merged, empty iterators on no entries", func(x *apiCtx) error {
			for _, it := range []iterator.Iterator{iterator.NewArrayIterator(mkArray(0, 1)), iterator.NewIndexedIterator(iterator.NewArrayIndexer(mkIndex(0, 0, -1, -1, false)), true),
				iterator.NewMergedIterator(nil, comparer.DefaultComparer, true), iterator.NewEmptyIterator(nil)} {
				for rel := 0; rel < 2; rel++ {
					switch m {
					case "IteratorSeeker.First":
						it.First()
					case "IteratorSeeker.Last":
						it.Last()
					case "IteratorSeeker.Seek":
						it.Seek(nil)
					case "IteratorSeeker.Next":
						it.Next()
					case "IteratorSeeker.Prev":
						it.Prev()
					case "CommonIterator.Valid":
						if it.Valid() {
							panic("harness: an iterator over nothing is valid")
						}
					case "CommonIterator.Error":
						_ = it.Error()
					case "Iterator.Key":
						if it.Key() != nil {
							panic("harness: key of an iterator over nothing")
						}
					case "Iterator.Value":
						if it.Value() != nil {
							panic("harness: value of an iterator over nothing")
						}
					}
					it.Release()
				}
			}
			return nil
		})
	}
	l.add("iterator.IteratorIndexer.Get", "-", "indexer positions: before first, valid, after last, released", func(x *apiCtx) error {
		ix := iterator.NewArrayIndexer(mkIndex(2, 2, -1, -1, false))
		_ = ix.Get()
		ix.First()
		if c := ix.Get(); c != nil {
			c.Release()
		}
		ix.Next()
		ix.Next()
		_ = ix.Get()
		ix.Release()
		_ = ix.Get()
		return nil
	})
	l.add("iterator.ErrorCallbackSetter.SetErrorCallback", "-", "nil and non-nil callbacks on indexed and merged iterators", func(x *apiCtx) error {
		for _, it := range []iterator.Iterator{iterator.NewIndexedIterator(iterator.NewArrayIndexer(mkIndex(3, 3, -1, 1, true)), true),
			iterator.NewMergedIterator([]iterator.Iterator{iterator.NewEmptyIterator(stderrors.New("harness: e"))}, comparer.DefaultComparer, true)} {
			s := it.(iterator.ErrorCallbackSetter)
			s.SetErrorCallback(nil)
			for it.Next() {
			}
			n := 0
			s.SetErrorCallback(func(error) { n++ })
			it.First()
			for it.Next() {
			}
			it.Release()
		}
		return nil
	})
	for _, m := range []string{"BasicArray.Len", "BasicArray.Search", "Array.Index", "ArrayIndexer.Get"} {
		m := m
		l.add("iterator."+m, "-", "caller-implemented interface: exercised through the array iterators", func(x *apiCtx) error {
			return walkIter(iterator.NewArrayIterator(mkArray(3, 1)), nil)
		})
	}
	_ = util.Range{}
}

func sizeClass(n int) string {
	switch n {
	case 0:
		return "none"
	case 1:
		return "one"
	}
	return "many"
}
