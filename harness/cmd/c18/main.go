// c18: ownership and lifecycle — one owner, read-only means read-only, closed is closed.
//
// (P) on the implementation (hist.go, race.go, filestor.go): prior histories built with lib/dbh ending in each
// situation (data only in the journal, tables at several levels, pending compaction at Close, open transaction
// at Close, live snapshots/iterators at Close); a read-only Open of a CLONE of the storage must issue zero
// mutating storage operations (vstor audit) and serve exactly the oracle's data; SetReadOnly on the open DB;
// after Close EVERY exported method of *DB, *Snapshot, *Transaction and iterator.Iterator (enumerated with
// package reflect; a method without a call template fails the check) must return its closed class without
// panic, hang or storage operation; released handles; calls racing with Close; the real file storage.
// (K) (kseq.go): generated call sequences are executed on the implementation and replayed on the Coq lifecycle
// machine (Corr/C18Run.v): outcome classes must agree and no mutation may appear where the model has none.
// Part "api" (api*.go): the totality sweep of the whole exported surface of twelve packages in child processes,
// evaluated against the totality table (Go copy for (P), Store/ApiTotality.v for (K)).
package main

import (
	"encoding/json"
	"fmt"
	"os"
	"path/filepath"
	"regexp"
	"runtime/debug"
	"sort"
	"strings"
	"sync"
	"sync/atomic"
	"time"

	"github.com/syndtr/goleveldb/leveldb"
	"verifharness/lib/dbh"
	"verifharness/lib/vlib"
	"verifharness/lib/vstor"
)

func debugStack() []byte { return debug.Stack() }

type job struct {
	Part  string `json:"part"` // hist | kseq | race | fs | ... | api (Index = case index of the sweep, -1 = all)
	Index int    `json:"index"`
	Sit   int    `json:"situation,omitempty"`
	Nops  int    `json:"nops,omitempty"`
	Seed  uint64 `json:"seed"`
}

func (j job) rng() *vlib.RNG {
	p := map[string]uint64{"hist": 1, "kseq": 2, "race": 3, "fs": 4, "directed": 5, "fsk": 6, "stor": 7, "api": 8}[j.Part]
	return vlib.NewRNG(j.Seed*1000003 + p*7919 + uint64(j.Index)*104729)
}

// storKJobs: how many of the storage-contract sequences (memstor.go) also become (K) cases, three each
const storKJobs = 40

type kcase struct {
	index int
	coq   string
	js    interface{}
}

type knownHit struct {
	id, desc string
	j        job
}

type collector struct {
	fcases    []kcase // file-storage model cases (fsmodel.go), not subject to the sequence cap
	thorough  bool
	mu        sync.Mutex
	res       *vlib.Result
	out       string
	known     []knownHit
	kcases    []kcase
	logs      []string
	notes     []string
	nviol     int
	sigs      map[string]int
	histDone  map[int]int
	apiMatrix map[string]map[string]int
	apiMisuse []string
}

var digits = regexp.MustCompile(`[0-9]+`)

// violate records a (P) failure; failures with the same signature (text without numbers, option point
// stripped) are reported once.
func (c *collector) violate(desc string, j job, extra interface{}) {
	sig := desc
	if i := strings.Index(sig, "]: "); i >= 0 && strings.HasPrefix(sig, "history ending") {
		sig = sig[i+3:]
	}
	sig = digits.ReplaceAllString(sig, "#")
	if len(sig) > 90 {
		sig = sig[:90]
	}
	c.mu.Lock()
	if c.sigs == nil {
		c.sigs = map[string]int{}
	}
	c.sigs[sig]++
	dup := c.sigs[sig] > 1
	if !dup {
		c.nviol++
	}
	n := c.nviol
	c.mu.Unlock()
	if dup || n > 12 {
		return
	}
	c.res.Violate(desc, map[string]interface{}{"job": j, "detail": extra,
		"replay_cmd": "build/c18 --tier quick --seed <seed> --out DIR --replay <this file>"})
}

func (c *collector) knownHit(id, desc string, j job) {
	c.mu.Lock()
	c.known = append(c.known, knownHit{id, desc, j})
	c.mu.Unlock()
}

// flushKnown writes one violation entry per known-finding id with the `known` field set (the check driver
// prints KNOWN-FINDING for ids listed in known_findings.txt and does not count them).
func (c *collector) flushKnown() {
	seen := map[string]bool{}
	for _, k := range c.known {
		if seen[k.id] {
			continue
		}
		seen[k.id] = true
		name := fmt.Sprintf("replay_%s_known_%s.json", c.res.Property, k.id)
		b, _ := json.MarshalIndent(map[string]interface{}{"property": c.res.Property, "desc": k.desc, "known": k.id, "case": map[string]interface{}{"job": k.j}}, "", " ")
		os.WriteFile(filepath.Join(c.out, name), b, 0o644)
		c.res.Violations = append(c.res.Violations, vlib.Violation{Desc: k.desc, Replay: name, Known: k.id})
	}
	ids := []string{}
	for id := range seen {
		ids = append(ids, id)
	}
	sort.Strings(ids)
	c.res.Extra["known_findings_seen"] = ids
}

// runJob runs one job; a panic of the implementation that reaches the job's own goroutine outside a guarded
// call is reported as a violation of that job (with the stack), not as a crash of the harness.
func runJob(c *collector, j job, methods []string, base string) (failed bool) {
	defer func() {
		if x := recover(); x != nil {
			st := trimStack(debugStack())
			c.violate(fmt.Sprintf("%s: the implementation panicked: %v at %s\n%s", j.Part, x, firstLeveldbFrame(st), st), j, nil)
			failed = true
		}
	}()
	r := j.rng()
	res := c.res
	switch j.Part {
	case "hist":
		h := runHistory(r, j.Sit, j.Nops, methods)
		for k, v := range h.stats {
			switch k {
			case "journal_only_entries", "levels":
			default:
				res.Count(k, v)
			}
		}
		res.Count("history_"+sitNames[j.Sit], 1)
		if h.switched {
			res.Count("history_switched_to_read_only", 1)
		}
		res.Count(fmt.Sprintf("history_levels_%d", h.stats["levels"]), 1)
		if h.stats["journal_only_entries"] > 0 {
			res.Count("history_with_journal_only_data", 1)
		}
		res.Eval(fmt.Sprintf("hist/%d", j.Index), h.stats["journal_only_entries"] > 0 && h.stats["levels"] >= 2)
		if j.Index < 2 {
			res.Sample(map[string]interface{}{"history": sitNames[j.Sit], "cfg": h.cfg.String(), "ops": len(h.prog.Ops), "stats": h.stats})
		}
		c.mu.Lock()
		if len(c.logs) < 12 {
			c.logs = append(c.logs, h.logs...)
		}
		c.mu.Unlock()
		for id, d := range h.known {
			c.knownHit(id, d, j)
		}
		for _, f := range h.fails {
			c.violate(fmt.Sprintf("history ending with %s [%s]: %s", sitNames[j.Sit], h.cfg.String(), f), j, nil)
			failed = true
		}
	case "kseq":
		cfg := dbh.RandomCfg(r)
		if cfg.WriteBuffer > 8192 {
			cfg.WriteBuffer = 4096
		}
		pool := dbh.GenPool(r, r.Range(6, 24), false)
		st := vstor.New(false)
		has := false
		if r.Chance(3, 5) {
			// prior history: a short program run and closed
			w := dbh.DefaultWeights()
			w.Reopen = 1
			p := dbh.GenProgram(r, cfg, pool, r.Range(10, j.Nops), w)
			rr, rn := dbh.RunWith(p, dbh.Hooks{}, false, false, nil)
			if d := dbh.Describe(rr); d != "" {
				c.violate("history of a call sequence: "+d, j, nil)
				return true
			}
			st = rn.Stor
			has = true
		}
		kr := runKSeq(r, st, has, cfg, pool, methods, r.Range(25, 70))
		for k, v := range kr.counts {
			res.Count(k, v)
		}
		if kr.truncated {
			res.Count("k_sequences_truncated", 1)
		}
		res.Count("k_steps", len(kr.steps))
		res.Eval(fmt.Sprintf("kseq/%d", j.Index), false)
		c.mu.Lock()
		c.kcases = append(c.kcases, kcase{j.Index, kr.coq, map[string]interface{}{"job": j, "cfg": cfg.String(), "has_db": has, "steps": kr.steps}})
		c.mu.Unlock()
		for _, f := range kr.failures {
			c.violate("call sequence: "+f, j, kr.steps)
			failed = true
		}
	case "race":
		ro := raceRound(r)
		for k, v := range ro.stats {
			res.Count(k, v)
		}
		res.Eval(fmt.Sprintf("race/%d", j.Index), false)
		for id, d := range ro.known {
			c.knownHit(id, d, j)
		}
		for _, f := range ro.fails {
			c.violate("racing with Close (stress, partial): "+f, j, ro.kinds)
			failed = true
			break
		}
	case "directed":
		fails, n := directedCases()
		res.Count("directed_cases", n)
		res.Eval("directed", false)
		for _, f := range fails {
			c.violate(f, j, nil)
			failed = true
		}
	case "fsk":
		cases, fails, stats, notes, known := fsModelChecks(r, base, c.thorough)
		for id, d := range known {
			c.knownHit(id, d, j)
		}
		for k, v := range stats {
			res.Count(k, v)
		}
		c.mu.Lock()
		c.notes = append(c.notes, notes...)
		c.fcases = append(c.fcases, cases...)
		c.mu.Unlock()
		res.Eval("fsk", false)
		for _, f := range fails {
			c.violate(f, j, nil)
			failed = true
		}
	case "stor":
		cases, fails, detail := storJob(r, j.Index, base, j.Index < storKJobs, func(k string, n int) { res.Count(k, n) })
		c.mu.Lock()
		c.fcases = append(c.fcases, cases...)
		c.mu.Unlock()
		res.Eval(fmt.Sprintf("stor/%d", j.Index), true)
		if j.Index == 0 {
			if d := packWrapProbe(); d != "" {
				c.knownHit("memstorage-packfile-wrap", d, j)
			}
		}
		for _, f := range fails {
			c.violate("storage contract: "+f, j, detail)
			failed = true
		}
	case "api":
		// the thorough tier repeats the sweep with other seeds (the random parts of the lattice: garbage for Load, damaged
		// files, random tables); the (K) cases of the first round are kept
		reps := 1
		if c.thorough && j.Index < 0 {
			reps = 4
		}
		for rep := 0; rep < reps; rep++ {
			ar := apiJob(j.Seed+uint64(rep)*7919, c.thorough, base, j.Index)
			if rep == 0 {
				for k, v := range ar.stats {
					res.Count(k, v)
				}
				c.mu.Lock()
				c.fcases = append(c.fcases, ar.cases...)
				c.apiMatrix, c.apiMisuse = ar.matrix, ar.misuse
				c.mu.Unlock()
			}
			res.Eval("api", false)
			for _, f := range ar.fails {
				c.violate(f.desc, job{Part: "api", Index: f.index, Seed: j.Seed + uint64(rep)*7919}, f.row)
				failed = true
			}
		}
	case "fs":
		fails, stats, notes := fileStorageChecks(r, base)
		for k, v := range stats {
			res.Count(k, v)
		}
		c.mu.Lock()
		c.notes = append(c.notes, notes...)
		c.mu.Unlock()
		res.Eval("fs", false)
		for _, f := range fails {
			c.violate(f, j, nil)
			failed = true
		}
	}
	return
}

func main() {
	if spec := os.Getenv("C18_API_CHILD"); spec != "" {
		apiChild(spec) // one group of the API totality sweep (api.go)
		return
	}
	if dir := os.Getenv("C18_FS_SESSION"); dir != "" {
		sessionChild(dir) // the live session of sessionFaultChecks (fsmodel.go)
		return
	}
	if spec := os.Getenv("C18_FS_CHILD"); spec != "" {
		fsChild(spec) // the process traced by strace (fsmodel.go)
		return
	}
	a := vlib.ParseArgs()
	res := vlib.NewResult("C18", a.Out, "prior histories built with lib/dbh programs over the option lattice x 4 comparers, ending in each of 5 situations (data only in the journal; tables at several levels; Close with compaction pending; Close with an open transaction owning tables; Close with live snapshots and iterators), half of them switched with SetReadOnly before Close; on each: read-only Open of a CLONE of the storage (audit: zero mutating operations, data = Go map incl. journal-only data, writes rejected), every reflected method after Close (class, no panic, no hang, no storage operation), released handles, reopen (lock free, exclusive); plus generated call sequences replayed on the Coq machine, calls racing with Close, and the real file storage; non-trivial = the history left unflushed journal data AND >= 2 populated levels")
	c := &collector{res: res, out: a.Out, histDone: map[int]int{}, thorough: a.Thorough()}
	leveldb.VerifSetTableOpenedHook(tableOpenedHook)
	defer res.Write()
	defer c.flushKnown()
	base := os.Getenv("VERIF_TMP")
	if base == "" {
		base = os.TempDir()
	}

	// ---- the API enumeration: reflection vs call templates (a method without a template fails the check)
	methods := reflectedMethods()
	for _, m := range methods {
		if _, ok := templates[m]; !ok {
			c.violate(fmt.Sprintf("exported method %s has no call template in the harness: it would be skipped by the after-Close / read-only / released checks (add a template and the model constructor)", m), job{Part: "enum", Seed: a.Seed}, methods)
		}
	}
	for m := range templates {
		found := false
		for _, x := range methods {
			if x == m {
				found = true
			}
		}
		if !found {
			c.violate(fmt.Sprintf("the harness has a call template for %s but reflection finds no such exported method", m), job{Part: "enum", Seed: a.Seed}, methods)
		}
	}
	var known []string
	for _, m := range methods {
		if _, ok := templates[m]; ok {
			known = append(known, m)
		}
	}
	res.Extra["api_methods"] = len(methods)

	if a.Replay != "" {
		b, err := os.ReadFile(a.Replay)
		if err != nil {
			fmt.Println("cannot load replay:", err)
			return
		}
		var w struct {
			Case struct {
				Job job `json:"job"`
			} `json:"case"`
		}
		if err := json.Unmarshal(b, &w); err != nil || w.Case.Job.Part == "" {
			fmt.Println("replay file holds no job")
			return
		}
		for i := 0; i < 5; i++ {
			if runJob(c, w.Case.Job, known, base) {
				fmt.Println("replay fails")
				return
			}
		}
		fmt.Println("replay passes")
		return
	}

	if strings.Contains(a.Extra, "apionly") { // experiments: the API totality sweep alone, outcome rows on stdout
		t := time.Now()
		ar := apiJob(a.Seed, a.Thorough(), base, -1)
		for _, f := range ar.fails {
			fmt.Println("FAIL", f.desc)
		}
		for _, m := range ar.misuse {
			fmt.Println("MISUSE", m)
		}
		if strings.Contains(a.Extra, "classes") {
			cl := map[string]map[string]bool{}
			for _, r := range ar.rows {
				k := r.Entry + " | " + r.Class
				if cl[k] == nil {
					cl[k] = map[string]bool{}
				}
				cl[k][r.Out.String()] = true
			}
			var ks []string
			for k := range cl {
				ks = append(ks, k)
			}
			sort.Strings(ks)
			for _, k := range ks {
				var o []string
				for x := range cl[k] {
					o = append(o, x)
				}
				sort.Strings(o)
				fmt.Println("CLASS", k, "->", strings.Join(o, ","))
			}
		}
		fmt.Println("stats", ar.stats, "matrix", ar.matrix, "wall", time.Since(t))
		if strings.Contains(a.Extra, "dumpjson") {
			type ent struct {
				Classes map[string]map[string]int `json:"classes"`
			}
			pk := map[string]map[string]map[string]map[string]int{}
			for _, r := range ar.rows {
				p := r.Entry[:strings.IndexByte(r.Entry, '.')]
				if pk[p] == nil {
					pk[p] = map[string]map[string]map[string]int{}
				}
				if pk[p][r.Entry] == nil {
					pk[p][r.Entry] = map[string]map[string]int{}
				}
				if pk[p][r.Entry][r.Class] == nil {
					pk[p][r.Entry][r.Class] = map[string]int{}
				}
				pk[p][r.Entry][r.Class][r.Out.String()]++
			}
			var exc []map[string]string
			for _, e := range apiExceptions {
				exc = append(exc, map[string]string{"entry": e.entry, "class": e.class, "allowed": apiMaskString(e.allow), "kind": e.kind, "why": e.why})
			}
			b, _ := json.Marshal(map[string]interface{}{"packages": pk, "exceptions": exc, "matrix": ar.matrix})
			os.WriteFile(filepath.Join(a.Out, "api_dump.json"), b, 0o644)
		}
		if strings.Contains(a.Extra, "dumptable") {
			fmt.Println(apiDumpCoqTable())
		}
		return
	}
	nh, nk, nr, hops, kops := 80, 128, 96, 500, 40
	if a.Thorough() {
		nh, nk, nr, hops, kops = 2500, 6000, 3000, 1200, 80
	}
	if v := os.Getenv("C18_JOBS"); v != "" { // experiments: "histories,sequences,race rounds"
		fmt.Sscanf(v, "%d,%d,%d", &nh, &nk, &nr)
	}
	if strings.Contains(a.Extra, "search") && !a.Thorough() {
		nh, nk, nr = nh*3, nk*2, nr*3
	}
	var jobs []job
	jobs = append(jobs, job{Part: "fs", Seed: a.Seed}, job{Part: "directed", Seed: a.Seed}, job{Part: "fsk", Seed: a.Seed})
	for i := 0; i < nh; i++ {
		jobs = append(jobs, job{Part: "hist", Index: i, Sit: i % numSits, Nops: 80 + (i*37)%hops, Seed: a.Seed})
	}
	for i := 0; i < nk; i++ {
		jobs = append(jobs, job{Part: "kseq", Index: i, Nops: kops, Seed: a.Seed})
	}
	for i := 0; i < nr; i++ {
		jobs = append(jobs, job{Part: "race", Index: i, Seed: a.Seed})
	}
	nst := 1500
	if a.Thorough() {
		nst = 60000
	}
	// the storage-contract sequences run in a phase of their own, after the DB-level jobs: those observe background
	// work within time windows and must not see another load than before
	var storJobs []job
	for i := 0; i < nst; i++ {
		storJobs = append(storJobs, job{Part: "stor", Index: i, Seed: a.Seed})
	}
	// interleave the kinds so that the slow ones do not pile up at the end
	sort.SliceStable(jobs, func(x, y int) bool { return jobs[x].Index < jobs[y].Index })
	ch := make(chan job)
	var wg sync.WaitGroup
	for w := 0; w < 16; w++ {
		wg.Add(1)
		go func() {
			defer wg.Done()
			for j := range ch {
				runJob(c, j, known, base)
			}
		}()
	}
	t0 := time.Now()
	for _, j := range jobs {
		ch <- j
	}
	close(ch)
	wg.Wait()
	res.Extra["harness_jobs_wall_s"] = time.Since(t0).Seconds()
	t1 := time.Now()
	ch2 := make(chan job)
	for w := 0; w < 16; w++ {
		wg.Add(1)
		go func() {
			defer wg.Done()
			for j := range ch2 {
				runJob(c, j, known, base)
			}
		}()
	}
	for _, j := range storJobs {
		ch2 <- j
	}
	close(ch2)
	wg.Wait()
	res.Extra["storage_contract_jobs_wall_s"] = time.Since(t1).Seconds()
	// the API totality sweep: its own phase (it runs its cases in child processes, in parallel)
	t2 := time.Now()
	if os.Getenv("C18_NO_API") == "" {
		runJob(c, job{Part: "api", Index: -1, Seed: a.Seed}, known, base)
	}
	res.Extra["api_sweep_wall_s"] = time.Since(t2).Seconds()
	res.Extra["api_outcome_matrix (package -> outcome class -> cases)"] = c.apiMatrix
	res.Extra["api_documented_misuse_observed (entry | argument class | outcome | detail)"] = c.apiMisuse
	res.Extra["unreleased_iterator_after_close_observations (documented unsafe, not part of the verdict)"] = c.logs
	res.Extra["file_storage_notes"] = c.notes
	res.Extra["race_call_kinds_dropped_after_a_known_hang (unfixed tree only)"] = map[string]bool{
		"txn,bigwrite (opentransaction-leaks-writelock-on-close)":           atomic.LoadInt32(&f6Seen) != 0,
		"setreadonly (setreadonly-leaks-writelock-on-close)":                atomic.LoadInt32(&f7Seen) != 0,
		"OpenFilesCacheCapacity 1,2 (cache-close-deadlock-recursive-rlock)": atomic.LoadInt32(&f10Seen) != 0,
	}

	// ---- (K) cases
	items := make([]string, len(methods))
	for i, m := range methods {
		items[i] = fmt.Sprintf("%q", m)
	}
	cases := []string{"KEnum [" + strings.Join(items, "; ") + "]"}
	kj := []interface{}{map[string]interface{}{"enum": methods}}
	sort.Slice(c.kcases, func(x, y int) bool { return c.kcases[x].index < c.kcases[y].index })
	kcap := 400
	if a.Thorough() {
		kcap = 1600 // keeps every case file below ~300 KB
	}
	if len(c.kcases) > kcap {
		res.Extra["k_sequences_executed_but_not_replayed_in_coq"] = len(c.kcases) - kcap
		c.kcases = c.kcases[:kcap]
	}
	for _, kc := range append(c.kcases, c.fcases...) {
		cases = append(cases, kc.coq)
		kj = append(kj, kc.js)
	}
	res.Extra["k_file_storage_cases"] = len(c.fcases)
	b, _ := json.Marshal(kj)
	os.WriteFile(filepath.Join(a.Out, "kcases_C18.json"), b, 0o644)
	res.WriteCases("From GL Require Import Store.Lifecycle Store.FileStorage Corr.C18Run.\nFrom Coq Require Import ZArith.", "c18case", "mismatches", cases, 16)
	_ = leveldb.ErrClosed
}
