package main

import (
	"bytes"
	stderrors "errors"
	"fmt"
	"io"
	"reflect"
	"syscall"

	"github.com/syndtr/goleveldb/leveldb/cache"
	"github.com/syndtr/goleveldb/leveldb/comparer"
	"github.com/syndtr/goleveldb/leveldb/errors"
	"github.com/syndtr/goleveldb/leveldb/filter"
	"github.com/syndtr/goleveldb/leveldb/opt"
	"github.com/syndtr/goleveldb/leveldb/storage"
	"github.com/syndtr/goleveldb/leveldb/util"
	"verifharness/lib/vlib"
)

type negReader struct{}

func (negReader) Read(p []byte) (int, error) { return -1, nil }

type failWriter struct{ n int }

func (f *failWriter) Write(p []byte) (int, error) {
	if f.n <= 0 {
		return 0, stderrors.New("harness: the writer fails")
	}
	f.n--
	return len(p), nil
}

type shortWriter struct{}

func (shortWriter) Write(p []byte) (int, error) { return len(p) / 2, nil }

type overWriter struct{}

func (overWriter) Write(p []byte) (int, error) { return len(p) + 1, nil }

func bufferStates() []struct {
	name string
	mk   func() *util.Buffer
} {
	return []struct {
		name string
		mk   func() *util.Buffer
	}{
		{"zero", func() *util.Buffer { return new(util.Buffer) }},
		{"NewBuffer(nil)", func() *util.Buffer { return util.NewBuffer(nil) }},
		{"NewBuffer(10 bytes)", func() *util.Buffer { return util.NewBuffer([]byte("0123456789")) }},
		{"half read", func() *util.Buffer { b := util.NewBuffer([]byte("0123456789")); b.Next(5); return b }},
		{"drained", func() *util.Buffer { b := util.NewBuffer([]byte("0123456789")); b.Next(10); return b }},
	}
}

func casesUtil(l *apiList) {
	for _, k := range append(keyLattice(), namedBytes{"all ff", []byte{0xff, 0xff, 0xff}}, namedBytes{"ends in ff", []byte{'a', 0xff}}) {
		k := k
		l.add("util.BytesPrefix", "key "+classOfKey(k.name), k.name, func(x *apiCtx) error {
			r := util.BytesPrefix(k.b)
			if r == nil {
				panic("harness: nil range")
			}
			if r.Limit != nil && bytes.Compare(r.Start, r.Limit) >= 0 {
				panic("harness: BytesPrefix returns an inverted range")
			}
			return nil
		})
		l.add("util.Hash", "key "+classOfKey(k.name), k.name, func(x *apiCtx) error {
			for _, s := range []uint32{0, 1, 0xbc9f1d34, 0xffffffff} {
				_ = util.Hash(k.b, s)
			}
			return nil
		})
		l.add("util.NewCRC", "key "+classOfKey(k.name), k.name, func(x *apiCtx) error {
			c := util.NewCRC(k.b)
			_ = c.Update(k.b).Update(nil).Value()
			_ = util.CRC(0xffffffff).Value()
			return nil
		})
	}
	l.add("util.CRC.Update", "-", "zero CRC, nil / empty / data", func(x *apiCtx) error {
		var c util.CRC
		_ = c.Update(nil).Update([]byte{}).Update([]byte("abc"))
		return nil
	})
	l.add("util.CRC.Value", "-", "0, max", func(x *apiCtx) error {
		_ = util.CRC(0).Value()
		_ = util.CRC(0xffffffff).Value()
		return nil
	})
	// Buffer
	for _, st := range bufferStates() {
		st := st
		for _, n := range intLattice(5, 10, 11, 64, 65, 1<<20, 1<<40) {
			n := n
			cls := intClass(n.n)
			l.add("util.Buffer.Truncate", truncClass(st.name, n.n), st.name+" n="+n.name, func(x *apiCtx) error { st.mk().Truncate(n.n); return nil })
			l.withModel(bufModel(st.name, 0, n.n))
			l.add("util.Buffer.Next", cls, st.name+" n="+n.name, func(x *apiCtx) error {
				b := st.mk()
				before := b.Len()
				got := b.Next(n.n)
				if len(got) > before || b.Len() != before-len(got) {
					panic("harness: Next returned more than there was")
				}
				return nil
			})
			l.withModel(bufModel(st.name, 3, n.n))
			l.add("util.Buffer.Alloc", cls, st.name+" n="+n.name, func(x *apiCtx) error {
				b := st.mk()
				got := b.Alloc(n.n)
				if len(got) != n.n {
					panic("harness: Alloc length")
				}
				return nil
			})
			l.withModel(bufModel(st.name, 1, n.n))
			l.add("util.Buffer.Grow", cls, st.name+" n="+n.name, func(x *apiCtx) error {
				b := st.mk()
				before := b.Len()
				b.Grow(n.n)
				if b.Len() != before {
					panic("harness: Grow changed the length")
				}
				return nil
			})
			l.withModel(bufModel(st.name, 2, n.n))
		}
		l.add("util.Buffer.Bytes", "-", st.name, func(x *apiCtx) error {
			b := st.mk()
			if len(b.Bytes()) != b.Len() || b.String() != string(b.Bytes()) {
				panic("harness: Bytes/Len/String disagree")
			}
			return nil
		})
		l.add("util.Buffer.Len", "-", st.name, func(x *apiCtx) error { _ = st.mk().Len(); return nil })
		l.add("util.Buffer.String", "-", st.name, func(x *apiCtx) error { _ = st.mk().String(); return nil })
		l.add("util.Buffer.Reset", "-", st.name+", twice", func(x *apiCtx) error {
			b := st.mk()
			b.Reset()
			b.Reset()
			if b.Len() != 0 {
				panic("harness: Reset")
			}
			return nil
		})
		for _, p := range valLattice() {
			p := p
			l.add("util.Buffer.Write", "bytes", st.name+" p="+p.name, func(x *apiCtx) error {
				b := st.mk()
				before := b.Len()
				n, err := b.Write(p.b)
				if n != len(p.b) || b.Len() != before+n {
					panic("harness: Write count")
				}
				return err
			})
			l.add("util.Buffer.Read", "bytes", st.name+" len(p)="+p.name, func(x *apiCtx) error {
				b := st.mk()
				_, err := b.Read(make([]byte, len(p.b)))
				if err == io.EOF {
					err = nil
				}
				_, _ = b.Read(nil)
				return err
			})
		}
		l.add("util.Buffer.WriteByte", "-", st.name, func(x *apiCtx) error { return st.mk().WriteByte(0) })
		l.add("util.Buffer.ReadByte", "-", st.name+", until EOF and once more", func(x *apiCtx) error {
			b := st.mk()
			for i := 0; i < 12; i++ {
				b.ReadByte()
			}
			return nil
		})
		for _, d := range []byte{0, '5', 0xff} {
			d := d
			l.add("util.Buffer.ReadBytes", "-", fmt.Sprintf("%s delim=%#x", st.name, d), func(x *apiCtx) error {
				b := st.mk()
				b.ReadBytes(d)
				b.ReadBytes(d)
				return nil
			})
		}
		l.add("util.Buffer.ReadFrom", "reader", st.name+" empty / data / failing reader", func(x *apiCtx) error {
			b := st.mk()
			b.ReadFrom(bytes.NewReader(nil))
			b.ReadFrom(bytes.NewReader(bytes.Repeat([]byte{'r'}, 2000)))
			_, err := b.ReadFrom(io.MultiReader(bytes.NewReader([]byte("ab")), errReader{}))
			if err == nil {
				panic("harness: ReadFrom swallowed the reader's error")
			}
			return nil
		})
		l.add("util.Buffer.ReadFrom", "reader breaks io.Reader", st.name+" reader returns a negative count", func(x *apiCtx) error {
			_, err := st.mk().ReadFrom(negReader{})
			return err
		})
		l.add("util.Buffer.ReadFrom", "required argument nil", st.name+" nil reader", func(x *apiCtx) error {
			_, err := st.mk().ReadFrom(nil)
			return err
		})
		l.add("util.Buffer.WriteTo", "writer", st.name+" good / failing / short writer", func(x *apiCtx) error {
			st.mk().WriteTo(io.Discard)
			st.mk().WriteTo(&failWriter{})
			st.mk().WriteTo(shortWriter{})
			return nil
		})
		l.add("util.Buffer.WriteTo", "writer breaks io.Writer", st.name+" writer claims more than it was given", func(x *apiCtx) error {
			_, err := st.mk().WriteTo(overWriter{})
			return err
		})
	}
	l.add("util.Buffer.String", "-", "nil *Buffer", func(x *apiCtx) error {
		if (*util.Buffer)(nil).String() != "<nil>" {
			panic("harness: String of a nil buffer")
		}
		return nil
	})
	l.add("util.NewBuffer", "-", "nil, empty, data, zero length with capacity", func(x *apiCtx) error {
		util.NewBuffer(nil).WriteByte(1)
		util.NewBuffer([]byte{}).WriteByte(1)
		util.NewBuffer(make([]byte, 0, 100)).Write([]byte("abc"))
		return nil
	})
	// BufferPool
	for _, n := range intLattice(2, 3, 4, 1024, 1<<31, maxInt/2+1, maxInt/4+1) {
		n := n
		l.add("util.NewBufferPool", baselineClass(n.n), "baseline="+n.name, func(x *apiCtx) error {
			p := util.NewBufferPool(n.n)
			_ = p.String()
			if n.n < 1<<20 {
				for _, m := range []int{0, 1, n.n / 4, n.n/4 + 1, n.n, 4 * n.n, 4*n.n + 1} {
					b := p.Get(m)
					if len(b) != m {
						panic("harness: Get length")
					}
					p.Put(b)
				}
			} else {
				p.Put(nil)
				p.Put(make([]byte, 10))
			}
			return nil
		})
	}
	for _, pool := range []struct {
		name string
		p    *util.BufferPool
	}{{"nil pool", nil}, {"pool(1024)", util.NewBufferPool(1024)}, {"pool(1)", util.NewBufferPool(1)}} {
		pool := pool
		for _, n := range intLattice(255, 256, 257, 4096, 4097, 1<<20, 1<<40) {
			n := n
			l.add("util.BufferPool.Get", intClass(n.n), pool.name+" n="+n.name, func(x *apiCtx) error {
				b := pool.p.Get(n.n)
				if len(b) != n.n {
					panic("harness: Get length")
				}
				pool.p.Put(b)
				b = pool.p.Get(n.n)
				if len(b) != n.n {
					panic("harness: Get length (second)")
				}
				return nil
			})
		}
		l.add("util.BufferPool.Put", "-", pool.name+" nil, empty, foreign slices", func(x *apiCtx) error {
			pool.p.Put(nil)
			pool.p.Put([]byte{})
			pool.p.Put(make([]byte, 3, 7))
			pool.p.Put(make([]byte, 1<<20))
			for i := 0; i < 8; i++ {
				_ = pool.p.Get(i)
			}
			return nil
		})
		l.add("util.BufferPool.String", "-", pool.name, func(x *apiCtx) error { _ = pool.p.String(); return nil })
	}
	// releasers
	l.add("util.BasicReleaser.Release", "-", "zero, twice; with a releaser, twice", func(x *apiCtx) error {
		var r util.BasicReleaser
		r.Release()
		r.Release()
		var r2 util.BasicReleaser
		c := &noopReleaser{}
		r2.SetReleaser(c)
		r2.Release()
		r2.Release()
		if c.n != 1 || !r2.Released() {
			panic("harness: the releaser must be called once")
		}
		return nil
	})
	l.add("util.BasicReleaser.Released", "-", "zero", func(x *apiCtx) error {
		var r util.BasicReleaser
		if r.Released() {
			panic("harness: released")
		}
		return nil
	})
	l.add("util.BasicReleaser.SetReleaser", "-", "nil on zero; set; clear with nil; set again", func(x *apiCtx) error {
		var r util.BasicReleaser
		r.SetReleaser(nil)
		r.SetReleaser(&noopReleaser{})
		r.SetReleaser(nil)
		r.SetReleaser(&noopReleaser{})
		return nil
	})
	l.add("util.BasicReleaser.SetReleaser", "releaser already present", "second non-nil releaser", func(x *apiCtx) error {
		var r util.BasicReleaser
		r.SetReleaser(&noopReleaser{})
		r.SetReleaser(&noopReleaser{})
		return nil
	})
	l.add("util.BasicReleaser.SetReleaser", "already released", "after Release", func(x *apiCtx) error {
		var r util.BasicReleaser
		r.Release()
		r.SetReleaser(nil)
		return nil
	})
	l.add("util.NoopReleaser.Release", "-", "", func(x *apiCtx) error { util.NoopReleaser{}.Release(); return nil })
	l.add("util.Releaser.Release", "-", "through the interface", func(x *apiCtx) error {
		var r util.Releaser = &util.BasicReleaser{}
		r.Release()
		r = util.NoopReleaser{}
		r.Release()
		return nil
	})
	l.add("util.ReleaseSetter.SetReleaser", "-", "through the interface", func(x *apiCtx) error {
		var r util.ReleaseSetter = &util.BasicReleaser{}
		r.SetReleaser(util.NoopReleaser{})
		return nil
	})
}

type errReader struct{}

func (errReader) Read(p []byte) (int, error) { return 0, stderrors.New("harness: the reader fails") }

// bufModel: the KApiBuf case of one call on one of bufferStates
func bufModel(state string, op, n int) func(out apiOut) string {
	isnil, ln, off := "false", 10, 0
	switch state {
	case "zero", "NewBuffer(nil)":
		isnil, ln = "true", 0
	case "half read":
		off = 5
	case "drained":
		off = 10
	}
	return func(out apiOut) string {
		return fmt.Sprintf("KApiBuf %s %d %d %d (%d)%%Z %s", isnil, ln, off, op, n, vlib.CoqBool(out == aPanic))
	}
}

func truncClass(state string, n int) string {
	have := 0
	switch state {
	case "NewBuffer(10 bytes)":
		have = 10
	case "half read":
		have = 5
	}
	if n < 0 || n > have {
		return "n out of range"
	}
	return "n in range"
}

func baselineClass(n int) string {
	switch {
	case n <= 0:
		return "n<=0"
	case n >= 1<<31:
		return "n huge"
	}
	return "n>0"
}

// ---- comparer, filter, errors, opt

func casesSmall(l *apiList) {
	keys := append(keyLattice(), namedBytes{"all ff", []byte{0xff, 0xff}}, namedBytes{"k0008", apiKey(8)}, namedBytes{"k0009", apiKey(9)})
	cmp := comparer.DefaultComparer
	for _, a := range keys {
		for _, b := range keys {
			a, b := a, b
			cls := "keys"
			switch c := bytes.Compare(a.b, b.b); {
			case c == 0:
				cls = "keys equal"
			case c > 0:
				cls = "keys reversed"
			}
			l.add("comparer.Comparer.Separator", cls, a.name+" / "+b.name, func(x *apiCtx) error {
				for _, dst := range [][]byte{nil, {}, []byte("dst")} {
					s := cmp.Separator(dst, a.b, b.b)
					if s != nil && cmp.Compare(a.b, b.b) < 0 {
						s = s[len(dst):]
						if !(cmp.Compare(a.b, s) <= 0 && cmp.Compare(s, b.b) < 0) {
							panic("harness: Separator outside [a, b)")
						}
					}
				}
				return nil
			})
			l.add("comparer.BasicComparer.Compare", cls, a.name+" / "+b.name, func(x *apiCtx) error {
				if cmp.Compare(a.b, b.b) != -cmp.Compare(b.b, a.b) {
					panic("harness: Compare is not antisymmetric")
				}
				return nil
			})
		}
		a := a
		l.add("comparer.Comparer.Successor", "key "+classOfKey(a.name), a.name, func(x *apiCtx) error {
			for _, dst := range [][]byte{nil, {}, []byte("dst")} {
				s := cmp.Successor(dst, a.b)
				if s != nil && cmp.Compare(s[len(dst):], a.b) < 0 {
					panic("harness: Successor below its argument")
				}
			}
			return nil
		})
	}
	l.add("comparer.Comparer.Name", "-", "", func(x *apiCtx) error { _ = cmp.Name(); return nil })

	// filter
	for _, n := range intLattice(10, 64, -1000, 1<<31, 1<<32-7, 1<<32, 1<<33+7, 1<<62) {
		n := n
		cls := intClass(n.n)
		l.add("filter.NewBloomFilter", cls, "bitsPerKey="+n.name, func(x *apiCtx) error {
			f := filter.NewBloomFilter(n.n)
			_ = f.Name()
			if f.NewGenerator() == nil {
				panic("harness: nil generator")
			}
			if n.n < 0 {
				// NewBloomFilter: 'A negative bitsPerKey reads as 0'
				var a, b util.Buffer
				for i, fl := range []filter.Filter{f, filter.NewBloomFilter(0)} {
					g := fl.NewGenerator()
					for j := 0; j < 70; j++ {
						g.Add(apiKey(j))
					}
					g.Generate([]*util.Buffer{&a, &b}[i])
				}
				if !bytes.Equal(a.Bytes(), b.Bytes()) {
					panic("harness: a negative bitsPerKey does not read as 0")
				}
			}
			return nil
		})
		for _, nk := range []int{0, 1, 3, 100} {
			nk := nk
			l.add("filter.FilterGenerator.Generate", cls, fmt.Sprintf("bitsPerKey=%s after %d keys", n.name, nk), func(x *apiCtx) error {
				f := filter.NewBloomFilter(n.n)
				g := f.NewGenerator()
				for i := 0; i < nk; i++ {
					g.Add(apiKey(i))
				}
				var buf util.Buffer
				g.Generate(&buf)
				for i := 0; i < nk; i++ {
					if !f.Contains(buf.Bytes(), apiKey(i)) {
						panic("harness: the filter hides a key that was added")
					}
				}
				// a second Generate: the generator was reset (a fresh buffer: the first may hold 512 MiB)
				var buf2 util.Buffer
				g.Generate(&buf2)
				if buf2.Len() != 9 {
					panic("harness: Generate after Generate does not write the minimum filter")
				}
				return nil
			})
		}
	}
	for _, k := range keyLattice() {
		k := k
		l.add("filter.FilterGenerator.Add", "key "+classOfKey(k.name), k.name, func(x *apiCtx) error {
			f := filter.NewBloomFilter(10)
			g := f.NewGenerator()
			g.Add(k.b)
			var buf util.Buffer
			g.Generate(&buf)
			if !f.Contains(buf.Bytes(), k.b) {
				panic("harness: the filter hides a key that was added")
			}
			return nil
		})
	}
	l.add("filter.FilterGenerator.Generate", "required argument nil", "nil Buffer", func(x *apiCtx) error {
		g := filter.NewBloomFilter(10).NewGenerator()
		g.Add([]byte("k"))
		g.Generate(nil)
		return nil
	})
	filters := []namedBytes{
		{"nil", nil}, {"empty", []byte{}}, {"1 byte", []byte{6}}, {"2 bytes k=0", []byte{0xff, 0}}, {"2 bytes k=1", []byte{0, 1}}, {"2 bytes k=30", []byte{0xff, 30}},
		{"2 bytes k=31", []byte{0, 31}}, {"2 bytes k=255", []byte{0, 255}}, {"9 bytes k=6", []byte{1, 2, 3, 4, 5, 6, 7, 8, 6}}, {"large", bytes.Repeat([]byte{0x55}, 1<<16)},
	}
	for _, fb := range filters {
		fb := fb
		l.add("filter.Filter.Contains", "filter bytes arbitrary", fb.name, func(x *apiCtx) error {
			for _, bits := range []int{-1, 0, 10, maxInt} {
				f := filter.NewBloomFilter(bits)
				for _, k := range keyLattice() {
					_ = f.Contains(fb.b, k.b)
				}
			}
			return nil
		})
	}
	// filters of 2^29 bytes and more (the uint32 bit count of the code before the repair wraps: 2^29+1 bytes divide by
	// zero): anonymous mappings, not Go heap (the allocation meter measures the callee), zero pages except where set
	for _, ln := range []int{1 << 29, 1<<29 + 1, 1<<29 + 2, 1<<30 + 3} {
		ln := ln
		l.add("filter.Filter.Contains", "filter bytes arbitrary", fmt.Sprintf("%d bytes (2^29%+d), k=1 and k=30", ln, ln-1<<29), func(x *apiCtx) error {
			fb, err := syscall.Mmap(-1, 0, ln, syscall.PROT_READ|syscall.PROT_WRITE, syscall.MAP_ANON|syscall.MAP_PRIVATE)
			if err != nil {
				panic("harness: mmap: " + err.Error())
			}
			defer syscall.Munmap(fb)
			f := filter.NewBloomFilter(10)
			for _, k := range []byte{1, 30} {
				fb[ln-1] = k
				key := apiKey(int(k))
				// the positions a 64-bit reader of the format probes
				h := util.Hash(key, 0xbc9f1d34)
				delta := h>>17 | h<<15
				for j := byte(0); j < k; j++ {
					p := uint64(h) % (uint64(ln-1) * 8)
					fb[p/8] |= 1 << (p % 8)
					h += delta
				}
				if !f.Contains(fb, key) {
					panic("harness: Contains answers false although every probed bit is set")
				}
				for _, kk := range keyLattice() {
					_ = f.Contains(fb, kk.b)
				}
			}
			return nil
		})
	}
	l.add("filter.Filter.Name", "-", "", func(x *apiCtx) error { _ = filter.NewBloomFilter(0).Name(); return nil })
	l.add("filter.Filter.NewGenerator", "-", "two generators of one filter are independent", func(x *apiCtx) error {
		f := filter.NewBloomFilter(10)
		g1, g2 := f.NewGenerator(), f.NewGenerator()
		g1.Add([]byte("a"))
		var b util.Buffer
		g2.Generate(&b)
		return nil
	})
	l.add("filter.Buffer.Alloc", "-", "util.Buffer as filter.Buffer", func(x *apiCtx) error {
		var b filter.Buffer = new(util.Buffer)
		b.Alloc(0)
		b.Alloc(10)
		return nil
	})
	l.add("filter.Buffer.Write", "-", "util.Buffer as filter.Buffer", func(x *apiCtx) error {
		var b filter.Buffer = new(util.Buffer)
		_, err := b.Write(nil)
		return err
	})
	l.add("filter.Buffer.WriteByte", "-", "util.Buffer as filter.Buffer", func(x *apiCtx) error {
		var b filter.Buffer = new(util.Buffer)
		return b.WriteByte(0)
	})

	// errors
	fds := []storage.FileDesc{{}, {Type: storage.TypeTable, Num: 5}, {Type: 0, Num: -1}, {Type: storage.FileType(1 << 30), Num: 1<<63 - 1}}
	errs := []struct {
		name string
		e    error
	}{
		{"nil", nil}, {"plain", stderrors.New("x")}, {"ErrNotFound", errors.ErrNotFound}, {"corrupted", errors.NewErrCorrupted(storage.FileDesc{}, stderrors.New("x"))},
		{"storage corrupted", &storage.ErrCorrupted{Err: stderrors.New("x")}}, {"wrapped corrupted", fmt.Errorf("w: %w", errors.NewErrCorrupted(storage.FileDesc{}, stderrors.New("x")))},
		{"missing files", &errors.ErrMissingFiles{}},
	}
	for _, e := range errs {
		e := e
		l.add("errors.IsCorrupted", "error "+apiErrClass(e.name), e.name, func(x *apiCtx) error { _ = errors.IsCorrupted(e.e); return nil })
		for _, fd := range fds {
			fd := fd
			l.add("errors.SetFd", "error "+apiErrClass(e.name), fmt.Sprintf("%s fd=%v", e.name, fd), func(x *apiCtx) error {
				r := errors.SetFd(e.e, fd)
				if (r == nil) != (e.e == nil) {
					panic("harness: SetFd changed nil-ness")
				}
				if r != nil {
					_ = r.Error()
				}
				return nil
			})
		}
	}
	l.add("errors.SetFd", "typed nil pointer", "(*ErrCorrupted)(nil)", func(x *apiCtx) error {
		_ = errors.SetFd((*errors.ErrCorrupted)(nil), storage.FileDesc{})
		return nil
	})
	l.add("errors.IsCorrupted", "typed nil pointer", "(*ErrCorrupted)(nil)", func(x *apiCtx) error {
		_ = errors.IsCorrupted((*errors.ErrCorrupted)(nil))
		return nil
	})
	for _, fd := range fds {
		fd := fd
		l.add("errors.NewErrCorrupted", "error plain", fmt.Sprintf("fd=%v", fd), func(x *apiCtx) error {
			e := errors.NewErrCorrupted(fd, stderrors.New("reason"))
			_ = e.Error()
			if !errors.IsCorrupted(e) {
				panic("harness: IsCorrupted(NewErrCorrupted) is false")
			}
			return nil
		})
		l.add("errors.ErrCorrupted.Error", "wrapped error nil", fmt.Sprintf("NewErrCorrupted(%v, nil).Error()", fd), func(x *apiCtx) error {
			_ = errors.NewErrCorrupted(fd, nil).Error()
			return nil
		})
	}
	l.add("errors.ErrCorrupted.Error", "error plain", "zero fd", func(x *apiCtx) error {
		_ = (&errors.ErrCorrupted{Err: stderrors.New("x")}).Error()
		return nil
	})
	l.add("errors.ErrMissingFiles.Error", "-", "zero, nil receiver", func(x *apiCtx) error {
		_ = (&errors.ErrMissingFiles{}).Error()
		_ = (*errors.ErrMissingFiles)(nil).Error()
		return nil
	})
	l.add("errors.New", "-", "empty and long text", func(x *apiCtx) error {
		_ = errors.New("").Error()
		_ = errors.New(string(bytes.Repeat([]byte{'e'}, 1<<16))).Error()
		return nil
	})

	// opt: every getter by reflection on nil, zero and extreme Options / ReadOptions / WriteOptions (the relations among
	// the getters are C09O's subject; here: they return)
	optVals := []struct {
		name string
		o    *opt.Options
	}{{"nil", nil}, {"zero", &opt.Options{}}, {"every number MinInt", extremeOptions(minInt)}, {"every number MaxInt", extremeOptions(maxInt)}, {"every number -1", extremeOptions(-1)}}
	ot := reflect.TypeOf((*opt.Options)(nil))
	for i := 0; i < ot.NumMethod(); i++ {
		m := ot.Method(i)
		for _, ov := range optVals {
			ov := ov
			l.add("opt.Options."+m.Name, "options "+ov.name, "", func(x *apiCtx) error {
				callGetter(reflect.ValueOf(ov.o), m)
				return nil
			})
		}
	}
	rt := reflect.TypeOf((*opt.ReadOptions)(nil))
	for i := 0; i < rt.NumMethod(); i++ {
		m := rt.Method(i)
		l.add("opt.ReadOptions."+m.Name, "options nil", "nil, zero, all bits", func(x *apiCtx) error {
			callGetter(reflect.ValueOf((*opt.ReadOptions)(nil)), m)
			callGetter(reflect.ValueOf(&opt.ReadOptions{}), m)
			callGetter(reflect.ValueOf(&opt.ReadOptions{DontFillCache: true, Strict: ^opt.Strict(0)}), m)
			return nil
		})
	}
	wt := reflect.TypeOf((*opt.WriteOptions)(nil))
	for i := 0; i < wt.NumMethod(); i++ {
		m := wt.Method(i)
		l.add("opt.WriteOptions."+m.Name, "options nil", "nil, zero, all set", func(x *apiCtx) error {
			callGetter(reflect.ValueOf((*opt.WriteOptions)(nil)), m)
			callGetter(reflect.ValueOf(&opt.WriteOptions{}), m)
			callGetter(reflect.ValueOf(&opt.WriteOptions{NoWriteMerge: true, Sync: true}), m)
			return nil
		})
	}
	l.add("opt.Compression.String", "-", "every defined value, negative, large", func(x *apiCtx) error {
		for _, c := range []opt.Compression{0, 1, 2, 3, 4, 100, ^opt.Compression(0)} {
			_ = c.String()
		}
		return nil
	})
	l.add("opt.GetStrict", "-", "nil/zero options and read options x every flag", func(x *apiCtx) error {
		for _, o := range []*opt.Options{nil, {}, {Strict: opt.StrictAll}} {
			for _, ro := range []*opt.ReadOptions{nil, {}, {Strict: opt.StrictAll}} {
				for _, s := range []opt.Strict{0, 1, opt.StrictAll, opt.StrictOverride, ^opt.Strict(0)} {
					_ = opt.GetStrict(o, ro, s)
				}
			}
		}
		return nil
	})
	for _, n := range intLattice(1<<20, 1<<40) {
		n := n
		l.add("opt.NewLRU", intClass(n.n), "capacity="+n.name, func(x *apiCtx) error {
			_ = opt.NewLRU(n.n).New(0).Capacity()
			return nil
		})
		l.add("opt.CacherFunc", intClass(n.n), "CacherFunc(cache.NewLRU) / CacherFunc(nil), New capacity="+n.name, func(x *apiCtx) error {
			if c := opt.CacherFunc(cache.NewLRU).New(n.n); c != nil {
				_ = c.Capacity()
			}
			if opt.CacherFunc(nil).New(n.n) != nil {
				panic("harness: CacherFunc(nil) returns a cache")
			}
			return nil
		})
		l.add("opt.Cacher.New", intClass(n.n), "LRUCacher / NoCacher / passthrough, capacity="+n.name, func(x *apiCtx) error {
			if c := opt.LRUCacher.New(n.n); c != nil {
				_ = c.Capacity()
			}
			if opt.NoCacher.New(n.n) != nil {
				panic("harness: NoCacher returns a cache")
			}
			inner := cache.NewLRU(8)
			if opt.PassthroughCacher(inner).New(n.n) != inner {
				panic("harness: PassthroughCacher returns another cache")
			}
			return nil
		})
	}
	l.add("opt.PassthroughCacher", "-", "nil cacher", func(x *apiCtx) error {
		_ = opt.PassthroughCacher(nil).New(1)
		return nil
	})
}

func apiErrClass(name string) string {
	if name == "nil" {
		return "nil"
	}
	return "plain"
}

func extremeOptions(v int) *opt.Options {
	return &opt.Options{BlockCacheCapacity: v, BlockRestartInterval: v, BlockSize: v, CompactionExpandLimitFactor: v, CompactionGPOverlapsFactor: v,
		CompactionL0Trigger: v, CompactionSourceLimitFactor: v, CompactionTableSize: v, CompactionTableSizeMultiplier: float64(v),
		CompactionTableSizeMultiplierPerLevel: []float64{float64(v), 0, -1}, CompactionTotalSize: v, CompactionTotalSizeMultiplier: float64(v),
		CompactionTotalSizeMultiplierPerLevel: []float64{float64(v), 0, -1}, IteratorSamplingRate: v, OpenFilesCacheCapacity: v, WriteBuffer: v,
		WriteL0PauseTrigger: v, WriteL0SlowdownTrigger: v, FilterBaseLg: v, MaxManifestFileSize: int64(v), Compression: opt.Compression(uint(v)), Strict: opt.Strict(uint(v))}
}

// callGetter calls a getter with every interesting value of its (at most one) int / Strict parameter.
func callGetter(recv reflect.Value, m reflect.Method) {
	t := m.Type
	switch t.NumIn() {
	case 1:
		m.Func.Call([]reflect.Value{recv})
	case 2:
		for _, v := range []int{0, 1, 6, 7, 8, 12, 1000, maxInt, -1, minInt} {
			a := reflect.New(t.In(1)).Elem()
			switch a.Kind() {
			case reflect.Int, reflect.Int64:
				a.SetInt(int64(v))
			case reflect.Uint, reflect.Uint64, reflect.Uint32:
				a.SetUint(uint64(v))
			}
			m.Func.Call([]reflect.Value{recv, a})
		}
	default:
		panic("harness: getter " + m.Name + " has an unexpected signature")
	}
}
