package main

import (
	"bytes"
	"crypto/sha256"
	"errors"
	"fmt"
	"os"
	"path/filepath"
	"sort"
	"time"

	"github.com/syndtr/goleveldb/leveldb"
	"github.com/syndtr/goleveldb/leveldb/comparer"
	"github.com/syndtr/goleveldb/leveldb/opt"
	"github.com/syndtr/goleveldb/leveldb/storage"
	"verifharness/lib/dbh"
	"verifharness/lib/vlib"
)

// The ownership clause on the REAL file storage (storage.OpenFile: flock on LOCK + the in-process Lock()):
// a directory has one read-write owner at a time and is available again after Close; read-only owners may
// share it with each other but not with a writer; a read-only owner leaves the directory byte-for-byte alone.

type dirState map[string]string // name -> size/mtime/sha256

func snapshotDir(dir string) (dirState, error) {
	ents, err := os.ReadDir(dir)
	if err != nil {
		return nil, err
	}
	ds := dirState{}
	for _, e := range ents {
		fi, err := e.Info()
		if err != nil {
			return nil, err
		}
		b, err := os.ReadFile(filepath.Join(dir, e.Name()))
		if err != nil {
			return nil, err
		}
		ds[e.Name()] = fmt.Sprintf("%d/%d/%x", fi.Size(), fi.ModTime().UnixNano(), sha256.Sum256(b))
	}
	return ds, nil
}

func diffDir(a, b dirState) string {
	var names []string
	for n := range a {
		names = append(names, n)
	}
	for n := range b {
		if _, ok := a[n]; !ok {
			names = append(names, n)
		}
	}
	sort.Strings(names)
	for _, n := range names {
		x, okx := a[n]
		y, oky := b[n]
		switch {
		case !okx:
			return "file " + n + " was created"
		case !oky:
			return "file " + n + " was deleted or renamed"
		case x != y:
			return "file " + n + " was modified (size/mtime/sha256 " + x + " -> " + y + ")"
		}
	}
	return ""
}

func fileStorageChecks(r *vlib.RNG, base string) (fails []string, stats map[string]int, notes []string) {
	stats = map[string]int{}
	fail := func(f string, a ...interface{}) { fails = append(fails, "file storage: "+fmt.Sprintf(f, a...)) }
	root, err := os.MkdirTemp(base, "c18fs")
	if err != nil {
		fail("cannot create a temporary directory under %q: %v", base, err)
		return
	}
	defer os.RemoveAll(root)
	dir := filepath.Join(root, "db")

	// ---- 1. the storage itself
	s1, err := storage.OpenFile(dir, false)
	if err != nil {
		fail("OpenFile: %v", err)
		return
	}
	if s2, err := storage.OpenFile(dir, false); err == nil {
		fail("second read-write OpenFile of a directory whose first owner is still open succeeded")
		s2.Close()
	} else {
		notes = append(notes, fmt.Sprintf("second read-write storage.OpenFile while open: %v", err))
	}
	if s2, err := storage.OpenFile(dir, true); err == nil {
		fail("read-only OpenFile of a directory owned read-write succeeded")
		s2.Close()
	}
	l1, err := s1.Lock()
	if err != nil {
		fail("Lock: %v", err)
		return
	}
	if _, err := s1.Lock(); err != storage.ErrLocked {
		fail("second Lock on a locked storage: %v, expected ErrLocked", err)
	}
	l1.Unlock()
	l2, err := s1.Lock()
	if err != nil {
		fail("Lock after Unlock: %v", err)
	} else {
		l2.Unlock()
	}
	if err := s1.Close(); err != nil {
		fail("Close: %v", err)
	}
	if err := s1.Close(); err != storage.ErrClosed {
		fail("second Close of the storage: %v, expected ErrClosed", err)
	}
	if _, err := s1.Lock(); err != storage.ErrClosed {
		fail("Lock on a closed storage: %v, expected ErrClosed", err)
	}
	s3, err := storage.OpenFile(dir, false)
	if err != nil {
		fail("OpenFile after Close of the previous owner: %v", err)
		return
	}
	s3.Close()
	stats["fs_storage_checks"]++

	// ---- 2. leveldb.OpenFile: one owner, available after Close
	cfg := dbh.DefaultishCfg()
	cfg.WriteBuffer = 2048
	o := cfg.Options()
	db, err := leveldb.OpenFile(dir, o)
	if err != nil {
		fail("leveldb.OpenFile: %v", err)
		return
	}
	oracle := dbh.Oracle{}
	var pool []dbh.HexBytes
	for i := 0; i < 60; i++ {
		pool = append(pool, []byte(fmt.Sprintf("key-%03d", i)))
	}
	put := func(d *leveldb.DB, n int, tag string) {
		for i := 0; i < n; i++ {
			k := pool[r.Intn(len(pool))]
			v := bytes.Repeat([]byte(tag), r.Range(1, 40))
			if err := d.Put(k, v, nil); err != nil {
				fail("Put: %v", err)
				return
			}
			oracle[string(k)] = v
		}
	}
	put(db, 400, "a")
	if d2, err := leveldb.OpenFile(dir, o); err == nil {
		fail("second leveldb.OpenFile while the first DB is open succeeded")
		d2.Close()
	}
	ro := cfg.Options()
	ro.ReadOnly = true
	if d2, err := leveldb.OpenFile(dir, ro); err == nil {
		fail("read-only leveldb.OpenFile while a read-write DB is open succeeded")
		d2.Close()
	}
	if err := db.Close(); err != nil {
		fail("Close: %v", err)
	}
	if err := db.Close(); err != leveldb.ErrClosed {
		fail("second Close: %v, expected ErrClosed", err)
	}
	db, err = leveldb.OpenFile(dir, o)
	if err != nil {
		fail("leveldb.OpenFile after Close: %v", err)
		return
	}
	if d := checkData(db, oracle, pool, comparer.DefaultComparer, "file storage: reopened DB"); d != "" {
		fails = append(fails, d)
	}
	leveldb.VerifWaitIdle(db, 10*time.Second)
	put(db, 7, "journal-only-") // stays in the .log file
	if err := db.Close(); err != nil {
		fail("Close: %v", err)
	}
	stats["fs_single_owner_checks"]++

	// ---- 3. read-only owners
	before, err := snapshotDir(dir)
	if err != nil {
		fail("cannot read the directory: %v", err)
		return
	}
	r1, err := leveldb.OpenFile(dir, ro)
	if err != nil {
		fail("read-only leveldb.OpenFile: %v", err)
		return
	}
	r2, err := leveldb.OpenFile(dir, ro)
	if err != nil {
		notes = append(notes, fmt.Sprintf("second simultaneous read-only OpenFile: %v", err))
	}
	if d2, err := leveldb.OpenFile(dir, o); err == nil {
		fail("read-write leveldb.OpenFile while a read-only DB is open succeeded")
		d2.Close()
	}
	for i, d := range []*leveldb.DB{r1, r2} {
		if d == nil {
			continue
		}
		if x := checkData(d, oracle, pool, comparer.DefaultComparer, fmt.Sprintf("file storage: read-only DB %d", i)); x != "" {
			fails = append(fails, x)
		}
		if err := d.Put(pool[0], []byte("x"), nil); err != leveldb.ErrReadOnly {
			fail("Put on read-only DB %d: %v, expected ErrReadOnly", i, err)
		}
		if err := d.Delete(pool[0], &opt.WriteOptions{Sync: true}); err != leveldb.ErrReadOnly {
			fail("Delete on read-only DB %d: %v, expected ErrReadOnly", i, err)
		}
		if _, err := d.OpenTransaction(); err != leveldb.ErrReadOnly {
			fail("OpenTransaction on read-only DB %d: %v, expected ErrReadOnly", i, err)
		}
		for j := 0; j < 300; j++ {
			d.Get([]byte(fmt.Sprintf("key-%03dx", j%60)), nil)
		}
	}
	for i, d := range []*leveldb.DB{r1, r2} {
		if d == nil {
			continue
		}
		if err := d.Close(); err != nil {
			fail("Close of read-only DB %d: %v", i, err)
		}
		if _, err := d.Get(pool[0], nil); err != leveldb.ErrClosed {
			fail("Get after Close of read-only DB %d: %v", i, err)
		}
	}
	after, err := snapshotDir(dir)
	if err != nil {
		fail("cannot read the directory: %v", err)
		return
	}
	if d := diffDir(before, after); d != "" {
		fail("a DB opened read-only changed the directory: %s", d)
	}
	stats["fs_read_only_checks"]++

	// ---- 3b. read-only owners of a directory whose manifest pointer was left unclean by a crash inside
	// setMeta / newManifest (pending CURRENT.<n>, only CURRENT.bak, stale pending file, garbage CURRENT with a
	// good CURRENT.bak): the read-write open repairs these states; a read-only open must serve the data and
	// leave every file as it found it.
	{
		curName := ""
		if b, err := os.ReadFile(filepath.Join(dir, "CURRENT")); err == nil {
			curName = string(bytes.TrimSpace(b))
		}
		var curNum int
		if _, err := fmt.Sscanf(curName, "MANIFEST-%d", &curNum); err != nil {
			fail("cannot parse CURRENT %q of a cleanly closed DB", curName)
			return
		}
		type prep struct {
			name string
			f    func(d string) error
		}
		preps := []prep{
			{"pending CURRENT.<n> naming a newer manifest", func(d string) error {
				b, err := os.ReadFile(filepath.Join(d, curName))
				if err != nil {
					return err
				}
				n := curNum + 100
				if err := os.WriteFile(filepath.Join(d, fmt.Sprintf("MANIFEST-%06d", n)), b, 0o644); err != nil {
					return err
				}
				return os.WriteFile(filepath.Join(d, fmt.Sprintf("CURRENT.%d", n)), []byte(fmt.Sprintf("MANIFEST-%06d\n", n)), 0o644)
			}},
			{"only CURRENT.bak survives", func(d string) error {
				return os.Rename(filepath.Join(d, "CURRENT"), filepath.Join(d, "CURRENT.bak"))
			}},
			{"stale pending CURRENT.1 naming a missing manifest", func(d string) error {
				return os.WriteFile(filepath.Join(d, "CURRENT.1"), []byte("MANIFEST-000001\n"), 0o644)
			}},
			{"garbage CURRENT with a good CURRENT.bak", func(d string) error {
				b, err := os.ReadFile(filepath.Join(d, "CURRENT"))
				if err != nil {
					return err
				}
				if err := os.WriteFile(filepath.Join(d, "CURRENT.bak"), b, 0o644); err != nil {
					return err
				}
				return os.WriteFile(filepath.Join(d, "CURRENT"), []byte("MANIF"), 0o644)
			}},
		}
		for pi, pr := range preps {
			d := filepath.Join(root, fmt.Sprintf("unclean%d", pi))
			if err := copyDir(dir, d); err != nil {
				fail("cannot copy the directory: %v", err)
				continue
			}
			if err := pr.f(d); err != nil {
				fail("cannot prepare %q: %v", pr.name, err)
				continue
			}
			b4, err := snapshotDir(d)
			if err != nil {
				fail("cannot read the directory: %v", err)
				continue
			}
			rd, err := leveldb.OpenFile(d, ro)
			if err != nil {
				notes = append(notes, fmt.Sprintf("read-only OpenFile with %s: %v", pr.name, err))
			} else {
				if x := checkData(rd, oracle, pool, comparer.DefaultComparer, "file storage: read-only DB, "+pr.name); x != "" {
					fails = append(fails, x)
				}
				if err := rd.Put(pool[0], []byte("x"), nil); err != leveldb.ErrReadOnly {
					fail("Put on a read-only DB (%s): %v, expected ErrReadOnly", pr.name, err)
				}
				if err := rd.Close(); err != nil {
					fail("Close of the read-only DB (%s): %v", pr.name, err)
				}
			}
			aft, err := snapshotDir(d)
			if err != nil {
				fail("cannot read the directory: %v", err)
				continue
			}
			if x := diffDir(b4, aft); x != "" {
				fail("a DB opened read-only changed the directory (%s): %s", pr.name, x)
			}
			// the read-write open must still find the data afterwards
			wd, err := leveldb.OpenFile(d, o)
			if err != nil {
				fail("read-write OpenFile after the read-only owner of a directory with %s: %v", pr.name, err)
			} else {
				if x := checkData(wd, oracle, pool, comparer.DefaultComparer, "file storage: read-write DB after "+pr.name); x != "" {
					fails = append(fails, x)
				}
				wd.Close()
			}
			stats["fs_read_only_unclean_pointer_checks"]++
		}
	}

	// ---- 4. available again for a writer; a missing directory is not created by a read-only open
	db, err = leveldb.OpenFile(dir, o)
	if err != nil {
		fail("read-write leveldb.OpenFile after the read-only owners closed: %v", err)
		return
	}
	if d := checkData(db, oracle, pool, comparer.DefaultComparer, "file storage: DB reopened read-write"); d != "" {
		fails = append(fails, d)
	}
	db.Close()
	missing := filepath.Join(root, "missing")
	if d2, err := leveldb.OpenFile(missing, ro); err == nil {
		fail("read-only OpenFile of a missing directory succeeded")
		d2.Close()
	}
	if _, err := os.Stat(missing); !errors.Is(err, os.ErrNotExist) {
		fail("read-only OpenFile created the missing directory")
	}
	empty := filepath.Join(root, "empty")
	os.Mkdir(empty, 0o755)
	if d2, err := leveldb.OpenFile(empty, ro); err == nil {
		fail("read-only OpenFile of a directory without a DB succeeded")
		d2.Close()
	}
	if ds, _ := snapshotDir(empty); len(ds) > 0 {
		var names []string
		for n := range ds {
			names = append(names, n)
		}
		sort.Strings(names)
		notes = append(notes, fmt.Sprintf("read-only OpenFile of an empty directory (no DB; the open fails) left files behind: %v", names))
	}
	stats["fs_reopen_checks"]++
	return
}

// copyDir copies the regular files of a flat directory (a DB directory has no sub-directories), keeping mtimes.
func copyDir(src, dst string) error {
	if err := os.MkdirAll(dst, 0o755); err != nil {
		return err
	}
	ents, err := os.ReadDir(src)
	if err != nil {
		return err
	}
	for _, e := range ents {
		if e.IsDir() {
			continue
		}
		b, err := os.ReadFile(filepath.Join(src, e.Name()))
		if err != nil {
			return err
		}
		if err := os.WriteFile(filepath.Join(dst, e.Name()), b, 0o644); err != nil {
			return err
		}
	}
	return nil
}
