package main

import (
	"bytes"
	"fmt"
	"time"

	"github.com/syndtr/goleveldb/leveldb"
	"github.com/syndtr/goleveldb/leveldb/comparer"
	"github.com/syndtr/goleveldb/leveldb/opt"
	"github.com/syndtr/goleveldb/leveldb/storage"
	"github.com/syndtr/goleveldb/leveldb/util"
	"verifharness/lib/dbh"
	"verifharness/lib/vstor"
)

// Directed minimal cases: the smallest inputs of the defects this check found on the pinned tree (fixed by
// "fix:" commits since), kept as regression cases, plus a few deterministic corner cases of the contracts.

func directedCases() (fails []string, n int) {
	fail := func(f string, a ...interface{}) { fails = append(fails, "directed: "+fmt.Sprintf(f, a...)) }
	small := &opt.Options{WriteBuffer: 4096, Compression: opt.NoCompression, DisableCompactionBackoff: true}

	// 1. Snapshot.String on a released snapshot (panicked: nil snapshot element)
	{
		st := vstor.New(false)
		db, err := leveldb.Open(st, small)
		if err != nil {
			fail("Open: %v", err)
			return
		}
		s, _ := db.GetSnapshot()
		s.Release()
		cr, pan, hung := guard(10*time.Second, func() cres { return templates["Snapshot.String"](&hs{snap: s}) })
		if pan != "" || hung || cr.detail == "" {
			fail("Snapshot.String on a released snapshot: hung=%v panic=%q", hung, firstLine(pan))
		}
		db.Close()
		cr, pan, hung = guard(10*time.Second, func() cres { return templates["Snapshot.String"](&hs{snap: s}) })
		if pan != "" || hung {
			fail("Snapshot.String on a released snapshot of a closed DB: hung=%v panic=%q", hung, firstLine(pan))
		}
		n++
	}

	// 1b. GetProperty on adversarial property names: a known name answers, any other name is ErrNotFound, nothing
	//     panics (it did: "leveldb.num-files-at-level9223372036854775808" indexed the level slice with a negative
	//     int; repaired by 6d718bd)
	{
		st := vstor.New(false)
		db, err := leveldb.Open(st, small)
		if err != nil {
			fail("Open: %v", err)
			return
		}
		for i := 0; i < 40; i++ {
			db.Put([]byte(fmt.Sprintf("k%03d", i)), make([]byte, 300), nil)
		}
		names := []string{"leveldb.num-files-at-level0", "leveldb.num-files-at-level1", "leveldb.num-files-at-level99",
			"leveldb.num-files-at-level2147483648", "leveldb.num-files-at-level4294967296", "leveldb.num-files-at-level9223372036854775807",
			"leveldb.num-files-at-level9223372036854775808", "leveldb.num-files-at-level18446744073709551615",
			"leveldb.num-files-at-level18446744073709551616", "leveldb.num-files-at-level-1", "leveldb.num-files-at-level", "leveldb.num-files-at-level1x",
			"leveldb.num-files-at-level 1", "leveldb.stats", "leveldb.compcount", "leveldb.iostats", "leveldb.writedelay", "leveldb.sstables",
			"leveldb.blockpool", "leveldb.cachedblock", "leveldb.openedtables", "leveldb.alivesnaps", "leveldb.aliveiters", "leveldb.", "leveldb", "", "x",
			"leveldb.nosuch", "LEVELDB.stats", "leveldb.stats ", "leveldb.num-files-at-level\x00"}
		for _, name := range names {
			nm := name
			var v string
			var gerr error
			cr, pan, hung := guard(10*time.Second, func() cres { v, gerr = db.GetProperty(nm); return cres{detail: "x"} })
			_ = cr
			if pan != "" || hung {
				fail("GetProperty(%q): hung=%v panic=%q", nm, hung, firstLine(pan))
				continue
			}
			if gerr != nil && gerr != leveldb.ErrNotFound {
				fail("GetProperty(%q): error %v, expected a value or ErrNotFound", nm, gerr)
			}
			if gerr == nil && v == "" && nm != "leveldb.sstables" {
				fail("GetProperty(%q): empty value without an error", nm)
			}
		}
		db.Close()
		if _, err := db.GetProperty("leveldb.stats"); err != leveldb.ErrClosed {
			fail("GetProperty after Close: %v, expected ErrClosed", err)
		}
		n++
	}

	// 2. read-only Open when two journal files must be replayed (failed with io.EOF): storage A holds journal Ja
	//    with batch a; a clone B is opened read-write (Ja is flushed, Jb created), receives batch b, is closed;
	//    Jb is copied into a clone of A, whose manifest still names Ja: Ja and Jb are both replayed.
	{
		a := vstor.New(false)
		db, err := leveldb.Open(a, small)
		if err != nil {
			fail("Open: %v", err)
			return
		}
		db.Put([]byte("a"), []byte("1"), nil)
		db.Put([]byte("shared"), []byte("old"), nil)
		db.Close()
		b := a.Clone(false)
		db, err = leveldb.Open(b, small)
		if err != nil {
			fail("Open of the clone: %v", err)
			return
		}
		db.Put([]byte("b"), []byte("2"), nil)
		db.Put([]byte("shared"), []byte("new"), nil)
		db.Delete([]byte("a"), nil)
		db.Close()
		two := a.Clone(false)
		var maxA int64
		for _, fd := range a.ListAll() {
			if fd.Type == storage.TypeJournal && fd.Num > maxA {
				maxA = fd.Num
			}
		}
		copied := 0
		for _, fd := range b.ListAll() {
			if fd.Type == storage.TypeJournal && fd.Num > maxA {
				data, _, _ := b.FileBytes(fd)
				two.SetFileBytes(fd, data)
				copied++
			}
		}
		nj := 0
		for _, fd := range two.ListAll() {
			if fd.Type == storage.TypeJournal {
				nj++
			}
		}
		if copied != 1 || nj != 2 {
			fail("could not build a storage with two journals (copied %d, journals %d)", copied, nj)
		} else {
			two.SetAudit(true)
			ro, err := leveldb.Open(two, &opt.Options{ReadOnly: true, Compression: opt.NoCompression})
			if err != nil {
				fail("read-only Open of a storage holding two journal files failed: %v", err)
			} else {
				view := dbh.Oracle{"b": []byte("2"), "shared": []byte("new")}
				pool := []dbh.HexBytes{[]byte("a"), []byte("b"), []byte("shared")}
				if d := checkData(ro, view, pool, comparer.DefaultComparer, "directed: read-only DB over two journals"); d != "" {
					fails = append(fails, d)
				}
				if err := ro.Put([]byte("x"), nil, nil); err != leveldb.ErrReadOnly {
					fail("Put on the read-only DB: %v", err)
				}
				ro.Close()
				if m := mutations(two); len(m) > 0 {
					fail("read-only DB over two journals issued %d mutating storage operations, first %s", len(m), m[0])
				}
			}
		}
		n++
	}

	// 3. read-only Open of a storage without a DB fails, creates nothing, and leaves the lock free
	{
		st := vstor.New(false)
		st.SetAudit(true)
		db, err := leveldb.Open(st, &opt.Options{ReadOnly: true})
		if err == nil {
			fail("read-only Open of an empty storage succeeded")
			db.Close()
		}
		if m := mutations(st); len(m) > 0 || len(st.ListAll()) > 0 {
			fail("read-only Open of an empty storage issued %d mutating storage operations", len(m))
		}
		if st.Locked() {
			fail("failed read-only Open left the storage locked")
		}
		n++
	}

	// 4. ErrorIfExist / ErrorIfMissing failures leave the lock free and the next Open succeeds
	{
		st := vstor.New(false)
		if _, err := leveldb.Open(st, &opt.Options{ErrorIfMissing: true}); err == nil {
			fail("Open(ErrorIfMissing) of an empty storage succeeded")
		}
		if st.Locked() {
			fail("failed Open(ErrorIfMissing) left the storage locked")
		}
		db, err := leveldb.Open(st, small)
		if err != nil {
			fail("Open after a failed Open: %v", err)
			return
		}
		db.Close()
		if _, err := leveldb.Open(st, &opt.Options{ErrorIfExist: true}); err == nil {
			fail("Open(ErrorIfExist) of an existing DB succeeded")
		}
		if st.Locked() {
			fail("failed Open(ErrorIfExist) left the storage locked")
		}
		n++
	}

	// 5. a read-only DB stays read-only with NoWriteMerge (the writer path without the merge channel)
	{
		st := vstor.New(false)
		db, _ := leveldb.Open(st, small)
		db.Put([]byte("k"), []byte("v"), nil)
		db.Close()
		for _, nm := range []bool{false, true} {
			o := &opt.Options{ReadOnly: true, NoWriteMerge: nm, Compression: opt.NoCompression}
			ro, err := leveldb.Open(st, o)
			if err != nil {
				fail("read-only Open (NoWriteMerge=%v): %v", nm, err)
				continue
			}
			st.SetAudit(true)
			for _, wo := range []*opt.WriteOptions{nil, {NoWriteMerge: true}, {Sync: true}} {
				if err := ro.Put([]byte("k"), []byte("w"), wo); err != leveldb.ErrReadOnly {
					fail("Put on a read-only DB (NoWriteMerge=%v, wo=%+v): %v", nm, wo, err)
				}
				if err := ro.Delete([]byte("k"), wo); err != leveldb.ErrReadOnly {
					fail("Delete on a read-only DB (NoWriteMerge=%v, wo=%+v): %v", nm, wo, err)
				}
			}
			if v, err := ro.Get([]byte("k"), nil); err != nil || string(v) != "v" {
				fail("Get on a read-only DB: %q %v", v, err)
			}
			ro.Close()
			if m := mutations(st); len(m) > 0 {
				fail("read-only DB (NoWriteMerge=%v) issued %d mutating storage operations, first %s", nm, len(m), m[0])
			}
		}
		n++
	}
	// 6. SetReadOnly on a DB opened read-write parks the compaction goroutines: after the drain, reads that
	//    charge seeks to tables (the request they send used to start a seek compaction) and full scans cause no
	//    mutating storage operation (the table-compaction goroutine was never parked and kept compacting)
	{
		st := vstor.New(false)
		o := &opt.Options{WriteBuffer: 4096, Compression: opt.NoCompression, DisableCompactionBackoff: true, IteratorSamplingRate: 256}
		db, err := leveldb.Open(st, o)
		if err != nil {
			fail("Open: %v", err)
			return
		}
		val := bytes.Repeat([]byte{'v'}, 100)
		key := func(i int) []byte { return []byte(fmt.Sprintf("k%04d", i)) }
		for round := 0; round < 3; round++ {
			for i := 0; i < 400; i++ {
				db.Put(key((i*37+round*11)%400), val, nil)
			}
			settle(db, st, true, 20*time.Second)
		}
		for i := 0; i < 30; i++ { // a last, small level-0 table over the whole key range
			db.Put(key(i*13), val, nil)
		}
		if err := db.CompactRange(util.Range{Start: []byte("zz")}); err != nil {
			fail("CompactRange: %v", err)
		}
		settle(db, st, true, 20*time.Second)
		st.SetAudit(true)
		if err := db.SetReadOnly(); err != nil {
			fail("SetReadOnly: %v", err)
		}
		stopped, _ := settleSwitched(db, st, 3*time.Second, 20*time.Second)
		m0 := len(mutations(st))
		for round := 0; round < 8; round++ {
			for i := 0; i < 400; i++ {
				if _, err := db.Get(key(i), nil); err != nil {
					fail("Get on the switched read-only DB: %v", err)
					break
				}
			}
			it := db.NewIterator(nil, nil)
			for it.Next() {
			}
			it.Release()
		}
		if err := db.Put(key(1), val, nil); err != leveldb.ErrReadOnly {
			fail("Put on the switched read-only DB: %v", err)
		}
		if err := db.CompactRange(util.Range{}); err != leveldb.ErrReadOnly {
			fail("CompactRange on the switched read-only DB: %v", err)
		}
		time.Sleep(3 * time.Millisecond)
		if stopped {
			settle(nil, st, false, 20*time.Second)
		} else {
			settle(db, st, true, 20*time.Second)
		}
		if ms := mutations(st); len(ms) > m0 {
			fail("after SetReadOnly and the drain (compaction goroutines stopped: %v) 3200 Gets and 8 scans caused %d mutating storage operations, first %s", stopped, len(ms)-m0, ms[m0])
		}
		st.SetAudit(false)
		db.Close()
		n++
	}
	return
}
