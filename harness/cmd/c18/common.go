package main

import (
	"errors"
	"fmt"
	"reflect"
	"runtime/debug"
	"sort"
	"strings"
	"time"

	"github.com/syndtr/goleveldb/leveldb"
	"github.com/syndtr/goleveldb/leveldb/iterator"
	"github.com/syndtr/goleveldb/leveldb/storage"
	"github.com/syndtr/goleveldb/leveldb/table"
	"github.com/syndtr/goleveldb/leveldb/util"
	"verifharness/lib/vstor"
)

// Out is the outcome class of a call; the codes are Lifecycle.outcome_code of the Coq model.
type Out int

const (
	Ok Out = iota
	ErrClosed
	ErrReadOnly
	ErrSnapshotReleased
	ErrIterReleased
	ErrTransactionDone
	ErrLocked
	ErrOther
	Panics
	Blocks
	Unspecified
	NoHandle
)

var outNames = [...]string{"Ok", "ErrClosed", "ErrReadOnly", "ErrSnapshotReleased", "ErrIterReleased", "ErrTransactionDone",
	"ErrLocked", "ErrOther", "Panics", "Blocks", "Unspecified", "NoHandle"}

func (o Out) String() string { return outNames[o] }

const txnDoneMsg = "leveldb: transaction already closed"

// classify maps an error to its class. ErrNotFound is a normal result.
func classify(err error) Out {
	switch {
	case err == nil || err == leveldb.ErrNotFound:
		return Ok
	case err == leveldb.ErrClosed:
		return ErrClosed
	case err == leveldb.ErrReadOnly:
		return ErrReadOnly
	case err == leveldb.ErrSnapshotReleased:
		return ErrSnapshotReleased
	case err == leveldb.ErrIterReleased || err == iterator.ErrIterReleased:
		return ErrIterReleased
	case err.Error() == txnDoneMsg:
		return ErrTransactionDone
	case errors.Is(err, storage.ErrLocked):
		return ErrLocked
	}
	return ErrOther
}

// closedClassRacing: what a call racing with Close may return besides its normal result.
func closedClassRacing(err error) bool {
	switch classify(err) {
	case ErrClosed, ErrTransactionDone:
		return true
	}
	return err == table.ErrReaderReleased || errors.Is(err, storage.ErrClosed)
}

// hs is the receiver set a call template works on.
type hs struct {
	db   *leveldb.DB
	snap *leveldb.Snapshot
	tr   *leveldb.Transaction
	it   iterator.Iterator
	// variant selects the boolean parameter of DB.Write / Transaction.Write (true = empty batch) and of
	// Iterator.SetReleaser (true = non-nil releaser)
	variant bool
	key     []byte
	val     []byte
}

// cres is what a template observed.
type cres struct {
	out     Out
	err     error
	nonzero string // non-empty: a result other than the zero value came back (text says which)
	newIt   iterator.Iterator
	newSnap *leveldb.Snapshot
	newTr   *leveldb.Transaction
	detail  string
}

type tmpl func(h *hs) cres

func batchOf(h *hs) *leveldb.Batch {
	if h.variant {
		if len(h.key)%2 == 0 {
			return nil
		}
		return new(leveldb.Batch)
	}
	b := new(leveldb.Batch)
	b.Put(h.key, h.val)
	b.Delete(append([]byte("\x03del-"), h.key...))
	return b
}

type noopReleaser struct{ n int }

func (r *noopReleaser) Release() { r.n++ }

func itRes(it iterator.Iterator, moved bool) cres {
	r := cres{err: it.Error()}
	r.out = classify(r.err)
	if moved {
		r.nonzero = "movement returned true"
	}
	return r
}

// templates: one call template per exported method; keys are "<Type>.<Method>" as Lifecycle.api_name.
var templates = map[string]tmpl{
	"DB.Get": func(h *hs) cres {
		v, err := h.db.Get(h.key, nil)
		r := cres{out: classify(err), err: err}
		if err != nil && v != nil {
			r.nonzero = "value with error"
		}
		return r
	},
	"DB.Has": func(h *hs) cres {
		ok, err := h.db.Has(h.key, nil)
		r := cres{out: classify(err), err: err}
		if err != nil && ok {
			r.nonzero = "true with error"
		}
		return r
	},
	"DB.NewIterator": func(h *hs) cres {
		it := h.db.NewIterator(nil, nil)
		r := cres{err: it.Error(), newIt: it}
		r.out = classify(r.err)
		if r.err != nil && it.Valid() {
			r.nonzero = "valid iterator with error"
		}
		return r
	},
	"DB.GetSnapshot": func(h *hs) cres {
		s, err := h.db.GetSnapshot()
		r := cres{out: classify(err), err: err, newSnap: s}
		if err != nil && s != nil {
			r.nonzero = "snapshot with error"
		}
		return r
	},
	"DB.GetProperty": func(h *hs) cres {
		names := []string{"leveldb.stats", "leveldb.num-files-at-level0", "leveldb.sstables", "leveldb.iostats", "leveldb.writedelay",
			"leveldb.blockpool", "leveldb.cachedblock", "leveldb.openedtables", "leveldb.alivesnaps", "leveldb.aliveiters", "leveldb.compcount"}
		v, err := h.db.GetProperty(names[len(h.key)%len(names)])
		r := cres{out: classify(err), err: err}
		if err != nil && v != "" {
			r.nonzero = "value with error"
		}
		return r
	},
	"DB.Stats": func(h *hs) cres {
		var s leveldb.DBStats
		err := h.db.Stats(&s)
		return cres{out: classify(err), err: err}
	},
	"DB.SizeOf": func(h *hs) cres {
		sz, err := h.db.SizeOf([]util.Range{{}, {Start: h.key}})
		r := cres{out: classify(err), err: err}
		if err != nil && sz != nil {
			r.nonzero = "sizes with error"
		}
		return r
	},
	"DB.Close": func(h *hs) cres {
		err := h.db.Close()
		return cres{out: classify(err), err: err}
	},
	"DB.OpenTransaction": func(h *hs) cres {
		tr, err := h.db.OpenTransaction()
		r := cres{out: classify(err), err: err, newTr: tr}
		if err != nil && tr != nil {
			r.nonzero = "transaction with error"
		}
		return r
	},
	"DB.Write": func(h *hs) cres {
		err := h.db.Write(batchOf(h), nil)
		return cres{out: classify(err), err: err}
	},
	"DB.Put": func(h *hs) cres {
		err := h.db.Put(h.key, h.val, nil)
		return cres{out: classify(err), err: err}
	},
	"DB.Delete": func(h *hs) cres {
		err := h.db.Delete(h.key, nil)
		return cres{out: classify(err), err: err}
	},
	"DB.CompactRange": func(h *hs) cres {
		err := h.db.CompactRange(util.Range{})
		return cres{out: classify(err), err: err}
	},
	"DB.SetReadOnly": func(h *hs) cres {
		err := h.db.SetReadOnly()
		return cres{out: classify(err), err: err}
	},
	"Snapshot.String": func(h *hs) cres {
		s := h.snap.String()
		r := cres{out: Ok, detail: s}
		return r
	},
	"Snapshot.Get": func(h *hs) cres {
		v, err := h.snap.Get(h.key, nil)
		r := cres{out: classify(err), err: err}
		if err != nil && v != nil {
			r.nonzero = "value with error"
		}
		return r
	},
	"Snapshot.Has": func(h *hs) cres {
		ok, err := h.snap.Has(h.key, nil)
		r := cres{out: classify(err), err: err}
		if err != nil && ok {
			r.nonzero = "true with error"
		}
		return r
	},
	"Snapshot.NewIterator": func(h *hs) cres {
		it := h.snap.NewIterator(nil, nil)
		r := cres{err: it.Error(), newIt: it}
		r.out = classify(r.err)
		if r.err != nil && it.Valid() {
			r.nonzero = "valid iterator with error"
		}
		return r
	},
	"Snapshot.Release": func(h *hs) cres {
		h.snap.Release()
		return cres{out: Ok}
	},
	"Transaction.Get": func(h *hs) cres {
		v, err := h.tr.Get(h.key, nil)
		r := cres{out: classify(err), err: err}
		if err != nil && v != nil {
			r.nonzero = "value with error"
		}
		return r
	},
	"Transaction.Has": func(h *hs) cres {
		ok, err := h.tr.Has(h.key, nil)
		r := cres{out: classify(err), err: err}
		if err != nil && ok {
			r.nonzero = "true with error"
		}
		return r
	},
	"Transaction.NewIterator": func(h *hs) cres {
		it := h.tr.NewIterator(nil, nil)
		r := cres{err: it.Error(), newIt: it}
		r.out = classify(r.err)
		if r.err != nil && it.Valid() {
			r.nonzero = "valid iterator with error"
		}
		return r
	},
	"Transaction.Put": func(h *hs) cres {
		err := h.tr.Put(h.key, h.val, nil)
		return cres{out: classify(err), err: err}
	},
	"Transaction.Delete": func(h *hs) cres {
		err := h.tr.Delete(h.key, nil)
		return cres{out: classify(err), err: err}
	},
	"Transaction.Write": func(h *hs) cres {
		err := h.tr.Write(batchOf(h), nil)
		return cres{out: classify(err), err: err}
	},
	"Transaction.Commit": func(h *hs) cres {
		err := h.tr.Commit()
		return cres{out: classify(err), err: err}
	},
	"Transaction.Discard": func(h *hs) cres {
		h.tr.Discard()
		return cres{out: Ok}
	},
	"Iterator.First": func(h *hs) cres { return itRes(h.it, h.it.First()) },
	"Iterator.Last":  func(h *hs) cres { return itRes(h.it, h.it.Last()) },
	"Iterator.Seek":  func(h *hs) cres { return itRes(h.it, h.it.Seek(h.key)) },
	"Iterator.Next":  func(h *hs) cres { return itRes(h.it, h.it.Next()) },
	"Iterator.Prev":  func(h *hs) cres { return itRes(h.it, h.it.Prev()) },
	"Iterator.Release": func(h *hs) cres {
		h.it.Release()
		return itRes(h.it, false)
	},
	"Iterator.SetReleaser": func(h *hs) cres {
		if h.variant {
			h.it.SetReleaser(&noopReleaser{})
		} else {
			h.it.SetReleaser(nil)
		}
		return itRes(h.it, false)
	},
	"Iterator.Valid": func(h *hs) cres {
		v := h.it.Valid()
		r := itRes(h.it, false)
		if v {
			r.nonzero = "Valid() = true"
		}
		return r
	},
	"Iterator.Error": func(h *hs) cres { return itRes(h.it, false) },
	"Iterator.Key": func(h *hs) cres {
		k := h.it.Key()
		r := itRes(h.it, false)
		if k != nil {
			r.nonzero = "Key() != nil"
		}
		return r
	},
	"Iterator.Value": func(h *hs) cres {
		v := h.it.Value()
		r := itRes(h.it, false)
		if v != nil {
			r.nonzero = "Value() != nil"
		}
		return r
	},
}

// reflectedMethods enumerates the exported methods of the four API types with package reflect.
func reflectedMethods() []string {
	var out []string
	add := func(prefix string, t reflect.Type) {
		for i := 0; i < t.NumMethod(); i++ {
			out = append(out, prefix+"."+t.Method(i).Name)
		}
	}
	add("DB", reflect.TypeOf((*leveldb.DB)(nil)))
	add("Snapshot", reflect.TypeOf((*leveldb.Snapshot)(nil)))
	add("Transaction", reflect.TypeOf((*leveldb.Transaction)(nil)))
	add("Iterator", reflect.TypeOf((*iterator.Iterator)(nil)).Elem())
	sort.Strings(out)
	return out
}

func receiverOf(name string) string { return name[:strings.IndexByte(name, '.')] }

// coqCall renders the model's api_call constructor of a method name (+ variant).
func coqCall(name string, variant bool) string {
	c := map[string]string{"DB": "Db", "Snapshot": "Sn", "Transaction": "Tr", "Iterator": "It"}[receiverOf(name)] + name[strings.IndexByte(name, '.')+1:]
	switch name {
	case "DB.Write", "Transaction.Write", "Iterator.SetReleaser":
		if variant {
			return "(" + c + " true)"
		}
		return "(" + c + " false)"
	}
	return c
}

// takesWriteLock mirrors Lifecycle.takes_write_lock: the call waits while a transaction is open.
func takesWriteLock(name string, variant bool) bool {
	switch name {
	case "DB.Put", "DB.Delete", "DB.CompactRange", "DB.OpenTransaction", "DB.SetReadOnly":
		return true
	case "DB.Write":
		return !variant
	}
	return false
}

func isMove(name string) bool {
	switch name {
	case "Iterator.First", "Iterator.Last", "Iterator.Seek", "Iterator.Next", "Iterator.Prev":
		return true
	}
	return false
}

// guard runs f with recover and a watchdog. hung: f did not return within d (its goroutine is abandoned).
func guard(d time.Duration, f func() cres) (r cres, panicked string, hung bool) {
	type res struct {
		r cres
		p string
	}
	ch := make(chan res, 1)
	go func() {
		var x res
		defer func() {
			if e := recover(); e != nil {
				x.p = fmt.Sprintf("%v\n%s", e, trimStack(debug.Stack()))
				x.r.out = Panics
			}
			ch <- x
		}()
		x.r = f()
	}()
	select {
	case x := <-ch:
		return x.r, x.p, false
	case <-time.After(d):
		return cres{out: Blocks}, "", true
	}
}

func trimStack(b []byte) string {
	s := string(b)
	var keep []string
	for _, l := range strings.Split(s, "\n") {
		if strings.Contains(l, "goleveldb/leveldb") || strings.Contains(l, "cmd/c18") {
			keep = append(keep, strings.TrimSpace(l))
		}
		if len(keep) >= 12 {
			break
		}
	}
	return strings.Join(keep, "\n")
}

// firstLeveldbFrame returns the first goleveldb function of a trimmed stack.
func firstLeveldbFrame(stack string) string {
	for _, l := range strings.Split(stack, "\n") {
		if strings.Contains(l, "goleveldb/leveldb") && strings.Contains(l, "(") && !strings.HasPrefix(l, "/") {
			return l
		}
	}
	return ""
}

// settle waits until background work of db is idle (when it has any) and the storage sees no operation for a
// short while (obsolete-file removal runs in the session's reference loop, outside the compaction jobs).
// It returns false if idleness was not reached.
func settle(db *leveldb.DB, st *vstor.Stor, bg bool, timeout time.Duration) bool {
	deadline := time.Now().Add(timeout)
	for {
		if bg && db != nil {
			if !leveldb.VerifWaitIdle(db, time.Until(deadline)) {
				return false
			}
		}
		c := st.OpCount()
		stable := 0
		for stable < 3 {
			time.Sleep(150 * time.Microsecond)
			if n := st.OpCount(); n != c {
				break
			}
			stable++
		}
		if stable >= 3 {
			return true
		}
		if time.Now().After(deadline) {
			return false
		}
	}
}

// settleSwitched is the drain of a DB that was switched to read-only with SetReadOnly: its two compaction
// goroutines have returned (they finish the job that was running at the switch, start nothing else and leave:
// after that no goroutine of the DB can start a flush or a compaction) and the operation log is stable.
// stopped = false: the goroutines were still running after [grace] (the code before the repair never parks
// them); the caller falls back to the drain of a read-write DB.
func settleSwitched(db *leveldb.DB, st *vstor.Stor, grace, timeout time.Duration) (stopped, stable bool) {
	stopped = leveldb.VerifWaitCompactionsStopped(db, grace)
	if !stopped {
		return false, settle(db, st, true, timeout)
	}
	return true, settle(nil, st, false, timeout)
}

// mutations returns the audited mutating operations that change stored state: create, non-empty write, sync,
// remove, rename, setmeta. A zero-length Write (journal.Writer.Close flushing an empty block when the DB is
// closed) changes nothing and is not counted.
func mutations(st *vstor.Stor) []vstor.Op {
	var out []vstor.Op
	for _, o := range st.AuditMutations() {
		if o.Kind == vstor.OpWrite && o.N == 0 {
			continue
		}
		out = append(out, o)
	}
	return out
}
