package main

import (
	"bytes"
	"fmt"
	"runtime"
	"strings"
	"sync"
	"sync/atomic"
	"time"

	"github.com/syndtr/goleveldb/leveldb"
	"github.com/syndtr/goleveldb/leveldb/opt"
	"github.com/syndtr/goleveldb/leveldb/storage"
	"github.com/syndtr/goleveldb/leveldb/util"
	"verifharness/lib/dbh"
	"verifharness/lib/vlib"
	"verifharness/lib/vstor"
)

// Part (f): calls racing with Close from 8 goroutines — stress + watchdog ("partial": the schedules reached
// are whatever the runtime produces). Every call must return its normal result or a closed-class error, never
// panic, never hang; Close itself must return.

var raceKinds = []string{"get", "has", "iter", "iterspin", "statsspin", "snapshot", "property", "stats", "sizeof", "put", "delete", "write", "bigwrite", "compact", "txn", "setreadonly"}

// f6Seen: once Close has been seen blocked behind a leaked write lock (known finding
// opentransaction-leaks-writelock-on-close) later rounds leave the transaction kinds out, so that an unfixed
// tree costs one watchdog period instead of one per round.
var f6Seen, f7Seen, f10Seen int32

var closeSeq uint64

//go:noinline
func closeMarked(db *leveldb.DB, mark uint64) error {
	err := db.Close()
	runtime.KeepAlive(mark)
	return err
}

// whereBlocked finds, in a dump of all goroutines, the one running closeMarked with the given mark and says
// where it is blocked: "writelock" (DB.Close sending on writeLockC), "cache" (inside cache.(*Cache).Close),
// or the first goleveldb frame otherwise.
func whereBlocked(mark uint64) string {
	buf := make([]byte, 16<<20)
	n := runtime.Stack(buf, true)
	needle := fmt.Sprintf("0x%x", mark)
	for _, blk := range strings.Split(string(buf[:n]), "\n\n") {
		if !strings.Contains(blk, "main.closeMarked(") || !strings.Contains(blk, needle) {
			continue
		}
		switch {
		case strings.Contains(blk, "cache.(*Cache).Close"):
			return "cache"
		case strings.Contains(blk, "[chan send") && strings.Contains(blk, "leveldb.(*DB).Close"):
			return "writelock"
		}
		for _, l := range strings.Split(blk, "\n") {
			if strings.Contains(l, "goleveldb/leveldb") && !strings.HasPrefix(l, "\t") {
				return l
			}
		}
		return "unknown"
	}
	return "goroutine not found"
}

// raceCtl widens, for one round, the window between tOps.open's table-cache lookup and the use of the handle
// it returned (hook point verifTableOpened of the repo, build tag verif): once the round is about to call Close
// ("armed") a racing caller that reaches the point waits there until Close has returned (bounded), so that it
// then uses a handle of a force-closed cache. The hook is process-wide and dispatches on the storage; goroutines
// of the DB's own compactions are let through (Close waits for them).
type raceCtl struct{ armed, done, parked int32 }

var raceCtls sync.Map // storage.Storage -> *raceCtl

func tableOpenedHook(st storage.Storage) {
	v, ok := raceCtls.Load(st)
	if !ok {
		return
	}
	c := v.(*raceCtl)
	if atomic.LoadInt32(&c.armed) == 0 || atomic.LoadInt32(&c.done) != 0 {
		return
	}
	var pcs [48]uintptr
	n := runtime.Callers(2, pcs[:])
	fr := runtime.CallersFrames(pcs[:n])
	for {
		f, more := fr.Next()
		if strings.Contains(f.Function, "Compaction") {
			return
		}
		if !more {
			break
		}
	}
	atomic.AddInt32(&c.parked, 1)
	deadline := time.Now().Add(50 * time.Millisecond)
	for atomic.LoadInt32(&c.done) == 0 && time.Now().Before(deadline) {
		time.Sleep(20 * time.Microsecond)
	}
}

type raceOutcome struct {
	fails  []string
	known  map[string]string
	stats  map[string]int
	kinds  []string
	closeT time.Duration
}

func raceRound(r *vlib.RNG) raceOutcome {
	out := raceOutcome{known: map[string]string{}, stats: map[string]int{}}
	var mu sync.Mutex
	fail := func(f string, a ...interface{}) {
		mu.Lock()
		if len(out.fails) < 6 {
			out.fails = append(out.fails, fmt.Sprintf(f, a...))
		}
		mu.Unlock()
	}
	stat := func(k string) { mu.Lock(); out.stats[k]++; mu.Unlock() }
	cfg := dbh.RandomCfg(r)
	if cfg.WriteBuffer > 4096 {
		cfg.WriteBuffer = 2048
	}
	cfg.L0Trigger = 1 + r.Intn(3)
	if atomic.LoadInt32(&f10Seen) != 0 {
		cfg.OpenFiles = 0
	}
	st := vstor.New(false)
	ctl := &raceCtl{}
	raceCtls.Store(storage.Storage(st), ctl)
	defer raceCtls.Delete(storage.Storage(st))
	defer atomic.StoreInt32(&ctl.done, 1)
	db, err := leveldb.Open(st, cfg.Options())
	if err != nil {
		fail("race: Open error %v", err)
		return out
	}
	pool := dbh.GenPool(r, r.Range(8, 30), false)
	for i, n := 0, r.Range(20, 300); i < n; i++ {
		k := pool[r.Intn(len(pool))]
		if err := db.Put(k, dbh.GenValue(r, cfg, k, uint64(i)), nil); err != nil {
			fail("race: Put error %v", err)
			return out
		}
	}
	ro := r.Chance(1, 5)
	if ro {
		if err := db.SetReadOnly(); err != nil {
			fail("race: SetReadOnly error %v", err)
		}
	}
	// a round never mixes the two call kinds that can leak the write lock when they lose against Close
	// (OpenTransaction / SetReadOnly): a blocked Close is then attributable to one of them
	var kinds []string
	hasTxn, hasSro := false, false
	for g := 0; g < 8; g++ {
		for {
			k := raceKinds[r.Intn(len(raceKinds))]
			isTxn := k == "txn" || k == "bigwrite"
			if isTxn && (atomic.LoadInt32(&f6Seen) != 0 || hasSro) {
				continue
			}
			if k == "setreadonly" && (atomic.LoadInt32(&f7Seen) != 0 || hasTxn) {
				continue
			}
			hasTxn = hasTxn || isTxn
			hasSro = hasSro || k == "setreadonly"
			kinds = append(kinds, k)
			break
		}
	}
	out.kinds = kinds
	okErr := func(err error) bool {
		if err == nil || err == leveldb.ErrNotFound {
			return true
		}
		if closedClassRacing(err) {
			if classify(err) == ErrOther {
				stat("race_closed_class_other_error") // table.ErrReaderReleased / storage.ErrClosed
			}
			return true
		}
		return err == leveldb.ErrReadOnly // the DB was (or is being) switched to read-only by a racing SetReadOnly
	}
	var wg sync.WaitGroup
	var closedSeen int32
	big := bytes.Repeat([]byte{'W'}, cfg.WriteBuffer/3+10)
	seeds := make([]uint64, 8)
	for g := range seeds {
		seeds[g] = r.Uint64()
	}
	for g := 0; g < 8; g++ {
		wg.Add(1)
		go func(g int, kind string) {
			defer wg.Done()
			rr := vlib.NewRNG(seeds[g])
			defer func() {
				if x := recover(); x != nil {
					stack := trimStack(debugStack())
					fr := firstLeveldbFrame(stack)
					// any panic is a violation (the table-cache value zeroed under a racing read used to be a
					// recorded finding; tOps.open now tests the value and returns ErrClosed)
					fail("a %s call racing with Close panicked: %v at %s\n%s", kind, x, fr, stack)
				}
			}()
			key := func() []byte { return pool[rr.Intn(len(pool))] }
			for i := 0; i < 4000; i++ {
				var err error
				switch kind {
				case "get":
					_, err = db.Get(key(), nil)
				case "has":
					_, err = db.Has(key(), nil)
				case "iter":
					// created and released at once: an iterator that is still being moved while Close runs is
					// the documented unsafe use and is not exercised here
					it := db.NewIterator(&util.Range{Start: key()}, nil)
					err = it.Error()
					it.Release()
				case "iterspin":
					it := db.NewIterator(nil, nil)
					err = it.Error()
					it.Release()
				case "statsspin":
					var s leveldb.DBStats
					err = db.Stats(&s)
					if err == nil {
						_, err = db.GetProperty("leveldb.cachedblock")
					}
				case "snapshot":
					var s *leveldb.Snapshot
					if s, err = db.GetSnapshot(); err == nil {
						_, err = s.Get(key(), nil)
						if okErr(err) {
							_, err = s.Has(key(), nil)
						}
						if okErr(err) {
							it := s.NewIterator(nil, nil)
							err = it.Error()
							it.Release()
						}
						_ = s.String()
						s.Release()
					}
				case "property":
					_, err = db.GetProperty([]string{"leveldb.stats", "leveldb.sstables", "leveldb.openedtables", "leveldb.cachedblock", "leveldb.blockpool", "leveldb.iostats"}[i%6])
				case "stats":
					var s leveldb.DBStats
					err = db.Stats(&s)
				case "sizeof":
					_, err = db.SizeOf([]util.Range{{Start: key(), Limit: key()}})
				case "put":
					err = db.Put(key(), []byte("race"), &opt.WriteOptions{Sync: i%7 == 0})
				case "delete":
					err = db.Delete(key(), nil)
				case "write":
					b := new(leveldb.Batch)
					b.Put(key(), []byte("w"))
					b.Delete(key())
					err = db.Write(b, &opt.WriteOptions{NoWriteMerge: i%3 == 0})
				case "bigwrite":
					b := new(leveldb.Batch)
					for j := 0; j < 4; j++ {
						b.Put(key(), big)
					}
					err = db.Write(b, nil)
				case "compact":
					err = db.CompactRange(util.Range{})
				case "txn":
					var tr *leveldb.Transaction
					if tr, err = db.OpenTransaction(); err == nil {
						err = tr.Put(key(), big, nil)
						if okErr(err) {
							_, err = tr.Get(key(), nil)
						}
						if okErr(err) {
							if i%2 == 0 {
								err = tr.Commit()
							} else {
								tr.Discard()
							}
						}
						tr.Discard()
					}
				case "setreadonly":
					if i == 2 {
						err = db.SetReadOnly()
						if err == leveldb.ErrReadOnly {
							err = nil
						}
					} else {
						_, err = db.Get(key(), nil)
					}
				}
				if !okErr(err) {
					fail("a %s call racing with Close returned %q: neither its normal result nor a closed error", kind, err)
					return
				}
				if closedClassRacing(err) && err != nil {
					atomic.StoreInt32(&closedSeen, 1)
					stat("race_calls_saw_closed")
					// once closed, stays closed: a few more calls must keep reporting it without touching anything
					for j := 0; j < 3; j++ {
						if _, e := db.Get(key(), nil); e != leveldb.ErrClosed {
							// Close may still be in progress (closed flag set first): ErrClosed is already required
							fail("Get after a %s call saw the DB closed returned %v", kind, e)
							return
						}
					}
					return
				}
			}
		}(g, kinds[g])
	}
	time.Sleep(time.Duration(r.Intn(3000)) * time.Microsecond)
	widen := r.Chance(1, 2)
	if widen {
		atomic.StoreInt32(&ctl.armed, 1)
		stat("race_rounds_window_widened")
	}
	defer func() {
		if n := atomic.LoadInt32(&ctl.parked); n > 0 {
			stat("race_rounds_with_calls_held_in_the_table_open_window")
		}
	}()
	t0 := time.Now()
	mark := 0x5c18000000 + atomic.AddUint64(&closeSeq, 1)*0x1001
	cd := make(chan error, 1)
	go func() {
		defer func() {
			if x := recover(); x != nil {
				cd <- fmt.Errorf("Close panicked: %v at %s", x, firstLeveldbFrame(trimStack(debugStack())))
			}
		}()
		cd <- closeMarked(db, mark)
	}()
	raced := strings.Join(kinds, ",")
	select {
	case err := <-cd:
		out.closeT = time.Since(t0)
		atomic.StoreInt32(&ctl.done, 1)
		if err != nil {
			fail("Close racing with calls [%s] returned %v", raced, err)
		}
	case <-time.After(10 * time.Second):
		atomic.StoreInt32(&ctl.done, 1)
		where := whereBlocked(mark)
		d := fmt.Sprintf("Close did not return within 10 s while racing with calls [%s]; it is blocked at: %s", raced, where)
		switch {
		case where == "writelock" && (strings.Contains(raced, "txn") || strings.Contains(raced, "bigwrite")):
			atomic.StoreInt32(&f6Seen, 1)
			out.known["opentransaction-leaks-writelock-on-close"] = d + " (OpenTransaction returned an error without releasing the write lock)"
		case where == "writelock" && strings.Contains(raced, "setreadonly"):
			atomic.StoreInt32(&f7Seen, 1)
			out.known["setreadonly-leaks-writelock-on-close"] = d + " (SetReadOnly returned ErrClosed without releasing the write lock)"
		case where == "cache":
			atomic.StoreInt32(&f10Seen, 1)
			out.known["cache-close-deadlock-recursive-rlock"] = d + fmt.Sprintf(" (OpenFilesCacheCapacity %d: Cache.Get -> lru eviction -> Node.unRefExternal takes the cache's read lock again while Cache.Close waits for the write lock)", cfg.OpenFiles)
		default:
			fail("%s", d)
		}
		return out
	}
	wd := make(chan struct{})
	go func() { wg.Wait(); close(wd) }()
	select {
	case <-wd:
	case <-time.After(10 * time.Second):
		fail("calls [%s] racing with Close did not return within 10 s after Close had returned", raced)
		return out
	}
	if st.Locked() {
		fail("storage lock still held after Close raced with calls")
	}
	// closed is closed, also after a racy Close
	c0 := st.OpCount()
	cr, pan, hung := guard(10*time.Second, func() cres { _, err := db.Get(pool[0], nil); return cres{err: err} })
	if hung || pan != "" || cr.err != leveldb.ErrClosed {
		fail("Get after the racy Close: err=%v hung=%v %s", cr.err, hung, pan)
	}
	cr, pan, hung = guard(10*time.Second, func() cres { return cres{err: db.Close()} })
	if hung || pan != "" || cr.err != leveldb.ErrClosed {
		fail("second Close after the racy Close: err=%v hung=%v %s", cr.err, hung, pan)
	}
	if st.OpCount() != c0 {
		fail("calls after the racy Close touched the storage")
	}
	if ro {
		stat("race_rounds_read_only")
	}
	stat("race_rounds")
	return out
}
