// c14: the in-memory buffer (leveldb/memdb) is an ordered map, safe under concurrent readers.
// (K) generated sequential programs are run on the real memdb.DB; every output, every
//
//	iterator's internal node/direction and the complete internal arrays (exported under build
//	tag verif) are written as Coq cases for the array model Mem/MemDB.v (Corr/C14Run.v).
//
// (P) the same and much longer programs are checked against a sorted-map oracle in Go, the
//
//	representation invariant is checked on the exported arrays, and a writer runs against 8
//	readers with order/membership/no-panic oracles.
package main

import (
	"encoding/json"
	"fmt"
	"os"
	"path/filepath"
	"sort"
	"strings"
	"sync"
	"sync/atomic"
	"time"

	"github.com/syndtr/goleveldb/leveldb/memdb"
	"verifharness/lib/vlib"
)

type replayFile struct {
	Property string `json:"property"`
	Desc     string `json:"desc"`
	Case     struct {
		Kind    string   `json:"kind"`
		Program *Program `json:"program,omitempty"`
		Conc    *concCfg `json:"conc,omitempty"`
	} `json:"case"`
}

func (s runStats) nontrivial() bool {
	return s.overwriteLenChange >= 1 && s.delTall >= 1 && s.reversals >= 1
}

func countStats(res *vlib.Result, s runStats) {
	res.Count("puts_inserting", s.inserts)
	res.Count("overwrites_value_length_changed", s.overwriteLenChange)
	res.Count("overwrites_same_length", s.overwriteSameLen)
	res.Count("deletes_found", s.delFound)
	res.Count("deletes_of_tall_node", s.delTall)
	res.Count("deletes_absent", s.delAbsent)
	res.Count("iterator_moves", s.moves)
	res.Count("iterator_moves_sliced", s.slicedMoves)
	res.Count("iterator_moves_ending_invalid", s.invalidMoves)
	res.Count("iterator_reversals", s.reversals)
	res.Count("next_on_deleted_key", s.staleNext)
	res.Count("resets", s.resets)
	res.Count("puts_empty_key", s.emptyKey)
	res.Count("puts_empty_value", s.emptyVal)
	res.Count(fmt.Sprintf("max_node_height_%02d", s.maxHeight), 1)
}

// shrink: delta-debugging on the op list (remove chunks while the program still fails)
func shrink(p Program) Program {
	fails := func(q Program) bool { f, _, _, _ := execProgram(q, false); return f != "" }
	f, at, _, _ := execProgram(p, false)
	if f != "" && at >= 0 && at+1 < len(p.Ops) {
		p.Ops = p.Ops[:at+1]
	}
	if strings.Contains(f, "loops forever") {
		return p // every further attempt would leave another goroutine spinning
	}
	for chunk := len(p.Ops) / 2; chunk >= 1; chunk /= 2 {
		for i := 0; i+chunk <= len(p.Ops); {
			q := p
			q.Ops = append(append([]Op{}, p.Ops[:i]...), p.Ops[i+chunk:]...)
			if len(q.Ops) > 0 && fails(q) {
				p = q
			} else {
				i += chunk
			}
		}
	}
	return p
}

func main() {
	a := vlib.ParseArgs()
	res := vlib.NewResult("C14", a.Out, "sequential programs of Put/Delete/Get/Find/Contains/Len/Size/Free/Reset and iterator movements (0-4 iterators, slices with bounds equal to/between/outside stored keys or nil) over key pools with the empty key, prefixes of each other, 0x00/0xff runs, neighbours; 4 comparers; a program is non-trivial when it has >=1 overwrite changing the value length, >=1 successful Delete of a node of height >=2 and >=1 iterator reversal (Next after Prev or Prev after Next on a valid iterator); concurrent rounds (1 writer + 8 readers) are counted separately in the distribution")
	defer res.Write()

	// ---- replay ----
	if a.Replay != "" {
		b, err := os.ReadFile(a.Replay)
		var rf replayFile
		if err != nil || json.Unmarshal(b, &rf) != nil {
			fmt.Fprintln(os.Stderr, "cannot read replay file")
			os.Exit(2)
		}
		switch rf.Case.Kind {
		case "seq":
			rf.Case.Program.fixKinds()
			if f, _, _, _ := execProgram(*rf.Case.Program, false); f != "" {
				res.Violate(f, rf.Case)
			}
			res.Eval("replay", true)
		case "conc":
			for i := 0; i < 5 && res.NViolations() == 0; i++ {
				var st concStats
				if f := runConc(*rf.Case.Conc, &st); f != "" {
					res.Violate(f, rf.Case)
				}
			}
			res.Eval("replay", true)
		}
		return
	}

	// ---- budgets ----
	nK, kOps := 560, 70       // programs rendered for Coq / ops each
	nKBig, kBigOps := 4, 1200 // larger rendered programs
	nP, pOps := 3000, 250     // oracle-only programs
	nPBig, pBigOps, pBigPool := 24, 30000, 4000
	nConc, concWrites := 32, 4000
	if a.Thorough() {
		nK, nKBig = 600, 8
		nP, nPBig = 50000, 200
		nConc, concWrites = 200, 20000
	}
	if strings.HasPrefix(a.Extra, "search") {
		nK, nKBig = 0, 0
		nP, nPBig, nConc = 12000, 24, 24
	}
	r := vlib.NewRNG(a.Seed)

	probeMisuse(res)

	// ---- (K)+(P): rendered programs, then (P)-only programs; each job owns a forked RNG and
	// generates its program inside the worker (deterministic, bounded memory) ----
	type job struct {
		rng    *vlib.RNG
		cfg    genCfg
		cmp    int
		render bool
		final  bool // append the closing Len/Size/Used/Dump
		p      Program
	}
	var jobs []*job
	for i := 0; i < nK; i++ {
		cfg := genCfg{nOps: kOps + r.Intn(kOps), poolSize: r.Range(3, 24), maxIters: r.Range(0, 3), dumps: true}
		if r.Chance(1, 3) {
			cfg.pReset = 12
		}
		jobs = append(jobs, &job{rng: r.Fork(), cfg: cfg, cmp: i % vlib.NumComparers, render: true})
	}
	for i := 0; i < nKBig; i++ {
		cfg := genCfg{nOps: kBigOps, poolSize: 300, maxIters: 2, dumps: false}
		jobs = append(jobs, &job{rng: r.Fork(), cfg: cfg, cmp: i % vlib.NumComparers, render: true, final: true})
	}
	for i := 0; i < nP; i++ {
		cfg := genCfg{nOps: pOps + r.Intn(pOps), poolSize: r.Range(2, 120), maxIters: r.Range(0, 4), dumps: true, bigVals: r.Chance(1, 4)}
		if r.Chance(1, 3) {
			cfg.pReset = 8
		}
		jobs = append(jobs, &job{rng: r.Fork(), cfg: cfg, cmp: r.Intn(vlib.NumComparers)})
	}
	for i := 0; i < nPBig; i++ {
		cfg := genCfg{nOps: pBigOps, poolSize: pBigPool, maxIters: 2, dumps: false, bigVals: true}
		if r.Chance(1, 4) {
			cfg.pReset = 1
		}
		jobs = append(jobs, &job{rng: r.Fork(), cfg: cfg, cmp: i % vlib.NumComparers, final: true})
	}

	type outcome struct {
		fail    string
		coq     string
		st      runStats
		cmp     int
		nops    int
		first   []Op
		skipped bool
	}
	var nFailed int32
	outs := make([]outcome, len(jobs))
	var wg sync.WaitGroup
	sem := make(chan struct{}, 16)
	for i := range jobs {
		wg.Add(1)
		sem <- struct{}{}
		go func(i int) {
			defer wg.Done()
			defer func() { <-sem }()
			j := jobs[i]
			if atomic.LoadInt32(&nFailed) >= 8 {
				outs[i].skipped = true
				return
			}
			j.p = genProgram(j.rng, j.cfg, j.cmp)
			if j.final {
				j.p.Ops = append(j.p.Ops, mkOp(oLen), mkOp(oSize), mkOp(oUsed), mkOp(oDump))
			}
			f, _, coq, st := execProgram(j.p, j.render)
			outs[i] = outcome{fail: f, coq: coq, st: st}
			outs[i].cmp, outs[i].nops = j.p.Cmp, len(j.p.Ops)
			if i < 3 {
				outs[i].first = j.p.Ops[:min(6, len(j.p.Ops))]
			}
			if f == "" {
				j.p = Program{} // keep only failing programs
			} else if strings.Contains(f, "loops forever") {
				atomic.AddInt32(&nFailed, 8)
			} else {
				atomic.AddInt32(&nFailed, 1)
			}
		}(i)
	}
	wg.Wait()
	var cases []string
	for i, o := range outs {
		if o.skipped {
			continue
		}
		if o.fail != "" {
			if res.NViolations() < 5 {
				small := shrink(jobs[i].p)
				f, _, _, _ := execProgram(small, false)
				if f == "" {
					small, f = jobs[i].p, o.fail
				}
				res.Violate(f, map[string]interface{}{"kind": "seq", "program": small})
			}
			continue
		}
		if jobs[i].render {
			cases = append(cases, o.coq)
		}
		countStats(res, o.st)
		res.Count(fmt.Sprintf("comparer_%d", o.cmp), 1)
		res.Count("sequential_programs", 1)
		res.Count("sequential_ops", o.nops)
		if o.st.maxLen >= 1000 {
			res.Count("programs_with_1000+_live_keys", 1)
		}
		res.Eval(fmt.Sprintf("seq/%d/%d", a.Seed, i), o.st.nontrivial())
		if i < 3 {
			res.Sample(map[string]interface{}{"kind": "seq", "cmp": o.cmp, "ops": o.nops, "first_ops": o.first})
		}
	}

	// ---- (P) concurrent ----
	var cst concStats
	var cwg sync.WaitGroup
	csem := make(chan struct{}, 2) // two rounds at a time, each with 10 goroutines
	var cmu sync.Mutex
	for i := 0; i < nConc; i++ {
		cfg := concCfg{Seed: r.Uint64(), Cmp: i % vlib.NumComparers, Writes: concWrites, Pool: []int{6, 20, 60, 300}[i%4], Readers: 8, Capacity: []int{0, 1 << 20}[i%2]}
		cwg.Add(1)
		csem <- struct{}{}
		go func(cfg concCfg) {
			defer cwg.Done()
			defer func() { <-csem }()
			if res.NViolations() > 0 {
				return // something already failed: do not spend the watchdog budget on every round
			}
			if f := runConc(cfg, &cst); f != "" {
				cmu.Lock()
				res.Violate("concurrent: "+f, map[string]interface{}{"kind": "conc", "conc": cfg})
				cmu.Unlock()
			}
			res.Count("concurrent_rounds", 1)
			res.Eval(fmt.Sprintf("conc/%d", cfg.Seed), false)
		}(cfg)
	}
	cwg.Wait()
	res.Count("concurrent_reader_random_steps", int(cst.steps))
	res.Count("concurrent_complete_scans", int(cst.scans))
	res.Count("concurrent_scan_next_steps", int(cst.nexts))
	res.Count("concurrent_scan_prev_steps", int(cst.prevs))
	res.Count("concurrent_point_reads", int(cst.gets))

	// ---- (K) case files: balance by size ----
	sort.SliceStable(cases, func(i, j int) bool { return len(cases[i]) > len(cases[j]) })
	shards := 16
	bal := make([][]string, shards)
	sz := make([]int, shards)
	for _, c := range cases {
		m := 0
		for s := range sz {
			if sz[s] < sz[m] {
				m = s
			}
		}
		bal[m] = append(bal[m], c)
		sz[m] += len(c)
	}
	var ordered []string
	for _, b := range bal {
		ordered = append(ordered, b...)
	}
	// WriteCases cuts `ordered` into equal counts; write the shards ourselves to keep the balance
	writeShards(res, a.Out, bal)
	_ = ordered
}

func writeShards(res *vlib.Result, out string, bal [][]string) {
	n := 0
	for _, b := range bal {
		if len(b) == 0 {
			continue
		}
		// one shard per call keeps vlib's file format; the name index must be unique, so write directly
		name := fmt.Sprintf("cases_C14_%d.v", n)
		var sb strings.Builder
		sb.WriteString("From GL Require Import Corr.C14Run.\n")
		sb.WriteString("From Coq Require Import List NArith ZArith String.\nImport ListNotations.\nOpen Scope string_scope.\nOpen Scope N_scope.\n")
		sb.WriteString(fmt.Sprintf("Definition cases : list c14case :=\n %s.\n", vlib.CoqList(b)))
		sb.WriteString("Definition M := Eval vm_compute in mismatches cases.\nPrint M.\n")
		os.WriteFile(filepath.Join(out, name), []byte(sb.String()), 0o644)
		res.KCaseFiles = append(res.KCaseFiles, fmt.Sprintf("%s:%d", name, res.KCases))
		res.KCases += len(b)
		n++
	}
}

// probeMisuse records (not as a violation) what an iterator that outlives Reset does: the
// model and the theorems exclude it, the DB itself never does it (it resets a memdb only when no
// reference is left).
func probeMisuse(res *vlib.Result) {
	done := make(chan struct{})
	go func() { probeMisuseRaw(res); close(done) }()
	select {
	case <-done:
	case <-time.After(10 * time.Second):
	}
}

func probeMisuseRaw(res *vlib.Result) {
	defer func() {
		if e := recover(); e != nil {
			res.Extra["iterator_used_after_Reset"] = fmt.Sprintf("panics: %v", e)
		}
	}()
	db := memdb.New(vlib.ComparerByID(0), 0)
	db.Put([]byte("a"), []byte("1"))
	db.Put([]byte("b"), []byte("2"))
	it := db.NewIterator(nil)
	it.First()
	it.Next()
	db.Reset()
	ok := it.Next()
	res.Extra["iterator_used_after_Reset"] = fmt.Sprintf("Next returned %v key %q", ok, it.Key())
}

func min(a, b int) int {
	if a < b {
		return a
	}
	return b
}
