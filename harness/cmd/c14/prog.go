package main

import (
	"bytes"
	"encoding/hex"
	"fmt"

	"github.com/syndtr/goleveldb/leveldb/comparer"
	"verifharness/lib/vlib"
)

// ---- programs ----

const (
	oPut = iota
	oDel
	oGet
	oFind
	oHas
	oLen
	oSize
	oUsed
	oReset
	oNewIter
	oFirst
	oLast
	oSeek
	oNext
	oPrev
	oDump
)

var opNames = []string{"put", "del", "get", "find", "has", "len", "size", "used", "reset", "newiter", "first", "last", "seek", "next", "prev", "dump"}

// Op is one call.  K/V/Start/Limit are hex strings in JSON; a nil pointer is Go nil.
type Op struct {
	Kind     int     `json:"-"`
	Name     string  `json:"op"`
	K        *string `json:"k,omitempty"`
	V        *string `json:"v,omitempty"`
	ID       int     `json:"id,omitempty"`
	HasSlice bool    `json:"slice,omitempty"`
	Start    *string `json:"start,omitempty"`
	Limit    *string `json:"limit,omitempty"`
}

type Program struct {
	Cmp      int  `json:"cmp"`
	Capacity int  `json:"capacity"`
	Ops      []Op `json:"ops"`
}

func hx(b []byte) *string {
	if b == nil {
		return nil
	}
	s := hex.EncodeToString(b)
	return &s
}

func unhx(s *string) []byte {
	if s == nil {
		return nil
	}
	b, _ := hex.DecodeString(*s)
	if b == nil {
		b = []byte{}
	}
	return b
}

func mkOp(kind int) Op { return Op{Kind: kind, Name: opNames[kind]} }

func (p *Program) fixKinds() {
	for i := range p.Ops {
		for k, n := range opNames {
			if n == p.Ops[i].Name {
				p.Ops[i].Kind = k
			}
		}
	}
}

// ---- generator ----

type genCfg struct {
	nOps     int
	poolSize int
	maxIters int
	pReset   int // per mille
	dumps    bool
	bigVals  bool
}

// keyPool builds the key universe of one program: empty key, keys that are prefixes of each
// other, runs of 0x00/0xff, bytes around the xor masks of the custom comparers, random keys.
func keyPool(r *vlib.RNG, n int) [][]byte {
	var pool [][]byte
	seen := map[string]bool{}
	add := func(k []byte) {
		if !seen[string(k)] {
			seen[string(k)] = true
			pool = append(pool, k)
		}
	}
	alpha := []byte{0x00, 0x01, 0x54, 0x55, 0x56, 0x7f, 0x80, 0xaa, 0xfe, 0xff, 'a', 'b'}
	for tries := 0; len(pool) < n && tries < 50*n+100; tries++ {
		switch r.Pick(1, 3, 2, 4, 3, 2) {
		case 0:
			add([]byte{})
		case 1: // prefix or extension of an existing key
			if len(pool) > 0 {
				p := pool[r.Intn(len(pool))]
				if r.Bool() && len(p) > 0 {
					add(append([]byte{}, p[:r.Intn(len(p))]...))
				} else {
					add(append(append([]byte{}, p...), r.Bytes(r.Range(1, 2), alpha)...))
				}
			}
		case 2:
			add(bytes.Repeat([]byte{[]byte{0x00, 0xff, 0x55, 0xaa}[r.Intn(4)]}, r.Range(1, 4)))
		case 3:
			add(r.Bytes(r.Range(1, 4), alpha))
		case 4:
			add(r.Bytes(r.Range(1, 8), nil))
		default: // neighbour of an existing key: last byte +-1
			if len(pool) > 0 {
				p := append([]byte{}, pool[r.Intn(len(pool))]...)
				if len(p) > 0 {
					if r.Bool() {
						p[len(p)-1]++
					} else {
						p[len(p)-1]--
					}
					add(p)
				}
			}
		}
	}
	for len(pool) < n { // fill up with counters (large pools)
		add([]byte(fmt.Sprintf("k%06d", len(pool)*7919%1000003)))
	}
	return pool
}

func genValue(r *vlib.RNG, big bool) []byte {
	switch r.Pick(2, 4, 3, 1) {
	case 0:
		return []byte{}
	case 1:
		return r.Bytes(r.Range(1, 3), nil)
	case 2:
		return r.Bytes(r.Range(4, 12), nil)
	default:
		if big {
			return r.Bytes(r.Range(50, 400), nil)
		}
		return r.Bytes(r.Range(13, 24), nil)
	}
}

// a key for a query / slice bound: equal to a pool key, between/outside pool keys, or random
func genProbe(r *vlib.RNG, pool [][]byte) []byte {
	switch r.Pick(6, 2, 1, 1, 1) {
	case 0:
		return pool[r.Intn(len(pool))]
	case 1:
		p := append([]byte{}, pool[r.Intn(len(pool))]...)
		switch r.Intn(3) {
		case 0:
			return append(p, 0x00)
		case 1:
			if len(p) > 0 {
				p[len(p)-1]--
			}
			return p
		default:
			if len(p) > 0 {
				p[len(p)-1]++
			}
			return p
		}
	case 2:
		return []byte{}
	case 3:
		return bytes.Repeat([]byte{[]byte{0xff, 0xaa, 0x00, 0x55}[r.Intn(4)]}, r.Range(1, 9))
	default:
		return r.Bytes(r.Range(1, 5), nil)
	}
}

func genSlice(r *vlib.RNG, pool [][]byte, o *Op) {
	switch r.Pick(3, 6, 1) {
	case 0: // nil slice
		return
	case 1:
		o.HasSlice = true
		if r.Chance(3, 4) {
			o.Start = hx(genProbe(r, pool))
		}
		if r.Chance(3, 4) {
			o.Limit = hx(genProbe(r, pool))
		}
	default: // &util.Range{} with both bounds nil
		o.HasSlice = true
	}
}

// genProgram produces one sequential program.  tall reports, for a live key, whether the node
// the implementation created for it is tall (height >= 2): the generator prefers deleting those.
func genProgram(r *vlib.RNG, cfg genCfg, cmpID int) Program {
	p := Program{Cmp: cmpID, Capacity: []int{0, 0, 16, 64, 4096, 1 << 20}[r.Intn(6)]}
	pool := keyPool(r, cfg.poolSize)
	live := map[string]bool{}
	var liveKeys [][]byte
	iters := 0
	wIter := 30
	if cfg.maxIters == 0 {
		wIter = 0
	}
	for len(p.Ops) < cfg.nOps {
		var o Op
		switch r.Pick(34, 12, 6, 6, 4, 2, 2, 1, wIter) {
		case 0:
			o = mkOp(oPut)
			k := pool[r.Intn(len(pool))]
			if len(liveKeys) > 0 && r.Chance(1, 4) { // overwrite on purpose
				k = liveKeys[r.Intn(len(liveKeys))]
			}
			o.K, o.V = hx(k), hx(genValue(r, cfg.bigVals))
			if !live[string(k)] {
				live[string(k)] = true
				liveKeys = append(liveKeys, k)
			}
		case 1:
			o = mkOp(oDel)
			k := genProbe(r, pool)
			if len(liveKeys) > 0 && r.Chance(2, 3) {
				k = liveKeys[r.Intn(len(liveKeys))]
			}
			o.K = hx(k)
			if live[string(k)] {
				delete(live, string(k))
				for i := range liveKeys {
					if bytes.Equal(liveKeys[i], k) {
						liveKeys = append(liveKeys[:i], liveKeys[i+1:]...)
						break
					}
				}
			}
		case 2:
			o = mkOp(oGet)
			o.K = hx(genProbe(r, pool))
		case 3:
			o = mkOp(oFind)
			o.K = hx(genProbe(r, pool))
		case 4:
			o = mkOp(oHas)
			o.K = hx(genProbe(r, pool))
		case 5:
			o = mkOp(oLen)
		case 6:
			o = mkOp(oSize)
		case 7:
			o = mkOp(oUsed)
		default:
			if iters == 0 || (iters < cfg.maxIters && r.Chance(1, 12)) {
				o = mkOp(oNewIter)
				if iters < cfg.maxIters {
					o.ID = iters
					iters++
				} else {
					o.ID = r.Intn(iters)
				}
				genSlice(r, pool, &o)
			} else {
				id := r.Intn(iters)
				// short walks: several movements of the same iterator in a row
				for n := r.Range(1, 5); n > 0 && len(p.Ops) < cfg.nOps; n-- {
					switch r.Pick(2, 2, 3, 6, 6) {
					case 0:
						o = mkOp(oFirst)
					case 1:
						o = mkOp(oLast)
					case 2:
						o = mkOp(oSeek)
						o.K = hx(genProbe(r, pool))
					case 3:
						o = mkOp(oNext)
					default:
						o = mkOp(oPrev)
					}
					o.ID = id
					if n > 1 {
						p.Ops = append(p.Ops, o)
					}
				}
			}
		}
		p.Ops = append(p.Ops, o)
		if cfg.pReset > 0 && r.Intn(1000) < cfg.pReset {
			p.Ops = append(p.Ops, mkOp(oReset))
			live = map[string]bool{}
			liveKeys = nil
			iters = 0
		}
		if cfg.dumps && r.Chance(1, 40) {
			p.Ops = append(p.Ops, mkOp(oDump))
		}
	}
	if cfg.dumps {
		p.Ops = append(p.Ops, mkOp(oLen), mkOp(oSize), mkOp(oUsed), mkOp(oDump))
	}
	return p
}

// ---- oracle: a sorted slice and the reference cursor (Mem/MemSpec.v in Go) ----

type kv struct{ k, v []byte }

type ocur struct {
	hasSlice     bool
	start, limit []byte
	cur          *kv
	fwd, stale   bool
}

type oracle struct {
	cmp  comparer.Comparer
	ents []kv
	used int
	curs map[int]*ocur
	ever map[string]bool // every (key,value) ever stored since the last Reset
}

func newOracle(c comparer.Comparer) *oracle {
	return &oracle{cmp: c, curs: map[int]*ocur{}, ever: map[string]bool{}}
}

func pairKey(k, v []byte) string { return fmt.Sprintf("%x/%x", k, v) }

// index of the first entry with key >= k
func (o *oracle) lowerBound(k []byte) int {
	lo, hi := 0, len(o.ents)
	for lo < hi {
		m := (lo + hi) / 2
		if o.cmp.Compare(o.ents[m].k, k) < 0 {
			lo = m + 1
		} else {
			hi = m
		}
	}
	return lo
}

func (o *oracle) put(k, v []byte) {
	k, v = append([]byte{}, k...), append([]byte{}, v...)
	o.used += len(k) + len(v)
	o.ever[pairKey(k, v)] = true
	i := o.lowerBound(k)
	if i < len(o.ents) && o.cmp.Compare(o.ents[i].k, k) == 0 {
		o.ents[i] = kv{k, v}
		return
	}
	o.ents = append(o.ents, kv{})
	copy(o.ents[i+1:], o.ents[i:])
	o.ents[i] = kv{k, v}
}

func (o *oracle) get(k []byte) ([]byte, bool) {
	i := o.lowerBound(k)
	if i < len(o.ents) && o.cmp.Compare(o.ents[i].k, k) == 0 {
		return o.ents[i].v, true
	}
	return nil, false
}

func (o *oracle) del(k []byte) bool {
	i := o.lowerBound(k)
	if i < len(o.ents) && o.cmp.Compare(o.ents[i].k, k) == 0 {
		o.ents = append(o.ents[:i], o.ents[i+1:]...)
		for _, c := range o.curs {
			if c.cur != nil && o.cmp.Compare(c.cur.k, k) == 0 {
				c.stale = true
			}
		}
		return true
	}
	return false
}

func (o *oracle) size() int {
	s := 0
	for _, e := range o.ents {
		s += len(e.k) + len(e.v)
	}
	return s
}

func (c *ocur) inRange(cmp comparer.Comparer, k []byte) bool {
	if !c.hasSlice {
		return true
	}
	if c.start != nil && cmp.Compare(k, c.start) < 0 {
		return false
	}
	if c.limit != nil && cmp.Compare(k, c.limit) >= 0 {
		return false
	}
	return true
}

// visible part, scanned plainly (the oracle favours obviousness over speed; programs with
// thousands of keys use few iterator calls)
func (o *oracle) firstVis(c *ocur, pred func(k []byte) bool) *kv {
	for i := range o.ents {
		if c.inRange(o.cmp, o.ents[i].k) && pred(o.ents[i].k) {
			e := o.ents[i]
			return &e
		}
	}
	return nil
}

func (o *oracle) lastVis(c *ocur, pred func(k []byte) bool) *kv {
	for i := len(o.ents) - 1; i >= 0; i-- {
		if c.inRange(o.cmp, o.ents[i].k) && pred(o.ents[i].k) {
			e := o.ents[i]
			return &e
		}
	}
	return nil
}

func always([]byte) bool { return true }

func (o *oracle) first(c *ocur) { c.cur, c.fwd, c.stale = o.firstVis(c, always), true, false }
func (o *oracle) last(c *ocur)  { c.cur, c.fwd, c.stale = o.lastVis(c, always), false, false }
func (o *oracle) seek(c *ocur, k []byte) {
	c.cur, c.fwd, c.stale = o.firstVis(c, func(x []byte) bool { return o.cmp.Compare(x, k) >= 0 }), true, false
}

// next returns false when the reference gives no answer (stale cursor)
func (o *oracle) next(c *ocur) bool {
	if c.cur == nil {
		if !c.fwd {
			o.first(c)
		}
		return true
	}
	if c.stale {
		return false
	}
	k := c.cur.k
	c.cur, c.fwd, c.stale = o.firstVis(c, func(x []byte) bool { return o.cmp.Compare(x, k) > 0 }), true, false
	return true
}

func (o *oracle) prev(c *ocur) {
	if c.cur == nil {
		if c.fwd {
			o.last(c)
		}
		return
	}
	k := c.cur.k
	c.cur, c.fwd, c.stale = o.lastVis(c, func(x []byte) bool { return o.cmp.Compare(x, k) < 0 }), false, false
}
