package main

import (
	"bytes"
	"fmt"
	"math/rand"
	"strings"
	"sync/atomic"
	"time"

	"github.com/syndtr/goleveldb/leveldb/iterator"
	"github.com/syndtr/goleveldb/leveldb/memdb"
	"github.com/syndtr/goleveldb/leveldb/util"
	"verifharness/lib/vlib"
)

// heightGen replicates memdb.DB.randHeight: math/rand source seeded with 0xdeadbeef (again at
// every Reset), branching 4, capped at tMaxHeight.  Gen/ConstsOkMem.v re-proves on every run that
// these literals are the ones in the source; the full-array comparison (KDump) checks the result.
type heightGen struct {
	rnd  *rand.Rand
	tmax int
}

func newHeightGen() *heightGen {
	tmax, _, _, _, _, _ := memdb.VerifConsts()
	return &heightGen{rnd: rand.New(rand.NewSource(0xdeadbeef)), tmax: tmax}
}

func (g *heightGen) reset() { g.rnd = rand.New(rand.NewSource(0xdeadbeef)) }

func (g *heightGen) next() int {
	const branching = 4
	h := 1
	for h < g.tmax && g.rnd.Int()%branching == 0 {
		h++
	}
	return h
}

// stats of one program run, for the non-triviality rule and the distribution
type runStats struct {
	overwriteLenChange int
	overwriteSameLen   int
	inserts            int
	delFound           int
	delTall            int
	delAbsent          int
	reversals          int
	resets             int
	staleNext          int
	slicedMoves        int
	moves              int
	invalidMoves       int
	emptyKey           int
	emptyVal           int
	maxLen             int
	maxHeight          int
}

// execProgram runs p on a fresh memdb.DB, checks every answer against the sorted-map oracle (P)
// and, if render is set, returns the observed run as Coq text for (K).
// The first failure is returned as (description, index of the failing op).
func execProgram(p Program, render bool) (fail string, failAt int, coq string, st runStats) {
	var progress int32
	type result struct {
		fail   string
		failAt int
		coq    string
		st     runStats
	}
	ch := make(chan result, 1)
	go func() {
		f, at, cq, s := execProgramRaw(p, render, &progress)
		ch <- result{f, at, cq, s}
	}()
	// watchdog on progress, not on total time (the machine may be heavily loaded): the run is
	// declared hung when the index of the operation being executed has not moved for 15 s
	const stall = 15
	tick := time.NewTicker(time.Second)
	defer tick.Stop()
	last, same := int32(-1), 0
	for {
		select {
		case r := <-ch:
			return r.fail, r.failAt, r.coq, r.st
		case <-tick.C:
			cur := atomic.LoadInt32(&progress)
			if cur == last {
				same++
			} else {
				last, same = cur, 0
			}
			if same >= stall {
				// the goroutine is left spinning; the caller reports and the process exits soon after
				at := int(cur)
				name := "?"
				if at < len(p.Ops) {
					name = p.Ops[at].Name
				}
				return fmt.Sprintf("op %d %s did not return within %d s: the call loops forever", at, name, stall), at, "", runStats{}
			}
		}
	}
}

func execProgramRaw(p Program, render bool, progress *int32) (fail string, failAt int, coq string, st runStats) {
	failAt = -1
	cmp := vlib.ComparerByID(p.Cmp)
	db := memdb.New(cmp, p.Capacity)
	or := newOracle(cmp)
	hg := newHeightGen()
	its := map[int]iterator.Iterator{}
	lastMove := map[int]int{}   // +1 after a forward movement, -1 after a backward one
	heights := map[string]int{} // live key -> height of its node
	var sb []string
	idx := 0
	lastReset := -1
	defer func() {
		if e := recover(); e != nil {
			fail = fmt.Sprintf("panic in %s (op %d): %v", p.Ops[idx].Name, idx, e)
			failAt = idx
		}
	}()
	bad := func(f string, a ...interface{}) {
		if fail == "" {
			fail = fmt.Sprintf("op %d %s: ", idx, p.Ops[idx].Name) + fmt.Sprintf(f, a...)
			failAt = idx
		}
	}
	emit := func(f string, a ...interface{}) {
		if render {
			sb = append(sb, fmt.Sprintf(f, a...))
		}
	}
	z := func(n int) string { return fmt.Sprintf("(%d)%%Z", n) }
	for idx = 0; idx < len(p.Ops) && fail == ""; idx++ {
		o := p.Ops[idx]
		atomic.StoreInt32(progress, int32(idx))
		k, v := unhx(o.K), unhx(o.V)
		switch o.Kind {
		case oPut:
			before := db.Len()
			oldv, had := or.get(k)
			if err := db.Put(k, v); err != nil {
				bad("Put returned %v", err)
			}
			h := 1
			if db.Len() > before {
				h = hg.next()
				heights[string(k)] = h
				st.inserts++
				if h > st.maxHeight {
					st.maxHeight = h
				}
			}
			if had {
				if len(oldv) != len(v) {
					st.overwriteLenChange++
				} else {
					st.overwriteSameLen++
				}
			}
			if len(k) == 0 {
				st.emptyKey++
			}
			if len(v) == 0 {
				st.emptyVal++
			}
			or.put(k, v)
			if db.Len() != len(or.ents) {
				bad("Len()=%d after Put, map has %d keys", db.Len(), len(or.ents))
			}
			if len(or.ents) > st.maxLen {
				st.maxLen = len(or.ents)
			}
			emit("KPut %s %s %d", vlib.CoqHex(k), vlib.CoqHex(v), h)
		case oDel:
			err := db.Delete(k)
			exp := or.del(k)
			if exp {
				st.delFound++
				if heights[string(k)] >= 2 {
					st.delTall++
				}
				delete(heights, string(k))
			} else {
				st.delAbsent++
			}
			if (err == nil) != exp || (err != nil && err != memdb.ErrNotFound) {
				bad("Delete(%x) returned %v, key present in map: %v", k, err, exp)
			}
			emit("KDel %s %s", vlib.CoqHex(k), vlib.CoqBool(err == nil))
		case oGet:
			got, err := db.Get(k)
			exp, ok := or.get(k)
			if (err == nil) != ok || (err != nil && err != memdb.ErrNotFound) || (ok && !bytes.Equal(got, exp)) {
				bad("Get(%x) = %x, %v; map has %x, present %v", k, got, err, exp, ok)
			}
			if err == nil {
				emit("KGet %s (Some %s)", vlib.CoqHex(k), vlib.CoqHex(got))
			} else {
				emit("KGet %s None", vlib.CoqHex(k))
			}
		case oFind:
			rk, rv, err := db.Find(k)
			i := or.lowerBound(k)
			if i < len(or.ents) {
				if err != nil || !bytes.Equal(rk, or.ents[i].k) || !bytes.Equal(rv, or.ents[i].v) {
					bad("Find(%x) = %x,%x,%v; first pair >= key in map is %x,%x", k, rk, rv, err, or.ents[i].k, or.ents[i].v)
				}
			} else if err != memdb.ErrNotFound {
				bad("Find(%x) = %x,%x,%v; map has no key >= it", k, rk, rv, err)
			}
			if err == nil {
				emit("KFind %s (Some (%s, %s))", vlib.CoqHex(k), vlib.CoqHex(rk), vlib.CoqHex(rv))
			} else {
				emit("KFind %s None", vlib.CoqHex(k))
			}
		case oHas:
			got := db.Contains(k)
			_, ok := or.get(k)
			if got != ok {
				bad("Contains(%x) = %v; map: %v", k, got, ok)
			}
			emit("KHas %s %s", vlib.CoqHex(k), vlib.CoqBool(got))
		case oLen:
			if db.Len() != len(or.ents) {
				bad("Len() = %d; map has %d keys", db.Len(), len(or.ents))
			}
			emit("KLen %s", z(db.Len()))
		case oSize:
			if db.Size() != or.size() {
				bad("Size() = %d; sum of key and value lengths in map = %d", db.Size(), or.size())
			}
			emit("KSize %s", z(db.Size()))
		case oUsed:
			used := db.Capacity() - db.Free()
			if used != or.used {
				bad("Capacity()-Free() = %d; bytes appended since Reset = %d", used, or.used)
			}
			if db.Free() < 0 {
				bad("Free() = %d", db.Free())
			}
			emit("KUsed %s", z(used))
		case oReset:
			for id, it := range its {
				it.Release()
				delete(its, id)
			}
			db.Reset()
			lastReset = idx
			hg.reset()
			or = newOracle(cmp)
			heights = map[string]int{}
			lastMove = map[int]int{}
			st.resets++
			if db.Len() != 0 || db.Size() != 0 || db.Capacity()-db.Free() != 0 {
				bad("after Reset: Len %d Size %d used %d", db.Len(), db.Size(), db.Capacity()-db.Free())
			}
			emit("KReset")
		case oNewIter:
			if old, ok := its[o.ID]; ok {
				old.Release()
			}
			var sl *util.Range
			c := &ocur{}
			if o.HasSlice {
				sl = &util.Range{Start: unhx(o.Start), Limit: unhx(o.Limit)}
				c.hasSlice, c.start, c.limit = true, sl.Start, sl.Limit
			}
			its[o.ID] = db.NewIterator(sl)
			or.curs[o.ID] = c
			delete(lastMove, o.ID)
			if o.HasSlice {
				emit("KNewIter %d (Some (%s, %s))", o.ID, vlib.CoqOptHex(sl.Start), vlib.CoqOptHex(sl.Limit))
			} else {
				emit("KNewIter %d None", o.ID)
			}
		case oFirst, oLast, oSeek, oNext, oPrev:
			it, ok := its[o.ID]
			if !ok {
				continue // generator never does this; ignore
			}
			c := or.curs[o.ID]
			var prevKey []byte
			wasValid := it.Valid()
			if wasValid {
				prevKey = append([]byte{}, it.Key()...)
			}
			var ret bool
			defined := true
			dir := 0
			switch o.Kind {
			case oFirst:
				ret = it.First()
				or.first(c)
			case oLast:
				ret = it.Last()
				or.last(c)
			case oSeek:
				ret = it.Seek(k)
				or.seek(c, k)
			case oNext:
				ret = it.Next()
				defined = or.next(c)
				dir = 1
			case oPrev:
				ret = it.Prev()
				or.prev(c)
				dir = -1
			}
			st.moves++
			if c.hasSlice && (c.start != nil || c.limit != nil) {
				st.slicedMoves++
			}
			if dir != 0 && wasValid && lastMove[o.ID] == -dir {
				st.reversals++
			}
			if dir != 0 {
				lastMove[o.ID] = dir
			} else {
				delete(lastMove, o.ID)
			}
			valid, ik, iv := it.Valid(), it.Key(), it.Value()
			if !valid {
				st.invalidMoves++
			}
			if ret != valid {
				bad("returned %v but Valid() = %v", ret, valid)
			}
			if valid != (ik != nil) || valid != (iv != nil) {
				bad("Valid() = %v but Key() nil: %v, Value() nil: %v", valid, ik == nil, iv == nil)
			}
			if it.Error() != nil {
				bad("Error() = %v", it.Error())
			}
			if defined {
				if (c.cur != nil) != valid || (valid && (!bytes.Equal(ik, c.cur.k) || !bytes.Equal(iv, c.cur.v))) {
					exp := "invalid"
					if c.cur != nil {
						exp = fmt.Sprintf("%x=%x", c.cur.k, c.cur.v)
					}
					bad("iterator %d at valid=%v %x=%x; cursor over the sorted map: %s", o.ID, valid, ik, iv, exp)
				}
			} else {
				// Next from a key deleted under the iterator: the reference gives no answer.  What must
				// still hold: order, range, and the pair was stored at some time.
				st.staleNext++
				if valid {
					if cmp.Compare(prevKey, ik) >= 0 {
						bad("Next from deleted key %x yields %x: not increasing", prevKey, ik)
					}
					if !c.inRange(cmp, ik) {
						bad("Next from deleted key yields %x outside the slice", ik)
					}
					if !or.ever[pairKey(ik, iv)] {
						bad("Next from deleted key yields pair %x=%x that was never stored", ik, iv)
					}
					// the oracle follows the implementation from here
					c.cur, c.fwd = &kv{append([]byte{}, ik...), append([]byte{}, iv...)}, true
					if _, live := or.get(ik); live {
						c.stale = false
						// a dead node may carry the key of a live one: the iterator then stands on the dead
						// node and remains outside the reference until it is repositioned
						if node, _, ok := memdb.VerifIterNode(it); ok && node != liveNodeOf(db, cmp, ik) {
							c.stale = true
						}
					} else {
						c.stale = true
					}
				} else {
					c.cur, c.fwd, c.stale = nil, true, false
				}
			}
			node, fwd, _ := memdb.VerifIterNode(it)
			if render {
				name := map[int]string{oFirst: "KFirst", oLast: "KLast", oSeek: "KSeek", oNext: "KNext", oPrev: "KPrev"}[o.Kind]
				arg := ""
				if o.Kind == oSeek {
					arg = " " + vlib.CoqHex(k)
				}
				emit("%s %d%s (IObs %s %s %s %s %d %s)", name, o.ID, arg, vlib.CoqBool(ret), vlib.CoqBool(valid),
					vlib.CoqOptHex(ik), vlib.CoqOptHex(iv), node, vlib.CoqBool(fwd))
			}
		case oDump:
			d := db.VerifDump()
			if d.MaxHeight > st.maxHeight {
				st.maxHeight = d.MaxHeight
			}
			if msg := checkStructure(d, cmp, or); msg != "" {
				bad("internal arrays: %s", msg)
			}
			if render {
				nd := make([]string, len(d.NodeData))
				for i, x := range d.NodeData {
					nd[i] = fmt.Sprint(x)
				}
				emit("KDump [%s] %s %d %s %s", strings.Join(nd, ";"), vlib.CoqHex(d.KvData), d.MaxHeight, z(d.N), z(d.KvSize))
			}
		}
	}
	for _, it := range its {
		it.Release()
	}
	// Reset and reuse must be indistinguishable from a fresh DB: the writes after the last Reset,
	// applied to memdb.New, must give identical internal arrays (node heights included)
	if fail == "" && lastReset >= 0 {
		idx = len(p.Ops) - 1
		fresh := memdb.New(cmp, p.Capacity)
		for _, o := range p.Ops[lastReset+1:] {
			switch o.Kind {
			case oPut:
				fresh.Put(unhx(o.K), unhx(o.V))
			case oDel:
				fresh.Delete(unhx(o.K))
			}
		}
		a, b := db.VerifDump(), fresh.VerifDump()
		if fmt.Sprint(a.NodeData) != fmt.Sprint(b.NodeData) || !bytes.Equal(a.KvData, b.KvData) ||
			a.MaxHeight != b.MaxHeight || a.N != b.N || a.KvSize != b.KvSize {
			fail = fmt.Sprintf("after Reset (op %d) and %d more ops the DB differs from a fresh DB given the same writes: maxHeight %d/%d n %d/%d kvSize %d/%d nodeData equal: %v",
				lastReset, len(p.Ops)-lastReset-1, a.MaxHeight, b.MaxHeight, a.N, b.N, a.KvSize, b.KvSize, fmt.Sprint(a.NodeData) == fmt.Sprint(b.NodeData))
			failAt = len(p.Ops) - 1
		}
	}
	if render {
		coq = fmt.Sprintf("C14Prog %d [%s]", p.Cmp, strings.Join(sb, ";\n  "))
	}
	return
}

// liveNodeOf walks level 0 of the exported arrays to the node holding key (0 if none).
func liveNodeOf(db *memdb.DB, cmp interface{ Compare(a, b []byte) int }, key []byte) int {
	d := db.VerifDump()
	_, _, nKey, _, _, nNext := memdb.VerifConsts()
	for x := d.NodeData[nNext]; x != 0; x = d.NodeData[x+nNext] {
		o := d.NodeData[x]
		if cmp.Compare(d.KvData[o:o+d.NodeData[x+nKey]], key) == 0 {
			return x
		}
	}
	return 0
}

// checkStructure validates the representation invariant the proofs use, directly on the
// exported arrays: level 0 from the head lists exactly the oracle's pairs in order; every
// higher level is the sub-chain of the nodes tall enough; counters match.
func checkStructure(d memdb.VerifDump, cmp interface{ Compare(a, b []byte) int }, or *oracle) string {
	tmax, nKV, nKey, nVal, nHeight, nNext := memdb.VerifConsts()
	nd := d.NodeData
	if len(nd) < nNext+tmax {
		return "nodeData shorter than the head node"
	}
	if d.MaxHeight < 1 || d.MaxHeight > tmax {
		return fmt.Sprintf("maxHeight %d", d.MaxHeight)
	}
	var chain0 []int
	for lvl := tmax - 1; lvl >= 0; lvl-- {
		var chain []int
		steps := 0
		for x := nd[nNext+lvl]; x != 0; x = nd[x+nNext+lvl] {
			if x < 0 || x+nNext+lvl >= len(nd) || nd[x+nHeight] <= lvl {
				return fmt.Sprintf("level %d reaches node %d which is out of range or too short", lvl, x)
			}
			chain = append(chain, x)
			if steps++; steps > len(nd) {
				return fmt.Sprintf("level %d has a cycle", lvl)
			}
		}
		if lvl >= d.MaxHeight && len(chain) != 0 {
			return fmt.Sprintf("level %d >= maxHeight %d is not empty", lvl, d.MaxHeight)
		}
		if lvl == 0 {
			chain0 = chain
		}
	}
	if len(chain0) != len(or.ents) || d.N != len(or.ents) {
		return fmt.Sprintf("level 0 has %d nodes, n = %d, map has %d keys", len(chain0), d.N, len(or.ents))
	}
	size := 0
	for i, x := range chain0 {
		o, kl, vl := nd[x+nKV], nd[x+nKey], nd[x+nVal]
		if o < 0 || o+kl+vl > len(d.KvData) {
			return fmt.Sprintf("node %d points outside kvData", x)
		}
		if !bytes.Equal(d.KvData[o:o+kl], or.ents[i].k) || !bytes.Equal(d.KvData[o+kl:o+kl+vl], or.ents[i].v) {
			return fmt.Sprintf("node %d (position %d) holds %x=%x, map has %x=%x", x, i, d.KvData[o:o+kl], d.KvData[o+kl:o+kl+vl], or.ents[i].k, or.ents[i].v)
		}
		size += kl + vl
	}
	if size != d.KvSize {
		return fmt.Sprintf("kvSize %d, live pairs sum to %d", d.KvSize, size)
	}
	for lvl := 1; lvl < tmax; lvl++ {
		var want []int
		for _, x := range chain0 {
			if nd[x+nHeight] > lvl {
				want = append(want, x)
			}
		}
		i := 0
		for x := nd[nNext+lvl]; x != 0; x = nd[x+nNext+lvl] {
			if i >= len(want) || want[i] != x {
				return fmt.Sprintf("level %d is not the sub-chain of level 0 of nodes taller than %d", lvl, lvl)
			}
			i++
		}
		if i != len(want) {
			return fmt.Sprintf("level %d misses nodes of height > %d", lvl, lvl)
		}
	}
	return ""
}
